import MalVerif.Py.TieFromDictDefs
/-!
# Tie of `_from_dict`, phase 1: the node-creation loop (`FD.fdNode'`) against the model's `loadNode`

`fdNode'` is cut into the asset lookup, `fdMid` (creation of the node object, `attack_step_nodes` bookkeeping) and
`fdTail` (optional keys, `add_node`); `fdNode_eq` (by `rfl`) says that this is the generated loop body verbatim.
Under `nodeShape` every read of the dictionary succeeds with the value `entryOf` reads (`rd_*`, `fdTail_eq`,
`fdMid_eq`), the object written at the fresh reference abstracts to the model's `entryObj` (`absN_obj`), and
`add_node` is `AGS.addNode` (`add_node_tie` / `add_node_error` of `TieGraph.lean`; `addNode_setN_fresh`: `addNode`
does not look at the object stored at the fresh reference).  `nodes_phase` lifts the step to the loop with `forIn_sim`.
-/
namespace MalVerif.Py.Tie.FD
open MalVerif.Py MalVerif.Py.Gen MalVerif.AGS MalVerif.AGraph MalVerif.Py.Tie.TG
open MalVerif.Ser (Key)
set_option linter.unusedVariables false

/-- the part of `fdNode'` after the node object has been created -/
def fdTail (aux : Aux) (s : H) (ag_node : NRef) (node_dict : PyDictA) : Except PyErr (ForInStep (Aux × H)) := do
  let mut s := s
  s := s.setN ag_node { s.n ag_node with defense_status := (← (if (dictIn node_dict "defense_status") then (do pure (some (pyFloatOfStr (← atomStr (← dictGetE node_dict "defense_status"))))) else (do pure none))) }
  s := s.setN ag_node { s.n ag_node with existence_status := (← (if (dictIn node_dict "existence_status") then (do pure (some (atomEqStr (← dictGetE node_dict "existence_status") "True"))) else (do pure none))) }
  s := s.setN ag_node { s.n ag_node with is_viable := (← (if (dictIn node_dict "is_viable") then (do pure (atomEqStr (← dictGetE node_dict "is_viable") "True")) else (do pure true))) }
  s := s.setN ag_node { s.n ag_node with is_necessary := (← (if (dictIn node_dict "is_necessary") then (do pure (atomEqStr (← dictGetE node_dict "is_necessary") "True")) else (do pure true))) }
  s := s.setN ag_node { s.n ag_node with mitre_info := (← (if (dictIn node_dict "mitre_info") then (do pure (some (← atomPyStr (← dictGetE node_dict "mitre_info")))) else (do pure none))) }
  s := s.setN ag_node { s.n ag_node with tags := (← (if (dictIn node_dict "tags") then (do pure (← atomStrs (← dictGetE node_dict "tags"))) else (do pure []))) }
  s := s.setN ag_node { s.n ag_node with extras := (← atomJson (dictGetD node_dict "extras" (PyAtom.idmap []))) }
  s ← graph_add_node s ag_node (← atomOptInt (← dictGetE node_dict "id"))
  pure (ForInStep.yield (aux, s))

/-- the part of `fdNode'` after the asset has been looked up -/
def fdMid (node_asset : Option PyAssetObj) (e : String × PyDictA) (st : Aux × H) : Except PyErr (ForInStep (Aux × H)) := do
  let mut aux := st.1
  let mut s := st.2
  let node_dict := e.2
  let mut ag_node : NRef := aux.nfresh
  aux := { aux with nfresh := aux.nfresh + 1 }
  s := s.setN ag_node ({ type := (← atomStr (← dictGetE node_dict "type")), name := (← atomStr (← dictGetE node_dict "name")), ttc := (← atomOptDictS (← dictGetE node_dict "ttc")), asset := node_asset } : PyNode)
  match node_asset with
  | some v_2 =>
    if (dictIn aux.asn v_2.id) then
      let mut node_attack_steps : (List NRef) := (← dictGetE aux.asn v_2.id)
      node_attack_steps := (node_attack_steps ++ [ag_node])
      aux := { aux with asn := dictSet aux.asn v_2.id node_attack_steps }
    else
      aux := { aux with asn := dictSet aux.asn v_2.id [ag_node] }
  | none =>
    pure ()
  fdTail aux s ag_node node_dict

theorem fdNode_eq (model : Option PyModel) (e : String × PyDictA) (st : Aux × H) :
    fdNode' model e st =
      if ((model).isSome && (dictIn e.2 "asset")) then do
        let node_asset := ((← modelOf model).get_asset_by_name (← atomStr (← dictGetE e.2 "asset")))
        let node_asset_1 ← match node_asset with
          | some v => pure v
          | none => throw PyErr.lookupError
        fdMid node_asset e st
      else fdMid none e st := by
  rfl


/-! ### small facts -/
theorem dictIn_isSome {κ ν : Type} [BEq κ] (d : List (κ × ν)) (k : κ) : dictIn d k = (dictGet d k).isSome := by
  unfold dictIn dictGet
  induction d with
  | nil => rfl
  | cons x d ih =>
    rw [List.any_cons, List.find?_cons]
    cases h : x.1 == k
    · simpa using ih
    · simp

theorem setN_n_self (s : H) (r : NRef) (o : PyNode) : (s.setN r o).n r = o := by
  simp [H.setN]
theorem setN_setN (s : H) (r : NRef) (o o' : PyNode) : (s.setN r o).setN r o' = s.setN r o' := by
  unfold H.setN
  simp only
  congr 1
  funext x
  by_cases hx : x = r <;> simp [hx]

/-! ### the values read for the optional keys -/
theorem rd_def (d : PyDictA) (k : String) (h : isOptStr (dictGet d k) = true) :
    ((if (dictIn d k) then (do pure (some (pyFloatOfStr (← atomStr (← dictGetE d k))))) else (do pure none)) :
      Except PyErr (Option PyFloat)) = .ok ((optStrOf (dictGet d k)).map pyFloatOfStr) := by
  rw [dictIn_isSome]; unfold dictGetE
  generalize dictGet d k = x at h
  rcases x with _ | a
  · rfl
  · cases a <;> first | rfl | cases h

theorem rd_exist (d : PyDictA) (k : String) :
    ((if (dictIn d k) then (do pure (some (atomEqStr (← dictGetE d k) "True"))) else (do pure none)) :
      Except PyErr (Option Bool)) = .ok ((dictGet d k).map (fun x => atomEqStr x "True")) := by
  rw [dictIn_isSome]; unfold dictGetE
  generalize dictGet d k = x
  rcases x with _ | a <;> rfl

theorem rd_flag (d : PyDictA) (k : String) :
    ((if (dictIn d k) then (do pure (atomEqStr (← dictGetE d k) "True")) else (do pure true)) :
      Except PyErr Bool) = .ok (flagOf (dictGet d k) true) := by
  rw [dictIn_isSome]; unfold dictGetE
  generalize dictGet d k = x
  rcases x with _ | a <;> rfl

theorem rd_mitre (d : PyDictA) (k : String) (h : isOptStr (dictGet d k) = true) :
    ((if (dictIn d k) then (do pure (some (← atomPyStr (← dictGetE d k)))) else (do pure none)) :
      Except PyErr (Option String)) = .ok (optStrOf (dictGet d k)) := by
  rw [dictIn_isSome]; unfold dictGetE
  generalize dictGet d k = x at h
  rcases x with _ | a
  · rfl
  · cases a <;> first | rfl | cases h

theorem rd_tags (d : PyDictA) (k : String) (h : isOptStrs (dictGet d k) = true) :
    ((if (dictIn d k) then (do pure (← atomStrs (← dictGetE d k))) else (do pure [])) :
      Except PyErr (List String)) = .ok (strsOf (dictGet d k)) := by
  rw [dictIn_isSome]; unfold dictGetE
  generalize dictGet d k = x at h
  rcases x with _ | a
  · rfl
  · cases a <;> first | rfl | cases h

theorem rd_extras (d : PyDictA) (k : String) (h : isOptJson (dictGet d k) = true) :
    atomJson (dictGetD d k (PyAtom.idmap [])) = .ok (jsonOf (dictGet d k)) := by
  unfold dictGetD
  generalize dictGet d k = x at h
  rcases x with _ | a
  · rfl
  · cases a <;> first | rfl | cases h

/-- the node object after the optional keys have been read -/
def tailObj (o : PyNode) (d : PyDictA) : PyNode :=
  { o with
    defense_status := (optStrOf (dictGet d "defense_status")).map pyFloatOfStr
    existence_status := (dictGet d "existence_status").map (fun x => atomEqStr x "True")
    is_viable := flagOf (dictGet d "is_viable") true
    is_necessary := flagOf (dictGet d "is_necessary") true
    mitre_info := optStrOf (dictGet d "mitre_info")
    tags := strsOf (dictGet d "tags")
    extras := jsonOf (dictGet d "extras") }

theorem fdTail_eq (aux : Aux) (s : H) (r : NRef) (d : PyDictA) (i : Int)
    (hid : dictGet d "id" = some (.int i))
    (h1 : isOptStr (dictGet d "defense_status") = true) (h2 : isOptStr (dictGet d "mitre_info") = true)
    (h3 : isOptStrs (dictGet d "tags") = true) (h4 : isOptJson (dictGet d "extras") = true) :
    fdTail aux s r d =
      (graph_add_node (s.setN r (tailObj (s.n r) d)) r (some i)).bind
        (fun s' => .ok (ForInStep.yield (aux, s'))) := by
  unfold fdTail
  rw [rd_def d _ h1, rd_exist, rd_flag, rd_flag, rd_mitre d _ h2, rd_tags d _ h3, rd_extras d _ h4]
  simp only [bind, Except.bind, pure, Except.pure, dictGetE, hid, atomOptInt, setN_n_self, setN_setN]
  rfl

theorem dictGetE_of_in {κ ν : Type} [BEq κ] (d : List (κ × ν)) (k : κ) (h : dictIn d k = true) :
    ∃ v, dictGetE d k = .ok v := by
  rw [dictIn_isSome] at h
  unfold dictGetE
  cases hx : dictGet d k with
  | none => rw [hx] at h; cases h
  | some v => exact ⟨v, rfl⟩

theorem fdMid_eq (na : Option PyAssetObj) (e : String × PyDictA) (st : Aux × H) (t n : String) (v : PyAtom)
    (c : Option PyDictS) (i : Int)
    (ht : dictGet e.2 "type" = some (.str t)) (hn : dictGet e.2 "name" = some (.str n))
    (hc : dictGet e.2 "ttc" = some v) (hv : atomOptDictS v = .ok c)
    (hid : dictGet e.2 "id" = some (.int i))
    (h1 : isOptStr (dictGet e.2 "defense_status") = true) (h2 : isOptStr (dictGet e.2 "mitre_info") = true)
    (h3 : isOptStrs (dictGet e.2 "tags") = true) (h4 : isOptJson (dictGet e.2 "extras") = true) :
    ∃ aux' : Aux, aux'.nfresh = st.1.nfresh + 1 ∧ aux'.afresh = st.1.afresh ∧
      fdMid na e st =
        (graph_add_node (st.2.setN st.1.nfresh
            (tailObj ({ type := t, name := n, ttc := c, asset := na } : PyNode) e.2)) st.1.nfresh (some i)).bind
          (fun s' => .ok (ForInStep.yield (aux', s'))) := by
  unfold fdMid
  simp only [bind, Except.bind, dictGetE, ht, hn, hc, hv, atomStr]
  cases na with
  | none =>
    refine ⟨{ nfresh := st.1.nfresh + 1, afresh := st.1.afresh, asn := st.1.asn }, rfl, rfl, ?_⟩
    simp only []
    rw [fdTail_eq _ _ _ _ i hid h1 h2 h3 h4, setN_n_self, setN_setN]; rfl
  | some a =>
    simp only []
    by_cases hin : dictIn st.1.asn a.id = true
    · rw [if_pos hin]
      rw [dictIn_isSome] at hin
      cases hx : dictGet st.1.asn a.id with
      | none => rw [hx] at hin; cases hin
      | some l =>
        refine ⟨{ nfresh := st.1.nfresh + 1, afresh := st.1.afresh,
                  asn := dictSet st.1.asn a.id (l ++ [st.1.nfresh]) }, rfl, rfl, ?_⟩
        simp only []
        rw [fdTail_eq _ _ _ _ i hid h1 h2 h3 h4, setN_n_self, setN_setN]; rfl
    · rw [if_neg hin]
      refine ⟨{ nfresh := st.1.nfresh + 1, afresh := st.1.afresh,
                asn := dictSet st.1.asn a.id [st.1.nfresh] }, rfl, rfl, ?_⟩
      rw [fdTail_eq _ _ _ _ i hid h1 h2 h3 h4, setN_n_self, setN_setN]; rfl

/-! ### the object written is the model's `entryObj` -/
theorem floatCls_one (t : String) : (floatCls t = .one) ↔ t = "1.0" := by
  unfold floatCls
  by_cases h : t = "1.0"
  · simp [h]
  · have hb : (t == "1.0") = false := by simpa using h
    rw [hb]
    simp only [Bool.false_eq_true, if_false, h, iff_false]
    split
    · simp
    · split
      · simp
      · split <;> simp

theorem defOne_eq (x : Option String) :
    optEq1 (x.map pyFloatOfStr) = decide (x = some "1.0") := by
  cases x with
  | none => simp [optEq1]
  | some t =>
    simp only [Option.map_some, optEq1, PyFloat.eq1, pyFloatOfStr, Option.some.injEq]
    by_cases h : t = "1.0"
    · simp [h, (floatCls_one "1.0").2 rfl]
    · have : ¬ floatCls t = .one := fun hh => h ((floatCls_one t).1 hh)
      simp [h, this]

theorem ttc_eq (v : PyAtom) (c : Option PyDictS) (hv : atomOptDictS v = .ok c) : c = ttcOf (some v) := by
  cases v <;> first | (cases hv; rfl) | cases hv

theorem absN_obj (d : PyDictA) (wm : Bool) (na : Option PyAssetObj) (t n : String) (v : PyAtom) (c : Option PyDictS)
    (ht : dictGet d "type" = some (.str t)) (hn : dictGet d "name" = some (.str n))
    (hc : dictGet d "ttc" = some v) (hv : atomOptDictS v = .ok c)
    (hna : na.map (·.name) = if wm then optStrOf (dictGet d "asset") else none) :
    absN (tailObj ({ type := t, name := n, ttc := c, asset := na } : PyNode) d) = entryObj wm (entryOf d) := by
  have hc' := ttc_eq v c hv
  unfold absN tailObj entryObj entryOf
  have hs : ∀ u : String, strOf (some (PyAtom.str u)) = u := fun _ => rfl
  simp only [ht, hn, hc, hs, hna, defOne_eq, hc']
  congr 1
  · generalize optStrOf (dictGet d "defense_status") = x
    cases x <;> rfl

/-! ### `addNode` overwrites the object at the fresh reference -/
theorem addNode_setN_fresh (s : H) (nf af : Nat) (q : PyNode) (o : NodeObj) (nid : Option Int) :
    addNode (absS (s.setN nf q) nf af) o nid = addNode (absS s nf af) o nid := by
  rw [addNode_eq, addNode_eq]
  have : addNodeSt (absS (s.setN nf q) nf af) o (nid.getD (absS (s.setN nf q) nf af).nextNode) =
      addNodeSt (absS s nf af) o (nid.getD (absS s nf af).nextNode) := by
    unfold addNodeSt absS H.setN
    simp only
    congr 1
    funext x
    by_cases hx : x = nf <;> simp [hx]
  rw [this]
  rfl

/-- what the shape of a node dictionary gives -/
theorem nodeShape_facts (d : PyDictA) (h : nodeShape d = true) :
    (∃ i, dictGet d "id" = some (.int i)) ∧ (∃ t, dictGet d "type" = some (.str t)) ∧
    (∃ n, dictGet d "name" = some (.str n)) ∧
    (∃ v c, dictGet d "ttc" = some v ∧ atomOptDictS v = .ok c) ∧
    isOptStr (dictGet d "asset") = true ∧ isOptStr (dictGet d "defense_status") = true ∧
    isOptStr (dictGet d "mitre_info") = true ∧ isOptStrs (dictGet d "tags") = true ∧
    isOptJson (dictGet d "extras") = true := by
  unfold nodeShape at h
  simp only [Bool.and_eq_true] at h
  obtain ⟨⟨⟨⟨⟨⟨⟨⟨⟨⟨h1, h2⟩, h3⟩, h4⟩, _⟩, _⟩, h7⟩, h8⟩, h9⟩, h10⟩, h11⟩ := h
  refine ⟨?_, ?_, ?_, ?_, h7, h8, h9, h10, h11⟩
  · generalize dictGet d "id" = x at h1
    rcases x with _ | a
    · cases h1
    · cases a <;> first | exact ⟨_, rfl⟩ | cases h1
  · generalize dictGet d "type" = x at h2
    rcases x with _ | a
    · cases h2
    · cases a <;> first | exact ⟨_, rfl⟩ | cases h2
  · generalize dictGet d "name" = x at h3
    rcases x with _ | a
    · cases h3
    · cases a <;> first | exact ⟨_, rfl⟩ | cases h3
  · generalize dictGet d "ttc" = x at h4
    rcases x with _ | a
    · cases h4
    · cases a <;> first | exact ⟨_, _, rfl, rfl⟩ | cases h4

/-- the iteration after the asset lookup, against `addNode` -/
theorem fdMid_sim (wm : Bool) (na : Option PyAssetObj) (e : String × PyDictA) (he : nodeShape e.2 = true)
    (st : Aux × H) (hna : na.map (·.name) = if wm then optStrOf (dictGet e.2 "asset") else none) :
    (∀ r, fdMid na e st = .ok r → ∃ st', r = .yield st' ∧
      addNode (absX st) (entryObj wm (entryOf e.2)) (some (entryOf e.2).id) = .ok (absX st')) ∧
    (∀ err, fdMid na e st = .error err →
      ∃ e', addNode (absX st) (entryObj wm (entryOf e.2)) (some (entryOf e.2).id) = .error e') := by
  obtain ⟨⟨i, hid⟩, ⟨t, ht⟩, ⟨n, hn⟩, ⟨v, c, hc, hv⟩, _, h1, h2, h3, h4⟩ := nodeShape_facts e.2 he
  obtain ⟨aux', hnf, haf, heq⟩ := fdMid_eq na e st t n v c i ht hn hc hv hid h1 h2 h3 h4
  have hobj := absN_obj e.2 wm na t n v c ht hn hc hv hna
  have hi : (entryOf e.2).id = i := by unfold entryOf; simp only [hid]; rfl
  rw [heq, hi, ← hobj]
  unfold absX
  rw [← addNode_setN_fresh st.2 st.1.nfresh st.1.afresh
    (tailObj ({ type := t, name := n, ttc := c, asset := na } : PyNode) e.2)]
  generalize hs1 : st.2.setN st.1.nfresh (tailObj ({ type := t, name := n, ttc := c, asset := na } : PyNode) e.2) = s1
  have hn1 : tailObj ({ type := t, name := n, ttc := c, asset := na } : PyNode) e.2 = s1.n st.1.nfresh := by
    rw [← hs1, setN_n_self]
  rw [hn1]
  constructor
  · intro r hr
    obtain ⟨s', hs', hr⟩ := bind_ok hr
    cases hr
    refine ⟨(aux', s'), rfl, ?_⟩
    rw [add_node_tie s1 s' st.1.nfresh (some i) st.1.afresh hs']
    simp only [hnf, haf]
  · intro err hr
    cases hg : graph_add_node s1 st.1.nfresh (some i) with
    | ok s' => rw [hg] at hr; cases hr
    | error e2 =>
      -- the node object has just been constructed: its `id` is `None`, the guard against re-adding does not fire
      have hid : (s1.n st.1.nfresh).id = none := by rw [← hn1]; rfl
      exact ⟨_, (add_node_error_fresh s1 st.1.nfresh (some i) st.1.afresh e2 hid hg).2⟩

/-! ### the asset lookup -/

/-- the outcome of the asset lookup of one iteration: either the code raises `LookupError` and the model's test
fires, or the iteration continues as `fdMid` with an asset that the model's `entryObj` agrees with and the
model's test does not fire -/
theorem fdNode_split (m : Option PyModel) (hm : ModelOK m) (e : String × PyDictA) (he : nodeShape e.2 = true)
    (st : Aux × H) :
    (fdNode' m e st = .error .lookupError ∧
      (withModelOf m && (match (entryOf e.2).asset with | some a => !assetKnownOf m a | none => false)) = true) ∨
    (∃ na : Option PyAssetObj, fdNode' m e st = fdMid na e st ∧
      na.map (·.name) = (if withModelOf m then optStrOf (dictGet e.2 "asset") else none) ∧
      (withModelOf m && (match (entryOf e.2).asset with | some a => !assetKnownOf m a | none => false)) = false) := by
  obtain ⟨_, _, _, _, ha, _⟩ := nodeShape_facts e.2 he
  rw [fdNode_eq, dictIn_isSome]
  have hea : (entryOf e.2).asset = optStrOf (dictGet e.2 "asset") := rfl
  rw [hea]
  cases m with
  | none =>
    right
    exact ⟨none, rfl, rfl, rfl⟩
  | some x =>
    generalize hx : dictGet e.2 "asset" = q at ha
    rcases q with _ | a
    · right
      exact ⟨none, rfl, rfl, rfl⟩
    · cases a <;> first | cases ha | skip
      rename_i a
      simp only [Option.isSome_some, Bool.and_self, if_true, modelOf, dictGetE, hx, atomStr, bind, Except.bind,
        withModelOf, optStrOf, assetKnownOf, Bool.true_and]
      cases hg : x.get_asset_by_name a with
      | none => left; exact ⟨rfl, rfl⟩
      | some o =>
        right
        refine ⟨some o, rfl, ?_, rfl⟩
        simp only [Option.map_some, hm x rfl a o hg]

theorem loadNode_unfold (wm : Bool) (ak : String → Bool) (s : St) (e : String × NodeEntry) :
    loadNode wm ak s e =
      if (wm && (match e.2.asset with | some a => !ak a | none => false)) = true then .error .lookupError else
        addNode s (entryObj wm e.2) (some e.2.id) := rfl

/-- one iteration of the node loop that returns: it continues the loop, and the model's `loadNode` gives the abstracted state -/
theorem fdNode_ok (m : Option PyModel) (hm : ModelOK m) (e : String × PyDictA) (he : nodeShape e.2 = true)
    (st : Aux × H) (r : ForInStep (Aux × H)) (h : fdNode' m e st = .ok r) :
    ∃ st', r = .yield st' ∧
      loadNode (withModelOf m) (assetKnownOf m) (absX st) (e.1, entryOf e.2) = .ok (absX st') := by
  rw [loadNode_unfold]
  rcases fdNode_split m hm e he st with ⟨h1, _⟩ | ⟨na, h1, hna, hc⟩
  · rw [h1] at h; cases h
  · rw [h1] at h
    rw [if_neg (by rw [hc]; exact Bool.false_ne_true)]
    exact (fdMid_sim (withModelOf m) na e he st hna).1 r h

/-- one iteration that raises: the model rejects too -/
theorem fdNode_err (m : Option PyModel) (hm : ModelOK m) (e : String × PyDictA) (he : nodeShape e.2 = true)
    (st : Aux × H) (err : PyErr) (h : fdNode' m e st = .error err) :
    ∃ e', loadNode (withModelOf m) (assetKnownOf m) (absX st) (e.1, entryOf e.2) = .error e' := by
  rw [loadNode_unfold]
  rcases fdNode_split m hm e he st with ⟨_, hc⟩ | ⟨na, h1, hna, hc⟩
  · rw [if_pos hc]; exact ⟨_, rfl⟩
  · rw [h1] at h
    rw [if_neg (by rw [hc]; exact Bool.false_ne_true)]
    exact (fdMid_sim (withModelOf m) na e he st hna).2 err h

/-- the whole loop -/
theorem nodes_phase (m : Option PyModel) (hm : ModelOK m) (steps : PyDictD) (hs : ∀ e ∈ steps, nodeShape e.2 = true)
    (st : Aux × H) :
    (∀ st', forIn steps st (fdNode' m) = .ok st' →
      (steps.map (fun e => (e.1, entryOf e.2))).foldlM (loadNode (withModelOf m) (assetKnownOf m)) (absX st) = .ok (absX st')) ∧
    (∀ err, forIn steps st (fdNode' m) = .error err →
      ∃ e', (steps.map (fun e => (e.1, entryOf e.2))).foldlM (loadNode (withModelOf m) (assetKnownOf m)) (absX st) = .error e') := by
  have key := forIn_sim (fdNode' m)
    (fun (t : St) (e : String × PyDictA) => loadNode (withModelOf m) (assetKnownOf m) t (e.1, entryOf e.2))
    absX (fun e => nodeShape e.2 = true) (fun _ => True)
    (fun x st r hx _ hb => by
      obtain ⟨st', h1, h2⟩ := fdNode_ok m hm x hx st r hb
      exact ⟨st', h1, trivial, h2⟩)
    (fun x st e hx _ hb => fdNode_err m hm x hx st e hb)
    steps hs st trivial
  rw [List.foldlM_map]
  exact ⟨fun st' h => (key.1 st' h).2, key.2⟩
end MalVerif.Py.Tie.FD
