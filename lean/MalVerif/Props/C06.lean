import MalVerif.Proofs.MStateInv
/-!
# C06 — a model can only hold what the language allows

The generated classes (`assocClasses`, `defensesOf` — the model of
`LanguageClassesFactory`) expose exactly the association types of the language with
their two fields, declared types and maxima (`assoc_classes_complete`), and for an
asset type exactly the defenses it defines or inherits with default 1 for `Enabled`
and 0 otherwise (`defenses_exact`).  `Valid L s` (`MalVerif/Spec/ModelInv.lean`) —
every asset / association of the model is an instance of a class of `L`, within the
multiplicities, no asset twice in a field, no link twice — holds after every history
(`reachable_valid`), because every offending operation is rejected
(`invalid_rejected_*`).

Class names: associations sharing a name get the class name `name_Left_Right`.  Two
declarations that differ in `(name, leftAsset, rightAsset)` get different class
names *provided no association name and no left asset name contains an underscore*
(`assoc_classes_distinct`); both hypotheses are necessary (`Demo.cex1`, `Demo.cex2`
below).  Declarations that agree in all three get the same class name (last `example`).
-/
namespace MalVerif.C06
open MalVerif.MS

/-! ### the generated classes -/

/-- an asset class has exactly the defenses its type defines or inherits (`foldSteps` walks the `extends`
chain), defaulting to 1 when declared `Enabled` and to 0 otherwise -/
theorem defenses_exact (L : Lang) (t d v : String) :
    (d, v) ∈ defensesOf L t ↔ ∃ decl, (d, decl) ∈ L.foldSteps t ∧ decl.type = "defense" ∧
      v = (if decl.ttcName = some "Enabled" then "1.0" else "0.0") := mem_defensesOf L t d v

/-- one class per declared association, in order, with its two fields, declared types and maxima -/
theorem assoc_classes_complete (L : Lang) :
    ∃ hlen : (assocClasses L).length = L.assocs.length, ∀ (i : Nat) (h : i < L.assocs.length),
      ((assocClasses L)[i]'(hlen ▸ h)).cls = className L L.assocs[i] ∧
      ((assocClasses L)[i]'(hlen ▸ h)).lf = L.assocs[i].leftField ∧
      ((assocClasses L)[i]'(hlen ▸ h)).ltype = L.assocs[i].leftAsset ∧
      ((assocClasses L)[i]'(hlen ▸ h)).lmax = L.assocs[i].leftMax ∧
      ((assocClasses L)[i]'(hlen ▸ h)).rf = L.assocs[i].rightField ∧
      ((assocClasses L)[i]'(hlen ▸ h)).rtype = L.assocs[i].rightAsset ∧
      ((assocClasses L)[i]'(hlen ▸ h)).rmax = L.assocs[i].rightMax := by
  refine ⟨assocClasses_length L, fun i h => ?_⟩
  rw [assocClasses_getElem L i h]
  exact ⟨rfl, rfl, rfl, rfl, rfl, rfl, rfl⟩

/-- the class name: the association's name, or `name_Left_Right` when the name is declared more than once -/
theorem class_name_def (L : Lang) (a : AssocDecl) :
    className L a = if (L.assocs.filter (·.name = a.name)).length > 1
      then a.name ++ "_" ++ a.leftAsset ++ "_" ++ a.rightAsset else a.name := rfl

/-- the classes are exactly those of the declarations -/
theorem mem_assocClasses (L : Lang) (c : AssocClass) : c ∈ assocClasses L ↔ ∃ a ∈ L.assocs, c = classOf L a := by
  rw [assocClasses_eq_map, List.mem_map]
  constructor
  · intro ⟨a, ha, e⟩; exact ⟨a, ha, e.symm⟩
  · intro ⟨a, ha, e⟩; exact ⟨a, ha, e.symm⟩

/-- associations sharing a name remain distinguishable: declarations that differ in name, left or right asset
get different class names, if no association name and no left asset name contains an underscore -/
theorem assoc_classes_distinct (L : Lang) (hn : ∀ a ∈ L.assocs, NoUnderscore a.name ∧ NoUnderscore a.leftAsset)
    (a b : AssocDecl) (ha : a ∈ L.assocs) (hb : b ∈ L.assocs)
    (hne : (a.name, a.leftAsset, a.rightAsset) ≠ (b.name, b.leftAsset, b.rightAsset)) :
    (classOf L a).cls ≠ (classOf L b).cls := className_inj L hn a b ha hb hne

/-- the hypothesis on association names is necessary: `A_X_Y` is also the class name of `A` between `X` and `Y` -/
example : (∀ a ∈ Demo.cex1.assocs, NoUnderscore a.leftAsset) ∧
    ∃ a ∈ Demo.cex1.assocs, ∃ b ∈ Demo.cex1.assocs,
      (a.name, a.leftAsset, a.rightAsset) ≠ (b.name, b.leftAsset, b.rightAsset) ∧
      (classOf Demo.cex1 a).cls = (classOf Demo.cex1 b).cls := by
  unfold NoUnderscore; decide

/-- the hypothesis on left asset names is necessary: `A_X_Y_Z` is `A` between `X_Y` and `Z` and between `X` and `Y_Z` -/
example : (∀ a ∈ Demo.cex2.assocs, NoUnderscore a.name) ∧
    ∃ a ∈ Demo.cex2.assocs, ∃ b ∈ Demo.cex2.assocs,
      (a.name, a.leftAsset, a.rightAsset) ≠ (b.name, b.leftAsset, b.rightAsset) ∧
      (classOf Demo.cex2 a).cls = (classOf Demo.cex2 b).cls := by
  unfold NoUnderscore; decide

/-! ### the model stays valid -/

theorem init_valid (L : Lang) : Valid L {} := init_valid' L

/-- every operation keeps validity (additions are checked, removals only shrink) -/
theorem valid_preserved {L : Lang} {s s' : St} {op : Op} (h : Inv s) (hv : Valid L s)
    (hok : runOp L s op = .ok s') : Valid L s' := runOp_valid h hv hok

theorem addAsset_valid {L : Lang} {s s' : St} {ty : String} {nm : Option String} {defs : List (String × String)}
    {ok : Bool} {ex : String} {id : Option Int} {dup : Bool} (h : Inv s) (hv : Valid L s)
    (hok : addAsset L s ty nm defs ok ex id dup = .ok s') : Valid L s' :=
  runOp_valid (op := .addAsset ty nm defs ok ex id dup) h hv hok

theorem addAssociation_valid {L : Lang} {s s' : St} {cls : String} {left right : List Nat} (h : Inv s)
    (hv : Valid L s) (hok : addAssociation L s cls left right = .ok s') : Valid L s' :=
  runOp_valid (op := .addAssociation cls left right) h hv hok

theorem removeAssociation_valid {L : Lang} {s s' : St} {l : Nat} (h : Inv s) (hv : Valid L s)
    (hok : removeAssociation s l = .ok s') : Valid L s' := runOp_valid (op := .removeAssociation l) h hv hok

theorem removeAssetFromAssociation_valid {L : Lang} {s s' : St} {a l : Nat} (h : Inv s) (hv : Valid L s)
    (hok : removeAssetFromAssociation s a l = .ok s') : Valid L s' :=
  runOp_valid (op := .removeAssetFromAssociation a l) h hv hok

theorem removeAsset_valid {L : Lang} {s s' : St} {a : Nat} (h : Inv s) (hv : Valid L s)
    (hok : removeAsset s a = .ok s') : Valid L s' := runOp_valid (op := .removeAsset a) h hv hok

theorem applyOp_valid (L : Lang) (s : St) (op : Op) (h : Inv s) (hv : Valid L s) : Valid L (applyOp L s op) :=
  applyOp_valid' L s op h hv

/-- after every history the model only holds what the language allows -/
theorem reachable_valid (L : Lang) (ops : List Op) : Valid L (ops.foldl (applyOp L) {}) :=
  foldl_applyOp_valid L ops {} init_inv' (init_valid' L)

/-- what validity says about one association of the model, spelled out -/
theorem valid_link (L : Lang) (s : St) (hv : Valid L s) (l : Nat) (hl : l ∈ s.associations) :
    ∃ c ∈ assocClasses L, (s.lobj l).cls = c.cls ∧ (s.lobj l).lf = c.lf ∧ (s.lobj l).rf = c.rf ∧
      (∀ a ∈ (s.lobj l).left, L.isSub (s.aobj a).type c.ltype = true) ∧
      (∀ a ∈ (s.lobj l).right, L.isSub (s.aobj a).type c.rtype = true) ∧
      okCount c.lmax (s.lobj l).left.length = true ∧ okCount c.rmax (s.lobj l).right.length = true ∧
      (s.lobj l).left.Nodup ∧ (s.lobj l).right.Nodup := by
  obtain ⟨c, hc, hi⟩ := hv.links l hl
  exact ⟨c, hc, hi.cls, hi.lf, hi.rf, hi.left_type, hi.right_type, hi.left_count, hi.right_count,
    hv.left_nodup l hl, hv.right_nodup l hl⟩

/-- `okCount`: no maximum, or at most `k` members (a declared maximum of `0` admits no member: fix 6ddb0c4; the
pre-fix class generator tested the truthiness of the maximum and emitted no `maxItems` for `0`) -/
theorem okCount_iff (m : Option Nat) (n : Nat) : okCount m n = true ↔ (m = none ∨ ∃ k, m = some k ∧ n ≤ k) := by
  cases m with
  | none => exact ⟨fun _ => Or.inl rfl, fun _ => rfl⟩
  | some k =>
    constructor
    · intro h
      have : n ≤ k := by simpa [okCount] using h
      exact Or.inr ⟨k, rfl, this⟩
    · rintro (h | ⟨k', h, hk⟩)
      · cases h
      · cases h; simpa [okCount] using hk

/-- a field declared with maximum multiplicity `0` holds no asset -/
theorem max_zero_admits_nothing (n : Nat) : okCount (some 0) n = true ↔ n = 0 := by
  simp [okCount]

/-- no two associations of the model of the same class link the same pair of assets -/
theorem no_duplicate_link (L : Lang) (s : St) (hv : Valid L s) (l l' : Nat) (hl : l ∈ s.associations)
    (hl' : l' ∈ s.associations) (hc : (s.lobj l).cls = (s.lobj l').cls) (a b : Nat)
    (ha : a ∈ (s.lobj l).left) (hb : b ∈ (s.lobj l).right) (ha' : a ∈ (s.lobj l').left) (hb' : b ∈ (s.lobj l').right) :
    l = l' := by
  apply Classical.byContradiction
  intro hne
  exact hv.no_dup_link l hl l' hl' hne hc ⟨a, ha, b, hb, a, ha', b, hb', rfl, rfl⟩

/-! ### what is rejected -/

/-- a defense value outside [0, 1] (the pjs range check fails) -/
theorem invalid_rejected_defense (L : Lang) (s : St) (ty : String) (nm : Option String) (defs : List (String × String))
    (ex : String) (id : Option Int) (dup : Bool) : ∃ e, addAsset L s ty nm defs false ex id dup = .error e := by
  rcases except_cases (addAsset L s ty nm defs false ex id dup) with ⟨s', hs'⟩ | he
  · obtain ⟨_, _, hd, _⟩ := addAsset_ok hs'; cases hd
  · exact he

/-- a defense the asset type does not have -/
theorem invalid_rejected_unknown_defense (L : Lang) (s : St) (ty : String) (nm : Option String)
    (defs : List (String × String)) (ok : Bool) (ex : String) (id : Option Int) (dup : Bool) (d : String × String)
    (hd : d ∈ defs) (hno : ∀ v, (d.1, v) ∉ defensesOf L ty) : ∃ e, addAsset L s ty nm defs ok ex id dup = .error e := by
  rcases except_cases (addAsset L s ty nm defs ok ex id dup) with ⟨s', hs'⟩ | he
  · obtain ⟨_, _, _, hds, _⟩ := addAsset_ok hs'
    obtain ⟨v, hv⟩ := hds d hd
    exact absurd hv (hno v)
  · exact he

/-- an asset type the language does not have -/
theorem invalid_rejected_asset_type (L : Lang) (s : St) (ty : String) (nm : Option String) (defs : List (String × String))
    (ok : Bool) (ex : String) (id : Option Int) (dup : Bool) (hty : L.findAsset ty = none) :
    ∃ e, addAsset L s ty nm defs ok ex id dup = .error e := by
  rcases except_cases (addAsset L s ty nm defs ok ex id dup) with ⟨s', hs'⟩ | he
  · obtain ⟨_, hk, _⟩ := addAsset_ok hs'; rw [hty] at hk; cases hk
  · exact he

/-- an association class the language does not have -/
theorem invalid_rejected_assoc_class (L : Lang) (s : St) (cls : String) (left right : List Nat)
    (hno : ∀ c ∈ assocClasses L, c.cls ≠ cls) : ∃ e, addAssociation L s cls left right = .error e := by
  rcases except_cases (addAssociation L s cls left right) with ⟨s', hs'⟩ | he
  · obtain ⟨c, hacc, _⟩ := addAssociation_ok hs'
    have hc : c.cls = cls := by simpa using List.find?_some hacc.found
    exact absurd hc (hno c (List.mem_of_find?_eq_some hacc.found))
  · exact he

/-- a member whose type is neither the declared type nor a subtype of it (`c` is the class the name resolves to) -/
theorem invalid_rejected_member_type (L : Lang) (s : St) (cls : String) (left right : List Nat) (c : AssocClass)
    (hc : (assocClasses L).find? (·.cls = cls) = some c)
    (hbad : (∃ a ∈ left, L.isSub (s.aobj a).type c.ltype = false) ∨ (∃ a ∈ right, L.isSub (s.aobj a).type c.rtype = false)) :
    ∃ e, addAssociation L s cls left right = .error e := by
  rcases except_cases (addAssociation L s cls left right) with ⟨s', hs'⟩ | he
  · obtain ⟨c', hacc, _⟩ := addAssociation_ok hs'
    have : c' = c := Option.some.inj (hacc.found.symm.trans hc)
    subst this
    rcases hbad with ⟨a, ha, hf⟩ | ⟨a, ha, hf⟩
    · rw [hacc.left_type a ha] at hf; cases hf
    · rw [hacc.right_type a ha] at hf; cases hf
  · exact he

/-- more members than the maximum multiplicity of the field -/
theorem invalid_rejected_count (L : Lang) (s : St) (cls : String) (left right : List Nat) (c : AssocClass)
    (hc : (assocClasses L).find? (·.cls = cls) = some c)
    (hbad : okCount c.lmax left.length = false ∨ okCount c.rmax right.length = false) :
    ∃ e, addAssociation L s cls left right = .error e := by
  rcases except_cases (addAssociation L s cls left right) with ⟨s', hs'⟩ | he
  · obtain ⟨c', hacc, _⟩ := addAssociation_ok hs'
    have : c' = c := Option.some.inj (hacc.found.symm.trans hc)
    subst this
    rcases hbad with hf | hf
    · rw [hacc.left_count] at hf; cases hf
    · rw [hacc.right_count] at hf; cases hf
  · exact he

/-- the same asset twice in a field -/
theorem invalid_rejected_repeated (L : Lang) (s : St) (cls : String) (left right : List Nat)
    (hbad : ¬ left.Nodup ∨ ¬ right.Nodup) : ∃ e, addAssociation L s cls left right = .error e := by
  rcases except_cases (addAssociation L s cls left right) with ⟨s', hs'⟩ | he
  · obtain ⟨c, hacc, _⟩ := addAssociation_ok hs'
    exact (hbad.elim (fun hn => absurd hacc.left_nodup hn) (fun hn => absurd hacc.right_nodup hn))
  · exact he

/-- a member that is not an asset of the model (never added, or removed) -/
theorem invalid_rejected_not_live (L : Lang) (s : St) (cls : String) (left right : List Nat)
    (hbad : (∃ a ∈ left, a ∉ s.assets) ∨ (∃ a ∈ right, a ∉ s.assets)) :
    ∃ e, addAssociation L s cls left right = .error e := by
  rcases except_cases (addAssociation L s cls left right) with ⟨s', hs'⟩ | he
  · obtain ⟨c, hacc, _⟩ := addAssociation_ok hs'
    rcases hbad with ⟨a, ha, hf⟩ | ⟨a, ha, hf⟩
    · exact absurd (hacc.left_live a ha) hf
    · exact absurd (hacc.right_live a ha) hf
  · exact he

/-- a (left, right) pair that an association of the same class already links -/
theorem invalid_rejected_existing_link (L : Lang) (s : St) (cls : String) (left right : List Nat) (h : Inv s)
    (l' a b : Nat) (hl' : l' ∈ s.associations) (hcls : (s.lobj l').cls = cls) (ha : a ∈ left) (hb : b ∈ right)
    (ha' : a ∈ (s.lobj l').left) (hb' : b ∈ (s.lobj l').right) :
    ∃ e, addAssociation L s cls left right = .error e := by
  rcases except_cases (addAssociation L s cls left right) with ⟨s', hs'⟩ | he
  · obtain ⟨c, hacc, _⟩ := addAssociation_ok hs'
    have := assocExists_of_pair s cls a b l' a b ((h.tta.iff cls l').2 ⟨hl', hcls⟩) ha' hb' rfl rfl
    rw [hacc.fresh_pairs a ha b hb] at this; cases this
  · exact he

/-- conversely: an association that passes all the checks is accepted -/
theorem valid_accepted (L : Lang) (s : St) (cls : String) (left right : List Nat) (c : AssocClass) (h : Inv s)
    (hc : (assocClasses L).find? (·.cls = cls) = some c)
    (hlt : ∀ a ∈ left, L.isSub (s.aobj a).type c.ltype = true) (hrt : ∀ a ∈ right, L.isSub (s.aobj a).type c.rtype = true)
    (hlc : okCount c.lmax left.length = true) (hrc : okCount c.rmax right.length = true)
    (hll : ∀ a ∈ left, a ∈ s.assets) (hrl : ∀ a ∈ right, a ∈ s.assets) (hln : left.Nodup) (hrn : right.Nodup)
    (hnew : ∀ l' ∈ s.associations, (s.lobj l').cls = cls → ∀ a ∈ left, ∀ b ∈ right,
      ¬ (a ∈ (s.lobj l').left ∧ b ∈ (s.lobj l').right)) :
    ∃ s', addAssociation L s cls left right = .ok s' := by
  unfold addAssociation
  rw [hc]
  dsimp only
  have g1 : (left.all (fun a => okMember L c.ltype (s.aobj a).type) && okCount c.lmax left.length &&
      right.all (fun a => okMember L c.rtype (s.aobj a).type) && okCount c.rmax right.length) = true := by
    rw [Bool.and_eq_true, Bool.and_eq_true, Bool.and_eq_true, List.all_eq_true, List.all_eq_true]
    exact ⟨⟨⟨hlt, hlc⟩, hrt⟩, hrc⟩
  have g2 : left.all s.assets.contains = true := by
    rw [List.all_eq_true]; intro a ha; exact List.contains_iff_mem.2 (hll a ha)
  have g4 : right.all s.assets.contains = true := by
    rw [List.all_eq_true]; intro a ha; exact List.contains_iff_mem.2 (hrl a ha)
  have g3 := map_eraseDups_of_inj (fun a => (s.aobj a).name) left hln
    (fun a ha b hb e => h.assets.names_inj a (hll a ha) b (hll b hb) e)
  have g5 := map_eraseDups_of_inj (fun a => (s.aobj a).name) right hrn
    (fun a ha b hb e => h.assets.names_inj a (hrl a ha) b (hrl b hb) e)
  have g6 : left.any (fun a => right.any (fun b => assocExists s cls a b)) = false := by
    rw [List.any_eq_false]
    intro a ha hc'
    obtain ⟨b, hb, he⟩ := List.any_eq_true.1 hc'
    unfold assocExists at he
    obtain ⟨l', hl', hp⟩ := List.any_eq_true.1 he
    rw [Bool.and_eq_true, List.contains_iff_mem, List.contains_iff_mem] at hp
    obtain ⟨hl'', hcl⟩ := (h.tta.iff cls l').1 hl'
    obtain ⟨a', ha', ea⟩ := List.mem_map.1 hp.1
    obtain ⟨b', hb', eb⟩ := List.mem_map.1 hp.2
    have : a' = a := h.assets.ids_inj a' (h.links.left_live l' hl'' a' ha') a (hll a ha) ea
    subst this
    have : b' = b := h.assets.ids_inj b' (h.links.right_live l' hl'' b' hb') b (hrl b hb) eb
    subst this
    exact hnew l' hl'' hcl a' ha b' hb ⟨ha', hb'⟩
  rw [g1, g2, g3, g4, g5, g6]
  exact ⟨_, rfl⟩

/-! ### the hypotheses are satisfiable by non-trivial states -/

/-- `Demo.lang`: `Host extends Base` inherits the Enabled defense `hardened` (default 1) and adds `patched`
(default 0); `Net` has none; the two associations named `Link` get composed class names -/
example : defensesOf Demo.lang "Host" = [("hardened", "1.0"), ("patched", "0.0")] ∧
    defensesOf Demo.lang "Base" = [("hardened", "1.0")] ∧ defensesOf Demo.lang "Net" = [] ∧
    assocClasses Demo.lang = [
      { cls := "Link_Host_Net", lf := "hosts", ltype := "Host", lmax := none, rf := "nets", rtype := "Net", rmax := some 1 },
      { cls := "Link_Host_Host", lf := "peers", ltype := "Host", lmax := none, rf := "peerOf", rtype := "Host", rmax := none },
      { cls := "Uses", lf := "users", ltype := "Base", lmax := none, rf := "used", rtype := "Net", rmax := none }] := by
  decide

example : ∀ a ∈ Demo.lang.assocs, NoUnderscore a.name ∧ NoUnderscore a.leftAsset := by
  unfold NoUnderscore; decide

example : Valid Demo.lang (Demo.ops.foldl (applyOp Demo.lang) {}) := reachable_valid _ _

/-- a `Host` (subtype of `Base`) is accepted in a field declared `Base` -/
example : ∃ s', runOp Demo.lang (Demo.ops.foldl (applyOp Demo.lang) {}) (.addAssociation "Uses" [2, 3] [1]) = .ok s' ∧
    s'.associations = [0, 2] ∧ (s'.lobj 2).left = [2, 3] := ⟨_, rfl, by decide⟩

/-- every operation of `Demo.badOps` is rejected in the state reached by `Demo.ops` (unknown type, bad defense value,
id in use, duplicate name, wrong member type, too many members, repeated member, existing link, removed asset) -/
example : ∀ op ∈ Demo.badOps, (runOp Demo.lang (Demo.ops.foldl (applyOp Demo.lang) {}) op).isOk = false := by
  decide

/-- declarations that agree in name, left and right asset get the same class name: they are *not* distinguishable -/
example :
    let L : Lang := { assocs := [
      { name := "A", leftAsset := "X", leftField := "f", rightAsset := "Y", rightField := "g" },
      { name := "A", leftAsset := "X", leftField := "p", rightAsset := "Y", rightField := "q" }] }
    (assocClasses L).map (·.cls) = ["A_X_Y", "A_X_Y"] := by
  decide

end MalVerif.C06
