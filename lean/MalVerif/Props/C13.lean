import MalVerif.Proofs.AGSInv
/-!
# C13 — pruning removes exactly the unviable / unnecessary `or` / `and` steps

`prune` is the loop of `prune_unviable_and_unnecessary_nodes`: it walks over a
snapshot of the node list and calls `remove_node` on every node that is
`prunable`.  In a consistent graph the result is the node list filtered (order
kept), the labels of the remaining nodes are untouched, the graph is still
consistent, and nothing prunable is left.
-/
namespace MalVerif.C13
open MalVerif.AGS MalVerif.AGraph

theorem prune_nodes (s : St) (h : Consistent s) :
    (prune s).nodes = s.nodes.filter (fun r => !prunable (s.nobj r)) := prune_nodes' s h

/-- the data fields of every node object are unchanged (no hypothesis needed) -/
theorem prune_labels_kept (s : St) (r : Nat) :
    ((prune s).nobj r).viable = (s.nobj r).viable ∧ ((prune s).nobj r).necessary = (s.nobj r).necessary ∧
    ((prune s).nobj r).type = (s.nobj r).type ∧ ((prune s).nobj r).id = (s.nobj r).id ∧
    fullName ((prune s).nobj r) = fullName (s.nobj r) :=
  have hd := prune_keepsData s r
  ⟨hd.viable, hd.necessary, hd.type, hd.id, hd.fullName⟩

theorem prune_consistent (s : St) (h : Consistent s) : Consistent (prune s) := prune_consistent' s h

theorem prune_namesExact (s : St) (h : Consistent s) (hx : NamesExact s) : NamesExact (prune s) :=
  AGS.prune_namesExact s h hx

theorem prune_none_left (s : St) (h : Consistent s) : ∀ r ∈ (prune s).nodes, prunable ((prune s).nobj r) = false := by
  intro r hr
  rw [prune_nodes' s h, List.mem_filter] at hr
  rw [(prune_keepsData s r).prunable]
  simpa using hr.2

/-- pruning again changes nothing in the node list -/
theorem prune_nodes_idem (s : St) (h : Consistent s) : (prune (prune s)).nodes = (prune s).nodes := by
  rw [prune_nodes' (prune s) (prune_consistent' s h), List.filter_eq_self]
  intro r hr
  rw [prune_none_left s h r hr]; rfl

/-- edges between remaining nodes are kept with their multiplicity, edges to pruned nodes are gone -/
theorem prune_edges_closed (s : St) (h : Consistent s) :
    ∀ p ∈ (prune s).nodes, (∀ c ∈ ((prune s).nobj p).children, c ∈ (prune s).nodes) ∧
      (∀ c ∈ ((prune s).nobj p).parents, c ∈ (prune s).nodes) :=
  fun p hp => ⟨(prune_consistent' s h).nodes.children_mem p hp, (prune_consistent' s h).nodes.parents_mem p hp⟩

/-! ### the hypotheses are satisfiable by a non-trivial state -/

example : Consistent (Demo.c13Ops.foldl applyOp {}) := foldl_applyOp_consistent _ _ init_consistent'
example : (Demo.c13Ops.foldl applyOp {}).nodes = [0, 1, 2] ∧ (prune (Demo.c13Ops.foldl applyOp {})).nodes = [0, 2] ∧
    ((prune (Demo.c13Ops.foldl applyOp {})).nobj 0).children = [2] ∧
    ((prune (Demo.c13Ops.foldl applyOp {})).nobj 2).parents = [0] ∧
    ((prune (Demo.c13Ops.foldl applyOp {})).aobj 0).reached = [0] ∧
    ((prune (Demo.c13Ops.foldl applyOp {})).aobj 0).entry = [] := by
  decide

end MalVerif.C13
