import MalVerif.Proofs.ParseFuel
import MalVerif.Proofs.ParseComplete
import MalVerif.Proofs.LexPrefix
/-!
# C17 — malformed source is rejected, never half-compiled

`Spec/MalGrammar.lean` states `mal.g4` rule by rule as derivation relations (`DExpr`, `DParts`, `DPart`, `DTtcExpr`,
…, `DStep`, `DAsset`, `DAssoc`, `DDecl`, `DDecls`), each with the value `malVisitor` builds from the derived
token sequence.

The start rule as written, `mal: declaration+ | EOF`, does not end in `EOF`: the generated parser stops silently at
the first token that cannot start a declaration (`StopsAt`).  Until commit e0054c2 `MalCompiler.compile` returned
the specification of the declarations in front of that token — a surplus `}`, a misspelt `asociations {…}`, any
trailing text was dropped without an error.  That was a genuine defect against this property and has been repaired:
after `parser.mal()` the compiler raises unless the next token is `EOF`.  The model has both: `parseMalRest` /
`parseMalPrefix` (what the generated parser does, unchanged) and `parseMal` / `parseSource` (the compiler's
verdict: the prefix parser must leave nothing; a text that does not lex is rejected).

* `parse_sound_*`: whatever a parsing function returns is the value of a grammatical prefix of its input, and the
  rest is returned untouched — for every rule, up to `parse_rest_sound` for `parser.mal()` and **`parse_sound`** for
  the compiler: a result exists only if the WHOLE token list is derivable by `declaration*`.  There is no way to
  get a specification assembled from fragments.
* `parse_complete_*`, **`parse_exact`**, `reject_iff`: conversely everything derivable is parsed (under the follow
  condition of its rule, with fuel twice its length): `parseMal ts = some ds ↔ DDecls ts [] ds`; a token list is
  rejected iff it is not derivable as a whole.  `parse_rest_exact`: the same for the prefix parser.
* **`trailing_input_rejected`**: if `parser.mal()` leaves tokens, nothing is returned (whatever parsed in front);
  `prefix_variant_accepts_trailing`, `prefix_variant_accepts_lex_error`, `fix_only_rejects`: the pre-fix classifier
  did return a specification for such input (the repaired defect), and the fix changes nothing else.
* `lex_error_rejected`, `source_of_lexable`, `source_exact`; `lexPrefix_of_lexable`, `front_end_on_demand`,
  `front_end_accepts_iff`: the control flow of ANTLR's on-demand token stream ends in a specification exactly when
  `parseSource` returns one.
* `consumes_prefix_*`: every parsing function returns a suffix of its input, strictly shorter for the
  non-optional rules.
* `include_error_propagates`, `bad_file_has_no_spec`, `missing_file_has_no_spec`, `include_of_malformed_file`,
  `include_with_trailing_input`: an included file that is missing, does not lex, does not parse or has trailing
  input makes the compilation of the includer fail as a whole.
* `reject_*` examples.
-/
namespace MalVerif.C17
open MalVerif MalVerif.Mal

/-! ### soundness with respect to the grammar -/

/-- step expressions: `expr`, `parts`, `part` (`reach` = inside a reaches clause; the classification of a name
looks at the tokens after it, hence the right context `rest` in the relation) -/
theorem parse_sound_expr (f : Nat) (reach : Bool) (ts : List Tok) (e : Expr) (rest : List Tok)
    (h : parseExpr f reach ts = some (e, rest)) : ∃ pre, ts = pre ++ rest ∧ DExpr reach pre rest e :=
  (expr_sound f).2.2.2.2 reach ts e rest h

theorem parse_sound_parts (f : Nat) (reach : Bool) (ts : List Tok) (e : Expr) (rest : List Tok)
    (h : parseParts f reach ts = some (e, rest)) : ∃ pre, ts = pre ++ rest ∧ DParts reach pre rest e :=
  (expr_sound f).2.2.1 reach ts e rest h

theorem parse_sound_part (f : Nat) (reach : Bool) (ts : List Tok) (e : Expr) (rest : List Tok)
    (h : parsePart f reach ts = some (e, rest)) : ∃ pre, ts = pre ++ rest ∧ DPart reach pre rest e :=
  (expr_sound f).1 reach ts e rest h

theorem parse_sound_exprlist (f : Nat) (reach : Bool) (ts : List Tok) (l : List Expr) (rest : List Tok)
    (h : parseExprList f reach ts = some (l, rest)) : ∃ pre, ts = pre ++ rest ∧ DExprList reach pre rest l :=
  parseExprList_sound f reach ts l rest h

/-- TTC expressions: `ttcexpr`, `ttcterm`, `ttcfact`, `ttcatom` -/
theorem parse_sound_ttc (f : Nat) :
    (∀ ts t rest, parseTtcAtom f ts = some (t, rest) → ∃ pre, ts = pre ++ rest ∧ DTtcAtom pre t) ∧
    (∀ ts t rest, parseTtcFact f ts = some (t, rest) → ∃ pre, ts = pre ++ rest ∧ DTtcFact pre t) ∧
    (∀ ts t rest, parseTtcTerm f ts = some (t, rest) → ∃ pre, ts = pre ++ rest ∧ DTtcTerm pre t) ∧
    (∀ ts t rest, parseTtcExpr f ts = some (t, rest) → ∃ pre, ts = pre ++ rest ∧ DTtcExpr pre t) :=
  ⟨(ttc_sound f).1, (ttc_sound f).2.1, (ttc_sound f).2.2.2.1, (ttc_sound f).2.2.2.2.2⟩

theorem parse_sound_step (f : Nat) (ts : List Tok) (s : CStep) (rest : List Tok)
    (h : parseStep f ts = some (s, rest)) : ∃ pre, ts = pre ++ rest ∧ DStep pre rest s :=
  parseStep_sound f ts s rest h

theorem parse_sound_asset (f : Nat) (cat : String) (ts : List Tok) (a : CAsset) (rest : List Tok)
    (h : parseAsset f cat ts = some (a, rest)) : ∃ pre, ts = pre ++ rest ∧ DAsset cat pre rest a :=
  parseAsset_sound f cat ts a rest h

theorem parse_sound_mult (ts : List Tok) (m : Nat × Option Nat) (rest : List Tok)
    (h : parseMult ts = some (m, rest)) : ∃ pre, ts = pre ++ rest ∧ DMult pre m := parseMult_sound ts m rest h

theorem parse_sound_assoc (f : Nat) (ts : List Tok) (a : CAssoc) (rest : List Tok)
    (h : parseAssociation f ts = some (a, rest)) : ∃ pre, ts = pre ++ rest ∧ DAssoc pre a :=
  parseAssociation_sound f ts a rest h

theorem parse_sound_decl (f : Nat) (ts : List Tok) (d : Decl) (rest : List Tok)
    (h : parseDecl f ts = some (d, rest)) : ∃ pre, ts = pre ++ rest ∧ DDecl pre rest d :=
  parseDecl_sound f ts d rest h

/-- `parser.mal()` (the start rule as written): the declarations returned are the meaning of a grammatical prefix
`pre`, the tokens after it are handed back untouched; parsing stopped at the end of the input or at a token that
cannot start a declaration; non-empty input gives at least one declaration (`declaration+`) -/
theorem parse_rest_sound (ts : List Tok) (ds : List Decl) (rest : List Tok) (h : parseMalRest ts = some (ds, rest)) :
    ∃ pre, ts = pre ++ rest ∧ DDecls pre rest ds ∧ StopsAt rest ∧ (ts ≠ [] → ds ≠ []) :=
  parseMalRest_sound ts ds rest h

/-- **the compiler's verdict**: a specification is only built from a token list that is derivable AS A WHOLE by
`declaration*` — nothing is left over, nothing is skipped; non-empty input gives at least one declaration -/
theorem parse_sound (ts : List Tok) (ds : List Decl) (h : parseMal ts = some ds) :
    DDecls ts [] ds ∧ (ts ≠ [] → ds ≠ []) :=
  parseMal_sound ts ds h

/-! ### trailing input: the repaired defect -/

/-- the compiler's verdict is: `parser.mal()` succeeds and leaves nothing in the stream -/
theorem parse_iff_rest (ts : List Tok) (ds : List Decl) : parseMal ts = some ds ↔ parseMalRest ts = some (ds, []) :=
  parseMal_eq_some_iff ts ds

/-- **trailing input is rejected**: when the parser stops in front of tokens it cannot continue with, no
specification is returned — whatever could be parsed in front of them -/
theorem trailing_input_rejected (ts : List Tok) (ds : List Decl) (rest : List Tok)
    (h : parseMalRest ts = some (ds, rest)) (hr : rest ≠ []) : parseMal ts = none := by
  unfold parseMal
  rw [h]
  cases rest with
  | nil => exact absurd rfl hr
  | cons t r => rfl

/-- `#id: "x" } junk` — hypotheses of `trailing_input_rejected` are met by the old witness … -/
example : parseMalRest [.hash, .id "id", .colon, .str "\"x\"", .rcurly, .id "junk"] =
    some ([.define "id" (stripQuotes "\"x\"")], [.rcurly, .id "junk"]) := by rfl

/-- … which is therefore rejected -/
theorem trailing_tokens_are_rejected :
    parseMal [.hash, .id "id", .colon, .str "\"x\"", .rcurly, .id "junk"] = none := by
  rfl

/-- the pre-fix classifier (`parser.mal()` without the `EOF` check) returned whatever parsed in front of the trailing
input: the defect, in general … -/
theorem prefix_variant_returns_front (ts : List Tok) (ds : List Decl) (rest : List Tok)
    (h : parseMalRest ts = some (ds, rest)) : parseMalPrefix ts = some ds := by
  rw [parseMalPrefix_eq_rest, h]; rfl

/-- … and on the witness: a specification with the define, the surplus `}` and `junk` dropped silently -/
theorem prefix_variant_accepts_trailing :
    parseMalPrefix [.hash, .id "id", .colon, .str "\"x\"", .rcurly, .id "junk"] =
      some [.define "id" (stripQuotes "\"x\"")] := by
  rfl

/-- the fix only rejects: what the compiler accepts now, the pre-fix classifier accepted with the same result; and
where they differ, the compiler now returns nothing (and tokens were left in the stream) -/
theorem fix_only_rejects (ts : List Tok) :
    (∀ ds, parseMal ts = some ds → parseMalPrefix ts = some ds) ∧
    (∀ ds, parseMalPrefix ts = some ds → parseMal ts ≠ some ds →
      parseMal ts = none ∧ ∃ rest, rest ≠ [] ∧ parseMalRest ts = some (ds, rest)) := by
  constructor
  · intro ds h
    exact prefix_variant_returns_front ts ds [] ((parse_iff_rest ts ds).mp h)
  · intro ds h hne
    rw [parseMalPrefix_eq_rest] at h
    cases hr : parseMalRest ts with
    | none => rw [hr] at h; exact absurd h (by simp)
    | some x =>
      obtain ⟨ds', rest⟩ := x
      rw [hr] at h
      simp only [Option.map_some, Option.some.injEq] at h
      subst h
      have hrest : rest ≠ [] := by
        rintro rfl
        exact hne ((parse_iff_rest ts ds').mpr hr)
      exact ⟨trailing_input_rejected ts ds' rest hr hrest, rest, hrest, rfl⟩

/-! ### completeness: the parser accepts exactly the grammar -/

/-- a derivable expression followed by nothing that could continue it (`.` `*` `[` `(` `\\/` `/\\` `-`) is parsed,
with fuel twice its length -/
theorem parse_complete_expr (reach : Bool) (pre rest : List Tok) (e : Expr) (h : DExpr reach pre rest e)
    (hr : headP contExpr rest = false) (f : Nat) (hf : 2 * pre.length + 1 ≤ f) :
    parseExpr f reach (pre ++ rest) = some (e, rest) := parseExpr_complete reach pre rest e h hr f hf

/-- for expressions, soundness and completeness together -/
theorem parse_exact_expr (reach : Bool) (pre rest : List Tok) (e : Expr) (hr : headP contExpr rest = false) (f : Nat)
    (hf : 2 * pre.length + 1 ≤ f) : parseExpr f reach (pre ++ rest) = some (e, rest) ↔ DExpr reach pre rest e := by
  constructor
  · intro h
    obtain ⟨pre', h1, h2⟩ := parse_sound_expr f reach _ e rest h
    have : pre = pre' := List.append_cancel_right h1
    subst this; exact h2
  · intro h; exact parse_complete_expr reach pre rest e h hr f hf

theorem parse_complete_ttc (pre : List Tok) (t : TTC) (h : DTtcExpr pre t) (rest : List Tok)
    (hr : headP contTExpr rest = false) (f : Nat) (hf : 2 * pre.length + 2 ≤ f) :
    parseTtcExpr f (pre ++ rest) = some (t, rest) := parseTtcExpr_complete pre t h rest hr f hf

/-- a derivable step followed by the next step, `let`, `}` or nothing -/
theorem parse_complete_step (pre rest : List Tok) (s : CStep) (h : DStep pre rest s) (hr : clauseEnd rest = true)
    (f : Nat) (hf : 2 * pre.length + 2 ≤ f) : parseStep f (pre ++ rest) = some (s, rest) :=
  parseStep_complete h hr f hf

theorem parse_complete_asset (cat : String) (pre rest : List Tok) (a : CAsset) (h : DAsset cat pre rest a) (f : Nat)
    (hf : 2 * pre.length + 1 ≤ f) : parseAsset f cat (pre ++ rest) = some (a, rest) := parseAsset_complete h f hf

theorem parse_complete_assoc (pre : List Tok) (a : CAssoc) (h : DAssoc pre a) (rest : List Tok)
    (hr : metaStart rest = false) (f : Nat) (hf : pre.length ≤ 4 * f + 13) :
    parseAssociation f (pre ++ rest) = some (a, rest) := parseAssociation_complete h rest hr f hf

theorem parse_complete_decl (pre rest : List Tok) (d : Decl) (h : DDecl pre rest d) (f : Nat)
    (hf : 2 * pre.length + 1 ≤ f) : parseDecl f (pre ++ rest) = some (d, rest) := parseDecl_complete h f hf

/-- `parser.mal()`: declarations derivable from a prefix that ends where no declaration can start are what the
prefix parser returns (with the fuel it supplies itself), together with exactly the tokens after that prefix -/
theorem parse_rest_complete (pre rest : List Tok) (ds : List Decl) (h : DDecls pre rest ds) (hr : StopsAt rest)
    (hne : pre ≠ [] ∨ rest = []) : parseMalRest (pre ++ rest) = some (ds, rest) := parseMalRest_complete h hr hne

/-- `parser.mal()` is the start rule of the grammar as written: it returns `(ds, rest)` iff `ds` is the meaning of the
prefix in front of `rest`, derivable by `declaration*`, that stops where no declaration can start (and is non-empty
unless everything is empty) -/
theorem parse_rest_exact (ts : List Tok) (ds : List Decl) (rest : List Tok) :
    parseMalRest ts = some (ds, rest) ↔
      ∃ pre, ts = pre ++ rest ∧ DDecls pre rest ds ∧ StopsAt rest ∧ (pre ≠ [] ∨ rest = []) := by
  constructor
  · intro h
    obtain ⟨pre, h1, h2, h3, h4⟩ := parse_rest_sound ts ds rest h
    refine ⟨pre, h1, h2, h3, ?_⟩
    by_cases hp : pre = []
    · right
      have hds : ds = [] := (ddecls_nil_iff h2).mp hp
      subst hp
      simp only [List.nil_append] at h1
      by_cases hts : ts = []
      · rw [← h1]; exact hts
      · exact absurd hds (h4 hts)
    · exact .inl hp
  · rintro ⟨pre, rfl, h2, h3, h4⟩
    exact parse_rest_complete pre rest ds h2 h3 h4

/-- the compiler accepts every token list that is derivable as a whole -/
theorem parse_complete (ts : List Tok) (ds : List Decl) (h : DDecls ts [] ds) : parseMal ts = some ds :=
  parseMal_complete h

/-- **the compiler's verdict is the grammar with `EOF`**: `parseMal ts = some ds` iff the whole of `ts` is derivable
by `declaration*` with meaning `ds` (`ts = []`, `ds = []` being the alternative `EOF` of the start rule) -/
theorem parse_exact (ts : List Tok) (ds : List Decl) : parseMal ts = some ds ↔ DDecls ts [] ds :=
  ⟨fun h => (parse_sound ts ds h).1, parse_complete ts ds⟩

/-- in the form of the property text: a result exists iff the whole input is derivable, and then (`declaration+`)
it has a declaration unless the input is empty -/
theorem parse_exact_plus (ts : List Tok) (ds : List Decl) :
    parseMal ts = some ds ↔ DDecls ts [] ds ∧ (ts = [] ∨ ds ≠ []) := by
  constructor
  · intro h
    obtain ⟨h1, h2⟩ := parse_sound ts ds h
    refine ⟨h1, ?_⟩
    by_cases hts : ts = []
    · exact .inl hts
    · exact .inr (h2 hts)
  · intro h; exact parse_complete ts ds h.1

/-- rejection, exactly: no result iff the token list is not derivable as a whole -/
theorem reject_iff (ts : List Tok) : parseMal ts = none ↔ ¬ ∃ ds, DDecls ts [] ds := by
  constructor
  · rintro h ⟨ds, hx⟩
    rw [parse_complete ts ds hx] at h; exact absurd h (by simp)
  · intro h
    cases hp : parseMal ts with
    | none => rfl
    | some ds => exact absurd ⟨ds, (parse_exact ts ds).mp hp⟩ h

/-! ### every parsing function returns a suffix of its input -/

/-- `CutS ts rest`: `ts = pre ++ rest` with `pre ≠ []`; `Cut`: `pre` may be empty -/
theorem cut_iff (ts rest : List Tok) :
    (Cut ts rest ↔ ∃ pre, ts = pre ++ rest) ∧ (CutS ts rest ↔ ∃ pre, pre ≠ [] ∧ ts = pre ++ rest) :=
  ⟨Iff.rfl, Iff.rfl⟩

theorem cutS_shorter (ts rest : List Tok) (h : CutS ts rest) : rest.length < ts.length := h.length_lt

theorem consumes_prefix_expr (f : Nat) :
    (∀ reach ts e rest, parsePart f reach ts = some (e, rest) → CutS ts rest) ∧
    (∀ reach acc ts e rest, parsePartsLoop f reach acc ts = some (e, rest) → Cut ts rest) ∧
    (∀ reach ts e rest, parseParts f reach ts = some (e, rest) → CutS ts rest) ∧
    (∀ reach acc ts e rest, parseExprLoop f reach acc ts = some (e, rest) → Cut ts rest) ∧
    (∀ reach ts e rest, parseExpr f reach ts = some (e, rest) → CutS ts rest) ∧
    (∀ reach ts l rest, parseExprList f reach ts = some (l, rest) → CutS ts rest) ∧
    (∀ e ts, Cut ts (parseTypes f e ts).2) ∧ (∀ e ts, Cut ts (parseSuffix f e ts).2) :=
  ⟨(expr_cut f).1, (expr_cut f).2.1, (expr_cut f).2.2.1, (expr_cut f).2.2.2.1, (expr_cut f).2.2.2.2,
   parseExprList_cut f, parseTypes_cut f, parseSuffix_cut f⟩

theorem consumes_prefix_ttc (f : Nat) :
    (∀ ts r, parseArgs f ts = some r → CutS ts r.2) ∧
    (∀ ts r, parseTtcAtom f ts = some r → CutS ts r.2) ∧
    (∀ ts r, parseTtcFact f ts = some r → CutS ts r.2) ∧
    (∀ acc ts r, parseTtcTermLoop f acc ts = some r → Cut ts r.2) ∧
    (∀ ts r, parseTtcTerm f ts = some r → CutS ts r.2) ∧
    (∀ acc ts r, parseTtcExprLoop f acc ts = some r → Cut ts r.2) ∧
    (∀ ts r, parseTtcExpr f ts = some r → CutS ts r.2) :=
  ⟨parseArgs_cut f, ttc_cut f⟩

theorem consumes_prefix_decl (f : Nat) :
    (∀ m ts, Cut ts (parseMetas f m ts).2) ∧ (∀ acc ts, Cut ts (parseTags f acc ts).2) ∧
    (∀ acc ts r rest, parseCias f acc ts = some (r, rest) → CutS ts rest) ∧
    (∀ ts s rest, parseStep f ts = some (s, rest) → CutS ts rest) ∧
    (∀ vs ss ts r, parseAssetBody f vs ss ts = some r → CutS ts r.2) ∧
    (∀ cat ts a rest, parseAsset f cat ts = some (a, rest) → CutS ts rest) ∧
    (∀ cat acc ts as rest, parseAssets f cat acc ts = some (as, rest) → CutS ts rest) ∧
    (∀ ts m rest, parseMult ts = some (m, rest) → CutS ts rest) ∧
    (∀ ts a rest, parseAssociation f ts = some (a, rest) → CutS ts rest) ∧
    (∀ acc ts as rest, parseAssociationsBody f acc ts = some (as, rest) → CutS ts rest) ∧
    (∀ ts d rest, parseDecl f ts = some (d, rest) → CutS ts rest) :=
  ⟨parseMetas_cut f, parseTags_cut f, parseCias_cut f, parseStep_cut f, parseAssetBody_cut f, parseAsset_cut f,
   parseAssets_cut f, parseMult_cut, parseAssociation_cut f, parseAssociationsBody_cut f, parseDecl_cut f⟩

/-! ### errors of included files -/

/-- if a file includes `p` and `p` has no specification (missing, lexical error, syntax error, or an error in one
of its own includes), the file has none -/
theorem include_error_propagates (files : String → Option String) (f : Nat) (name src p : String)
    (decls : List Decl) (hfile : files name = some src) (hparse : parseSource src = some decls)
    (hinc : Decl.incl p ∈ decls) (hbad : compileFile files f p = none) :
    compileFile files (f+1) name = none := compileFile_include_none files f name src p decls hfile hparse hinc hbad

theorem bad_file_has_no_spec (files : String → Option String) (f : Nat) (name src : String)
    (hfile : files name = some src) (hbad : parseSource src = none) :
    compileFile files f name = none := compileFile_bad_file files f name src hfile hbad

theorem missing_file_has_no_spec (files : String → Option String) (f : Nat) (name : String)
    (hfile : files name = none) : compileFile files f name = none := compileFile_missing_file files f name hfile

/-- both together: an include of a file with a syntax error -/
theorem include_of_malformed_file (files : String → Option String) (f : Nat) (name src p psrc : String)
    (decls : List Decl) (hfile : files name = some src) (hparse : parseSource src = some decls)
    (hinc : Decl.incl p ∈ decls) (hp : files p = some psrc) (hbad : parseSource psrc = none) :
    compileFile files (f+1) name = none :=
  include_error_propagates files f name src p decls hfile hparse hinc (bad_file_has_no_spec files f p psrc hp hbad)

/-- an included file with trailing input (here: a surplus `}` after its last declaration) has no specification, and
so neither has the file that includes it — for ANY contents of the includer that reach the include -/
theorem include_with_trailing_input (files : String → Option String) (f : Nat) (name src p psrc : String)
    (decls : List Decl) (hfile : files name = some src) (hparse : parseSource src = some decls)
    (hinc : Decl.incl p ∈ decls) (hp : files p = some psrc) (pts : List Tok) (pds : List Decl) (rest : List Tok)
    (hlex : lex psrc = some pts) (hrest : parseMalRest pts = some (pds, rest)) (hne : rest ≠ []) :
    compileFile files (f+1) name = none :=
  include_of_malformed_file files f name src p psrc decls hfile hparse hinc hp
    (by rw [parseSource_of_lex hlex]; exact trailing_input_rejected pts pds rest hrest hne)

/-- concrete: `root.mal` includes `inc.mal`, which ends in a surplus `}` -/
example :
    compileFile (fun n => if n = "root.mal" then some "include \"inc.mal\" #id: \"a\""
                          else if n = "inc.mal" then some "#version: \"1\" }" else none) 4 "root.mal" = none := by
  decide +kernel

/-- … and without the `}` the two files compile -/
example :
    (compileFile (fun n => if n = "root.mal" then some "include \"inc.mal\" #id: \"a\""
                           else if n = "inc.mal" then some "#version: \"1\"" else none) 4 "root.mal").isSome = true := by
  decide +kernel

/-! ### source texts: lexing errors

`parseSource` is the compiler's verdict on a text: it must lex, and its tokens must be accepted by `parseMal`.
The generated parser fetches tokens on demand (`BufferedTokenStream`), so the real control flow on a text with a
lexical error is one of three (`frontEnd`, `Model/Compiler/Parser.lean`): (1) the parser fails on the tokens in front
of the error — `syntaxError`; (2) it stops in front of the error at a token that cannot start a declaration — since
e0054c2 `extraneousInput` (before: a specification was returned and the error never seen,
`prefix_variant_accepts_lex_error`); (3) it consumes every token in front of the error and fetches the erroneous
text as look-ahead — the lexer's listener raises, `lexError`.  All three are errors, which is what justifies the
definition `parseSource src = (lex src).bind parseMal` (`front_end_accepts_iff`).  Which of the three errors the real
code reports is not claimed (ANTLR's adaptive prediction may look further ahead than one token); that each of them
is an error of the real front end is what the correspondence check `harness/props/c17.py` ties: *model rejects ⇔
`MalCompiler.compile` raises* on every mutant, including the family "valid text + lexical error behind a stop
token". -/

/-- a text that lexes completely is judged by its tokens -/
theorem source_of_lexable (src : String) (ts : List Tok) (h : lex src = some ts) :
    parseSource src = parseMal ts := parseSource_of_lex h

/-- **a text with a lexical error — anywhere — is rejected** -/
theorem lex_error_rejected (src : String) (h : lex src = none) : parseSource src = none :=
  parseSource_of_lex_none h

/-- a text is accepted iff it lexes and its whole token list is derivable by `declaration*` -/
theorem source_exact (src : String) (ds : List Decl) :
    parseSource src = some ds ↔ ∃ ts, lex src = some ts ∧ DDecls ts [] ds := by
  cases hl : lex src with
  | none => rw [lex_error_rejected src hl]; simp
  | some ts => rw [source_of_lexable src ts hl, parse_exact]; simp

/-- on a text that lexes, the tokens the parser can fetch on demand are all its tokens -/
theorem lexPrefix_of_lexable (src : String) (ts : List Tok) (h : lex src = some ts) : lexPrefix src = ts :=
  lexPrefix_of_lex src ts h

/-- the on-demand control flow, uniformly: the parser runs on the tokens in front of the first lexing error (all
tokens if there is none); a syntax error or left-over tokens are errors; if it consumed everything, the outcome
depends on whether the end of the tokens is the end of the text or a lexing error -/
theorem front_end_on_demand (src : String) :
    frontEnd src =
      match parseMalRest (lexPrefix src) with
      | none => .syntaxError
      | some (_, _ :: _) => .extraneousInput
      | some (ds, []) => if (lex src).isSome then .spec ds else .lexError := by
  unfold frontEnd
  cases hl : lex src with
  | none =>
    simp only [Option.isSome_none]
    cases parseMalRest (lexPrefix src) with
    | none => rfl
    | some x => obtain ⟨ds, rest⟩ := x; cases rest <;> rfl
  | some ts =>
    rw [lexPrefix_of_lexable src ts hl]
    simp only [Option.isSome_some]
    cases parseMalRest ts with
    | none => rfl
    | some x => obtain ⟨ds, rest⟩ := x; cases rest <;> rfl

/-- the on-demand control flow ends in a specification exactly when `parseSource` returns it -/
theorem front_end_accepts_iff (src : String) (ds : List Decl) : frontEnd src = .spec ds ↔ parseSource src = some ds :=
  frontEnd_accepts_iff src ds

/-- `#id: "a" #version: "1" "x" y "`: after the two defines the look-ahead `"x"` ends the start rule; the unterminated
quote at the end was never fetched, and the pre-fix front end returned a specification for a text that does not
even lex … -/
theorem prefix_variant_accepts_lex_error :
    lex "#id: \"a\" #version: \"1\" \"x\" y \"" = none ∧
    parseSourcePrefix "#id: \"a\" #version: \"1\" \"x\" y \"" = some [.define "id" "a", .define "version" "1"] :=
  ⟨by decide +kernel, by rfl⟩

/-- … now it is rejected, as `extraneous input` in front of the lexing error -/
theorem lex_error_behind_stop_token_rejected :
    parseSource "#id: \"a\" #version: \"1\" \"x\" y \"" = none ∧
    frontEnd "#id: \"a\" #version: \"1\" \"x\" y \"" = .extraneousInput :=
  ⟨by decide +kernel, by rfl⟩

/-- the same text with the stray quote directly after the last declaration is rejected (then and now): the
erroneous text is the look-ahead -/
theorem lex_error_as_lookahead_rejected :
    parseSource "#id: \"a\" #version: \"1\" \"" = none ∧
    frontEnd "#id: \"a\" #version: \"1\" \"" = .lexError ∧
    parseSourcePrefix "#id: \"a\" #version: \"1\" \"" = none :=
  ⟨by decide +kernel, by rfl, by decide +kernel⟩

/-! ### examples of rejection -/

/-- misplaced `*`: `category K { asset X { | s -> * b } }` -/
theorem reject_misplaced_star :
    parseMal [.kwCategory, .id "K", .lcurly, .kwAsset, .id "X", .lcurly, .or_, .id "s", .leadsto, .star, .id "b",
      .rcurly, .rcurly] = none := by decide

/-- missing `}`: `category K { asset X { | s }` -/
theorem reject_missing_rcurly :
    parseMal [.kwCategory, .id "K", .lcurly, .kwAsset, .id "X", .lcurly, .or_, .id "s", .rcurly] = none := by decide

/-- reserved word as a name: `category K { asset E { } }` (`E` is the token EXISTS) -/
theorem reject_reserved_word :
    parseMal [.kwCategory, .id "K", .lcurly, .kwAsset, .exists_, .lcurly, .rcurly, .rcurly] = none := by decide

/-- truncated association: `associations { X [a] * <-- L --> }` -/
theorem reject_truncated_association :
    parseMal [.kwAssociations, .lcurly, .id "X", .lsquare, .id "a", .rsquare, .star, .larrow, .id "L", .rarrow,
      .rcurly] = none := by decide

/-- a file that does not start with a declaration -/
theorem reject_leading_garbage : parseMal [.rcurly, .kwCategory, .id "K", .lcurly, .rcurly] = none := by decide

/-- unbalanced parenthesis, dangling operator, empty reaches list, `[T]` without a name -/
theorem reject_expressions :
    parseMal [.kwCategory, .id "K", .lcurly, .kwAsset, .id "X", .lcurly, .or_, .id "s", .leadsto, .lparen, .id "a",
      .dot, .id "b", .rcurly, .rcurly] = none ∧
    parseMal [.kwCategory, .id "K", .lcurly, .kwAsset, .id "X", .lcurly, .or_, .id "s", .leadsto, .id "a", .union,
      .rcurly, .rcurly] = none ∧
    parseMal [.kwCategory, .id "K", .lcurly, .kwAsset, .id "X", .lcurly, .or_, .id "s", .leadsto,
      .rcurly, .rcurly] = none ∧
    parseMal [.kwCategory, .id "K", .lcurly, .kwAsset, .id "X", .lcurly, .or_, .id "s", .leadsto, .lsquare, .id "T",
      .rsquare, .rcurly, .rcurly] = none := by decide

/-- a surplus `}` after a complete specification: `category K { asset X { | s } } }` -/
theorem reject_surplus_rcurly :
    parseMal [.kwCategory, .id "K", .lcurly, .kwAsset, .id "X", .lcurly, .or_, .id "s", .rcurly, .rcurly, .rcurly] = none ∧
    parseMalPrefix [.kwCategory, .id "K", .lcurly, .kwAsset, .id "X", .lcurly, .or_, .id "s", .rcurly, .rcurly, .rcurly] ≠ none := by
  decide

/-- a misspelt top-level keyword: `category K { } asociations { X [a] * <-- L --> * [b] X }` — `asociations` is an
identifier; the whole block used to be dropped -/
theorem reject_misspelt_keyword :
    parseMal [.kwCategory, .id "K", .lcurly, .rcurly, .id "asociations", .lcurly, .id "X", .lsquare, .id "a", .rsquare,
      .star, .larrow, .id "L", .rarrow, .star, .lsquare, .id "b", .rsquare, .id "X", .rcurly] = none ∧
    parseMalPrefix [.kwCategory, .id "K", .lcurly, .rcurly, .id "asociations", .lcurly, .id "X", .lsquare, .id "a",
      .rsquare, .star, .larrow, .id "L", .rarrow, .star, .lsquare, .id "b", .rsquare, .id "X", .rcurly] =
      some [.category "K" [] []] :=
  ⟨by decide, by rfl⟩

/-- trailing text: `#id: "a" this is not MAL` (as text: it lexes, and is rejected) -/
theorem reject_trailing_text :
    parseMal [.hash, .id "id", .colon, .str "\"a\"", .id "this", .id "is", .id "not", .id "MAL"] = none ∧
    (lex "#id: \"a\" this is not MAL").isSome = true ∧ parseSource "#id: \"a\" this is not MAL" = none := by
  refine ⟨by decide, by decide +kernel, by decide +kernel⟩

/-- the same three without the trailing input are accepted -/
example :
    (parseMal [.kwCategory, .id "K", .lcurly, .kwAsset, .id "X", .lcurly, .or_, .id "s", .rcurly, .rcurly]).isSome = true ∧
    (parseMal [.kwCategory, .id "K", .lcurly, .rcurly, .kwAssociations, .lcurly, .id "X", .lsquare, .id "a", .rsquare,
      .star, .larrow, .id "L", .rarrow, .star, .lsquare, .id "b", .rsquare, .id "X", .rcurly]).isSome = true ∧
    (parseSource "#id: \"a\"").isSome = true := by
  refine ⟨by decide, by decide, by decide +kernel⟩

/-- the well-formed variant of the first example is accepted -/
example : (parseMal [.kwCategory, .id "K", .lcurly, .kwAsset, .id "X", .lcurly, .or_, .id "s", .leadsto, .id "b",
    .star, .dot, .id "c", .rcurly, .rcurly]).isSome = true := by decide

end MalVerif.C17
