import MalVerif.Proofs.ParseFuel
import MalVerif.Proofs.ParseComplete
/-!
# C17 — malformed source is rejected, never half-compiled

`Spec/MalGrammar.lean` states `mal.g4` rule by rule as derivation relations (`DExpr`, `DParts`, `DPart`, `DTtcExpr`,
…, `DStep`, `DAsset`, `DAssoc`, `DDecl`, `DDecls`), each with the value `malVisitor` builds from the derived
token sequence.

* `parse_sound_*`: whatever a parsing function returns is the value of a grammatical prefix of its input, and the
  rest is returned untouched — for every rule, up to `parse_sound` for the start rule.  There is no way to get a
  specification assembled from fragments: a result exists only if a prefix is derivable as a whole.
* The start rule as written, `mal: declaration+ | EOF`, does not end in `EOF`: the parser stops silently at the
  first token that cannot start a declaration (`StopsAt`); `trailing_tokens_are_ignored` is the smallest
  instance.  This is the behaviour of the grammar, reproduced by the model; it is the one place where malformed
  text is *not* rejected.
* `parse_complete_*`, `parse_exact`, `reject_iff`: conversely every derivable prefix is parsed (under the follow
  condition of its rule, with fuel twice its length): the parser accepts exactly the grammar, and a text is
  rejected iff no prefix of it is derivable.
* `consumes_prefix_*`: every parsing function returns a suffix of its input, strictly shorter for the
  non-optional rules.
* `include_error_propagates`, `bad_file_has_no_spec`, `missing_file_has_no_spec`: an included file that is
  missing, does not lex or does not parse makes the compilation of the includer fail as a whole.
* `reject_examples`.
-/
namespace MalVerif.C17
open MalVerif MalVerif.Mal

/-! ### soundness with respect to the grammar -/

/-- step expressions: `expr`, `parts`, `part` (`reach` = inside a reaches clause; the classification of a name
looks at the tokens after it, hence the right context `rest` in the relation) -/
theorem parse_sound_expr (f : Nat) (reach : Bool) (ts : List Tok) (e : Expr) (rest : List Tok)
    (h : parseExpr f reach ts = some (e, rest)) : ∃ pre, ts = pre ++ rest ∧ DExpr reach pre rest e :=
  (expr_sound f).2.2.2.2 reach ts e rest h

theorem parse_sound_parts (f : Nat) (reach : Bool) (ts : List Tok) (e : Expr) (rest : List Tok)
    (h : parseParts f reach ts = some (e, rest)) : ∃ pre, ts = pre ++ rest ∧ DParts reach pre rest e :=
  (expr_sound f).2.2.1 reach ts e rest h

theorem parse_sound_part (f : Nat) (reach : Bool) (ts : List Tok) (e : Expr) (rest : List Tok)
    (h : parsePart f reach ts = some (e, rest)) : ∃ pre, ts = pre ++ rest ∧ DPart reach pre rest e :=
  (expr_sound f).1 reach ts e rest h

theorem parse_sound_exprlist (f : Nat) (reach : Bool) (ts : List Tok) (l : List Expr) (rest : List Tok)
    (h : parseExprList f reach ts = some (l, rest)) : ∃ pre, ts = pre ++ rest ∧ DExprList reach pre rest l :=
  parseExprList_sound f reach ts l rest h

/-- TTC expressions: `ttcexpr`, `ttcterm`, `ttcfact`, `ttcatom` -/
theorem parse_sound_ttc (f : Nat) :
    (∀ ts t rest, parseTtcAtom f ts = some (t, rest) → ∃ pre, ts = pre ++ rest ∧ DTtcAtom pre t) ∧
    (∀ ts t rest, parseTtcFact f ts = some (t, rest) → ∃ pre, ts = pre ++ rest ∧ DTtcFact pre t) ∧
    (∀ ts t rest, parseTtcTerm f ts = some (t, rest) → ∃ pre, ts = pre ++ rest ∧ DTtcTerm pre t) ∧
    (∀ ts t rest, parseTtcExpr f ts = some (t, rest) → ∃ pre, ts = pre ++ rest ∧ DTtcExpr pre t) :=
  ⟨(ttc_sound f).1, (ttc_sound f).2.1, (ttc_sound f).2.2.2.1, (ttc_sound f).2.2.2.2.2⟩

theorem parse_sound_step (f : Nat) (ts : List Tok) (s : CStep) (rest : List Tok)
    (h : parseStep f ts = some (s, rest)) : ∃ pre, ts = pre ++ rest ∧ DStep pre rest s :=
  parseStep_sound f ts s rest h

theorem parse_sound_asset (f : Nat) (cat : String) (ts : List Tok) (a : CAsset) (rest : List Tok)
    (h : parseAsset f cat ts = some (a, rest)) : ∃ pre, ts = pre ++ rest ∧ DAsset cat pre rest a :=
  parseAsset_sound f cat ts a rest h

theorem parse_sound_mult (ts : List Tok) (m : Nat × Option Nat) (rest : List Tok)
    (h : parseMult ts = some (m, rest)) : ∃ pre, ts = pre ++ rest ∧ DMult pre m := parseMult_sound ts m rest h

theorem parse_sound_assoc (f : Nat) (ts : List Tok) (a : CAssoc) (rest : List Tok)
    (h : parseAssociation f ts = some (a, rest)) : ∃ pre, ts = pre ++ rest ∧ DAssoc pre a :=
  parseAssociation_sound f ts a rest h

theorem parse_sound_decl (f : Nat) (ts : List Tok) (d : Decl) (rest : List Tok)
    (h : parseDecl f ts = some (d, rest)) : ∃ pre, ts = pre ++ rest ∧ DDecl pre rest d :=
  parseDecl_sound f ts d rest h

/-- the start rule: the declarations returned are the meaning of a grammatical prefix `pre`; parsing stopped at
the end of the input or at a token that cannot start a declaration; non-empty input gives at least one
declaration (`declaration+`) -/
theorem parse_sound (ts : List Tok) (ds : List Decl) (h : parseMal ts = some ds) :
    ∃ pre rest, ts = pre ++ rest ∧ DDecls pre rest ds ∧ StopsAt rest ∧ (ts ≠ [] → ds ≠ []) :=
  parseMal_sound ts ds h

/-- the grammar has no `EOF` after `declaration+`: tokens after the last declaration that cannot start a
declaration are not an error -/
theorem trailing_tokens_are_ignored :
    parseMal [.hash, .id "id", .colon, .str "\"x\"", .rcurly, .id "junk"] = some [.define "id" (stripQuotes "\"x\"")] := by
  rfl

/-! ### completeness: the parser accepts exactly the grammar -/

/-- a derivable expression followed by nothing that could continue it (`.` `*` `[` `(` `\\/` `/\\` `-`) is parsed,
with fuel twice its length -/
theorem parse_complete_expr (reach : Bool) (pre rest : List Tok) (e : Expr) (h : DExpr reach pre rest e)
    (hr : headP contExpr rest = false) (f : Nat) (hf : 2 * pre.length + 1 ≤ f) :
    parseExpr f reach (pre ++ rest) = some (e, rest) := parseExpr_complete reach pre rest e h hr f hf

/-- for expressions, soundness and completeness together -/
theorem parse_exact_expr (reach : Bool) (pre rest : List Tok) (e : Expr) (hr : headP contExpr rest = false) (f : Nat)
    (hf : 2 * pre.length + 1 ≤ f) : parseExpr f reach (pre ++ rest) = some (e, rest) ↔ DExpr reach pre rest e := by
  constructor
  · intro h
    obtain ⟨pre', h1, h2⟩ := parse_sound_expr f reach _ e rest h
    have : pre = pre' := List.append_cancel_right h1
    subst this; exact h2
  · intro h; exact parse_complete_expr reach pre rest e h hr f hf

theorem parse_complete_ttc (pre : List Tok) (t : TTC) (h : DTtcExpr pre t) (rest : List Tok)
    (hr : headP contTExpr rest = false) (f : Nat) (hf : 2 * pre.length + 2 ≤ f) :
    parseTtcExpr f (pre ++ rest) = some (t, rest) := parseTtcExpr_complete pre t h rest hr f hf

/-- a derivable step followed by the next step, `let`, `}` or nothing -/
theorem parse_complete_step (pre rest : List Tok) (s : CStep) (h : DStep pre rest s) (hr : clauseEnd rest = true)
    (f : Nat) (hf : 2 * pre.length + 2 ≤ f) : parseStep f (pre ++ rest) = some (s, rest) :=
  parseStep_complete h hr f hf

theorem parse_complete_asset (cat : String) (pre rest : List Tok) (a : CAsset) (h : DAsset cat pre rest a) (f : Nat)
    (hf : 2 * pre.length + 1 ≤ f) : parseAsset f cat (pre ++ rest) = some (a, rest) := parseAsset_complete h f hf

theorem parse_complete_assoc (pre : List Tok) (a : CAssoc) (h : DAssoc pre a) (rest : List Tok)
    (hr : metaStart rest = false) (f : Nat) (hf : pre.length ≤ 4 * f + 13) :
    parseAssociation f (pre ++ rest) = some (a, rest) := parseAssociation_complete h rest hr f hf

theorem parse_complete_decl (pre rest : List Tok) (d : Decl) (h : DDecl pre rest d) (f : Nat)
    (hf : 2 * pre.length + 1 ≤ f) : parseDecl f (pre ++ rest) = some (d, rest) := parseDecl_complete h f hf

/-- the start rule: declarations derivable from a prefix that ends where no declaration can start are what
`parseMal` returns (with the fuel it supplies itself) -/
theorem parse_complete (pre rest : List Tok) (ds : List Decl) (h : DDecls pre rest ds) (hr : StopsAt rest)
    (hne : pre ≠ [] ∨ rest = []) : parseMal (pre ++ rest) = some ds := parseMal_complete h hr hne

/-- **the parser is the grammar**: `parseMal ts = some ds` iff `ds` is the meaning of a prefix of `ts` derivable by
`declaration*` that stops where no declaration can start (and is non-empty unless `ts` is empty) -/
theorem parse_exact (ts : List Tok) (ds : List Decl) :
    parseMal ts = some ds ↔
      ∃ pre rest, ts = pre ++ rest ∧ DDecls pre rest ds ∧ StopsAt rest ∧ (pre ≠ [] ∨ rest = []) := by
  constructor
  · intro h
    obtain ⟨pre, rest, h1, h2, h3, h4⟩ := parse_sound ts ds h
    refine ⟨pre, rest, h1, h2, h3, ?_⟩
    by_cases hp : pre = []
    · right
      have hds : ds = [] := by
        cases h2 with
        | nil => rfl
        | cons hd _ => obtain ⟨t, r, hp1, _⟩ := ddecl_head hd; rw [hp1] at hp; simp at hp
      subst hp
      simp only [List.nil_append] at h1
      by_cases hts : ts = []
      · rw [← h1]; exact hts
      · exact absurd hds (h4 hts)
    · exact .inl hp
  · rintro ⟨pre, rest, rfl, h2, h3, h4⟩
    exact parse_complete pre rest ds h2 h3 h4

/-- rejection, exactly: no result iff no prefix is derivable that way -/
theorem reject_iff (ts : List Tok) :
    parseMal ts = none ↔
      ¬ ∃ ds pre rest, ts = pre ++ rest ∧ DDecls pre rest ds ∧ StopsAt rest ∧ (pre ≠ [] ∨ rest = []) := by
  constructor
  · rintro h ⟨ds, hx⟩
    rw [(parse_exact ts ds).mpr hx] at h; exact absurd h (by simp)
  · intro h
    cases hp : parseMal ts with
    | none => rfl
    | some ds => exact absurd ⟨ds, (parse_exact ts ds).mp hp⟩ h

/-! ### every parsing function returns a suffix of its input -/

/-- `CutS ts rest`: `ts = pre ++ rest` with `pre ≠ []`; `Cut`: `pre` may be empty -/
theorem cut_iff (ts rest : List Tok) :
    (Cut ts rest ↔ ∃ pre, ts = pre ++ rest) ∧ (CutS ts rest ↔ ∃ pre, pre ≠ [] ∧ ts = pre ++ rest) :=
  ⟨Iff.rfl, Iff.rfl⟩

theorem cutS_shorter (ts rest : List Tok) (h : CutS ts rest) : rest.length < ts.length := h.length_lt

theorem consumes_prefix_expr (f : Nat) :
    (∀ reach ts e rest, parsePart f reach ts = some (e, rest) → CutS ts rest) ∧
    (∀ reach acc ts e rest, parsePartsLoop f reach acc ts = some (e, rest) → Cut ts rest) ∧
    (∀ reach ts e rest, parseParts f reach ts = some (e, rest) → CutS ts rest) ∧
    (∀ reach acc ts e rest, parseExprLoop f reach acc ts = some (e, rest) → Cut ts rest) ∧
    (∀ reach ts e rest, parseExpr f reach ts = some (e, rest) → CutS ts rest) ∧
    (∀ reach ts l rest, parseExprList f reach ts = some (l, rest) → CutS ts rest) ∧
    (∀ e ts, Cut ts (parseTypes f e ts).2) ∧ (∀ e ts, Cut ts (parseSuffix f e ts).2) :=
  ⟨(expr_cut f).1, (expr_cut f).2.1, (expr_cut f).2.2.1, (expr_cut f).2.2.2.1, (expr_cut f).2.2.2.2,
   parseExprList_cut f, parseTypes_cut f, parseSuffix_cut f⟩

theorem consumes_prefix_ttc (f : Nat) :
    (∀ ts r, parseArgs f ts = some r → CutS ts r.2) ∧
    (∀ ts r, parseTtcAtom f ts = some r → CutS ts r.2) ∧
    (∀ ts r, parseTtcFact f ts = some r → CutS ts r.2) ∧
    (∀ acc ts r, parseTtcTermLoop f acc ts = some r → Cut ts r.2) ∧
    (∀ ts r, parseTtcTerm f ts = some r → CutS ts r.2) ∧
    (∀ acc ts r, parseTtcExprLoop f acc ts = some r → Cut ts r.2) ∧
    (∀ ts r, parseTtcExpr f ts = some r → CutS ts r.2) :=
  ⟨parseArgs_cut f, ttc_cut f⟩

theorem consumes_prefix_decl (f : Nat) :
    (∀ m ts, Cut ts (parseMetas f m ts).2) ∧ (∀ acc ts, Cut ts (parseTags f acc ts).2) ∧
    (∀ acc ts r rest, parseCias f acc ts = some (r, rest) → CutS ts rest) ∧
    (∀ ts s rest, parseStep f ts = some (s, rest) → CutS ts rest) ∧
    (∀ vs ss ts r, parseAssetBody f vs ss ts = some r → CutS ts r.2) ∧
    (∀ cat ts a rest, parseAsset f cat ts = some (a, rest) → CutS ts rest) ∧
    (∀ cat acc ts as rest, parseAssets f cat acc ts = some (as, rest) → CutS ts rest) ∧
    (∀ ts m rest, parseMult ts = some (m, rest) → CutS ts rest) ∧
    (∀ ts a rest, parseAssociation f ts = some (a, rest) → CutS ts rest) ∧
    (∀ acc ts as rest, parseAssociationsBody f acc ts = some (as, rest) → CutS ts rest) ∧
    (∀ ts d rest, parseDecl f ts = some (d, rest) → CutS ts rest) :=
  ⟨parseMetas_cut f, parseTags_cut f, parseCias_cut f, parseStep_cut f, parseAssetBody_cut f, parseAsset_cut f,
   parseAssets_cut f, parseMult_cut, parseAssociation_cut f, parseAssociationsBody_cut f, parseDecl_cut f⟩

/-! ### errors of included files -/

/-- if a file includes `p` and `p` has no specification (missing, lexical error, syntax error, or an error in one
of its own includes), the file has none -/
theorem include_error_propagates (files : String → Option String) (f : Nat) (name src p : String)
    (decls : List Decl) (hfile : files name = some src) (hparse : parseSource src = some decls)
    (hinc : Decl.incl p ∈ decls) (hbad : compileFile files f p = none) :
    compileFile files (f+1) name = none := compileFile_include_none files f name src p decls hfile hparse hinc hbad

theorem bad_file_has_no_spec (files : String → Option String) (f : Nat) (name src : String)
    (hfile : files name = some src) (hbad : parseSource src = none) :
    compileFile files f name = none := compileFile_bad_file files f name src hfile hbad

theorem missing_file_has_no_spec (files : String → Option String) (f : Nat) (name : String)
    (hfile : files name = none) : compileFile files f name = none := compileFile_missing_file files f name hfile

/-- both together: an include of a file with a syntax error -/
theorem include_of_malformed_file (files : String → Option String) (f : Nat) (name src p psrc : String)
    (decls : List Decl) (hfile : files name = some src) (hparse : parseSource src = some decls)
    (hinc : Decl.incl p ∈ decls) (hp : files p = some psrc) (hbad : parseSource psrc = none) :
    compileFile files (f+1) name = none :=
  include_error_propagates files f name src p decls hfile hparse hinc (bad_file_has_no_spec files f p psrc hp hbad)

/-! ### what "does not conform to the grammar" means for a text that does not lex

`parseSource` is the classifier of the property (the generated ANTLR lexer + parser with counting error listeners):
tokens are fetched on demand, and the start rule has no `EOF`. -/

/-- a text that lexes completely is judged by its tokens -/
theorem source_of_lexable (src : String) (ts : List Tok) (h : lex src = some ts) :
    parseSource src = parseMal ts := parseSource_of_lex h

/-- a text with a lexing error is rejected whenever the parser consumes every token in front of the error
(its next look-ahead is then the erroneous text) … -/
theorem lex_error_reached_rejected (src : String) (ds : List Decl) (hl : lex src = none)
    (hp : parseMalRest (lexPrefix src) = some (ds, [])) : parseSource src = none := by
  simp [parseSource, hl, hp]

/-- … or when the tokens in front of the error do not parse -/
theorem lex_error_after_syntax_error_rejected (src : String) (hl : lex src = none)
    (hp : parseMalRest (lexPrefix src) = none) : parseSource src = none := by
  simp [parseSource, hl, hp]

/-- and it is *not* an error of the grammar when the parser has stopped at an earlier token that cannot start a
declaration: the lexer is never asked for the erroneous text.  (`define define "x" y "` : after the two defines the
look-ahead `"x"` ends the start rule; the unterminated quote at the end is never fetched.) -/
theorem lex_error_never_fetched_accepted :
    lex "#id: \"a\" #version: \"1\" \"x\" y \"" = none ∧
    parseSource "#id: \"a\" #version: \"1\" \"x\" y \"" = some [.define "id" "a", .define "version" "1"] :=
  ⟨by decide +kernel, by rfl⟩

/-- the same text with the stray quote directly after the last declaration is rejected -/
theorem lex_error_as_lookahead_rejected :
    parseSource "#id: \"a\" #version: \"1\" \"" = none := by
  rfl

/-! ### examples of rejection -/

/-- misplaced `*`: `category K { asset X { | s -> * b } }` -/
theorem reject_misplaced_star :
    parseMal [.kwCategory, .id "K", .lcurly, .kwAsset, .id "X", .lcurly, .or_, .id "s", .leadsto, .star, .id "b",
      .rcurly, .rcurly] = none := by decide

/-- missing `}`: `category K { asset X { | s }` -/
theorem reject_missing_rcurly :
    parseMal [.kwCategory, .id "K", .lcurly, .kwAsset, .id "X", .lcurly, .or_, .id "s", .rcurly] = none := by decide

/-- reserved word as a name: `category K { asset E { } }` (`E` is the token EXISTS) -/
theorem reject_reserved_word :
    parseMal [.kwCategory, .id "K", .lcurly, .kwAsset, .exists_, .lcurly, .rcurly, .rcurly] = none := by decide

/-- truncated association: `associations { X [a] * <-- L --> }` -/
theorem reject_truncated_association :
    parseMal [.kwAssociations, .lcurly, .id "X", .lsquare, .id "a", .rsquare, .star, .larrow, .id "L", .rarrow,
      .rcurly] = none := by decide

/-- a file that does not start with a declaration -/
theorem reject_leading_garbage : parseMal [.rcurly, .kwCategory, .id "K", .lcurly, .rcurly] = none := by decide

/-- unbalanced parenthesis, dangling operator, empty reaches list, `[T]` without a name -/
theorem reject_expressions :
    parseMal [.kwCategory, .id "K", .lcurly, .kwAsset, .id "X", .lcurly, .or_, .id "s", .leadsto, .lparen, .id "a",
      .dot, .id "b", .rcurly, .rcurly] = none ∧
    parseMal [.kwCategory, .id "K", .lcurly, .kwAsset, .id "X", .lcurly, .or_, .id "s", .leadsto, .id "a", .union,
      .rcurly, .rcurly] = none ∧
    parseMal [.kwCategory, .id "K", .lcurly, .kwAsset, .id "X", .lcurly, .or_, .id "s", .leadsto,
      .rcurly, .rcurly] = none ∧
    parseMal [.kwCategory, .id "K", .lcurly, .kwAsset, .id "X", .lcurly, .or_, .id "s", .leadsto, .lsquare, .id "T",
      .rsquare, .rcurly, .rcurly] = none := by decide

/-- the well-formed variant of the first example is accepted -/
example : (parseMal [.kwCategory, .id "K", .lcurly, .kwAsset, .id "X", .lcurly, .or_, .id "s", .leadsto, .id "b",
    .star, .dot, .id "c", .rcurly, .rcurly]).isSome = true := by decide

end MalVerif.C17
