import MalVerif.Proofs.LegacyLemmas
/-!
# C18 — the legacy model loaders agree with the native loader

*A model written in the 0.0.39 file layout, or exported as a securiCAD .sCAD archive, loads to the same assets (ids,
names, types, defense values), the same pairwise links and the same attacker entry points as the equivalent native
model file.*

`Legacy.loadOld` models `load_model_from_version_0_0_39` (`translators/updater.py`), `Legacy.loadScad` models
`load_model_from_scad_archive` (`translators/securicad.py`); `Legacy.emitOld` / `Legacy.emitScad` are the inverse
translations that write the *equivalent* legacy file for a native document / a model state
(`MalVerif/Model/Legacy.lean`).  The XML / zip / JSON layers are assumed (exercised by the correspondence check).

Results:

* `old_agrees`: on a native document without `extras` members the 0.0.39 loader and the native loader return
  literally the same result (the same state, or the same error), for every language and range-check oracle;
  `old_extras_lost`: the hypothesis is needed — the old layout cannot carry extras;
  `old_roundtrip_partial`, `old_roundtrip`: with C07, a saved model without extras comes back through the old layout;
* `decap_cap`: `name[0].lower() + name[1:]` undoes `name[0].upper() + name[1:]` exactly when the first character is
  not an upper-case ASCII letter;
* `scad_objects_agree`: the object section of the archive loads to the assets of the model (id, name, type, value of
  every defense; extras cannot be expressed) and to one attacker per attacker, named `Attacker:<id>`;
* `scad_loads`: the whole archive loads; `scad_assets_agree`, `scad_links_agree`, `scad_entry_points_agree`,
  `scad_entry_points_per_attacker`: the loaded model has the same assets, exactly the pairwise expansion of the
  links (one binary association per (left member, right member) pair of every link, nothing else) and the same set
  of (attacker id, asset id, step) entry points, with one tuple per asset;
* the hypotheses beyond coherence (`Inv`, C05) and validity (`Valid`, C06), each of which the formats force:
  - `ScadAssetsOk`: no asset is of a type called `Attacker` (the loader takes such an object for an attacker), the
    range check of the values passes, the names of the explicitly set non-default defenses survive `cap`/`decap`;
  - `PairsResolve L nodes s`: the language-graph lookup by the two field names and the two member types returns a
    declaration the link is an instance of (`pairs_resolve_of_fields`: true when the generated class names are
    distinct and an unordered pair of field names belongs to one declaration only);
  - `NoFirstSteps s`: no field of a link is called `firstSteps`;
  - `StepsNoDot s`: no entry-point step name contains a dot (`target_prop.split('.')[0]`);
  "no link pair listed twice" needs no hypothesis: it follows from `Inv` and `Valid` (`link_pairs_distinct`).
-/
namespace MalVerif.C18
open MalVerif.MS MalVerif.Ser MalVerif.Legacy

/-! ### the 0.0.39 layout -/

/-- what `NoExtras` says -/
theorem noExtras_iff (d : ModelDoc) : NoExtras d ↔
    (∀ e ∈ d.assets, (∃ n t ds, e.2 = .full n t ds none) ∨ (∃ t, e.2 = .shorthand t)) ∧
    (∀ a ∈ d.associations, a.extras = none) := by
  unfold NoExtras
  constructor
  · intro ⟨h1, h2⟩
    refine ⟨?_, h2⟩
    intro e he
    have := h1 e he
    cases hx : e.2 with
    | shorthand t => exact Or.inr ⟨t, rfl⟩
    | full n t ds ex =>
      rw [hx] at this
      cases ex with
      | none => exact Or.inl ⟨n, t, ds, rfl⟩
      | some x => cases this
  · intro ⟨h1, h2⟩
    refine ⟨?_, h2⟩
    intro e he
    rcases h1 e he with ⟨n, t, ds, hx⟩ | ⟨t, hx⟩ <;> rw [hx] <;> rfl

/-- the two loaders return the same result (state or error) on corresponding files: the 0.0.39 loader on the old
layout of a native document without extras, and the native loader on that document -/
theorem old_agrees (L : Lang) (defsOk : Key → Bool) (d : ModelDoc) (h : NoExtras d) :
    loadOld L defsOk (emitOld d) = fromDoc L defsOk d := loadOld_emitOld L defsOk d h

/-- … entry by entry -/
theorem old_agrees_entrywise (L : Lang) (defsOk : Key → Bool) (s : St) :
    (∀ e : Key × AssetEntry, entryNoExtras e.2 = true → loadOldAsset L defsOk s (oldEntry e) = loadAsset L defsOk s e) ∧
    (∀ e : AssocEntry, e.extras = none → loadOldAssoc L s (oldAssoc e) = loadAssoc L s e) :=
  ⟨fun e h => loadOldAsset_emit L defsOk s e h, fun e h => loadOldAssoc_emit L s e h⟩

/-- the hypothesis is needed: the old layout has no place for extras; the native loader keeps them -/
theorem old_extras_lost :
    ¬ NoExtras Legacy.Sample.extrasDoc ∧ emitOld Legacy.Sample.extrasDoc = emitOld { Legacy.Sample.extrasDoc with
        assets := [(.i 1, .full "h" "Host" [] none), (.i 2, .shorthand "Net")],
        associations := [{ cls := "NetCon", lf := "hosts", left := [.i 1], rf := "nets", right := [.i 2] }] } ∧
    LoadsTo (fromDoc Legacy.Sample.lang (fun _ => true) Legacy.Sample.extrasDoc)
      (fun s => s.assets.map (fun a => (s.aobj a).extras) = ["{\"x\": 1}", "{}"] ∧
        s.associations.map (fun l => (s.lobj l).extras) = ["{\"y\": 2}"]) ∧
    LoadsTo (loadOld Legacy.Sample.lang (fun _ => true) (emitOld Legacy.Sample.extrasDoc))
      (fun s => s.assets.map (fun a => (s.aobj a).extras) = ["{}", "{}"] ∧
        s.associations.map (fun l => (s.lobj l).extras) = ["{}"]) := by
  refine ⟨by decide, rfl, by decide +kernel, by decide +kernel⟩

/-- the document written for a coherent state without extras has no `extras` members, also after a JSON file -/
theorem toDoc_noExtras (L : Lang) (s : St) (h : Inv s) (hx : StNoExtras s) :
    NoExtras (toDoc L s) ∧ NoExtras (jsonRT (toDoc L s)) := by
  have h1 : ∀ e ∈ (toDoc L s).assets, entryNoExtras e.2 = true := by
    rw [toDoc_assets L s h]
    intro e he
    obtain ⟨a, ha, rfl⟩ := List.mem_map.1 he
    show (exOpt (s.aobj a).extras).isNone = true
    rw [hx.1 a ha]; rfl
  have h2 : ∀ a ∈ (toDoc L s).associations, a.extras = none := by
    rw [toDoc_associations]
    intro e he
    obtain ⟨l, hl, rfl⟩ := List.mem_map.1 he
    show exOpt (s.lobj l).extras = none
    rw [hx.2 l hl]; rfl
  refine ⟨⟨h1, h2⟩, ?_, h2⟩
  intro e he
  obtain ⟨e0, he0, rfl⟩ := List.mem_map.1 he
  exact h1 e0 he0

/-- save natively, rewrite in the 0.0.39 layout (through a YAML or a JSON file), load with the old loader: the same
model comes back (hypotheses of C07 `load_save_json_partial`, and no extras) -/
theorem old_roundtrip_partial (L : Lang) (s : St) (h : Inv s) (hv : Valid L s) (hatt : AttIdsDistinct s)
    (hres : LinksResolve L s) (hdef : DefKeysDistinct s) (hname : AttNamesNonempty s) (hx : StNoExtras s) :
    (∃ s', loadOld L (fun _ => true) (emitOld (yamlRT (toDoc L s))) = .ok s' ∧ SameModel L s' s ∧ Inv s') ∧
    (∃ s', loadOld L (fun _ => true) (emitOld (jsonRT (toDoc L s))) = .ok s' ∧ SameModel L s' s ∧ Inv s') := by
  obtain ⟨n1, n2⟩ := toDoc_noExtras L s h hx
  constructor
  · show ∃ s', loadOld L (fun _ => true) (emitOld (toDoc L s)) = .ok s' ∧ _
    rw [old_agrees L _ _ n1]; exact C07.load_save_yaml_partial L s h hv hatt hres hdef hname
  · rw [old_agrees L _ _ n2]; exact C07.load_save_json_partial L s h hv hatt hres hdef hname

/-- … for the state after any history (well-formed `add_asset` arguments, distinct attacker ids, no extras) -/
theorem old_roundtrip (L : Lang) (ops : List Op) (hops : ∀ op ∈ ops, OpDefKeysDistinct op)
    (hatt : AttIdsDistinct (ops.foldl (applyOp L) {})) (hx : StNoExtras (ops.foldl (applyOp L) {})) :
    ∃ s', loadOld L (fun _ => true) (emitOld (jsonRT (toDoc L (ops.foldl (applyOp L) {})))) = .ok s' ∧
      SameModel L s' (ops.foldl (applyOp L) {}) := by
  obtain ⟨s', h1, h2, _⟩ := (C07.load_save_reachable L ops hops hatt).2
  refine ⟨s', ?_, h2⟩
  rw [old_agrees L _ _ (toDoc_noExtras L _ (C05.reachable_inv L ops) hx).2]
  exact h1

/-! ### securiCAD: names -/

/-- `decap (cap x) = x` exactly when `x` does not start with an upper-case ASCII letter … -/
theorem decap_cap (x : String) : decap (cap x) = x ↔ ∀ c cs, x.toList = c :: cs → c.isUpper = false :=
  decap_cap_iff x

/-- … in particular when it starts with a lower-case ASCII letter (as the defense names of a MAL language do) -/
theorem decap_cap_lower (x : String) (c : Char) (cs : List Char) (hx : x.toList = c :: cs) (hc : c.isLower = true) :
    decap (cap x) = x := decap_cap_of_startsLower x ⟨c, cs, hx, hc⟩

/-- the step name is recovered from `<step>.attacker` when it contains no dot -/
theorem before_dot (st : String) (h : '.' ∉ st.toList) : beforeDot (st ++ ".attacker") = st := beforeDot_attacker st h

/-! ### securiCAD: the objects -/

/-- loading the object section of the archive written for `s`: every asset with its id, name, type and the value of
every defense of its type (extras are not expressible), every attacker with its id (named `Attacker:<id>`, no entry
point yet), no association -/
theorem scad_objects_agree (L : Lang) (defsOk : Int → Bool) (s : St) (h : Inv s) (hv : Valid L s)
    (ha : ScadAssetsOk L defsOk s) (hd : DefKeysDistinct s) :
    ∃ s1, (emitScad L s).objects.foldlM (loadScadObject L defsOk) ({} : St) = .ok s1 ∧ Inv s1 ∧
      s1.assets.map (assetView L s1) = s.assets.map (fun a => { assetView L s a with extras := "{}" }) ∧
      s1.attackers.map (attView s1) =
        s.attackers.map (fun t => ⟨(s.tobj t).id, "Attacker:" ++ toString (s.tobj t).id, []⟩) ∧
      s1.associations = [] := by
  obtain ⟨s1, h1, hi1, hobjs, hatts, hl1⟩ := loadScadObjects_emit L defsOk s h hv ha
  refine ⟨s1, h1, hi1, ?_, ?_, hl1⟩
  · have : s1.assets.map (assetView L s1) = (s1.assets.map s1.aobj).map (objView L) := by rw [List.map_map]; rfl
    rw [this, hobjs, List.map_map]
    apply List.map_congr_left
    intro a ham
    exact objView_scadObj L (s.aobj a) (hd a ham)
  · have : s1.attackers.map (attView s1) = (s1.attackers.map s1.tobj).map
        (fun o => ⟨o.id, o.name, o.entry.map (fun ep => ((s1.aobj ep.1).id, ep.2))⟩) := by rw [List.map_map]; rfl
    rw [this, hatts, List.map_map]; rfl

/-! ### securiCAD: the whole archive -/

/-- no (class, left id, right id) pair is listed twice in the pairwise expansion of the links of a coherent, valid
model -/
theorem link_pairs_distinct (L : Lang) (s : St) (h : Inv s) (hv : Valid L s) : ((pairsOf s).map Pair.key).Nodup :=
  pairKeys_nodup h hv

/-- the pairwise expansion, spelled out -/
theorem mem_pairs (s : St) (p : Pair) : p ∈ pairsOf s ↔
    ∃ l ∈ s.associations, ∃ x ∈ (s.lobj l).left, ∃ y ∈ (s.lobj l).right,
      p = ⟨(s.lobj l).cls, (s.lobj l).lf, (s.lobj l).rf, (s.aobj x).id, (s.aobj y).id⟩ := mem_pairsOf s p

/-- the resolution hypothesis holds for every coherent valid model when the generated classes have distinct names
and an unordered pair of field names belongs to one declaration only -/
theorem pairs_resolve_of_fields (L : Lang) (nodes : List AssocDecl) (s : St) (hd : ClassNamesDistinct L)
    (hf : FieldsIdentify L nodes) (hv : Valid L s) (h : Inv s) : PairsResolve L nodes s :=
  pairsResolve_of_fields hd hf hv h

/-- the archive written for `s` loads, to a coherent model -/
theorem scad_loads (L : Lang) (nodes : List AssocDecl) (defsOk : Int → Bool) (s : St) (h : Inv s) (hv : Valid L s)
    (ha : ScadAssetsOk L defsOk s) (hr : PairsResolve L nodes s) (hfs : NoFirstSteps s) (hdot : StepsNoDot s) :
    ∃ s', loadScad L nodes defsOk (emitScad L s) = .ok s' ∧ Inv s' := by
  obtain ⟨s', h1, h2, _⟩ := loadScad_emit L nodes defsOk s h hv ha hr hfs hdot
  exact ⟨s', h1, h2⟩

/-- the loaded model has the assets of `s`, in order: id, name, type, value of every defense (no extras) -/
theorem scad_assets_agree (L : Lang) (nodes : List AssocDecl) (defsOk : Int → Bool) (s s' : St) (h : Inv s)
    (hv : Valid L s) (ha : ScadAssetsOk L defsOk s) (hr : PairsResolve L nodes s) (hfs : NoFirstSteps s)
    (hdot : StepsNoDot s) (hd : DefKeysDistinct s) (hload : loadScad L nodes defsOk (emitScad L s) = .ok s') :
    s'.assets.map (assetView L s') = s.assets.map (fun a => { assetView L s a with extras := "{}" }) := by
  obtain ⟨s'', h1, _, _, h3, _⟩ := loadScad_emit L nodes defsOk s h hv ha hr hfs hdot
  rw [hload] at h1; injection h1 with h1; subst h1
  rw [h3]
  exact List.map_congr_left (fun a ham => objView_scadObj L (s.aobj a) (hd a ham))

/-- the associations of the loaded model are exactly the pairwise expansion of the links of `s`, in model order: for
every link `l` and every `x ∈ left`, `y ∈ right` one binary association of the class of `l` with the members `[x]` /
`[y]` (by id), no association twice, and nothing else -/
theorem scad_links_agree (L : Lang) (nodes : List AssocDecl) (defsOk : Int → Bool) (s s' : St) (h : Inv s)
    (hv : Valid L s) (ha : ScadAssetsOk L defsOk s) (hr : PairsResolve L nodes s) (hfs : NoFirstSteps s)
    (hdot : StepsNoDot s) (hload : loadScad L nodes defsOk (emitScad L s) = .ok s') :
    s'.associations.map (assocView s') = (pairsOf s).map Pair.view ∧
    (∀ v, v ∈ s'.associations.map (assocView s') ↔
      ∃ l ∈ s.associations, ∃ x ∈ (s.lobj l).left, ∃ y ∈ (s.lobj l).right,
        v = ⟨(s.lobj l).cls, (s.lobj l).lf, [(s.aobj x).id], (s.lobj l).rf, [(s.aobj y).id], "{}"⟩) ∧
    (s'.associations.map (assocView s')).Nodup := by
  obtain ⟨s'', h1, _, _, _, h4, _⟩ := loadScad_emit L nodes defsOk s h hv ha hr hfs hdot
  rw [hload] at h1; injection h1 with h1; subst h1
  refine ⟨h4, ?_, ?_⟩
  · intro v
    rw [h4, List.mem_map]
    constructor
    · rintro ⟨p, hp, rfl⟩
      obtain ⟨l, hl, x, hx, y, hy, rfl⟩ := (mem_pairsOf s p).1 hp
      exact ⟨l, hl, x, hx, y, hy, rfl⟩
    · rintro ⟨l, hl, x, hx, y, hy, rfl⟩
      exact ⟨_, (mem_pairsOf s _).2 ⟨l, hl, x, hx, y, hy, rfl⟩, rfl⟩
  · rw [h4]
    apply nodup_of_map (fun v : AssocView => (v.cls, v.left, v.right))
    rw [List.map_map]
    have : ((fun v : AssocView => (v.cls, v.left, v.right)) ∘ Pair.view) =
        (fun k : String × Int × Int => (k.1, [k.2.1], [k.2.2])) ∘ Pair.key := rfl
    rw [this, ← List.map_map]
    apply nodup_map_of_inj _ _ (pairKeys_nodup h hv)
    intro a _ b _ e
    simp only [Prod.mk.injEq, List.cons.injEq, and_true] at e
    exact Prod.ext e.1 (Prod.ext e.2.1 e.2.2)

/-- what `EntryRel` says -/
theorem entryRel_iff (s : St) (tid aid : Int) (st : String) : EntryRel s tid aid st ↔
    ∃ t ∈ s.attackers, (s.tobj t).id = tid ∧ ∃ ep ∈ (s.tobj t).entry, (s.aobj ep.1).id = aid ∧ st ∈ ep.2 := Iff.rfl

/-- the attackers come back with their ids, named `Attacker:<id>`; the set of (attacker id, asset id, step) entry
points is that of `s`; every attacker has ONE tuple per asset (`add_entry_point` merges the steps of an asset) -/
theorem scad_entry_points_agree (L : Lang) (nodes : List AssocDecl) (defsOk : Int → Bool) (s s' : St) (h : Inv s)
    (hv : Valid L s) (ha : ScadAssetsOk L defsOk s) (hr : PairsResolve L nodes s) (hfs : NoFirstSteps s)
    (hdot : StepsNoDot s) (hload : loadScad L nodes defsOk (emitScad L s) = .ok s') :
    s'.attackers.map (fun t => ((s'.tobj t).id, (s'.tobj t).name)) =
      s.attackers.map (fun t => ((s.tobj t).id, "Attacker:" ++ toString (s.tobj t).id)) ∧
    (∀ tid aid st, EntryRel s' tid aid st ↔ EntryRel s tid aid st) ∧
    (∀ t ∈ s'.attackers, ((s'.tobj t).entry.map (fun ep => (s'.aobj ep.1).id)).Nodup) := by
  obtain ⟨s'', h1, h2, _, _, _, h5, h6⟩ := loadScad_emit L nodes defsOk s h hv ha hr hfs hdot
  rw [hload] at h1; injection h1 with h1; subst h1
  exact ⟨h5, h6, fun t ht => entry_ids_nodup h2 ht⟩

/-- … attacker by attacker, when the attacker ids are pairwise distinct -/
theorem scad_entry_points_per_attacker (L : Lang) (nodes : List AssocDecl) (defsOk : Int → Bool) (s s' : St)
    (h : Inv s) (hv : Valid L s) (ha : ScadAssetsOk L defsOk s) (hr : PairsResolve L nodes s) (hfs : NoFirstSteps s)
    (hdot : StepsNoDot s) (hatt : AttIdsDistinct s) (hload : loadScad L nodes defsOk (emitScad L s) = .ok s')
    (t : Nat) (ht : t ∈ s.attackers) :
    ∃ t' ∈ s'.attackers, (s'.tobj t').id = (s.tobj t).id ∧ ∀ aid st,
      (∃ ep ∈ (s'.tobj t').entry, (s'.aobj ep.1).id = aid ∧ st ∈ ep.2) ↔
      (∃ ep ∈ (s.tobj t).entry, (s.aobj ep.1).id = aid ∧ st ∈ ep.2) := by
  obtain ⟨h5, h6, _⟩ := scad_entry_points_agree L nodes defsOk s s' h hv ha hr hfs hdot hload
  have hids : s'.attackers.map (fun t => (s'.tobj t).id) = s.attackers.map (fun t => (s.tobj t).id) := by
    have := congrArg (List.map Prod.fst) h5
    rw [List.map_map, List.map_map] at this
    exact this
  have hatt' : (s'.attackers.map (fun t => (s'.tobj t).id)).Nodup := by rw [hids]; exact hatt
  have : (s.tobj t).id ∈ s'.attackers.map (fun t => (s'.tobj t).id) := by
    rw [hids]; exact List.mem_map.2 ⟨t, ht, rfl⟩
  obtain ⟨t', ht', e⟩ := List.mem_map.1 this
  refine ⟨t', ht', e, ?_⟩
  intro aid st
  constructor
  · intro hep
    obtain ⟨u, hu, hid, hep'⟩ := (h6 (s.tobj t).id aid st).1 ⟨t', ht', e, hep⟩
    have : u = t := inj_of_nodup_map (fun t => (s.tobj t).id) _ hatt u hu t ht hid
    subst this; exact hep'
  · intro hep
    obtain ⟨u, hu, hid, hep'⟩ := (h6 (s.tobj t).id aid st).2 ⟨t, ht, rfl, hep⟩
    have : u = t' := inj_of_nodup_map (fun t => (s'.tobj t).id) _ hatt' u hu t' ht' (hid.trans e.symm)
    subst this; exact hep'

/-! ### non-vacuity: a small language and model -/

/-- the native loader and the 0.0.39 loader on a document with shorthand entry, association and attacker -/
example : NoExtras Legacy.Sample.plainDoc ∧
    LoadsTo (loadOld Legacy.Sample.lang (fun _ => true) (emitOld Legacy.Sample.plainDoc)) (fun s =>
      s.assets.map (assetView Legacy.Sample.lang s) = [⟨1, "h", "Host", [("patched", "0.0")], "{}"⟩, ⟨2, "Net:2", "Net", [], "{}"⟩] ∧
      s.associations.map (assocView s) = [⟨"NetCon", "hosts", [1], "nets", [2], "{}"⟩] ∧
      s.attackers.map (attView s) = [⟨3, "eve", [(1, ["access", "connect"])]⟩]) := by
  refine ⟨by decide, ?_⟩
  rw [old_agrees _ _ _ (by decide)]
  decide +kernel

/-- `Legacy.Sample.st`: ids 5, -3, 0; a link with two left members and a self-link; an attacker with two steps on one asset -/
example : Legacy.Sample.st.assets.map (assetView Legacy.Sample.lang Legacy.Sample.st) =
      [⟨5, "h", "Host", [("patched", "1.0")], "{}"⟩, ⟨-3, "Net:-3", "Net", [], "{}"⟩, ⟨0, "g", "Host", [("patched", "0.0")], "{}"⟩] ∧
    Legacy.Sample.st.associations.map (assocView Legacy.Sample.st) =
      [⟨"NetCon", "hosts", [5, 0], "nets", [-3], "{}"⟩, ⟨"Peer", "peers", [5], "peerOf", [5], "{}"⟩] ∧
    Legacy.Sample.st.attackers.map (attView Legacy.Sample.st) = [⟨9, "eve", [(5, ["access", "connect"]), (0, ["access"])]⟩] := by
  decide +kernel

/-- the archive written for it: defense names capitalised, the link with two left members as two binary associations
(source and target crosswise), one `firstSteps` association per step -/
example : (emitScad Legacy.Sample.lang Legacy.Sample.st).objects = [⟨5, "h", "Host", [("Patched", "1.0")]⟩, ⟨-3, "Net:-3", "Net", []⟩, ⟨0, "g", "Host", []⟩, ⟨9, "eve", "Attacker", []⟩] ∧
    (emitScad Legacy.Sample.lang Legacy.Sample.st).associations = [⟨-3, 5, "hosts", "nets"⟩, ⟨-3, 0, "hosts", "nets"⟩, ⟨5, 5, "peers", "peerOf"⟩,
        ⟨9, 5, "firstSteps", "access.attacker"⟩, ⟨9, 5, "firstSteps", "connect.attacker"⟩,
        ⟨9, 0, "firstSteps", "access.attacker"⟩] := by
  decide +kernel

/-- the hypotheses of the securiCAD theorems hold for it (the association nodes of the graph are the declarations) -/
example : (LG.assocNodes Legacy.Sample.lang).toOption = some Legacy.Sample.lang.assocs ∧
    Inv Legacy.Sample.st ∧ Valid Legacy.Sample.lang Legacy.Sample.st ∧ ScadAssetsOk Legacy.Sample.lang (fun _ => true) Legacy.Sample.st ∧
    PairsResolve Legacy.Sample.lang Legacy.Sample.lang.assocs Legacy.Sample.st ∧ NoFirstSteps Legacy.Sample.st ∧ StepsNoDot Legacy.Sample.st ∧
    DefKeysDistinct Legacy.Sample.st ∧ AttIdsDistinct Legacy.Sample.st :=
  ⟨by decide, C05.reachable_inv _ _, C06.reachable_valid _ _, ⟨by decide, by decide, by decide⟩,
   pairs_resolve_of_fields _ _ _ (by decide) ⟨by decide, by decide⟩ (C06.reachable_valid _ _) (C05.reachable_inv _ _),
   by decide, by decide, by decide, by decide⟩

/-- and the conclusion is what one computes: the negative id, the non-default defense value, the pairwise links, the
attacker renamed, one entry-point tuple for the asset with two steps -/
example : LoadsTo (loadScad Legacy.Sample.lang Legacy.Sample.lang.assocs (fun _ => true) (emitScad Legacy.Sample.lang Legacy.Sample.st)) (fun s' =>
    s'.assets.map (assetView Legacy.Sample.lang s') =
      [⟨5, "h", "Host", [("patched", "1.0")], "{}"⟩, ⟨-3, "Net:-3", "Net", [], "{}"⟩, ⟨0, "g", "Host", [("patched", "0.0")], "{}"⟩] ∧
    s'.associations.map (assocView s') =
      [⟨"NetCon", "hosts", [5], "nets", [-3], "{}"⟩, ⟨"NetCon", "hosts", [0], "nets", [-3], "{}"⟩,
       ⟨"Peer", "peers", [5], "peerOf", [5], "{}"⟩] ∧
    s'.attackers.map (attView s') = [⟨9, "Attacker:9", [(5, ["access", "connect"]), (0, ["access"])]⟩]) := by
  decide +kernel

/-- `decap ∘ cap` on names: fine for `patched`, `_x`, `9lives`, the empty name; not for `Patched` -/
example : decap (cap "patched") = "patched" ∧ decap (cap "_x") = "_x" ∧ decap (cap "9lives") = "9lives" ∧
    decap (cap "") = "" ∧ decap (cap "Patched") = "patched" ∧ beforeDot "access.attacker" = "access" ∧
    beforeDot "a.b.attacker" = "a" := by decide

end MalVerif.C18
