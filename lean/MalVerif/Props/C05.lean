import MalVerif.Proofs.MStateInv
/-!
# C05 — the instance model stays coherent under any history of edits

`Inv` (`MalVerif/Spec/ModelInv.lean`) holds in the empty model and is kept by every
operation of the state machine `MalVerif.MS` (the model of `Model` and
`AttackerAttachment` in `maltoolbox/model.py`); hence it holds after every history
(`reachable_inv`).  From it: ids and names of live assets are unique and exactly the
reserved ones, an explicitly requested id is honoured, back-references mirror
membership, `get_associated_assets_by_field_name` returns exactly the linked assets
(`neighbours_iff`), removals leave no trace and free the id and the name, lookups are
exact.  The loops inside `remove_asset` cannot raise half-way (`removeAsset_ok`): every
error of the state machine is returned before the first update, so a raising
operation leaves the state as it was (`error_leaves_state`).

Attacker ids are *not* unique (`add_attacker` has no check): `getAttackerById_iff`
says that the lookup returns the first attacker with the id.
-/
namespace MalVerif.C05
open MalVerif.MS

/-! ### the invariant is kept -/

theorem init_inv : Inv {} := init_inv'

theorem addAsset_inv {L : Lang} {s s' : St} {ty : String} {nm : Option String} {defs : List (String × String)}
    {ok : Bool} {ex : String} {id : Option Int} {dup : Bool} (h : Inv s)
    (hok : addAsset L s ty nm defs ok ex id dup = .ok s') : Inv s' := addAsset_inv' h hok

theorem addAssociation_inv {L : Lang} {s s' : St} {cls : String} {left right : List Nat} (h : Inv s)
    (hok : addAssociation L s cls left right = .ok s') : Inv s' := addAssociation_inv' h hok

theorem removeAssociation_inv {s s' : St} {l : Nat} (h : Inv s) (hok : removeAssociation s l = .ok s') : Inv s' :=
  removeAssociation_inv' h hok

theorem removeAssetFromAssociation_inv {s s' : St} {a l : Nat} (h : Inv s)
    (hok : removeAssetFromAssociation s a l = .ok s') : Inv s' := removeAssetFromAssociation_inv' h hok

theorem removeAsset_inv {s s' : St} {a : Nat} (h : Inv s) (hok : removeAsset s a = .ok s') : Inv s' :=
  removeAsset_inv' h hok

theorem addAttacker_inv (s : St) (nm : Option String) (id : Option Int) (h : Inv s) : Inv (addAttacker s nm id) :=
  addAttacker_inv' s nm id h

theorem removeAttacker_inv {s s' : St} {t : Nat} (h : Inv s) (hok : removeAttacker s t = .ok s') : Inv s' :=
  removeAttacker_inv' h hok

/-- `add_entry_point` on an attacker and an asset of the model -/
theorem addEntryPoint_inv (s : St) (t a : Nat) (step : String) (h : Inv s) (_ht : t ∈ s.attackers) (ha : a ∈ s.assets) :
    Inv (addEntryPoint s t a step) := addEntryPoint_inv' s t a step h ha

theorem removeEntryPoint_inv (s : St) (t a : Nat) (step : String) (h : Inv s) (_ht : t ∈ s.attackers)
    (_ha : a ∈ s.assets) : Inv (removeEntryPoint s t a step) := removeEntryPoint_inv' s t a step h

/-- one step of a history keeps the invariant -/
theorem applyOp_inv (L : Lang) (s : St) (op : Op) (h : Inv s) : Inv (applyOp L s op) := applyOp_inv' L s op h

/-- every state reached from the empty model is coherent -/
theorem reachable_inv (L : Lang) (ops : List Op) : Inv (ops.foldl (applyOp L) {}) :=
  foldl_applyOp_inv L ops {} init_inv'

/-! ### errors -/

/-- an operation that raises leaves the state unchanged -/
theorem error_leaves_state (L : Lang) (s : St) (op : Op) (e : Err) (h : runOp L s op = .error e) :
    applyOp L s op = s := by
  unfold applyOp; rw [h]; rfl

theorem ok_gives_state (L : Lang) (s s' : St) (op : Op) (h : runOp L s op = .ok s') : applyOp L s op = s' := by
  unfold applyOp; rw [h]; rfl

/-- `remove_asset` of an asset of the model cannot fail: none of the calls of
`remove_asset_from_association` inside its loop raises -/
theorem removeAsset_ok (s : St) (a : Nat) (h : Inv s) (ha : a ∈ s.assets) : ∃ s', removeAsset s a = .ok s' := by
  obtain ⟨s1, _, _, _, he⟩ := removeAsset_spec s a h ha
  exact ⟨_, he⟩

theorem removeAssociation_ok (s : St) (l : Nat) (hl : l ∈ s.associations) : ∃ s', removeAssociation s l = .ok s' := by
  rw [removeAssociation_eq, if_pos hl]; exact ⟨_, rfl⟩

theorem removeAssetFromAssociation_ok (s : St) (a l : Nat) (ha : a ∈ s.assets) (hl : l ∈ s.associations)
    (hm : a ∈ (s.lobj l).left ∨ a ∈ (s.lobj l).right) : ∃ s', removeAssetFromAssociation s a l = .ok s' :=
  rafa_succeeds ha hl hm

/-- the removals are rejected exactly for handles that are not part of the model -/
theorem removeAsset_error_iff (s : St) (a : Nat) (h : Inv s) : (∃ e, removeAsset s a = .error e) ↔ a ∉ s.assets := by
  constructor
  · intro ⟨e, he⟩ ha
    obtain ⟨s', hs'⟩ := removeAsset_ok s a h ha
    rw [hs'] at he; cases he
  · intro ha; exact ⟨_, by rw [removeAsset_eq, if_neg ha]⟩

/-! ### ids and names -/

/-- an explicitly requested id — any integer, 0 and negative ones included — is the id of the new asset -/
theorem explicit_id_honoured {L : Lang} {s s' : St} {ty : String} {nm : Option String} {defs : List (String × String)}
    {ok : Bool} {ex : String} {i : Int} {dup : Bool}
    (hok : addAsset L s ty nm defs ok ex (some i) dup = .ok s') :
    s.afresh ∈ s'.assets ∧ (s'.aobj s.afresh).id = i ∧ i ∈ s'.assetIds := by
  obtain ⟨rfl, _⟩ := addAsset_ok hok
  refine ⟨mem_append_single.2 (Or.inr rfl), ?_, (mem_setAdd _ _ _).2 (Or.inr rfl)⟩
  show (if s.afresh = s.afresh then newAsset s ty nm defs ex (some i) else s.aobj s.afresh).id = i
  rw [if_pos rfl]; rfl

/-- the reference handed out is new: the new asset is not confused with an old one -/
theorem new_asset_ref_fresh {s : St} (h : Inv s) : s.afresh ∉ s.assets := h.assets.fresh_not_mem

/-- … and it is accepted whenever no asset of the model has that id -/
theorem explicit_id_accepted (L : Lang) (s : St) (ty : String) (nm : Option String) (defs : List (String × String))
    (ex : String) (i : Int) (dup : Bool) (h : Inv s) (hty : (L.findAsset ty).isSome = true)
    (hdefs : ∀ d ∈ defs, ∃ v, (d.1, v) ∈ defensesOf L ty) (hid : ∀ a ∈ s.assets, (s.aobj a).id ≠ i)
    (hname : ∀ n, nm = some n → (∃ a ∈ s.assets, (s.aobj a).name = n) → dup = true) :
    ∃ s', addAsset L s ty nm defs true ex (some i) dup = .ok s' := by
  apply addAsset_succeeds L s ty nm defs ex (some i) dup hty hdefs
  · intro hm
    obtain ⟨a, ha, e⟩ := (h.assets.ids_exact i).1 hm
    exact hid a ha e
  · intro n hn hm
    exact hname n hn ((h.assets.names_exact n).1 hm)

/-- with a generated id `add_asset` is never rejected because of the id -/
theorem generated_id_accepted (L : Lang) (s : St) (ty : String) (nm : Option String) (defs : List (String × String))
    (ex : String) (h : Inv s) (hty : (L.findAsset ty).isSome = true)
    (hdefs : ∀ d ∈ defs, ∃ v, (d.1, v) ∈ defensesOf L ty) :
    ∃ s', addAsset L s ty nm defs true ex none true = .ok s' :=
  addAsset_succeeds L s ty nm defs ex none true hty hdefs (nextId_not_reserved h) (fun _ _ _ => rfl)

/-- an id of an asset of the model is rejected -/
theorem used_id_rejected (L : Lang) (s : St) (ty : String) (nm : Option String) (defs : List (String × String))
    (ok : Bool) (ex : String) (dup : Bool) (a : Nat) (h : Inv s) (ha : a ∈ s.assets) :
    ∃ e, addAsset L s ty nm defs ok ex (some (s.aobj a).id) dup = .error e := by
  rcases except_cases (addAsset L s ty nm defs ok ex (some (s.aobj a).id) dup) with ⟨s', hs'⟩ | he
  · obtain ⟨_, _, _, _, hid, _⟩ := addAsset_ok hs'
    exact absurd ((h.assets.ids_exact _).2 ⟨a, ha, rfl⟩) hid
  · exact he

/-- the renaming loop ends with a name that is not taken: every round makes the name longer -/
theorem freshName_fresh (taken : List String) (i : Int) (n : String) :
    freshName taken (":" ++ toString i) (taken.length + 1) n ∉ taken :=
  freshName_not_mem _ _ (sfx_length_pos i) _ _ (Nat.lt_succ_self _)

/-- the name the new asset gets is the name of no asset of the model; all names stay pairwise distinct -/
theorem names_unique_after_add {L : Lang} {s s' : St} {ty : String} {nm : Option String} {defs : List (String × String)}
    {ok : Bool} {ex : String} {id : Option Int} {dup : Bool} (h : Inv s)
    (hok : addAsset L s ty nm defs ok ex id dup = .ok s') :
    (∀ a ∈ s.assets, (s.aobj a).name ≠ (s'.aobj s.afresh).name) ∧
    (∀ a ∈ s'.assets, ∀ b ∈ s'.assets, (s'.aobj a).name = (s'.aobj b).name → a = b) := by
  refine ⟨?_, (addAsset_inv' h hok).assets.names_inj⟩
  obtain ⟨rfl, _⟩ := addAsset_ok hok
  intro a ha e
  have hn : ((addAssetSt s (newAsset s ty nm defs ex id)).aobj s.afresh).name = chosenName s ty nm (id.getD s.nextId) := by
    show (if s.afresh = s.afresh then newAsset s ty nm defs ex id else s.aobj s.afresh).name = _
    rw [if_pos rfl]; rfl
  rw [hn] at e
  exact chosenName_not_mem s ty nm _ ((h.assets.names_exact _).2 ⟨a, ha, e⟩)

/-- a requested name that is free is kept -/
theorem free_name_kept {L : Lang} {s s' : St} {ty n : String} {defs : List (String × String)}
    {ok : Bool} {ex : String} {id : Option Int} {dup : Bool} (hfree : n ∉ s.assetNames)
    (hok : addAsset L s ty (some n) defs ok ex id dup = .ok s') : (s'.aobj s.afresh).name = n := by
  obtain ⟨rfl, _⟩ := addAsset_ok hok
  show (if s.afresh = s.afresh then newAsset s ty (some n) defs ex id else s.aobj s.afresh).name = _
  rw [if_pos rfl]
  show chosenName s ty (some n) _ = n
  unfold chosenName
  dsimp only
  rw [if_neg (fun hc => hfree (List.contains_iff_mem.1 hc))]

/-- ids and names of the assets of the model are unique and are exactly the reserved ones -/
theorem ids_names_unique (s : St) (h : Inv s) :
    (∀ a ∈ s.assets, ∀ b ∈ s.assets, (s.aobj a).id = (s.aobj b).id → a = b) ∧
    (∀ a ∈ s.assets, ∀ b ∈ s.assets, (s.aobj a).name = (s.aobj b).name → a = b) ∧
    (∀ i, i ∈ s.assetIds ↔ ∃ a ∈ s.assets, (s.aobj a).id = i) ∧
    (∀ n, n ∈ s.assetNames ↔ ∃ a ∈ s.assets, (s.aobj a).name = n) :=
  ⟨h.assets.ids_inj, h.assets.names_inj, h.assets.ids_exact, h.assets.names_exact⟩

/-! ### back-references and neighbours -/

/-- an asset lists an association exactly when that association lists the asset -/
theorem listed_iff_member (s : St) (h : Inv s) (a : Nat) (ha : a ∈ s.assets) (l : Nat) :
    l ∈ (s.aobj a).assocs ↔ l ∈ s.associations ∧ (a ∈ (s.lobj l).left ∨ a ∈ (s.lobj l).right) :=
  h.links.mem_assocs_iff ha l

/-- … as often as it is a member (twice for an asset on both sides) -/
theorem listed_count (s : St) (h : Inv s) (a : Nat) (ha : a ∈ s.assets) (l : Nat) (hl : l ∈ s.associations) :
    (s.aobj a).assocs.count l = (if a ∈ (s.lobj l).left then 1 else 0) + (if a ∈ (s.lobj l).right then 1 else 0) := by
  rw [h.links.mirror a ha l, if_pos hl, (h.links.left_nodup l hl).count, (h.links.right_nodup l hl).count]

/-- `get_associated_assets_by_field_name`: the neighbours of `a` through field `f` are exactly the assets linked
to `a` through that field, in either direction, self-links included -/
theorem neighbours_iff (s : St) (h : Inv s) (a : Nat) (ha : a ∈ s.assets) (f : String) (y : Nat) :
    y ∈ neighbours s a f ↔ ∃ l ∈ s.associations,
      (a ∈ (s.lobj l).left ∧ (s.lobj l).rf = f ∧ y ∈ (s.lobj l).right) ∨
      (a ∈ (s.lobj l).right ∧ (s.lobj l).lf = f ∧ y ∈ (s.lobj l).left) := by
  unfold neighbours
  rw [List.mem_flatMap]
  constructor
  · rintro ⟨l, hl, hy⟩
    have hl' := ((h.links.mem_assocs_iff ha l).1 hl).1
    refine ⟨l, hl', ?_⟩
    dsimp only at hy
    rw [List.mem_append] at hy
    rcases hy with hy | hy
    · split at hy
      · next hc =>
        rw [Bool.and_eq_true, List.contains_iff_mem, decide_eq_true_eq] at hc
        exact Or.inl ⟨hc.1, hc.2, hy⟩
      · exact absurd hy List.not_mem_nil
    · split at hy
      · next hc =>
        rw [Bool.and_eq_true, List.contains_iff_mem, decide_eq_true_eq] at hc
        exact Or.inr ⟨hc.1, hc.2, hy⟩
      · exact absurd hy List.not_mem_nil
  · rintro ⟨l, hl, hy⟩
    rcases hy with ⟨h1, h2, h3⟩ | ⟨h1, h2, h3⟩
    · refine ⟨l, (h.links.mem_assocs_iff ha l).2 ⟨hl, Or.inl h1⟩, ?_⟩
      dsimp only
      rw [List.mem_append]
      left
      rw [if_pos (by rw [Bool.and_eq_true, List.contains_iff_mem, decide_eq_true_eq]; exact ⟨h1, h2⟩)]
      exact h3
    · refine ⟨l, (h.links.mem_assocs_iff ha l).2 ⟨hl, Or.inr h1⟩, ?_⟩
      dsimp only
      rw [List.mem_append]
      right
      rw [if_pos (by rw [Bool.and_eq_true, List.contains_iff_mem, decide_eq_true_eq]; exact ⟨h1, h2⟩)]
      exact h3

/-- members of associations and entry points are assets of the model -/
theorem references_live (s : St) (h : Inv s) :
    (∀ l ∈ s.associations, (∀ a ∈ (s.lobj l).left, a ∈ s.assets) ∧ (∀ a ∈ (s.lobj l).right, a ∈ s.assets)) ∧
    (∀ a ∈ s.assets, ∀ l ∈ (s.aobj a).assocs, l ∈ s.associations) ∧
    (∀ t ∈ s.attackers, ∀ ep ∈ (s.tobj t).entry, ep.1 ∈ s.assets) :=
  ⟨fun l hl => ⟨h.links.left_live l hl, h.links.right_live l hl⟩,
   fun _ ha l hl => ((h.links.mem_assocs_iff ha l).1 hl).1, h.att.entry_live⟩

/-- `_type_to_association` is the grouping of the associations by class -/
theorem type_to_association_exact (s : St) (h : Inv s) (c : String) (l : Nat) :
    l ∈ ttaGet s.typeToAssoc c ↔ (l ∈ s.associations ∧ (s.lobj l).cls = c) := h.tta.iff c l

/-! ### removals leave no trace -/

theorem remove_asset_leaves_no_trace {s s' : St} {a : Nat} (h : Inv s) (hok : removeAsset s a = .ok s') :
    a ∉ s'.assets ∧
    (∀ l ∈ s'.associations, a ∉ (s'.lobj l).left ∧ a ∉ (s'.lobj l).right) ∧
    (∀ t ∈ s'.attackers, ∀ ep ∈ (s'.tobj t).entry, ep.1 ≠ a) ∧
    (s.aobj a).id ∉ s'.assetIds ∧ (s.aobj a).name ∉ s'.assetNames := by
  have hi := removeAsset_inv' h hok
  obtain ⟨_, s1, hi1, hf1, _, rfl⟩ := removeAsset_ok_spec h hok
  have hnot : a ∉ (finishRemove s1 a).assets := by
    rw [finishRemove_assets]; exact not_mem_erase_self_of_nodup hi1.assets.nodup
  refine ⟨hnot, ?_, ?_, ?_, ?_⟩
  · intro l hl
    exact ⟨fun hm => hnot (hi.links.left_live l hl a hm), fun hm => hnot (hi.links.right_live l hl a hm)⟩
  · intro t ht ep hep e
    exact hnot (e ▸ hi.att.entry_live t ht ep hep)
  · rw [finishRemove_assetIds, ← hf1.aid a, hi1.assets.ids_nodup.mem_erase_iff]
    exact fun hm => hm.1 rfl
  · rw [finishRemove_assetNames, ← hf1.aname a, hi1.assets.names_nodup.mem_erase_iff]
    exact fun hm => hm.1 rfl

/-- the other assets and all attackers stay, in order, with their ids, names, types -/
theorem removeAsset_keeps_rest {s s' : St} {a : Nat} (h : Inv s) (hok : removeAsset s a = .ok s') :
    s'.assets = s.assets.erase a ∧ s'.attackers = s.attackers ∧
    (∀ x, (s'.aobj x).id = (s.aobj x).id ∧ (s'.aobj x).name = (s.aobj x).name ∧ (s'.aobj x).type = (s.aobj x).type) := by
  obtain ⟨_, s1, _, hf1, _, rfl⟩ := removeAsset_ok_spec h hok
  refine ⟨by rw [finishRemove_assets, hf1.assets], by rw [finishRemove_attackers, hf1.attackers], ?_⟩
  intro x; rw [finishRemove_aobj]; exact ⟨hf1.aid x, hf1.aname x, hf1.atype x⟩

/-- the id and the name of a removed asset can be used again -/
theorem removed_id_and_name_reusable (L : Lang) {s s' : St} {a : Nat} (ty : String) (defs : List (String × String))
    (ex : String) (h : Inv s) (hok : removeAsset s a = .ok s') (hty : (L.findAsset ty).isSome = true)
    (hdefs : ∀ d ∈ defs, ∃ v, (d.1, v) ∈ defensesOf L ty) :
    ∃ s'', addAsset L s' ty (some (s.aobj a).name) defs true ex (some (s.aobj a).id) false = .ok s'' ∧
      (s''.aobj s'.afresh).id = (s.aobj a).id ∧ (s''.aobj s'.afresh).name = (s.aobj a).name := by
  obtain ⟨_, _, _, hid, hnm⟩ := remove_asset_leaves_no_trace h hok
  obtain ⟨s'', hs''⟩ := addAsset_succeeds L s' ty (some (s.aobj a).name) defs ex (some (s.aobj a).id) false hty hdefs hid
    (fun n hn hm => by cases hn; exact absurd hm hnm)
  exact ⟨s'', hs'', (explicit_id_honoured hs'').2.1, free_name_kept hnm hs''⟩

theorem remove_association_leaves_no_trace {s s' : St} {l : Nat} (h : Inv s) (hok : removeAssociation s l = .ok s') :
    l ∉ s'.associations ∧ (∀ e ∈ s'.typeToAssoc, l ∉ e.2) ∧ (∀ c, l ∉ ttaGet s'.typeToAssoc c) ∧
    (∀ a ∈ s'.assets, l ∉ (s'.aobj a).assocs) := by
  have hi := removeAssociation_inv' h hok
  have hnot : l ∉ s'.associations := by
    rw [removeAssociation_eq] at hok
    by_cases hl : l ∈ s.associations
    · rw [if_pos hl] at hok; injection hok with hok; rw [← hok]
      exact not_mem_erase_self_of_nodup h.links.nodup
    · rw [if_neg hl] at hok; cases hok
  have hg : ∀ c, l ∉ ttaGet s'.typeToAssoc c := fun c hm => hnot ((hi.tta.iff c l).1 hm).1
  refine ⟨hnot, ?_, hg, ?_⟩
  · intro e he hm
    apply hg e.1
    rw [ttaGet_of_mem _ hi.tta.keys e he]; exact hm
  · intro a ha hm
    exact hnot ((hi.links.mem_assocs_iff ha l).1 hm).1

/-- `remove_asset_from_association`: afterwards the asset is no member of the association and does not list it;
the association is either gone or keeps its other members -/
theorem remove_asset_from_association_leaves_no_trace {s s' : St} {a l : Nat} (h : Inv s)
    (hok : removeAssetFromAssociation s a l = .ok s') :
    l ∉ (s'.aobj a).assocs ∧ (l ∈ s'.associations → a ∉ (s'.lobj l).left ∧ a ∉ (s'.lobj l).right) := by
  have hi := removeAssetFromAssociation_inv' h hok
  have hf := removeAssetFromAssociation_lframe h hok
  obtain ⟨ha, _, _, _⟩ := rafa_ok h.links hok
  have hnot := rafa_not_listed h hok
  refine ⟨hnot, fun hl => ?_⟩
  have ha' : a ∈ s'.assets := hf.assets ▸ ha
  exact ⟨fun hm => hnot ((hi.links.mem_assocs_iff ha' l).2 ⟨hl, Or.inl hm⟩),
         fun hm => hnot ((hi.links.mem_assocs_iff ha' l).2 ⟨hl, Or.inr hm⟩)⟩

/-! ### lookups -/

theorem getAssetById_iff (s : St) (h : Inv s) (i : Int) (a : Nat) :
    getAssetById s i = some a ↔ (a ∈ s.assets ∧ (s.aobj a).id = i) := by
  unfold getAssetById
  rw [find?_unique]
  · simp only [decide_eq_true_eq]
  · intro x hx y hy px py
    simp only [decide_eq_true_eq] at px py
    exact h.assets.ids_inj x hx y hy (px.trans py.symm)

theorem getAssetByName_iff (s : St) (h : Inv s) (n : String) (a : Nat) :
    getAssetByName s n = some a ↔ (a ∈ s.assets ∧ (s.aobj a).name = n) := by
  unfold getAssetByName
  rw [find?_unique]
  · simp only [decide_eq_true_eq]
  · intro x hx y hy px py
    simp only [decide_eq_true_eq] at px py
    exact h.assets.names_inj x hx y hy (px.trans py.symm)

theorem getAssetById_none_iff (s : St) (i : Int) : getAssetById s i = none ↔ ∀ a ∈ s.assets, (s.aobj a).id ≠ i := by
  unfold getAssetById
  rw [List.find?_eq_none]
  simp only [decide_eq_true_eq]

/-- attacker ids need not be unique: the lookup returns the first attacker of the model with the id -/
theorem getAttackerById_iff (s : St) (i : Int) (t : Nat) :
    getAttackerById s i = some t ↔ (s.tobj t).id = i ∧
      ∃ pre post, s.attackers = pre ++ t :: post ∧ ∀ u ∈ pre, (s.tobj u).id ≠ i := by
  unfold getAttackerById
  rw [List.find?_eq_some_iff_append]
  simp only [decide_eq_true_eq, Bool.not_eq_eq_eq_not, Bool.not_true, decide_eq_false_iff_not]

theorem getAttackerById_none_iff (s : St) (i : Int) :
    getAttackerById s i = none ↔ ∀ t ∈ s.attackers, (s.tobj t).id ≠ i := by
  unfold getAttackerById
  rw [List.find?_eq_none]
  simp only [decide_eq_true_eq]

/-! ### the hypotheses are satisfiable by non-trivial states -/

/-- `Demo.ops`: three assets, two links (one a self-link), an attacker with an entry point, then the first asset
is removed and its id and name are used again -/
example : Inv (Demo.ops.foldl (applyOp Demo.lang) {}) := reachable_inv _ _

example :
    let s := Demo.ops.foldl (applyOp Demo.lang) {}
    s.assets = [1, 2, 3] ∧ s.associations = [0] ∧ s.attackers = [0] ∧ s.assetIds = [6, 0, 5] ∧
    s.assetNames = ["Net:6", "h:0", "h"] ∧ s.typeToAssoc = [("Link_Host_Net", [0])] ∧ s.nextId = 8 ∧
    (s.lobj 0).left = [2] ∧ (s.lobj 0).right = [1] ∧ (s.aobj 2).assocs = [0] ∧ (s.aobj 3).assocs = [] ∧
    (s.aobj 2).id = 0 ∧ (s.aobj 3).id = 5 ∧ (s.tobj 0).entry = [] := by
  decide

/-- before the removal: the self-link is listed twice and the asset is its own neighbour (reported once per listing);
explicit ids 5 and 0 -/
example :
    let s := (Demo.ops.take 7).foldl (applyOp Demo.lang) {}
    s.assets = [0, 1, 2] ∧ (s.aobj 0).assocs = [0, 1, 1] ∧ neighbours s 0 "peerOf" = [0, 0] ∧ neighbours s 0 "peers" = [0, 0] ∧
    neighbours s 1 "hosts" = [0, 2] ∧ (s.aobj 0).id = 5 ∧ (s.aobj 2).id = 0 ∧ (s.aobj 2).name = "h:0" ∧
    (s.tobj 0).entry = [(0, ["access"])] := by
  decide

/-- two attackers may share an id; the lookup returns the first -/
example :
    let s := [Op.addAttacker none (some 3), Op.addAttacker (some "b") (some 3)].foldl (applyOp Demo.lang) {}
    s.attackers = [0, 1] ∧ (s.tobj 0).id = 3 ∧ (s.tobj 1).id = 3 ∧ getAttackerById s 3 = some 0 := by
  decide

end MalVerif.C05
