import MalVerif.Model.AGraph
import MalVerif.Proofs.FixOuter
/-!
# C08 — viability / necessity labels are the greatest fixed point, in any node order

Statements are about `AGraph.calcViabFrom` / `AGraph.calcNecFrom`, the model of
`calculate_viability_and_necessity` on a graph whose nodes carry arbitrary labels, and about
`AGraph.calcViab` / `AGraph.calcNec`, the same on a freshly generated graph.
-/
namespace MalVerif.C08
open MalVerif.Apriori MalVerif.AGraph

/-- structural consistency that C09 guarantees: indices in range, `children`
and `parents` converse -/
def validB (g : AG) : Bool :=
  (List.range g.length).all fun i =>
    ((viabG g).children i).all (fun c => decide (c < g.length) && ((viabG g).parents c).contains i) &&
    ((viabG g).parents i).all (fun p => decide (p < g.length) && ((viabG g).children p).contains i)

theorem out_of_range_children (g : AG) (i : Nat) (h : ¬ i < g.length) : (viabG g).children i = [] := by
  have : g[i]? = none := List.getElem?_eq_none (Nat.le_of_not_lt h)
  simp [viabG, this]
theorem out_of_range_parents (g : AG) (i : Nat) (h : ¬ i < g.length) : (viabG g).parents i = [] := by
  have : g[i]? = none := List.getElem?_eq_none (Nat.le_of_not_lt h)
  simp [viabG, this]

theorem valid_children (g : AG) (hv : validB g = true) (p c : Nat) (h : c ∈ (viabG g).children p) :
    c < g.length ∧ p ∈ (viabG g).parents c := by
  have hp : p < g.length := by
    apply Classical.byContradiction; intro hn
    rw [out_of_range_children g p hn] at h; simp at h
  unfold validB at hv
  rw [List.all_eq_true] at hv
  have := hv p (List.mem_range.2 hp)
  rw [Bool.and_eq_true, List.all_eq_true] at this
  have := this.1 c h
  simpa using this

theorem valid_parents (g : AG) (hv : validB g = true) (c p : Nat) (h : p ∈ (viabG g).parents c) :
    p < g.length ∧ c ∈ (viabG g).children p := by
  have hc : c < g.length := by
    apply Classical.byContradiction; intro hn
    rw [out_of_range_parents g c hn] at h; simp at h
  unfold validB at hv
  rw [List.all_eq_true] at hv
  have := hv c (List.mem_range.2 hc)
  rw [Bool.and_eq_true, List.all_eq_true, List.all_eq_true] at this
  have := this.2 p h
  simpa using this

theorem conv_viab (g : AG) (hv : validB g = true) : Conv (viabG g) :=
  fun c p => ⟨fun h => (valid_children g hv p c h).2, fun h => (valid_parents g hv c p h).2⟩
theorem conv_nec (g : AG) (hv : validB g = true) : Conv (necG g) := conv_viab g hv

theorem const_out_of_range_viab (g : AG) (x : Nat) (h : ¬ x < g.length) : viabConst g x = true := by
  have : g[x]? = none := List.getElem?_eq_none (Nat.le_of_not_lt h)
  simp [viabConst, this]
theorem const_out_of_range_nec (g : AG) (x : Nat) (h : ¬ x < g.length) : necConst g x = true := by
  have : g[x]? = none := List.getElem?_eq_none (Nat.le_of_not_lt h)
  simp [necConst, this]

/-- a visiting order "covers" the graph when every stored node occurs in it;
every permutation of the node list does -/
def Covers (g : AG) (order : List Nat) : Prop := ∀ x, x < g.length → x ∈ order

/-- labels at positions that are not nodes of the graph are the default (no restriction on the labels of the
nodes; `labOfList l` with `l.length ≤ g.length` has it) -/
def DefaultOutside (g : AG) (v0 : Lab) : Prop := ∀ x, g.length ≤ x → v0 x = true

theorem defaultOutside_top (g : AG) : DefaultOutside g top := fun _ _ => rfl

theorem defaultOutside_labOfList (g : AG) (l : List Bool) (h : l.length ≤ g.length) :
    DefaultOutside g (labOfList l) := by
  intro x hx
  have : l[x]? = none := List.getElem?_eq_none (Nat.le_trans h hx)
  simp [labOfList, this]

theorem reset_covers (g : AG) (order : List Nat) (hc : Covers g order) (v0 : Lab) (h0 : DefaultOutside g v0) :
    ∀ x, x ∈ order ∨ v0 x = true := fun x => by
  by_cases hx : x < g.length
  · exact Or.inl (hc x hx)
  · exact Or.inr (h0 x (Nat.le_of_not_lt hx))

/-- **Viability is the greatest fixed point, from any initial labels**: whatever `is_viable` labels the nodes
carry when `calculate_viability_and_necessity` is called, the computed labelling solves the equations of the
graph and dominates every labelling that is consistent with them, for every node order. -/
theorem viability_is_gfp_from (g : AG) (hv : validB g = true) (order : List Nat) (hc : Covers g order)
    (v0 : Lab) (h0 : DefaultOutside g v0) :
    (∀ x, calcViabFrom g order v0 x = Sys (viabG g) (viabConst g) (calcViabFrom g order v0) x) ∧
    (∀ w : Lab, (∀ x, w x = true → Sys (viabG g) (viabConst g) w x = true) → le w (calcViabFrom g order v0)) := by
  have := calc_gfp_any (viabG g) (conv_viab g hv) (List.range g.length)
    (fun p c h => List.mem_range.2 (valid_children g hv p c h).1) (viabConst g) order v0
    (reset_covers g order hc v0 h0)
    (fun x _ => by
      by_cases hx : x < g.length
      · exact Or.inl (hc x hx)
      · exact Or.inr (const_out_of_range_viab g x hx))
  simpa [calcViabFrom, List.length_range] using this

/-- **Necessity is the greatest fixed point, from any initial labels** (a parent with a TTC distribution
counts as necessary: `eff`). -/
theorem necessity_is_gfp_from (g : AG) (hv : validB g = true) (order : List Nat) (hc : Covers g order)
    (n0 : Lab) (h0 : DefaultOutside g n0) :
    (∀ x, calcNecFrom g order n0 x = Sys (necG g) (necConst g) (calcNecFrom g order n0) x) ∧
    (∀ w : Lab, (∀ x, w x = true → Sys (necG g) (necConst g) w x = true) → le w (calcNecFrom g order n0)) := by
  have := calc_gfp_any (necG g) (conv_nec g hv) (List.range g.length)
    (fun p c h => List.mem_range.2 (valid_children g hv p c h).1) (necConst g) order n0
    (reset_covers g order hc n0 h0)
    (fun x _ => by
      by_cases hx : x < g.length
      · exact Or.inl (hc x hx)
      · exact Or.inr (const_out_of_range_nec g x hx))
  simpa [calcNecFrom, List.length_range] using this

/-- **Viability is the greatest fixed point** (freshly generated graph): the computed labelling solves
the equations and dominates every labelling that is consistent with them,
for every node order. -/
theorem viability_is_gfp (g : AG) (hv : validB g = true) (order : List Nat) (hc : Covers g order) :
    (∀ x, calcViab g order x = Sys (viabG g) (viabConst g) (calcViab g order) x) ∧
    (∀ w : Lab, (∀ x, w x = true → Sys (viabG g) (viabConst g) w x = true) → le w (calcViab g order)) :=
  viability_is_gfp_from g hv order hc top (defaultOutside_top g)

/-- **Necessity is the greatest fixed point** (a parent with a TTC
distribution counts as necessary: `eff`). -/
theorem necessity_is_gfp (g : AG) (hv : validB g = true) (order : List Nat) (hc : Covers g order) :
    (∀ x, calcNec g order x = Sys (necG g) (necConst g) (calcNec g order) x) ∧
    (∀ w : Lab, (∀ x, w x = true → Sys (necG g) (necConst g) w x = true) → le w (calcNec g order)) :=
  necessity_is_gfp_from g hv order hc top (defaultOutside_top g)

/-- **Order independence**: any two visiting orders of the stored nodes give
the same labels. -/
theorem order_independent (g : AG) (hv : validB g = true) (o1 o2 : List Nat)
    (h1 : Covers g o1) (h2 : Covers g o2) :
    calcViab g o1 = calcViab g o2 ∧ calcNec g o1 = calcNec g o2 := by
  have a1 := viability_is_gfp g hv o1 h1
  have a2 := viability_is_gfp g hv o2 h2
  have b1 := necessity_is_gfp g hv o1 h1
  have b2 := necessity_is_gfp g hv o2 h2
  exact ⟨gfp_unique _ _ _ a1.1 a2.1 a1.2 a2.2, gfp_unique _ _ _ b1.1 b2.1 b1.2 b2.2⟩

/-- two stored graphs describe the same graph when node attributes agree and
the child / parent lists have the same members (any order, any multiplicity) -/
def SameGraph (g g' : AG) : Prop :=
  g.length = g'.length ∧
  (∀ i, typeOf g i = typeOf g' i) ∧
  (∀ i, viabConst g i = viabConst g' i) ∧ (∀ i, necConst g i = necConst g' i) ∧
  (∀ i, (necG g).gate i = (necG g').gate i) ∧
  (∀ i p, p ∈ (viabG g).parents i ↔ p ∈ (viabG g').parents i)

/-- **Independence from the order of the child / parent lists**. -/
theorem list_order_independent (g g' : AG) (hv : validB g = true) (hv' : validB g' = true)
    (hs : SameGraph g g') (o o' : List Nat) (h : Covers g o) (h' : Covers g' o') :
    calcViab g o = calcViab g' o' ∧ calcNec g o = calcNec g' o' := by
  obtain ⟨_, ht, hcv, hcn, hg, hp⟩ := hs
  have a1 := viability_is_gfp g hv o h
  have a2 := viability_is_gfp g' hv' o' h'
  have b1 := necessity_is_gfp g hv o h
  have b2 := necessity_is_gfp g' hv' o' h'
  have e1 : Sys (viabG g) (viabConst g) = Sys (viabG g') (viabConst g') := by
    have : viabConst g = viabConst g' := funext hcv
    rw [this]
    exact Sys_congr _ _ _ (fun x => by simp [viabG, ht x]) (fun _ => rfl) hp
  have e2 : Sys (necG g) (necConst g) = Sys (necG g') (necConst g') := by
    have : necConst g = necConst g' := funext hcn
    rw [this]
    exact Sys_congr _ _ _ (fun x => by simp [necG, ht x]) hg hp
  rw [e1] at a1; rw [e2] at b1
  exact ⟨gfp_unique _ _ _ a1.1 a2.1 a1.2 a2.2, gfp_unique _ _ _ b1.1 b2.1 b1.2 b2.2⟩

/-! ### analysing a graph again: from any labels (a3159ad + 8a1d835) -/

/-- **The analysis from any labels is the greatest fixed point of the current graph**: labels left by an
earlier analysis (complete or aborted), loaded from a file or set by the caller through the public
`evaluate_*` / `propagate_*` functions do not matter. -/
theorem calc_from_any_labels_is_gfp (g : AG) (hv : validB g = true) (order : List Nat) (hc : Covers g order)
    (v0 n0 : Lab) (hv0 : DefaultOutside g v0) (hn0 : DefaultOutside g n0) :
    ((∀ x, calcViabFrom g order v0 x = Sys (viabG g) (viabConst g) (calcViabFrom g order v0) x) ∧
     (∀ w : Lab, (∀ x, w x = true → Sys (viabG g) (viabConst g) w x = true) → le w (calcViabFrom g order v0))) ∧
    ((∀ x, calcNecFrom g order n0 x = Sys (necG g) (necConst g) (calcNecFrom g order n0) x) ∧
     (∀ w : Lab, (∀ x, w x = true → Sys (necG g) (necConst g) w x = true) → le w (calcNecFrom g order n0))) :=
  ⟨viability_is_gfp_from g hv order hc v0 hv0, necessity_is_gfp_from g hv order hc n0 hn0⟩

/-- … and therefore equal to the analysis of the freshly generated graph -/
theorem calc_from_any_labels_is_fresh_run (g : AG) (order : List Nat) (hc : Covers g order)
    (v0 n0 : Lab) (hv0 : DefaultOutside g v0) (hn0 : DefaultOutside g n0) :
    calcViabFrom g order v0 = calcViab g order ∧ calcNecFrom g order n0 = calcNec g order := by
  unfold calcViab calcNec calcViabFrom calcNecFrom
  rw [calcAll_eq _ _ _ order v0 (reset_covers g order hc v0 hv0),
      calcAll_eq _ _ _ order n0 (reset_covers g order hc n0 hn0),
      calcAll_eq _ _ _ order top (fun _ => Or.inr rfl), calcAll_eq _ _ _ order top (fun _ => Or.inr rfl)]
  exact ⟨rfl, rfl⟩

/-- **`calculate_viability_and_necessity` ignores the old labels**: two runs on the same graph that differ
only in the labels the nodes carried before give the same labels. -/
theorem calc_ignores_old_labels (g : AG) (order : List Nat) (hc : Covers g order)
    (v0 v0' n0 n0' : Lab) (h1 : DefaultOutside g v0) (h1' : DefaultOutside g v0')
    (h2 : DefaultOutside g n0) (h2' : DefaultOutside g n0') :
    calcViabFrom g order v0 = calcViabFrom g order v0' ∧ calcNecFrom g order n0 = calcNecFrom g order n0' := by
  have a := calc_from_any_labels_is_fresh_run g order hc v0 n0 h1 h2
  have b := calc_from_any_labels_is_fresh_run g order hc v0' n0' h1' h2'
  exact ⟨a.1.trans b.1.symm, a.2.trans b.2.symm⟩

/-- the computed labels are again the default outside the graph -/
theorem defaultOutside_calc (g : AG) (hv : validB g = true) (order : List Nat) (hc : Covers g order)
    (v0 n0 : Lab) (hv0 : DefaultOutside g v0) (hn0 : DefaultOutside g n0) :
    DefaultOutside g (calcViabFrom g order v0) ∧ DefaultOutside g (calcNecFrom g order n0) := by
  constructor
  · intro x hx
    have hx' : ¬ x < g.length := Nat.not_lt.2 hx
    have hnone : g[x]? = none := List.getElem?_eq_none hx
    rw [(viability_is_gfp_from g hv order hc v0 hv0).1 x]
    simp [Sys, viabG, typeOf, hnone, viabKind, const_out_of_range_viab g x hx']
  · intro x hx
    have hx' : ¬ x < g.length := Nat.not_lt.2 hx
    have hnone : g[x]? = none := List.getElem?_eq_none hx
    rw [(necessity_is_gfp_from g hv order hc n0 hn0).1 x]
    simp [Sys, necG, typeOf, hnone, necKind, const_out_of_range_nec g x hx']

/-- **Re-running the analysis after the graph changed.**  Analyse `g` (from any labels), then change defense /
existence statuses, TTCs, even edges and node types (`g'`: any valid graph on the same positions) and analyse
again on the labels the first run left behind: the result is the analysis of the freshly generated `g'`. -/
theorem rerun_after_change (g g' : AG) (hlen : g'.length = g.length) (hv : validB g = true)
    (order order' : List Nat) (hc : Covers g order) (hc' : Covers g' order')
    (v0 n0 : Lab) (hv0 : DefaultOutside g v0) (hn0 : DefaultOutside g n0) :
    calcViabFrom g' order' (calcViabFrom g order v0) = calcViab g' order' ∧
    calcNecFrom g' order' (calcNecFrom g order n0) = calcNec g' order' := by
  have h := defaultOutside_calc g hv order hc v0 n0 hv0 hn0
  apply calc_from_any_labels_is_fresh_run g' order' hc'
  · intro x hx; exact h.1 x (hlen ▸ hx)
  · intro x hx; exact h.2 x (hlen ▸ hx)

/-- **Re-running the analysis after an aborted run.**  Whatever prefix `pre` of the nodes the second loop of an
earlier run of `calculate_viability_and_necessity` got through before it stopped (e.g. on the `AssertionError`
of an invalid defense status, repaired afterwards), running the analysis again on the labels it left behind
gives the labels of a run on the freshly generated graph.  (Corollary of `calc_from_any_labels_is_fresh_run`.) -/
theorem rerun_is_fresh_run (g : AG) (hv : validB g = true) (pre order : List Nat) (hc : Covers g order) :
    calcViabFrom g order (calcLab (viabG g) (viabConst g) (g.length + 1) pre top) = calcViab g order ∧
    calcNecFrom g order (calcLab (necG g) (necConst g) (g.length + 1) pre top) = calcNec g order := by
  have hcl : ∀ p c, c ∈ (viabG g).children p → c ∈ List.range g.length :=
    fun p c h => List.mem_range.2 (valid_children g hv p c h).1
  have a := (oinv_calcLab (viabG g) (conv_viab g hv) (List.range g.length) hcl (viabConst g) pre []).cst
  have b := (oinv_calcLab (necG g) (conv_nec g hv) (List.range g.length) hcl (necConst g) pre []).cst
  simp only [List.length_range] at a b
  apply calc_from_any_labels_is_fresh_run g order hc
  · intro x hx
    have hnone : g[x]? = none := List.getElem?_eq_none hx
    have := a x (by simp [viabG, typeOf, hnone, viabKind])
    rw [const_out_of_range_viab g x (Nat.not_lt.2 hx)] at this
    exact this.elim id id
  · intro x hx
    have hnone : g[x]? = none := List.getElem?_eq_none hx
    have := b x (by simp [necG, typeOf, hnone, necKind])
    rw [const_out_of_range_nec g x (Nat.not_lt.2 hx)] at this
    exact this.elim id id

/-- a second complete run is the identity on the labels -/
theorem rerun_idempotent (g : AG) (hv : validB g = true) (order : List Nat) (hc : Covers g order) :
    calcViabFrom g order (calcViab g order) = calcViab g order ∧
    calcNecFrom g order (calcNec g order) = calcNec g order :=
  rerun_after_change g g rfl hv order order hc hc top top (defaultOutside_top g) (defaultOutside_top g)

/-! ### the three repaired defects, as proved counterexamples about the pre-fix variants -/

/-- a defense whose only child is an `or` step; `enabled` = its status is `1.0` (else `0.5`) -/
def oneDefense (enabled : Bool) : AG := [
  { type := .defense, children := [1], parents := [], defOne := enabled, defZero := false },
  { type := .or, children := [], parents := [0] } ]

/-- **Before a3159ad** `calculate_viability_and_necessity` was the second loop alone (`calcLab`, no reset).
Analyse the graph with the defense enabled (the `or` step becomes unviable), disable the defense, analyse again:
the pre-fix loop leaves the step unviable although the greatest fixed point of the current graph has it viable;
the repaired function (`calcViabFrom`) gives the greatest fixed point. -/
theorem pre_fix_variant_keeps_stale_labels :
    let old := calcViab (oneDefense true) [0, 1]
    old 1 = false ∧
    calcLab (viabG (oneDefense false)) (viabConst (oneDefense false)) 3 [0, 1] old 1 = false ∧
    calcViab (oneDefense false) [0, 1] 1 = true ∧
    calcViabFrom (oneDefense false) [0, 1] old 1 = true := by
  simp [calcViab, calcViabFrom, calcAll, calcLab, resetLab, prop, loop, recompute, eff, upd, top, viabG,
    viabConst, oneDefense, typeOf, viabKind]

/-- two defenses with a common `or` child; the first is enabled, `second` says whether the second is -/
def twoDefenses (second : Bool) : AG := [
  { type := .defense, children := [2], parents := [], defOne := true, defZero := false },
  { type := .defense, children := [2], parents := [], defOne := second, defZero := !second },
  { type := .or, children := [], parents := [0, 1] } ]

/-- **Between a3159ad and 8a1d835** the reset loop skipped defenses and existence steps (`calcAllGuarded`).
Analyse with both defenses enabled, disable the second one, analyse again: when the first defense propagates,
the `or` step is recomputed from the *old* label `False` of the second defense, which is only re-evaluated
afterwards (to `True`, so it does not propagate): the step stays unviable.  The greatest fixed point of the
current graph has it viable, and so has the repaired function. -/
theorem guarded_reset_variant_keeps_stale_status_label :
    let old := calcViab (twoDefenses true) [0, 1, 2]
    old 1 = false ∧
    calcAllGuarded (viabG (twoDefenses false)) (viabConst (twoDefenses false)) 4 [0, 1, 2] old 2 = false ∧
    calcViab (twoDefenses false) [0, 1, 2] 2 = true ∧
    calcViabFrom (twoDefenses false) [0, 1, 2] old 2 = true := by
  simp [calcViab, calcViabFrom, calcAll, calcAllGuarded, calcLab, resetLab, resetLabGuarded, prop, loop,
    recompute, eff, upd, top, viabG, viabConst, twoDefenses, typeOf, viabKind]

/-- the hypothesis `NoStaleStatus` of `Apriori.calcAllGuarded_gfp_partial` fails on that input, as it must -/
example : ¬ NoStaleStatus (viabG (twoDefenses false)) (viabConst (twoDefenses false))
    (calcViab (twoDefenses true) [0, 1, 2]) := by
  intro h
  have := h 1 (by simp [viabG, twoDefenses, typeOf, viabKind])
  simp [calcViab, calcViabFrom, calcAll, calcLab, resetLab, prop, loop, recompute, eff, upd, top, viabG,
    viabConst, twoDefenses, typeOf, viabKind] at this

/-- **A composite TTC (or a number) is a probability distribution** (68ab4f5): any non-empty TTC dict without a
`name` key counts, as does any named function other than Enabled / Disabled; `None`, `{}`, Enabled and Disabled
do not. -/
theorem composite_ttc_is_distribution (n : ANode) :
    (n.ttcSet = true → n.ttcName = none → n.hasDist = true) ∧
    (n.ttcSet = true → ∀ nm, n.ttcName = some nm → (n.hasDist = true ↔ nm ≠ "Enabled" ∧ nm ≠ "Disabled")) ∧
    (n.ttcSet = false → n.hasDist = false) := by
  refine ⟨fun h1 h2 => by simp [ANode.hasDist, ANode.pseudo, h1, h2],
          fun h1 nm h2 => by simp [ANode.hasDist, ANode.pseudo, h1, h2],
          fun h1 => by simp [ANode.hasDist, h1]⟩

/-- the necessity graph with the distribution test as it was before 68ab4f5 -/
def necGPreFix (g : AG) : G := { necG g with gate := fun i => ((g[i]?).map (·.hasDistPreFix)).getD false }

/-- an existing asset's `exist` step (unnecessary) → an `or` step with a composite TTC → an `and` step -/
def compositeDemo : AG := [
  { type := .exist, children := [1], parents := [], exist := true },
  { type := .or, children := [2], parents := [0], ttcSet := true, ttcName := none },
  { type := .and, children := [], parents := [1] } ]

/-- **Before 68ab4f5** a TTC without a `name` key was treated like no TTC: the unnecessary `or` step 1, whose TTC
is a sum of distributions, passed its status on to the `and` step 2.  With the repaired test step 1 counts as
necessary for its children and step 2 stays necessary. -/
theorem pre_fix_distribution_test_misses_composite :
    (compositeDemo[1]?.map (·.hasDistPreFix)) = some false ∧ (compositeDemo[1]?.map (·.hasDist)) = some true ∧
    calcAll (necGPreFix compositeDemo) (necConst compositeDemo) 4 [0, 1, 2] top 2 = false ∧
    calcNec compositeDemo [0, 1, 2] 1 = false ∧
    calcNec compositeDemo [0, 1, 2] 2 = true := by
  simp [calcNec, calcNecFrom, calcAll, calcLab, resetLab, prop, loop, recompute, eff, upd, top, necG, necGPreFix,
    necConst, compositeDemo, typeOf, necKind, ANode.hasDist, ANode.hasDistPreFix, ANode.pseudo]

/-! ### the clauses of the property, read off the fixed-point equation -/

section clauses
variable (g : AG) (hv : validB g = true) (order : List Nat) (hc : Covers g order)
include hv hc

/-- defenses and existence steps are labelled from their own status -/
theorem status_nodes (x : Nat) (n : ANode) (hx : g[x]? = some n)
    (ht : n.type = .defense ∨ n.type = .exist ∨ n.type = .notExist) :
    calcViab g order x = viabConst g x ∧ calcNec g order x = necConst g x := by
  have a := (viability_is_gfp g hv order hc).1 x
  have b := (necessity_is_gfp g hv order hc).1 x
  have k1 : (viabG g).kind x = .constK := by
    rcases ht with h | h | h <;> simp [viabG, typeOf, hx, h, viabKind]
  have k2 : (necG g).kind x = .constK := by
    rcases ht with h | h | h <;> simp [necG, typeOf, hx, h, necKind]
  constructor
  · rw [a]; simp [Sys, k1]
  · rw [b]; simp [Sys, k2]

/-- the status a defense / existence step gets -/
theorem status_values (x : Nat) (n : ANode) (hx : g[x]? = some n) :
    (n.type = .defense → (calcViab g order x = !n.defOne) ∧ (calcNec g order x = !n.defZero)) ∧
    (n.type = .exist → (calcViab g order x = n.exist) ∧ (calcNec g order x = !n.exist)) ∧
    (n.type = .notExist → (calcViab g order x = !n.exist) ∧ (calcNec g order x = n.exist)) := by
  refine ⟨fun h => ?_, fun h => ?_, fun h => ?_⟩
  · have := status_nodes g hv order hc x n hx (Or.inl h)
    simpa [viabConst, necConst, hx, h] using this
  · have := status_nodes g hv order hc x n hx (Or.inr (Or.inl h))
    simpa [viabConst, necConst, hx, h] using this
  · have := status_nodes g hv order hc x n hx (Or.inr (Or.inr h))
    simpa [viabConst, necConst, hx, h] using this

/-- steps without parents keep the default (viable, necessary) -/
theorem no_parents_default (x : Nat) (n : ANode) (hx : g[x]? = some n)
    (ht : n.type = .or ∨ n.type = .and) (hp : n.parents = []) :
    calcViab g order x = true ∧ calcNec g order x = true := by
  have a := (viability_is_gfp g hv order hc).1 x
  have b := (necessity_is_gfp g hv order hc).1 x
  constructor
  · rw [a]; rcases ht with h | h <;> simp [Sys, F, viabG, typeOf, hx, h, viabKind, hp]
  · rw [b]; rcases ht with h | h <;> simp [Sys, F, necG, typeOf, hx, h, necKind, hp]

/-- an 'or' step with parents: viable iff some parent is viable; necessary
iff every parent is necessary or has a TTC distribution -/
theorem or_step (x : Nat) (n : ANode) (hx : g[x]? = some n) (ht : n.type = .or) (hp : n.parents ≠ []) :
    (calcViab g order x = true ↔ ∃ p ∈ n.parents, calcViab g order p = true) ∧
    (calcNec g order x = true ↔ ∀ p ∈ n.parents, (necG g).gate p = true ∨ calcNec g order p = true) := by
  have a := (viability_is_gfp g hv order hc).1 x
  have b := (necessity_is_gfp g hv order hc).1 x
  constructor
  · rw [a]; simp [Sys, F, viabG, typeOf, hx, ht, viabKind, hp, eff]
  · rw [b]; simp [Sys, F, necG, typeOf, hx, ht, necKind, eff]

/-- an 'and' step with parents: viable iff all parents are viable; necessary
iff some parent is necessary or has a TTC distribution -/
theorem and_step (x : Nat) (n : ANode) (hx : g[x]? = some n) (ht : n.type = .and) (hp : n.parents ≠ []) :
    (calcViab g order x = true ↔ ∀ p ∈ n.parents, calcViab g order p = true) ∧
    (calcNec g order x = true ↔ ∃ p ∈ n.parents, (necG g).gate p = true ∨ calcNec g order p = true) := by
  have a := (viability_is_gfp g hv order hc).1 x
  have b := (necessity_is_gfp g hv order hc).1 x
  constructor
  · rw [a]; simp [Sys, F, viabG, typeOf, hx, ht, viabKind, eff]
  · rw [b]; simp [Sys, F, necG, typeOf, hx, ht, necKind, hp, eff]

end clauses

/-- the fuel handed to the recursive propagation (`nodes + 1`) is never the
reason a call stops: with any larger fuel the result is the same labelling -/
theorem fuel_irrelevant (g : AG) (hv : validB g = true) (order : List Nat) (hc : Covers g order) (k : Nat) :
    calcLab (viabG g) (viabConst g) (g.length + 1) order top =
    calcLab (viabG g) (viabConst g) ((List.range g.length ++ List.replicate k 0).length + 1) order top := by
  have hcl : ∀ p c, c ∈ (viabG g).children p → c ∈ List.range g.length :=
    fun p c h => List.mem_range.2 (valid_children g hv p c h).1
  have hcl' : ∀ p c, c ∈ (viabG g).children p → c ∈ (List.range g.length ++ List.replicate k 0) :=
    fun p c h => List.mem_append_left _ (hcl p c h)
  have hall : ∀ x, (viabG g).kind x = .constK → x ∈ order ∨ viabConst g x = true := fun x _ => by
    by_cases hx : x < g.length
    · exact Or.inl (hc x hx)
    · exact Or.inr (const_out_of_range_viab g x hx)
  have a := calc_gfp (viabG g) (conv_viab g hv) _ hcl (viabConst g) order hall
  have b := calc_gfp (viabG g) (conv_viab g hv) _ hcl' (viabConst g) order hall
  simp only [List.length_range] at a
  exact gfp_unique _ _ _ a.1 b.1 a.2 b.2

/-! ### non-vacuity: a concrete cyclic graph with a self-loop, a gated parent
and all five node types meets the hypotheses -/

def demo : AG := [
  { type := .defense, children := [2], parents := [], defOne := true, defZero := false },
  { type := .exist, children := [3], parents := [], exist := false },
  { type := .or, children := [2, 3, 4], parents := [0, 2, 4] },
  { type := .and, children := [4], parents := [1, 2], ttcSet := true, ttcName := some "Exponential" },
  { type := .or, children := [2], parents := [2, 3] },
  { type := .notExist, children := [], parents := [], exist := false } ]

example : validB demo = true := by decide
example : Covers demo [5, 3, 1, 0, 2, 4] := by
  intro x hx; simp [demo] at hx
  have : x = 0 ∨ x = 1 ∨ x = 2 ∨ x = 3 ∨ x = 4 ∨ x = 5 := by omega
  rcases this with h | h | h | h | h | h <;> simp [h]
/-- the conclusions are not trivial on it: by the theorems above node 2 (an
'or' step fed by an enabled defense, by itself and by node 4, which is fed
only by 2 and the non-viable 3) cannot be viable in the *greatest* solution
only because every labelling making it viable is inconsistent; the driver
prints `[false, false, false, false, false, true]` for this graph and the
correspondence check compares that with the real code (case `demo`). -/
example : ∀ order, Covers demo order → calcViab demo order 0 = false := by
  intro order hc
  have := (status_values demo (by decide) order hc 0 _ rfl).1 rfl
  simpa using this.1

end MalVerif.C08
