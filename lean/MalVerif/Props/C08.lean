import MalVerif.Model.AGraph
import MalVerif.Proofs.FixOuter
/-!
# C08 — viability / necessity labels are the greatest fixed point, in any node order

Statements are about `AGraph.calcViab` / `AGraph.calcNec`, the model of
`calculate_viability_and_necessity` on a freshly generated graph.
-/
namespace MalVerif.C08
open MalVerif.Apriori MalVerif.AGraph

/-- structural consistency that C09 guarantees: indices in range, `children`
and `parents` converse -/
def validB (g : AG) : Bool :=
  (List.range g.length).all fun i =>
    ((viabG g).children i).all (fun c => decide (c < g.length) && ((viabG g).parents c).contains i) &&
    ((viabG g).parents i).all (fun p => decide (p < g.length) && ((viabG g).children p).contains i)

theorem out_of_range_children (g : AG) (i : Nat) (h : ¬ i < g.length) : (viabG g).children i = [] := by
  have : g[i]? = none := List.getElem?_eq_none (Nat.le_of_not_lt h)
  simp [viabG, this]
theorem out_of_range_parents (g : AG) (i : Nat) (h : ¬ i < g.length) : (viabG g).parents i = [] := by
  have : g[i]? = none := List.getElem?_eq_none (Nat.le_of_not_lt h)
  simp [viabG, this]

theorem valid_children (g : AG) (hv : validB g = true) (p c : Nat) (h : c ∈ (viabG g).children p) :
    c < g.length ∧ p ∈ (viabG g).parents c := by
  have hp : p < g.length := by
    apply Classical.byContradiction; intro hn
    rw [out_of_range_children g p hn] at h; simp at h
  unfold validB at hv
  rw [List.all_eq_true] at hv
  have := hv p (List.mem_range.2 hp)
  rw [Bool.and_eq_true, List.all_eq_true] at this
  have := this.1 c h
  simpa using this

theorem valid_parents (g : AG) (hv : validB g = true) (c p : Nat) (h : p ∈ (viabG g).parents c) :
    p < g.length ∧ c ∈ (viabG g).children p := by
  have hc : c < g.length := by
    apply Classical.byContradiction; intro hn
    rw [out_of_range_parents g c hn] at h; simp at h
  unfold validB at hv
  rw [List.all_eq_true] at hv
  have := hv c (List.mem_range.2 hc)
  rw [Bool.and_eq_true, List.all_eq_true, List.all_eq_true] at this
  have := this.2 p h
  simpa using this

theorem conv_viab (g : AG) (hv : validB g = true) : Conv (viabG g) :=
  fun c p => ⟨fun h => (valid_children g hv p c h).2, fun h => (valid_parents g hv c p h).2⟩
theorem conv_nec (g : AG) (hv : validB g = true) : Conv (necG g) := conv_viab g hv

theorem const_out_of_range_viab (g : AG) (x : Nat) (h : ¬ x < g.length) : viabConst g x = true := by
  have : g[x]? = none := List.getElem?_eq_none (Nat.le_of_not_lt h)
  simp [viabConst, this]
theorem const_out_of_range_nec (g : AG) (x : Nat) (h : ¬ x < g.length) : necConst g x = true := by
  have : g[x]? = none := List.getElem?_eq_none (Nat.le_of_not_lt h)
  simp [necConst, this]

/-- a visiting order "covers" the graph when every stored node occurs in it;
every permutation of the node list does -/
def Covers (g : AG) (order : List Nat) : Prop := ∀ x, x < g.length → x ∈ order

/-- **Viability is the greatest fixed point**: the computed labelling solves
the equations and dominates every labelling that is consistent with them,
for every node order. -/
theorem viability_is_gfp (g : AG) (hv : validB g = true) (order : List Nat) (hc : Covers g order) :
    (∀ x, calcViab g order x = Sys (viabG g) (viabConst g) (calcViab g order) x) ∧
    (∀ w : Lab, (∀ x, w x = true → Sys (viabG g) (viabConst g) w x = true) → le w (calcViab g order)) := by
  have := calc_gfp (viabG g) (conv_viab g hv) (List.range g.length)
    (fun p c h => List.mem_range.2 (valid_children g hv p c h).1) (viabConst g) order
    (fun x _ => by
      by_cases hx : x < g.length
      · exact Or.inl (hc x hx)
      · exact Or.inr (const_out_of_range_viab g x hx))
  simpa [calcViab, List.length_range] using this

/-- **Necessity is the greatest fixed point** (a parent with a TTC
distribution counts as necessary: `eff`). -/
theorem necessity_is_gfp (g : AG) (hv : validB g = true) (order : List Nat) (hc : Covers g order) :
    (∀ x, calcNec g order x = Sys (necG g) (necConst g) (calcNec g order) x) ∧
    (∀ w : Lab, (∀ x, w x = true → Sys (necG g) (necConst g) w x = true) → le w (calcNec g order)) := by
  have := calc_gfp (necG g) (conv_nec g hv) (List.range g.length)
    (fun p c h => List.mem_range.2 (valid_children g hv p c h).1) (necConst g) order
    (fun x _ => by
      by_cases hx : x < g.length
      · exact Or.inl (hc x hx)
      · exact Or.inr (const_out_of_range_nec g x hx))
  simpa [calcNec, List.length_range] using this

/-- **Order independence**: any two visiting orders of the stored nodes give
the same labels. -/
theorem order_independent (g : AG) (hv : validB g = true) (o1 o2 : List Nat)
    (h1 : Covers g o1) (h2 : Covers g o2) :
    calcViab g o1 = calcViab g o2 ∧ calcNec g o1 = calcNec g o2 := by
  have a1 := viability_is_gfp g hv o1 h1
  have a2 := viability_is_gfp g hv o2 h2
  have b1 := necessity_is_gfp g hv o1 h1
  have b2 := necessity_is_gfp g hv o2 h2
  exact ⟨gfp_unique _ _ _ a1.1 a2.1 a1.2 a2.2, gfp_unique _ _ _ b1.1 b2.1 b1.2 b2.2⟩

/-- two stored graphs describe the same graph when node attributes agree and
the child / parent lists have the same members (any order, any multiplicity) -/
def SameGraph (g g' : AG) : Prop :=
  g.length = g'.length ∧
  (∀ i, typeOf g i = typeOf g' i) ∧
  (∀ i, viabConst g i = viabConst g' i) ∧ (∀ i, necConst g i = necConst g' i) ∧
  (∀ i, (necG g).gate i = (necG g').gate i) ∧
  (∀ i p, p ∈ (viabG g).parents i ↔ p ∈ (viabG g').parents i)

/-- **Independence from the order of the child / parent lists**. -/
theorem list_order_independent (g g' : AG) (hv : validB g = true) (hv' : validB g' = true)
    (hs : SameGraph g g') (o o' : List Nat) (h : Covers g o) (h' : Covers g' o') :
    calcViab g o = calcViab g' o' ∧ calcNec g o = calcNec g' o' := by
  obtain ⟨_, ht, hcv, hcn, hg, hp⟩ := hs
  have a1 := viability_is_gfp g hv o h
  have a2 := viability_is_gfp g' hv' o' h'
  have b1 := necessity_is_gfp g hv o h
  have b2 := necessity_is_gfp g' hv' o' h'
  have e1 : Sys (viabG g) (viabConst g) = Sys (viabG g') (viabConst g') := by
    have : viabConst g = viabConst g' := funext hcv
    rw [this]
    exact Sys_congr _ _ _ (fun x => by simp [viabG, ht x]) (fun _ => rfl) hp
  have e2 : Sys (necG g) (necConst g) = Sys (necG g') (necConst g') := by
    have : necConst g = necConst g' := funext hcn
    rw [this]
    exact Sys_congr _ _ _ (fun x => by simp [necG, ht x]) hg hp
  rw [e1] at a1; rw [e2] at b1
  exact ⟨gfp_unique _ _ _ a1.1 a2.1 a1.2 a2.2, gfp_unique _ _ _ b1.1 b2.1 b1.2 b2.2⟩

/-! ### analysing a graph again (after a complete or an aborted earlier run) -/

/-- **Re-running the analysis.**  Whatever prefix `pre` of the nodes an earlier run of
`calculate_viability_and_necessity` got through before it stopped (e.g. on the `AssertionError` of an invalid
defense status, repaired afterwards), running the analysis again on the labels it left behind gives the labels of
a run on the freshly generated graph — in particular a second complete run changes nothing. -/
theorem rerun_is_fresh_run (g : AG) (hv : validB g = true) (pre order : List Nat) (hc : Covers g order) :
    calcLab (viabG g) (viabConst g) (g.length + 1) order (calcLab (viabG g) (viabConst g) (g.length + 1) pre top)
      = calcViab g order ∧
    calcLab (necG g) (necConst g) (g.length + 1) order (calcLab (necG g) (necConst g) (g.length + 1) pre top)
      = calcNec g order := by
  have hcl : ∀ p c, c ∈ (viabG g).children p → c ∈ List.range g.length :=
    fun p c h => List.mem_range.2 (valid_children g hv p c h).1
  have hallv : ∀ x, (viabG g).kind x = Kind.constK → x ∈ order ∨ viabConst g x = true := fun x _ => by
    by_cases hx : x < g.length
    · exact Or.inl (hc x hx)
    · exact Or.inr (const_out_of_range_viab g x hx)
  have halln : ∀ x, (necG g).kind x = Kind.constK → x ∈ order ∨ necConst g x = true := fun x _ => by
    by_cases hx : x < g.length
    · exact Or.inl (hc x hx)
    · exact Or.inr (const_out_of_range_nec g x hx)
  have a := calc_gfp_from (viabG g) (conv_viab g hv) (List.range g.length) hcl (viabConst g) order _
    (oinv_calcLab (viabG g) (conv_viab g hv) (List.range g.length) hcl (viabConst g) pre) hallv
  have b := calc_gfp_from (necG g) (conv_nec g hv) (List.range g.length) hcl (necConst g) order _
    (oinv_calcLab (necG g) (conv_nec g hv) (List.range g.length) hcl (necConst g) pre) halln
  have a' := viability_is_gfp g hv order hc
  have b' := necessity_is_gfp g hv order hc
  simp only [List.length_range] at a b
  exact ⟨gfp_unique _ _ _ a.1 a'.1 a.2 a'.2, gfp_unique _ _ _ b.1 b'.1 b.2 b'.2⟩

/-- a second complete run is the identity on the labels -/
theorem rerun_idempotent (g : AG) (hv : validB g = true) (order : List Nat) (hc : Covers g order) :
    calcLab (viabG g) (viabConst g) (g.length + 1) order (calcViab g order) = calcViab g order ∧
    calcLab (necG g) (necConst g) (g.length + 1) order (calcNec g order) = calcNec g order :=
  rerun_is_fresh_run g hv order order hc

/-! ### the clauses of the property, read off the fixed-point equation -/

section clauses
variable (g : AG) (hv : validB g = true) (order : List Nat) (hc : Covers g order)
include hv hc

/-- defenses and existence steps are labelled from their own status -/
theorem status_nodes (x : Nat) (n : ANode) (hx : g[x]? = some n)
    (ht : n.type = .defense ∨ n.type = .exist ∨ n.type = .notExist) :
    calcViab g order x = viabConst g x ∧ calcNec g order x = necConst g x := by
  have a := (viability_is_gfp g hv order hc).1 x
  have b := (necessity_is_gfp g hv order hc).1 x
  have k1 : (viabG g).kind x = .constK := by
    rcases ht with h | h | h <;> simp [viabG, typeOf, hx, h, viabKind]
  have k2 : (necG g).kind x = .constK := by
    rcases ht with h | h | h <;> simp [necG, typeOf, hx, h, necKind]
  constructor
  · rw [a]; simp [Sys, k1]
  · rw [b]; simp [Sys, k2]

/-- the status a defense / existence step gets -/
theorem status_values (x : Nat) (n : ANode) (hx : g[x]? = some n) :
    (n.type = .defense → (calcViab g order x = !n.defOne) ∧ (calcNec g order x = !n.defZero)) ∧
    (n.type = .exist → (calcViab g order x = n.exist) ∧ (calcNec g order x = !n.exist)) ∧
    (n.type = .notExist → (calcViab g order x = !n.exist) ∧ (calcNec g order x = n.exist)) := by
  refine ⟨fun h => ?_, fun h => ?_, fun h => ?_⟩
  · have := status_nodes g hv order hc x n hx (Or.inl h)
    simpa [viabConst, necConst, hx, h] using this
  · have := status_nodes g hv order hc x n hx (Or.inr (Or.inl h))
    simpa [viabConst, necConst, hx, h] using this
  · have := status_nodes g hv order hc x n hx (Or.inr (Or.inr h))
    simpa [viabConst, necConst, hx, h] using this

/-- steps without parents keep the default (viable, necessary) -/
theorem no_parents_default (x : Nat) (n : ANode) (hx : g[x]? = some n)
    (ht : n.type = .or ∨ n.type = .and) (hp : n.parents = []) :
    calcViab g order x = true ∧ calcNec g order x = true := by
  have a := (viability_is_gfp g hv order hc).1 x
  have b := (necessity_is_gfp g hv order hc).1 x
  constructor
  · rw [a]; rcases ht with h | h <;> simp [Sys, F, viabG, typeOf, hx, h, viabKind, hp]
  · rw [b]; rcases ht with h | h <;> simp [Sys, F, necG, typeOf, hx, h, necKind, hp]

/-- an 'or' step with parents: viable iff some parent is viable; necessary
iff every parent is necessary or has a TTC distribution -/
theorem or_step (x : Nat) (n : ANode) (hx : g[x]? = some n) (ht : n.type = .or) (hp : n.parents ≠ []) :
    (calcViab g order x = true ↔ ∃ p ∈ n.parents, calcViab g order p = true) ∧
    (calcNec g order x = true ↔ ∀ p ∈ n.parents, (necG g).gate p = true ∨ calcNec g order p = true) := by
  have a := (viability_is_gfp g hv order hc).1 x
  have b := (necessity_is_gfp g hv order hc).1 x
  constructor
  · rw [a]; simp [Sys, F, viabG, typeOf, hx, ht, viabKind, hp, eff]
  · rw [b]; simp [Sys, F, necG, typeOf, hx, ht, necKind, eff]

/-- an 'and' step with parents: viable iff all parents are viable; necessary
iff some parent is necessary or has a TTC distribution -/
theorem and_step (x : Nat) (n : ANode) (hx : g[x]? = some n) (ht : n.type = .and) (hp : n.parents ≠ []) :
    (calcViab g order x = true ↔ ∀ p ∈ n.parents, calcViab g order p = true) ∧
    (calcNec g order x = true ↔ ∃ p ∈ n.parents, (necG g).gate p = true ∨ calcNec g order p = true) := by
  have a := (viability_is_gfp g hv order hc).1 x
  have b := (necessity_is_gfp g hv order hc).1 x
  constructor
  · rw [a]; simp [Sys, F, viabG, typeOf, hx, ht, viabKind, eff]
  · rw [b]; simp [Sys, F, necG, typeOf, hx, ht, necKind, hp, eff]

end clauses

/-- the fuel handed to the recursive propagation (`nodes + 1`) is never the
reason a call stops: with any larger fuel the result is the same labelling -/
theorem fuel_irrelevant (g : AG) (hv : validB g = true) (order : List Nat) (hc : Covers g order) (k : Nat) :
    calcLab (viabG g) (viabConst g) (g.length + 1) order top =
    calcLab (viabG g) (viabConst g) ((List.range g.length ++ List.replicate k 0).length + 1) order top := by
  have hcl : ∀ p c, c ∈ (viabG g).children p → c ∈ List.range g.length :=
    fun p c h => List.mem_range.2 (valid_children g hv p c h).1
  have hcl' : ∀ p c, c ∈ (viabG g).children p → c ∈ (List.range g.length ++ List.replicate k 0) :=
    fun p c h => List.mem_append_left _ (hcl p c h)
  have hall : ∀ x, (viabG g).kind x = .constK → x ∈ order ∨ viabConst g x = true := fun x _ => by
    by_cases hx : x < g.length
    · exact Or.inl (hc x hx)
    · exact Or.inr (const_out_of_range_viab g x hx)
  have a := calc_gfp (viabG g) (conv_viab g hv) _ hcl (viabConst g) order hall
  have b := calc_gfp (viabG g) (conv_viab g hv) _ hcl' (viabConst g) order hall
  simp only [List.length_range] at a
  exact gfp_unique _ _ _ a.1 b.1 a.2 b.2

/-! ### non-vacuity: a concrete cyclic graph with a self-loop, a gated parent
and all five node types meets the hypotheses -/

def demo : AG := [
  { type := .defense, children := [2], parents := [], defOne := true, defZero := false },
  { type := .exist, children := [3], parents := [], exist := false },
  { type := .or, children := [2, 3, 4], parents := [0, 2, 4] },
  { type := .and, children := [4], parents := [1, 2], gate := true },
  { type := .or, children := [2], parents := [2, 3] },
  { type := .notExist, children := [], parents := [], exist := false } ]

example : validB demo = true := by decide
example : Covers demo [5, 3, 1, 0, 2, 4] := by
  intro x hx; simp [demo] at hx
  have : x = 0 ∨ x = 1 ∨ x = 2 ∨ x = 3 ∨ x = 4 ∨ x = 5 := by omega
  rcases this with h | h | h | h | h | h <;> simp [h]
/-- the conclusions are not trivial on it: by the theorems above node 2 (an
'or' step fed by an enabled defense, by itself and by node 4, which is fed
only by 2 and the non-viable 3) cannot be viable in the *greatest* solution
only because every labelling making it viable is inconsistent; the driver
prints `[false, false, false, false, false, true]` for this graph and the
correspondence check compares that with the real code (case `demo`). -/
example : ∀ order, Covers demo order → calcViab demo order 0 = false := by
  intro order hc
  have := (status_values demo (by decide) order hc 0 _ rfl).1 rfl
  simpa using this.1

end MalVerif.C08
