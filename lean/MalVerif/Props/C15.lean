import MalVerif.Proofs.LangGraphLemmas
import MalVerif.Proofs.LangGraphOrder
import MalVerif.Props.C01
/-!
# C15 — the language graph mirrors the language and over-approximates every attack graph

Model: `Model/LangGraph.lean` (`supers`, `declaredFor`, `assocNodes`, `assocsOf`, `lookupAssoc`,
`fieldTarget`, `lca`, `typeE`/`typeF`, `links`, `generate`), `Model/Inherit.lean` (`Lang.chain`,
`Lang.isSub`).  Definitions used in the statements are in `Proofs/LangGraphLemmas.lean`:
`RTC`, `Extends`, `Acyclic`, `SigDistinct`, `Matches`, `Provides`, `Typed`, `ValidFor`,
`FieldsUnique`, `NoShadow`, `StarTyped`, `StarFree`, `LinkOf`, `reachExprs`, `genFuel`,
`childrenOfStep`, `parentsOfStep`.

* `isSub_iff_rtc`, `isSub_iff_rtc_closed`, `supers_iff_rtc`, `isSub_unknown`, `isSub_refl`,
  `isSub_trans` — subtype queries = reflexive-transitive closure of `extends` between declared assets.
  (`isSub t u` is `false` for a *dangling* `u`, i.e. a named but undeclared super asset, hence the
  conjunct "`u` is declared"; it disappears when all named super assets exist.)
* `assocs_of_asset`, `assocs_of_asset_rtc`, `assocs_of_asset_sound`, `same_signature_merged`.
* `lookup_correct`, `lookup_symmetric`, `lookup_unknown_asset`.
* `ill_formed_rejected_super`, `ill_formed_rejected_assoc`, `ill_formed_rejected_assoc_any`,
  `ill_formed_rejected_reaches`, `unknown_field_untyped`, `unknown_field_rejected`,
  `unknown_step_rejected`, `generate_ok_typed`.
* `links_mirrored`.
* `type_soundness` (all operators, variables, transitive steps under the side condition
  `StarTyped`), `type_soundness_partial` (transitive-free fragment, no side condition),
  `star_side_condition_needed` (the side condition cannot be dropped).
* `overapprox`, `overapprox_partial`.
* hypotheses in primitive form (definitions in `Proofs/LangGraphOrder.lean`: `NoVarRedecl`, `FieldsLocal`,
  `NoFieldRedecl`, `StepFree`, `SubGuarded`, `StarCheck`; `TC` is the transitive closure of `Spec/Den.lean`):
  `acyclic_of_acyclic_rel`, `acyclic_iff_acyclic_rel`, `isSub_iff_rtc_of_acyclic_rel`,
  `isSub_iff_rtc_closed_of_acyclic_rel`, `supers_iff_rtc_of_acyclic_rel`, `isSub_trans_of_acyclic_rel`,
  `isSub_antisymm_of_acyclic_rel`, `isSub_sound`, `assocs_of_asset_rtc_of_acyclic_rel`,
  `type_soundness_of_acyclic_rel`, `overapprox_of_acyclic_rel`; `noShadow_of_primitive`,
  `fieldsUnique_of_primitive`, `fieldsLocal_needed`, `type_soundness_primitive`, `overapprox_primitive`.
* the static typing and the source type: `typing_invariant`, `typing_monotone`,
  `typing_monotone_needs_guard` (monotonicity fails for a subtype filter applied to an attack step),
  `star_side_condition_down`, `star_side_condition_single_test`, `star_side_condition_of_check`,
  `type_soundness_checked`.
-/
namespace MalVerif.C15
open MalVerif MalVerif.LG

/-! ### 1. subtype queries -/

/-- **`is_subasset_of` = reflexive-transitive closure of `extends`.**  When the ancestor walk from `t`
is not cut by the fuel (no `extends` cycle above `t`): `t ≤ u` iff both are declared assets and `u`
is reached from `t` by following `extends`.  In particular the answer is `false` for an unknown `t`,
and for a `u` that is only named as a super asset but not declared. -/
theorem isSub_iff_rtc (L : Lang) (t u : String) (hok : L.chainOK (L.assets.length + 1) t = true) :
    L.isSub t u = true ↔
      (L.findAsset t).isSome = true ∧ (L.findAsset u).isSome = true ∧ RTC (Extends L) t u :=
  isSub_iff L t u hok

/-- the form asked for: when every named super asset is declared (`supersOk`, which `generate`
checks first) the conjunct on `u` is redundant -/
theorem isSub_iff_rtc_closed (L : Lang) (hs : supersOk L = true) (t u : String)
    (hok : L.chainOK (L.assets.length + 1) t = true) :
    L.isSub t u = true ↔ (L.findAsset t).isSome = true ∧ RTC (Extends L) t u := by
  rw [isSub_iff L t u hok]
  exact ⟨fun h => ⟨h.1, h.2.2⟩, fun h => ⟨h.1, rtc_declared_right hs h.2 h.1, h.2⟩⟩

/-- `get_all_superassets` lists exactly the declared ancestors-or-self -/
theorem supers_iff_rtc (L : Lang) (t u : String) (hok : L.chainOK (L.assets.length + 1) t = true) :
    u ∈ supers L t ↔
      (L.findAsset t).isSome = true ∧ (L.findAsset u).isSome = true ∧ RTC (Extends L) t u := by
  rw [← isSub_iff_mem_supers]; exact isSub_iff L t u hok

/-- an unknown asset type is a sub asset of nothing (also not of itself) -/
theorem isSub_unknown (L : Lang) (t u : String) (h : L.findAsset t = none) : L.isSub t u = false := by
  cases hs : L.isSub t u with
  | false => rfl
  | true => have := isSub_declared_left hs; rw [h] at this; cases this

/-- the statement without the conjunct on `u` is false for a dangling `extends`:
`A extends B` with `B` undeclared — the closure relates `A` to `B`, the query answers `false` -/
theorem isSub_dangling :
    let L : Lang := { assets := [{ name := "A", superAsset := some "B" }] }
    L.isSub "A" "B" = false ∧ (L.findAsset "A").isSome = true ∧ RTC (Extends L) "A" "B" ∧
      L.chainOK (L.assets.length + 1) "A" = true := by
  refine ⟨by decide, by decide, ?_, by decide⟩
  exact .single ⟨{ name := "A", superAsset := some "B" }, rfl, rfl⟩

theorem isSub_refl (L : Lang) (t : String) (h : (L.findAsset t).isSome = true) : L.isSub t t = true :=
  LG.isSub_refl L t h

theorem isSub_trans (L : Lang) (t u v : String) (hok : L.chainOK (L.assets.length + 1) t = true)
    (h1 : L.isSub t u = true) (h2 : L.isSub u v = true) : L.isSub t v = true :=
  LG.isSub_trans L t u v hok h1 h2

/-! ### 2. the associations an asset lists -/

/-- **An asset lists exactly the associations in which it or an ancestor takes part** — when the
(name, left asset, right asset) signatures of the declarations are pairwise distinct.  (No hypothesis
on `t`: for an unknown `t` both sides are empty.) -/
theorem assocs_of_asset (L : Lang) (nodes : List AssocDecl) (h : assocNodes L = .ok nodes)
    (hsig : SigDistinct L) (t : String) (d : AssocDecl) :
    d ∈ assocsOf L nodes t ↔
      d ∈ L.assocs ∧ (L.isSub t d.leftAsset = true ∨ L.isSub t d.rightAsset = true) :=
  mem_assocsOf_iff L nodes h hsig t d

/-- the same with the closure of `extends` spelled out -/
theorem assocs_of_asset_rtc (L : Lang) (nodes : List AssocDecl) (h : assocNodes L = .ok nodes)
    (hsig : SigDistinct L) (t : String) (hok : L.chainOK (L.assets.length + 1) t = true)
    (d : AssocDecl) :
    d ∈ assocsOf L nodes t ↔
      d ∈ L.assocs ∧ (L.findAsset t).isSome = true ∧
        ∃ u, (u = d.leftAsset ∨ u = d.rightAsset) ∧ (L.findAsset u).isSome = true ∧ RTC (Extends L) t u := by
  rw [mem_assocsOf_iff L nodes h hsig t d, isSub_iff L t _ hok, isSub_iff L t _ hok]
  constructor
  · rintro ⟨hd, ⟨h1, h2, h3⟩ | ⟨h1, h2, h3⟩⟩
    · exact ⟨hd, h1, _, Or.inl rfl, h2, h3⟩
    · exact ⟨hd, h1, _, Or.inr rfl, h2, h3⟩
  · rintro ⟨hd, h1, u, rfl | rfl, h2, h3⟩
    · exact ⟨hd, Or.inl ⟨h1, h2, h3⟩⟩
    · exact ⟨hd, Or.inr ⟨h1, h2, h3⟩⟩

/-- without the hypothesis on signatures: everything listed is a declaration in which the asset or
an ancestor takes part (nothing spurious) -/
theorem assocs_of_asset_sound (L : Lang) (nodes : List AssocDecl) (h : assocNodes L = .ok nodes)
    (t : String) (d : AssocDecl) (hd : d ∈ assocsOf L nodes t) :
    d ∈ L.assocs ∧ (L.isSub t d.leftAsset = true ∨ L.isSub t d.rightAsset = true) :=
  mem_assocsOf_sound L nodes h t d hd

/-- every association node joins two declared assets -/
theorem nodes_ends_declared (L : Lang) (nodes : List AssocDecl) (h : assocNodes L = .ok nodes) :
    ∀ d ∈ nodes, (L.findAsset d.leftAsset).isSome = true ∧ (L.findAsset d.rightAsset).isSome = true :=
  LG.nodes_ends_declared L nodes h

open MalVerif.LG.Demo

/-- **Recorded defect KF-C15-1.**  Two declarations with the same name between the same two asset
types but different field names: the second is skipped as "already created", so `Net` does not list
it although it takes part in it — `assocs_of_asset` fails without `SigDistinct`. -/
theorem same_signature_merged :
    ∃ nodes d, assocNodes kfL = .ok nodes ∧ nodes.length = 1 ∧ d ∈ kfL.assocs ∧
      kfL.isSub "Net" d.leftAsset = true ∧ d ∉ assocsOf kfL nodes "Net" :=
  ⟨[{ name := "Conn", leftAsset := "Net", leftField := "inNets", rightAsset := "App", rightField := "inApps" }],
   { name := "Conn", leftAsset := "Net", leftField := "outNets", rightAsset := "App", rightField := "outApps" },
   by decide, by decide, by decide, by decide, by decide⟩

/-! ### 3. association lookup -/

/-- **`get_association_by_fields_and_assets` answers correctly in both orientations**: the answer is
`none` iff no node matches `(f1, f2, t1, t2)` in either orientation; an association that is returned
is a node and matches in one of the two orientations (it is the first such node); a successful lookup
means that both asset types are declared. -/
theorem lookup_correct (L : Lang) (nodes : List AssocDecl) (f1 f2 t1 t2 : String) (r : Option AssocDecl)
    (h : lookupAssoc L nodes f1 f2 t1 t2 = .ok r) :
    (r = none ↔ ∀ a ∈ nodes, ¬ Matches L a f1 f2 t1 t2) ∧
    (∀ a, r = some a → a ∈ nodes ∧ Matches L a f1 f2 t1 t2) ∧
    (L.findAsset t1).isSome = true ∧ (L.findAsset t2).isSome = true := by
  obtain ⟨h1, h2, rfl⟩ := lookupAssoc_ok h
  refine ⟨?_, ?_, h1, h2⟩
  · rw [List.find?_eq_none]
    constructor
    · intro hn a ha hm; exact hn a ha ((lookupPred_iff L a f1 f2 t1 t2).2 hm)
    · intro hn a ha hm; exact hn a ha ((lookupPred_iff L a f1 f2 t1 t2).1 hm)
  · intro a ha
    have hp := List.find?_some ha
    exact ⟨List.mem_of_find?_eq_some ha, (lookupPred_iff L a f1 f2 t1 t2).1 hp⟩

/-- swapping the two (field, asset type) pairs gives the very same answer (in particular `none` iff
the original is `none`) -/
theorem lookup_symmetric (L : Lang) (nodes : List AssocDecl) (f1 f2 t1 t2 : String) :
    lookupAssoc L nodes f2 f1 t2 t1 = lookupAssoc L nodes f1 f2 t1 t2 :=
  lookupAssoc_comm L nodes f1 f2 t1 t2

/-- unknown asset types raise `LookupError` -/
theorem lookup_unknown_asset (L : Lang) (nodes : List AssocDecl) (f1 f2 t1 t2 : String)
    (h : L.findAsset t1 = none ∨ L.findAsset t2 = none) :
    lookupAssoc L nodes f1 f2 t1 t2 = .error .lookup := by
  unfold lookupAssoc
  rw [if_pos]
  rcases h with h | h <;> simp [h]

/-! ### 4. ill-formed languages are rejected -/

/-- a super asset that is not declared: `LanguageGraphSuperAssetNotFoundError` -/
theorem ill_formed_rejected_super (L : Lang) (a : AssetDecl) (ha : a ∈ L.assets) (s : String)
    (hs : a.superAsset = some s) (hn : L.findAsset s = none) :
    generate L = .error .superAssetNotFound := by
  have : supersOk L = false := by
    cases h : supersOk L with
    | false => rfl
    | true => have := (supersOk_iff L).1 h a ha s hs; rw [hn] at this; cases this
  rw [generate_eq, if_pos this]

/-- an association end (either one, or both) that is not a declared asset:
`LanguageGraphAssociationError` (all super assets being declared) -/
theorem ill_formed_rejected_assoc (L : Lang) (hs : supersOk L = true) (d : AssocDecl) (hd : d ∈ L.assocs)
    (hn : L.findAsset d.leftAsset = none ∨ L.findAsset d.rightAsset = none) :
    generate L = .error .association := by
  have : (L.assocs.all (fun d => (L.findAsset d.leftAsset).isSome && (L.findAsset d.rightAsset).isSome)) = false := by
    cases h : L.assocs.all (fun d => (L.findAsset d.leftAsset).isSome && (L.findAsset d.rightAsset).isSome) with
    | false => rfl
    | true =>
      have := List.all_eq_true.1 h d hd
      rcases hn with hn | hn <;> simp [hn] at this
  rw [generate_eq, if_neg (by simp [hs]), if_pos this]

/-- … and in any case an error -/
theorem ill_formed_rejected_assoc_any (L : Lang) (d : AssocDecl) (hd : d ∈ L.assocs)
    (hn : L.findAsset d.leftAsset = none ∨ L.findAsset d.rightAsset = none) :
    generate L = .error .superAssetNotFound ∨ generate L = .error .association := by
  cases hs : supersOk L with
  | false => left; rw [generate_eq, if_pos hs]
  | true => right; exact ill_formed_rejected_assoc L hs d hd hn

/-- **A reaches expression that is not typed with a target asset and one of its attack steps is an
error.**  `e` is a reaches expression of the (inherited) step `st` of the declared asset `a`; unless
the static typing of `e` from `a` yields an asset type `u` and a step name `n` that `u` has
(`foldSteps`), generation fails.  This covers: typing raises, typing yields no target (`none`: a field
that no association provides, a subtype that does not extend the target, operands of a set operation
without common super asset), typing yields no step name, and a step the target does not have. -/
theorem ill_formed_rejected_reaches (L : Lang) (nodes : List AssocDecl) (hn : assocNodes L = .ok nodes)
    (a : AssetDecl) (ha : a ∈ L.assets) (st : String × StepDecl) (hst : st ∈ L.foldSteps a.name)
    (e : Expr) (he : e ∈ reachExprs st.2)
    (hbad : ∀ u n, typeF L nodes (genFuel L) e a.name = .ok (some (u, some n)) →
      (L.foldSteps u).any (·.1 = n) = false) :
    ∃ err, generate L = .error err := by
  rw [generate_eq]
  split
  · exact ⟨_, rfl⟩
  · split
    · exact ⟨_, rfl⟩
    · obtain ⟨err, herr⟩ := links_error L nodes (genFuel L) a ha st hst e he hbad
      exact ⟨err, by rw [hn]; show (links L nodes (genFuel L) >>= _) = _; rw [herr]; rfl⟩

/-- a field that no association provides to the asset type or an ancestor has no static target … -/
theorem unknown_field_untyped (L : Lang) (nodes : List AssocDecl) (k : Nat) (t f : String)
    (h : ∀ a ∈ nodes, ∀ S U, Provides a f S U → L.isSub t S = false) :
    typeF L nodes (k+1) (.field f) t = .ok none := by
  have := (fieldTarget_none_iff L nodes t f).2 h
  simp [typeF, typeE, this]

/-- … so a reaches expression `f.rest` through such a field is an error -/
theorem unknown_field_rejected (L : Lang) (nodes : List AssocDecl) (hn : assocNodes L = .ok nodes)
    (a : AssetDecl) (ha : a ∈ L.assets) (st : String × StepDecl) (hst : st ∈ L.foldSteps a.name)
    (f : String) (rest : Expr) (he : Expr.collect (.field f) rest ∈ reachExprs st.2)
    (h : ∀ d ∈ nodes, ∀ S U, Provides d f S U → L.isSub a.name S = false) :
    ∃ err, generate L = .error err := by
  refine ill_formed_rejected_reaches L nodes hn a ha st hst _ he ?_
  intro u n ht
  have hf := (fieldTarget_none_iff L nodes a.name f).2 h
  simp [genFuel, typeF, typeE, hf, bind, Except.bind] at ht

/-- a reaches expression `n` naming a step that the asset does not have is an error -/
theorem unknown_step_rejected (L : Lang) (nodes : List AssocDecl) (hn : assocNodes L = .ok nodes)
    (a : AssetDecl) (ha : a ∈ L.assets) (st : String × StepDecl) (hst : st ∈ L.foldSteps a.name)
    (n : String) (he : Expr.step n ∈ reachExprs st.2)
    (h : (L.foldSteps a.name).any (·.1 = n) = false) :
    ∃ err, generate L = .error err := by
  refine ill_formed_rejected_reaches L nodes hn a ha st hst _ he ?_
  intro u n' ht
  simp only [genFuel, typeF, typeE, Except.ok.injEq, Option.some.injEq, Prod.mk.injEq] at ht
  obtain ⟨rfl, rfl⟩ := ht
  exact h

/-- conversely, in a language graph that was generated every reaches expression of every (inherited)
step of every asset is typed, names a step of the target type, and has its link -/
theorem generate_ok_typed (L : Lang) (g : Graph) (h : generate L = .ok g) :
    ∀ a ∈ L.assets, ∀ st ∈ L.foldSteps a.name, ∀ e ∈ reachExprs st.2,
      ∃ l ∈ g.links, LinkOf L g.assocs (genFuel L) a.name st.1 e l := by
  obtain ⟨_, _, _, hl⟩ := generate_ok h
  exact links_ok L g.assocs (genFuel L) g.links hl

/-- and the links are exactly those -/
theorem links_iff (L : Lang) (g : Graph) (h : generate L = .ok g) (l : Link) :
    l ∈ g.links ↔ ∃ a ∈ L.assets, ∃ st ∈ L.foldSteps a.name, ∃ e ∈ reachExprs st.2,
      LinkOf L g.assocs (genFuel L) a.name st.1 e l := by
  obtain ⟨_, _, _, hl⟩ := generate_ok h
  exact mem_links L g.assocs (genFuel L) g.links hl l

/-! ### 5. children and parents -/

/-- **Every step-to-step link appears both in the source's children and in the target's parents.** -/
theorem links_mirrored (g : Graph) (a s b t : String) :
    (b, t) ∈ childrenOfStep g a s ↔ (a, s) ∈ parentsOfStep g b t := by
  rw [mem_childrenOfStep]
  simp only [parentsOfStep, List.mem_map, List.mem_filter, Bool.and_eq_true, decide_eq_true_eq, Prod.mk.injEq]
  constructor
  · intro h; exact ⟨_, ⟨h, rfl, rfl⟩, rfl, rfl⟩
  · rintro ⟨l, ⟨hl, rfl, rfl⟩, rfl, rfl⟩; exact hl

/-! ### 6. type soundness -/

/-- **Type soundness of the static typing.**  `L` has no `extends` cycle, field names are unique along
every hierarchy (`FieldsUnique`), no asset redefines a variable of an ancestor (`NoShadow`), the model
conforms to the language (`ValidFor`), and the operands of transitive steps lead back into the type
they start from (`StarTyped`, the rule of the MAL type checker that the toolbox does not enforce).
If `e` is typed from the asset type `T` with target type `U`, then evaluating `e` from assets whose
types are `T` or extend it only yields assets whose types are `U` or extend it.  All operators; the
fuel of the typing (`k`) and of the evaluation (`k'`) are arbitrary. -/
theorem type_soundness (L : Lang) (m : Inst) (nodes : List AssocDecl) (hac : Acyclic L)
    (hfu : FieldsUnique L nodes) (hns : NoShadow L) (hv : ValidFor L m nodes)
    (k k' : Nat) (e : Expr) (T U : String) (st : Option String) (hstar : StarTyped L nodes k e T)
    (ht : typeF L nodes k e T = .ok (some (U, st)))
    (xs : List Int) (hxs : ∀ x ∈ xs, Typed L m T x)
    (r : List Int × Option String) (he : evalF L m k' e xs = .ok r) :
    ∀ y ∈ r.1, Typed L m U y :=
  typeF_sound L m nodes hac hfu hns hv.links_typed k k' e T U st xs r hstar ht he hxs

/-- the single-source form of the task statement -/
theorem type_soundness_single (L : Lang) (m : Inst) (nodes : List AssocDecl) (hac : Acyclic L)
    (hfu : FieldsUnique L nodes) (hns : NoShadow L) (hv : ValidFor L m nodes)
    (k k' : Nat) (e : Expr) (T U : String) (st : Option String) (hstar : StarTyped L nodes k e T)
    (ht : typeF L nodes k e T = .ok (some (U, st)))
    (x : Int) (tx : String) (hx : m.typeOf x = some tx) (hsub : L.isSub tx T = true)
    (r : List Int × Option String) (he : evalF L m k' e [x] = .ok r) :
    ∀ y ∈ r.1, ∃ ty, m.typeOf y = some ty ∧ L.isSub ty U = true :=
  type_soundness L m nodes hac hfu hns hv k k' e T U st hstar ht [x]
    (fun z hz => by rw [List.mem_singleton.1 hz]; exact ⟨tx, hx, hsub⟩) r he

/-- the transitive-free fragment (variables allowed, their definitions transitive-free too) needs no
side condition -/
theorem type_soundness_partial (L : Lang) (m : Inst) (nodes : List AssocDecl) (hac : Acyclic L)
    (hfu : FieldsUnique L nodes) (hns : NoShadow L) (hv : ValidFor L m nodes)
    (k k' : Nat) (e : Expr) (T U : String) (st : Option String) (hfree : StarFree L k e)
    (ht : typeF L nodes k e T = .ok (some (U, st)))
    (xs : List Int) (hxs : ∀ x ∈ xs, Typed L m T x)
    (r : List Int × Option String) (he : evalF L m k' e xs = .ok r) :
    ∀ y ∈ r.1, Typed L m U y :=
  type_soundness L m nodes hac hfu hns hv k k' e T U st (starTyped_of_starFree L nodes k e T hfree) ht xs hxs r he

/-- **The side condition on transitive steps cannot be dropped** (finding): in `starL`
(`A --next--> B --next--> C`, `A.go -> (next)*.hit`) the language graph is generated without error
and types `(next)*` from `A` as `B`, but from the `A` asset `1` the evaluation also reaches the `C`
asset `3`, and `C` does not extend `B`; every other hypothesis of `type_soundness` holds. -/
theorem star_side_condition_needed :
    (generate starL).map (·.links) = .ok [{ srcAsset := "A", srcStep := "go", dstAsset := "B", dstStep := "hit" }] ∧
    typeF starL [{ name := "AB", leftAsset := "A", leftField := "prevA", rightAsset := "B", rightField := "next" },
                 { name := "BC", leftAsset := "B", leftField := "prevB", rightAsset := "C", rightField := "next" }]
      (genFuel starL) (.trans (.field "next")) "A" = .ok (some ("B", none)) ∧
    eval starL starM (.trans (.field "next")) [1] = .ok ([2, 3], none) ∧
    starM.typeOf 3 = some "C" ∧ starL.isSub "C" "B" = false ∧
    (genGraph starL starM).map (·.2) = .ok [(0, 1), (0, 2)] := by
  refine ⟨by decide, by decide, by decide, by decide, by decide, by decide⟩

/-! ### 7. the language graph over-approximates every attack graph -/

/-- **Every attack-graph edge is predicted by a language-graph link.**  The language graph `g` and the
attack graph `(ns, es)` of the model `m` were generated; hypotheses as in `type_soundness`, for every
reaches expression of every step, each of which ends in an attack step (what the compiler emits).
For every edge `a → b`: `a` is the node of a step `n.step` of a model asset `X`, `b` is the node
registered under the name `Y.name:tn` for a model asset `Y` the expression reaches, and the language
graph has a link from step `n.step` of `X`'s type to the step `tn` of an asset type `U` such that
`Y`'s type is `U` or extends it. -/
theorem overapprox (L : Lang) (m : Inst) (g : Graph) (ns : List GNode) (es : List (Nat × Nat))
    (hg : generate L = .ok g) (hgen : genGraph L m = .ok (ns, es))
    (hac : Acyclic L) (hfu : FieldsUnique L g.assocs) (hns : NoShadow L) (hv : ValidFor L m g.assocs)
    (hexpr : ∀ A ∈ L.assets, ∀ st ∈ L.foldSteps A.name, ∀ e ∈ reachExprs st.2,
      StarTyped L g.assocs (genFuel L) e A.name ∧ (lastStep e).isSome = true)
    (a b : Nat) (hab : (a, b) ∈ es) :
    ∃ n ∈ ns, n.id = a ∧ ∃ X ∈ m.assets, n.asset = X.id ∧
    ∃ t ∈ ns, t.id = b ∧ ∃ Y ∈ m.assets, ∃ tn U, t.fullName = Y.name ++ ":" ++ tn ∧
      ({ srcAsset := X.type, srcStep := n.step, dstAsset := U, dstStep := tn } : Link) ∈ g.links ∧
      L.isSub Y.type U = true := by
  unfold genGraph at hgen
  obtain ⟨ns', hnodes, hgen⟩ := (bind_ok_iff _ _ _).1 hgen
  obtain ⟨es', hedges, hgen⟩ := (bind_ok_iff _ _ _).1 hgen
  cases hgen
  obtain ⟨n, hn, ha, e, he, r, hr, y, hy, ya, hya, t, ht, hb⟩ := (C01.edges_iff L m ns es hedges a b).1 hab
  obtain ⟨X, hX, se, hse, hnasset, _, hnstep, hnreach⟩ := genNodes_node L m ns hnodes n hn
  -- the declaration of `X`'s type
  have hXdecl := hv.types_declared X hX
  cases hfa : L.findAsset X.type with
  | none => rw [hfa] at hXdecl; cases hXdecl
  | some A =>
    have hAname := findAsset_name hfa
    rw [← hAname] at hse
    rw [hnreach] at he
    obtain ⟨hstar, hlast⟩ := hexpr A (findAsset_mem hfa) se hse e he
    obtain ⟨l, hl, u, n', htyp, _, rfl⟩ := generate_ok_typed L g hg A (findAsset_mem hfa) se hse e he
    -- the step name
    cases hls : lastStep e with
    | none => rw [hls] at hlast; cases hlast
    | some tn =>
      have hn' : some n' = some tn := typeF_lastStep L g.assocs _ e tn _ _ _ hls htyp
      cases hn'
      have hr2 : r.2 = some n' := by
        rw [C01.eval_step_name L m _ e _ r hr (tailVar_of_lastStep e n' hls)]; exact hls
      -- the source is of type `X.type`
      have hXfind := find_of_mem_nodup hv.ids_nodup hX
      have hsrc : ∀ x ∈ [n.asset], Typed L m A.name x := by
        intro x hx
        rw [List.mem_singleton.1 hx, hnasset, hAname]
        exact ⟨X.type, by simp [Inst.typeOf, hXfind], LG.isSub_refl L _ (by rw [hfa]; rfl)⟩
      obtain ⟨ty, hty, hsub⟩ := type_soundness L m g.assocs hac hfu hns hv _ _ e A.name u (some n') hstar htyp
        [n.asset] hsrc r hr y hy
      have hyty : ty = ya.type := by
        simp only [Inst.typeOf, hya, Option.map_some, Option.some.injEq] at hty; exact hty.symm
      obtain ⟨htns, htname⟩ := nameIndex_some ns _ t ht
      refine ⟨n, hn, ha, X, hX, hnasset, t, htns, hb, ya, (find_mem hya).1, n', u, ?_, ?_, ?_⟩
      · rw [htname, hr2]; rfl
      · rw [hnstep, ← hAname]; exact hl
      · rw [← hyty]; exact hsub

/-- for languages without transitive steps the side condition disappears -/
theorem overapprox_partial (L : Lang) (m : Inst) (g : Graph) (ns : List GNode) (es : List (Nat × Nat))
    (hg : generate L = .ok g) (hgen : genGraph L m = .ok (ns, es))
    (hac : Acyclic L) (hfu : FieldsUnique L g.assocs) (hns : NoShadow L) (hv : ValidFor L m g.assocs)
    (hexpr : ∀ A ∈ L.assets, ∀ st ∈ L.foldSteps A.name, ∀ e ∈ reachExprs st.2,
      StarFree L (genFuel L) e ∧ (lastStep e).isSome = true)
    (a b : Nat) (hab : (a, b) ∈ es) :
    ∃ n ∈ ns, n.id = a ∧ ∃ X ∈ m.assets, n.asset = X.id ∧
    ∃ t ∈ ns, t.id = b ∧ ∃ Y ∈ m.assets, ∃ tn U, t.fullName = Y.name ++ ":" ++ tn ∧
      ({ srcAsset := X.type, srcStep := n.step, dstAsset := U, dstStep := tn } : Link) ∈ g.links ∧
      L.isSub Y.type U = true :=
  overapprox L m g ns es hg hgen hac hfu hns hv
    (fun A hA st hst e he => ⟨starTyped_of_starFree L g.assocs _ e A.name (hexpr A hA st hst e he).1,
      (hexpr A hA st hst e he).2⟩) a b hab

/-! ### 8. non-vacuity -/

/-- depth-2 inheritance (`Leaf extends Mid extends Base`), `Runs` declared on the ancestor `Base`,
a union of the sibling types `Leaf` and `Other` typed by their closest common super asset `Base`,
a subtype filter: the association nodes … -/
example : (generate lgL).map (·.assocs) = .ok [runs, hl, ho] := by decide

/-- … and the links (every asset type has the links of its inherited steps) -/
example : (generate lgL).map (·.links) = .ok [
    { srcAsset := "Base", srcStep := "access", dstAsset := "Host", dstStep := "compromise" },
    { srcAsset := "Mid", srcStep := "access", dstAsset := "Host", dstStep := "compromise" },
    { srcAsset := "Leaf", srcStep := "access", dstAsset := "Host", dstStep := "compromise" },
    { srcAsset := "Other", srcStep := "access", dstAsset := "Host", dstStep := "compromise" },
    { srcAsset := "Host", srcStep := "compromise", dstAsset := "Base", dstStep := "access" },
    { srcAsset := "Host", srcStep := "compromise", dstAsset := "Leaf", dstStep := "read" }] := by decide

example : supers lgL "Leaf" = ["Leaf", "Mid", "Base"] := by decide
example : lgL.isSub "Leaf" "Base" = true ∧ lgL.isSub "Base" "Leaf" = false ∧
    lgL.isSub "Leaf" "Other" = false ∧ lgL.isSub "Nope" "Nope" = false := by decide
example : lca lgL "Leaf" "Other" = some "Base" ∧ lca lgL "Leaf" "Host" = none := by decide
/-- `Leaf` lists `Runs` (declared on its ancestor `Base`) and its own `HL`, not `HO` -/
example : assocsOf lgL [runs, hl, ho] "Leaf" = [runs, hl] := by decide
example : assocsOf lgL [runs, hl, ho] "Host" = [runs, hl, ho] := by decide
example : typeF lgL [runs, hl, ho] (genFuel lgL) (.union (.field "leaves") (.field "others")) "Host" =
    .ok (some ("Base", none)) := by decide

/-- lookups: both orientations, through sub assets; a mismatch; an unknown asset type -/
example : lookupAssoc lgL [runs, hl, ho] "hosts" "apps" "Host" "Leaf" = .ok (some runs) := by decide
example : lookupAssoc lgL [runs, hl, ho] "apps" "hosts" "Leaf" "Host" = .ok (some runs) := by decide
example : lookupAssoc lgL [runs, hl, ho] "apps" "hosts" "Host" "Leaf" = .ok none := by decide
example : lookupAssoc lgL [runs, hl, ho] "leaves" "hl" "Other" "Host" = .ok none := by decide
example : lookupAssoc lgL [runs, hl, ho] "apps" "hosts" "Host" "Nope" = .error .lookup := by decide

/-- the hypotheses of the theorems above hold for `lgL` -/
example : Acyclic lgL ∧ SigDistinct lgL ∧ supersOk lgL = true ∧ NoShadow lgL ∧
    FieldsUnique lgL [runs, hl, ho] ∧ ValidFor lgL lgM [runs, hl, ho] :=
  ⟨acyclic_of_check lgL (by decide), by unfold SigDistinct; decide, by decide,
   noShadow_of_no_variables lgL (by decide), fieldsUnique_of_check lgL _ (by decide),
   ⟨by decide, by decide, by decide⟩⟩

/-- ill-formed variants of `dirL` are rejected: unknown super asset, one unknown association end, two
unknown ends, a field no association provides, a step the target does not have -/
example : (generate dirL).map (·.links) =
    .ok [{ srcAsset := "Dir", srcStep := "access", dstAsset := "Dir", dstStep := "access" }] := by decide
example : (generate badSuperL).map (·.links) = .error .superAssetNotFound := by decide
example : (generate badEndL).map (·.links) = .error .association := by decide
example : (generate badEndsL).map (·.links) = .error .association := by decide
example : (generate badFieldL).map (·.links) = .error .stepExpression := by decide
example : (generate badStepL).map (·.links) = .error .stepExpression := by decide

/-- the side condition on transitive steps is satisfiable: `(subdirs)*` on `Dir` -/
example : StarTyped dirL [contains] (genFuel dirL) (.collect (.trans (.field "subdirs")) (.step "access")) "Dir" := by
  have h1 : typeE dirL [contains] (typeF dirL [contains] 1) (.field "subdirs") "Dir" = .ok (some ("Dir", none)) := by
    decide
  refine ⟨⟨trivial, fun U st h => ?_⟩, fun _ _ _ => trivial⟩
  rw [h1] at h
  cases h
  exact ⟨trivial, "Dir", none, h1, by decide⟩

/-- **`overapprox` applies to `(lgL, lgM)`**: all its hypotheses hold, and so each of the five edges of
the attack graph is predicted by a link of the language graph -/
example : ∃ g ns es, generate lgL = .ok g ∧ genGraph lgL lgM = .ok (ns, es) ∧
    es = [(0, 1), (0, 3), (0, 2), (1, 0), (3, 0)] ∧
    ∀ a b, (a, b) ∈ es →
      ∃ n ∈ ns, n.id = a ∧ ∃ X ∈ lgM.assets, n.asset = X.id ∧
      ∃ t ∈ ns, t.id = b ∧ ∃ Y ∈ lgM.assets, ∃ tn U, t.fullName = Y.name ++ ":" ++ tn ∧
        ({ srcAsset := X.type, srcStep := n.step, dstAsset := U, dstStep := tn } : Link) ∈ g.links ∧
        lgL.isSub Y.type U = true := by
  have h1 : (generate lgL).map (·.assocs) = .ok [runs, hl, ho] := by decide
  have h2 : (genGraph lgL lgM).map (·.2) = .ok [(0, 1), (0, 3), (0, 2), (1, 0), (3, 0)] := by decide
  have h3 : ∀ A ∈ lgL.assets, ∀ st ∈ lgL.foldSteps A.name, ∀ e ∈ reachExprs st.2,
      noStarNoVar e = true ∧ (lastStep e).isSome = true := by decide
  cases hg : generate lgL with
  | error err => rw [hg] at h1; cases h1
  | ok g =>
    cases hgen : genGraph lgL lgM with
    | error err => rw [hgen] at h2; cases h2
    | ok p =>
      obtain ⟨ns, es⟩ := p
      rw [hg] at h1; rw [hgen] at h2
      simp only [Except.map, Except.ok.injEq] at h1 h2
      refine ⟨g, ns, es, rfl, rfl, h2, fun a b hab => ?_⟩
      refine overapprox_partial lgL lgM g ns es hg hgen (acyclic_of_check lgL (by decide)) ?_
        (noShadow_of_no_variables lgL (by decide)) ?_ ?_ a b hab
      · rw [h1]; exact fieldsUnique_of_check lgL _ (by decide)
      · rw [h1]; exact ⟨by decide, by decide, by decide⟩
      · intro A hA st hst e he
        exact ⟨starFree_of_noStarNoVar lgL _ e (h3 A hA st hst e he).1, (h3 A hA st hst e he).2⟩

/-! ### 9. acyclicity from the relation -/

/-- **Acyclicity from the relation**: when no asset type is its own proper ancestor (`TC`: transitive
closure, `Spec/Den.lean`), no ancestor walk is cut by the fuel `|assets| + 1` — pigeonhole on the pairwise distinct
declared names along the walk.  The converse holds, too. -/
theorem acyclic_of_acyclic_rel (L : Lang) (hno : ∀ t, ¬ TC (Extends L) t t) : Acyclic L :=
  acyclic_of_no_cycle L hno

theorem acyclic_iff_acyclic_rel (L : Lang) : Acyclic L ↔ ∀ t, ¬ TC (Extends L) t t :=
  acyclic_iff_no_cycle L

/-- `isSub_iff_rtc` with the relational hypothesis -/
theorem isSub_iff_rtc_of_acyclic_rel (L : Lang) (hno : ∀ t, ¬ TC (Extends L) t t) (t u : String) :
    L.isSub t u = true ↔
      (L.findAsset t).isSome = true ∧ (L.findAsset u).isSome = true ∧ RTC (Extends L) t u :=
  isSub_iff_rtc L t u (acyclic_of_no_cycle L hno t)

theorem isSub_iff_rtc_closed_of_acyclic_rel (L : Lang) (hno : ∀ t, ¬ TC (Extends L) t t)
    (hs : supersOk L = true) (t u : String) :
    L.isSub t u = true ↔ (L.findAsset t).isSome = true ∧ RTC (Extends L) t u :=
  isSub_iff_rtc_closed L hs t u (acyclic_of_no_cycle L hno t)

theorem supers_iff_rtc_of_acyclic_rel (L : Lang) (hno : ∀ t, ¬ TC (Extends L) t t) (t u : String) :
    u ∈ supers L t ↔
      (L.findAsset t).isSome = true ∧ (L.findAsset u).isSome = true ∧ RTC (Extends L) t u :=
  supers_iff_rtc L t u (acyclic_of_no_cycle L hno t)

theorem isSub_trans_of_acyclic_rel (L : Lang) (hno : ∀ t, ¬ TC (Extends L) t t) (t u v : String)
    (h1 : L.isSub t u = true) (h2 : L.isSub u v = true) : L.isSub t v = true :=
  isSub_trans L t u v (acyclic_of_no_cycle L hno t) h1 h2

/-- … so that `is_subasset_of` is a partial order on the declared assets: it is antisymmetric -/
theorem isSub_antisymm_of_acyclic_rel (L : Lang) (hno : ∀ t, ¬ TC (Extends L) t t) (t u : String)
    (h1 : L.isSub t u = true) (h2 : L.isSub u t = true) : t = u := by
  rcases (isSub_rtc h1).2.eq_or_tc with e | h
  · exact e
  · exact absurd (h.trans_rtc (isSub_rtc h2).2) (hno t)

/-- one direction of `isSub_iff_rtc` needs no hypothesis at all -/
theorem isSub_sound (L : Lang) (t u : String) (h : L.isSub t u = true) :
    (L.findAsset t).isSome = true ∧ (L.findAsset u).isSome = true ∧ RTC (Extends L) t u :=
  ⟨isSub_declared_left h, (isSub_rtc h).1, (isSub_rtc h).2⟩

theorem assocs_of_asset_rtc_of_acyclic_rel (L : Lang) (nodes : List AssocDecl) (h : assocNodes L = .ok nodes)
    (hsig : SigDistinct L) (hno : ∀ t, ¬ TC (Extends L) t t) (t : String) (d : AssocDecl) :
    d ∈ assocsOf L nodes t ↔
      d ∈ L.assocs ∧ (L.findAsset t).isSome = true ∧
        ∃ u, (u = d.leftAsset ∨ u = d.rightAsset) ∧ (L.findAsset u).isSome = true ∧ RTC (Extends L) t u :=
  assocs_of_asset_rtc L nodes h hsig t (acyclic_of_no_cycle L hno t) d

theorem type_soundness_of_acyclic_rel (L : Lang) (m : Inst) (nodes : List AssocDecl)
    (hno : ∀ t, ¬ TC (Extends L) t t)
    (hfu : FieldsUnique L nodes) (hns : NoShadow L) (hv : ValidFor L m nodes)
    (k k' : Nat) (e : Expr) (T U : String) (st : Option String) (hstar : StarTyped L nodes k e T)
    (ht : typeF L nodes k e T = .ok (some (U, st)))
    (xs : List Int) (hxs : ∀ x ∈ xs, Typed L m T x)
    (r : List Int × Option String) (he : evalF L m k' e xs = .ok r) :
    ∀ y ∈ r.1, Typed L m U y :=
  type_soundness L m nodes (acyclic_of_no_cycle L hno) hfu hns hv k k' e T U st hstar ht xs hxs r he

theorem overapprox_of_acyclic_rel (L : Lang) (m : Inst) (g : Graph) (ns : List GNode) (es : List (Nat × Nat))
    (hg : generate L = .ok g) (hgen : genGraph L m = .ok (ns, es))
    (hno : ∀ t, ¬ TC (Extends L) t t) (hfu : FieldsUnique L g.assocs) (hns : NoShadow L)
    (hv : ValidFor L m g.assocs)
    (hexpr : ∀ A ∈ L.assets, ∀ st ∈ L.foldSteps A.name, ∀ e ∈ reachExprs st.2,
      StarTyped L g.assocs (genFuel L) e A.name ∧ (lastStep e).isSome = true)
    (a b : Nat) (hab : (a, b) ∈ es) :
    ∃ n ∈ ns, n.id = a ∧ ∃ X ∈ m.assets, n.asset = X.id ∧
    ∃ t ∈ ns, t.id = b ∧ ∃ Y ∈ m.assets, ∃ tn U, t.fullName = Y.name ++ ":" ++ tn ∧
      ({ srcAsset := X.type, srcStep := n.step, dstAsset := U, dstStep := tn } : Link) ∈ g.links ∧
      L.isSub Y.type U = true :=
  overapprox L m g ns es hg hgen (acyclic_of_no_cycle L hno) hfu hns hv hexpr a b hab

/-- non-vacuity: `lgL` has no `extends` cycle … -/
example : ∀ t, ¬ TC (Extends lgL) t t :=
  (acyclic_iff_acyclic_rel lgL).1 (acyclic_of_check lgL (by decide))

/-- … while in `cycL` (`A extends B extends A`, `C extends A`) `A` is its own proper ancestor, the walk
from `C` is cut by the fuel, and `cycL` is not `Acyclic` -/
example : TC (Extends cycL) "A" "A" ∧ cycL.chainOK (cycL.assets.length + 1) "C" = false ∧ ¬ Acyclic cycL := by
  have h : TC (Extends cycL) "A" "A" :=
    .snoc (.one ⟨{ name := "A", superAsset := some "B" }, rfl, rfl⟩)
      ⟨{ name := "B", superAsset := some "A" }, rfl, rfl⟩
  exact ⟨h, by decide, fun hac => (acyclic_iff_acyclic_rel cycL).1 hac "A" h⟩

/-! ### 10. `NoShadow` and `FieldsUnique` from primitive conditions -/

/-- **`NoShadow` from the primitive condition**: when no asset declares a variable that one of its
proper ancestors declares (`NoVarRedecl`), a sub asset sees the definition its ancestors see -/
theorem noShadow_of_primitive (L : Lang) (hno : ∀ t, ¬ TC (Extends L) t t) (h : NoVarRedecl L) :
    NoShadow L :=
  noShadow_of_noVarRedecl L (acyclic_of_no_cycle L hno) h

/-- **`FieldsUnique` from the primitive conditions**: one asset type does not get a field name with
two different targets (`FieldsLocal`), and no asset type has a field that one of its proper ancestors
has (`NoFieldRedecl`).  No hypothesis on cycles. -/
theorem fieldsUnique_of_primitive (L : Lang) (nodes : List AssocDecl) (hl : FieldsLocal nodes)
    (hr : NoFieldRedecl L nodes) : FieldsUnique L nodes :=
  fieldsUnique_of_noFieldRedecl L nodes hl hr

/-- the condition on the hierarchy alone does not suffice (`twoL`: no `extends` at all, `A` gets the
field `f` from two associations with the targets `B` and `C`) -/
theorem fieldsLocal_needed : NoFieldRedecl twoL twoL.assocs ∧ ¬ FieldsUnique twoL twoL.assocs := by
  constructor
  · intro d1 _ d2 _ f S1 U1 S2 U2 _ _ htc
    have hext : ∀ t u, ¬ Extends twoL t u := by
      rintro t u ⟨a, ha, hs⟩
      have hm := findAsset_mem ha
      simp only [twoL, List.mem_cons, List.not_mem_nil, or_false] at hm
      rcases hm with rfl | rfl | rfl <;> cases hs
    obtain ⟨s, hs, _⟩ := htc.head_cases
    exact hext _ _ hs
  · intro h
    have := h { name := "AB", leftAsset := "A", leftField := "ab", rightAsset := "B", rightField := "f" }
      (by decide) { name := "AC", leftAsset := "A", leftField := "ac", rightAsset := "C", rightField := "f" }
      (by decide) "f" "A" "B" "A" "C" "A" (Or.inl ⟨rfl, rfl, rfl⟩) (Or.inl ⟨rfl, rfl, rfl⟩)
      (by decide) (by decide)
    exact absurd this (by decide)

/-- `type_soundness` with all hypotheses on the language in primitive form -/
theorem type_soundness_primitive (L : Lang) (m : Inst) (nodes : List AssocDecl)
    (hno : ∀ t, ¬ TC (Extends L) t t) (hl : FieldsLocal nodes) (hr : NoFieldRedecl L nodes)
    (hnv : NoVarRedecl L) (hv : ValidFor L m nodes)
    (k k' : Nat) (e : Expr) (T U : String) (st : Option String) (hstar : StarTyped L nodes k e T)
    (ht : typeF L nodes k e T = .ok (some (U, st)))
    (xs : List Int) (hxs : ∀ x ∈ xs, Typed L m T x)
    (r : List Int × Option String) (he : evalF L m k' e xs = .ok r) :
    ∀ y ∈ r.1, Typed L m U y :=
  type_soundness L m nodes (acyclic_of_no_cycle L hno) (fieldsUnique_of_noFieldRedecl L nodes hl hr)
    (noShadow_of_primitive L hno hnv) hv k k' e T U st hstar ht xs hxs r he

/-- `overapprox` with all hypotheses on the language in primitive form -/
theorem overapprox_primitive (L : Lang) (m : Inst) (g : Graph) (ns : List GNode) (es : List (Nat × Nat))
    (hg : generate L = .ok g) (hgen : genGraph L m = .ok (ns, es))
    (hno : ∀ t, ¬ TC (Extends L) t t) (hl : FieldsLocal g.assocs) (hr : NoFieldRedecl L g.assocs)
    (hnv : NoVarRedecl L) (hv : ValidFor L m g.assocs)
    (hexpr : ∀ A ∈ L.assets, ∀ st ∈ L.foldSteps A.name, ∀ e ∈ reachExprs st.2,
      StarTyped L g.assocs (genFuel L) e A.name ∧ (lastStep e).isSome = true)
    (a b : Nat) (hab : (a, b) ∈ es) :
    ∃ n ∈ ns, n.id = a ∧ ∃ X ∈ m.assets, n.asset = X.id ∧
    ∃ t ∈ ns, t.id = b ∧ ∃ Y ∈ m.assets, ∃ tn U, t.fullName = Y.name ++ ":" ++ tn ∧
      ({ srcAsset := X.type, srcStep := n.step, dstAsset := U, dstStep := tn } : Link) ∈ g.links ∧
      L.isSub Y.type U = true :=
  overapprox L m g ns es hg hgen (acyclic_of_no_cycle L hno) (fieldsUnique_of_noFieldRedecl L _ hl hr)
    (noShadow_of_primitive L hno hnv) hv hexpr a b hab

/-- non-vacuity: in `varL` (`Leaf extends Base`, `Base` declares `hs`, `Leaf` declares `own`) nothing is
redeclared, and `Leaf` sees `Base`'s `hs` … -/
example : NoVarRedecl varL ∧ NoShadow varL ∧ varL.lookupVar "Leaf" "hs" = some (.field "hosts") := by
  have hac : Acyclic varL := acyclic_of_check varL (by decide)
  have h := noVarRedecl_of_check varL hac (by decide)
  exact ⟨h, noShadow_of_primitive varL ((acyclic_iff_acyclic_rel varL).1 hac) h, by decide⟩

/-- … while `shadowL`, in which `Leaf` redeclares `hs`, satisfies neither condition -/
example : ¬ NoVarRedecl shadowL ∧ ¬ NoShadow shadowL := by
  constructor
  · intro h
    refine h "Leaf" "Base" _ _ "hs" rfl rfl (.one ⟨_, rfl, rfl⟩) (by decide) (by decide)
  · intro h
    have := h "Leaf" "Base" "hs" (.field "hosts") (by decide) (by decide)
    exact absurd this (by decide)

/-- the primitive conditions on field names hold for `lgL` -/
example : FieldsLocal [runs, hl, ho] ∧ NoFieldRedecl lgL [runs, hl, ho] :=
  ⟨fieldsLocal_of_check _ (by decide),
   noFieldRedecl_of_check lgL _ (acyclic_of_check lgL (by decide)) (by decide) (by decide)⟩

/-! ### 11. the static typing and the source type; the side condition on transitive steps -/

/-- **The static type of a step-free expression does not depend on the source type within a
hierarchy**: `T' ≤ T` and `e` typed from `T` imply that `e` is typed from `T'` with the same result
(`StepFree`: no attack step in `e`, also not inside the definitions of the variables used). -/
theorem typing_invariant (L : Lang) (nodes : List AssocDecl) (hac : Acyclic L)
    (hfu : FieldsUnique L nodes) (hns : NoShadow L) (k : Nat) (e : Expr) (T T' : String)
    (r : String × Option String) (hfree : StepFree L k e) (hs : L.isSub T' T = true)
    (ht : typeF L nodes k e T = .ok (some r)) : typeF L nodes k e T' = .ok (some r) :=
  typeF_rigid L nodes hac hfu hns k e T T' r hfree hs ht

/-- **Monotonicity of the static typing in the source type.**  `T' ≤ T` and `e` typed from `T` with
target `U` imply that `e` is typed from `T'` with the same step name and a target `U' ≤ U` — for
expressions in which the operand of every subtype filter `[S]` is step-free (`SubGuarded`; every
expression the compiler emits: attack steps only occur last).  `nodes` are the association nodes of
`L`. -/
theorem typing_monotone (L : Lang) (nodes : List AssocDecl) (hn : assocNodes L = .ok nodes)
    (hac : Acyclic L) (hfu : FieldsUnique L nodes) (hns : NoShadow L) (k : Nat) (e : Expr)
    (T T' U : String) (st : Option String) (hg : SubGuarded L k e) (hs : L.isSub T' T = true)
    (ht : typeF L nodes k e T = .ok (some (U, st))) :
    ∃ U', typeF L nodes k e T' = .ok (some (U', st)) ∧ L.isSub U' U = true :=
  typeF_mono L nodes hac hfu hns (LG.nodes_ends_declared L nodes hn) k e T T' U st hg hs ht

/-- **Monotonicity fails without the guard** (finding): in `lgL`, `[Other](access)` — a subtype filter
applied to an attack step — is typed from `Base` (target `Other`) but has no target from
`Leaf ≤ Base`: the step expression `access` has the *source* type as its target, `Other ≤ Base` but
not `Other ≤ Leaf`.  All other hypotheses of `typing_monotone` hold for `lgL`. -/
theorem typing_monotone_needs_guard :
    lgL.isSub "Leaf" "Base" = true ∧
    typeF lgL [runs, hl, ho] (genFuel lgL) (.sub "Other" (.step "access")) "Base" =
      .ok (some ("Other", some "access")) ∧
    typeF lgL [runs, hl, ho] (genFuel lgL) (.sub "Other" (.step "access")) "Leaf" = .ok none := by
  refine ⟨by decide, by decide, by decide⟩

/-- for a step-free expression typed from `T`, the side condition at `T` implies the side condition
at every sub asset of `T` -/
theorem star_side_condition_down (L : Lang) (nodes : List AssocDecl) (hac : Acyclic L)
    (hfu : FieldsUnique L nodes) (hns : NoShadow L) (k : Nat) (e : Expr) (T T' : String)
    (r : String × Option String) (hfree : StepFree L k e) (hs : L.isSub T' T = true)
    (ht : typeF L nodes k e T = .ok (some r)) (hstar : StarTyped L nodes k e T) :
    StarTyped L nodes k e T' :=
  starTyped_down L nodes hac hfu hns k e T T' r hfree hs ht hstar

/-- **The side condition for `e*` at `T` reduces to the single test of the MAL type checker**: the
operand `e` (step-free, itself satisfying the side condition at `T`, e.g. because it contains no
transitive step) leads from `T` to a sub asset of `T`. -/
theorem star_side_condition_single_test (L : Lang) (nodes : List AssocDecl) (hac : Acyclic L)
    (hfu : FieldsUnique L nodes) (hns : NoShadow L) (k : Nat) (e : Expr) (T U : String)
    (st : Option String) (hfree : StepFree L k e) (hstar : StarTyped L nodes k e T)
    (ht : typeF L nodes k e T = .ok (some (U, st))) (hs : L.isSub U T = true) :
    StarTyped L nodes k (.trans e) T :=
  starTyped_trans_of_test L nodes hac hfu hns k e T U st hfree hstar ht hs

/-- the same for a whole expression: `StarCheck` demands, at every transitive step `e*` reached at an
asset type `T`, that `e` is step-free and, if typed from `T`, leads to a sub asset of `T` -/
theorem star_side_condition_of_check (L : Lang) (nodes : List AssocDecl) (hac : Acyclic L)
    (hfu : FieldsUnique L nodes) (hns : NoShadow L) (k : Nat) (e : Expr) (T : String)
    (h : StarCheck L nodes k e T) : StarTyped L nodes k e T :=
  starTyped_of_starCheck L nodes hac hfu hns k e T h

/-- `type_soundness` under the test of the MAL type checker -/
theorem type_soundness_checked (L : Lang) (m : Inst) (nodes : List AssocDecl) (hac : Acyclic L)
    (hfu : FieldsUnique L nodes) (hns : NoShadow L) (hv : ValidFor L m nodes)
    (k k' : Nat) (e : Expr) (T U : String) (st : Option String) (hstar : StarCheck L nodes k e T)
    (ht : typeF L nodes k e T = .ok (some (U, st)))
    (xs : List Int) (hxs : ∀ x ∈ xs, Typed L m T x)
    (r : List Int × Option String) (he : evalF L m k' e xs = .ok r) :
    ∀ y ∈ r.1, Typed L m U y :=
  type_soundness L m nodes hac hfu hns hv k k' e T U st
    (starTyped_of_starCheck L nodes hac hfu hns k e T hstar) ht xs hxs r he

/-- non-vacuity of `typing_monotone`: `hosts.compromise` from `Base` and from `Leaf ≤ Base` (same target),
`access` from `Base` and from `Leaf` (the target shrinks) -/
example : ∃ U', typeF lgL [runs, hl, ho] (genFuel lgL) (.collect (.field "hosts") (.step "compromise")) "Leaf" =
    .ok (some (U', some "compromise")) ∧ lgL.isSub U' "Host" = true :=
  typing_monotone lgL [runs, hl, ho] (by decide) (acyclic_of_check lgL (by decide))
    (fieldsUnique_of_check lgL _ (by decide)) (noShadow_of_no_variables lgL (by decide)) _ _ "Base" "Leaf" "Host" _
    (subGuarded_of_check lgL _ _ (by decide)) (by decide) (by decide)

example : typeF lgL [runs, hl, ho] (genFuel lgL) (.step "access") "Base" = .ok (some ("Base", some "access")) ∧
    typeF lgL [runs, hl, ho] (genFuel lgL) (.step "access") "Leaf" = .ok (some ("Leaf", some "access")) := by
  refine ⟨by decide, by decide⟩

/-- non-vacuity of the reduction: `(subdirs)*` on `Dir` passes the single test, hence the side condition -/
example : StarTyped dirL [contains] (genFuel dirL) (.trans (.field "subdirs")) "Dir" :=
  star_side_condition_single_test dirL [contains] (acyclic_of_check dirL (by decide))
    (fieldsUnique_of_check dirL _ (by decide)) (noShadow_of_no_variables dirL (by decide)) _ _ "Dir" "Dir" none
    (stepFree_of_noStepNoVar dirL _ _ (by decide)) trivial (by decide) (by decide)

/-- … while `(next)*` on `A` in `starL` fails it (`next` leads from `A` to `B`, and `B` is not a sub asset of `A`) -/
example : typeF starL starL.assocs (genFuel starL) (.field "next") "A" = .ok (some ("B", none)) ∧
    starL.isSub "B" "A" = false := by
  refine ⟨by decide, by decide⟩

/- UNPROVED (nothing below is used above)

1. (was item 3, remainder) Monotonicity of the static typing holds for `SubGuarded` expressions only
   (`typing_monotone`, counterexample `typing_monotone_needs_guard`); the downward closure of the side
   condition (`star_side_condition_down`) and its reduction to the single test
   (`star_side_condition_single_test`, `StarCheck`) are proved for *step-free* operands of `*`.  Not
   attempted: the downward closure of `StarTyped` for expressions that contain attack steps in other
   positions than below `*` (e.g. a whole reaches expression `a.(b)*.step` moved to a sub asset).
2. `NoShadow` is derived from `NoVarRedecl` under acyclicity (`noShadow_of_primitive`); whether the
   hypothesis on cycles can be dropped there was not investigated (`FieldsUnique` needs none).
3. The step name of expressions that do not end in an attack step (`lastStep e = none`): the static
   typing passes the step name of the operand through `*` and `[T]` while the evaluator returns `none`
   there; `overapprox` assumes `(lastStep e).isSome` (every reaches expression the compiler emits).
-/

end MalVerif.C15
