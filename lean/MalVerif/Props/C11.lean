import MalVerif.Proofs.AGSInv
/-!
# C11 — attackers and nodes mirror each other

`reached_attack_steps` of an attacker and `compromised_by` of a node are
mirror images without duplicates in every reachable state; `compromise` is
idempotent, `undo_compromise` of a node that is not compromised is a no-op,
`remove_attacker` leaves no reference behind, and `attach_attackers` builds
exactly the attackers asked for.
-/
namespace MalVerif.C11
open MalVerif.AGS MalVerif.AGraph

/-- the mirror property, in a consistent state -/
theorem mirror_of_consistent (s : St) (h : Consistent s) :
    ∀ a ∈ s.attackers, ∀ n ∈ s.nodes,
      (n ∈ (s.aobj a).reached ↔ a ∈ (s.nobj n).compBy) ∧ (s.aobj a).reached.Nodup ∧ (s.nobj n).compBy.Nodup :=
  fun a ha n hn => ⟨h.comp.mirror a ha n hn, h.comp.reached_nodup a ha, h.comp.compBy_nodup n hn⟩

/-- … hence after every history -/
theorem mirror_inv (ops : List Op) :
    ∀ a ∈ (ops.foldl applyOp {}).attackers, ∀ n ∈ (ops.foldl applyOp {}).nodes,
      (n ∈ ((ops.foldl applyOp {}).aobj a).reached ↔ a ∈ ((ops.foldl applyOp {}).nobj n).compBy) ∧
      ((ops.foldl applyOp {}).aobj a).reached.Nodup ∧ ((ops.foldl applyOp {}).nobj n).compBy.Nodup :=
  mirror_of_consistent _ (foldl_applyOp_consistent ops {} init_consistent')

/-- both sides only ever refer to objects of the graph -/
theorem refs_closed (s : St) (h : Consistent s) :
    (∀ a ∈ s.attackers, ∀ n ∈ (s.aobj a).reached, n ∈ s.nodes) ∧
    (∀ a ∈ s.attackers, ∀ n ∈ (s.aobj a).entry, n ∈ s.nodes) ∧
    (∀ n ∈ s.nodes, ∀ a ∈ (s.nobj n).compBy, a ∈ s.attackers) :=
  ⟨h.comp.reached_mem, h.comp.entry_mem, h.comp.compBy_mem⟩

/-- `compromise` twice is `compromise` once (no hypothesis needed) -/
theorem compromise_idem (s : St) (a n : Nat) : compromise (compromise s a n) a n = compromise s a n := by
  by_cases h : a ∈ (s.nobj n).compBy
  · rw [compromise_of_mem h, compromise_of_mem h]
  · rw [compromise_of_not_mem h]
    exact compromise_of_mem ((compStep_mem_compBy s a n a n).2 (Or.inr ⟨rfl, rfl⟩))

/-- `undo_compromise` of a node the attacker has not compromised changes nothing -/
theorem undo_noop (s : St) (a n : Nat) (h : a ∉ (s.nobj n).compBy) : undo s a n = s := undo_of_not_mem h

/-- after `compromise` both sides record it -/
theorem compromise_post (s : St) (a n : Nat) :
    n ∈ ((compromise s a n).aobj a).reached ∨ a ∈ (s.nobj n).compBy := by
  by_cases h : a ∈ (s.nobj n).compBy
  · exact Or.inr h
  · rw [compromise_of_not_mem h]
    exact Or.inl ((compStep_mem_reached s a n a n).2 (Or.inr ⟨rfl, rfl⟩))

theorem compromise_post_consistent (s : St) (a n : Nat) (h : Consistent s) (ha : a ∈ s.attackers) (hn : n ∈ s.nodes) :
    n ∈ ((compromise s a n).aobj a).reached ∧ a ∈ ((compromise s a n).nobj n).compBy := by
  have hc := compromise_consistent' s a n h ha hn
  have hf := compromise_frame s a n
  have hr : n ∈ ((compromise s a n).aobj a).reached :=
    (compromise_reached_mem h.comp ha hn n).2 (Or.inr rfl)
  exact ⟨hr, (hc.comp.mirror a (by rw [hf.attackers]; exact ha) n (by rw [hf.nodes]; exact hn)).1 hr⟩

/-- after `undo_compromise` neither side records it -/
theorem undo_post (s : St) (a n : Nat) (h : Consistent s) (ha : a ∈ s.attackers) (hn : n ∈ s.nodes) :
    n ∉ ((undo s a n).aobj a).reached ∧ a ∉ ((undo s a n).nobj n).compBy := by
  have hc := undo_consistent' s a n h ha hn
  have hf := undo_frame s a n
  have hr : n ∉ ((undo s a n).aobj a).reached := fun hm => ((undo_reached_mem h.comp ha hn n).1 hm).2 rfl
  exact ⟨hr, fun hm => hr ((hc.comp.mirror a (by rw [hf.attackers]; exact ha) n (by rw [hf.nodes]; exact hn)).2 hm)⟩

/-- `remove_attacker` leaves no node marked as compromised by the attacker, and removes it from the graph -/
theorem removeAttacker_clean (s : St) (a : Nat) (h : Consistent s) (ha : a ∈ s.attackers) :
    (∀ n ∈ s.nodes, a ∉ ((removeAttacker s a).nobj n).compBy) ∧ a ∉ (removeAttacker s a).attackers ∧
      (removeAttacker s a).nodes = s.nodes ∧ getAttackerById (removeAttacker s a) (s.aobj a).id = none := by
  have hc := removeAttacker_consistent' s a h ha
  have hnot : a ∉ (removeAttacker s a).attackers := by
    rw [removeAttacker_attackers, h.attIdx.nodup.mem_erase_iff]; exact fun hm => hm.1 rfl
  refine ⟨?_, hnot, removeAttacker_nodes s a, ?_⟩
  · intro n hn hm
    exact hnot (hc.comp.compBy_mem n (by rw [removeAttacker_nodes]; exact hn) a hm)
  · cases hg : getAttackerById (removeAttacker s a) (s.aobj a).id with
    | none => rfl
    | some b =>
      obtain ⟨hb, hid⟩ := (hc.attIdx.id_exact _ b).1 hg
      rw [removeAttacker_attackers, h.attIdx.nodup.mem_erase_iff] at hb
      -- the ids of attackers are never changed by `undo`
      have hid' : ((removeAttacker s a).aobj b).id = (s.aobj b).id := by
        show ((ra1 s a).aobj b).id = _
        unfold ra1
        refine foldl_inv (fun t => (t.aobj b).id = (s.aobj b).id) _ _ s ?_ rfl
        intro t x _ ht
        rcases undo_cases t a x with e | e <;> rw [e]
        · exact ht
        · rw [undoStep_aid]; exact ht
      rw [hid'] at hid
      exact absurd (h.attIdx.ids_unique hb.2 ha hid) hb.1

/-- `attach_attackers`: one attacker per entry is appended, in order; attacker `i`
gets the name `atts[i].1` and the next free id, its entry points are its reached
steps, and these are exactly the nodes found under the full names `atts[i].2`
(names that do not resolve are skipped); older attacker objects are untouched -/
theorem attach_exact (s s' : St) (atts : List (String × List String)) (h : Consistent s)
    (hok : attach s atts = .ok s') :
    s'.attackers = s.attackers ++ List.range' s.afresh atts.length ∧
    s'.nodes = s.nodes ∧
    (∀ b ∈ s.attackers, s'.aobj b = s.aobj b) ∧
    ∀ i (hi : i < atts.length),
      (s'.aobj (s.afresh + i)).name = atts[i].1 ∧
      (s'.aobj (s.afresh + i)).id = s.nextAtt + i ∧
      (s'.aobj (s.afresh + i)).entry = (s'.aobj (s.afresh + i)).reached ∧
      (s'.aobj (s.afresh + i)).reached.Nodup ∧
      ∀ n, n ∈ (s'.aobj (s.afresh + i)).reached ↔ ∃ fn ∈ atts[i].2, getNodeByName s fn = some n := by
  obtain ⟨h1, _, h3, h4⟩ := attach_spec atts s s' h hok
  have hc := attach_consistent' atts s s' h hok
  refine ⟨h1, (attach_frameN atts s s' hok).1, fun b hb => h3 b (h.attIdx.fresh b hb), ?_⟩
  intro i hi
  obtain ⟨i1, i2, i3, i4⟩ := h4 i hi
  refine ⟨i1, i2, i3, hc.comp.reached_nodup _ ?_, i4⟩
  rw [h1, List.mem_append, List.mem_range'_1]
  exact Or.inr ⟨Nat.le_add_right _ _, Nat.add_lt_add_left hi _⟩

/-- with generated ids `attach_attackers` never fails in a consistent state -/
theorem attach_ok (s : St) (atts : List (String × List String)) (h : Consistent s) : ∃ s', attach s atts = .ok s' := by
  induction atts generalizing s with
  | nil => exact ⟨s, rfl⟩
  | cons x atts ih =>
    have hk : dget s.attIdx s.nextAtt = none := by
      cases hd : dget s.attIdx s.nextAtt with
      | none => rfl
      | some a =>
        have := (h.attIdx.id_exact _ a).1 hd
        have hlt := h.attIdx.id_lt_next a this.1
        rw [this.2] at hlt
        exact absurd hlt (Int.lt_irrefl _)
    obtain ⟨s', hs'⟩ := ih (attachSt s x) (attachSt_consistent s x h hk)
    refine ⟨s', ?_⟩
    rw [attach_cons]
    have : attachStep s x = .ok (attachSt s x) := by
      unfold attachStep
      have : addAttacker s x.1 none [] [] = .ok (aaInit s x.1 s.nextAtt) := by
        rw [addAttacker_eq]
        have e : (dget s.attIdx (Option.getD none s.nextAtt)).isSome = false := by
          show (dget s.attIdx s.nextAtt).isSome = false; rw [hk]; rfl
        rw [e]; rfl
      rw [this]; rfl
    rw [this]; exact hs'

/-! ### the hypotheses are satisfiable by a non-trivial state -/

example : Consistent (Demo.c11Ops.foldl applyOp {}) := foldl_applyOp_consistent _ _ init_consistent'
example : (Demo.c11Ops.foldl applyOp {}).attackers = [0, 1] ∧ ((Demo.c11Ops.foldl applyOp {}).aobj 0).reached = [0, 1] ∧
    ((Demo.c11Ops.foldl applyOp {}).aobj 1).reached = [1] ∧ ((Demo.c11Ops.foldl applyOp {}).aobj 1).entry = [1] ∧
    ((Demo.c11Ops.foldl applyOp {}).nobj 1).compBy = [0, 1] ∧ ((Demo.c11Ops.foldl applyOp {}).aobj 1).name = "mallory" := by
  decide

end MalVerif.C11
