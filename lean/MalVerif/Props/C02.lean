import MalVerif.Proofs.GenLemmas
/-!
# C02 — the nodes of a generated attack graph

Statements are about `genNodes` (the first loop of
`AttackGraph._generate_graph`), `nodeSpecs` (the (asset, step) pairs in loop
order; the steps of an asset are `L.foldSteps a.type`, what its type defines
or inherits) and `nameIndex` (`_full_name_to_node`).  Lookup by id is the
position in the node list.
-/
namespace MalVerif.C02
open MalVerif

/-- the pairs are exactly (asset of the model, step its type defines or inherits) -/
theorem spec_mem_iff (L : Lang) (m : Inst) (a : IAsset) (sn : String) (d : StepDecl) :
    (a, sn, d) ∈ nodeSpecs L m ↔ a ∈ m.assets ∧ (sn, d) ∈ L.foldSteps a.type := by
  rw [mem_nodeSpecs]
  constructor
  · rintro ⟨a', ha, e, he, h⟩
    cases h
    exact ⟨ha, he⟩
  · rintro ⟨ha, he⟩
    exact ⟨a, ha, (sn, d), he, rfl⟩

/-- the general form of `nodes_eq_spec`, for the loop started at id `i` -/
theorem nodes_eq_spec_from (L : Lang) (m : Inst) (i : Nat) (specs : List (IAsset × String × StepDecl))
    (ns : List GNode) (h : genNodesFrom L m i specs = .ok ns) :
    ns.map (fun n => (n.asset, n.assetName, n.step)) = specs.map (fun p => (p.1.id, p.1.name, p.2.1)) ∧
    ns.map (·.id) = List.range' i ns.length := by
  obtain ⟨hl, hj⟩ := genNodesFrom_spec L m specs i ns h
  constructor
  · apply List.ext_getElem (by simp [hl])
    intro j h1 h2
    simp only [List.length_map] at h1 h2
    have := (mkNode_ok (hj j h2 h1)).2
    simp only [List.getElem_map]
    rw [this]
  · apply List.ext_getElem (by simp)
    intro j h1 h2
    simp only [List.length_map] at h1
    have := (mkNode_ok (hj j (hl ▸ h1) h1)).2
    simp only [List.getElem_map, List.getElem_range']
    rw [this]; simp

/-- **One node per pair, in loop order, and no other node; ids are positions.** -/
theorem nodes_eq_spec (L : Lang) (m : Inst) (ns : List GNode) (h : genNodes L m = .ok ns) :
    ns.map (fun n => (n.asset, n.assetName, n.step)) =
      (nodeSpecs L m).map (fun p => (p.1.id, p.1.name, p.2.1)) ∧
    ns.map (·.id) = List.range ns.length := by
  have := nodes_eq_spec_from L m 0 (nodeSpecs L m) ns h
  rw [List.range_eq_range']
  exact this

theorem length_eq (L : Lang) (m : Inst) (ns : List GNode) (h : genNodes L m = .ok ns) :
    ns.length = (nodeSpecs L m).length :=
  (genNodesFrom_spec L m _ 0 ns h).1

/-- **Node ids are unique.** -/
theorem ids_nodup (L : Lang) (m : Inst) (ns : List GNode) (h : genNodes L m = .ok ns) :
    (ns.map (·.id)).Nodup := by
  rw [(nodes_eq_spec L m ns h).2]
  exact List.nodup_range

/-- **What a node carries**: the node at position `i` is built from the
`i`-th pair `(a, sn, d)`. -/
theorem node_attributes (L : Lang) (m : Inst) (ns : List GNode) (h : genNodes L m = .ok ns)
    (i : Nat) (a : IAsset) (sn : String) (d : StepDecl) (n : GNode)
    (hp : (nodeSpecs L m)[i]? = some (a, sn, d)) (hn : ns[i]? = some n) :
    n.id = i ∧ n.asset = a.id ∧ n.assetName = a.name ∧ n.step = sn ∧
    n.type = d.type ∧ n.ttc = d.ttc ∧ n.tags = d.tags ∧ n.mitre = d.mitre ∧
    n.defense = (if d.type = "defense" then
        some (((a.defenses.find? (·.1 = sn)).map (·.2)).getD (defaultDefense d)) else none) ∧
    existStatus L m a d = .ok n.exist := by
  obtain ⟨hi, hpe⟩ := List.getElem?_eq_some_iff.1 hp
  obtain ⟨hi', hne⟩ := List.getElem?_eq_some_iff.1 hn
  have := (genNodesFrom_spec L m _ 0 ns h).2 i hi hi'
  rw [hpe, hne, Nat.zero_add] at this
  obtain ⟨he, hv⟩ := mkNode_ok this
  refine ⟨?_, ?_, ?_, ?_, ?_, ?_, ?_, ?_, ?_, he⟩ <;> rw [hv]

/-- what `existStatus` computes -/
theorem existStatus_meaning (L : Lang) (m : Inst) (a : IAsset) (d : StepDecl) (x : Option Bool)
    (h : existStatus L m a d = .ok x) :
    ((d.type = "exist" ∨ d.type = "notExist") →
      ∃ e es r, d.requires = some (e :: es) ∧ eval L m e [a.id] = .ok r ∧ x = some (!r.1.isEmpty)) ∧
    (¬ (d.type = "exist" ∨ d.type = "notExist") → x = none) := by
  unfold existStatus at h
  constructor
  · intro ht
    have ht' : (decide (d.type = "exist") || decide (d.type = "notExist")) = true := by simpa using ht
    rw [if_pos ht'] at h
    cases hr : d.requires with
    | none => rw [hr] at h; cases h
    | some l =>
      cases l with
      | nil => rw [hr] at h; cases h
      | cons e es =>
        rw [hr] at h
        simp only at h
        cases hev : eval L m e [a.id] with
        | error err => rw [hev] at h; cases h
        | ok r =>
          rw [hev] at h
          exact ⟨e, es, r, rfl, hev, (Except.ok.inj h).symm⟩
  · intro ht
    have ht' : ¬ (decide (d.type = "exist") || decide (d.type = "notExist")) = true := by simpa using ht
    rw [if_neg ht'] at h
    exact (Except.ok.inj h).symm

/-- **Existence status**: for an exist / notExist step the status tells
whether the (first) requirement expression, evaluated from the asset, reaches
at least one asset; other steps have none. -/
theorem exist_status_meaning (L : Lang) (m : Inst) (ns : List GNode) (h : genNodes L m = .ok ns)
    (i : Nat) (a : IAsset) (sn : String) (d : StepDecl) (n : GNode)
    (hp : (nodeSpecs L m)[i]? = some (a, sn, d)) (hn : ns[i]? = some n) :
    ((d.type = "exist" ∨ d.type = "notExist") → ∀ e es r, d.requires = some (e :: es) →
      eval L m e [a.id] = .ok r → n.exist = some (!r.1.isEmpty)) ∧
    (¬ (d.type = "exist" ∨ d.type = "notExist") → n.exist = none) := by
  have hs := (node_attributes L m ns h i a sn d n hp hn).2.2.2.2.2.2.2.2.2
  have := existStatus_meaning L m a d n.exist hs
  refine ⟨?_, this.2⟩
  intro ht e es r hr hev
  obtain ⟨e', es', r', hr', hev', hx⟩ := this.1 ht
  rw [hr] at hr'
  cases hr'
  rw [hev] at hev'
  cases hev'
  exact hx

/-- generation succeeds only if every exist / notExist step has a requirement
whose evaluation succeeds -/
theorem exist_steps_have_requirement (L : Lang) (m : Inst) (ns : List GNode) (h : genNodes L m = .ok ns)
    (a : IAsset) (sn : String) (d : StepDecl) (hp : (a, sn, d) ∈ nodeSpecs L m)
    (ht : d.type = "exist" ∨ d.type = "notExist") :
    ∃ e es r, d.requires = some (e :: es) ∧ eval L m e [a.id] = .ok r := by
  obtain ⟨i, hi, hpe⟩ := List.getElem_of_mem hp
  have hi' : i < ns.length := by rw [length_eq L m ns h]; exact hi
  have := node_attributes L m ns h i a sn d ns[i]
    (by rw [List.getElem?_eq_getElem hi, hpe]) (List.getElem?_eq_getElem hi')
  obtain ⟨e, es, r, h1, h2, _⟩ := (existStatus_meaning L m a d _ this.2.2.2.2.2.2.2.2.2).1 ht
  exact ⟨e, es, r, h1, h2⟩

/-- **(asset, step) pairs are distinct** when asset ids are -/
theorem pairs_nodup (L : Lang) (m : Inst) (h : (m.assets.map (·.id)).Nodup) :
    ((nodeSpecs L m).map (fun p => (p.1.id, p.2.1))).Nodup :=
  nodeSpecs_pairs_nodup L m (·.id) h

/-- the same with asset names -/
theorem name_pairs_nodup (L : Lang) (m : Inst) (h : (m.assets.map (·.name)).Nodup) :
    ((nodeSpecs L m).map (fun p => (p.1.name, p.2.1))).Nodup :=
  nodeSpecs_pairs_nodup L m (·.name) h

/-- **Exactly one node for every pair**: with distinct asset ids, every asset
of the model and every step of its type has one and only one node -/
theorem exactly_one_node (L : Lang) (m : Inst) (ns : List GNode) (h : genNodes L m = .ok ns)
    (hid : (m.assets.map (·.id)).Nodup) (a : IAsset) (ha : a ∈ m.assets)
    (sn : String) (d : StepDecl) (hs : (sn, d) ∈ L.foldSteps a.type) :
    ∃ n ∈ ns, (n.asset = a.id ∧ n.step = sn) ∧
      ∀ n' ∈ ns, n'.asset = a.id ∧ n'.step = sn → n' = n := by
  have hspec := (nodes_eq_spec L m ns h).1
  have hpairs : ns.map (fun n => (n.asset, n.step)) = (nodeSpecs L m).map (fun p => (p.1.id, p.2.1)) := by
    have := congrArg (List.map (fun (t : Int × String × String) => (t.1, t.2.2))) hspec
    simpa [List.map_map, Function.comp_def] using this
  have hnd : (ns.map (fun n => (n.asset, n.step))).Nodup := by rw [hpairs]; exact pairs_nodup L m hid
  have hmem : (a.id, sn) ∈ ns.map (fun n => (n.asset, n.step)) := by
    rw [hpairs]
    exact List.mem_map.2 ⟨(a, sn, d), (spec_mem_iff L m a sn d).2 ⟨ha, hs⟩, rfl⟩
  obtain ⟨n, hn, hne⟩ := List.mem_map.1 hmem
  have h1 : n.asset = a.id := congrArg Prod.fst hne
  have h2 : n.step = sn := congrArg Prod.snd hne
  refine ⟨n, hn, ⟨h1, h2⟩, ?_⟩
  intro n' hn' hh
  exact inj_on_of_nodup_map hnd n' hn' n hn (by simp [hh.1, hh.2, h1, h2])

/-- **No other node**: every node belongs to an asset of the model and a step
of its type -/
theorem no_other_node (L : Lang) (m : Inst) (ns : List GNode) (h : genNodes L m = .ok ns)
    (n : GNode) (hn : n ∈ ns) :
    ∃ a ∈ m.assets, ∃ d, (n.step, d) ∈ L.foldSteps a.type ∧ n.asset = a.id ∧ n.assetName = a.name ∧
      d.name = n.step := by
  obtain ⟨i, hi, hne⟩ := List.getElem_of_mem hn
  have hi' : i < (nodeSpecs L m).length := by rw [← length_eq L m ns h]; exact hi
  rcases hpe : (nodeSpecs L m)[i] with ⟨a, sn, d⟩
  have hat := node_attributes L m ns h i a sn d n
    (by rw [List.getElem?_eq_getElem hi', hpe]) (by rw [List.getElem?_eq_getElem hi, hne])
  have hm : (a, sn, d) ∈ nodeSpecs L m := hpe ▸ List.getElem_mem hi'
  obtain ⟨ha, hs⟩ := (spec_mem_iff L m a sn d).1 hm
  have hname := foldSteps_key_eq_name L a.type (sn, d) hs
  refine ⟨a, ha, d, ?_, hat.2.1, hat.2.2.1, ?_⟩
  · rw [hat.2.2.2.1]; exact hs
  · rw [hat.2.2.2.1]; exact hname

/-- **`asset ':' step` determines the asset name and the step name** when step
names contain no colon (asset names may) -/
theorem fullName_injective (a s b t : String) (h : a ++ ":" ++ s = b ++ ":" ++ t)
    (hs : ':' ∉ s.toList) (ht : ':' ∉ t.toList) : a = b ∧ s = t :=
  fullName_inj a s b t h hs ht

/-- **Full names are unique** when asset names are distinct and step names
contain no colon (distinct asset ids are not needed) -/
theorem fullNames_nodup (L : Lang) (m : Inst) (ns : List GNode)
    (hnames : (m.assets.map (·.name)).Nodup)
    (hcolon : ∀ a ∈ m.assets, ∀ e ∈ L.foldSteps a.type, ':' ∉ e.1.toList)
    (h : genNodes L m = .ok ns) : (ns.map GNode.fullName).Nodup := by
  have hspec := (nodes_eq_spec L m ns h).1
  have hfn : ns.map GNode.fullName = (nodeSpecs L m).map (fun p => p.1.name ++ ":" ++ p.2.1) := by
    have := congrArg (List.map (fun (t : Int × String × String) => t.2.1 ++ ":" ++ t.2.2)) hspec
    have e : GNode.fullName = fun x => x.assetName ++ ":" ++ x.step := rfl
    rw [e]
    simpa [List.map_map, Function.comp_def] using this
  rw [hfn]
  refine nodup_map_comp (f := fun p : IAsset × String × StepDecl => (p.1.name, p.2.1))
    (g := fun q : String × String => q.1 ++ ":" ++ q.2) (name_pairs_nodup L m hnames) ?_
  intro p hp q hq heq
  obtain ⟨a, ha, e, he, rfl⟩ := mem_nodeSpecs.1 hp
  obtain ⟨b, hb, e', he', rfl⟩ := mem_nodeSpecs.1 hq
  obtain ⟨h1, h2⟩ := fullName_inj _ _ _ _ heq (hcolon a ha e he) (hcolon b hb e' he')
  simp only at h1 h2
  simp [h1, h2]

/-- **Lookup by full name returns precisely that node** -/
theorem lookup_name_correct (ns : List GNode) (k : String) (n : GNode)
    (h : (ns.map GNode.fullName).Nodup) :
    nameIndex ns k = some n ↔ n ∈ ns ∧ n.fullName = k := by
  unfold nameIndex
  constructor
  · intro hf
    have h1 := List.find?_some hf
    have h2 := List.mem_of_find?_eq_some hf
    exact ⟨List.mem_reverse.1 h2, by simpa using h1⟩
  · rintro ⟨hn, hk⟩
    cases hf : ns.reverse.find? (fun n => n.fullName = k) with
    | none =>
      have := List.find?_eq_none.1 hf n (List.mem_reverse.2 hn)
      simp [hk] at this
    | some n' =>
      have h1 : n'.fullName = k := by simpa using List.find?_some hf
      have h2 : n' ∈ ns := List.mem_reverse.1 (List.mem_of_find?_eq_some hf)
      rw [inj_on_of_nodup_map h n' h2 n hn (h1.trans hk.symm)]

/-- lookup of a name fails exactly when no node has it (no hypothesis) -/
theorem lookup_name_none (ns : List GNode) (k : String) :
    nameIndex ns k = none ↔ ∀ n ∈ ns, n.fullName ≠ k := by
  unfold nameIndex
  rw [List.find?_eq_none]
  simp

/-- **Lookup by id returns precisely that node** (the id is the position) -/
theorem lookup_id_correct (L : Lang) (m : Inst) (ns : List GNode) (h : genNodes L m = .ok ns)
    (i : Nat) (n : GNode) : ns[i]? = some n ↔ n ∈ ns ∧ n.id = i := by
  have hid := (nodes_eq_spec L m ns h).2
  have key : ∀ j (hj : j < ns.length), ns[j].id = j := by
    intro j hj
    have := congrArg (fun l => l[j]?) hid
    simpa [hj] using this
  constructor
  · intro hn
    obtain ⟨hi, hne⟩ := List.getElem?_eq_some_iff.1 hn
    exact ⟨List.mem_of_getElem? hn, by rw [← hne]; exact key i hi⟩
  · rintro ⟨hn, hi⟩
    obtain ⟨j, hj, hne⟩ := List.getElem_of_mem hn
    have := key j hj
    rw [hne, hi] at this
    rw [this, List.getElem?_eq_getElem hj, hne]

/-! ### non-vacuity: two hosts (one with an explicit defense value and a colon
in its name) inheriting two steps from an abstract type, one data asset, an
exist and a notExist step -/

def demoL : Lang where
  assets := [
    { name := "Base", isAbstract := true,
      steps := [ { name := "access", type := "or",
                   reaches := some { overrides := true, exprs := [.step "compromise"] } },
                 { name := "compromise", type := "and", ttc := "Exp", ttcName := some "Exponential",
                   tags := ["t"], mitre := some "T1" } ] },
    { name := "Host", superAsset := some "Base",
      steps := [ { name := "hardened", type := "defense", ttcName := some "Enabled",
                   reaches := some { overrides := true, exprs := [.step "compromise"] } },
                 { name := "noData", type := "notExist", requires := some [.field "data"] } ] },
    { name := "Data",
      steps := [ { name := "read", type := "or" },
                 { name := "hasHost", type := "exist", requires := some [.field "host"] } ] } ]
  assocs := [ { name := "Stores", leftAsset := "Host", leftField := "host",
                rightAsset := "Data", rightField := "data" } ]

def demoM : Inst where
  assets := [
    { id := 0, name := "h:1", type := "Host", defenses := [("hardened", "0.5")] },
    { id := 1, name := "h2", type := "Host" },
    { id := 2, name := "d", type := "Data" } ]
  links := [ { cls := "Stores", lf := "host", rf := "data", left := [0], right := [2] } ]

/-- generation succeeds -/
example : (genNodes demoL demoM).toBool = true := by decide
/-- ten nodes: 4 + 4 + 2 -/
example : (genNodes demoL demoM).toOption.map (·.length) = some 10 := by decide
example : (nodeSpecs demoL demoM).length = 10 := by decide
/-- the full names, the defense and existence statuses -/
example : (genNodes demoL demoM).toOption.map (·.map (fun n => (n.fullName, n.defense, n.exist))) =
    some [("h:1:access", none, none), ("h:1:compromise", none, none),
          ("h:1:hardened", some "0.5", none), ("h:1:noData", none, some true),
          ("h2:access", none, none), ("h2:compromise", none, none),
          ("h2:hardened", some "1.0", none), ("h2:noData", none, some false),
          ("d:read", none, none), ("d:hasHost", none, some true)] := by decide
/-- the hypotheses of `fullNames_nodup` and `pairs_nodup` hold -/
example : (demoM.assets.map (·.name)).Nodup := by decide
example : (demoM.assets.map (·.id)).Nodup := by decide
example : ∀ a ∈ demoM.assets, ∀ e ∈ demoL.foldSteps a.type, ':' ∉ e.1.toList := by decide
/-- so on this model full names are distinct and the index finds the nodes -/
example : ∀ ns, genNodes demoL demoM = .ok ns → (ns.map GNode.fullName).Nodup :=
  fun ns h => fullNames_nodup demoL demoM ns (by decide) (by decide) h
example : (genNodes demoL demoM).toOption.map (fun ns => (nameIndex ns "h2:hardened").map (·.id)) =
    some (some 6) := by decide

end MalVerif.C02
