import MalVerif.Props.C02
import MalVerif.Props.C03
import MalVerif.Props.C01
/-!
# C16 — graph generation is deterministic and does not disturb its inputs

What a pure model can carry of this property (the rest — fresh processes,
hash seeds, the file-based wrapper — is established by execution in the
correspondence check, and the claim is labelled *partial*):

* generation is a *function of the ordered inputs*: every observable of the
  generated graph is determined by the lists of the language specification
  and of the model, never by a set or a hash (`gen_depends_on_inputs_only`,
  `node_ids_are_positions`, `node_order_is_model_order`);
* the step lookups that generation performs never write the loaded language
  specification (`generation_leaves_spec`), for any number of generations;
* generation only reads the instance model: the model is an argument of a
  pure function (`gen_reads_model`, by the type of `genGraph`).
-/
namespace MalVerif.C16
open MalVerif.C03

/-- two generations from equal inputs are equal: there is no hidden state in the model of generation
(the content of this statement is in the *type* of `genGraph`: its only inputs are `L` and `m`) -/
theorem gen_depends_on_inputs_only (L L' : Lang) (m m' : Inst) (hL : L = L') (hm : m = m') :
    genGraph L m = genGraph L' m' := by rw [hL, hm]

/-- node ids are the positions in generation order (not derived from hashing) -/
theorem node_ids_are_positions (L : Lang) (m : Inst) (ns : List GNode) (h : genNodes L m = .ok ns) :
    ns.map (·.id) = List.range ns.length := (C02.nodes_eq_spec L m ns h).2

/-- the node order is: assets in model order, steps in the order of the inheritance fold -/
theorem node_order_is_model_order (L : Lang) (m : Inst) (ns : List GNode) (h : genNodes L m = .ok ns) :
    ns.map (fun n => (n.asset, n.assetName, n.step)) =
      (m.assets.flatMap (fun a => (L.foldSteps a.type).map (fun e => (a, e.1, e.2)))).map
        (fun p => (p.1.id, p.1.name, p.2.1)) := (C02.nodes_eq_spec L m ns h).1

/-- the step lookups of any number of graph generations (one lookup per asset of each model, in any order)
return the folded steps and leave every location of the loaded language specification unchanged -/
theorem generation_leaves_spec (L : Lang) (models : List Inst) :
    let qs := models.flatMap (fun m => m.assets.map (·.type))
    (runH (loadLang L).2 (loadLang L).1 qs).2.map (readAcc (runH (loadLang L).2 (loadLang L).1 qs).1) =
      qs.map L.foldSteps ∧
    readLang (runH (loadLang L).2 (loadLang L).1 qs).1 (loadLang L).2 = L :=
  ⟨(resolve_history_loaded L _).1, (resolve_history_loaded L _).2.1⟩

/-- the edges are a function of the node list and the inputs -/
theorem gen_reads_model (L : Lang) (m : Inst) (r : List GNode × List (Nat × Nat)) (h : genGraph L m = .ok r) :
    genNodes L m = .ok r.1 ∧ genEdges L m r.1 = .ok r.2 := by
  unfold genGraph at h
  cases hn : genNodes L m with
  | error e => rw [hn] at h; cases h
  | ok ns =>
    rw [hn] at h
    cases he : genEdges L m ns with
    | error e => simp [he, bind, Except.bind] at h
    | ok es =>
      simp [he, bind, Except.bind, pure, Except.pure] at h
      subst h
      exact ⟨rfl, he⟩

end MalVerif.C16
