import MalVerif.Proofs.AGCopyLemmas
/-!
# C14 — a deep copy of an attack graph is equal and fully independent

`deepcopy` (`MalVerif/Model/AGSerial.lean`) models `AttackGraph.__deepcopy__`, `AttackGraphNode.__deepcopy__`
and `Attacker.__deepcopy__`: the copy is a second graph in the *same* object stores, made of freshly allocated
objects; the original is the old state read through the new stores (`viewIn s (deepcopy s)`).

* `obsG` (`MalVerif/Proofs/AGCopyLemmas.lean`) is everything that can be seen of a graph without comparing
  object identities: per node all data fields, the full name and the ids of its children, parents and
  compromising attackers; per attacker id, name and the ids of entry points and reached steps; the three
  indexes (keys in order, each with the id of the object the lookup returns); the two counters.
* `copy_equal`, `copy_serialized`, `copy_lookup`: the copy is observed (and written to a file) like the original.
* `copy_fresh`, `copy_disjoint`: it shares no node and no attacker with the original.
* `copy_closed`, `copy_consistent`: every reference inside the copy points into the copy.
* `original_untouched`: copying writes no object of the original.
* `ops_local_partial`, `independent_partial`, `independent_sym_partial`, `independent_interleaved_partial`:
  no history of operations on one of the two graphs changes what is observed of the other.

The asset a node belongs to is a *name* in this model (`NodeObj.asset`) and the language is not part of the
state, so "the copy shares the model and the language" is not expressible here beyond `asset` being equal.

One statement of the wish list is false for the model as written: `setLabels` (the model of the analysis
writing `is_viable` / `is_necessary`) takes raw object references and does not check that they are nodes of
the graph it is applied to — `applyOp (deepcopy s) (.setLabels [(r, …)])` with `r` a node of the *original*
changes the original (in Python: `orig_node.is_viable = False` is simply a change to the original).
Smallest counterexample: `setLabels_foreign_handle` below.  The frame theorems therefore carry the hypothesis
`opsLocal` (`Op.local`: the references given to `setLabels` are nodes of the graph operated on; every other
operation checks its handles itself) and are named `…_partial`.
-/
namespace MalVerif.C14
open MalVerif.AGS MalVerif.AGraph

/-! ### equal -/

/-- the copy has the same nodes (all attributes, edges by id, compromising attackers by id), attackers,
indexes and counters as the original -/
theorem copy_equal (s : St) (h : Consistent s) : obsG (deepcopy s) = obsG s := obsG_deepcopy s h

/-- the copy is written to the same file as the original -/
theorem copy_serialized (s : St) (h : Consistent s) : toDoc (deepcopy s) = toDoc s := toDoc_deepcopy s h

/-- the lookups of the copy find the copies of what the lookups of the original find -/
theorem copy_lookup (s : St) (h : Consistent s) :
    (∀ k, (getNodeById (deepcopy s) k).map (nodeObs (deepcopy s)) = (getNodeById s k).map (nodeObs s)) ∧
    (∀ k, (getNodeByName (deepcopy s) k).map (nodeObs (deepcopy s)) = (getNodeByName s k).map (nodeObs s)) ∧
    (∀ k, (getAttackerById (deepcopy s) k).map (attObs (deepcopy s)) = (getAttackerById s k).map (attObs s)) := by
  have hobs := obsG_deepcopy s h
  have hN : ∀ r ∈ s.nodes, nodeObs (deepcopy s) (nmap s r) = nodeObs s r := by
    intro r hr
    have e := congrArg GraphObs.nodes hobs
    unfold obsG at e
    simp only [deepcopy_nodes, List.map_map] at e
    exact List.map_inj_left.1 e r hr
  have hA : ∀ r ∈ s.attackers, attObs (deepcopy s) (amap s r) = attObs s r := by
    intro r hr
    have e := congrArg GraphObs.attackers hobs
    unfold obsG at e
    simp only [deepcopy_attackers, List.map_map] at e
    exact List.map_inj_left.1 e r hr
  refine ⟨fun k => ?_, fun k => ?_, fun k => ?_⟩
  · unfold getNodeById
    rw [deepcopy_idIdx, dget_map_val, Option.map_map]
    cases hd : dget s.idIdx k with
    | none => rfl
    | some r => exact congrArg some (hN r ((h.idx.id_exact k r).1 hd).1)
  · unfold getNodeByName
    rw [deepcopy_nameIdx, dget_map_val, Option.map_map]
    cases hd : dget s.nameIdx k with
    | none => rfl
    | some r => exact congrArg some (hN r (h.idx.name_sound k r hd).1)
  · unfold getAttackerById
    rw [deepcopy_attIdx, dget_map_val, Option.map_map]
    cases hd : dget s.attIdx k with
    | none => rfl
    | some r => exact congrArg some (hA r ((h.attIdx.id_exact k r).1 hd).1)

/-- for an index without duplicate keys (every Python `dict`) the observed index is the plain list of entries -/
theorem idxObs_plain {κ β : Type} [DecidableEq κ] (d : List (κ × Nat)) (tgt : Nat → β)
    (hk : (d.map (·.1)).Nodup) : idxObs d tgt = d.map (fun e => (e.1, some (tgt e.2))) := idxObs_eq_raw d tgt hk

/-! ### no shared object -/

/-- the objects of the copy are freshly allocated, those of the original are old -/
theorem copy_fresh (s : St) (h : Consistent s) :
    (∀ r ∈ footprintN (deepcopy s), s.nfresh ≤ r) ∧ (∀ a ∈ footprintA (deepcopy s), s.afresh ≤ a) ∧
    (∀ r ∈ footprintN s, r < s.nfresh) ∧ (∀ a ∈ footprintA s, a < s.afresh) := by
  refine ⟨?_, ?_, h.nodes.fresh, h.attIdx.fresh⟩
  · intro x hx
    obtain ⟨r, hr, rfl⟩ := (mem_deepcopy_nodes s x).1 hx
    exact nmap_ge s hr
  · intro x hx
    obtain ⟨r, hr, rfl⟩ := (mem_deepcopy_attackers s x).1 hx
    exact amap_ge s hr

/-- original and copy share no node and no attacker -/
theorem copy_disjoint (s : St) (h : Consistent s) :
    (∀ r, r ∈ footprintN s → r ∉ footprintN (deepcopy s)) ∧ (∀ a, a ∈ footprintA s → a ∉ footprintA (deepcopy s)) := by
  obtain ⟨h1, h2, h3, h4⟩ := copy_fresh s h
  exact ⟨fun r hr hm => Nat.lt_irrefl _ (Nat.lt_of_lt_of_le (h3 r hr) (h1 r hm)),
         fun a ha hm => Nat.lt_irrefl _ (Nat.lt_of_lt_of_le (h4 a ha) (h2 a hm))⟩

/-- the copy has as many nodes and attackers as the original, pairwise different objects -/
theorem copy_size (s : St) (h : Consistent s) :
    (deepcopy s).nodes.length = s.nodes.length ∧ (deepcopy s).attackers.length = s.attackers.length ∧
    (deepcopy s).nodes.Nodup ∧ (deepcopy s).attackers.Nodup :=
  ⟨by rw [deepcopy_nodes, List.length_map], by rw [deepcopy_attackers, List.length_map],
   (deepcopy_consistent s h).nodes.nodup, (deepcopy_consistent s h).attIdx.nodup⟩

/-! ### closed -/

theorem copy_consistent (s : St) (h : Consistent s) : Consistent (deepcopy s) := deepcopy_consistent s h

theorem copy_namesExact (s : St) (h : Consistent s) (hx : NamesExact s) : NamesExact (deepcopy s) :=
  deepcopy_namesExact s h hx

/-- all references inside the copy — child / parent lists, compromised-by, entry points, reached steps and
the targets of the three indexes — are objects of the copy (none leaks into the original) -/
theorem copy_closed (s : St) (h : Consistent s) :
    let c := deepcopy s
    (∀ n ∈ c.nodes, (∀ x ∈ (c.nobj n).children, x ∈ c.nodes) ∧ (∀ x ∈ (c.nobj n).parents, x ∈ c.nodes) ∧
        (∀ a ∈ (c.nobj n).compBy, a ∈ c.attackers)) ∧
    (∀ a ∈ c.attackers, (∀ x ∈ (c.aobj a).entry, x ∈ c.nodes) ∧ (∀ x ∈ (c.aobj a).reached, x ∈ c.nodes)) ∧
    (∀ k r, getNodeById c k = some r → r ∈ c.nodes) ∧ (∀ k r, getNodeByName c k = some r → r ∈ c.nodes) ∧
    (∀ k a, getAttackerById c k = some a → a ∈ c.attackers) := by
  have hc := deepcopy_consistent s h
  exact ⟨fun n hn => ⟨hc.nodes.children_mem n hn, hc.nodes.parents_mem n hn, hc.comp.compBy_mem n hn⟩,
    fun a ha => ⟨hc.comp.entry_mem a ha, hc.comp.reached_mem a ha⟩,
    fun k r hk => ((hc.idx.id_exact k r).1 hk).1, fun k r hk => (hc.idx.name_sound k r hk).1,
    fun k a hk => ((hc.attIdx.id_exact k a).1 hk).1⟩

/-- … and so none of them is an object of the original -/
theorem copy_refs_not_in_original (s : St) (h : Consistent s) :
    let c := deepcopy s
    (∀ n ∈ c.nodes, (∀ x ∈ (c.nobj n).children, x ∉ s.nodes) ∧ (∀ x ∈ (c.nobj n).parents, x ∉ s.nodes) ∧
        (∀ a ∈ (c.nobj n).compBy, a ∉ s.attackers)) ∧
    (∀ a ∈ c.attackers, (∀ x ∈ (c.aobj a).entry, x ∉ s.nodes) ∧ (∀ x ∈ (c.aobj a).reached, x ∉ s.nodes)) := by
  obtain ⟨h1, h2, _, _, _⟩ := copy_closed s h
  obtain ⟨d1, d2⟩ := copy_disjoint s h
  exact ⟨fun n hn => ⟨fun x hx hm => d1 x hm ((h1 n hn).1 x hx), fun x hx hm => d1 x hm ((h1 n hn).2.1 x hx),
      fun a ha hm => d2 a hm ((h1 n hn).2.2 a ha)⟩,
    fun a ha => ⟨fun x hx hm => d1 x hm ((h2 a ha).1 x hx), fun x hx hm => d1 x hm ((h2 a ha).2 x hx)⟩⟩

/-! ### the original is not written -/

theorem original_untouched (s : St) (h : Consistent s) :
    obsG (viewIn s (deepcopy s)) = obsG s ∧ Consistent (viewIn s (deepcopy s)) ∧
    (∀ r ∈ s.nodes, (deepcopy s).nobj r = s.nobj r) ∧ (∀ a ∈ s.attackers, (deepcopy s).aobj a = s.aobj a) :=
  have hh := hosts_deepcopy s h
  ⟨hh.obsG h, hh.consistent h, hh.nobj, hh.aobj⟩

/-! ### independence -/

/-- frame property of the state machine: an operation on a consistent graph only writes objects of that
graph or objects it allocates, and the new graph consists of such objects -/
theorem ops_local_partial (t : St) (op : Op) (h : Consistent t) (hl : op.local t) :
    (∀ x, x ∉ t.nodes → x < t.nfresh → (applyOp t op).nobj x = t.nobj x) ∧
    (∀ a, a ∉ t.attackers → a < t.afresh → (applyOp t op).aobj a = t.aobj a) ∧
    (∀ x ∈ (applyOp t op).nodes, x ∈ t.nodes ∨ t.nfresh ≤ x) ∧
    (∀ a ∈ (applyOp t op).attackers, a ∈ t.attackers ∨ t.afresh ≤ a) ∧
    t.nfresh ≤ (applyOp t op).nfresh ∧ t.afresh ≤ (applyOp t op).afresh :=
  have hl := applyOp_local t op h hl
  ⟨hl.nobj, hl.aobj, hl.nodes, hl.attackers, hl.nfresh, hl.afresh⟩

/-- every operation but `setLabels` is local without any side condition -/
theorem ops_local_of_not_setLabels (t : St) (op : Op) (hop : ∀ lab, op ≠ .setLabels lab) : op.local t := by
  cases op with
  | setLabels lab => exact absurd rfl (hop lab)
  | _ => trivial

/-- counterexample to `ops_local` without the hypothesis: `setLabels` with the reference of an object that is
not a node of the graph writes that object -/
theorem setLabels_foreign_handle :
    let t : St := { nfresh := 1 }
    Consistent t ∧ 0 ∉ t.nodes ∧ 0 < t.nfresh ∧ ((applyOp t (.setLabels [(0, false, false)])).nobj 0).viable = false ∧
      (t.nobj 0).viable = true := by
  refine ⟨?_, by decide, by decide, by decide, by decide⟩
  refine ⟨⟨List.nodup_nil, ?_, ?_, ?_, ?_⟩, ⟨?_, ?_, ?_⟩, ⟨List.nodup_nil, ?_, ?_, ?_⟩, ⟨?_, ?_, ?_, ?_, ?_, ?_⟩⟩
  all_goals first
    | (intro k r; simp [dget_nil]; done)
    | (intro r hr; simp at hr; done)

/-- the same through a copy: a label written "on the copy" with a handle of the original changes the original -/
example :
    obsG (viewIn Demo.c14G (applyOp (deepcopy Demo.c14G) (.setLabels [(0, false, false)]))) ≠ obsG Demo.c14G := by
  decide

/-- changes to the copy are invisible in the original: after any history of operations on the copy, the
original (read through the final stores) is observed as before, and is still consistent -/
theorem independent_partial (s : St) (h : Consistent s) (ops : List Op) (hl : opsLocal (deepcopy s) ops) :
    obsG (viewIn s (ops.foldl applyOp (deepcopy s))) = obsG s ∧
    Consistent (viewIn s (ops.foldl applyOp (deepcopy s))) := by
  have hloc := foldl_applyOp_local ops (deepcopy s) (deepcopy_consistent s h) hl
  have hh := hloc.hosts (apart_orig_copy s h) (hosts_deepcopy s h)
  exact ⟨hh.obsG h, hh.consistent h⟩

/-- changes to the original after copying are invisible in the copy -/
theorem independent_sym_partial (s : St) (h : Consistent s) (ops : List Op)
    (hl : opsLocal (viewIn s (deepcopy s)) ops) :
    obsG (viewIn (deepcopy s) (ops.foldl applyOp (viewIn s (deepcopy s)))) = obsG s ∧
    Consistent (viewIn (deepcopy s) (ops.foldl applyOp (viewIn s (deepcopy s)))) := by
  have hc := deepcopy_consistent s h
  have hloc := foldl_applyOp_local ops (viewIn s (deepcopy s)) ((hosts_deepcopy s h).consistent h) hl
  have hh := hloc.hosts (apart_copy_orig s h) (hosts_copy_view s)
  exact ⟨(hh.obsG hc).trans (obsG_deepcopy s h), hh.consistent hc⟩

/-- histories without `setLabels` need no side condition -/
theorem opsLocal_of_no_setLabels (t : St) (ops : List Op) (hop : ∀ op ∈ ops, ∀ lab, op ≠ .setLabels lab) :
    opsLocal t ops := by
  induction ops generalizing t with
  | nil => trivial
  | cons op ops ih =>
    exact ⟨ops_local_of_not_setLabels t op (hop op List.mem_cons_self),
           ih _ (fun o ho => hop o (List.mem_cons_of_mem _ ho))⟩

/-- the two graphs keep disjoint footprints, whatever is done to the copy -/
theorem footprints_stay_disjoint_partial (s : St) (h : Consistent s) (ops : List Op)
    (hl : opsLocal (deepcopy s) ops) :
    (∀ r ∈ footprintN s, r ∉ footprintN (ops.foldl applyOp (deepcopy s))) ∧
    (∀ a ∈ footprintA s, a ∉ footprintA (ops.foldl applyOp (deepcopy s))) := by
  have hap := (foldl_applyOp_local ops (deepcopy s) (deepcopy_consistent s h) hl).apart (apart_orig_copy s h)
  exact ⟨fun r hr => (hap.nodes r hr).1, fun a ha => (hap.attackers a ha).1⟩

/-- arbitrary interleavings: `(true, op)` is an operation on the original, `(false, op)` one on the copy.
After every interleaved history the two graphs are consistent, share no object, and one more operation on
either of them does not change what is observed of the other. -/
theorem independent_interleaved_partial (s : St) (h : Consistent s) (xs : List (Bool × Op))
    (hl : bothLocal (viewIn s (deepcopy s), deepcopy s) xs) :
    let p := xs.foldl stepBoth (viewIn s (deepcopy s), deepcopy s)
    Consistent p.1 ∧ Consistent p.2 ∧ (∀ r ∈ footprintN p.1, r ∉ footprintN p.2) ∧
    (∀ a ∈ footprintA p.1, a ∉ footprintA p.2) ∧
    (∀ op, op.local p.1 → obsG (viewIn p.2 (applyOp p.1 op)) = obsG p.2) ∧
    (∀ op, op.local p.2 → obsG (viewIn p.1 (applyOp p.2 op)) = obsG p.1) := by
  have hp := (paired_deepcopy s h).run (p := (viewIn s (deepcopy s), deepcopy s)) xs hl
  exact ⟨hp.ca, hp.cb, hp.disjN, hp.disjA, fun op ho => (hp.step op ho).2, fun op ho => (hp.symm.step op ho).2⟩

/-! ### the statements are about non-trivial graphs -/

/- `Demo.c14G`: nodes `h:a`, `h:b`, `h:c` with the cycle a ⇄ b, the self-loop c → c, the edge a → c; an
attacker with id 0 who entered at `a` and reached `a`, `b`; labels written on `c` -/
example : Consistent Demo.c14G ∧ NamesExact Demo.c14G :=
  ⟨foldl_applyOp_consistent _ {} init_consistent', foldl_applyOp_namesExact _ {} init_consistent' init_namesExact (by decide)⟩

example : Demo.c14G.nodes = [0, 1, 2] ∧ Demo.c14G.attackers = [0] ∧ (Demo.c14G.nobj 0).children = [1, 2] ∧
    (Demo.c14G.nobj 1).children = [0] ∧ (Demo.c14G.nobj 2).children = [2] ∧ (Demo.c14G.nobj 2).parents = [2, 0] ∧
    (Demo.c14G.aobj 0).reached = [0, 1] ∧ (Demo.c14G.aobj 0).id = 0 ∧ (Demo.c14G.nobj 1).compBy = [0] := by decide

/-- the copy: new objects 3, 4, 5 and attacker 1, same observation -/
example : (deepcopy Demo.c14G).nodes = [3, 4, 5] ∧ (deepcopy Demo.c14G).attackers = [1] ∧
    ((deepcopy Demo.c14G).nobj 3).children = [4, 5] ∧ ((deepcopy Demo.c14G).nobj 5).parents = [5, 3] ∧
    ((deepcopy Demo.c14G).aobj 1).reached = [3, 4] ∧ ((deepcopy Demo.c14G).nobj 4).compBy = [1] ∧
    getNodeByName (deepcopy Demo.c14G) "h:b" = some 4 ∧ getAttackerById (deepcopy Demo.c14G) 0 = some 1 := by decide

example : obsG (deepcopy Demo.c14G) = obsG Demo.c14G := by decide +kernel

/-- a history on the copy (remove a node, compromise, add and link a node, labels, prune, remove the attacker)
changes the copy and not the original -/
example : opsLocal (deepcopy Demo.c14G) Demo.c14CopyOps ∧
    obsG (Demo.c14CopyOps.foldl applyOp (deepcopy Demo.c14G)) ≠ obsG Demo.c14G ∧
    obsG (viewIn Demo.c14G (Demo.c14CopyOps.foldl applyOp (deepcopy Demo.c14G))) = obsG Demo.c14G := by decide +kernel

/-- a history on the original changes the original and not the copy -/
example : opsLocal (viewIn Demo.c14G (deepcopy Demo.c14G)) Demo.c14OrigOps ∧
    obsG (Demo.c14OrigOps.foldl applyOp (viewIn Demo.c14G (deepcopy Demo.c14G))) ≠ obsG Demo.c14G ∧
    obsG (viewIn (deepcopy Demo.c14G) (Demo.c14OrigOps.foldl applyOp (viewIn Demo.c14G (deepcopy Demo.c14G)))) =
      obsG Demo.c14G := by decide +kernel

end MalVerif.C14
