import MalVerif.Proofs.AGSInv
/-!
# C09 — the attack graph stays structurally consistent

`Consistent` (`MalVerif/Spec/Consistent.lean`) holds in the empty graph and is
kept by every operation of the state machine `MalVerif.AGS` (the model of
`AttackGraph` / `AttackGraphNode` / `Attacker`); hence it holds after every
history.  Lookups are exact, and a removed node leaves no trace.

Two statements of the original wish list are false for the model as written
(small counterexamples are given as `example`s below):

* `addNode` keeps the invariant only for a node object without edges /
  attackers (what the constructor of `AttackGraphNode` gives, and the only way
  the driver calls it): `addNode_consistent` is stated for `o.detached`,
  `addNode_consistent_partial` for any `o` with the three hypotheses.
* exactness of the *name* index does not follow from `Consistent s` and
  pairwise distinct names in `s`: `add_node` overwrites the index entry of an
  existing full name and a later `remove_node` deletes it.  `NamesExact` is
  therefore a separate invariant, kept by every operation as long as `add_node`
  is called with unused full names (`applyOp_namesExact`, `reachable_namesExact`);
  `lookup_name_exact_partial` needs it.
-/
namespace MalVerif.C09
open MalVerif.AGS MalVerif.AGraph

/-! ### the invariant is kept -/

theorem init_consistent : Consistent {} := init_consistent'

theorem init_namesExact : NamesExact {} := AGS.init_namesExact

/-- `add_node` of a freshly constructed node object -/
theorem addNode_consistent {s s' : St} {o : NodeObj} {id : Option Int} (h : Consistent s)
    (hok : addNode s o.detached id = .ok s') : Consistent s' :=
  addNode_consistent' h rfl rfl rfl hok

/-- `add_node` of an arbitrary node object: it must not carry edges or attackers -/
theorem addNode_consistent_partial {s s' : St} {o : NodeObj} {id : Option Int} (h : Consistent s)
    (hc : o.children = []) (hp : o.parents = []) (hb : o.compBy = [])
    (hok : addNode s o id = .ok s') : Consistent s' :=
  addNode_consistent' h hc hp hb hok

/-- counterexample to `addNode_consistent` without the hypotheses: the new node
claims a child that is not in the graph -/
example : ∃ s', addNode {} { children := [5] } none = .ok s' ∧ ¬ Consistent s' := by
  refine ⟨_, rfl, fun h => ?_⟩
  have := h.nodes.children_mem 0 (by decide) 5 (by decide)
  revert this; decide

/-- an id in use is rejected with `ValueError` (and, `Except` being what it is, no state is produced) -/
theorem addNode_rejects_duplicate_id (s : St) (o : NodeObj) (k : Int) (r : Nat) (h : getNodeById s k = some r) :
    addNode s o (some k) = .error .valueError :=
  addNode_error_of_used s o (some k) (by
    show (dget s.idIdx k).isSome = true
    unfold getNodeById at h; rw [h]; rfl)

/-- … in a consistent state: whenever some node of the graph has that id -/
theorem addNode_rejects_id_of_node (s : St) (o : NodeObj) (r : Nat) (h : Consistent s) (hr : r ∈ s.nodes) :
    addNode s o (some (s.nobj r).id) = .error .valueError :=
  addNode_rejects_duplicate_id s o _ r ((h.idx.id_exact _ r).2 ⟨hr, rfl⟩)

/-- with a generated id `add_node` never fails in a consistent state -/
theorem addNode_auto_id_ok (s : St) (o : NodeObj) (h : Consistent s) : ∃ s', addNode s o none = .ok s' := by
  rw [addNode_eq]
  cases hd : dget s.idIdx (Option.getD none s.nextNode) with
  | none => exact ⟨_, rfl⟩
  | some r =>
    have := (h.idx.id_exact _ r).1 hd
    have hlt := h.idx.id_lt_next r this.1
    rw [this.2] at hlt
    exact absurd hlt (Int.lt_irrefl _)

/-- the name index stays exact if the new full name is unused -/
theorem addNode_namesExact {s s' : St} {o : NodeObj} {id : Option Int} (h : Consistent s) (hx : NamesExact s)
    (hfresh : getNodeByName s (fullName { o with id := id.getD s.nextNode }) = none)
    (hok : addNode s o id = .ok s') : NamesExact s' := by
  obtain ⟨_, rfl⟩ := addNode_ok hok
  exact addNodeSt_namesExact s o _ h.nodes hx hfresh

theorem link_consistent (s : St) (p c : Nat) (h : Consistent s) (hp : p ∈ s.nodes) (hc : c ∈ s.nodes) :
    Consistent (link s p c) := link_consistent' s p c h hp hc

/-- `link` is literally the step of the driver -/
theorem link_def (s : St) (p c : Nat) :
    link s p c = updN (updN s p (fun o => { o with children := o.children ++ [c] })) c
      (fun o => { o with parents := o.parents ++ [p] }) := rfl

theorem removeNode_consistent (s : St) (r : Nat) (h : Consistent s) (hr : r ∈ s.nodes) :
    Consistent (removeNode s r) := removeNode_consistent' s r h hr

theorem addAttacker_consistent {s s' : St} {nm : String} {id : Option Int} {e r : List Int} (h : Consistent s)
    (hok : addAttacker s nm id e r = .ok s') : Consistent s' := addAttacker_consistent' h hok

theorem addAttacker_rejects_duplicate_id (s : St) (nm : String) (k : Int) (e r : List Int) (a : Nat)
    (h : getAttackerById s k = some a) : addAttacker s nm (some k) e r = .error .valueError :=
  addAttacker_error_of_used s nm (some k) e r (by
    show (dget s.attIdx k).isSome = true
    unfold getAttackerById at h; rw [h]; rfl)

/-! ### the repaired `add_node` / `add_attacker` (b507c7f, b653290) -/

/-- `add_attacker` is atomic: it is rejected iff the id is in use or some id of `reached` / `entry` names no node —
a condition on the state the call starts with —, and a rejected call changes nothing: no node has been
compromised, no counter moved, the next step of the history sees the state as it was -/
theorem rejected_add_attacker_changes_nothing (s : St) (nm : String) (id : Option Int) (e r : List Int) :
    ((∃ err, addAttacker s nm id e r = .error err) ↔
      ((getAttackerById s (id.getD s.nextAtt)).isSome = true ∨
        (∃ i ∈ r, getNodeById s i = none) ∨ (∃ i ∈ e, getNodeById s i = none))) ∧
    (∀ err, addAttacker s nm id e r = .error err → applyOp s (.addAttacker nm id e r) = s) := by
  refine ⟨?_, fun err h => by show okOr s (addAttacker s nm id e r) = s; rw [h]; rfl⟩
  rw [addAttacker_eq]
  show _ ↔ ((dget s.attIdx (id.getD s.nextAtt)).isSome = true ∨ _)
  have hall : ∀ l : List Int, l.all (fun i => (getNodeById s i).isSome) = false ↔ ∃ i ∈ l, getNodeById s i = none := by
    intro l
    rw [← Bool.not_eq_true, List.all_eq_true]
    constructor
    · intro h
      refine Classical.byContradiction fun hn => h fun i hi => ?_
      cases hg : getNodeById s i with
      | some v => rfl
      | none => exact absurd ⟨i, hi, hg⟩ hn
    · rintro ⟨i, hi, hg⟩ h
      have := h i hi
      rw [hg] at this; cases this
  by_cases hd : (dget s.attIdx (id.getD s.nextAtt)).isSome = true
  · rw [if_pos hd]; exact ⟨fun _ => Or.inl hd, fun _ => ⟨_, rfl⟩⟩
  rw [if_neg hd]
  cases hr : r.all (fun i => (getNodeById s i).isSome) with
  | false =>
    exact ⟨fun _ => Or.inr (Or.inl ((hall r).1 hr)), fun _ => ⟨.attackGraphException, by simp⟩⟩
  | true =>
    cases he : e.all (fun i => (getNodeById s i).isSome) with
    | false =>
      exact ⟨fun _ => Or.inr (Or.inr ((hall e).1 he)), fun _ => ⟨.attackGraphException, by simp⟩⟩
    | true =>
      refine ⟨fun ⟨err, h⟩ => by simp at h, ?_⟩
      rintro (h | h | h)
      · exact absurd h hd
      · rw [(hall r).2 h] at hr; cases hr
      · rw [(hall e).2 h] at he; cases he

/-- the same object twice: `add_node` / `add_attacker` of an object that is part of the graph is rejected with
`ValueError`, whatever id (and node ids) are passed, and the graph stays as it is -/
theorem add_same_object_twice_rejected (s : St) (h : Consistent s) :
    (∀ r ∈ s.nodes, ∀ id, addNodeObj s r id = .error .valueError ∧ applyOp s (.addNodeObj r id) = s) ∧
    (∀ a ∈ s.attackers, ∀ id e r, addAttackerObj s a id e r = .error .valueError ∧
      applyOp s (.addAttackerObj a id e r) = s) :=
  ⟨fun r hr id => ⟨addNodeObj_member_rejected s r id h hr, applyOp_addNodeObj s r id h⟩,
   fun a ha id e r => ⟨addAttackerObj_member_rejected s a id e r h ha, applyOp_addAttackerObj s a id e r h⟩⟩

/-- … in particular the object that `add_node` / `add_attacker` has just registered -/
theorem add_then_add_again_rejected {s s' : St} (h : Consistent s) :
    (∀ (o : NodeObj) id id', addNode s o.detached id = .ok s' → addNodeObj s' s.nfresh id' = .error .valueError) ∧
    (∀ nm id e r id' e' r', addAttacker s nm id e r = .ok s' →
      addAttackerObj s' s.afresh id' e' r' = .error .valueError) := by
  refine ⟨fun o id id' hok => ?_, fun nm id e r id' e' r' hok => ?_⟩
  · have hc := addNode_consistent h hok
    obtain ⟨_, rfl⟩ := addNode_ok hok
    exact addNodeObj_member_rejected _ _ id' hc (List.mem_append_right _ (List.mem_singleton.2 rfl))
  · have hc := addAttacker_consistent' h hok
    have hm : s.afresh ∈ s'.attackers := by
      rw [addAttacker_eq] at hok
      split at hok
      · cases hok
      split at hok
      · cases hok
      · injection hok with hok
        rw [← hok]
        exact List.mem_append_right _ (List.mem_singleton.2 rfl)
    exact addAttackerObj_member_rejected _ _ id' e' r' hc hm

/-- the defect that b507c7f repaired, on the order of effects the code had before (`addAttackerPreFix`): in the
consistent graph with one node (id 0), `add_attacker(reached_attack_steps = [0, 5])` compromises node 0, then
raises `AttackGraphException` for the unknown id 5 — and leaves node 0 compromised by an attacker that is not
part of the graph: the state after the rejected call is not `Consistent` -/
theorem pre_fix_add_attacker_leaves_stray_attacker :
    let s := applyOp {} (.addNode {} none)
    Consistent s ∧
    (addAttackerPreFix s "a" none [] [0, 5]).2 = some .attackGraphException ∧
    ((addAttackerPreFix s "a" none [] [0, 5]).1.nobj 0).compBy = [0] ∧
    (addAttackerPreFix s "a" none [] [0, 5]).1.attackers = [] ∧
    ¬ Consistent (addAttackerPreFix s "a" none [] [0, 5]).1 ∧
    addAttacker s "a" none [] [0, 5] = .error .attackGraphException := by
  refine ⟨applyOp_consistent _ _ init_consistent, by decide, by decide, by decide, fun h => ?_, rfl⟩
  have := h.comp.compBy_mem 0 (by decide) 0 (by decide)
  revert this; decide

/-- … and the other half of that defect: a call rejected for an id in use had already changed the id of the
attacker object -/
theorem pre_fix_add_attacker_changes_id_of_rejected :
    let s := applyOp {} (.addAttacker "x" none [] [])
    (addAttackerPreFix s "a" (some 0) [] []).2 = some .valueError ∧
    ((addAttackerPreFix s "a" (some 0) [] []).1.aobj 1).id = 0 ∧ (s.aobj 0).id = 0 := by
  decide

theorem removeAttacker_consistent (s : St) (a : Nat) (h : Consistent s) (ha : a ∈ s.attackers) :
    Consistent (removeAttacker s a) := removeAttacker_consistent' s a h ha

theorem compromise_consistent (s : St) (a n : Nat) (h : Consistent s) (ha : a ∈ s.attackers) (hn : n ∈ s.nodes) :
    Consistent (compromise s a n) := compromise_consistent' s a n h ha hn

theorem undo_consistent (s : St) (a n : Nat) (h : Consistent s) (ha : a ∈ s.attackers) (hn : n ∈ s.nodes) :
    Consistent (undo s a n) := undo_consistent' s a n h ha hn

theorem attach_consistent (s s' : St) (atts : List (String × List String)) (h : Consistent s)
    (hok : attach s atts = .ok s') : Consistent s' := attach_consistent' atts s s' h hok

theorem setLabels_consistent (s : St) (lab : List (Nat × Bool × Bool)) (h : Consistent s) :
    Consistent (setLabels s lab) := setLabels_consistent' s lab h

theorem prune_consistent (s : St) (h : Consistent s) : Consistent (prune s) := prune_consistent' s h

/-- one step of a history keeps the invariant -/
theorem applyOp_consistent (s : St) (op : Op) (h : Consistent s) : Consistent (applyOp s op) :=
  AGS.applyOp_consistent s op h

/-- every state reached from the empty graph is consistent -/
theorem reachable_consistent (ops : List Op) : Consistent (ops.foldl applyOp {}) :=
  foldl_applyOp_consistent ops {} init_consistent'

/-- one step keeps the name index exact, if it is not an `add_node` reusing a full name -/
theorem applyOp_namesExact (s : St) (op : Op) (h : Consistent s) (hx : NamesExact s) (hop : op.nameFresh s) :
    NamesExact (applyOp s op) := AGS.applyOp_namesExact s op h hx hop

/-- … hence it is exact after every history whose `add_node` calls use unused full names -/
theorem reachable_namesExact (ops : List Op) (hf : namesFresh {} ops) : NamesExact (ops.foldl applyOp {}) :=
  foldl_applyOp_namesExact ops {} init_consistent' AGS.init_namesExact hf

/-! ### lookups -/

/-- `get_node_by_id` and `get_attacker_by_id` return exactly the objects of the
graph with that id: nothing stale, nothing missing -/
theorem lookup_exact (s : St) (h : Consistent s) :
    (∀ k r, getNodeById s k = some r ↔ (r ∈ s.nodes ∧ (s.nobj r).id = k)) ∧
    (∀ k a, getAttackerById s k = some a ↔ (a ∈ s.attackers ∧ (s.aobj a).id = k)) :=
  ⟨h.idx.id_exact, h.attIdx.id_exact⟩

/-- `get_node_by_full_name` never returns a stale or wrongly named node -/
theorem lookup_name_sound (s : St) (h : Consistent s) (k : String) (r : Nat) (hk : getNodeByName s k = some r) :
    r ∈ s.nodes ∧ fullName (s.nobj r) = k := h.idx.name_sound k r hk

/-- `get_node_by_full_name` is exact — under the extra invariant `NamesExact`
(see `reachable_namesExact`), *not* under `Consistent s ∧ NamesDistinct s` -/
theorem lookup_name_exact_partial (s : St) (hx : NamesExact s) (k : String) (r : Nat) :
    getNodeByName s k = some r ↔ (r ∈ s.nodes ∧ fullName (s.nobj r) = k) := hx k r

theorem namesExact_distinct (s : St) (hx : NamesExact s) : NamesDistinct s := hx.distinct

theorem ids_unique (s : St) (h : Consistent s) :
    (∀ r ∈ s.nodes, ∀ r' ∈ s.nodes, (s.nobj r).id = (s.nobj r').id → r = r') ∧
    (∀ a ∈ s.attackers, ∀ a' ∈ s.attackers, (s.aobj a).id = (s.aobj a').id → a = a') :=
  ⟨fun _ hr _ hr' e => h.idx.ids_unique hr hr' e, fun _ ha _ ha' e => h.attIdx.ids_unique ha ha' e⟩

/-- references handed out are fresh: a new node / attacker is not confused with an old one -/
theorem refs_fresh (s : St) (h : Consistent s) : s.nfresh ∉ s.nodes ∧ s.afresh ∉ s.attackers :=
  ⟨fresh_not_mem s h.nodes, afresh_not_mem s h.attIdx⟩

/-! ### `remove_node` -/

/-- the exact effect of `remove_node` on the rest of the graph -/
theorem removeNode_exact (s : St) (r : Nat) (h : Consistent s) (hr : r ∈ s.nodes) :
    RemovedNode s r (removeNode s r) := removeNode_spec s r h hr

theorem removeNode_leaves_no_trace (s : St) (r : Nat) (h : Consistent s) (hr : r ∈ s.nodes) :
    r ∉ (removeNode s r).nodes ∧
    (∀ p ∈ (removeNode s r).nodes, r ∉ ((removeNode s r).nobj p).children ∧ r ∉ ((removeNode s r).nobj p).parents) ∧
    (∀ a ∈ (removeNode s r).attackers,
        r ∉ ((removeNode s r).aobj a).reached ∧ r ∉ ((removeNode s r).aobj a).entry) ∧
    getNodeById (removeNode s r) (s.nobj r).id = none ∧
    getNodeByName (removeNode s r) (fullName (s.nobj r)) = none := by
  have hs := removeNode_spec s r h hr
  have hc := removeNode_consistent' s r h hr
  have hnot : r ∉ (removeNode s r).nodes := fun hm => ((hs.mem_nodes h.nodes r).1 hm).2 rfl
  refine ⟨hnot, ?_, ?_, ?_, ?_⟩
  · intro p hp
    exact ⟨fun hm => hnot (hc.nodes.children_mem p hp r hm), fun hm => hnot (hc.nodes.parents_mem p hp r hm)⟩
  · intro a ha
    exact ⟨fun hm => hnot (hc.comp.reached_mem a ha r hm), fun hm => hnot (hc.comp.entry_mem a ha r hm)⟩
  · show dget (removeNode s r).idIdx _ = none
    rw [hs.idIdx, dget_ddel, if_pos rfl]
  · show dget (removeNode s r).nameIdx _ = none
    rw [hs.nameIdx, dget_ddel, if_pos rfl]

/-- the other nodes and all attackers stay, in order -/
theorem removeNode_keeps_rest (s : St) (r : Nat) (h : Consistent s) (hr : r ∈ s.nodes) :
    (removeNode s r).nodes = s.nodes.filter (· ≠ r) ∧ (removeNode s r).attackers = s.attackers := by
  have hs := removeNode_spec s r h hr
  exact ⟨by rw [hs.nodes, erase_eq_filter_of_nodup r _ h.nodes.nodup], hs.attackers⟩

/-! ### the hypotheses are satisfiable by non-trivial states -/

/- `Demo.c09Ops`: two linked nodes, one of them compromised by an attacker -/
example : Consistent (Demo.c09Ops.foldl applyOp {}) ∧ NamesExact (Demo.c09Ops.foldl applyOp {}) :=
  ⟨reachable_consistent _, reachable_namesExact _ (by decide)⟩

example : (Demo.c09Ops.foldl applyOp {}).nodes = [0, 1] ∧ (Demo.c09Ops.foldl applyOp {}).attackers = [0] ∧
    ((Demo.c09Ops.foldl applyOp {}).nobj 0).children = [1] ∧ ((Demo.c09Ops.foldl applyOp {}).nobj 1).parents = [0] ∧
    ((Demo.c09Ops.foldl applyOp {}).aobj 0).reached = [0] ∧ ((Demo.c09Ops.foldl applyOp {}).nobj 0).compBy = [0] := by
  decide

/-- counterexample to "`Consistent` and distinct names give an exact name index" (`Demo.staleNameOps`):
the second `add_node` overwrites the name entry, `remove_node` deletes it -/
example : Consistent (Demo.staleNameOps.foldl applyOp {}) ∧ NamesDistinct (Demo.staleNameOps.foldl applyOp {}) ∧
    0 ∈ (Demo.staleNameOps.foldl applyOp {}).nodes ∧
    getNodeByName (Demo.staleNameOps.foldl applyOp {}) (fullName ((Demo.staleNameOps.foldl applyOp {}).nobj 0)) = none := by
  refine ⟨reachable_consistent _, ?_, by decide, by decide⟩
  have e : (Demo.staleNameOps.foldl applyOp {}).nodes = [0] := by decide
  intro r hr r' hr' _
  rw [e, List.mem_singleton] at hr hr'
  rw [hr, hr']

end MalVerif.C09
