import MalVerif.Proofs.AGSerialLemmas
/-!
# C10 — saving and loading an attack graph preserves it

`toDoc` / `fromDoc` (`MalVerif/Model/AGSerial.lean`) model `AttackGraph._to_dict` / `_from_dict`; `jsonRT` and
`yamlRT` are what a JSON file (integer dictionary keys become strings) and a YAML file (PyYAML writes every
mapping with sorted keys) do to the document.

`SameGraph s' s` (`MalVerif/Proofs/AGSerialLemmas.lean`): the node tuples
`(id, name, type, ttc, defense, exist, viable, necessary, mitre, tags, extras)` of `s'` are a permutation of those
of `s`; the edge sets are equal, both as seen from the child lists (`Edge`) and from the parent lists (`PEdge`);
the attackers have the same `(id, name)` pairs and, id by id, the same sets of entry-point ids and reached ids.
`NodeMatch wm o' o` adds the node-by-node view including the asset (`wm` = the model was supplied).

Hypotheses: `Consistent s` (C09) and `NamesExact s` (distinct full names, kept by every history whose `add_node`
calls use unused full names: `C09.reachable_namesExact`) — the file is keyed by full name, see
`names_must_be_distinct` for what happens otherwise.

* `ag_roundtrip`, `ag_roundtrip_json`, `ag_roundtrip_yaml`: loading what was written succeeds, gives the same graph,
  and the loaded graph is `Consistent`.  The JSON statement needs `int(str(n)) = n`, which is proved
  (`key_roundtrip`, from `Int.toInt?_repr`), so it is not `_partial`.
* `bound_to_model`, `tags_are_lists`, `attacker_ids_kept`, `node_attributes_kept`.
* `attacker_keys_distinct` (`attKey_fresh`): the dictionary of attackers loses no attacker.
* stages, for an arbitrary well-formed document (`DocOK`): `nodes_loaded`, `document_loaded`.

What is *not* preserved (by design of the file format, and so not claimed): the multiplicity of a duplicate
edge (written once: `duplicate_edge_collapses`), the order of the nodes (YAML), the object references, the
`compromised_by` lists' order, and — when loading without the model — the asset and hence the full name.
-/
namespace MalVerif.C10
open MalVerif.AGS MalVerif.AGraph
open MalVerif.Ser (Key)

/-! ### ingredients -/

/-- Python `int(str(n)) = n`: an id used as a JSON key is read back -/
theorem key_roundtrip (n : Int) : (Key.s (Key.i n).text).toInt? = some n := toInt_toString n

/-- sorting (what PyYAML does to the keys of a mapping) only permutes -/
theorem isort_is_perm {α : Type} (le : α → α → Bool) (l : List α) : (isort le l).Perm l := isort_perm le l

/-- the key chosen for an attacker is not taken, as long as the fuel exceeds the number of taken keys -/
theorem attKey_is_fresh (taken : List String) (i : Int) (k : Nat) (n : String) (hk : taken.length < k) :
    attKey taken (":" ++ toString i) k n ∉ taken := attKey_fresh taken i k n hk

/-- the attackers are written under pairwise distinct keys: no attacker is lost in the dictionary -/
theorem attacker_keys_distinct (s : St) : ((toDoc s).attackers.map (·.1)).Nodup := toDoc_attacker_keys_nodup s

/-- with distinct full names the file has exactly one entry per node, in order -/
theorem one_step_per_node (s : St) (h : Consistent s) (hx : NamesExact s) :
    (toDoc s).steps = s.nodes.map (fun r => (fullName (s.nobj r), nodeEntry s r)) :=
  toDoc_steps_eq s hx.distinct h.nodes.nodup

/-! ### the round trips -/

/-- the document as written (no file in between) -/
theorem ag_roundtrip (s : St) (wm : Bool) (h : Consistent s) (hx : NamesExact s) :
    ∃ s', fromDoc wm (fun _ => true) (toDoc s) = .ok s' ∧ SameGraph s' s ∧ Consistent s' := by
  obtain ⟨s', h1, h2, h3, _⟩ := roundtrip_of_rep wm h keyPerm_id (rep_toDoc s h hx)
  exact ⟨s', h1, h2, h3⟩

/-- through a JSON file: the id keys of the inner dictionaries come back as strings -/
theorem ag_roundtrip_json (s : St) (wm : Bool) (h : Consistent s) (hx : NamesExact s) :
    ∃ s', fromDoc wm (fun _ => true) (jsonRT (toDoc s)) = .ok s' ∧ SameGraph s' s ∧ Consistent s' := by
  obtain ⟨s', h1, h2, h3, _⟩ := roundtrip_of_rep wm h keyPerm_json (rep_jsonRT (rep_toDoc s h hx))
  exact ⟨s', h1, h2, h3⟩

/-- through a YAML file: steps sorted by full name, attackers by key, the inner id lists by id -/
theorem ag_roundtrip_yaml (s : St) (wm : Bool) (h : Consistent s) (hx : NamesExact s) :
    ∃ s', fromDoc wm (fun _ => true) (yamlRT (toDoc s)) = .ok s' ∧ SameGraph s' s ∧ Consistent s' := by
  obtain ⟨s', h1, h2, h3, _⟩ := roundtrip_of_rep wm h keyPerm_yaml (rep_yamlRT (rep_toDoc s h hx))
  exact ⟨s', h1, h2, h3⟩

/-- every saved node comes back with all its attributes, and nothing else comes back
(`d` is the document as written, or after a JSON or a YAML file) -/
theorem node_attributes_kept (s : St) (wm : Bool) (h : Consistent s) (hx : NamesExact s) (d : AGDoc)
    (hd : d = toDoc s ∨ d = jsonRT (toDoc s) ∨ d = yamlRT (toDoc s)) :
    ∃ s', fromDoc wm (fun _ => true) d = .ok s' ∧
      (∀ r ∈ s.nodes, ∃ r' ∈ s'.nodes, NodeMatch wm (s'.nobj r') (s.nobj r)) ∧
      (∀ r' ∈ s'.nodes, ∃ r ∈ s.nodes, NodeMatch wm (s'.nobj r') (s.nobj r)) := by
  obtain ⟨σ, hσ, hr⟩ := rep_of_format h hx hd
  obtain ⟨s', h1, _, _, h4, h5⟩ := roundtrip_of_rep wm h hσ hr
  exact ⟨s', h1, h4, h5⟩

/-- when the model is supplied every loaded node is bound to the asset (name) it was saved with and has the
same full name; without the model it has no asset and is called `<id>:<name>` -/
theorem bound_to_model (s : St) (wm : Bool) (h : Consistent s) (hx : NamesExact s) (d : AGDoc)
    (hd : d = toDoc s ∨ d = jsonRT (toDoc s) ∨ d = yamlRT (toDoc s)) :
    ∃ s', fromDoc wm (fun _ => true) d = .ok s' ∧
      ∀ r ∈ s.nodes, ∃ r' ∈ s'.nodes, (s'.nobj r').id = (s.nobj r).id ∧
        (s'.nobj r').asset = (if wm then (s.nobj r).asset else none) ∧
        fullName (s'.nobj r') =
          (if wm then fullName (s.nobj r) else toString (s.nobj r).id ++ ":" ++ (s.nobj r).name) := by
  obtain ⟨s', h1, h2, _⟩ := node_attributes_kept s wm h hx d hd
  refine ⟨s', h1, fun r hr => ?_⟩
  obtain ⟨r', hr', hm⟩ := h2 r hr
  refine ⟨r', hr', hm.id, hm.asset, ?_⟩
  cases wm with
  | true => exact fullName_congr hm.id hm.name hm.asset
  | false =>
    have ha : (s'.nobj r').asset = none := hm.asset
    unfold fullName
    rw [ha, hm.id, hm.name]
    rfl

/-- the tags come back as the same list of strings -/
theorem tags_are_lists (s : St) (wm : Bool) (h : Consistent s) (hx : NamesExact s) (d : AGDoc)
    (hd : d = toDoc s ∨ d = jsonRT (toDoc s) ∨ d = yamlRT (toDoc s)) :
    ∃ s', fromDoc wm (fun _ => true) d = .ok s' ∧
      ∀ r ∈ s.nodes, ∃ r' ∈ s'.nodes, (s'.nobj r').id = (s.nobj r).id ∧ (s'.nobj r').tags = (s.nobj r).tags ∧
        (s'.nobj r').suppress = (s.nobj r).tags.contains "suppress" := by
  obtain ⟨s', h1, h2, _⟩ := node_attributes_kept s wm h hx d hd
  refine ⟨s', h1, fun r hr => ?_⟩
  obtain ⟨r', hr', hm⟩ := h2 r hr
  exact ⟨r', hr', hm.id, hm.tags, hm.suppress⟩

/-- every attacker comes back under its own id (0 included), with its name, and no other attacker appears;
`get_attacker_by_id` finds it -/
theorem attacker_ids_kept (s : St) (wm : Bool) (h : Consistent s) (hx : NamesExact s) (d : AGDoc)
    (hd : d = toDoc s ∨ d = jsonRT (toDoc s) ∨ d = yamlRT (toDoc s)) :
    ∃ s', fromDoc wm (fun _ => true) d = .ok s' ∧
      (∀ a ∈ s.attackers, ∃ a' ∈ s'.attackers, getAttackerById s' (s.aobj a).id = some a' ∧
        (s'.aobj a').id = (s.aobj a).id ∧ (s'.aobj a').name = (s.aobj a).name ∧
        (∀ i, i ∈ entryIds s' a' ↔ i ∈ entryIds s a) ∧ (∀ i, i ∈ reachedIds s' a' ↔ i ∈ reachedIds s a)) ∧
      s'.attackers.length = s.attackers.length := by
  obtain ⟨σ, hσ, hr⟩ := rep_of_format h hx hd
  obtain ⟨s', h1, hsg, hc, _⟩ := roundtrip_of_rep wm h hσ hr
  refine ⟨s', h1, fun a ha => ?_, by simpa using hsg.attackers.length_eq⟩
  have hm : ((s.aobj a).id, (s.aobj a).name) ∈ s'.attackers.map (fun a => ((s'.aobj a).id, (s'.aobj a).name)) :=
    hsg.attackers.mem_iff.2 (List.mem_map.2 ⟨a, ha, rfl⟩)
  obtain ⟨a', ha', e⟩ := List.mem_map.1 hm
  have e1 : (s'.aobj a').id = (s.aobj a).id := congrArg Prod.fst e
  have e2 : (s'.aobj a').name = (s.aobj a).name := congrArg Prod.snd e
  obtain ⟨e3, e4⟩ := hsg.att_sets a' ha' a ha e1
  exact ⟨a', ha', (hc.attIdx.id_exact _ a').2 ⟨ha', e1⟩, e1, e2, e3, e4⟩

/-! ### stages: loading an arbitrary well-formed document -/

/-- stage 1: for a document whose step ids are pairwise distinct the node-creation fold succeeds and creates
one node per entry, in the order of the file, with the id and the attributes of the entry -/
theorem nodes_loaded (wm : Bool) (d : AGDoc) (hid : (d.steps.map (·.2.id)).Nodup) :
    ∃ s1, d.steps.foldlM (loadNode wm (fun _ => true)) {} = .ok s1 ∧ Consistent s1 ∧
      s1.nodes = List.range d.steps.length ∧
      ∀ i (hi : i < d.steps.length), s1.nobj i = { entryObj wm d.steps[i].2 with id := d.steps[i].2.id } := by
  obtain ⟨s1, h1, hN⟩ := nodes_loaded_aux wm d.steps [] {} (nodesLoaded_init wm)
    (by rw [List.nil_append, List.map_map]; exact hid)
  rw [List.nil_append] at hN
  refine ⟨s1, h1, hN.cons, by simpa using hN.nodes, fun i hi => ?_⟩
  have := hN.nobj i (by simpa using hi)
  simpa using this

/-- stages 2–4: loading a well-formed document (`DocOK`: distinct ids, id lists that are numbers without
repetition and name entries of the document, children and parents mirror each other) succeeds; node `i` is
the i-th step with exactly the listed children and parents (by id, in the order of the file), attacker `j` is
the j-th attacker entry; the result is `Consistent` -/
theorem document_loaded (wm : Bool) (d : AGDoc) (hd : DocOK d) :
    ∃ s', fromDoc wm (fun _ => true) d = .ok s' ∧ Loaded wm (d.steps.map (·.2)) (d.attackers.map (·.2)) s' :=
  fromDoc_ok wm d hd

/-- the edges of a loaded document are the listed ones (`edges_loaded`) -/
theorem edges_loaded (wm : Bool) (d : AGDoc) (s' : St)
    (hl : Loaded wm (d.steps.map (·.2)) (d.attackers.map (·.2)) s') (i j : Int) :
    (Edge s' i j ↔ ∃ e ∈ d.steps.map (·.2), e.id = i ∧ j ∈ kints e.children) ∧
    (PEdge s' i j ↔ ∃ e ∈ d.steps.map (·.2), e.id = j ∧ i ∈ kints e.parents) :=
  ⟨hl.edge i j, hl.pedge i j⟩

/-- the attackers of a loaded document are the listed ones (`attackers_loaded`) -/
theorem attackers_loaded (wm : Bool) (d : AGDoc) (s' : St)
    (hl : Loaded wm (d.steps.map (·.2)) (d.attackers.map (·.2)) s') :
    s'.attackers = List.range d.attackers.length ∧
    ∀ j (hj : j < d.attackers.length), (s'.aobj j).id = d.attackers[j].2.id ∧
      (s'.aobj j).name = d.attackers[j].2.name ∧ entryIds s' j = kints d.attackers[j].2.entry ∧
      (∀ i, i ∈ reachedIds s' j ↔ i ∈ kints d.attackers[j].2.reached) := by
  refine ⟨by simpa using hl.attackers, fun j hj => ?_⟩
  have := hl.att j (by simpa using hj)
  simpa using this

/-- what a graph writes is well formed, in each of the three formats -/
theorem written_document_ok (s : St) (h : Consistent s) (hx : NamesExact s) :
    DocOK (toDoc s) ∧ DocOK (jsonRT (toDoc s)) ∧ DocOK (yamlRT (toDoc s)) :=
  ⟨rep_docOK h keyPerm_id (rep_toDoc s h hx), rep_docOK h keyPerm_json (rep_jsonRT (rep_toDoc s h hx)),
   rep_docOK h keyPerm_yaml (rep_yamlRT (rep_toDoc s h hx))⟩

/-! ### the statements are about non-trivial graphs, and the hypotheses are needed -/

/- `Demo.c10G`: four nodes with tags, extras, MITRE info, a TTC, defense / existence status, analysis results,
a cycle, a self-loop, a duplicate edge, a pruned node; two attackers called "eve", one with id 0 -/
example : Consistent Demo.c10G ∧ NamesExact Demo.c10G :=
  ⟨foldl_applyOp_consistent _ {} init_consistent',
   foldl_applyOp_namesExact _ {} init_consistent' init_namesExact (by decide +kernel)⟩

example : Demo.c10G.nodes = [0, 1, 2, 3] ∧ Demo.c10G.attackers = [0, 1] ∧ (Demo.c10G.nobj 0).children = [1, 1] ∧
    (Demo.c10G.nobj 1).children = [0, 1] ∧ (Demo.c10G.aobj 0).id = 0 ∧ (Demo.c10G.aobj 0).reached = [1, 0] ∧
    (toDoc Demo.c10G).steps.map (·.1) = ["h:b", "h:a", "g:d", "g:e"] ∧
    (toDoc Demo.c10G).attackers.map (·.1) = ["eve", "eve:1"] := by decide +kernel

/-- YAML, with the model: the nodes come back in the order of their full names, with their assets -/
example : (fromDoc true (fun _ => true) (yamlRT (toDoc Demo.c10G))).toOption.map Demo.summary = some
    ([⟨7, "d", .defense, "null", some "1.0", none, false, false, none, [], "{}", [1], [], some "g"⟩,
      ⟨8, "e", .exist, "null", none, some true, true, true, none, [], "{}", [0], [], some "g"⟩,
      ⟨1, "a", .and, "{\"type\": \"function\"}", none, none, true, true, none, [], "{}", [0, 1], [0, 1, 7], some "h"⟩,
      ⟨0, "b", .or, "null", none, none, true, true, some "T1", ["t", "u"], "{\"k\": 1}", [1], [1, 8], some "h"⟩],
     [⟨0, "eve", [1], [0, 1]⟩, ⟨1, "eve", [0], [0]⟩]) := by decide +kernel

/-- without the model (document as written): same order, no assets -/
example : (fromDoc false (fun _ => true) (toDoc Demo.c10G)).toOption.map Demo.summary = some
    ([⟨0, "b", .or, "null", none, none, true, true, some "T1", ["t", "u"], "{\"k\": 1}", [1], [1, 8], none⟩,
      ⟨1, "a", .and, "{\"type\": \"function\"}", none, none, true, true, none, [], "{}", [0, 1], [0, 1, 7], none⟩,
      ⟨7, "d", .defense, "null", some "1.0", none, false, false, none, [], "{}", [1], [], none⟩,
      ⟨8, "e", .exist, "null", none, some true, true, true, none, [], "{}", [0], [], none⟩],
     [⟨0, "eve", [1], [1, 0]⟩, ⟨1, "eve", [0], [0]⟩]) := by decide +kernel

/-- JSON (the kernel does not evaluate `String.toInt?`, so this instance is obtained from the theorem) -/
example : ∃ s', fromDoc false (fun _ => true) (jsonRT (toDoc Demo.c10G)) = .ok s' ∧ SameGraph s' Demo.c10G ∧
    Consistent s' :=
  ag_roundtrip_json Demo.c10G false (foldl_applyOp_consistent _ {} init_consistent')
    (foldl_applyOp_namesExact _ {} init_consistent' init_namesExact (by decide +kernel))

/-- a duplicate edge is written once: the loaded graph has the same edge *set*, not the same child list -/
theorem duplicate_edge_collapses :
    childIds Demo.c10G 0 = [1, 1] ∧
    (fromDoc true (fun _ => true) (toDoc Demo.c10G)).toOption.map (fun s' => childIds s' 0) = some [1] := by
  decide +kernel

/-- `NamesExact` cannot be dropped: two nodes with the same full name share one entry of the file, and only the
second one comes back -/
theorem names_must_be_distinct :
    Consistent Demo.c10Clash ∧ Demo.c10Clash.nodes.length = 2 ∧
    (fromDoc true (fun _ => true) (toDoc Demo.c10Clash)).toOption.map (fun s' => s'.nodes.map (fun r => (s'.nobj r).id)) =
      some [1] :=
  ⟨foldl_applyOp_consistent _ {} init_consistent', by decide +kernel, by decide +kernel⟩

end MalVerif.C10
