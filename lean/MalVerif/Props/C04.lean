import MalVerif.Proofs.ParseFuel
import MalVerif.Proofs.LexRender
import MalVerif.Proofs.PrintLexable
import MalVerif.Proofs.ParseComplete
/-!
# C04 — the compiler's output is the language the source text denotes

The model: `Model/Compiler/Token.lean` (lexer), `Parser.lean` (one function per rule of `mal.g4`, each building
what `malVisitor` builds), `Printer.lean` (`prExpr`, `prTtc`, `prStep`, `prAsset`, `prAssoc`, `prSpec`: a
specification as a token sequence with minimal parentheses, as `harness/malsrc.py` prints it).  Everything here
is at the level of tokens; identifiers, numbers and strings are arbitrary `String`s carried by their tokens.

* **Round trip** `compile (print s) = s`: `parse_print_expr_nav`, `parse_print_expr_reach` (and the general
  `parse_print_expr`, `parse_print_expr_any`, `cls_necessary`: the exact class of expressions that come back
  unchanged), `parse_print_exprlist`, `parse_print_ttc`, `parse_print_mult`, `parse_print_step`,
  `parse_print_asset`, `parse_print_assoc`, `parse_print_decl_*`, `parse_print_consumed` (the printed tokens are
  consumed completely: the compiler requires `EOF` after the last declaration), `parse_print` (whole file: `parseMal`
  then the assembly of `visitMal`), `compile_print` (through `compileFile`, given that the text lexes to the printed tokens).
  Fuel: twice the number of tokens (+2) always suffices; `parseMal` supplies `2 * length + 8`.
* **Precedence / associativity**: `shape_collect_left`, `shape_setops_left`, `dot_binds_tighter`,
  `star_and_type_bind_to_part`, `ttc_left_assoc`, `ttc_precedence`.
* **Classification** (`_resolve_part_ID_type`): `classify_last`; `cls reach d e` is the classification the
  compiler arrives at for an expression followed by tokens with `dotAhead = d`.
* **Multiplicities**: `mult_normalise`.
* **Includes / de-duplication** with Python's `==` (`dedupBy`, `metaEqv`: the order of meta entries is irrelevant,
  numbers are floats): `include_flatten`, `include_repeat`, `dedup_spec`, `metaEqv_swap`, `metaEqv_refl`,
  `dedup_merges_meta_order`, `dedup_merges_number_spelling`.
* **Text**: `lex_render_partial`, `compile_render_print`; from conditions on the names and literals of the
  specification alone (`NamesLexable`, decided by `namesLexableB`): `prSpec_lexable`, `compile_render_print_names`.
* **Fuel**: `fuel_mono` (TTC parsers, `parseArgs`, `parseCias`), `fuel_mono_partial` (all others, with fuel at
  least three times the input); unconditional monotonicity is false for them (`fuel_mono_fails`).
-/
namespace MalVerif.C04
open MalVerif MalVerif.Mal

/-! ### 1. fuel -/

/-- the parsers that fail when the fuel runs out are monotone in the fuel -/
theorem fuel_mono (f : Nat) :
    (∀ ts r, parseArgs f ts = some r → parseArgs (f+1) ts = some r) ∧
    (∀ acc ts r, parseCias f acc ts = some r → parseCias (f+1) acc ts = some r) ∧
    (∀ ts r, parseTtcAtom f ts = some r → parseTtcAtom (f+1) ts = some r) ∧
    (∀ ts r, parseTtcFact f ts = some r → parseTtcFact (f+1) ts = some r) ∧
    (∀ acc ts r, parseTtcTermLoop f acc ts = some r → parseTtcTermLoop (f+1) acc ts = some r) ∧
    (∀ ts r, parseTtcTerm f ts = some r → parseTtcTerm (f+1) ts = some r) ∧
    (∀ acc ts r, parseTtcExprLoop f acc ts = some r → parseTtcExprLoop (f+1) acc ts = some r) ∧
    (∀ ts r, parseTtcExpr f ts = some r → parseTtcExpr (f+1) ts = some r) :=
  ⟨parseArgs_mono f, parseCias_mono f, ttc_mono f⟩

/-- `parseTypes`, `parseTags`, `parseMetas` return what they have when the fuel runs out: every function that uses
them is *not* monotone for small fuel.  Smallest counterexample: `a [ T ]` with fuel 3 and 4. -/
theorem fuel_mono_fails :
    parseExpr 3 false [.id "a", .lsquare, .id "T", .rsquare] = some (.field "a", [.lsquare, .id "T", .rsquare]) ∧
    parseExpr 4 false [.id "a", .lsquare, .id "T", .rsquare] = some (.sub "T" (.field "a"), []) := by decide

/-- with fuel at least three times the input (plus a constant) one more unit changes nothing (expressions: the
result is the same, success or failure) -/
theorem fuel_mono_partial (f : Nat) :
    (∀ reach ts, 3 * ts.length + 1 ≤ f → parsePart (f+1) reach ts = parsePart f reach ts) ∧
    (∀ reach acc ts, 3 * ts.length + 1 ≤ f → parsePartsLoop (f+1) reach acc ts = parsePartsLoop f reach acc ts) ∧
    (∀ reach ts, 3 * ts.length + 2 ≤ f → parseParts (f+1) reach ts = parseParts f reach ts) ∧
    (∀ reach acc ts, 3 * ts.length + 1 ≤ f → parseExprLoop (f+1) reach acc ts = parseExprLoop f reach acc ts) ∧
    (∀ reach ts, 3 * ts.length + 3 ≤ f → parseExpr (f+1) reach ts = parseExpr f reach ts) ∧
    (∀ reach ts, 3 * ts.length + 4 ≤ f → parseExprList (f+1) reach ts = parseExprList f reach ts) :=
  ⟨(expr_stable f).1, (expr_stable f).2.1, (expr_stable f).2.2.1, (expr_stable f).2.2.2.1, (expr_stable f).2.2.2.2,
   fun reach ts h => parseExprList_stable f reach ts h⟩

/-- … and a successful parse of a step, asset, association or declaration stays the same -/
theorem fuel_mono_decl_partial (f : Nat) :
    (∀ ts r, 3 * ts.length + 4 ≤ f → parseStep f ts = some r → parseStep (f+1) ts = some r) ∧
    (∀ vs ss ts r, 3 * ts.length + 5 ≤ f → parseAssetBody f vs ss ts = some r → parseAssetBody (f+1) vs ss ts = some r) ∧
    (∀ cat ts r, 3 * ts.length + 4 ≤ f → parseAsset f cat ts = some r → parseAsset (f+1) cat ts = some r) ∧
    (∀ cat acc ts r, 3 * ts.length + 5 ≤ f → parseAssets f cat acc ts = some r → parseAssets (f+1) cat acc ts = some r) ∧
    (∀ ts r, ts.length ≤ 4 * f + 13 → parseAssociation f ts = some r → parseAssociation (f+1) ts = some r) ∧
    (∀ acc ts r, ts.length ≤ 4 * f → parseAssociationsBody f acc ts = some r →
      parseAssociationsBody (f+1) acc ts = some r) ∧
    (∀ ts r, 3 * ts.length + 5 ≤ f → parseDecl f ts = some r → parseDecl (f+1) ts = some r) ∧
    (∀ acc ts ds, 3 * ts.length + 6 ≤ f → parseDecls f acc ts = some ds → parseDecls (f+1) acc ts = some ds) :=
  ⟨fun ts r h => parseStep_mono_partial f ts r h, fun vs ss ts r h => parseAssetBody_mono_partial f vs ss ts r h,
   fun cat ts r h => parseAsset_mono_partial f cat ts r h, fun cat acc ts r h => parseAssets_mono_partial f cat acc ts r h,
   fun ts r h => parseAssociation_mono_partial f ts r h, fun acc ts r h => parseAssociationsBody_mono_partial f acc ts r h,
   fun ts r h => parseDecl_mono_partial f ts r h, fun acc ts ds h => parseDecls_mono_partial f acc ts ds h⟩

/-- hence any two adequate amounts of fuel give the same result -/
theorem fuel_irrelevant_expr (f g : Nat) (reach : Bool) (ts : List Tok) (hf : 3 * ts.length + 3 ≤ f) (hg : f ≤ g) :
    parseExpr g reach ts = parseExpr f reach ts := parseExpr_fuel_irrelevant f g reach ts hf hg

/-! ### 2. step expressions -/

/-- the general round trip: `e` classified as the compiler classifies (`cls`), followed by nothing that would
continue the expression (`.` `*` `[` `(` `\/` `/\` `-`) -/
theorem parse_print_expr (e : Expr) (f : Nat) (reach : Bool) (rest : List Tok)
    (hc : cls reach (dotAhead rest) e = true) (hr : headP contExpr rest = false)
    (hf : 2 * (prExpr 0 false e).length + 1 ≤ f) :
    parseExpr f reach (prExpr 0 false e ++ rest) = some (e, rest) := parseExpr_prExpr e f reach rest hc hr hf

/-- what the compiler makes of the printed form of *any* expression: the same tree, names re-classified -/
theorem parse_print_expr_any (e : Expr) (f : Nat) (reach : Bool) (rest : List Tok)
    (hr : headP contExpr rest = false) (hf : 2 * (prExpr 0 false e).length + 1 ≤ f) :
    parseExpr f reach (prExpr 0 false e ++ rest) = some (relabel reach (dotAhead rest) e, rest) :=
  parseExpr_prExpr_any e f reach rest hr hf

/-- `cls` is exactly the class of expressions that come back unchanged -/
theorem cls_necessary (e : Expr) (f : Nat) (reach : Bool) (rest : List Tok)
    (hr : headP contExpr rest = false) (hf : 2 * (prExpr 0 false e).length + 1 ≤ f)
    (h : parseExpr f reach (prExpr 0 false e ++ rest) = some (e, rest)) : cls reach (dotAhead rest) e = true := by
  rw [parse_print_expr_any e f reach rest hr hf] at h
  simp only [Option.some.injEq, Prod.mk.injEq, and_true] at h
  exact (cls_iff_relabel reach _ e).mpr h

/-- outside reaches clauses (`let`, requires): every expression without attack steps -/
theorem parse_print_expr_nav (e : Expr) (he : WFExprNav e) (f : Nat) (rest : List Tok)
    (hr : headP contExpr rest = false) (hf : 2 * (prExpr 0 false e).length + 1 ≤ f) :
    parseExpr f false (prExpr 0 false e ++ rest) = some (e, rest) :=
  parseExpr_prExpr e f false rest (cls_false_of_noStep _ e he) hr hf

/-- inside a reaches clause, when a DOT follows before the next COMMA / end of the clause: every name is a field -/
theorem parse_print_expr_nav_reach (e : Expr) (he : WFExprNav e) (f : Nat) (rest : List Tok)
    (hd : dotAhead rest = true) (hr : headP contExpr rest = false) (hf : 2 * (prExpr 0 false e).length + 1 ≤ f) :
    parseExpr f true (prExpr 0 false e ++ rest) = some (e, rest) :=
  parseExpr_prExpr e f true rest (by rw [hd]; exact cls_dot_of_noStep e he) hr hf

/-- inside a reaches clause, followed by a COMMA or the end of the clause: the last name is the attack step, every
other name a field -/
theorem parse_print_expr_reach (e : Expr) (he : WFExprReach e) (f : Nat) (rest : List Tok)
    (hd : dotAhead rest = false) (hr : headP contExpr rest = false) (hf : 2 * (prExpr 0 false e).length + 1 ≤ f) :
    parseExpr f true (prExpr 0 false e ++ rest) = some (e, rest) :=
  parseExpr_prExpr e f true rest (by rw [hd]; exact cls_of_wfExprReach he) hr hf

/-- `dotAhead` is false at a COMMA, at the end of the clause (next step, `let`, `}`) and at the end of the input -/
theorem dotAhead_false_at_clause_end (rest : List Tok) (h : clauseEnd rest = true ∨ ∃ r, rest = .comma :: r) :
    dotAhead rest = false := by
  rcases h with h | ⟨r, rfl⟩
  · exact clauseEnd_dotAhead rest h
  · rfl

/-- whatever the labels of `nav . n` were: the compiler makes the last name the attack step and all names of
`nav` fields -/
theorem classify_last (nav : Expr) (n : String) (f : Nat) (rest : List Tok)
    (hd : dotAhead rest = false) (hr : headP contExpr rest = false)
    (hf : 2 * (prExpr 0 false (.collect nav (.field n))).length + 1 ≤ f) :
    parseExpr f true (prExpr 0 false (.collect nav (.field n)) ++ rest) =
      some (.collect (relabel true true nav) (.step n), rest) ∧ WFExprNav (relabel true true nav) := by
  refine ⟨?_, noStep_relabel_dot nav⟩
  rw [parse_print_expr_any _ f true rest hr hf, hd]
  rfl

/-- comma-separated lists: every expression but the last is followed by a COMMA -/
theorem parse_print_exprlist (es : List Expr) (hne : es ≠ []) (f : Nat) (reach : Bool) (rest : List Tok)
    (hc : clsList reach (dotAhead rest) es = true) (hr : headP contList rest = false)
    (hf : 2 * (prExprList es).length + 2 ≤ f) :
    parseExprList f reach (prExprList es ++ rest) = some (es, rest) :=
  parseExprList_prExprList es hne f reach rest hc hr hf

/-- `a.b.c ↦ collect (collect a b) c` -/
theorem shape_collect_left (a b c : String) :
    parseExpr 9 false [.id a, .dot, .id b, .dot, .id c] =
      some (.collect (.collect (.field a) (.field b)) (.field c), []) := rfl

/-- the three set operators share one level and associate to the left: `a \/ b - c /\ d ↦ ((a ∪ b) − c) ∩ d` -/
theorem shape_setops_left (a b c d : String) :
    parseExpr 12 false [.id a, .union, .id b, .minus, .id c, .intersect, .id d] =
      some (.inter (.diff (.union (.field a) (.field b)) (.field c)) (.field d), []) := rfl

/-- `a \/ b.c ↦ a ∪ (b.c)` and `a.b \/ c ↦ (a.b) ∪ c` -/
theorem dot_binds_tighter (a b c : String) :
    parseExpr 9 false [.id a, .union, .id b, .dot, .id c] =
      some (.union (.field a) (.collect (.field b) (.field c)), []) ∧
    parseExpr 9 false [.id a, .dot, .id b, .union, .id c] =
      some (.union (.collect (.field a) (.field b)) (.field c), []) := ⟨rfl, rfl⟩

/-- `a.b*[T] ↦ a.((b*)[T])`; a parenthesis makes the whole chain the operand: `(a.b)*[T]` -/
theorem star_and_type_bind_to_part (a b t : String) :
    parseExpr 12 false [.id a, .dot, .id b, .star, .lsquare, .id t, .rsquare] =
      some (.collect (.field a) (.sub t (.trans (.field b))), []) ∧
    parseExpr 14 false [.lparen, .id a, .dot, .id b, .rparen, .star, .lsquare, .id t, .rsquare] =
      some (.sub t (.trans (.collect (.field a) (.field b))), []) := ⟨rfl, rfl⟩

/-- a redundant parenthesis around a complete expression changes nothing (the harness's re-formatted variant):
whatever `pre` means in front of `)`, `( pre )` means the same (`DExpr`: the grammar with the visitor's values,
`Spec/MalGrammar.lean`; the parser accepts exactly the grammar, C17 `parse_exact`) -/
theorem redundant_parentheses (reach : Bool) (pre rest : List Tok) (e : Expr)
    (h : DExpr reach pre (.rparen :: rest) e) (hr : headP contExpr rest = false) (f : Nat)
    (hf : 2 * pre.length + 5 ≤ f) :
    parseExpr f reach (.lparen :: (pre ++ .rparen :: rest)) = some (e, rest) := by
  have hd : DExpr reach (.lparen :: (pre ++ .rparen :: [])) rest e :=
    .one (.one (.paren (suf := []) (by simpa using h) (.plain .nil)))
  have := parseExpr_complete reach _ rest e hd hr f (by simp; omega)
  simpa using this

/-- the printer puts parentheses exactly where the tree is not left-nested -/
example : prExpr 0 false (.collect (.field "a") (.collect (.field "b") (.field "c"))) =
    [.id "a", .dot, .lparen, .id "b", .dot, .id "c", .rparen] := rfl
example : prExpr 0 false (.inter (.field "a") (.union (.field "b") (.field "c"))) =
    [.id "a", .intersect, .lparen, .id "b", .union, .id "c", .rparen] := rfl
example : prExpr 0 false (.trans (.trans (.field "a"))) = [.lparen, .id "a", .star, .rparen, .star] := rfl

/-- in a reaches clause: `a.b \/ c.d` — `b` is followed by a DOT later in the clause and is classified as a field
(the behaviour of `_resolve_part_ID_type`) -/
example : parseExpr 20 true [.id "a", .dot, .id "b", .union, .id "c", .dot, .id "d", .comma] =
    some (.union (.collect (.field "a") (.field "b")) (.collect (.field "c") (.step "d")), [.comma]) := by decide

/-! ### 3. TTC expressions -/

/-- `wfTtc`: the operators are the five the compiler produces -/
theorem parse_print_ttc (t : TTC) (hw : wfTtc t = true) (f : Nat) (rest : List Tok)
    (hr : headP contTExpr rest = false) (hf : 2 * (prTtc 0 false t).length + 2 ≤ f) :
    parseTtcExpr f (prTtc 0 false t ++ rest) = some (t, rest) := parseTtcExpr_prTtc t hw f rest hr hf

/-- `a * 3 / 4 ↦ (a * 3) / 4`, `a - 3 + 4 ↦ (a - 3) + 4` -/
theorem ttc_left_assoc (a x y : String) :
    parseTtcExpr 12 [.id a, .star, .int x, .divide, .int y] =
      some (.bin "division" (.bin "multiplication" (.func a []) (.num x)) (.num y), []) ∧
    parseTtcExpr 12 [.id a, .minus, .int x, .plus, .int y] =
      some (.bin "addition" (.bin "subtraction" (.func a []) (.num x)) (.num y), []) := ⟨rfl, rfl⟩

/-- `^` over `* /` over `+ -`: `a + b * c ^ d ↦ a + (b * (c ^ d))` -/
theorem ttc_precedence (a b c d : String) :
    parseTtcExpr 16 [.id a, .plus, .id b, .star, .id c, .power, .id d] =
      some (.bin "addition" (.func a []) (.bin "multiplication" (.func b [])
        (.bin "exponentiation" (.func c []) (.func d []))), []) := rfl

/-- both operands of `^` are atoms: the printer parenthesises them, and `a ^ b ^ c` is not in the language -/
example : prTtc 0 false (.bin "exponentiation" (.bin "exponentiation" (.func "a" []) (.func "b" [])) (.func "c" [])) =
    [.lparen, .id "a", .power, .id "b", .rparen, .power, .id "c"] := by decide
example : parseTtcExpr 20 [.id "a", .power, .id "b", .power, .id "c", .rsquare] =
    some (.bin "exponentiation" (.func "a" []) (.func "b" []), [.power, .id "c", .rsquare]) := by decide

/-! ### 4. multiplicities -/

/-- the five source forms -/
theorem mult_normalise (n m : Nat) (rest : List Tok) (hr : headP (· == .range) rest = false) :
    parseMult (.int "1" :: rest) = some ((1, some 1), rest) ∧
    parseMult (.star :: rest) = some ((0, none), rest) ∧
    parseMult (.int "0" :: .range :: .int "1" :: rest) = some ((0, some 1), rest) ∧
    parseMult (.int "1" :: .range :: .star :: rest) = some ((1, none), rest) ∧
    parseMult (natTok n :: .range :: natTok m :: rest) = some ((n, some m), rest) := by
  have h0 : atomTok (.int "0") = some (some 0) := atomTok_natTok 0
  have h1 : atomTok (.int "1") = some (some 1) := atomTok_natTok 1
  refine ⟨?_, ?_, ?_, ?_, ?_⟩
  · rw [parseMult_single _ _ hr, h1]; rfl
  · rw [parseMult_single _ _ hr]; rfl
  · exact parseMult_range _ _ _ (some 0) (some 1) h0 h1
  · exact parseMult_range _ _ _ (some 1) none h1 rfl
  · exact parseMult_range _ _ _ (some n) (some m) (atomTok_natTok n) (atomTok_natTok m)

theorem parse_print_mult (lo : Nat) (hi : Option Nat) (rest : List Tok) (hr : headP (· == .range) rest = false) :
    parseMult (prMult lo hi ++ rest) = some ((lo, hi), rest) := parseMult_prMult lo hi rest hr

/-! ### 5. steps, assets, associations, declarations, files -/

/-- a step followed by the next step, `let`, `}` or nothing -/
theorem parse_print_step (s : CStep) (hw : WFStep s) (f : Nat) (rest : List Tok) (hr : clauseEnd rest = true)
    (hf : 2 * (prStep s).length + 2 ≤ f) : parseStep f (prStep s ++ rest) = some (s, rest) :=
  parseStep_prStep s hw f rest hr hf

theorem parse_print_asset (a : CAsset) (hw : WFAsset a) (f : Nat) (rest : List Tok)
    (hf : 2 * (prAsset a).length + 1 ≤ f) : parseAsset f a.category (prAsset a ++ rest) = some (a, rest) :=
  parseAsset_prAsset a hw f rest hf

/-- an association followed by the next association or `}` (anything that does not start a meta) -/
theorem parse_print_assoc (a : CAssoc) (hw : WFAssoc a) (f : Nat) (rest : List Tok)
    (hr : metaStart rest = false) (hf : a.metaD.length ≤ f) :
    parseAssociation f (prAssoc a ++ rest) = some (a, rest) := parseAssociation_prAssoc a hw f rest hr hf

theorem parse_print_decl_define (f : Nat) (k v : String) (hq : noQuote v) (rest : List Tok) :
    parseDecl f (prDefines [(k, v)] ++ rest) = some (.define k v, rest) := parseDecl_prDefine f k v hq rest

theorem parse_print_decl_category (n : String) (m : Meta) (as : List CAsset) (hm : WFMeta m)
    (hc : ∀ a ∈ as, a.category = n) (hw : ∀ a ∈ as, WFAsset a) (f : Nat) (rest : List Tok)
    (hf : 2 * (prCategory n m as).length + 1 ≤ f) :
    parseDecl f (prCategory n m as ++ rest) = some (.category n m as, rest) :=
  parseDecl_prCategory n m as hm hc hw f rest hf

theorem parse_print_decl_associations (as : List CAssoc) (hw : ∀ a ∈ as, WFAssoc a) (f : Nat) (rest : List Tok)
    (hf : (prAssocs as).length + 1 ≤ f) :
    parseDecl f (.kwAssociations :: .lcurly :: (prAssocs as ++ .rcurly :: rest)) = some (.associations as, rest) :=
  parseDecl_prAssociations as hw f rest hf

/-- the printed specification is consumed completely by `parser.mal()`: its declarations come back and no token is
left in the stream — so it passes the compiler's `EOF` check (`parseMal`, since e0054c2; `Props/C17.lean`) -/
theorem parse_print_consumed (s : CSpec) (hw : WFSpec s) : parseMalRest (prSpec s) = some (declsOf s, []) :=
  parseMalRest_prSpec s hw

theorem parse_print_decls (s : CSpec) (hw : WFSpec s) : parseMal (prSpec s) = some (declsOf s) :=
  parseMal_prSpec s hw

/-- **compile (print s) = s** at the level of tokens: the printed specification parses (with the fuel `parseMal`
supplies; the whole token list, nothing left over) to its declarations, and assembling them (`visitMal`: defines, categories, assets, associations,
de-duplication) gives the specification.  `WFSpec`: distinct define / meta keys, strings without quotes, the five
step types, operators and risk flags the compiler can produce, non-empty requires / reaches lists classified as
the compiler classifies, no two categories / assets / associations that are equal for Python's `==` (`catEqv`,
`assetEqv`, `assocEqv`: up to the order of meta entries and the spelling of numbers — the compiler merges those),
assets listed category by category. -/
theorem parse_print (s : CSpec) (hw : WFSpec s) (inc : String → Option CSpec) :
    (parseMal (prSpec s)).bind (assemble inc) = some s := by
  rw [parseMal_prSpec s hw]
  exact assemble_declsOf inc s hw

/-- through `compileFile`: a file whose text lexes to the printed tokens compiles to the specification -/
theorem compile_print (files : String → Option String) (f : Nat) (name src : String) (s : CSpec)
    (hw : WFSpec s) (hfile : files name = some src) (hlex : lex src = some (prSpec s)) :
    compileFile files (f+1) name = some s := compileFile_prSpec files f name src s hw hfile hlex

/-- `compileFile` is: lex and parse (`parseSource`: the text must lex and `parseMal` must accept the whole token
list — `parser.mal()` followed by the `EOF` check), assemble with the included files compiled one level down -/
theorem compileFile_unfold (files : String → Option String) (f : Nat) (name : String) :
    compileFile files (f+1) name =
      (files name).bind fun src => (parseSource src).bind (assemble (compileFile files f)) :=
  compileFile_succ files f name

/-- include flattening: de-duplicating what an included file contributed first (its own `visitMal` does) changes
nothing …  `r` is the equality used by `item not in unique` (`catEqv`, `assetEqv`, `assocEqv`: Python's `==`, which
ignores the order of meta entries and compares numbers as floats); no property of `r` is needed -/
theorem include_flatten {α : Type} (r : α → α → Bool) (a b : List α) :
    dedupBy r (dedupBy r a ++ b) = dedupBy r (a ++ b) :=
  dedupBy_dedupBy_append r a b

/-- … and repeating an include changes nothing (the repeated declarations equal themselves: true for every value
Python can build, i.e. when meta keys are distinct, `metaEqv_refl`) -/
theorem include_repeat {α : Type} (r : α → α → Bool) (a x b : List α) (hrefl : ∀ y ∈ x, r y y = true) :
    dedupBy r (a ++ x ++ b ++ x) = dedupBy r (a ++ x ++ b) :=
  dedupBy_repeat r a x b hrefl

/-- what the de-duplication does: no element of the result equals an earlier one, nothing is invented, every
element (that equals itself) has a representative, and a list without such duplicates is unchanged -/
theorem dedup_spec {α : Type} (r : α → α → Bool) (l : List α) :
    (dedupBy r l).Pairwise (fun a b => r b a = false) ∧ (∀ y, y ∈ dedupBy r l → y ∈ l) ∧
    ((∀ y ∈ l, r y y = true) → ∀ y ∈ l, (dedupBy r l).any (r y) = true) ∧
    (l.Pairwise (fun a b => r b a = false) → dedupBy r l = l) :=
  ⟨pairwise_dedupBy r l, mem_dedupBy r l, fun h => rep_dedupByAux r [] l h, dedupBy_of_pairwise r l⟩

/-- with structural equality this is the plain first-occurrence de-duplication -/
theorem dedup_structural {α : Type} [DecidableEq α] (l : List α) :
    dedup l = dedupBy (fun a b => decide (b = a)) l ∧ (dedup l).Nodup ∧ (∀ y, y ∈ dedup l ↔ y ∈ l) :=
  ⟨dedup_eq_dedupBy l, nodup_dedup l, mem_dedup l⟩

/-- Python's `==` on two `meta` dictionaries does not see the order of the entries -/
theorem metaEqv_swap (k1 v1 k2 v2 : String) (h : k1 ≠ k2) :
    metaEqv [(k1, v1), (k2, v2)] [(k2, v2), (k1, v1)] = true := by
  have h' : k2 ≠ k1 := fun e => h e.symm
  simp [metaEqv, List.lookup, beq_eq_false_iff_ne.mpr h, beq_eq_false_iff_ne.mpr h']

/-- a dictionary equals itself (keys are distinct in every dictionary) -/
theorem metaEqv_refl (m : Meta) (h : (m.map (·.1)).Nodup) : metaEqv m m = true := by
  simp only [metaEqv, beq_self_eq_true, Bool.true_and, List.all_eq_true, beq_iff_eq]
  intro e he
  induction m with
  | nil => cases he
  | cons x xs ih =>
    simp only [List.map_cons, List.nodup_cons] at h
    rcases List.mem_cons.mp he with rfl | he
    · simp [List.lookup]
    · have hne : ¬ e.1 = x.1 := by
        intro heq
        exact h.1 (heq ▸ List.mem_map_of_mem he)
      simp only [List.lookup, beq_eq_false_iff_ne.mpr hne]
      exact ih h.2 he

/-- … which an association list with a repeated key (not a dictionary) would not -/
example : metaEqv [("a", "1"), ("a", "2")] [("a", "1"), ("a", "2")] = false := by decide

/-- **the repaired divergence (order of meta entries)**: two declarations of an asset that differ only in the order
of their meta entries are ONE asset for the compiler (the first is kept); the structural `dedup` kept both -/
theorem dedup_merges_meta_order :
    let a1 : CAsset := { name := "Ab", category := "Sys", isAbstract := false, superAsset := none,
                         metaD := [("user", "x"), ("developer", "y")], steps := [{ name := "s", type := "or" }] }
    let a2 : CAsset := { a1 with metaD := [("developer", "y"), ("user", "x")] }
    dedupBy assetEqv [a1, a2] = [a1] ∧ dedup [a1, a2] = [a1, a2] := by decide

/-- **numbers are floats**: `Exponential(1.0)` and `Exponential(1.00)` (and `1`, `01.0`) are the same TTC -/
theorem dedup_merges_number_spelling :
    let st (n : String) : CStep := { name := "s", type := "or", ttc := some (.func "Exponential" [n]) }
    let a (n : String) : CAsset := { name := "Ab", category := "Sys", isAbstract := false, superAsset := none, steps := [st n] }
    dedupBy assetEqv [a "1.0", a "1.00", a "01.0", a "1", a "1.5"] = [a "1.0", a "1.5"] := by decide

/-! ### 6. text -/

/-- `lex (render ts) = ts` for token lists whose tokens are lexable (`LexOK`): identifiers are words of
`[A-Za-z0-9_]` that are neither reserved nor numbers, numbers are digit strings, floats `digits? . digits`,
strings are quoted and contain no quote; every other token always is -/
theorem lex_render_partial (ts : List Tok) (h : ∀ t ∈ ts, LexOK t) : lex (render ts) = some ts := lex_render ts h

/-- identifiers `[A-Za-z_][A-Za-z0-9_]*` that are not reserved are lexable -/
theorem ident_lexable (s : String) (c : Char) (cs : List Char) (hs : s.toList = c :: cs)
    (hc : c.isAlpha = true ∨ c = '_') (hall : s.toList.all isIdChar = true) (hres : s ∉ reservedWords) :
    LexOK (.id s) := lexOK_id_of_ident s c cs hs hc hall hres

/-- from text to specification: the file containing the rendered printed specification compiles to it -/
theorem compile_render_print (files : String → Option String) (f : Nat) (name : String) (s : CSpec)
    (hw : WFSpec s) (hlex : ∀ t ∈ prSpec s, LexOK t) (hfile : files name = some (render (prSpec s))) :
    compileFile files (f+1) name = some s := compileFile_render_prSpec files f name s hw hlex hfile

/-- without the hypothesis the statement is false: a number printed as a FLOAT token whose text has no `.`
lexes as INT -/
example : lex (render [.float "3"]) = some [.int "3"] := by decide

/-- **the printed specification is lexable when its names and literals are**.  `NamesLexable s`
(`Proofs/PrintLexable.lean`) speaks only about what occurs in `s`: every define key, category, asset, super asset,
variable, step, tag, field, sub-type, association, meta key and TTC distribution name is `IdentOK` (non-empty,
characters of `[A-Za-z0-9_]`, not all digits, none of `reservedWords`), every define / meta value is `noQuote`,
every TTC number and distribution argument is `NumOK` (`digits? . digits`).  Multiplicities, step types, TTC
operators and risk flags need no condition.  The proof follows the printer: one lemma `prX_lexOK` per function. -/
theorem prSpec_lexable (s : CSpec) (h : NamesLexable s) : ∀ t ∈ prSpec s, LexOK t := prSpec_allOK s h

/-- `NamesLexable` is decided by the Boolean checker `namesLexableB` -/
theorem namesLexable_decide (s : CSpec) : namesLexableB s = true ↔ NamesLexable s := namesLexableB_iff s

/-- `IdentOK` is exactly lexability of the name as an identifier … -/
theorem identOK_iff_lexOK (n : String) : IdentOK n ↔ LexOK (.id n) := (lexOK_id_iff n).symm

/-- … and holds for `[A-Za-z_][A-Za-z0-9_]*` outside the reserved words (the hypotheses of `ident_lexable`) -/
theorem ident_identOK (s : String) (c : Char) (cs : List Char) (hs : s.toList = c :: cs)
    (hc : c.isAlpha = true ∨ c = '_') (hall : s.toList.all isIdChar = true) (hres : s ∉ reservedWords) :
    IdentOK s := identOK_of_ident s c cs hs hc hall hres

/-- from text to specification, with conditions on the specification only: the file containing the rendered
printed specification compiles to it -/
theorem compile_render_print_names (files : String → Option String) (f : Nat) (name : String) (s : CSpec)
    (hw : WFSpec s) (hn : NamesLexable s) (hfile : files name = some (render (prSpec s))) :
    compileFile files (f+1) name = some s :=
  compile_render_print files f name s hw (prSpec_lexable s hn) hfile

/-- the conditions on names are needed: a step called `E`, an asset called `7`, a number without `.` -/
example : lex (render [.or_, .id "E"]) = some [.or_, .exists_] ∧
    lex (render [.kwAsset, .id "7"]) = some [.kwAsset, .int "7"] ∧
    lex (render [.lsquare, .float "3", .rsquare]) = some [.lsquare, .int "3", .rsquare] := by decide

/- UNPROVED: nothing of the text level is left open.  (Not stated: the converse of `prSpec_lexable`; it needs every
   asset to lie in a listed category — `WFSpec.grouped` — since other assets are not printed.)
   FALSE as stated in the brief (see `fuel_mono_fails`), replaced by `fuel_mono_partial` / `fuel_mono_decl_partial`:
     theorem fuel_mono_expr (f) (reach) (ts) (r) : parseExpr f reach ts = some r → parseExpr (f+1) reach ts = some r
   (and the same for every function that reaches `parseTypes`, `parseTags` or `parseMetas`). -/

/-! ### a complete example -/

/-! a specification with most constructs; it is well-formed, and the theorem applies -/

def demoStep1 : CStep :=
  { name := "access", type := "and", tags := ["hidden"], risk := some (true, false, true),
    ttc := some (.bin "addition" (.func "Exponential" ["0.1"]) (.bin "multiplication" (.num "2.0") (.func "Gamma" ["1.5", "15.0"]))),
    metaD := [("user", "u")], requires := some [.field "net"],
    reaches := some (true, [.collect (.var "peers") (.step "access"), .step "deny"]) }
def demoAsset : CAsset :=
  { name := "Host", category := "Sys", isAbstract := true, superAsset := none, metaD := [("dev", "d")],
    variables := [("peers", .trans (.collect (.field "net") (.sub "Host" (.field "hosts"))))],
    steps := [demoStep1, { name := "deny", type := "or" }, { name := "patched", type := "defense" }] }
def demoAssoc : CAssoc :=
  { name := "Conn", leftAsset := "Host", leftField := "hosts", leftMin := 0, leftMax := none,
    rightAsset := "Host", rightField := "net", rightMin := 0, rightMax := some 1 }
def demoSpec : CSpec :=
  { defines := [("id", "org.demo"), ("version", "1.0.0")]
    categories := [("Sys", [("user", "the system")])]
    assets := [demoAsset]
    associations := [demoAssoc] }

theorem demoStep1_wf : WFStep demoStep1 where
  type := by decide
  risk := by decide
  ttc := by intro t h; simp only [demoStep1, Option.some.injEq] at h; subst h; decide
  metaD := wfMeta_one _ _ (by unfold noQuote; decide)
  requires := by intro l h; simp only [demoStep1, Option.some.injEq] at h; subst h; decide
  reaches := by
    intro o l h; simp only [demoStep1, Option.some.injEq, Prod.mk.injEq] at h; obtain ⟨_, rfl⟩ := h; decide

theorem demoAsset_wf : WFAsset demoAsset where
  metaD := wfMeta_one _ _ (by unfold noQuote; decide)
  variables := by decide
  steps := by
    intro s hs
    simp only [demoAsset, List.mem_cons, List.not_mem_nil, or_false] at hs
    rcases hs with rfl | rfl | rfl
    · exact demoStep1_wf
    · exact wfStep_plain _ _ (by decide)
    · exact wfStep_plain _ _ (by decide)

theorem demoSpec_wf : WFSpec demoSpec where
  defKeys := by decide
  defVals := by
    intro kv h
    simp only [demoSpec, List.mem_cons, List.not_mem_nil, or_false] at h
    rcases h with rfl | rfl <;> (unfold noQuote; decide)
  catNodup := by decide
  catMeta := by
    intro c h
    simp only [demoSpec, List.mem_cons, List.not_mem_nil, or_false] at h
    subst h; exact wfMeta_one _ _ (by unfold noQuote; decide)
  assetNodup := by decide
  assetWF := by intro a h; simp only [demoSpec, List.mem_cons, List.not_mem_nil, or_false] at h; subst h; exact demoAsset_wf
  grouped := by decide
  assocNodup := by decide
  assocWF := by intro a h; simp only [demoSpec, List.mem_cons, List.not_mem_nil, or_false] at h; subst h; exact ⟨wfMeta_nil⟩

example : (parseMal (prSpec demoSpec)).bind (assemble (fun _ => none)) = some demoSpec :=
  parse_print demoSpec demoSpec_wf _

/-- its printed form is lexable, so the text compiles to it -/
theorem demoSpec_lexable : ∀ t ∈ prSpec demoSpec, LexOK t := by
  intro t ht
  apply lexOK_of_lexOKb
  revert t
  decide

example : compileFile (fun n => if n = "demo.mal" then some (render (prSpec demoSpec)) else none) 1 "demo.mal" =
    some demoSpec :=
  compile_render_print _ 0 "demo.mal" demoSpec demoSpec_wf demoSpec_lexable (by simp)

/-- its names and literals are lexable (checked on the specification, not on its printed tokens) -/
example : namesLexableB demoSpec = true := by decide

theorem demoSpec_names : NamesLexable demoSpec := (namesLexable_decide demoSpec).mp (by decide)

example : compileFile (fun n => if n = "demo.mal" then some (render (prSpec demoSpec)) else none) 1 "demo.mal" =
    some demoSpec :=
  compile_render_print_names _ 0 "demo.mal" demoSpec demoSpec_wf demoSpec_names (by simp)

end MalVerif.C04
