import MalVerif.Model.Query
/-!
# C12 — attack-surface queries follow their definition; incremental = recomputed

The model functions of `Model/Query.lean` are transcriptions of `query.py`;
the theorems say that they compute the sets the property names, and that
updating a surface after new compromises equals recomputing it.
The queries are functions `St → …` that return lists, never a state: in the
model they cannot change the graph by construction; for the real code this
clause is checked by the correspondence (state compared before/after).
-/
namespace MalVerif.C12
open MalVerif.AGS MalVerif.AGraph

/-- **Traversability**: viable, and either an 'or' step or an 'and' step all of
whose necessary parents the attacker has compromised. -/
theorem traversable_iff (s : St) (a n : Nat) :
    trav s a n = true ↔
      (s.nobj n).viable = true ∧
      ((s.nobj n).type = .or ∨
       ((s.nobj n).type = .and ∧
        ∀ p ∈ (s.nobj n).parents, (s.nobj p).necessary = true → a ∈ (s.nobj p).compBy)) := by
  unfold trav
  simp only
  split
  · rename_i h; simp at h; simp [h]
  · rename_i h; simp at h
    split <;> rename_i ht <;> simp [h, ht, List.all_eq_true]
    · constructor
      · intro hall p hp hn
        rcases hall p hp with h1 | h1
        · rw [hn] at h1; exact absurd h1 (by simp)
        · exact h1
      · intro hall p hp
        cases hn : (s.nobj p).necessary
        · exact Or.inl rfl
        · exact Or.inr (hall p hp hn)
    · rename_i h1
      exact ⟨fun e => h1 e, fun e => absurd e ht⟩

/-- defenses and existence steps are never traversable -/
theorem status_nodes_not_traversable (s : St) (a n : Nat)
    (h : (s.nobj n).type = .defense ∨ (s.nobj n).type = .exist ∨ (s.nobj n).type = .notExist) :
    trav s a n = false := by
  cases ht : trav s a n with
  | false => rfl
  | true =>
    have := (traversable_iff s a n).1 ht
    rcases this.2 with h1 | ⟨h1, _⟩ <;> rcases h with h | h | h <;> rw [h1] at h <;> cases h

/-! ### the surface loop -/

theorem inner_mem (s : St) (a : Nat) (cs acc : List Nat) (x : Nat) :
    x ∈ cs.foldl (fun acc c => if trav s a c && !acc.contains c then acc ++ [c] else acc) acc ↔
      x ∈ acc ∨ (x ∈ cs ∧ trav s a x = true) := by
  induction cs generalizing acc with
  | nil => simp
  | cons c cs ih =>
    simp only [List.foldl_cons]
    rw [ih]
    by_cases hc : (trav s a c && !acc.contains c) = true
    · simp only [hc, if_true, List.mem_append, List.mem_cons, List.not_mem_nil, or_false]
      simp only [Bool.and_eq_true] at hc
      constructor
      · rintro ((h | h) | h)
        · exact Or.inl h
        · subst h; exact Or.inr ⟨Or.inl rfl, hc.1⟩
        · exact Or.inr ⟨Or.inr h.1, h.2⟩
      · rintro (h | ⟨h | h, ht⟩)
        · exact Or.inl (Or.inl h)
        · subst h; exact Or.inl (Or.inr rfl)
        · exact Or.inr ⟨h, ht⟩
    · simp only [hc, List.mem_cons]
      constructor
      · rintro (h | h)
        · exact Or.inl h
        · exact Or.inr ⟨Or.inr h.1, h.2⟩
      · rintro (h | ⟨h | h, ht⟩)
        · exact Or.inl h
        · subst h
          simp only [Bool.and_eq_true, not_and, Bool.not_eq_true] at hc
          have := hc ht
          simp at this
          exact Or.inl this
        · exact Or.inr ⟨h, ht⟩

theorem inner_nodup (s : St) (a : Nat) (cs acc : List Nat) (h : acc.Nodup) :
    (cs.foldl (fun acc c => if trav s a c && !acc.contains c then acc ++ [c] else acc) acc).Nodup := by
  induction cs generalizing acc with
  | nil => simpa
  | cons c cs ih =>
    simp only [List.foldl_cons]
    apply ih
    by_cases hc : (trav s a c && !acc.contains c) = true
    · simp only [hc, if_true]
      simp only [Bool.and_eq_true, Bool.not_eq_true', List.contains_eq_mem, decide_eq_false_iff_not] at hc
      rw [List.nodup_append]
      exact ⟨h, by simp, by intro x hx y hy; simp at hy; subst hy; intro e; subst e; exact hc.2 hx⟩
    · simp only [hc]; exact h

theorem extend_mem (s : St) (a : Nat) (cur steps : List Nat) (x : Nat) :
    x ∈ extend s a cur steps ↔
      x ∈ cur ∨ ∃ r ∈ steps, x ∈ (s.nobj r).children ∧ trav s a x = true := by
  unfold extend
  induction steps generalizing cur with
  | nil => simp
  | cons r rest ih =>
    simp only [List.foldl_cons]
    rw [ih, inner_mem]
    constructor
    · rintro ((h | h) | ⟨r', hr', h⟩)
      · exact Or.inl h
      · exact Or.inr ⟨r, by simp, h⟩
      · exact Or.inr ⟨r', by simp [hr'], h⟩
    · rintro (h | ⟨r', hr', h⟩)
      · exact Or.inl (Or.inl h)
      · rcases List.mem_cons.1 hr' with e | e
        · subst e; exact Or.inl (Or.inr h)
        · exact Or.inr ⟨r', e, h⟩

theorem extend_nodup (s : St) (a : Nat) (cur steps : List Nat) (h : cur.Nodup) :
    (extend s a cur steps).Nodup := by
  unfold extend
  induction steps generalizing cur with
  | nil => simpa
  | cons r rest ih => simp only [List.foldl_cons]; exact ih _ (inner_nodup s a _ _ h)

/-- **Attack surface** = the traversable children of the reached steps -/
theorem surface_mem (s : St) (a x : Nat) :
    x ∈ surface s a ↔ ∃ r ∈ (s.aobj a).reached, x ∈ (s.nobj r).children ∧ trav s a x = true := by
  unfold surface; rw [extend_mem]; simp

/-- … without duplicates -/
theorem surface_nodup (s : St) (a : Nat) : (surface s a).Nodup :=
  extend_nodup s a [] _ List.nodup_nil

theorem update_mem (s : St) (a : Nat) (cur nodes : List Nat) (x : Nat) :
    x ∈ updateSurface s a cur nodes ↔
      x ∈ cur ∨ ∃ r ∈ nodes, x ∈ (s.nobj r).children ∧ trav s a x = true :=
  extend_mem s a cur nodes x

theorem update_nodup (s : St) (a : Nat) (cur nodes : List Nat) (h : cur.Nodup) :
    (updateSurface s a cur nodes).Nodup := extend_nodup s a cur nodes h

/-- **Incremental = recomputed.**  `s` is the state in which the surface `S`
was computed, `s'` the state after further compromises by attacker `a`
(same structure and labels, `compromised_by` only grew, both states mirror
reached/compromised-by — C11 — and have converse child/parent lists — C09),
`N` the nodes passed to the update: all reached now, and containing every
newly reached node. -/
theorem incremental_eq_recomputed (s s' : St) (a : Nat) (S N : List Nat)
    (hstruct : ∀ n, (s'.nobj n).viable = (s.nobj n).viable ∧ (s'.nobj n).type = (s.nobj n).type ∧
      (s'.nobj n).parents = (s.nobj n).parents ∧ (s'.nobj n).children = (s.nobj n).children ∧
      (s'.nobj n).necessary = (s.nobj n).necessary)
    (hgrow : ∀ n, a ∈ (s.nobj n).compBy → a ∈ (s'.nobj n).compBy)
    (hmir : ∀ n, n ∈ (s.aobj a).reached ↔ a ∈ (s.nobj n).compBy)
    (hmir' : ∀ n, n ∈ (s'.aobj a).reached ↔ a ∈ (s'.nobj n).compBy)
    (hconv : ∀ p c, c ∈ (s.nobj p).children ↔ p ∈ (s.nobj c).parents)
    (hN1 : ∀ n ∈ N, n ∈ (s'.aobj a).reached)
    (hN2 : ∀ n, n ∈ (s'.aobj a).reached → n ∉ (s.aobj a).reached → n ∈ N)
    (hS : ∀ x, x ∈ S ↔ x ∈ surface s a) :
    ∀ x, x ∈ updateSurface s' a S N ↔ x ∈ surface s' a := by
  have hmono : ∀ x, trav s a x = true → trav s' a x = true := by
    intro x hx
    rw [traversable_iff] at hx ⊢
    obtain ⟨hv, hty, hpa, _, _⟩ := hstruct x
    refine ⟨by rw [hv]; exact hx.1, ?_⟩
    rcases hx.2 with h | ⟨h, hall⟩
    · exact Or.inl (by rw [hty]; exact h)
    · refine Or.inr ⟨by rw [hty]; exact h, ?_⟩
      intro p hp hn
      rw [hpa] at hp
      rw [(hstruct p).2.2.2.2] at hn
      exact hgrow p (hall p hp hn)
  intro x
  rw [update_mem, surface_mem, hS, surface_mem]
  constructor
  · rintro (⟨r, hr, hc, ht⟩ | ⟨r, hr, hc, ht⟩)
    · refine ⟨r, ?_, by rw [(hstruct r).2.2.2.1]; exact hc, hmono x ht⟩
      exact (hmir' r).2 (hgrow r ((hmir r).1 hr))
    · exact ⟨r, hN1 r hr, hc, ht⟩
  · rintro ⟨r, hr, hc, ht⟩
    by_cases hold : trav s a x = true
    · by_cases hr0 : r ∈ (s.aobj a).reached
      · exact Or.inl ⟨r, hr0, by rw [← (hstruct r).2.2.2.1]; exact hc, hold⟩
      · exact Or.inr ⟨r, hN2 r hr hr0, hc, ht⟩
    · -- newly traversable: some necessary parent was compromised in between
      right
      rw [traversable_iff] at ht hold
      obtain ⟨hv, hty, hpa, _, _⟩ := hstruct x
      have hv0 : (s.nobj x).viable = true := by rw [← hv]; exact ht.1
      have hnot : ¬ ((s.nobj x).type = .or ∨ ((s.nobj x).type = .and ∧
          ∀ p ∈ (s.nobj x).parents, (s.nobj p).necessary = true → a ∈ (s.nobj p).compBy)) :=
        fun h => hold ⟨hv0, h⟩
      rcases ht.2 with h | ⟨hand, hall⟩
      · exact absurd (Or.inl (by rw [← hty]; exact h)) hnot
      · have hand0 : (s.nobj x).type = .and := by rw [← hty]; exact hand
        have : ∃ p ∈ (s.nobj x).parents, (s.nobj p).necessary = true ∧ a ∉ (s.nobj p).compBy := by
          apply Classical.byContradiction
          intro hne
          apply hnot
          refine Or.inr ⟨hand0, fun p hp hn => ?_⟩
          apply Classical.byContradiction
          intro hnc
          exact hne ⟨p, hp, hn, hnc⟩
        obtain ⟨p, hp, hn, hnc⟩ := this
        have hp' : p ∈ (s'.nobj x).parents := by rw [hpa]; exact hp
        have hn' : (s'.nobj p).necessary = true := by rw [(hstruct p).2.2.2.2]; exact hn
        have hc' := hall p hp' hn'
        have hreach' : p ∈ (s'.aobj a).reached := (hmir' p).2 hc'
        have hreach0 : p ∉ (s.aobj a).reached := fun h => hnc ((hmir p).1 h)
        refine ⟨p, hN2 p hreach' hreach0, ?_, ?_⟩
        · rw [(hstruct p).2.2.2.1]; exact (hconv p x).2 hp
        · rw [traversable_iff]; exact ⟨ht.1, Or.inr ⟨hand, hall⟩⟩

/-! ### compromising a batch of nodes satisfies the hypotheses above -/

theorem compromise_nobj (s : St) (a n x : Nat) :
    ((compromise s a n).nobj x).viable = (s.nobj x).viable ∧
    ((compromise s a n).nobj x).type = (s.nobj x).type ∧
    ((compromise s a n).nobj x).parents = (s.nobj x).parents ∧
    ((compromise s a n).nobj x).children = (s.nobj x).children ∧
    ((compromise s a n).nobj x).necessary = (s.nobj x).necessary := by
  unfold compromise
  split
  · simp
  · simp only [updA, updN]
    by_cases h : x = n <;> simp [h]

theorem compromise_compBy (s : St) (a n x : Nat) (b : Nat) :
    b ∈ ((compromise s a n).nobj x).compBy ↔ b ∈ (s.nobj x).compBy ∨ (x = n ∧ b = a) := by
  unfold compromise
  split
  · rename_i h
    simp only [List.contains_iff_mem] at h
    constructor
    · exact Or.inl
    · rintro (h1 | ⟨h1, h2⟩)
      · exact h1
      · subst h1; subst h2; exact h
  · simp only [updA, updN]
    by_cases h : x = n
    · subst h; simp [List.mem_append]
    · simp [h]

theorem compromise_reached (s : St) (a n b : Nat) (x : Nat) :
    x ∈ ((compromise s a n).aobj b).reached ↔
      x ∈ (s.aobj b).reached ∨ (b = a ∧ x = n ∧ a ∉ (s.nobj n).compBy) := by
  unfold compromise
  split
  · rename_i h
    simp only [List.contains_iff_mem] at h
    constructor
    · exact Or.inl
    · rintro (h1 | ⟨_, _, h3⟩)
      · exact h1
      · exact absurd h h3
  · rename_i h
    simp only [List.contains_iff_mem] at h
    simp only [updA, updN]
    by_cases hb : b = a
    · subst hb; simp [List.mem_append, h]
    · simp [hb]

/-- the mirror relation (C11) is kept by `compromise` -/
theorem compromise_mirror (s : St) (a n : Nat)
    (hmir : ∀ b x, x ∈ (s.aobj b).reached ↔ b ∈ (s.nobj x).compBy) :
    ∀ b x, x ∈ ((compromise s a n).aobj b).reached ↔ b ∈ ((compromise s a n).nobj x).compBy := by
  intro b x
  rw [compromise_reached, compromise_compBy, hmir]
  constructor
  · rintro (h | ⟨h1, h2, _⟩)
    · exact Or.inl h
    · exact Or.inr ⟨h2, h1⟩
  · rintro (h | ⟨h1, h2⟩)
    · exact Or.inl h
    · by_cases hc : a ∈ (s.nobj n).compBy
      · subst h1; subst h2; exact Or.inl hc
      · exact Or.inr ⟨h2, h1, hc⟩

/-- **Incremental = recomputed, concretely**: compute the surface, let the
attacker compromise the nodes `N` one after the other, update the old surface
with `N` — the result has the same members as a fresh computation. -/
theorem update_after_compromises (s : St) (a : Nat) (N : List Nat)
    (hmir : ∀ b x, x ∈ (s.aobj b).reached ↔ b ∈ (s.nobj x).compBy)
    (hconv : ∀ p c, c ∈ (s.nobj p).children ↔ p ∈ (s.nobj c).parents) :
    let s' := N.foldl (fun s n => compromise s a n) s
    ∀ x, x ∈ updateSurface s' a (surface s a) N ↔ x ∈ surface s' a := by
  intro s'
  -- facts about the fold
  have key : ∀ (N : List Nat) (s : St),
      (∀ b x, x ∈ (s.aobj b).reached ↔ b ∈ (s.nobj x).compBy) →
      let t := N.foldl (fun s n => compromise s a n) s
      (∀ n, (t.nobj n).viable = (s.nobj n).viable ∧ (t.nobj n).type = (s.nobj n).type ∧
        (t.nobj n).parents = (s.nobj n).parents ∧ (t.nobj n).children = (s.nobj n).children ∧
        (t.nobj n).necessary = (s.nobj n).necessary) ∧
      (∀ n b, b ∈ (s.nobj n).compBy → b ∈ (t.nobj n).compBy) ∧
      (∀ b x, x ∈ (t.aobj b).reached ↔ b ∈ (t.nobj x).compBy) ∧
      (∀ n ∈ N, a ∈ (t.nobj n).compBy) ∧
      (∀ n, a ∈ (t.nobj n).compBy → a ∉ (s.nobj n).compBy → n ∈ N) := by
    intro N
    induction N with
    | nil =>
      intro s hm
      exact ⟨fun _ => ⟨rfl, rfl, rfl, rfl, rfl⟩, fun _ _ h => h, hm, fun _ h => by simp at h,
             fun _ h h' => absurd h h'⟩
    | cons m rest ih =>
      intro s hm
      simp only [List.foldl_cons]
      have hm1 := compromise_mirror s a m hm
      obtain ⟨i1, i2, i3, i4, i5⟩ := ih (compromise s a m) hm1
      refine ⟨?_, ?_, i3, ?_, ?_⟩
      · intro n
        obtain ⟨a1, a2, a3, a4, a5⟩ := i1 n
        obtain ⟨b1, b2, b3, b4, b5⟩ := compromise_nobj s a m n
        exact ⟨a1.trans b1, a2.trans b2, a3.trans b3, a4.trans b4, a5.trans b5⟩
      · intro n b hb
        exact i2 n b ((compromise_compBy s a m n b).2 (Or.inl hb))
      · intro n hn
        rcases List.mem_cons.1 hn with e | e
        · subst e; exact i2 n a ((compromise_compBy s a n n a).2 (Or.inr ⟨rfl, rfl⟩))
        · exact i4 n e
      · intro n h1 h2
        by_cases hmid : a ∈ ((compromise s a m).nobj n).compBy
        · rcases (compromise_compBy s a m n a).1 hmid with h | ⟨h, _⟩
          · exact absurd h h2
          · subst h; simp
        · exact List.mem_cons_of_mem _ (i5 n h1 hmid)
  obtain ⟨k1, k2, k3, k4, k5⟩ := key N s hmir
  apply incremental_eq_recomputed s s' a (surface s a) N k1 (fun n h => k2 n a h)
    (fun n => hmir a n) (fun n => k3 a n) hconv
  · intro n hn; exact (k3 a n).2 (k4 n hn)
  · intro n h1 h2
    exact k5 n ((k3 a n).1 h1) (fun h => h2 ((hmir a n).2 h))
  · intro x; rfl

/-! ### defense surface / enabled defenses -/

theorem defense_surface_mem (s : St) (r : Nat) :
    r ∈ defenseSurface s ↔ r ∈ s.nodes ∧ (s.nobj r).type = .defense ∧
      (s.nobj r).suppress = false ∧ (s.nobj r).defOne = false := by
  simp [defenseSurface, isAvailableDefense, List.mem_filter, and_assoc]

theorem enabled_defenses_mem (s : St) (r : Nat) :
    r ∈ enabledDefenses s ↔ r ∈ s.nodes ∧ (s.nobj r).type = .defense ∧
      (s.nobj r).suppress = false ∧ (s.nobj r).defOne = true := by
  simp [enabledDefenses, isEnabledDefense, List.mem_filter, and_assoc]

/-- every non-suppressed defense of the graph is in exactly one of the two -/
theorem defenses_partition (s : St) (r : Nat) (hr : r ∈ s.nodes)
    (ht : (s.nobj r).type = .defense) (hs : (s.nobj r).suppress = false) :
    (r ∈ defenseSurface s ∧ r ∉ enabledDefenses s) ∨ (r ∉ defenseSurface s ∧ r ∈ enabledDefenses s) := by
  rw [defense_surface_mem, enabled_defenses_mem]
  cases hd : (s.nobj r).defOne <;> simp [hr, ht, hs]

/-! ### non-vacuity -/
def demo : St :=
  let s0 : St := {}
  let mk (t : NType) (nec : Bool) : NodeObj := { type := t, necessary := nec }
  match addNode s0 (mk .or true) none with
  | .ok s1 => match addNode s1 (mk .or true) none with
    | .ok s2 => match addNode s2 (mk .and true) none with
      | .ok s3 =>
        let l (s : St) (p c : Nat) := updN (updN s p (fun o => { o with children := o.children ++ [c] })) c
            (fun o => { o with parents := o.parents ++ [p] })
        match addAttacker (l (l s3 0 2) 1 2) "att" none [] [0] with
        | .ok s4 => s4
        | .error _ => s3
      | .error _ => s2
    | .error _ => s1
  | .error _ => s0

/-- the 'and' step 2 is not in the surface before its second necessary parent
is compromised, and is afterwards: the theorem's hypotheses hold on `demo` -/
example : surface demo 0 = [] ∧
    surface (compromise demo 0 1) 0 = [2] ∧
    updateSurface (compromise demo 0 1) 0 (surface demo 0) [1] = [2] := by decide
example : ∀ b ∈ [0, 1], ∀ x ∈ [0, 1, 2],
    (decide (x ∈ (demo.aobj b).reached) = decide (b ∈ (demo.nobj x).compBy)) := by decide

end MalVerif.C12
