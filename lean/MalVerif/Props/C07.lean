import MalVerif.Proofs.SerialLemmas
/-!
# C07 — saving and loading a model preserves it (JSON and YAML)

`toDoc` models `Model._to_dict`, `fromDoc` models `Model._from_dict` (`MalVerif/Model/Serial.lean`); a YAML file
gives the document back as it was written (`yamlRT`), a JSON file turns every dictionary key into a string
(`jsonRT`).  What a file can tell about a model is its *observation* (`MalVerif/Proofs/SerialLemmas.lean`): the
assets `(id, name, type, value of every defense of the type, extras)`, the associations
`(class, left field, ids of the left members, right field, ids of the right members, extras)` and the attackers
`(id, name, entry points as (asset id, steps))`, each in model order.  `SameModel L s s'` says the observations
agree (references may differ).  `SameFile L s s'` is the finer equivalence with the *explicitly set non-default*
defense values, in the order they are stored, in place of the value of every defense: it is exactly what
`_to_dict` writes (`save_depends_on_file_view`).  The model name and the other metadata are not part of the state
machine and are not covered here.

Results (all for every language and every state):

* `key_roundtrip`, `json_key`: `int(str(n)) = n`; a JSON file does not change what a key stands for;
* `load_save_yaml_partial`, `load_save_json_partial`: the saved file loads, and the loaded model is coherent and
  shows the same model.  Beyond the coherence invariant `Inv`, validity `Valid` (both hold after every history,
  C05/C06) and distinct attacker ids, three hypotheses are needed that the invariants do not contain; each is
  necessary (counterexamples below):
  - `LinksResolve L s`: the class an association names is the one the factory resolves the name to (true after
    every history, `reachable_linksResolve`; implied by `Valid` when class names are distinct,
    `linksResolve_of_distinct_names`);
  - `DefKeysDistinct s`: no asset sets a defense twice (the explicit values are keyword arguments in Python; true
    after every history whose `add_asset` calls are given no defense twice, `reachable_defKeysDistinct`);
  - `AttNamesNonempty s`: no attacker has the empty name (true after every history, `reachable_attNamesNonempty`:
    `add_attacker` replaces an empty name);
* `load_save_reachable`: the three results for the state after any history, assuming only distinct attacker ids
  and well-formed `add_asset` arguments;
* `save_idempotent_partial`: saving the loaded model writes the identical document.  This does *not* follow from
  `SameModel` alone (last example: the order of the explicitly set values is written), it follows from `SameFile`;
* `load_order_independent`: the order of the asset entries of a file does not matter (ids 0, negative ids, gaps);
* `shorthand_loads`: the type-only shorthand is the full entry with the generated name;
* `duplicate_attacker_ids_collapse`: attackers that share an id are written under one key.
-/
namespace MalVerif.C07
open MalVerif.MS MalVerif.Ser

/-! ### keys -/

/-- Python `int(str(n)) = n`: the key of an asset or attacker survives a JSON file -/
theorem key_roundtrip (n : Int) : (Key.s (Key.i n).text).toInt? = some n := toInt_toString n

/-- a JSON file changes neither the integer a key stands for nor its text -/
theorem json_key (k : Key) : (Key.s k.text).toInt? = k.toInt? ∧ (Key.s k.text).text = k.text :=
  ⟨key_json k, rfl⟩

/-- loading what a JSON file gives back is loading the document that was written -/
theorem json_load_eq_yaml_load (L : Lang) (d : ModelDoc) :
    fromDoc L (fun _ => true) (jsonRT d) = fromDoc L (fun _ => true) (yamlRT d) := fromDoc_jsonRT L _ d

/-! ### save, then load -/

/-- the file written for a model loads (YAML), to a coherent model that shows the same assets, associations and
attackers -/
theorem load_save_yaml_partial (L : Lang) (s : St) (h : Inv s) (hv : Valid L s) (hatt : AttIdsDistinct s)
    (hres : LinksResolve L s) (hdef : DefKeysDistinct s) (hname : AttNamesNonempty s) :
    ∃ s', fromDoc L (fun _ => true) (yamlRT (toDoc L s)) = .ok s' ∧ SameModel L s' s ∧ Inv s' := by
  obtain ⟨s', h1, h2, _, h4⟩ := load_toDoc L s h hv hres hdef hatt hname
  exact ⟨s', h1, h4, h2⟩

/-- the same through a JSON file: every key comes back as a string and is converted with `int(...)` -/
theorem load_save_json_partial (L : Lang) (s : St) (h : Inv s) (hv : Valid L s) (hatt : AttIdsDistinct s)
    (hres : LinksResolve L s) (hdef : DefKeysDistinct s) (hname : AttNamesNonempty s) :
    ∃ s', fromDoc L (fun _ => true) (jsonRT (toDoc L s)) = .ok s' ∧ SameModel L s' s ∧ Inv s' := by
  rw [json_load_eq_yaml_load]
  exact load_save_yaml_partial L s h hv hatt hres hdef hname

/-- when the generated classes have distinct names (see C06 `assoc_classes_distinct`), validity is enough for
`LinksResolve` -/
theorem linksResolve_of_distinct_names (L : Lang) (s : St) (hd : ClassNamesDistinct L) (hv : Valid L s) :
    LinksResolve L s := linksResolve_of_distinct hd hv

/-! ### load, then save again -/

/-- what `_to_dict` writes depends only on the file view of the model -/
theorem save_depends_on_file_view (L : Lang) (s s' : St) (h : SameFile L s s') : toDoc L s = toDoc L s' :=
  toDoc_congr h

/-- models with the same file view show the same model -/
theorem same_file_same_model (L : Lang) (s s' : St) (h : SameFile L s s') (hd : DefKeysDistinct s)
    (hd' : DefKeysDistinct s') : SameModel L s s' := sameModel_of_sameFile h hd hd'

/-- saving the loaded model reproduces the document, through either kind of file -/
theorem save_idempotent_partial (L : Lang) (s s' : St) (h : Inv s) (hv : Valid L s) (hatt : AttIdsDistinct s)
    (hres : LinksResolve L s) (hdef : DefKeysDistinct s) (hname : AttNamesNonempty s)
    (hload : fromDoc L (fun _ => true) (yamlRT (toDoc L s)) = .ok s' ∨
             fromDoc L (fun _ => true) (jsonRT (toDoc L s)) = .ok s') :
    toDoc L s' = toDoc L s := by
  rw [json_load_eq_yaml_load, or_self] at hload
  obtain ⟨s'', h1, _, h3, _⟩ := load_toDoc L s h hv hres hdef hatt hname
  have : s'' = s' := by
    have h1 : fromDoc L (fun _ => true) (yamlRT (toDoc L s)) = .ok s'' := h1
    rw [hload] at h1; injection h1 with h1; exact h1.symm
  subst this
  exact toDoc_congr h3

/-! ### hand-written files -/

/-- a file whose asset entries have pairwise distinct ids and names loads to the same model whatever the order of
the asset entries: the assets come in the order of the entries, the associations and attackers are the same.
In particular an entry with id 0, or with an id smaller than an earlier one, need not come first -/
theorem load_order_independent (L : Lang) (defsOk : Key → Bool) (d d' : ModelDoc) (hp : d.assets.Perm d'.assets)
    (hl : d'.associations = d.associations) (ht : d'.attackers = d.attackers)
    (hid : (d.assets.map (fun e => (objOf e).id)).Nodup) (hnm : (d.assets.map (fun e => (objOf e).name)).Nodup)
    (s : St) (hok : fromDoc L defsOk d = .ok s) :
    ∃ s', fromDoc L defsOk d' = .ok s' ∧
      (s.assets.map (assetView L s)).Perm (s'.assets.map (assetView L s')) ∧
      s.associations.map (assocView s) = s'.associations.map (assocView s') ∧
      s.attackers.map (attView s) = s'.attackers.map (attView s') := by
  obtain ⟨s', h1, h2⟩ := fromDoc_perm L defsOk d d' hp hl ht hid hnm s hok
  exact ⟨s', h1, h2.assets, h2.assocs, h2.attackers⟩

/-- the asset an entry describes gets the id and name that are written: `objOf` spelled out -/
theorem entry_object (k : Key) (n : Int) (hk : k.toInt? = some n) (nm ty : String) (defs : List (String × String))
    (ex : Option String) :
    objOf (k, .full nm ty defs ex) = { id := n, name := nm, type := ty, defenses := defs, extras := ex.getD "{}" } ∧
    objOf (k, .shorthand ty) = { id := n, name := ty ++ ":" ++ k.text, type := ty } := by
  unfold objOf
  simp [hk]

/-- the type-only shorthand `"7": "Application"` is the entry `"7": {"name": "Application:7", "type": "Application"}`
(`defsOk k`: the range check of the defense values of the entry with key `k`, trivially true without defenses) -/
theorem shorthand_loads (L : Lang) (defsOk : Key → Bool) (s : St) (k : Key) (ty : String) (hk : defsOk k = true) :
    loadAsset L defsOk s (k, .shorthand ty) = loadAsset L defsOk s (k, .full (ty ++ ":" ++ k.text) ty [] none) := by
  unfold loadAsset
  dsimp only
  rw [hk]
  rfl

/-- … anywhere in a document -/
theorem shorthand_loads_doc (L : Lang) (defsOk : Key → Bool) (d : ModelDoc) (pre post : List (Key × AssetEntry))
    (k : Key) (ty : String) (hk : defsOk k = true) (hd : d.assets = pre ++ (k, .shorthand ty) :: post) :
    fromDoc L defsOk d =
      fromDoc L defsOk { d with assets := pre ++ (k, .full (ty ++ ":" ++ k.text) ty [] none) :: post } := by
  unfold fromDoc
  dsimp only
  rw [hd, List.foldlM_append, List.foldlM_append]
  simp only [List.foldlM_cons, shorthand_loads L defsOk _ k ty hk]

/-! ### attackers that share an id -/

/-- `add_attacker` accepts an id that is in use; `_to_dict` writes both attackers under the one key (the later one
wins, at the position of the earlier), and the loaded model has a single attacker -/
theorem duplicate_attacker_ids_collapse :
    Sample.dupAtt.attackers.map (attView Sample.dupAtt) = [⟨1, "a", []⟩, ⟨1, "b", []⟩] ∧
    (toDoc MS.Demo.lang Sample.dupAtt).attackers = [(.i 1, { name := "b", entry := [] })] ∧
    LoadsTo (fromDoc MS.Demo.lang (fun _ => true) (toDoc MS.Demo.lang Sample.dupAtt))
      (fun s' => s'.attackers.map (attView s') = [⟨1, "b", []⟩]) := by decide

/-! ### the extra hypotheses after a history -/

/-- after every history the class an association names is the one the name resolves to -/
theorem reachable_linksResolve (L : Lang) (ops : List Op) : LinksResolve L (ops.foldl (applyOp L) {}) :=
  (foldl_applyOp_saveable L ops {} init_inv').1 (fun _ hl => absurd hl List.not_mem_nil)

/-- after every history no attacker has the empty name -/
theorem reachable_attNamesNonempty (L : Lang) (ops : List Op) : AttNamesNonempty (ops.foldl (applyOp L) {}) :=
  (foldl_applyOp_saveable L ops {} init_inv').2.2 (fun _ ht => absurd ht List.not_mem_nil)

/-- after a history in which no `add_asset` is given a defense twice, no asset sets a defense twice -/
theorem reachable_defKeysDistinct (L : Lang) (ops : List Op) (hops : ∀ op ∈ ops, OpDefKeysDistinct op) :
    DefKeysDistinct (ops.foldl (applyOp L) {}) :=
  (foldl_applyOp_saveable L ops {} init_inv').2.1 hops (fun _ ha => absurd ha List.not_mem_nil)

/-- save and load after a history: what remains to be assumed is that the defense values given to `add_asset` are
keyword arguments (no defense twice) and that the attacker ids are pairwise distinct -/
theorem load_save_reachable (L : Lang) (ops : List Op) (hops : ∀ op ∈ ops, OpDefKeysDistinct op)
    (hatt : AttIdsDistinct (ops.foldl (applyOp L) {})) :
    (∃ s', fromDoc L (fun _ => true) (yamlRT (toDoc L (ops.foldl (applyOp L) {}))) = .ok s' ∧
      SameModel L s' (ops.foldl (applyOp L) {}) ∧ toDoc L s' = toDoc L (ops.foldl (applyOp L) {})) ∧
    (∃ s', fromDoc L (fun _ => true) (jsonRT (toDoc L (ops.foldl (applyOp L) {}))) = .ok s' ∧
      SameModel L s' (ops.foldl (applyOp L) {}) ∧ toDoc L s' = toDoc L (ops.foldl (applyOp L) {})) := by
  have hi := C05.reachable_inv L ops
  have hv := C06.reachable_valid L ops
  have hr := reachable_linksResolve L ops
  have hd := reachable_defKeysDistinct L ops hops
  have hn := reachable_attNamesNonempty L ops
  obtain ⟨s', h1, h2, _⟩ := load_save_yaml_partial L _ hi hv hatt hr hd hn
  have h3 := save_idempotent_partial L _ s' hi hv hatt hr hd hn (Or.inl h1)
  refine ⟨⟨s', h1, h2, h3⟩, s', ?_, h2, h3⟩
  rw [json_load_eq_yaml_load]; exact h1

/-! ### the hypotheses are satisfiable by a non-trivial state, and the conclusion is what one computes -/

/-- `Sample.st`: ids 5, 0, -3 in this order; `h` sets the non-default `patched = 1`, `g` sets `hardened` to its
default (which is not written); an association with two hosts; an attacker with two entry points -/
example : toDoc MS.Demo.lang Sample.st =
    { assets := [(.i 5, .full "h" "Host" [("patched", "1.0")] none), (.i 0, .full "Net:0" "Net" [] (some "{\"x\": 1}")),
                 (.i (-3), .full "g" "Host" [] none)],
      associations := [{ cls := "Link_Host_Net", lf := "hosts", left := [.i 5, .i (-3)], rf := "nets", right := [.i 0] }],
      attackers := [(.i 9, { name := "eve", entry := [(.i 5, ["access"]), (.i (-3), ["access"])] })] } := by
  decide +kernel

example : Inv Sample.st ∧ Valid MS.Demo.lang Sample.st ∧ AttIdsDistinct Sample.st ∧ LinksResolve MS.Demo.lang Sample.st ∧
    DefKeysDistinct Sample.st ∧ AttNamesNonempty Sample.st ∧ ClassNamesDistinct MS.Demo.lang ∧
    ∀ op ∈ Sample.ops, OpDefKeysDistinct op :=
  ⟨C05.reachable_inv _ _, C06.reachable_valid _ _, by decide, reachable_linksResolve _ _, by decide, by decide, by decide,
   by decide⟩

/-- the YAML round trip, computed: same model, same file view -/
example : LoadsTo (fromDoc MS.Demo.lang (fun _ => true) (yamlRT (toDoc MS.Demo.lang Sample.st)))
    (fun s' => SameModel MS.Demo.lang s' Sample.st ∧ SameFile MS.Demo.lang s' Sample.st ∧ s'.assets = [0, 1, 2] ∧
      (s'.aobj 1).id = 0 ∧ (s'.aobj 2).id = -3 ∧ (s'.aobj 2).defenses = []) := by decide +kernel

/-- the JSON round trip: the keys come back as `"5"`, `"0"`, `"-3"`, `"9"` … -/
example : (jsonRT (toDoc MS.Demo.lang Sample.st)).assets.map (·.1) = [.s "5", .s "0", .s "-3"] ∧
    (jsonRT (toDoc MS.Demo.lang Sample.st)).attackers.map (fun e => (e.1, e.2.entry.map (·.1))) = [(.s "9", [.s "5", .s "-3"])] := by
  decide +kernel

/-- … and are converted back (`int("-3") = -3`, by `key_roundtrip`; the kernel does not evaluate `String.toInt?`) -/
example : LoadsTo (fromDoc MS.Demo.lang (fun _ => true) (jsonRT (toDoc MS.Demo.lang Sample.st)))
    (fun s' => SameModel MS.Demo.lang s' Sample.st ∧ SameFile MS.Demo.lang s' Sample.st) := by
  rw [json_load_eq_yaml_load]; decide +kernel

/-- a hand-written file: string keys, id 0 in last position, a negative id, a shorthand entry.  Both orders of the
asset entries load; the assets come in file order with the ids that are written -/
example :
    LoadsTo (fromDoc MS.Demo.lang (fun _ => true) (jsonRT Sample.handDoc)) (fun s =>
      s.assets.map (assetView MS.Demo.lang s) =
        [⟨7, "h", "Host", [("hardened", "1.0"), ("patched", "1.0")], "{}"⟩, ⟨-2, "Net:-2", "Net", [], "{}"⟩,
         ⟨0, "g", "Host", [("hardened", "1.0"), ("patched", "0.0")], "{\"k\": []}"⟩] ∧
      s.associations.map (assocView s) = [⟨"Link_Host_Net", "hosts", [0, 7], "nets", [-2], "{}"⟩] ∧
      s.attackers.map (attView s) = [⟨1, "eve", [(0, ["access"])]⟩]) := by
  rw [json_load_eq_yaml_load]; decide +kernel

/-- the hypotheses of `load_order_independent` hold for this file and the reordered one … -/
example : Sample.handDoc.assets.Perm Sample.handDoc2.assets ∧
    (Sample.handDoc.assets.map (fun e => (objOf e).id)).Nodup ∧ (Sample.handDoc.assets.map (fun e => (objOf e).name)).Nodup ∧
    Sample.handDoc.assets.map (fun e => (objOf e).id) = [7, -2, 0] ∧
    Sample.handDoc2.assets.map (fun e => (objOf e).id) = [0, 7, -2] := by
  refine ⟨?_, by decide, by decide, by decide, by decide⟩
  exact List.perm_append_comm (l₁ := [Sample.handDoc.assets[0]!, Sample.handDoc.assets[1]!]) (l₂ := [Sample.handDoc.assets[2]!])

/-- … and the reordered file, which starts with id 0, loads to the reordered assets and the same associations and
attackers -/
example :
    LoadsTo (fromDoc MS.Demo.lang (fun _ => true) (jsonRT Sample.handDoc2)) (fun s =>
      s.assets.map (assetView MS.Demo.lang s) =
        [⟨0, "g", "Host", [("hardened", "1.0"), ("patched", "0.0")], "{\"k\": []}"⟩,
         ⟨7, "h", "Host", [("hardened", "1.0"), ("patched", "1.0")], "{}"⟩, ⟨-2, "Net:-2", "Net", [], "{}"⟩] ∧
      s.associations.map (assocView s) = [⟨"Link_Host_Net", "hosts", [0, 7], "nets", [-2], "{}"⟩] ∧
      s.attackers.map (attView s) = [⟨1, "eve", [(0, ["access"])]⟩]) := by
  rw [json_load_eq_yaml_load]; decide +kernel

/-! ### the type of an association entry does not depend on the order of its keys (repair ff5c204) -/

/-- **Key order independence**: whatever order the file layer returns the keys of an association entry in
(JSON: insertion order; PyYAML: sorted — so `extras` comes first for a type such as `storage`), `_from_dict`
finds the association type, for every type name other than the reserved word `extras`. -/
theorem type_key_any_order (e : AssocEntry) (ks : List String) (hp : ks.Perm (assocKeys e)) (h : e.cls ≠ "extras") :
    typeKey ks = some e.cls := by
  unfold typeKey
  have hf : (ks.filter (fun k => k != "extras")).Perm ((assocKeys e).filter (fun k => k != "extras")) :=
    hp.filter _
  have he : (assocKeys e).filter (fun k => k != "extras") = [e.cls] := by
    have hb : (e.cls != "extras") = true := by simp [h]
    unfold assocKeys
    cases e.extras <;> simp [List.filter, hb]
  rw [he] at hf
  rw [List.perm_singleton.1 hf]
  rfl

/-- consequently an association entry loads to the same state whatever the key order -/
theorem load_assoc_key_order (L : Lang) (order : List String → List String) (s : St) (e : AssocEntry)
    (hperm : ∀ ks, (order ks).Perm ks) (h : e.cls ≠ "extras") :
    loadAssocKeyed L order s e = loadAssoc L s e := by
  unfold loadAssocKeyed
  rw [type_key_any_order e _ (hperm _) h]

/-- the code before the repair took the first key: for the entry of a `storage` association with extras, whose
keys PyYAML writes as `extras, storage`, it finds `extras` -/
theorem first_key_variant_fails :
    let e : AssocEntry := { cls := "storage", lf := "host", left := [], rf := "disks", right := [], extras := some "{}" }
    ["extras", "storage"].Perm (assocKeys e) ∧ typeKeyFirst ["extras", "storage"] = some "extras" ∧
      typeKey ["extras", "storage"] = some "storage" := by
  refine ⟨?_, rfl, by decide⟩
  exact List.Perm.swap _ _ _

/-! ### the three extra hypotheses are necessary -/

/-- without `AttNamesNonempty`: an attacker with the empty name comes back as `Attacker:7` -/
example : Inv Sample.cexName ∧ Valid MS.Demo.lang Sample.cexName ∧ AttIdsDistinct Sample.cexName ∧
    LinksResolve MS.Demo.lang Sample.cexName ∧ DefKeysDistinct Sample.cexName ∧
    Sample.cexName.attackers.map (attView Sample.cexName) = [⟨7, "", []⟩] ∧
    LoadsTo (fromDoc MS.Demo.lang (fun _ => true) (toDoc MS.Demo.lang Sample.cexName))
      (fun s' => s'.attackers.map (attView s') = [⟨7, "Attacker:7", []⟩]) :=
  ⟨Sample.cexName_inv, Sample.cexName_valid _, by decide, fun l hl => absurd hl List.not_mem_nil, by decide, by decide,
   by decide +kernel⟩

/-- without `DefKeysDistinct`: of `patched = 0, patched = 1` the model reads the first value, the file keeps the
non-default one -/
example : Inv Sample.cexDef ∧ Valid MS.Demo.lang Sample.cexDef ∧ AttIdsDistinct Sample.cexDef ∧
    LinksResolve MS.Demo.lang Sample.cexDef ∧ AttNamesNonempty Sample.cexDef ∧
    Sample.cexDef.assets.map (assetView MS.Demo.lang Sample.cexDef) =
      [⟨1, "h", "Host", [("hardened", "1.0"), ("patched", "0.0")], "{}"⟩] ∧
    LoadsTo (fromDoc MS.Demo.lang (fun _ => true) (toDoc MS.Demo.lang Sample.cexDef))
      (fun s' => s'.assets.map (assetView MS.Demo.lang s') =
        [⟨1, "h", "Host", [("hardened", "1.0"), ("patched", "1.0")], "{}"⟩]) :=
  ⟨applyOp_inv' _ _ _ init_inv', applyOp_valid' _ _ _ init_inv' (init_valid' _), by decide,
   fun l hl => absurd hl List.not_mem_nil, by decide, by decide +kernel, by decide +kernel⟩

/-- without `LinksResolve`: a coherent, valid state whose association is an instance of the *second* of two
classes named `A_X_Y` does not load (the name resolves to the first class, whose fields are `f`, `g`) -/
example : Inv Sample.cexLink ∧ Valid Sample.cexLang Sample.cexLink ∧ AttIdsDistinct Sample.cexLink ∧
    DefKeysDistinct Sample.cexLink ∧ AttNamesNonempty Sample.cexLink ∧
    (assocClasses Sample.cexLang).map (fun c => (c.cls, c.lf, c.rf)) = [("A_X_Y", "f", "g"), ("A_X_Y", "p", "q")] ∧
    ¬ LoadsTo (fromDoc Sample.cexLang (fun _ => true) (toDoc Sample.cexLang Sample.cexLink)) (fun _ => True) :=
  ⟨Sample.cexLink_inv, Sample.cexLink_valid, by decide, by decide, by decide, by decide, by decide +kernel⟩

/-- `toDoc` is not a function of `SameModel` alone: the explicitly set values are written in the order in which
they are stored (and explicitly set defaults are not written), so two states that show the same model can write
documents that differ in the order of the `defenses` member — as Python dictionaries these are equal -/
example : SameModel MS.Demo.lang Sample.stA Sample.stB ∧ toDoc MS.Demo.lang Sample.stA ≠ toDoc MS.Demo.lang Sample.stB := by
  decide +kernel

end MalVerif.C07
