import MalVerif.Proofs.InheritHLemmas
/-!
# C03 — step inheritance: override / extend, and the lookup is pure

Statements are about

* `Lang.foldSteps` (`Model/Inherit.lean`), the model of what
  `LanguageGraph._get_attacks_for_asset_type` returns, and
* `resolveH` / `runH` (`Model/InheritH.lean`), the model of the same function
  at the level of list objects in a store, where "leaves the loaded language
  specification unmodified" can be stated.

Part 1: keys.  Part 2: the three clauses ('->', '+>', no reaches clause) for a
chain extended by one level.  Part 3: the answer depends on the declarations
of the type and its ancestors only.  Part 4: purity (value, frame, histories),
and the pre-fix variant that writes into the specification.  Part 5: examples.
-/
namespace MalVerif.C03
open MalVerif

/-! ## Part 1 — keys -/

/-- the step names a type exposes are pairwise distinct -/
theorem foldSteps_keys_nodup (L : Lang) (t : String) : ((L.foldSteps t).map (·.1)).Nodup :=
  MalVerif.foldSteps_keys_nodup L t

/-- every exposed step is stored under the name its declaration carries -/
theorem foldSteps_key_is_name (L : Lang) (t : String) : ∀ e ∈ L.foldSteps t, e.2.name = e.1 :=
  MalVerif.foldSteps_key_eq_name L t

/-- with distinct keys, "the entry of `k` is `v`" and "`dictGet` answers `v`" are the same -/
theorem entry_iff_dictGet (d : List (String × StepDecl)) (hnd : (d.map (·.1)).Nodup) (k : String)
    (v : StepDecl) : (k, v) ∈ d ↔ dictGet d k = some v :=
  mem_iff_dGet hnd k v

theorem foldSteps_entry_iff (L : Lang) (t : String) (k : String) (v : StepDecl) :
    (k, v) ∈ L.foldSteps t ↔ dictGet (L.foldSteps t) k = some v :=
  entry_iff_dictGet _ (foldSteps_keys_nodup L t) k v

/-- distinct keys are preserved by one level of the fold -/
theorem fold_keys_nodup (acc : List (String × StepDecl)) (steps : List StepDecl)
    (hacc : (acc.map (·.1)).Nodup) : ((steps.foldl mergeStep acc).map (·.1)).Nodup :=
  dKeys_nodup_foldl_mergeStep steps hacc

/-! ## Part 2 — one more level: `acc` is what is inherited, `steps` the
declarations of the child (distinct names), `s` one of them -/

section OneLevel
variable (acc : List (String × StepDecl)) (steps : List StepDecl)
  (hnd : (steps.map (·.name)).Nodup)
include hnd

/-- a step the ancestors do not define is the child's declaration -/
theorem fold_new (s : StepDecl) (hs : s ∈ steps) (hnew : dictGet acc s.name = none) :
    dictGet (steps.foldl mergeStep acc) s.name = some s := by
  have := dGet_foldl_mergeStep_mem steps hnd acc s hs
  rw [show dGet acc s.name = none from hnew] at this
  exact this

/-- a redefinition without a reaches clause leaves the inherited definition untouched -/
theorem fold_absent (s : StepDecl) (hs : s ∈ steps) (inh : StepDecl)
    (hinh : dictGet acc s.name = some inh) (hr : s.reaches = none) :
    dictGet (steps.foldl mergeStep acc) s.name = some inh := by
  have := dGet_foldl_mergeStep_mem steps hnd acc s hs
  rw [show dGet acc s.name = some inh from hinh] at this
  rw [dictGet_eq_dGet]
  simpa [mergeVal, hr] using this

/-- '->' replaces the inherited definition by the child's declaration -/
theorem fold_override (s : StepDecl) (hs : s ∈ steps) (inh : StepDecl)
    (hinh : dictGet acc s.name = some inh) (r : Reaches) (hr : s.reaches = some r)
    (hov : r.overrides = true) :
    dictGet (steps.foldl mergeStep acc) s.name = some s := by
  have := dGet_foldl_mergeStep_mem steps hnd acc s hs
  rw [show dGet acc s.name = some inh from hinh] at this
  rw [dictGet_eq_dGet]
  simpa [mergeVal, hr, hov] using this

/-- '+>' keeps every inherited attribute (type, TTC, tags, meta, requires, the
inherited `overrides` flag) and appends the child's expressions to the inherited ones -/
theorem fold_extend (s : StepDecl) (hs : s ∈ steps) (inh : StepDecl)
    (hinh : dictGet acc s.name = some inh) (r : Reaches) (hr : s.reaches = some r)
    (hov : r.overrides = false) (ir : Reaches) (hir : inh.reaches = some ir) :
    dictGet (steps.foldl mergeStep acc) s.name =
      some { inh with reaches := some { overrides := ir.overrides, exprs := ir.exprs ++ r.exprs } } := by
  have := dGet_foldl_mergeStep_mem steps hnd acc s hs
  rw [show dGet acc s.name = some inh from hinh] at this
  rw [dictGet_eq_dGet]
  simpa [mergeVal, hr, hov, hir] using this

/-- '+>' on an inherited step without a reaches clause: the child's expressions, not overriding -/
theorem fold_extend_noreach (s : StepDecl) (hs : s ∈ steps) (inh : StepDecl)
    (hinh : dictGet acc s.name = some inh) (r : Reaches) (hr : s.reaches = some r)
    (hov : r.overrides = false) (hir : inh.reaches = none) :
    dictGet (steps.foldl mergeStep acc) s.name =
      some { inh with reaches := some { overrides := false, exprs := r.exprs } } := by
  have := dGet_foldl_mergeStep_mem steps hnd acc s hs
  rw [show dGet acc s.name = some inh from hinh] at this
  rw [dictGet_eq_dGet]
  simpa [mergeVal, hr, hov, hir] using this

/-- insertion order: inherited keys keep their position, new keys are appended
in declaration order -/
theorem fold_order :
    (steps.foldl mergeStep acc).map (·.1) =
      acc.map (·.1) ++ (steps.map (·.name)).filter (fun n => decide (n ∉ acc.map (·.1))) :=
  dKeys_foldl_mergeStep steps hnd acc

end OneLevel

/-- names the child does not declare keep their entry -/
theorem fold_untouched (acc : List (String × StepDecl)) (steps : List StepDecl) (k : String)
    (hk : k ∉ steps.map (·.name)) : dictGet (steps.foldl mergeStep acc) k = dictGet acc k :=
  dGet_foldl_mergeStep_untouched steps acc k hk

/-- an unknown type exposes nothing -/
theorem foldSteps_unknown (L : Lang) (t : String) (h : L.findAsset t = none) : L.foldSteps t = [] := by
  simp [Lang.foldSteps, Lang.chain, h]

/-- a root type exposes its own declarations -/
theorem foldSteps_root (L : Lang) (t : String) (a : AssetDecl) (h : L.findAsset t = some a)
    (hs : a.superAsset = none) : L.foldSteps t = a.steps.foldl mergeStep [] := by
  simp [Lang.foldSteps, Lang.chain, h, hs]

/-- a type that extends `p` exposes what `p` exposes, merged with its own
declarations (the hypothesis says the `extends` chain of `t` is not cyclic) -/
theorem foldSteps_child (L : Lang) (t : String) (a : AssetDecl) (p : String)
    (h : L.findAsset t = some a) (hs : a.superAsset = some p)
    (hok : L.chainOK (L.assets.length + 1) t = true) :
    L.foldSteps t = a.steps.foldl mergeStep (L.foldSteps p) := by
  have hokp : L.chainOK L.assets.length p = true := by
    simpa [Lang.chainOK, h, hs] using hok
  have hp := (chain_fuel L _ p hokp (L.assets.length + 1) (Nat.le_succ _)).1
  unfold Lang.foldSteps
  rw [hp]
  simp [Lang.chain, h, hs]

/-- the clauses on the language itself: for a step `s` the child declares, the
child exposes `mergeVal (what the parent exposes under that name) s`, where
`mergeVal none s = s`, `mergeVal (some i) s = i` without reaches clause, `= s`
for '->', `= i` with the expressions of `s` appended for '+>' -/
theorem foldSteps_child_declared (L : Lang) (t : String) (a : AssetDecl) (p : String)
    (h : L.findAsset t = some a) (hs : a.superAsset = some p)
    (hok : L.chainOK (L.assets.length + 1) t = true) (hnd : (a.steps.map (·.name)).Nodup)
    (s : StepDecl) (hmem : s ∈ a.steps) :
    dictGet (L.foldSteps t) s.name = some (mergeVal (dictGet (L.foldSteps p) s.name) s) := by
  rw [foldSteps_child L t a p h hs hok]
  exact dGet_foldl_mergeStep_mem a.steps hnd _ s hmem

/-- … and for a name the child does not declare, exactly what the parent exposes -/
theorem foldSteps_child_inherited (L : Lang) (t : String) (a : AssetDecl) (p : String)
    (h : L.findAsset t = some a) (hs : a.superAsset = some p)
    (hok : L.chainOK (L.assets.length + 1) t = true) (k : String) (hk : k ∉ a.steps.map (·.name)) :
    dictGet (L.foldSteps t) k = dictGet (L.foldSteps p) k := by
  rw [foldSteps_child L t a p h hs hok]
  exact fold_untouched _ _ k hk

/-! ## Part 3 — the answer depends on the type and its ancestors only -/

/-- `foldSteps` is a function of the chain of `t` -/
theorem fold_local (L L' : Lang) (t : String)
    (h : L.chain (L.assets.length + 1) t = L'.chain (L'.assets.length + 1) t) :
    L.foldSteps t = L'.foldSteps t := by
  unfold Lang.foldSteps; rw [h]

/-- the chain is the same in two languages that agree on the declarations
looked up along it (`t`, its ancestors) when neither walk is cut by the fuel
(no `extends` cycle) -/
theorem chain_eq_of_agree (L L' : Lang) (t : String)
    (hok : L.chainOK (L.assets.length + 1) t = true)
    (hok' : L'.chainOK (L'.assets.length + 1) t = true)
    (hag : ∀ n ∈ L.chainNames (L.assets.length + 1) t, L'.findAsset n = L.findAsset n) :
    L.chain (L.assets.length + 1) t = L'.chain (L'.assets.length + 1) t := by
  have h1 := chain_agree L L' _ t hag
  rcases Nat.le_total (L.assets.length + 1) (L'.assets.length + 1) with hle | hle
  · -- extend the walk of `L` to the larger fuel, transfer, done
    have h2 := chain_fuel L _ t hok _ hle
    have hag' : ∀ n ∈ L.chainNames (L'.assets.length + 1) t, L'.findAsset n = L.findAsset n := by
      have h3 := chain_agree L L (L.assets.length + 1) t (fun _ _ => rfl)
      -- names with more fuel: the walk is complete, so no new name appears
      have : L.chainNames (L'.assets.length + 1) t = L.chainNames (L.assets.length + 1) t := by
        clear h1 h2 h3 hag hok'
        generalize L.assets.length + 1 = k at hok hle
        generalize L'.assets.length + 1 = k' at hle
        induction k generalizing t k' with
        | zero => simp [Lang.chainOK] at hok
        | succ f ih =>
          obtain ⟨f', rfl⟩ : ∃ f', k' = f' + 1 := ⟨k' - 1, by omega⟩
          simp only [Lang.chainOK, Lang.chainNames] at hok ⊢
          cases hfa : L.findAsset t with
          | none => rfl
          | some a =>
            simp only [hfa] at hok ⊢
            cases hsa : a.superAsset with
            | none => rfl
            | some s =>
              simp only [hsa] at hok ⊢
              rw [ih s hok f' (by omega)]
      rw [this]; exact hag
    have h4 := chain_agree L L' _ t hag'
    rw [h4.1, h2.1]
  · have h2 := chain_fuel L' _ t hok' _ hle
    rw [← h1.1, h2.1]

/-- **locality**: what a type exposes is determined by the declarations of the
type and of its ancestors -/
theorem fold_local_of_agree (L L' : Lang) (t : String)
    (hok : L.chainOK (L.assets.length + 1) t = true)
    (hok' : L'.chainOK (L'.assets.length + 1) t = true)
    (hag : ∀ n ∈ L.chainNames (L.assets.length + 1) t, L'.findAsset n = L.findAsset n) :
    L.foldSteps t = L'.foldSteps t :=
  fold_local L L' t (chain_eq_of_agree L L' t hok hok' hag)

/-- … in particular it never depends on what descendants or siblings declare:
two languages whose declaration lists coincide once restricted to the names on
the chain of `t` (declarations of other types added, removed, changed at will)
give the same answer -/
theorem fold_independent_of_others (L L' : Lang) (t : String)
    (hok : L.chainOK (L.assets.length + 1) t = true)
    (hok' : L'.chainOK (L'.assets.length + 1) t = true)
    (hsame : L'.assets.filter (fun a => decide (a.name ∈ L.chainNames (L.assets.length + 1) t)) =
             L.assets.filter (fun a => decide (a.name ∈ L.chainNames (L.assets.length + 1) t))) :
    L.foldSteps t = L'.foldSteps t :=
  fold_local_of_agree L L' t hok hok' (fun n hn => findAsset_of_filter_eq L L' _ hsame n hn)

/-! ## Part 4 — purity -/

/-- **value**: the resolver's answer, read through the store it leaves, is the
pure fold over the specification read from the store it was given -/
theorem resolve_value (LH : LangH) (base : Nat) (σ : Store) (hwf : LH.WF base)
    (hb : base ≤ σ.length) (t : String) :
    readAcc (resolveH LH σ t).1 (resolveH LH σ t).2 = (readLang σ LH).foldSteps t := by
  have h := (resolveHG_sim LH base hwf (LH.assets.length + 1) σ t hb).2.2.2
  have hl : (readLang σ LH).assets.length = LH.assets.length := by simp [readLang]
  unfold resolveH Lang.foldSteps
  rw [hl]; exact h

/-- **frame**: every location of the specification (`< base`) — in fact every
location that existed before the call — has the same content afterwards; the
store only grows; the specification read back is the same value -/
theorem resolve_frame (LH : LangH) (base : Nat) (σ : Store) (hwf : LH.WF base)
    (hb : base ≤ σ.length) (t : String) :
    (∀ l < base, (resolveH LH σ t).1[l]? = σ[l]?) ∧
    (∀ l < σ.length, (resolveH LH σ t).1[l]? = σ[l]?) ∧
    σ.length ≤ (resolveH LH σ t).1.length ∧
    readLang (resolveH LH σ t).1 LH = readLang σ LH := by
  have h := resolveHG_sim LH base hwf (LH.assets.length + 1) σ t hb
  have h3 : ∀ l < σ.length, (resolveH LH σ t).1[l]? = σ[l]? := h.2.2.1
  exact ⟨fun l hl => h3 l (Nat.lt_of_lt_of_le hl hb), h3, h.2.1,
    readLang_frame hwf (fun l hl => h3 l (Nat.lt_of_lt_of_le hl hb))⟩

/-- **invariant**: every list object the answer holds was allocated during the
call (its location is `≥` the size of the store at entry, hence `≥ base`: no
list of the specification is aliased) and no two entries share one -/
theorem resolve_fresh (LH : LangH) (base : Nat) (σ : Store) (hwf : LH.WF base)
    (hb : base ≤ σ.length) (t : String) :
    (∀ e ∈ (resolveH LH σ t).2, ∀ ov l, e.2.reaches = some (ov, l) →
      base ≤ l ∧ σ.length ≤ l ∧ l < (resolveH LH σ t).1.length) ∧
    (∀ e ∈ (resolveH LH σ t).2, ∀ e' ∈ (resolveH LH σ t).2, ∀ ov ov' l,
      e.2.reaches = some (ov, l) → e'.2.reaches = some (ov', l) → e = e') := by
  have h := (resolveHG_sim LH base hwf (LH.assets.length + 1) σ t hb).1
  constructor
  · intro e he ov l hr
    have := h.bound e.1 e.2 ov l (dGet_of_mem h.nodup he) hr
    exact ⟨Nat.le_trans hb this.1, this.1, this.2⟩
  · intro e he e' he' ov ov' l hr hr'
    have hg := dGet_of_mem h.nodup he
    have hg' := dGet_of_mem h.nodup he'
    have hk := h.inj _ _ _ _ _ _ _ hg hg' hr hr'
    have : e.2 = e'.2 := by
      rw [hk] at hg; rw [hg] at hg'; exact Option.some.inj hg'
    exact Prod.ext hk this

/-- **histories**: for every list of queried type names (any order, any
repetition) every location that existed before is unchanged at the end, the
specification read back is the same, and every answer — read through the
*final* store, i.e. also after all later queries — is the pure fold -/
theorem resolve_history (LH : LangH) (base : Nat) (hwf : LH.WF base) (qs : List String) :
    ∀ (σ : Store), base ≤ σ.length →
    (∀ l < σ.length, (runH LH σ qs).1[l]? = σ[l]?) ∧
    σ.length ≤ (runH LH σ qs).1.length ∧
    readLang (runH LH σ qs).1 LH = readLang σ LH ∧
    (runH LH σ qs).2.map (readAcc (runH LH σ qs).1) = qs.map (readLang σ LH).foldSteps := by
  induction qs with
  | nil => intro σ _; simp [runH]
  | cons t ts ih =>
    intro σ hb
    obtain ⟨_, f1, l1, r1⟩ := resolve_frame LH base σ hwf hb t
    have v1 := resolve_value LH base σ hwf hb t
    have i1 := (resolveHG_sim LH base hwf (LH.assets.length + 1) σ t hb).1
    obtain ⟨f2, l2, r2, v2⟩ := ih (resolveH LH σ t).1 (Nat.le_trans hb l1)
    simp only [runH]
    refine ⟨fun l hl => (f2 l (Nat.lt_of_lt_of_le hl l1)).trans (f1 l hl), Nat.le_trans l1 l2,
      r2.trans r1, ?_⟩
    rw [List.map_cons, List.map_cons, v2, r1]
    congr 1
    rw [← v1]
    exact readAcc_frame i1 (fun l _ hl => f2 l hl)

/-- the specification part of the store, as a corollary -/
theorem resolve_history_spec_unchanged (LH : LangH) (base : Nat) (hwf : LH.WF base)
    (qs : List String) (σ : Store) (hb : base ≤ σ.length) :
    ∀ l < base, (runH LH σ qs).1[l]? = σ[l]? :=
  fun l hl => (resolve_history LH base hwf qs σ hb).1 l (Nat.lt_of_lt_of_le hl hb)

/-- loading a specification puts all its lists below `base` = size of the
store, and reading it back gives the specification -/
theorem loadLang_wf (L : Lang) : (loadLang L).2.WF (loadLang L).1.length ∧
    readLang (loadLang L).1 (loadLang L).2 = L := by
  obtain ⟨_, _, h3, h4⟩ := loadAssets_spec L.assets []
  refine ⟨h3, ?_⟩
  unfold readLang loadLang
  simp only
  rw [h4 _ (fun _ _ => rfl)]

/-- **histories, from a loaded specification**: whatever is asked, in whatever
order, every answer is `foldSteps L t` and the specification is still `L` -/
theorem resolve_history_loaded (L : Lang) (qs : List String) :
    (runH (loadLang L).2 (loadLang L).1 qs).2.map (readAcc (runH (loadLang L).2 (loadLang L).1 qs).1) =
      qs.map L.foldSteps ∧
    readLang (runH (loadLang L).2 (loadLang L).1 qs).1 (loadLang L).2 = L ∧
    ∀ l < (loadLang L).1.length,
      (runH (loadLang L).2 (loadLang L).1 qs).1[l]? = (loadLang L).1[l]? := by
  obtain ⟨hwf, hrd⟩ := loadLang_wf L
  obtain ⟨f, _, r, v⟩ := resolve_history _ _ hwf qs (loadLang L).1 (Nat.le_refl _)
  rw [hrd] at r v
  exact ⟨v, r, f⟩

/-! ### the code before the fix -/

/-- `P{s}` ← `C{s +> a}` ← `G{s +> b}` -/
def aliasLang : Lang := { assets := [
  { name := "P", steps := [{ name := "s", type := "or" }] },
  { name := "C", superAsset := some "P",
    steps := [{ name := "s", type := "or", reaches := some { overrides := false, exprs := [.step "a"] } }] },
  { name := "G", superAsset := some "C",
    steps := [{ name := "s", type := "or", reaches := some { overrides := false, exprs := [.step "b"] } }] }] }

/-- the model can express the defect: with the pre-fix last branch, a query on
the grandchild writes into a location of the specification (here location 0,
the list of `C.s`, below `base = 2`), on a well-formed loaded specification -/
theorem aliasing_variant_writes_spec :
    (loadLang aliasLang).2.WF (loadLang aliasLang).1.length ∧
    (loadLang aliasLang).1.length = 2 ∧
    (loadLang aliasLang).1[0]? = some [Expr.step "a"] ∧
    (resolveH_aliasing (loadLang aliasLang).2 (loadLang aliasLang).1 "G").1[0]? =
      some [Expr.step "a", Expr.step "b"] :=
  ⟨(loadLang_wf aliasLang).1, by decide, by decide, by decide⟩

/-- … so the specification read back differs, the list grows by one element
per query, and later answers are wrong -/
theorem aliasing_variant_history :
    readLang (runH_aliasing (loadLang aliasLang).2 (loadLang aliasLang).1 ["G", "G"]).1
        (loadLang aliasLang).2 ≠ aliasLang ∧
    (runH_aliasing (loadLang aliasLang).2 (loadLang aliasLang).1 ["G", "G"]).1[0]? =
      some [Expr.step "a", Expr.step "b", Expr.step "b"] ∧
    (runH_aliasing (loadLang aliasLang).2 (loadLang aliasLang).1 ["G", "C"]).2.map
        (readAcc (runH_aliasing (loadLang aliasLang).2 (loadLang aliasLang).1 ["G", "C"]).1) ≠
      ["G", "C"].map aliasLang.foldSteps := by
  refine ⟨?_, by decide, by decide⟩
  intro h
  have : (readLang (runH_aliasing (loadLang aliasLang).2 (loadLang aliasLang).1 ["G", "G"]).1
      (loadLang aliasLang).2).foldSteps "C" = aliasLang.foldSteps "C" := by rw [h]
  revert this; decide

/-- the fixed resolver on the same input: specification untouched (instance of `resolve_frame`) -/
example : (resolveH (loadLang aliasLang).2 (loadLang aliasLang).1 "G").1 =
    [[Expr.step "a"], [Expr.step "b"], [Expr.step "a", Expr.step "b"]] := by decide

/-! ## Part 5 — non-vacuity -/

/-- depth 3, every kind of redefinition:
`P {a -> x; b; c -> y; d}`,
`C extends P {a +> z; b +> w; c -> v; e -> x}`,
`G extends C {a +> u; d; c +> q; b; f}`, and a sibling `S extends P {a -> s}` -/
def exLang : Lang := { assets := [
  { name := "P", steps := [
      { name := "a", type := "or", reaches := some { overrides := true, exprs := [.step "x"] } },
      { name := "b", type := "and" },
      { name := "c", type := "or", tags := ["t"], reaches := some { overrides := true, exprs := [.step "y"] } },
      { name := "d", type := "defense" }] },
  { name := "C", superAsset := some "P", steps := [
      { name := "a", type := "and", reaches := some { overrides := false, exprs := [.step "z"] } },
      { name := "b", type := "or", reaches := some { overrides := false, exprs := [.step "w"] } },
      { name := "c", type := "and", reaches := some { overrides := true, exprs := [.step "v"] } },
      { name := "e", type := "or", reaches := some { overrides := true, exprs := [.step "x"] } }] },
  { name := "S", superAsset := some "P", steps := [
      { name := "a", type := "or", reaches := some { overrides := true, exprs := [.step "s"] } }] },
  { name := "G", superAsset := some "C", steps := [
      { name := "a", type := "or", reaches := some { overrides := false, exprs := [.step "u"] } },
      { name := "d", type := "or" },
      { name := "c", type := "or", reaches := some { overrides := false, exprs := [.step "q"] } },
      { name := "b", type := "or" },
      { name := "f", type := "or" }] }] }

example : exLang.foldSteps "G" =
    [("a", { name := "a", type := "or",
             reaches := some { overrides := true, exprs := [.step "x", .step "z", .step "u"] } }),
     ("b", { name := "b", type := "and", reaches := some { overrides := false, exprs := [.step "w"] } }),
     ("c", { name := "c", type := "and", reaches := some { overrides := true, exprs := [.step "v", .step "q"] } }),
     ("d", { name := "d", type := "defense" }),
     ("e", { name := "e", type := "or", reaches := some { overrides := true, exprs := [.step "x"] } }),
     ("f", { name := "f", type := "or" })] := by decide

/-- the hypotheses of Part 2 and Part 3 are satisfiable: the walks are complete, names distinct -/
example : exLang.chainOK (exLang.assets.length + 1) "G" = true := by decide
example : exLang.chainNames (exLang.assets.length + 1) "G" = ["G", "C", "P"] := by decide
example : ∀ a ∈ exLang.assets, (a.steps.map (·.name)).Nodup := by decide

/-- removing the sibling `S` and the descendant `G` does not change what `C` exposes
(an instance of `fold_independent_of_others`) -/
example : ({ assets := exLang.assets.filter (fun a => a.name = "P" || a.name = "C") } : Lang).foldSteps "C"
    = exLang.foldSteps "C" := by decide

/-- a history on the loaded example: shuffled, repeated queries (instance of
`resolve_history_loaded`, here computed) -/
example :
    let r := runH (loadLang exLang).2 (loadLang exLang).1 ["G", "C", "G", "S", "P", "G", "nope"]
    r.2.map (readAcc r.1) = ["G", "C", "G", "S", "P", "G", "nope"].map exLang.foldSteps ∧
    r.1.take (loadLang exLang).1.length = (loadLang exLang).1 ∧
    (loadLang exLang).1.length = 9 ∧ r.1.length = 34 := by decide

end MalVerif.C03
