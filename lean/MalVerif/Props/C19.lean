import MalVerif.Proofs.NeoLemmas
/-!
# C19 — the Neo4j export is isomorphic to what is exported, and the import inverts it

*Ingesting a model sends exactly one database node per asset (id, name, type) and, for each linked pair of assets,
one relationship per direction labelled with the respective field name; ingesting an attack graph sends one node
per attack step with its attributes and one relationship per edge.  Reading a model back from what was ingested
reconstructs the same assets and links.*

`Neo.ingestModel` / `Neo.ingestGraph` model what `ingest_model` / `ingest_attack_graph` hand to the database driver
(a `Subgraph`: a list of nodes and a *set* of relationships between node positions), `Neo.queryAssets` /
`Neo.queryPairs` the two fixed Cypher queries of `get_model`, `Neo.getModel` the function `get_model`
(`MalVerif/Model/Neo4j.lean`).  The database itself is a recording stand-in in the correspondence check (trusted):
what is proved is the round trip through the recorded subgraph.

Results (for every language and every state):

* `ingest_nodes_bij`: one node per asset, in model order, with type, name, the decimal text of the id and the type
  as label; under coherence distinct assets have distinct `asset_id`s and the node at the position of an asset is its
  node;
* `ingest_rels`: a relationship is sent iff it is `x -[left field]-> y` or `y -[right field]-> x` for a pair
  `(x, y) ∈ left × right` of a link; no relationship twice;
* `ingest_graph_iso`: one node per attack step in order with its attributes, `pos r -> pos c` for every child `c` of
  every step `r` and nothing else, none twice;
* `query_pairs_spec`: the second query returns `(a, f, g, b)` iff `a -[f]-> b` and `b -[g]-> a` are two different
  relationships of the subgraph;
* `get_model_asset_loop`, `get_model_assets`: the asset loop succeeds, and a read-back model has one asset per asset
  with the same id, name and type (defense values are not exported: every defense has its default; no extras);
* `get_model_inverts`: the read-back succeeds and the links of the result are exactly the pairwise expansion of the
  links of the model (one binary association of the same class per (left member, right member) pair, none twice,
  nothing else).  Hypotheses beyond coherence and validity:
  - `PairsResolve` (as in C18), `NoFirstSteps`, no asset type called `Attacker`;
  - `NoMixedMatch`: a row that pairs the relationship of one link with the opposite relationship of *another* link
    and is not the pair of relationships of any link is matched by no declaration (so it is skipped);
  - `FieldsDiffer`: the two fields of a link have different names.
  `resolution_of_unique_fields`: all of these follow, for every coherent valid model, when the association nodes of
  the graph are the declarations, class names are distinct and no two association ends share a field name.
  Both extra hypotheses are necessary: `fields_differ_needed` (an association whose two fields have the same name
  comes back in both directions) and `no_mixed_match_needed` (a third declaration with the left field of one and
  the right field of another association between the same types comes back as a spurious link).
* `get_model_computable`: `get_model ∘ ingest_model` with the ids taken from the model instead of being parsed back
  from their text — the form on which the examples are evaluated (the kernel does not evaluate `String.toInt?`).
-/
namespace MalVerif.C19
open MalVerif.MS MalVerif.Ser MalVerif.Legacy MalVerif.Neo

/-! ### `ingest_model` -/

/-- one node per asset, in order (label = type, name, `asset_id` = decimal text of the id, type); distinct assets
have distinct `asset_id`s; the node at the position of an asset is the node of that asset -/
theorem ingest_nodes_bij (s : St) :
    (ingestModel s).nodes = s.assets.map (fun a =>
      ⟨(s.aobj a).type, (s.aobj a).name, toString (s.aobj a).id, (s.aobj a).type⟩) ∧
    (Inv s → ∀ a ∈ s.assets, ∀ b ∈ s.assets, toString (s.aobj a).id = toString (s.aobj b).id → a = b) ∧
    (Inv s → ((ingestModel s).nodes.map (·.assetId)).Nodup) ∧
    (∀ a ∈ s.assets, pos s a < (ingestModel s).nodes.length ∧ (ingestModel s).nodes[pos s a]? = some (nodeOf s a)) ∧
    (∀ a ∈ s.assets, ∀ b ∈ s.assets, pos s a = pos s b → a = b) := by
  refine ⟨rfl, ?_, ?_, ?_, ?_⟩
  · intro h a ha b hb e
    exact h.assets.ids_inj a ha b hb (toString_int_inj e)
  · intro h
    rw [ingestModel_nodes, List.map_map]
    apply nodup_map_of_inj _ _ h.assets.nodup
    intro a ha b hb e
    exact h.assets.ids_inj a ha b hb (toString_int_inj e)
  · intro a ha
    exact ⟨by rw [ingestModel_nodes, List.length_map]; exact pos_lt ha, node_at_pos ha⟩
  · intro a ha b hb e
    exact pos_inj ha hb e

/-- the position of an asset: its index in `model.assets` -/
theorem pos_spec (s : St) (a : Nat) (ha : a ∈ s.assets) : ∃ h : pos s a < s.assets.length, s.assets[pos s a] = a :=
  ⟨pos_lt ha, getElem_pos ha⟩

/-- exactly one relationship per direction for every linked pair, labelled with the respective field name, and
nothing else -/
theorem ingest_rels (s : St) :
    (∀ r, r ∈ (ingestModel s).rels ↔
      ∃ l ∈ s.associations, ∃ x ∈ (s.lobj l).left, ∃ y ∈ (s.lobj l).right,
        r = ⟨pos s x, (s.lobj l).lf, pos s y⟩ ∨ r = ⟨pos s y, (s.lobj l).rf, pos s x⟩) ∧
    (ingestModel s).rels.Nodup :=
  ⟨mem_ingestModel_rels s, ingestModel_rels_nodup s⟩

/-- under coherence the two ends of every relationship are positions of live assets -/
theorem ingest_rels_ends (s : St) (h : Inv s) (r : DbRel) (hr : r ∈ (ingestModel s).rels) :
    ∃ u ∈ s.assets, ∃ w ∈ s.assets, r.src = pos s u ∧ r.dst = pos s w := by
  obtain ⟨u, hu, w, hw, e, _⟩ := rel_halfEdge h hr
  exact ⟨u, hu, w, hw, by rw [e], by rw [e]⟩

/-! ### `ingest_attack_graph` -/

/-- one node per attack step, in order, with its attributes; one relationship per edge, none twice, nothing else -/
theorem ingest_graph_iso (tn : AGraph.NType → String) (g : AGS.St) :
    (ingestGraph tn g).nodes = g.nodes.map (fun r =>
      { label := (match (g.nobj r).asset with | some a => a | none => toString (g.nobj r).id),
        name := (g.nobj r).name, fullName := AGS.fullName (g.nobj r), type := tn (g.nobj r).type, ttc := (g.nobj r).ttc,
        necessary := (g.nobj r).necessary, viable := (g.nobj r).viable,
        compBy := (g.nobj r).compBy.map (fun a => (g.aobj a).name), defense := (g.nobj r).defense }) ∧
    (∀ e, e ∈ (ingestGraph tn g).rels ↔ ∃ r ∈ g.nodes, ∃ c ∈ (g.nobj r).children, e = (gpos g r, gpos g c)) ∧
    (ingestGraph tn g).rels.Nodup := by
  refine ⟨rfl, ?_, ?_⟩
  · intro e
    rw [ingestGraph_rels, mem_foldl_setIns]
    simp only [List.not_mem_nil, false_or, List.mem_flatMap, List.mem_map]
    constructor
    · rintro ⟨r, hr, c, hc, rfl⟩; exact ⟨r, hr, c, hc, rfl⟩
    · rintro ⟨r, hr, c, hc, rfl⟩; exact ⟨r, hr, c, hc, rfl⟩
  · rw [ingestGraph_rels]; exact nodup_foldl_setIns _ _ List.nodup_nil

/-- positions in the node list of the graph: the index of a step of the graph, injective -/
theorem graph_pos_spec (g : AGS.St) (r : Nat) (hr : r ∈ g.nodes) :
    ∃ h : gpos g r < g.nodes.length, g.nodes[gpos g r] = r := by
  unfold gpos
  cases h : g.nodes.idxOf? r with
  | none => exact absurd hr (List.idxOf?_eq_none_iff.1 h)
  | some i => obtain ⟨hi, e, _⟩ := List.idxOf?_eq_some_iff.1 h; exact ⟨hi, e⟩

/-! ### the second query -/

theorem query_pairs_spec (sub : Sub) (a : Nat) (f g : String) (b : Nat) :
    (a, f, g, b) ∈ queryPairs sub ↔
      ∃ r1 ∈ sub.rels, ∃ r2 ∈ sub.rels, r1 ≠ r2 ∧ r1 = ⟨a, f, b⟩ ∧ r2 = ⟨b, g, a⟩ := mem_queryPairs sub a f g b

/-- the first query returns every node with its position -/
theorem query_assets_spec (sub : Sub) : (queryAssets sub).map (·.2) = sub.nodes ∧
    ∀ e ∈ queryAssets sub, sub.nodes[e.1]? = some e.2 := by
  refine ⟨queryAssets_snd sub, ?_⟩
  intro e he
  unfold queryAssets at he
  obtain ⟨i, hi⟩ := List.mem_iff_getElem?.1 he
  rw [List.getElem?_zip_eq_some] at hi
  obtain ⟨h1, h2⟩ := hi
  obtain ⟨_, e1⟩ := List.getElem?_eq_some_iff.1 h1
  rw [List.getElem_range] at e1
  rw [← e1]; exact h2

/-! ### `get_model` -/

/-- `int(str(id)) = id` (C07 `key_roundtrip`): `get_model ∘ ingest_model` does not depend on the text of the ids -/
theorem get_model_computable (L : Lang) (nodes : List AssocDecl) (s : St) :
    getModel L nodes (ingestModel s) = getModelK L nodes s := getModel_eq_K L nodes s

/-- the asset loop of `get_model` over the ingested nodes succeeds (ids and names are distinct, so no asset is
rejected or renamed) -/
theorem get_model_asset_loop (L : Lang) (s : St) (h : Inv s)
    (hk : ∀ a ∈ s.assets, (L.findAsset (s.aobj a).type).isSome = true)
    (hna : ∀ a ∈ s.assets, (s.aobj a).type ≠ "Attacker") :
    ∃ s1, (queryAssets (ingestModel s)).foldlM (fun s e => assetStepN L s e.2) ({} : St) = .ok s1 ∧ Inv s1 ∧
      s1.assets.map (assetView L s1) =
        s.assets.map (fun a => ⟨(s.aobj a).id, (s.aobj a).name, (s.aobj a).type, defensesOf L (s.aobj a).type, "{}"⟩) ∧
      s1.associations = [] ∧ s1.attackers = [] := by
  obtain ⟨s1, h1, hi1, hobjs, hl1, ht1⟩ := getModelAssets_ingest L s h hk hna
  refine ⟨s1, by rw [assetLoop_eq]; exact h1, hi1, ?_, hl1, ht1⟩
  have : s1.assets.map (assetView L s1) = (s1.assets.map s1.aobj).map (objView L) := by rw [List.map_map]; rfl
  rw [this, hobjs, List.map_map]
  exact List.map_congr_left (fun a _ => objView_bare L (s.aobj a))

/-- a model read back from what was ingested has one asset per asset of `s`, in order, with the same id, name and
type; every defense has its default value (defense values are not exported), no extras -/
theorem get_model_assets (L : Lang) (nodes : List AssocDecl) (s s' : St) (h : Inv s)
    (hk : ∀ a ∈ s.assets, (L.findAsset (s.aobj a).type).isSome = true)
    (hna : ∀ a ∈ s.assets, (s.aobj a).type ≠ "Attacker") (hload : getModel L nodes (ingestModel s) = .ok s') :
    s'.assets.map (assetView L s') =
      s.assets.map (fun a => ⟨(s.aobj a).id, (s.aobj a).name, (s.aobj a).type, defensesOf L (s.aobj a).type, "{}"⟩) := by
  rw [(getModel_assets_of_ok L nodes s s' h hk hna hload).1]
  exact List.map_congr_left (fun a _ => objView_bare L (s.aobj a))

/-- reading back what was ingested succeeds, and the links of the reconstructed model are exactly the pairwise
expansion of the links of `s`: for every link `l` and every `x ∈ left`, `y ∈ right` one binary association of the
class of `l` with `[x]` / `[y]` (by id), none twice, and nothing else -/
theorem get_model_inverts (L : Lang) (nodes : List AssocDecl) (s : St) (h : Inv s) (hv : Valid L s)
    (hna : ∀ a ∈ s.assets, (s.aobj a).type ≠ "Attacker") (hr : PairsResolve L nodes s) (hm : NoMixedMatch L nodes s)
    (hfs : NoFirstSteps s) (hfd : FieldsDiffer s) :
    ∃ s', getModel L nodes (ingestModel s) = .ok s' ∧ Inv s' ∧
      s'.assets.map (assetView L s') =
        s.assets.map (fun a => ⟨(s.aobj a).id, (s.aobj a).name, (s.aobj a).type, defensesOf L (s.aobj a).type, "{}"⟩) ∧
      (∀ v, v ∈ s'.associations.map (assocView s') ↔
        ∃ l ∈ s.associations, ∃ x ∈ (s.lobj l).left, ∃ y ∈ (s.lobj l).right,
          v = ⟨(s.lobj l).cls, (s.lobj l).lf, [(s.aobj x).id], (s.lobj l).rf, [(s.aobj y).id], "{}"⟩) ∧
      (s'.associations.map (assocView s')).Nodup ∧
      (s'.associations.map (assocView s')).Perm ((pairsOf s).map Pair.view) ∧ s'.attackers = [] := by
  obtain ⟨s', h1, h2, h3, h4, h5, h6⟩ := getModel_ingest L nodes s h hv hna hr hm hfs hfd
  have hnd : ((pairsOf s).map Pair.view).Nodup := by
    apply nodup_of_map (fun v : AssocView => (v.cls, v.left, v.right))
    rw [List.map_map]
    have : ((fun v : AssocView => (v.cls, v.left, v.right)) ∘ Pair.view) =
        (fun k : String × Int × Int => (k.1, [k.2.1], [k.2.2])) ∘ Pair.key := rfl
    rw [this, ← List.map_map]
    apply nodup_map_of_inj _ _ (pairKeys_nodup h hv)
    intro a _ b _ e
    simp only [Prod.mk.injEq, List.cons.injEq, and_true] at e
    exact Prod.ext e.1 (Prod.ext e.2.1 e.2.2)
  refine ⟨s', h1, h2, ?_, ?_, h5, (List.perm_ext_iff_of_nodup h5 hnd).2 h4, h6⟩
  · rw [h3]; exact List.map_congr_left (fun a _ => objView_bare L (s.aobj a))
  · intro v
    rw [h4, List.mem_map]
    constructor
    · rintro ⟨p, hp, rfl⟩
      obtain ⟨l, hl, x, hx, y, hy, rfl⟩ := (mem_pairsOf s p).1 hp
      exact ⟨l, hl, x, hx, y, hy, rfl⟩
    · rintro ⟨l, hl, x, hx, y, hy, rfl⟩
      exact ⟨_, (mem_pairsOf s _).2 ⟨l, hl, x, hx, y, hy, rfl⟩, rfl⟩

/-- all hypotheses of `get_model_inverts` on the links hold for every coherent valid model when the association
nodes of the language graph are the declarations, the generated class names are distinct, no two association ends
share a field name, and no field is called `firstSteps` -/
theorem resolution_of_unique_fields (L : Lang) (nodes : List AssocDecl) (s : St) (h : Inv s) (hv : Valid L s)
    (hn : ∀ a ∈ L.assocs, a ∈ nodes) (hd : ClassNamesDistinct L) (hu : FieldsUnique nodes)
    (hf : ∀ a ∈ L.assocs, a.leftField ≠ "firstSteps" ∧ a.rightField ≠ "firstSteps") :
    PairsResolve L nodes s ∧ NoMixedMatch L nodes s ∧ NoFirstSteps s ∧ FieldsDiffer s := by
  refine ⟨pairsResolve_of_fields hd (fieldsIdentify_of_unique hn hu) hv h, noMixedMatch_of_unique hn hu hv h, ?_,
    fieldsDiffer_of_unique hn hu hv⟩
  intro l hl
  obtain ⟨c, hc, hi⟩ := hv.links l hl
  obtain ⟨a, ha, rfl⟩ := (C06.mem_assocClasses L c).1 hc
  rw [hi.lf, hi.rf]
  exact hf a ha

/-! ### the two extra hypotheses are necessary -/

/-- without `FieldsDiffer`: an association whose two fields are both called `peers`; the one link `a → b` comes back
as two links `a → b` and `b → a` -/
theorem fields_differ_needed :
    Inv Neo.Sample.symSt ∧ Valid Neo.Sample.symLang Neo.Sample.symSt ∧ ¬ FieldsDiffer Neo.Sample.symSt ∧
    Neo.Sample.symSt.associations.map (assocView Neo.Sample.symSt) = [⟨"Peer", "peers", [1], "peers", [2], "{}"⟩] ∧
    LoadsTo (getModel Neo.Sample.symLang Neo.Sample.symLang.assocs (ingestModel Neo.Sample.symSt)) (fun s' =>
      s'.associations.map (assocView s') =
        [⟨"Peer", "peers", [1], "peers", [2], "{}"⟩, ⟨"Peer", "peers", [2], "peers", [1], "{}"⟩]) := by
  refine ⟨C05.reachable_inv _ _, C06.reachable_valid _ _, by decide, by decide +kernel, ?_⟩
  rw [get_model_computable]; decide +kernel

/-- without `NoMixedMatch`: `x` and `y` are linked by `A` (fields `f`, `g`) and by `B` (fields `f2`, `g2`); the
language also declares `Mix` with the fields `f`, `g2`; the read-back model has a spurious `Mix` link -/
theorem no_mixed_match_needed :
    Inv Neo.Sample.mixSt ∧ Valid Neo.Sample.mixLang Neo.Sample.mixSt ∧ FieldsDiffer Neo.Sample.mixSt ∧
    NoFirstSteps Neo.Sample.mixSt ∧ ClassNamesDistinct Neo.Sample.mixLang ∧
    Neo.Sample.mixSt.associations.map (assocView Neo.Sample.mixSt) =
      [⟨"A", "f", [1], "g", [2], "{}"⟩, ⟨"B", "f2", [1], "g2", [2], "{}"⟩] ∧
    LoadsTo (getModel Neo.Sample.mixLang Neo.Sample.mixLang.assocs (ingestModel Neo.Sample.mixSt)) (fun s' =>
      (⟨"Mix", "f", [1], "g2", [2], "{}"⟩ : AssocView) ∈ s'.associations.map (assocView s')) := by
  refine ⟨C05.reachable_inv _ _, C06.reachable_valid _ _, by decide, by decide, by decide, by decide +kernel, ?_⟩
  rw [get_model_computable]; decide +kernel

/-! ### non-vacuity: a small language and model -/

/-- `Sample.st`: `h` and `g` are peers of each other (the same association in both directions), `h` is its own
peer, `h` and `n` are linked by two different associations, `NetCon` has two left members -/
example : Neo.Sample.st.assets.map (assetView Neo.Sample.lang Neo.Sample.st) =
      [⟨5, "h", "Host", [("patched", "1.0")], "{}"⟩, ⟨-2, "g", "Host", [("patched", "0.0")], "{}"⟩, ⟨0, "n", "Net", [], "{}"⟩] ∧
    Neo.Sample.st.associations.map (assocView Neo.Sample.st) =
      [⟨"Peer", "peers", [5], "peerOf", [-2], "{}"⟩, ⟨"Peer", "peers", [-2], "peerOf", [5], "{}"⟩,
       ⟨"Peer", "peers", [5], "peerOf", [5], "{}"⟩, ⟨"NetCon", "hosts", [5, -2], "nets", [0], "{}"⟩,
       ⟨"Admin", "admins", [5], "managed", [0], "{}"⟩] := by
  decide +kernel

/-- what is sent: three nodes; for the self-link two relationships from the node to itself; twelve relationships -/
example : (ingestModel Neo.Sample.st).nodes =
      [⟨"Host", "h", "5", "Host"⟩, ⟨"Host", "g", "-2", "Host"⟩, ⟨"Net", "n", "0", "Net"⟩] ∧
    (ingestModel Neo.Sample.st).rels =
      [⟨0, "peers", 1⟩, ⟨1, "peerOf", 0⟩, ⟨1, "peers", 0⟩, ⟨0, "peerOf", 1⟩, ⟨0, "peers", 0⟩, ⟨0, "peerOf", 0⟩,
       ⟨0, "hosts", 2⟩, ⟨2, "nets", 0⟩, ⟨1, "hosts", 2⟩, ⟨2, "nets", 1⟩, ⟨0, "admins", 2⟩, ⟨2, "managed", 0⟩] := by
  decide +kernel

/-- the second query pairs every relationship with every opposite one: between `h` and `g` four rows, two of which
(`peers`/`peers`, `peerOf`/`peerOf`) belong to no association; between `h` and `n` eight rows, four of them mixed -/
example : queryPairs (ingestModel Neo.Sample.st) =
    [(0, "peers", "peerOf", 1), (0, "peers", "peers", 1), (1, "peerOf", "peers", 0), (1, "peerOf", "peerOf", 0),
     (1, "peers", "peers", 0), (1, "peers", "peerOf", 0), (0, "peerOf", "peerOf", 1), (0, "peerOf", "peers", 1),
     (0, "peers", "peerOf", 0), (0, "peerOf", "peers", 0),
     (0, "hosts", "nets", 2), (0, "hosts", "managed", 2), (2, "nets", "hosts", 0), (2, "nets", "admins", 0),
     (1, "hosts", "nets", 2), (2, "nets", "hosts", 1),
     (0, "admins", "nets", 2), (0, "admins", "managed", 2), (2, "managed", "hosts", 0), (2, "managed", "admins", 0)] := by
  decide +kernel

/-- the hypotheses of `get_model_inverts` hold for it -/
example : (LG.assocNodes Neo.Sample.lang).toOption = some Neo.Sample.lang.assocs ∧
    Inv Neo.Sample.st ∧ Valid Neo.Sample.lang Neo.Sample.st ∧
    (∀ a ∈ Neo.Sample.st.assets, (Neo.Sample.st.aobj a).type ≠ "Attacker") ∧
    PairsResolve Neo.Sample.lang Neo.Sample.lang.assocs Neo.Sample.st ∧
    NoMixedMatch Neo.Sample.lang Neo.Sample.lang.assocs Neo.Sample.st ∧ NoFirstSteps Neo.Sample.st ∧
    FieldsDiffer Neo.Sample.st :=
  ⟨by decide, C05.reachable_inv _ _, C06.reachable_valid _ _, by decide,
   resolution_of_unique_fields _ _ _ (C05.reachable_inv _ _) (C06.reachable_valid _ _) (fun _ h => h) (by decide)
     ⟨by decide, by decide⟩ (by decide)⟩

/-- and the conclusion is what one computes: the assets with their ids (5, -2, 0) and default defense values; both
`Peer` links between `h` and `g`, the self-link, the link with two left members as two binary links, and both
associations between `h` and `n`; no link twice, no mixed link -/
example : LoadsTo (getModel Neo.Sample.lang Neo.Sample.lang.assocs (ingestModel Neo.Sample.st)) (fun s' =>
    s'.assets.map (assetView Neo.Sample.lang s') =
      [⟨5, "h", "Host", [("patched", "0.0")], "{}"⟩, ⟨-2, "g", "Host", [("patched", "0.0")], "{}"⟩, ⟨0, "n", "Net", [], "{}"⟩] ∧
    s'.associations.map (assocView s') =
      [⟨"Peer", "peers", [5], "peerOf", [-2], "{}"⟩, ⟨"Peer", "peers", [-2], "peerOf", [5], "{}"⟩,
       ⟨"Peer", "peers", [5], "peerOf", [5], "{}"⟩, ⟨"NetCon", "hosts", [5], "nets", [0], "{}"⟩,
       ⟨"NetCon", "hosts", [-2], "nets", [0], "{}"⟩, ⟨"Admin", "admins", [5], "managed", [0], "{}"⟩] ∧
    s'.attackers = []) := by
  rw [get_model_computable]; decide +kernel

/-- an attack graph: three nodes with their attributes; the child listed twice gives one relationship -/
example : (ingestGraph (fun t => match t with | .defense => "defense" | _ => "or") Neo.Sample.graph).nodes =
      [⟨"h", "access", "h:access", "or", "null", true, true, [], none⟩,
       ⟨"n", "reach", "n:reach", "or", "{\"x\": 1}", true, true, [], none⟩,
       ⟨"12", "patched", "12:patched", "defense", "null", true, true, [], some "1.0"⟩] ∧
    (ingestGraph (fun _ => "") Neo.Sample.graph).rels = [(0, 1), (0, 2), (1, 2)] := by
  decide +kernel

end MalVerif.C19
