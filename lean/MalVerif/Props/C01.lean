import MalVerif.Proofs.EvalSem
import MalVerif.Proofs.EvalFuel
import MalVerif.Proofs.EvalStepName
/-!
# C01 — the generated attack graph has exactly the edges the language semantics prescribes

Specification: `MalVerif/Spec/Den.lean` (`Linked`, `DenF`, `TC`, `EdgeSpec`).
Model: `Model/Eval.lean` (`neighbours`, `closure`, `evalF`, `eval`), `Model/Gen.lean` (`genEdges`, `genGraph`).

* `neighbours_iff` — field lookup = `Linked` (both directions, self-links).
* `eval_mem_iff` — a successful evaluation returns exactly the assets of the set
  semantics; all operators, any number of sources, duplicates irrelevant.  The
  hypothesis `TransOK` (operands of `*` are pointwise) is necessary (see the
  counterexample at the end) and holds for everything that avoids `/\` and `-`
  under `*` (`pointwise_of_syntactic`, `transOK_of_starOK`).
* `closure_correct`, `closure_field_correct`, `trans_field_correct` — the frontier
  loop computes the transitive closure and never runs out of fuel.
* `eval_terminates` — no `recursion` error for acyclic variable definitions.
* `eval_fuel_sufficient`, `eval_fuel_sufficient_of_rank`, `varsAcyclic_iff_rank`,
  `genGraph_no_recursion` — the fuel `eval` uses (`L.varFuel`) is enough for every language with
  acyclic variable definitions.
* `eval_tailVar`, `eval_step_name_general`, `eval_step_name_tailVar`, `edges_iff_EdgeSpecG`,
  `child_iff_general` — the step name of expressions ending in a variable call.
* `edges_iff`, `edges_iff_EdgeSpec`, `child_iff` — the edge list.
* `parents_converse` — parents are the converse of children.
-/
namespace MalVerif.C01
open MalVerif

/-- **Field lookup.**  `get_associated_assets_by_field_name`: the assets linked
through field `f`, in either direction of an association, self-links included. -/
theorem neighbours_iff (m : Inst) (x : Int) (f : String) (y : Int) :
    y ∈ m.neighbours x f ↔ Linked m x f y := mem_neighbours m x f y

/-- **The evaluator computes the set semantics.**  For every amount of fuel,
every expression and every list of sources: when the evaluation succeeds, the
returned list contains exactly the assets the denotational semantics reaches
from the set of sources. -/
theorem eval_mem_iff (L : Lang) (m : Inst) (f : Nat) (e : Expr) (xs : List Int)
    (r : List Int × Option String) (hok : TransOK L m f e) (h : evalF L m f e xs = .ok r) :
    ∀ y, y ∈ r.1 ↔ DenF L m f e (· ∈ xs) y := evalF_mem L m f e hok xs r h

/-- the same for `eval` (the fuel the generator uses) from a single source -/
theorem eval_mem_iff_single (L : Lang) (m : Inst) (e : Expr) (x : Int)
    (r : List Int × Option String) (hok : TransOK L m L.varFuel e) (h : eval L m e [x] = .ok r) :
    ∀ y, y ∈ r.1 ↔ DenF L m L.varFuel e (· = x) y := by
  intro y
  rw [evalF_mem L m _ e hok [x] r h y]
  have : (fun z => z ∈ [x]) = (· = x) := aset_ext fun z => List.mem_singleton
  rw [this]

/-- the step name returned with the targets: for an expression that does not end in a variable call
it is the attack step the expression ends in -/
theorem eval_step_name (L : Lang) (m : Inst) (f : Nat) (e : Expr) (xs : List Int)
    (r : List Int × Option String) (h : evalF L m f e xs = .ok r) (ht : tailVar e = false) :
    r.2 = lastStep e := evalF_snd L m f e xs r h ht

/-- **Pointwise operands.**  Expressions built from steps, fields, collect, union,
subtype filter, transitive closure, and variables whose definitions are of that
form again, denote pointwise transformers: the result on a set is the union of the
results on its elements. -/
theorem pointwise_of_syntactic (L : Lang) (m : Inst) (f : Nat) (e : Expr) (h : Syntactic L f e) :
    Pointwise (DenF L m f e) := pointwise_DenF L m f e h

/-- so the hypothesis of `eval_mem_iff` holds whenever every operand of `*`, also
inside variable definitions, is of that form (intersection and difference may be
used anywhere else) -/
theorem transOK_of_starOK (L : Lang) (m : Inst) (f : Nat) (e : Expr) (h : StarOK L f e) :
    TransOK L m f e := transOK_of_starOK_aux L m f e h

/-- a variable all of whose sources have the same definition `d` means `d` on those sources -/
theorem den_var_uniform (L : Lang) (m : Inst) (f : Nat) (v : String) (d : Expr) (S : ASet) (x0 : Int)
    (h0 : S x0) (hS : ∀ x, S x → (m.typeOf x).bind (fun t => L.lookupVar t v) = some d) (y : Int) :
    DenF L m (f+1) (.var v) S y ↔ DenF L m f d S y := by
  have hset : (fun x => S x ∧ (m.typeOf x).bind (fun t => L.lookupVar t v) = some d) = S :=
    aset_ext fun x => ⟨fun h => h.1, fun h => ⟨h, hS x h⟩⟩
  simp only [DenF, DenE]
  constructor
  · rintro ⟨d', ⟨x, hx, hd'⟩, h⟩
    have e : d' = d := by have := hS x hx; rw [hd'] at this; cases this; rfl
    subst e; rw [hset] at h; exact h
  · intro h
    exact ⟨d, ⟨x0, h0, hS x0 h0⟩, by rw [hset]; exact h⟩

/-- **The frontier loop computes the transitive closure.**  `g` computes the
`R`-successors of a list of assets, all `R`-successors lie in the finite
universe `univ`: with `univ.length + 2` rounds the loop returns (never
`recursion`), and the result is what is reachable from the sources in one or
more `R`-steps — cycles and self-loops included; a source is in the result only
if it is reachable again. -/
theorem closure_correct (R : Int → Int → Prop) (g : List Int → ER (List Int)) (univ : List Int)
    (hg : ∀ zs, ∃ ws, g zs = .ok ws ∧ ∀ y, y ∈ ws ↔ ∃ z ∈ zs, R z y)
    (hu : ∀ a b, R a b → b ∈ univ) (xs : List Int) :
    ∃ res, closure g (univ.length + 2) xs [] = .ok res ∧ ∀ y, y ∈ res ↔ ∃ x ∈ xs, TC R x y := by
  have hg' : ∀ zs ws, g zs = .ok ws → ∀ y, y ∈ ws ↔ ∃ z ∈ zs, R z y := by
    intro zs ws h
    obtain ⟨ws', h', hw⟩ := hg zs
    rw [h] at h'; cases h'; exact hw
  cases hc : closure g (univ.length + 2) xs [] with
  | ok res => exact ⟨res, rfl, closure_sound R g hg' xs _ _ _ res (CInv.init R xs) List.nodup_nil hc⟩
  | error err =>
    obtain ⟨zs, _, hz⟩ := closure_error g univ (fun _ => True) (fun _ _ => trivial)
      (fun zs ws _ h y hy => by
        obtain ⟨z, _, hzy⟩ := (hg' zs ws h y).1 hy
        exact hu z y hzy)
      err _ xs [] List.nodup_nil (by simp) trivial (Or.inr (by simp)) hc
    obtain ⟨ws, hw, _⟩ := hg zs
    rw [hw] at hz; cases hz

/-- instance: following one field through an instance model whose association
objects only mention assets of the model -/
theorem closure_field_correct (m : Inst) (hm : LinksClosed m) (f : String) (xs : List Int) :
    ∃ res, closure (fun zs => .ok (zs.flatMap (fun x => m.neighbours x f))) (m.assets.length + 2) xs []
        = .ok res ∧
      ∀ y, y ∈ res ↔ ∃ x ∈ xs, TC (fun a b => Linked m a f b) x y := by
  have := closure_correct (fun a b => Linked m a f b)
    (fun zs => .ok (zs.flatMap (fun x => m.neighbours x f))) m.ids
    (fun zs => ⟨_, rfl, fun y => by simp only [List.mem_flatMap, mem_neighbours]⟩)
    (fun a b h => linked_in_ids hm h) xs
  simpa [Inst.ids] using this

/-- … and therefore `(field)*` evaluates, with any positive fuel, to the
transitive closure of the field relation -/
theorem trans_field_correct (L : Lang) (m : Inst) (hm : LinksClosed m) (k : Nat) (f : String)
    (xs : List Int) :
    ∃ res, evalF L m (k+1) (.trans (.field f)) xs = .ok (res, none) ∧
      ∀ y, y ∈ res ↔ ∃ x ∈ xs, TC (fun a b => Linked m a f b) x y := by
  obtain ⟨res, h, hres⟩ := closure_field_correct m hm f xs
  refine ⟨res, ?_, hres⟩
  have hg : (fun zs => Except.map (fun x => x.fst)
        (Except.ok (List.flatMap (fun x => m.neighbours x f) zs, (none : Option String)) : ER _)) =
      (fun zs => .ok (zs.flatMap (fun x => m.neighbours x f))) := rfl
  simp only [evalF, evalE]
  rw [hg, h]
  rfl

/-- **Termination.**  Association objects mention only assets of the model, the
sources are assets of the model, variable definitions are acyclic (`rank`
decreases from an expression to the definition of any variable in it) and the
fuel exceeds the rank: the evaluation never fails with `recursion` — neither
the variable expansion nor any transitive step runs out of fuel. -/
theorem eval_terminates (L : Lang) (m : Inst) (hm : LinksClosed m) (rank : Expr → Nat)
    (hr : ∀ e, ∀ v ∈ e.vars, ∀ t d, L.lookupVar t v = some d → rank d < rank e)
    (f : Nat) (e : Expr) (hf : rank e < f) (xs : List Int) (hxs : ∀ x ∈ xs, x ∈ m.ids) :
    evalF L m f e xs ≠ .error .recursion := evalF_norec L m hm rank hr f e hf xs hxs

/-- results are assets of the model -/
theorem eval_in_model (L : Lang) (m : Inst) (hm : LinksClosed m) (f : Nat) (e : Expr) (xs : List Int)
    (r : List Int × Option String) (hxs : ∀ x ∈ xs, x ∈ m.ids) (h : evalF L m f e xs = .ok r) :
    ∀ y ∈ r.1, y ∈ m.ids := evalF_sub L m hm f e xs r hxs h

/-! ### the edge list -/

/-- **Edges, operationally.**  The second loop adds exactly one kind of edge: from a
node to the node registered under `target asset name : step name` for every
target of every `reaches` expression of the node. -/
theorem edges_iff (L : Lang) (m : Inst) (ns : List GNode) (es : List (Nat × Nat))
    (h : genEdges L m ns = .ok es) (a b : Nat) :
    (a, b) ∈ es ↔ ∃ n ∈ ns, n.id = a ∧ ∃ e ∈ n.reaches, ∃ r, eval L m e [n.asset] = .ok r ∧
      ∃ y ∈ r.1, ∃ ya, m.find y = some ya ∧
        ∃ t, nameIndex ns (ya.name ++ ":" ++ r.2.getD "None") = some t ∧ t.id = b := by
  rw [genEdges_mem L m ns es h (a, b)]
  simp only [EdgeFor, Prod.mk.injEq]
  constructor
  · rintro ⟨n, hn, e, he, r, hr, y, hy, ya, hya, t, ht, rfl, rfl⟩
    exact ⟨n, hn, rfl, e, he, r, hr, y, hy, ya, hya, t, ht, rfl⟩
  · rintro ⟨n, hn, rfl, e, he, r, hr, y, hy, ya, hya, t, ht, rfl⟩
    exact ⟨n, hn, e, he, r, hr, y, hy, ya, hya, t, ht, rfl, rfl⟩

/-- **Edges = specification.**  When generation succeeds, the edge list is the
relation `EdgeSpec`: `a → b` iff some `reaches` expression of `a`, under the
set semantics from `a`'s asset, reaches an asset `Y` and names a step `t`
such that `b` is the node called `Y:t`. -/
theorem edges_iff_EdgeSpec (L : Lang) (m : Inst) (ns : List GNode) (es : List (Nat × Nat))
    (htr : ∀ n ∈ ns, ∀ e ∈ n.reaches, TransOK L m L.varFuel e)
    (htail : ∀ n ∈ ns, ∀ e ∈ n.reaches, tailVar e = false)
    (h : genEdges L m ns = .ok es) (a b : Nat) :
    (a, b) ∈ es ↔ EdgeSpec L m ns a b := by
  rw [edges_iff L m ns es h a b]
  unfold EdgeSpec
  constructor
  · rintro ⟨n, hn, ha, e, he, r, hr, y, hy, ya, hya, t, ht, hb⟩
    refine ⟨n, hn, ha, e, he, y, ya, t, ?_, hya, ?_, hb⟩
    · exact (eval_mem_iff_single L m e n.asset r (htr n hn e he) hr y).1 hy
    · rw [← evalF_snd L m _ e _ r hr (htail n hn e he)]; exact ht
  · rintro ⟨n, hn, ha, e, he, y, ya, t, hy, hya, ht, hb⟩
    obtain ⟨r, hr⟩ := genEdges_eval_ok L m ns es h n hn e he
    refine ⟨n, hn, ha, e, he, r, hr, y, ?_, ya, hya, t, ?_, hb⟩
    · exact (eval_mem_iff_single L m e n.asset r (htr n hn e he) hr y).2 hy
    · rw [evalF_snd L m _ e _ r hr (htail n hn e he)]; exact ht

/-- **`X:s` has child `Y:t` iff …**, for the graph `genGraph` returns.  `n` is the
node of step `s` on asset `X` (node ids are unique), `b` a node id:
`b` is a child of `n` iff one of the `reaches` expressions of `s`, evaluated
from `{X}` with the set semantics, reaches an asset `Y` and ends in a step
`t`, and `b` is the node registered under the name `Y:t`. -/
theorem child_iff (L : Lang) (m : Inst) (ns : List GNode) (es : List (Nat × Nat))
    (hgen : genGraph L m = .ok (ns, es))
    (htr : ∀ n ∈ ns, ∀ e ∈ n.reaches, TransOK L m L.varFuel e)
    (htail : ∀ n ∈ ns, ∀ e ∈ n.reaches, tailVar e = false)
    (n : GNode) (hn : n ∈ ns) (b : Nat) :
    (n.id, b) ∈ es ↔ ∃ e ∈ n.reaches, ∃ y ya t,
      DenF L m L.varFuel e (· = n.asset) y ∧ m.find y = some ya ∧
      nameIndex ns (ya.name ++ ":" ++ (lastStep e).getD "None") = some t ∧ t.id = b := by
  unfold genGraph at hgen
  obtain ⟨ns', hns, hgen⟩ := (bind_ok_iff _ _ _).1 hgen
  obtain ⟨es', hes, hgen⟩ := (bind_ok_iff _ _ _).1 hgen
  cases hgen
  rw [edges_iff_EdgeSpec L m ns es htr htail hes]
  unfold EdgeSpec
  constructor
  · rintro ⟨n', hn', e, h⟩
    rw [genNodes_id_inj L m ns hns n' n hn' hn e] at h
    exact h
  · intro h; exact ⟨n, hn, rfl, h⟩

/-- edges connect nodes of the graph, and the child carries the name that was looked up -/
theorem edge_ends (L : Lang) (m : Inst) (ns : List GNode) (es : List (Nat × Nat))
    (h : genEdges L m ns = .ok es) (a b : Nat) (hab : (a, b) ∈ es) :
    (∃ n ∈ ns, n.id = a) ∧ (∃ t ∈ ns, t.id = b) := by
  obtain ⟨n, hn, ha, e, he, r, hr, y, hy, ya, hya, t, ht, hb⟩ := (edges_iff L m ns es h a b).1 hab
  exact ⟨⟨n, hn, ha⟩, ⟨t, (nameIndex_some ns _ t ht).1, hb⟩⟩

/-- **Parents.**  Remark rather than theorem: the Python appends to `children`
and to `parents` in the same statement, the model keeps the one edge list, and
the two adjacency views are both read off it — they are converse by definition. -/
theorem parents_converse (es : List (Nat × Nat)) (a b : Nat) :
    a ∈ parentsOf es b ↔ b ∈ childrenOf es a := by
  simp only [parentsOf, childrenOf, List.mem_map, List.mem_filter, decide_eq_true_eq]
  constructor
  · rintro ⟨⟨a', b'⟩, ⟨h, rfl⟩, rfl⟩; exact ⟨(a', b'), ⟨h, rfl⟩, rfl⟩
  · rintro ⟨⟨a', b'⟩, ⟨h, rfl⟩, rfl⟩; exact ⟨(a', b'), ⟨h, rfl⟩, rfl⟩

theorem mem_childrenOf (es : List (Nat × Nat)) (a b : Nat) : b ∈ childrenOf es a ↔ (a, b) ∈ es := by
  simp only [childrenOf, List.mem_map, List.mem_filter, decide_eq_true_eq]
  constructor
  · rintro ⟨⟨a', b'⟩, ⟨h, rfl⟩, rfl⟩; exact h
  · intro h; exact ⟨(a, b), ⟨h, rfl⟩, rfl⟩

open MalVerif.Demo

/-! ### non-vacuity: a cyclic model with a self-link, an expression with every operator -/

example : eval c01L c01M c01E [3] = .ok ([1, 2], some "compromise") := by decide
example : eval c01L c01M c01E [1, 3, 1] = .ok ([1, 1, 1], some "compromise") := by decide
example : eval c01L c01M c01E2 [1] = .ok ([3], some "compromise") := by decide
/-- the cycle: every asset reaches itself again, no `recursion` error -/
example : eval c01L c01M (.trans (.field "next")) [1] = .ok ([2, 3, 1], none) := by decide

example : LinksClosed c01M := by decide

/-- so the set semantics of the demo expression is what the evaluator returned: from `{3}`, exactly `{1, 2}` -/
example : ∀ y, DenF c01L c01M c01L.varFuel c01E (· = 3) y ↔ y = 1 ∨ y = 2 := by
  intro y
  rw [← eval_mem_iff_single c01L c01M c01E 3 ([1, 2], some "compromise") c01E_transOK (by decide) y]
  simp

example (xs : List Int) (hxs : ∀ x ∈ xs, x ∈ c01M.ids) :
    evalF c01L c01M 2 c01E xs ≠ .error .recursion :=
  eval_terminates c01L c01M (by decide) c01Rank c01Rank_ok 2 c01E (by decide) xs hxs

/-- the generated graph of the demo (6 nodes: `access`, `compromise` on each asset): its
edges, and the hypotheses of `child_iff` / `edges_iff_EdgeSpec` hold for it -/
example : ∃ ns es, genGraph c01L c01M = .ok (ns, es) ∧
    es = [(0, 3), (0, 5), (0, 1), (2, 5), (2, 1), (2, 3), (4, 1), (4, 3)] ∧
    (∀ n ∈ ns, ∀ e ∈ n.reaches, TransOK c01L c01M c01L.varFuel e) ∧
    (∀ n ∈ ns, ∀ e ∈ n.reaches, tailVar e = false) := by
  have h1 : (genGraph c01L c01M).map (·.2) =
      .ok [(0, 3), (0, 5), (0, 1), (2, 5), (2, 1), (2, 3), (4, 1), (4, 3)] := by decide
  have h2 : (genGraph c01L c01M).map (fun p => p.1.all (fun n => n.reaches.all (· = c01E))) = .ok true := by
    decide
  cases h : genGraph c01L c01M with
  | error err => rw [h] at h1; cases h1
  | ok p =>
    obtain ⟨ns, es⟩ := p
    rw [h] at h1 h2
    simp only [Except.map, Except.ok.injEq] at h1 h2
    have h3 : ∀ n ∈ ns, ∀ e ∈ n.reaches, e = c01E := by
      intro n hn e he
      simpa using List.all_eq_true.1 (List.all_eq_true.1 h2 n hn) e he
    refine ⟨ns, es, rfl, h1, ?_, ?_⟩
    · intro n hn e he; rw [h3 n hn e he]; exact c01E_transOK
    · intro n hn e he; rw [h3 n hn e he]; rfl

/-! ### the hypothesis `TransOK` cannot be dropped

With an intersection under `*` the loop (which applies the operand to the
*new* assets of each round only) and the set semantics (which applies it to
the whole previous set) differ: in `cexM`, from `{1}`, the rounds give
`{1,2}`, `{1,2,3}`; then the loop evaluates `next /\ alt` on `{3}` alone (empty),
the semantics on `{1,2,3}` (`4` is `next` of 3 and `alt` of 1). -/
example : eval {} cexM cexE [1] = .ok ([1, 2, 3], none) := by decide

example : DenF {} cexM 1 cexE (· = 1) 4 := by
  refine ⟨2, ?_⟩
  show DenE {} cexM (DenF {} cexM 0) (.inter (.field "next") (.field "alt"))
    (DenE {} cexM (DenF {} cexM 0) (.inter (.field "next") (.field "alt"))
      (DenE {} cexM (DenF {} cexM 0) (.inter (.field "next") (.field "alt")) (· = 1))) 4
  have h1 : DenE {} cexM (DenF {} cexM 0) (.inter (.field "next") (.field "alt")) (· = 1) 1 :=
    ⟨⟨1, rfl, by decide⟩, ⟨1, rfl, by decide⟩⟩
  have h2 : DenE {} cexM (DenF {} cexM 0) (.inter (.field "next") (.field "alt")) (· = 1) 2 :=
    ⟨⟨1, rfl, by decide⟩, ⟨1, rfl, by decide⟩⟩
  have k1 : DenE {} cexM (DenF {} cexM 0) (.inter (.field "next") (.field "alt"))
      (DenE {} cexM (DenF {} cexM 0) (.inter (.field "next") (.field "alt")) (· = 1)) 1 :=
    ⟨⟨1, h1, by decide⟩, ⟨1, h1, by decide⟩⟩
  have k3 : DenE {} cexM (DenF {} cexM 0) (.inter (.field "next") (.field "alt"))
      (DenE {} cexM (DenF {} cexM 0) (.inter (.field "next") (.field "alt")) (· = 1)) 3 :=
    ⟨⟨2, h2, by decide⟩, ⟨2, h2, by decide⟩⟩
  exact ⟨⟨3, k3, by decide⟩, ⟨1, k1, by decide⟩⟩

/-! ### the fuel of `eval` suffices for acyclic variable definitions -/

/-- **The fuel the generator uses is enough.**  `eval` allows `L.varFuel` = (number of variable
declarations) + 1 nested variable expansions.  When the variable definitions of the language are
acyclic — the decidable check `L.varsAcyclic` (`Proofs/EvalFuel.lean`): every declared definition
can be expanded completely within as many levels as there are declarations; equivalently
(`varsAcyclic_iff_rank`) some rank decreases from every expression to the definitions of its
variables — evaluation from assets of a closed model never fails with `recursion`. -/
theorem eval_fuel_sufficient (L : Lang) (m : Inst) (e : Expr) (xs : List Int)
    (hacyc : L.varsAcyclic = true) (hclosed : LinksClosed m) (hxs : ∀ x ∈ xs, x ∈ m.ids) :
    eval L m e xs ≠ .error .recursion := eval_norec_of_check L m hclosed hacyc e xs hxs

/-- the same from the hypothesis of `eval_terminates`: *any* rank will do, it need not be bounded
by the fuel (a chain of nested expansions consists of pairwise different declared definitions,
so it is no longer than the number of declarations) -/
theorem eval_fuel_sufficient_of_rank (L : Lang) (m : Inst) (rank : Expr → Nat)
    (hr : ∀ e, ∀ v ∈ e.vars, ∀ t d, L.lookupVar t v = some d → rank d < rank e)
    (hclosed : LinksClosed m) (e : Expr) (xs : List Int) (hxs : ∀ x ∈ xs, x ∈ m.ids) :
    eval L m e xs ≠ .error .recursion := eval_norec_of_rank L m hclosed rank hr e xs hxs

/-- the check is exactly the existence of a rank -/
theorem varsAcyclic_iff_rank (L : Lang) :
    L.varsAcyclic = true ↔
      ∃ rank : Expr → Nat, ∀ e, ∀ v ∈ e.vars, ∀ t d, L.lookupVar t v = some d → rank d < rank e :=
  MalVerif.varsAcyclic_iff_rank L

/-- what the check computes: `depthLt n e` — every variable of `e`, on every asset type, has a
definition `d` with `depthLt (n-1) d` (none for `n = 0`) -/
theorem depthLt_iff (L : Lang) (n : Nat) (e : Expr) :
    L.depthLt (n+1) e = true ↔ ∀ v ∈ e.vars, ∀ t d, L.lookupVar t v = some d → L.depthLt n d = true := by
  rw [depthLt_succ]
  constructor
  · intro h v hv t d hd; exact h d ((mem_callees L e d).2 ⟨v, hv, t, hd⟩)
  · intro h d hd
    obtain ⟨v, hv, t, ht⟩ := (mem_callees L e d).1 hd
    exact h v hv t d ht

/-- so attack-graph generation (both loops call `eval` from single assets of the model) never
fails with `recursion` -/
theorem genGraph_no_recursion (L : Lang) (m : Inst) (hacyc : L.varsAcyclic = true)
    (hclosed : LinksClosed m) : genGraph L m ≠ .error .recursion :=
  genGraph_norec L m fun e x hx =>
    eval_fuel_sufficient L m e [x] hacyc hclosed (fun y hy => by rw [List.mem_singleton.1 hy]; exact hx)

/-! ### the step name of an expression that ends in a variable call -/

/-- **Ending in a variable call, operationally.**  `e` ends in a call of the variable `v`
(`tailVarName`); `src` are the assets reaching that call: the sources themselves when `e` is just
the call, what the evaluator returns for the rest of the expression (`dropTail e`) otherwise.
When no asset reaches the call the result is `([], none)`.  Otherwise all assets reaching it have
the same definition `d` of `v` — the one selected by the first of them — and the result, targets
*and step name*, is the result of evaluating `d` from them (one level of fuel less). -/
theorem eval_step_name_tailVar (L : Lang) (m : Inst) (f : Nat) (e : Expr) (xs : List Int)
    (r : List Int × Option String) (h : evalF L m (f+1) e xs = .ok r) (ht : tailVar e = true) :
    ∃ v src, tailVarName e = some v ∧
      (match dropTail e with
        | none => src = xs
        | some p => ∃ a, evalF L m (f+1) p xs = .ok a ∧ a.1 = src) ∧
      (src = [] → r = ([], none)) ∧
      (∀ x rest, src = x :: rest → ∃ d, (m.typeOf x).bind (fun t => L.lookupVar t v) = some d ∧
        (∀ y ∈ src, (m.typeOf y).bind (fun t => L.lookupVar t v) = some d) ∧
        evalF L m f d src = .ok r) := evalF_tailVar L m f e xs r ht h

/-- **The step name, in general.**  `StepName` (`Proofs/EvalStepName.lean`) is the step name under
the set semantics: a step names itself, `l.r` names what `r` names from the assets `l` reaches, a
variable call names what its definition (on a source) names, nothing else names anything.  When
the evaluation succeeds the step name it returns is the one and only name the expression has
from the set of sources. -/
theorem eval_step_name_general (L : Lang) (m : Inst) (f : Nat) (e : Expr) (xs : List Int)
    (r : List Int × Option String) (hok : TransOK L m f e) (h : evalF L m f e xs = .ok r) :
    ∀ o, StepName L m f e (· ∈ xs) o ↔ o = r.2 := evalF_name L m f e hok xs r h

/-- `StepName` extends `lastStep`: they agree on expressions that do not end in a variable call
(so `eval_step_name_general` contains `eval_step_name`, for `TransOK` expressions) -/
theorem stepName_eq_lastStep (L : Lang) (m : Inst) (f : Nat) (e : Expr) (ht : tailVar e = false)
    (S : ASet) (o : Option String) : StepName L m (f+1) e S o ↔ o = lastStep e :=
  stepName_of_not_tailVar L m f e ht S o

theorem eval_step_name_single (L : Lang) (m : Inst) (e : Expr) (x : Int)
    (r : List Int × Option String) (hok : TransOK L m L.varFuel e) (h : eval L m e [x] = .ok r) :
    ∀ o, StepName L m L.varFuel e (· = x) o ↔ o = r.2 := by
  intro o
  rw [← evalF_name L m _ e hok [x] r h o]
  have : (fun z => z ∈ [x]) = (· = x) := aset_ext fun z => List.mem_singleton
  rw [this]

/-- **Edges = specification, without the restriction on the last component.**  `EdgeSpecG` is
`EdgeSpec` with `StepName` in the place of `lastStep` (`edgeSpecG_iff_EdgeSpec`: the same relation
when no `reaches` expression ends in a variable call). -/
theorem edges_iff_EdgeSpecG (L : Lang) (m : Inst) (ns : List GNode) (es : List (Nat × Nat))
    (htr : ∀ n ∈ ns, ∀ e ∈ n.reaches, TransOK L m L.varFuel e)
    (h : genEdges L m ns = .ok es) (a b : Nat) :
    (a, b) ∈ es ↔ EdgeSpecG L m ns a b := by
  rw [edges_iff L m ns es h a b]
  unfold EdgeSpecG
  constructor
  · rintro ⟨n, hn, ha, e, he, r, hr, y, hy, ya, hya, t, ht, hb⟩
    refine ⟨n, hn, ha, e, he, y, ya, t, r.2, ?_, ?_, hya, ht, hb⟩
    · exact (eval_mem_iff_single L m e n.asset r (htr n hn e he) hr y).1 hy
    · exact (eval_step_name_single L m e n.asset r (htr n hn e he) hr r.2).2 rfl
  · rintro ⟨n, hn, ha, e, he, y, ya, t, o, hy, ho, hya, ht, hb⟩
    obtain ⟨r, hr⟩ := genEdges_eval_ok L m ns es h n hn e he
    refine ⟨n, hn, ha, e, he, r, hr, y, ?_, ya, hya, t, ?_, hb⟩
    · exact (eval_mem_iff_single L m e n.asset r (htr n hn e he) hr y).2 hy
    · rw [← (eval_step_name_single L m e n.asset r (htr n hn e he) hr o).1 ho]; exact ht

/-- `EdgeSpecG` is `EdgeSpec` when no `reaches` expression ends in a variable call -/
theorem EdgeSpecG_iff_EdgeSpec (L : Lang) (m : Inst) (ns : List GNode)
    (htail : ∀ n ∈ ns, ∀ e ∈ n.reaches, tailVar e = false) (a b : Nat) :
    EdgeSpecG L m ns a b ↔ EdgeSpec L m ns a b := edgeSpecG_iff_EdgeSpec L m ns htail a b

/-- **`X:s` has child `Y:t` iff …**, also for `reaches` expressions ending in a variable call:
`child_iff` without `htail`, the step name being the one of the set semantics. -/
theorem child_iff_general (L : Lang) (m : Inst) (ns : List GNode) (es : List (Nat × Nat))
    (hgen : genGraph L m = .ok (ns, es))
    (htr : ∀ n ∈ ns, ∀ e ∈ n.reaches, TransOK L m L.varFuel e)
    (n : GNode) (hn : n ∈ ns) (b : Nat) :
    (n.id, b) ∈ es ↔ ∃ e ∈ n.reaches, ∃ y ya t o,
      DenF L m L.varFuel e (· = n.asset) y ∧ StepName L m L.varFuel e (· = n.asset) o ∧
      m.find y = some ya ∧ nameIndex ns (ya.name ++ ":" ++ o.getD "None") = some t ∧ t.id = b := by
  unfold genGraph at hgen
  obtain ⟨ns', hns, hgen⟩ := (bind_ok_iff _ _ _).1 hgen
  obtain ⟨es', hes, hgen⟩ := (bind_ok_iff _ _ _).1 hgen
  cases hgen
  rw [edges_iff_EdgeSpecG L m ns es htr hes]
  unfold EdgeSpecG
  constructor
  · rintro ⟨n', hn', e, h⟩
    rw [genNodes_id_inj L m ns hns n' n hn' hn e] at h
    exact h
  · intro h; exact ⟨n, hn, rfl, h⟩

/-! ### non-vacuity: two chained variables, a `reaches` expression ending in a variable call -/

/-- `c01L2`: `let v = next.w()`, `let w = next.compromise`, `access -> v()`: acyclic, fuel 3 -/
example : c01L2.varsAcyclic = true ∧ c01L2.varFuel = 3 := by decide

/-- from asset 1: `v()` = `next.w()` = `next.next.compromise` reaches asset 3 and names `compromise` -/
example : eval c01L2 c01M (.var "v") [1] = .ok ([3], some "compromise") := by decide

/-- the fuel is tight: one level less is not enough for the chain `v() → w() → next.compromise` -/
example : evalF c01L2 c01M 2 (.var "v") [1] = .error .recursion := by decide

/-- `eval_fuel_sufficient` applies to `c01L2` and `c01M`: every expression, all sources -/
example (e : Expr) (xs : List Int) (hxs : ∀ x ∈ xs, x ∈ c01M.ids) :
    eval c01L2 c01M e xs ≠ .error .recursion :=
  eval_fuel_sufficient c01L2 c01M e xs (by decide) (by decide) hxs

example : genGraph c01L2 c01M ≠ .error .recursion := genGraph_no_recursion c01L2 c01M (by decide) (by decide)

/-- the hypothesis cannot be dropped: `let v = w()`, `let w = next.v()` fails the check, and the
evaluation of `v()` runs out of fuel -/
example : c01Lcyc.varsAcyclic = false ∧ eval c01Lcyc c01M (.var "v") [1] = .error .recursion := by decide

/-- the step name of an expression ending in a variable call is not `lastStep` (`eval_step_name`
needs `tailVar e = false`) … -/
example : tailVar (.var "v") = true ∧ lastStep (.var "v") = none ∧
    (eval c01L2 c01M (.var "v") [1]).map (·.2) = .ok (some "compromise") := by decide

/-- the hypothesis `TransOK` holds for the `reaches` expression `v()` of `c01L2` (no `*` anywhere) -/
theorem c01L2_transOK : TransOK c01L2 c01M c01L2.varFuel (.var "v") := by
  show TransOK c01L2 c01M 3 (.var "v")
  apply transOK_of_starOK_aux
  simp only [StarOK, StarOKE]
  intro t d h
  obtain ⟨a, ha, hv⟩ := lookupVar_mem c01L2 t "v" d h
  simp only [c01L2, List.mem_cons, List.not_mem_nil, or_false] at ha
  rcases ha with rfl | rfl
  · simp at hv; subst hv
    simp only [StarOKE, true_and]
    intro t' d' h'
    obtain ⟨a', ha', hv'⟩ := lookupVar_mem c01L2 t' "w" d' h'
    simp only [c01L2, List.mem_cons, List.not_mem_nil, or_false] at ha'
    rcases ha' with rfl | rfl
    · simp at hv'; subst hv'; simp only [StarOKE, and_self]
    · simp at hv'
  · simp at hv

/-- … it is the name `StepName` gives: from `{1}`, `v()` names `compromise` and nothing else -/
example : ∀ o, StepName c01L2 c01M c01L2.varFuel (.var "v") (· = 1) o ↔ o = some "compromise" :=
  eval_step_name_single c01L2 c01M (.var "v") 1 ([3], some "compromise") c01L2_transOK (by decide)

/-- the generated graph of `c01L2` over `c01M` (cycle `1 → 2 → 3 → 1`, asset 3 also linked to itself):
every `access` (nodes 0, 2, 4) reaches the `compromise` (nodes 1, 3, 5) of the assets two `next` steps
further on — edges through a `reaches` expression that ends in a variable call; the hypothesis of
`edges_iff_EdgeSpecG` / `child_iff_general` holds for it -/
example : ∃ ns es, genGraph c01L2 c01M = .ok (ns, es) ∧
    es = [(0, 5), (2, 1), (2, 5), (4, 3), (4, 1), (4, 5)] ∧
    (∀ n ∈ ns, ∀ e ∈ n.reaches, TransOK c01L2 c01M c01L2.varFuel e) ∧
    (∀ n ∈ ns, n.step = "access" → ∀ e ∈ n.reaches, tailVar e = true) := by
  have h1 : (genGraph c01L2 c01M).map (·.2) = .ok [(0, 5), (2, 1), (2, 5), (4, 3), (4, 1), (4, 5)] := by
    decide
  have h2 : (genGraph c01L2 c01M).map (fun p => p.1.all (fun n => n.reaches.all (· = .var "v"))) = .ok true := by
    decide
  cases h : genGraph c01L2 c01M with
  | error err => rw [h] at h1; cases h1
  | ok p =>
    obtain ⟨ns, es⟩ := p
    rw [h] at h1 h2
    simp only [Except.map, Except.ok.injEq] at h1 h2
    have h3 : ∀ n ∈ ns, ∀ e ∈ n.reaches, e = .var "v" := by
      intro n hn e he
      simpa using List.all_eq_true.1 (List.all_eq_true.1 h2 n hn) e he
    refine ⟨ns, es, rfl, h1, ?_, ?_⟩
    · intro n hn e he; rw [h3 n hn e he]; exact c01L2_transOK
    · intro n hn _ e he; rw [h3 n hn e he]; rfl

/- UNPROVED: nothing of the former list is left.  (`eval_fuel_sufficient` and
`eval_fuel_sufficient_of_rank` settle item 1; `eval_step_name_tailVar`, `eval_step_name_general`,
`edges_iff_EdgeSpecG` and `child_iff_general` item 2.  `eval_step_name_general`, `edges_iff_EdgeSpecG`
and `child_iff_general` keep the hypothesis `TransOK` of `eval_mem_iff`, which is necessary there;
the purely operational `eval_step_name_tailVar` needs no hypothesis.) -/
end MalVerif.C01
