import MalVerif.Proofs.EvalSem
/-!
# C01 — the generated attack graph has exactly the edges the language semantics prescribes

Specification: `MalVerif/Spec/Den.lean` (`Linked`, `DenF`, `TC`, `EdgeSpec`).
Model: `Model/Eval.lean` (`neighbours`, `closure`, `evalF`, `eval`), `Model/Gen.lean` (`genEdges`, `genGraph`).

* `neighbours_iff` — field lookup = `Linked` (both directions, self-links).
* `eval_mem_iff` — a successful evaluation returns exactly the assets of the set
  semantics; all operators, any number of sources, duplicates irrelevant.  The
  hypothesis `TransOK` (operands of `*` are pointwise) is necessary (see the
  counterexample at the end) and holds for everything that avoids `/\` and `-`
  under `*` (`pointwise_of_syntactic`, `transOK_of_starOK`).
* `closure_correct`, `closure_field_correct`, `trans_field_correct` — the frontier
  loop computes the transitive closure and never runs out of fuel.
* `eval_terminates` — no `recursion` error for acyclic variable definitions.
* `edges_iff`, `edges_iff_EdgeSpec`, `child_iff` — the edge list.
* `parents_converse` — parents are the converse of children.
-/
namespace MalVerif.C01
open MalVerif

/-- **Field lookup.**  `get_associated_assets_by_field_name`: the assets linked
through field `f`, in either direction of an association, self-links included. -/
theorem neighbours_iff (m : Inst) (x : Int) (f : String) (y : Int) :
    y ∈ m.neighbours x f ↔ Linked m x f y := mem_neighbours m x f y

/-- **The evaluator computes the set semantics.**  For every amount of fuel,
every expression and every list of sources: when the evaluation succeeds, the
returned list contains exactly the assets the denotational semantics reaches
from the set of sources. -/
theorem eval_mem_iff (L : Lang) (m : Inst) (f : Nat) (e : Expr) (xs : List Int)
    (r : List Int × Option String) (hok : TransOK L m f e) (h : evalF L m f e xs = .ok r) :
    ∀ y, y ∈ r.1 ↔ DenF L m f e (· ∈ xs) y := evalF_mem L m f e hok xs r h

/-- the same for `eval` (the fuel the generator uses) from a single source -/
theorem eval_mem_iff_single (L : Lang) (m : Inst) (e : Expr) (x : Int)
    (r : List Int × Option String) (hok : TransOK L m L.varFuel e) (h : eval L m e [x] = .ok r) :
    ∀ y, y ∈ r.1 ↔ DenF L m L.varFuel e (· = x) y := by
  intro y
  rw [evalF_mem L m _ e hok [x] r h y]
  have : (fun z => z ∈ [x]) = (· = x) := aset_ext fun z => List.mem_singleton
  rw [this]

/-- the step name returned with the targets: for an expression that does not end in a variable call
it is the attack step the expression ends in -/
theorem eval_step_name (L : Lang) (m : Inst) (f : Nat) (e : Expr) (xs : List Int)
    (r : List Int × Option String) (h : evalF L m f e xs = .ok r) (ht : tailVar e = false) :
    r.2 = lastStep e := evalF_snd L m f e xs r h ht

/-- **Pointwise operands.**  Expressions built from steps, fields, collect, union,
subtype filter, transitive closure, and variables whose definitions are of that
form again, denote pointwise transformers: the result on a set is the union of the
results on its elements. -/
theorem pointwise_of_syntactic (L : Lang) (m : Inst) (f : Nat) (e : Expr) (h : Syntactic L f e) :
    Pointwise (DenF L m f e) := pointwise_DenF L m f e h

/-- so the hypothesis of `eval_mem_iff` holds whenever every operand of `*`, also
inside variable definitions, is of that form (intersection and difference may be
used anywhere else) -/
theorem transOK_of_starOK (L : Lang) (m : Inst) (f : Nat) (e : Expr) (h : StarOK L f e) :
    TransOK L m f e := transOK_of_starOK_aux L m f e h

/-- a variable all of whose sources have the same definition `d` means `d` on those sources -/
theorem den_var_uniform (L : Lang) (m : Inst) (f : Nat) (v : String) (d : Expr) (S : ASet) (x0 : Int)
    (h0 : S x0) (hS : ∀ x, S x → (m.typeOf x).bind (fun t => L.lookupVar t v) = some d) (y : Int) :
    DenF L m (f+1) (.var v) S y ↔ DenF L m f d S y := by
  have hset : (fun x => S x ∧ (m.typeOf x).bind (fun t => L.lookupVar t v) = some d) = S :=
    aset_ext fun x => ⟨fun h => h.1, fun h => ⟨h, hS x h⟩⟩
  simp only [DenF, DenE]
  constructor
  · rintro ⟨d', ⟨x, hx, hd'⟩, h⟩
    have e : d' = d := by have := hS x hx; rw [hd'] at this; cases this; rfl
    subst e; rw [hset] at h; exact h
  · intro h
    exact ⟨d, ⟨x0, h0, hS x0 h0⟩, by rw [hset]; exact h⟩

/-- **The frontier loop computes the transitive closure.**  `g` computes the
`R`-successors of a list of assets, all `R`-successors lie in the finite
universe `univ`: with `univ.length + 2` rounds the loop returns (never
`recursion`), and the result is what is reachable from the sources in one or
more `R`-steps — cycles and self-loops included; a source is in the result only
if it is reachable again. -/
theorem closure_correct (R : Int → Int → Prop) (g : List Int → ER (List Int)) (univ : List Int)
    (hg : ∀ zs, ∃ ws, g zs = .ok ws ∧ ∀ y, y ∈ ws ↔ ∃ z ∈ zs, R z y)
    (hu : ∀ a b, R a b → b ∈ univ) (xs : List Int) :
    ∃ res, closure g (univ.length + 2) xs [] = .ok res ∧ ∀ y, y ∈ res ↔ ∃ x ∈ xs, TC R x y := by
  have hg' : ∀ zs ws, g zs = .ok ws → ∀ y, y ∈ ws ↔ ∃ z ∈ zs, R z y := by
    intro zs ws h
    obtain ⟨ws', h', hw⟩ := hg zs
    rw [h] at h'; cases h'; exact hw
  cases hc : closure g (univ.length + 2) xs [] with
  | ok res => exact ⟨res, rfl, closure_sound R g hg' xs _ _ _ res (CInv.init R xs) List.nodup_nil hc⟩
  | error err =>
    obtain ⟨zs, _, hz⟩ := closure_error g univ (fun _ => True) (fun _ _ => trivial)
      (fun zs ws _ h y hy => by
        obtain ⟨z, _, hzy⟩ := (hg' zs ws h y).1 hy
        exact hu z y hzy)
      err _ xs [] List.nodup_nil (by simp) trivial (Or.inr (by simp)) hc
    obtain ⟨ws, hw, _⟩ := hg zs
    rw [hw] at hz; cases hz

/-- instance: following one field through an instance model whose association
objects only mention assets of the model -/
theorem closure_field_correct (m : Inst) (hm : LinksClosed m) (f : String) (xs : List Int) :
    ∃ res, closure (fun zs => .ok (zs.flatMap (fun x => m.neighbours x f))) (m.assets.length + 2) xs []
        = .ok res ∧
      ∀ y, y ∈ res ↔ ∃ x ∈ xs, TC (fun a b => Linked m a f b) x y := by
  have := closure_correct (fun a b => Linked m a f b)
    (fun zs => .ok (zs.flatMap (fun x => m.neighbours x f))) m.ids
    (fun zs => ⟨_, rfl, fun y => by simp only [List.mem_flatMap, mem_neighbours]⟩)
    (fun a b h => linked_in_ids hm h) xs
  simpa [Inst.ids] using this

/-- … and therefore `(field)*` evaluates, with any positive fuel, to the
transitive closure of the field relation -/
theorem trans_field_correct (L : Lang) (m : Inst) (hm : LinksClosed m) (k : Nat) (f : String)
    (xs : List Int) :
    ∃ res, evalF L m (k+1) (.trans (.field f)) xs = .ok (res, none) ∧
      ∀ y, y ∈ res ↔ ∃ x ∈ xs, TC (fun a b => Linked m a f b) x y := by
  obtain ⟨res, h, hres⟩ := closure_field_correct m hm f xs
  refine ⟨res, ?_, hres⟩
  have hg : (fun zs => Except.map (fun x => x.fst)
        (Except.ok (List.flatMap (fun x => m.neighbours x f) zs, (none : Option String)) : ER _)) =
      (fun zs => .ok (zs.flatMap (fun x => m.neighbours x f))) := rfl
  simp only [evalF, evalE]
  rw [hg, h]
  rfl

/-- **Termination.**  Association objects mention only assets of the model, the
sources are assets of the model, variable definitions are acyclic (`rank`
decreases from an expression to the definition of any variable in it) and the
fuel exceeds the rank: the evaluation never fails with `recursion` — neither
the variable expansion nor any transitive step runs out of fuel. -/
theorem eval_terminates (L : Lang) (m : Inst) (hm : LinksClosed m) (rank : Expr → Nat)
    (hr : ∀ e, ∀ v ∈ e.vars, ∀ t d, L.lookupVar t v = some d → rank d < rank e)
    (f : Nat) (e : Expr) (hf : rank e < f) (xs : List Int) (hxs : ∀ x ∈ xs, x ∈ m.ids) :
    evalF L m f e xs ≠ .error .recursion := evalF_norec L m hm rank hr f e hf xs hxs

/-- results are assets of the model -/
theorem eval_in_model (L : Lang) (m : Inst) (hm : LinksClosed m) (f : Nat) (e : Expr) (xs : List Int)
    (r : List Int × Option String) (hxs : ∀ x ∈ xs, x ∈ m.ids) (h : evalF L m f e xs = .ok r) :
    ∀ y ∈ r.1, y ∈ m.ids := evalF_sub L m hm f e xs r hxs h

/-! ### the edge list -/

/-- **Edges, operationally.**  The second loop adds exactly one kind of edge: from a
node to the node registered under `target asset name : step name` for every
target of every `reaches` expression of the node. -/
theorem edges_iff (L : Lang) (m : Inst) (ns : List GNode) (es : List (Nat × Nat))
    (h : genEdges L m ns = .ok es) (a b : Nat) :
    (a, b) ∈ es ↔ ∃ n ∈ ns, n.id = a ∧ ∃ e ∈ n.reaches, ∃ r, eval L m e [n.asset] = .ok r ∧
      ∃ y ∈ r.1, ∃ ya, m.find y = some ya ∧
        ∃ t, nameIndex ns (ya.name ++ ":" ++ r.2.getD "None") = some t ∧ t.id = b := by
  rw [genEdges_mem L m ns es h (a, b)]
  simp only [EdgeFor, Prod.mk.injEq]
  constructor
  · rintro ⟨n, hn, e, he, r, hr, y, hy, ya, hya, t, ht, rfl, rfl⟩
    exact ⟨n, hn, rfl, e, he, r, hr, y, hy, ya, hya, t, ht, rfl⟩
  · rintro ⟨n, hn, rfl, e, he, r, hr, y, hy, ya, hya, t, ht, rfl⟩
    exact ⟨n, hn, e, he, r, hr, y, hy, ya, hya, t, ht, rfl, rfl⟩

/-- **Edges = specification.**  When generation succeeds, the edge list is the
relation `EdgeSpec`: `a → b` iff some `reaches` expression of `a`, under the
set semantics from `a`'s asset, reaches an asset `Y` and names a step `t`
such that `b` is the node called `Y:t`. -/
theorem edges_iff_EdgeSpec (L : Lang) (m : Inst) (ns : List GNode) (es : List (Nat × Nat))
    (htr : ∀ n ∈ ns, ∀ e ∈ n.reaches, TransOK L m L.varFuel e)
    (htail : ∀ n ∈ ns, ∀ e ∈ n.reaches, tailVar e = false)
    (h : genEdges L m ns = .ok es) (a b : Nat) :
    (a, b) ∈ es ↔ EdgeSpec L m ns a b := by
  rw [edges_iff L m ns es h a b]
  unfold EdgeSpec
  constructor
  · rintro ⟨n, hn, ha, e, he, r, hr, y, hy, ya, hya, t, ht, hb⟩
    refine ⟨n, hn, ha, e, he, y, ya, t, ?_, hya, ?_, hb⟩
    · exact (eval_mem_iff_single L m e n.asset r (htr n hn e he) hr y).1 hy
    · rw [← evalF_snd L m _ e _ r hr (htail n hn e he)]; exact ht
  · rintro ⟨n, hn, ha, e, he, y, ya, t, hy, hya, ht, hb⟩
    obtain ⟨r, hr⟩ := genEdges_eval_ok L m ns es h n hn e he
    refine ⟨n, hn, ha, e, he, r, hr, y, ?_, ya, hya, t, ?_, hb⟩
    · exact (eval_mem_iff_single L m e n.asset r (htr n hn e he) hr y).2 hy
    · rw [evalF_snd L m _ e _ r hr (htail n hn e he)]; exact ht

/-- **`X:s` has child `Y:t` iff …**, for the graph `genGraph` returns.  `n` is the
node of step `s` on asset `X` (node ids are unique), `b` a node id:
`b` is a child of `n` iff one of the `reaches` expressions of `s`, evaluated
from `{X}` with the set semantics, reaches an asset `Y` and ends in a step
`t`, and `b` is the node registered under the name `Y:t`. -/
theorem child_iff (L : Lang) (m : Inst) (ns : List GNode) (es : List (Nat × Nat))
    (hgen : genGraph L m = .ok (ns, es))
    (htr : ∀ n ∈ ns, ∀ e ∈ n.reaches, TransOK L m L.varFuel e)
    (htail : ∀ n ∈ ns, ∀ e ∈ n.reaches, tailVar e = false)
    (n : GNode) (hn : n ∈ ns) (b : Nat) :
    (n.id, b) ∈ es ↔ ∃ e ∈ n.reaches, ∃ y ya t,
      DenF L m L.varFuel e (· = n.asset) y ∧ m.find y = some ya ∧
      nameIndex ns (ya.name ++ ":" ++ (lastStep e).getD "None") = some t ∧ t.id = b := by
  unfold genGraph at hgen
  obtain ⟨ns', hns, hgen⟩ := (bind_ok_iff _ _ _).1 hgen
  obtain ⟨es', hes, hgen⟩ := (bind_ok_iff _ _ _).1 hgen
  cases hgen
  rw [edges_iff_EdgeSpec L m ns es htr htail hes]
  unfold EdgeSpec
  constructor
  · rintro ⟨n', hn', e, h⟩
    rw [genNodes_id_inj L m ns hns n' n hn' hn e] at h
    exact h
  · intro h; exact ⟨n, hn, rfl, h⟩

/-- edges connect nodes of the graph, and the child carries the name that was looked up -/
theorem edge_ends (L : Lang) (m : Inst) (ns : List GNode) (es : List (Nat × Nat))
    (h : genEdges L m ns = .ok es) (a b : Nat) (hab : (a, b) ∈ es) :
    (∃ n ∈ ns, n.id = a) ∧ (∃ t ∈ ns, t.id = b) := by
  obtain ⟨n, hn, ha, e, he, r, hr, y, hy, ya, hya, t, ht, hb⟩ := (edges_iff L m ns es h a b).1 hab
  exact ⟨⟨n, hn, ha⟩, ⟨t, (nameIndex_some ns _ t ht).1, hb⟩⟩

/-- **Parents.**  Remark rather than theorem: the Python appends to `children`
and to `parents` in the same statement, the model keeps the one edge list, and
the two adjacency views are both read off it — they are converse by definition. -/
theorem parents_converse (es : List (Nat × Nat)) (a b : Nat) :
    a ∈ parentsOf es b ↔ b ∈ childrenOf es a := by
  simp only [parentsOf, childrenOf, List.mem_map, List.mem_filter, decide_eq_true_eq]
  constructor
  · rintro ⟨⟨a', b'⟩, ⟨h, rfl⟩, rfl⟩; exact ⟨(a', b'), ⟨h, rfl⟩, rfl⟩
  · rintro ⟨⟨a', b'⟩, ⟨h, rfl⟩, rfl⟩; exact ⟨(a', b'), ⟨h, rfl⟩, rfl⟩

theorem mem_childrenOf (es : List (Nat × Nat)) (a b : Nat) : b ∈ childrenOf es a ↔ (a, b) ∈ es := by
  simp only [childrenOf, List.mem_map, List.mem_filter, decide_eq_true_eq]
  constructor
  · rintro ⟨⟨a', b'⟩, ⟨h, rfl⟩, rfl⟩; exact h
  · intro h; exact ⟨(a, b), ⟨h, rfl⟩, rfl⟩

open MalVerif.Demo

/-! ### non-vacuity: a cyclic model with a self-link, an expression with every operator -/

example : eval c01L c01M c01E [3] = .ok ([1, 2], some "compromise") := by decide
example : eval c01L c01M c01E [1, 3, 1] = .ok ([1, 1, 1], some "compromise") := by decide
example : eval c01L c01M c01E2 [1] = .ok ([3], some "compromise") := by decide
/-- the cycle: every asset reaches itself again, no `recursion` error -/
example : eval c01L c01M (.trans (.field "next")) [1] = .ok ([2, 3, 1], none) := by decide

example : LinksClosed c01M := by decide

/-- so the set semantics of the demo expression is what the evaluator returned: from `{3}`, exactly `{1, 2}` -/
example : ∀ y, DenF c01L c01M c01L.varFuel c01E (· = 3) y ↔ y = 1 ∨ y = 2 := by
  intro y
  rw [← eval_mem_iff_single c01L c01M c01E 3 ([1, 2], some "compromise") c01E_transOK (by decide) y]
  simp

example (xs : List Int) (hxs : ∀ x ∈ xs, x ∈ c01M.ids) :
    evalF c01L c01M 2 c01E xs ≠ .error .recursion :=
  eval_terminates c01L c01M (by decide) c01Rank c01Rank_ok 2 c01E (by decide) xs hxs

/-- the generated graph of the demo (6 nodes: `access`, `compromise` on each asset): its
edges, and the hypotheses of `child_iff` / `edges_iff_EdgeSpec` hold for it -/
example : ∃ ns es, genGraph c01L c01M = .ok (ns, es) ∧
    es = [(0, 3), (0, 5), (0, 1), (2, 5), (2, 1), (2, 3), (4, 1), (4, 3)] ∧
    (∀ n ∈ ns, ∀ e ∈ n.reaches, TransOK c01L c01M c01L.varFuel e) ∧
    (∀ n ∈ ns, ∀ e ∈ n.reaches, tailVar e = false) := by
  have h1 : (genGraph c01L c01M).map (·.2) =
      .ok [(0, 3), (0, 5), (0, 1), (2, 5), (2, 1), (2, 3), (4, 1), (4, 3)] := by decide
  have h2 : (genGraph c01L c01M).map (fun p => p.1.all (fun n => n.reaches.all (· = c01E))) = .ok true := by
    decide
  cases h : genGraph c01L c01M with
  | error err => rw [h] at h1; cases h1
  | ok p =>
    obtain ⟨ns, es⟩ := p
    rw [h] at h1 h2
    simp only [Except.map, Except.ok.injEq] at h1 h2
    have h3 : ∀ n ∈ ns, ∀ e ∈ n.reaches, e = c01E := by
      intro n hn e he
      simpa using List.all_eq_true.1 (List.all_eq_true.1 h2 n hn) e he
    refine ⟨ns, es, rfl, h1, ?_, ?_⟩
    · intro n hn e he; rw [h3 n hn e he]; exact c01E_transOK
    · intro n hn e he; rw [h3 n hn e he]; rfl

/-! ### the hypothesis `TransOK` cannot be dropped

With an intersection under `*` the loop (which applies the operand to the
*new* assets of each round only) and the set semantics (which applies it to
the whole previous set) differ: in `cexM`, from `{1}`, the rounds give
`{1,2}`, `{1,2,3}`; then the loop evaluates `next /\ alt` on `{3}` alone (empty),
the semantics on `{1,2,3}` (`4` is `next` of 3 and `alt` of 1). -/
example : eval {} cexM cexE [1] = .ok ([1, 2, 3], none) := by decide

example : DenF {} cexM 1 cexE (· = 1) 4 := by
  refine ⟨2, ?_⟩
  show DenE {} cexM (DenF {} cexM 0) (.inter (.field "next") (.field "alt"))
    (DenE {} cexM (DenF {} cexM 0) (.inter (.field "next") (.field "alt"))
      (DenE {} cexM (DenF {} cexM 0) (.inter (.field "next") (.field "alt")) (· = 1))) 4
  have h1 : DenE {} cexM (DenF {} cexM 0) (.inter (.field "next") (.field "alt")) (· = 1) 1 :=
    ⟨⟨1, rfl, by decide⟩, ⟨1, rfl, by decide⟩⟩
  have h2 : DenE {} cexM (DenF {} cexM 0) (.inter (.field "next") (.field "alt")) (· = 1) 2 :=
    ⟨⟨1, rfl, by decide⟩, ⟨1, rfl, by decide⟩⟩
  have k1 : DenE {} cexM (DenF {} cexM 0) (.inter (.field "next") (.field "alt"))
      (DenE {} cexM (DenF {} cexM 0) (.inter (.field "next") (.field "alt")) (· = 1)) 1 :=
    ⟨⟨1, h1, by decide⟩, ⟨1, h1, by decide⟩⟩
  have k3 : DenE {} cexM (DenF {} cexM 0) (.inter (.field "next") (.field "alt"))
      (DenE {} cexM (DenF {} cexM 0) (.inter (.field "next") (.field "alt")) (· = 1)) 3 :=
    ⟨⟨2, h2, by decide⟩, ⟨2, h2, by decide⟩⟩
  exact ⟨⟨3, k3, by decide⟩, ⟨1, k1, by decide⟩⟩

/- UNPROVED (not attempted; nothing below is used above)

1. The fuel of `eval` suffices for acyclic languages:
   `(∀ e, ∀ v ∈ e.vars, ∀ t d, L.lookupVar t v = some d → rank d < rank e) →
      LinksClosed m → (∀ x ∈ xs, x ∈ m.ids) → eval L m e xs ≠ .error .recursion`
   (`eval_terminates` needs `rank e < fuel`; that a rank bounded by the number of variable
   declarations `L.varFuel - 1` exists for every acyclic language is a pigeonhole argument on
   chains of definitions).
2. The step name of an expression that ends in a variable call (`tailVar e = true`): the second
   component is then the step name of the definition selected by the first source, `none` for no
   source.  `eval_step_name`, `edges_iff_EdgeSpec` and `child_iff` assume `tailVar e = false`
   (every `reaches` expression the compiler emits ends in an attack step); `edges_iff` has no such
   restriction.
-/

end MalVerif.C01
