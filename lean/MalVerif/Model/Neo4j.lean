import MalVerif.Model.Legacy
import MalVerif.Model.AGS
/-!
# Neo4j ingestion (`maltoolbox/ingestors/neo4j.py`) — C19

What `ingest_model` / `ingest_attack_graph` hand to the database driver (one `Subgraph`: a set of nodes and a
set of relationships; two relationships with the same start, type and end are the same element of that set),
the two fixed Cypher queries of `get_model` as list comprehensions over such a subgraph, and `get_model`.
The database driver is replaced by a recording stand-in in the correspondence (trusted).
-/
namespace MalVerif.Neo
open MalVerif.MS

structure DbNode where
  label : String
  name : String
  assetId : String          -- `asset_id` property (text)
  type : String
  deriving Repr, DecidableEq, Inhabited

/-- a relationship between two nodes given by their position in the node list -/
structure DbRel where
  src : Nat
  type : String
  dst : Nat
  deriving Repr, DecidableEq, Inhabited

structure Sub where
  nodes : List DbNode := []
  rels : List DbRel := []        -- duplicate-free (a set)
  deriving Repr, DecidableEq, Inhabited

def addRel (rs : List DbRel) (r : DbRel) : List DbRel := if rs.contains r then rs else rs ++ [r]

/-- `ingest_model(model, …)` -/
def ingestModel (s : St) : Sub :=
  let pos (a : Nat) : Nat := (s.assets.idxOf? a).getD 0
  { nodes := s.assets.map (fun a => let o := s.aobj a
      { label := o.type, name := o.name, assetId := toString o.id, type := o.type })
    rels := s.associations.foldl (fun rs l =>
      let o := s.lobj l
      o.left.foldl (fun rs x => o.right.foldl (fun rs y =>
        addRel (addRel rs { src := pos x, type := o.lf, dst := pos y }) { src := pos y, type := o.rf, dst := pos x }) rs) rs) [] }

/-- first query: `MATCH (a) WHERE a.type IS NOT NULL RETURN DISTINCT a` -/
def queryAssets (g : Sub) : List (Nat × DbNode) := (List.range g.nodes.length).zip g.nodes

/-- second query: `MATCH (a)-[r1]->(b),(a)<-[r2]-(b) … RETURN DISTINCT a, r1, r2, b`
(`r1 ≠ r2`: a relationship is matched at most once per pattern) -/
def queryPairs (g : Sub) : List (Nat × String × String × Nat) :=
  g.rels.flatMap (fun r1 => (g.rels.filter (fun r2 => r2.src = r1.dst && r2.dst = r1.src && r2 ≠ r1)).map
    (fun r2 => (r1.src, r1.type, r2.type, r1.dst)))

/-- `get_model(…)` over the recorded subgraph -/
def getModel (L : Lang) (nodes : List AssocDecl) (g : Sub) : Except Err St := do
  let s1 ← (queryAssets g).foldlM (fun s e =>
    match e.2.assetId.toInt? with
    | none => .error .valueError
    | some id =>
      if e.2.type = "Attacker" then .ok (addAttacker s none (some id))
      else addAsset L s e.2.type (some e.2.name) [] true "{}" (some id) true) ({} : St)
  (queryPairs g).foldlM (fun s row =>
    let (ai, lf, rf, bi) := row
    match (g.nodes[ai]?).bind (·.assetId.toInt?), (g.nodes[bi]?).bind (·.assetId.toInt?) with
    | some lid, some rid =>
      if lf = "firstSteps" || rf = "firstSteps" then
        let (attId, tgtId, prop) := if lf = "firstSteps" then (rid, lid, rf) else (lid, rid, lf)
        match getAttackerById s attId, getAssetById s tgtId with
        | some t, some x => .ok (updT s t (fun o => { o with entry := o.entry ++ [(x, [prop])] }))
        | _, _ => .error .lookupError
      else
        match getAssetById s lid, getAssetById s rid with
        | some la, some ra =>
          match LG.lookupAssoc L nodes lf rf (s.aobj la).type (s.aobj ra).type with
          | .ok (some d) =>
            let dup := (L.assocs.filter (·.name = d.name)).length > 1
            let cls := if dup then d.name ++ "_" ++ d.leftAsset ++ "_" ++ d.rightAsset else d.name
            -- every link comes back twice (once from each end): look for it in the orientation of the class
            if d.leftField = lf then (if assocExists s cls la ra then .ok s else addAssociation L s cls [la] [ra])
            else (if assocExists s cls ra la then .ok s else addAssociation L s cls [ra] [la])
          | .ok none => .ok s                         -- a pair of fields that no association has: skipped
          | .error _ => .error .lookupError
        | _, _ => .error .lookupError
    | _, _ => .error .valueError) s1

/-! ### attack graphs -/
structure StepNode where
  label : String               -- asset name, or the id for a node without asset
  name : String
  fullName : String
  type : String
  ttc : String
  necessary : Bool
  viable : Bool
  compBy : List String
  defense : Option String
  deriving Repr, DecidableEq, Inhabited

structure GSub where
  nodes : List StepNode := []
  rels : List (Nat × Nat) := []     -- positions; duplicate-free
  deriving Repr, DecidableEq, Inhabited

/-- `ingest_attack_graph(graph, …)` -/
def ingestGraph (typeName : AGraph.NType → String) (s : AGS.St) : GSub :=
  let pos (r : Nat) : Nat := (s.nodes.idxOf? r).getD 0
  { nodes := s.nodes.map (fun r => let o := s.nobj r
      { label := (match o.asset with | some a => a | none => toString o.id), name := o.name, fullName := AGS.fullName o,
        type := typeName o.type, ttc := o.ttc, necessary := o.necessary, viable := o.viable,
        compBy := o.compBy.map (fun a => (s.aobj a).name), defense := o.defense })
    rels := s.nodes.foldl (fun rs r => (s.nobj r).children.foldl (fun rs c =>
      let e := (pos r, pos c); if rs.contains e then rs else rs ++ [e]) rs) [] }

end MalVerif.Neo
