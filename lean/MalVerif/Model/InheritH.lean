import MalVerif.Model.Inherit
/-!
# Heap-level model of `LanguageGraph._get_attacks_for_asset_type`

`Model/Inherit.lean` describes *what* the resolver returns.  Whether the
resolver is pure (does not modify the loaded language specification) cannot be
a statement about a pure function, so this file models the same Python code
one level lower: the `stepExpressions` lists are objects in a store and a step
dictionary refers to its list by location.

* the lists of the language specification live at locations `< base`;
* `copy.deepcopy(step)` allocates a fresh location holding a copy of the list;
* `list.extend` writes in place at the location the accumulator holds;
* a plain assignment of a list stores the *location* (aliasing).

Step dictionaries themselves are values: the accumulator only ever holds deep
copies of them (`copy.deepcopy(step)`), the specification's step dictionaries
are never assigned to.
-/
namespace MalVerif

/-! ## dictionaries with insertion order (any value type) -/

/-- `d[k] = v` keeping the insertion position (`dictSet` for any value type) -/
def dSet {α : Type} (d : List (String × α)) (k : String) (v : α) : List (String × α) :=
  if d.any (·.1 = k) then d.map (fun e => if e.1 = k then (k, v) else e) else d ++ [(k, v)]
/-- `d.get(k)` -/
def dGet {α : Type} (d : List (String × α)) (k : String) : Option α :=
  (d.find? (·.1 = k)).map (·.2)

/-! ## the store -/

/-- the heap of `stepExpressions` list objects; a location is an index -/
abbrev Store := List (List Expr)

/-- content of a location (`[]` for a dangling one, which never occurs) -/
def Store.read (σ : Store) (l : Nat) : List Expr := (σ[l]?).getD []

/-- a new list object with the given content -/
def Store.alloc (σ : Store) (c : List Expr) : Store × Nat := (σ ++ [c], σ.length)

/-- a step dictionary whose `reaches.stepExpressions` is a reference -/
structure StepH where
  name : String
  type : String
  tags : List String := []
  ttc : String := "null"
  ttcName : Option String := none
  metaTxt : String := "{}"
  mitre : Option String := none
  risk : String := "null"
  requires : Option (List Expr) := none
  /-- `(overrides, location of stepExpressions)` -/
  reaches : Option (Bool × Nat) := none
  deriving Repr, DecidableEq, Inhabited

structure AssetH where
  name : String
  superAsset : Option String := none
  isAbstract : Bool := false
  variables : List (String × Expr) := []
  steps : List StepH := []
  metaTxt : String := "{}"
  category : String := ""
  deriving Repr, Inhabited

structure LangH where
  assets : List AssetH := []
  assocs : List AssocDecl := []
  deriving Repr, Inhabited

def LangH.findAsset (LH : LangH) (n : String) : Option AssetH := LH.assets.find? (·.name = n)

/-! ## reading heap objects as values -/

def readStep (σ : Store) (s : StepH) : StepDecl :=
  { name := s.name, type := s.type, tags := s.tags, ttc := s.ttc, ttcName := s.ttcName,
    metaTxt := s.metaTxt, mitre := s.mitre, risk := s.risk, requires := s.requires,
    reaches := s.reaches.map (fun r => { overrides := r.1, exprs := σ.read r.2 }) }

def readAsset (σ : Store) (a : AssetH) : AssetDecl :=
  { name := a.name, superAsset := a.superAsset, isAbstract := a.isAbstract, variables := a.variables,
    steps := a.steps.map (readStep σ), metaTxt := a.metaTxt, category := a.category }

/-- the language specification as a value, read through the store -/
def readLang (σ : Store) (LH : LangH) : Lang :=
  { assets := LH.assets.map (readAsset σ), assocs := LH.assocs }

/-- a resolver answer as a value -/
def readAcc (σ : Store) (acc : List (String × StepH)) : List (String × StepDecl) :=
  acc.map (fun e => (e.1, readStep σ e.2))

/-! ## the resolver -/

/-- `copy.deepcopy(step)`: a new step dictionary with a new list object -/
def deepcopyStep (σ : Store) (s : StepH) : Store × StepH :=
  match s.reaches with
  | none => (σ, s)
  | some (ov, l) =>
    let r := σ.alloc (σ.read l)
    (r.1, { s with reaches := some (ov, r.2) })

/-- one `for step in asset['attackSteps']` iteration.  `fixed = true` is the
code as it is now; `fixed = false` the code before the fix, which differs in
the last branch only. -/
def mergeStepHG (fixed : Bool) (st : Store × List (String × StepH)) (s : StepH) :
    Store × List (String × StepH) :=
  match dGet st.2 s.name with
  | none =>                                   -- attack_steps[name] = copy.deepcopy(step)
    let r := deepcopyStep st.1 s
    (r.1, dSet st.2 s.name r.2)
  | some inh =>
    match s.reaches with
    | none => st                              -- continue
    | some (ov, l) =>
      if ov then                              -- attack_steps[name] = copy.deepcopy(step)
        let r := deepcopyStep st.1 s
        (r.1, dSet st.2 s.name r.2)
      else
        match inh.reaches with
        | some (_, il) =>                     -- attack_steps[name]['reaches']['stepExpressions'].extend(...)
          (st.1.set il (st.1.read il ++ st.1.read l), st.2)
        | none =>
          if fixed then                       -- ... = {'overrides': False, 'stepExpressions': copy.deepcopy(...)}
            let r := st.1.alloc (st.1.read l)
            (r.1, dSet st.2 s.name { inh with reaches := some (false, r.2) })
          else                                -- before the fix: the child's own list object is stored
            (st.1, dSet st.2 s.name { inh with reaches := some (false, l) })

/-- the recursion over `superAsset` with fuel (cf. `Lang.chain`) -/
def resolveHG (fixed : Bool) (LH : LangH) : Nat → Store → String → Store × List (String × StepH)
  | 0, σ, _ => (σ, [])
  | f+1, σ, t =>
    match LH.findAsset t with
    | none => (σ, [])
    | some a =>
      let up := match a.superAsset with
        | some s => resolveHG fixed LH f σ s
        | none => (σ, [])
      a.steps.foldl (mergeStepHG fixed) up

/-- `_get_attacks_for_asset_type(t)` as it is now: final store and answer -/
def resolveH (LH : LangH) (σ : Store) (t : String) : Store × List (String × StepH) :=
  resolveHG true LH (LH.assets.length + 1) σ t

/-- the same function before the fix -/
def resolveH_aliasing (LH : LangH) (σ : Store) (t : String) : Store × List (String × StepH) :=
  resolveHG false LH (LH.assets.length + 1) σ t

/-- a history of queries: the final store and the answers (heap objects) in
the order of the queries -/
def runH (LH : LangH) : Store → List String → Store × List (List (String × StepH))
  | σ, [] => (σ, [])
  | σ, t :: ts =>
    let r := resolveH LH σ t
    let rest := runH LH r.1 ts
    (rest.1, r.2 :: rest.2)

/-- the same with the pre-fix resolver -/
def runH_aliasing (LH : LangH) : Store → List String → Store × List (List (String × StepH))
  | σ, [] => (σ, [])
  | σ, t :: ts =>
    let r := resolveH_aliasing LH σ t
    let rest := runH_aliasing LH r.1 ts
    (rest.1, r.2 :: rest.2)

/-! ## loading a specification into an empty store -/

/-- allocate the lists of a sequence of step declarations -/
def loadSteps : Store → List StepDecl → Store × List StepH
  | σ, [] => (σ, [])
  | σ, s :: ss =>
    let r : Store × Option (Bool × Nat) := match s.reaches with
      | none => (σ, none)
      | some r => ((σ.alloc r.exprs).1, some (r.overrides, (σ.alloc r.exprs).2))
    let rest := loadSteps r.1 ss
    (rest.1, { name := s.name, type := s.type, tags := s.tags, ttc := s.ttc, ttcName := s.ttcName,
               metaTxt := s.metaTxt, mitre := s.mitre, risk := s.risk, requires := s.requires,
               reaches := r.2 } :: rest.2)

def loadAssets : Store → List AssetDecl → Store × List AssetH
  | σ, [] => (σ, [])
  | σ, a :: as =>
    let r := loadSteps σ a.steps
    let rest := loadAssets r.1 as
    (rest.1, { name := a.name, superAsset := a.superAsset, isAbstract := a.isAbstract,
               variables := a.variables, steps := r.2, metaTxt := a.metaTxt,
               category := a.category } :: rest.2)

/-- the loaded specification: its store (whose length is `base`) and its heap form -/
def loadLang (L : Lang) : Store × LangH :=
  let r := loadAssets [] L.assets
  (r.1, { assets := r.2, assocs := L.assocs })

end MalVerif
