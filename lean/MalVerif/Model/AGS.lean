import MalVerif.Model.AGraph
/-!
# The attack graph as a state machine (C09, C11, C12, C13)

Model of the mutable structure kept by `AttackGraph`, `AttackGraphNode` and
`Attacker` (`attackgraph.py`, `node.py`, `attacker.py`, the pruning loop of
`apriori.py`) — Python objects are references (`Nat`) into two stores; the
`id` *fields* are separate data.  Python's `list.remove(x)` is `List.erase`,
`x in list` is `∈`/`contains` on references (distinct objects of one graph
differ in `id`, so dataclass `==` coincides with identity there); dicts are
association lists with "replace in place or append" updates.
-/
namespace MalVerif.AGS
open MalVerif.AGraph

structure NodeObj where
  id : Int := 0
  name : String := ""
  asset : Option String := none
  type : NType := .or
  viable : Bool := true
  necessary : Bool := true
  defOne : Bool := false      -- `defense_status == 1.0`
  suppress : Bool := false    -- `'suppress' in tags`
  ttc : String := "null"      -- canonical JSON text of `ttc`
  defense : Option String := none   -- `defense_status` (canonical float text)
  exist : Option Bool := none       -- `existence_status`
  mitre : Option String := none     -- `mitre_info`
  tags : List String := []
  extras : String := "{}"           -- canonical JSON text of `extras`
  children : List Nat := []
  parents : List Nat := []
  compBy : List Nat := []
  deriving Repr, Inhabited

structure AttObj where
  id : Int := 0
  name : String := ""
  entry : List Nat := []
  reached : List Nat := []
  deriving Repr, Inhabited

/-- `AttackGraphNode.full_name` -/
def fullName (n : NodeObj) : String :=
  match n.asset with
  | some a => a ++ ":" ++ n.name
  | none => toString n.id ++ ":" ++ n.name

structure St where
  nobj : Nat → NodeObj := fun _ => {}
  nfresh : Nat := 0
  aobj : Nat → AttObj := fun _ => {}
  afresh : Nat := 0
  nodes : List Nat := []
  attackers : List Nat := []
  idIdx : List (Int × Nat) := []
  nameIdx : List (String × Nat) := []
  attIdx : List (Int × Nat) := []
  nextNode : Int := 0
  nextAtt : Int := 0

inductive Err | valueError | attackGraphException | lookupError
  deriving Repr, DecidableEq

/-! ### dictionaries -/
def dget {κ} [DecidableEq κ] (d : List (κ × Nat)) (k : κ) : Option Nat :=
  (d.find? (fun e => e.1 = k)).map (·.2)
def dset {κ} [DecidableEq κ] (d : List (κ × Nat)) (k : κ) (v : Nat) : List (κ × Nat) :=
  if d.any (fun e => e.1 = k) then d.map (fun e => if e.1 = k then (k, v) else e) else d ++ [(k, v)]
def ddel {κ} [DecidableEq κ] (d : List (κ × Nat)) (k : κ) : List (κ × Nat) :=
  d.filter (fun e => e.1 ≠ k)

/-! ### object updates -/
def updN (s : St) (r : Nat) (f : NodeObj → NodeObj) : St :=
  { s with nobj := fun x => if x = r then f (s.nobj x) else s.nobj x }
def updA (s : St) (r : Nat) (f : AttObj → AttObj) : St :=
  { s with aobj := fun x => if x = r then f (s.aobj x) else s.aobj x }

/-- `get_node_by_id`, `get_node_by_full_name`, `get_attacker_by_id` -/
def getNodeById (s : St) (i : Int) : Option Nat := dget s.idIdx i
def getNodeByName (s : St) (k : String) : Option Nat := dget s.nameIdx k
def getAttackerById (s : St) (i : Int) : Option Nat := dget s.attIdx i

/-- `AttackGraph.add_node(node, node_id)`; `o` holds the fields the caller
set on the new object -/
def addNode (s : St) (o : NodeObj) (nodeId : Option Int) : Except Err St :=
  let newId := nodeId.getD s.nextNode
  if (dget s.idIdx newId).isSome then .error .valueError else
  let r := s.nfresh
  let o' := { o with id := newId }
  .ok { s with
    nobj := fun x => if x = r then o' else s.nobj x
    nfresh := r + 1
    nextNode := max (newId + 1) s.nextNode
    nodes := s.nodes ++ [r]
    idIdx := dset s.idIdx newId r
    nameIdx := dset s.nameIdx (fullName o') r }

/-- `AttackGraph.add_node(node, node_id)` called with a node object that exists already (reference `r`, e.g. the
object handed to `add_node` a second time).  Since b653290 the call starts with
`if node.id is not None and self._id_to_node.get(node.id) is node: raise ValueError`: an object that is part of
the graph is rejected (every object of the model has been given an id by `addNode`, so `node.id is not None`
holds).  Before, the object was listed a second time, got a second id and left its first index entry stale.  An
object that is not part of the graph (a removed node) is registered again, as it is. -/
def addNodeObj (s : St) (r : Nat) (nodeId : Option Int) : Except Err St :=
  if dget s.idIdx (s.nobj r).id = some r then .error .valueError else
  let newId := nodeId.getD s.nextNode
  if (dget s.idIdx newId).isSome then .error .valueError else
  let o' := { s.nobj r with id := newId }
  .ok { s with
    nobj := fun x => if x = r then o' else s.nobj x
    nextNode := max (newId + 1) s.nextNode
    nodes := s.nodes ++ [r]
    idIdx := dset s.idIdx newId r
    nameIdx := dset s.nameIdx (fullName o') r }

/-- `Attacker.compromise(node)` -/
def compromise (s : St) (a n : Nat) : St :=
  if (s.nobj n).compBy.contains a then s else
  let s1 := updN s n (fun o => { o with compBy := o.compBy ++ [a] })
  updA s1 a (fun o => { o with reached := o.reached ++ [n] })

/-- `Attacker.undo_compromise(node)` -/
def undo (s : St) (a n : Nat) : St :=
  if !(s.nobj n).compBy.contains a then s else
  let s1 := updN s n (fun o => { o with compBy := o.compBy.erase a })
  updA s1 a (fun o => { o with reached := o.reached.erase n })

/-- `AttackGraph.remove_node(node)` (for a node of the graph) -/
def removeNode (s : St) (r : Nat) : St :=
  let o := s.nobj r
  let s1 := o.children.foldl (fun s c => updN s c (fun x => { x with parents := x.parents.erase r })) s
  let s2 := (s1.nobj r).parents.foldl (fun s p => updN s p (fun x => { x with children := x.children.erase r })) s1
  let s3 := (s2.nobj r).compBy.foldl (fun s a => undo s a r) s2
  let s4 := s3.attackers.foldl (fun s a => updA s a (fun x => { x with entry := x.entry.filter (· ≠ r) })) s3
  { s4 with nodes := s4.nodes.erase r
            idIdx := ddel s4.idIdx (s4.nobj r).id
            nameIdx := ddel s4.nameIdx (fullName (s4.nobj r)) }

/-- `AttackGraph.add_attacker(attacker, attacker_id, entry_points, reached_attack_steps)` for a freshly
constructed `Attacker`.  Since b507c7f the real code is atomic like this model: the id check and the lookup of
ALL node ids come first (`ValueError` / `AttackGraphException`), only then the attacker gets its id, compromises
the reached nodes, takes its entry points and is registered.  (`addAttackerPreFix` below is the order of effects
before that commit.) -/
def addAttacker (s : St) (name : String) (attId : Option Int) (entry reached : List Int) : Except Err St :=
  let newId := attId.getD s.nextAtt
  if (dget s.attIdx newId).isSome then .error .valueError else
  if !(reached.all (fun i => (getNodeById s i).isSome) && entry.all (fun i => (getNodeById s i).isSome)) then
    .error .attackGraphException else
  let a := s.afresh
  let s0 : St := { s with aobj := fun x => if x = a then { id := newId, name := name } else s.aobj x
                          afresh := a + 1, nextAtt := max (newId + 1) s.nextAtt }
  let s1 := reached.foldl (fun s i => match getNodeById s i with | some n => compromise s a n | none => s) s0
  let s2 := entry.foldl (fun s i => match getNodeById s i with
      | some n => updA s a (fun o => { o with entry := o.entry ++ [n] }) | none => s) s1
  .ok { s2 with attackers := s2.attackers ++ [a], attIdx := dset s2.attIdx newId a }

/-- `add_attacker` called with an attacker object that exists already (reference `a`): since b653290 an object
that is part of the graph is rejected first (`attacker.id is not None and self._id_to_attacker.get(attacker.id) is
attacker`), whatever `attacker_id` is; an object that is not part of the graph (a removed attacker) is registered
again, keeping what it has reached / its entry points. -/
def addAttackerObj (s : St) (a : Nat) (attId : Option Int) (entry reached : List Int) : Except Err St :=
  if dget s.attIdx (s.aobj a).id = some a then .error .valueError else
  let newId := attId.getD s.nextAtt
  if (dget s.attIdx newId).isSome then .error .valueError else
  if !(reached.all (fun i => (getNodeById s i).isSome) && entry.all (fun i => (getNodeById s i).isSome)) then
    .error .attackGraphException else
  let s0 : St := { s with aobj := fun x => if x = a then { s.aobj a with id := newId } else s.aobj x
                          nextAtt := max (newId + 1) s.nextAtt }
  let s1 := reached.foldl (fun s i => match getNodeById s i with | some n => compromise s a n | none => s) s0
  let s2 := entry.foldl (fun s i => match getNodeById s i with
      | some n => updA s a (fun o => { o with entry := o.entry ++ [n] }) | none => s) s1
  .ok { s2 with attackers := s2.attackers ++ [a], attIdx := dset s2.attIdx newId a }

/-- the two lookup loops of `add_attacker` BEFORE b507c7f: each id is looked up and acted upon *at once*; the first
id that names no node stops the loop (`false`: `AttackGraphException` is raised there) -/
def preFixReach (a : Nat) (s : St) : List Int → St × Bool
  | [] => (s, true)
  | i :: l => match getNodeById s i with | some n => preFixReach a (compromise s a n) l | none => (s, false)
def preFixEntry (a : Nat) (s : St) : List Int → St × Bool
  | [] => (s, true)
  | i :: l => match getNodeById s i with
    | some n => preFixEntry a (updA s a (fun o => { o with entry := o.entry ++ [n] })) l | none => (s, false)

/-- the order of effects of `add_attacker` BEFORE b507c7f, for a freshly constructed attacker: `attacker.id` is
assigned, then the id is checked, then the reached ids are looked up and compromised one by one, then the entry
points — a lookup that fails raises in the middle.  Returns the state the call leaves behind together with the
exception, if any (the attacker is registered only when there is none). -/
def addAttackerPreFix (s : St) (name : String) (attId : Option Int) (entry reached : List Int) : St × Option Err :=
  let newId := attId.getD s.nextAtt
  let a := s.afresh
  let s0 : St := { s with aobj := fun x => if x = a then { id := newId, name := name } else s.aobj x, afresh := a + 1 }
  if (dget s.attIdx newId).isSome then (s0, some .valueError) else
  let s0 : St := { s0 with nextAtt := max (newId + 1) s.nextAtt }
  match preFixReach a s0 reached with
  | (s1, false) => (s1, some .attackGraphException)
  | (s1, true) =>
    match preFixEntry a s1 entry with
    | (s2, false) => (s2, some .attackGraphException)
    | (s2, true) => ({ s2 with attackers := s2.attackers ++ [a], attIdx := dset s2.attIdx newId a }, none)

/-- `AttackGraph.remove_attacker(attacker)` -/
def removeAttacker (s : St) (a : Nat) : St :=
  let s1 := (s.aobj a).reached.foldl (fun s n => undo s a n) s
  { s1 with attackers := s1.attackers.erase a, attIdx := ddel s1.attIdx (s1.aobj a).id }

/-- `attach_attackers()` for model attackers given as `(name, entry-point full names)` -/
def attach (s : St) (atts : List (String × List String)) : Except Err St :=
  atts.foldlM (fun s (nm, eps) => do
    let s1 ← addAttacker s nm none [] []
    let a := s.afresh
    let s2 := eps.foldl (fun s fn => match getNodeByName s fn with | some n => compromise s a n | none => s) s1
    pure (updA s2 a (fun o => { o with entry := o.reached }))) s

/-- `prune_unviable_and_unnecessary_nodes(graph)` -/
def prunable (o : NodeObj) : Bool := (o.type = .or || o.type = .and) && (!o.viable || !o.necessary)
def prune (s : St) : St :=
  s.nodes.foldl (fun s r => if prunable (s.nobj r) then removeNode s r else s) s

/-- the analysis only writes labels -/
def setLabels (s : St) (lab : List (Nat × Bool × Bool)) : St :=
  lab.foldl (fun s (r, v, n) => updN s r (fun o => { o with viable := v, necessary := n })) s

end MalVerif.AGS
