/-!
# Model of `maltoolbox/attackgraph/analyzers/apriori.py`

`propagate_viability_from_node`, `propagate_necessity_from_node` and the
outer loop `calculate_viability_and_necessity`, written once, generically
(viability and necessity are lattice duals):

* a node is of kind `anyK` (label = ∃ effective parent), `allK` (label =
  ∀ effective parents) or `constK` (label fixed by its own status);
* `gate p` = `_has_ttc_distribution(p)` = "p's TTC is a non-empty dict other
  than the Enabled / Disabled pseudo-distributions" (since 68ab4f5 this
  includes composite TTCs and numbers, which have no `name` key): such a
  parent always counts as necessary for its children, and the necessity
  propagation returns at once when started from it.

|            | `or`   | `and`  | defense / exist / notExist | gate      |
|------------|--------|--------|----------------------------|-----------|
| viability  | `anyK` | `allK` | `constK`                   | never     |
| necessity  | `allK` | `anyK` | `constK`                   | TTC dist. |

Nodes are positions in the stored node list.  Labellings are functions
`Nat → Bool`; Python's in-place attribute writes become `upd`.
The recursion of the Python functions is unbounded; here it takes fuel and
`Props/C08.lean` proves that `nodes + 1` is always enough.
-/
namespace MalVerif.Apriori

inductive Kind | anyK | allK | constK
  deriving DecidableEq, Repr, Inhabited

/-- the part of an attack graph that the analysis reads -/
structure G where
  kind : Nat → Kind
  parents : Nat → List Nat
  children : Nat → List Nat
  gate : Nat → Bool

/-- a labelling.  A structure (not a bare function type) so that the compiler does not eta-expand the
propagation functions into "label at one point" functions that would re-run the propagation at every lookup. -/
structure Lab where
  get : Nat → Bool

instance : CoeFun Lab (fun _ => Nat → Bool) := ⟨Lab.get⟩

@[ext] theorem Lab.ext {a b : Lab} (h : ∀ x, a x = b x) : a = b := by
  cases a; cases b; congr; funext x; exact h x

def upd (v : Lab) (x : Nat) (b : Bool) : Lab := ⟨fun y => if y = x then b else v y⟩

/-- how a parent counts for its children -/
def eff (g : G) (v : Lab) (p : Nat) : Bool := g.gate p || v p

/-- What the body of the `for child in node.children` loop assigns to the
child.  It is only ever executed when `node` itself is (effectively) false.
`anyK`: `tmp = False; for p in child.parents: tmp = tmp or eff(p)`.
`allK`: `False`. -/
def recompute (g : G) (v : Lab) (c : Nat) : Bool :=
  match g.kind c with
  | .anyK => (g.parents c).any (eff g v)
  | .allK => false
  | .constK => v c

mutual
/-- `propagate_*_from_node(node)` with `fuel` nested calls left -/
def prop (g : G) : Nat → Lab → Nat → Lab
  | 0, v, _ => v
  | f+1, v, node => if g.gate node then v else loop g f v (g.children node)
termination_by f _ _ => (f, 0)
/-- the `for child in node.children:` loop -/
def loop (g : G) : Nat → Lab → List Nat → Lab
  | _, v, [] => v
  | f, v, c :: cs =>
    let new := recompute g v c
    let v1 := upd v c new
    let v2 := if new != v c then prop g f v1 c else v1
    loop g f v2 cs
termination_by f _ cs => (f, cs.length + 1)
end

/-- the labelling of a freshly generated graph -/
def top : Lab := ⟨fun _ => true⟩

/-- the second loop of `calculate_viability_and_necessity` for one of the two
labels: visit the stored nodes in order; a status node gets its constant and,
if that is `false`, propagates.  (Until a3159ad this was the whole function.) -/
def calcLab (g : G) (const : Nat → Bool) (fuel : Nat) (order : List Nat) (v0 : Lab) : Lab :=
  order.foldl (fun v n =>
    if g.kind n = .constK then
      let v1 := upd v n (const n)
      if v1 n then v1 else prop g fuel v1 n
    else v) v0

/-- the first loop of `calculate_viability_and_necessity` (since a3159ad / 8a1d835):
`for node in graph.nodes: node.is_viable = True; node.is_necessary = True`. -/
def resetLab (order : List Nat) (v0 : Lab) : Lab :=
  order.foldl (fun v n => upd v n true) v0

/-- `calculate_viability_and_necessity` for one of the two labels, started on a graph that carries the labels
`v0`: reset loop, then evaluation / propagation loop. -/
def calcAll (g : G) (const : Nat → Bool) (fuel : Nat) (order : List Nat) (v0 : Lab) : Lab :=
  calcLab g const fuel order (resetLab order v0)

/-- the reset loop of the intermediate version a3159ad, which only reset the attack steps
(`if node.type in ['or', 'and']`): status nodes kept their old label until the second loop evaluated them.
Only used to document the defect repaired by 8a1d835 (`Props/C08.lean`:
`guarded_reset_variant_keeps_stale_status_label`). -/
def resetLabGuarded (g : G) (order : List Nat) (v0 : Lab) : Lab :=
  order.foldl (fun v n => if g.kind n = .constK then v else upd v n true) v0

def calcAllGuarded (g : G) (const : Nat → Bool) (fuel : Nat) (order : List Nat) (v0 : Lab) : Lab :=
  calcLab g const fuel order (resetLabGuarded g order v0)

/-- the equation system of the property -/
def F (g : G) (v : Lab) (x : Nat) : Bool :=
  match g.kind x with
  | .anyK => if g.parents x = [] then true else (g.parents x).any (eff g v)
  | .allK => (g.parents x).all (eff g v)
  | .constK => v x

def le (w v : Lab) : Prop := ∀ x, w x = true → v x = true

end MalVerif.Apriori
