import MalVerif.Model.Apriori
/-! Concrete attack-graph payload for the analysis (`C08`) and its
instantiation of the generic propagation. -/
namespace MalVerif.AGraph
open MalVerif.Apriori

inductive NType | or | and | defense | exist | notExist
  deriving DecidableEq, Repr, Inhabited

/-- what `apriori.py` reads of a node.  `defOne`/`defZero` are the two float
comparisons the code makes (`== 1.0`, `== 0.0`, computed by the harness on
the real float); `gate` = `ttc` has a `name` other than Enabled/Disabled. -/
structure ANode where
  type : NType
  children : List Nat
  parents : List Nat
  defOne : Bool := false
  defZero : Bool := true
  exist : Bool := false
  gate : Bool := false
  deriving Repr, Inhabited

abbrev AG := List ANode

def typeOf (g : AG) (i : Nat) : Option NType := (g[i]?).map (·.type)

def viabKind : Option NType → Kind
  | some .or => .anyK | some .and => .allK | _ => .constK
def necKind : Option NType → Kind
  | some .or => .allK | some .and => .anyK | _ => .constK

def viabG (g : AG) : G where
  kind i := viabKind (typeOf g i)
  parents i := ((g[i]?).map (·.parents)).getD []
  children i := ((g[i]?).map (·.children)).getD []
  gate _ := false

def necG (g : AG) : G where
  kind i := necKind (typeOf g i)
  parents i := ((g[i]?).map (·.parents)).getD []
  children i := ((g[i]?).map (·.children)).getD []
  gate i := ((g[i]?).map (·.gate)).getD false

/-- `evaluate_viability` on a status node -/
def viabConst (g : AG) (i : Nat) : Bool :=
  match g[i]? with
  | some n => (match n.type with
      | .defense => !n.defOne | .exist => n.exist | .notExist => !n.exist | _ => true)
  | none => true
/-- `evaluate_necessity` on a status node -/
def necConst (g : AG) (i : Nat) : Bool :=
  match g[i]? with
  | some n => (match n.type with
      | .defense => !n.defZero | .exist => !n.exist | .notExist => n.exist | _ => true)
  | none => true

/-- `calculate_viability_and_necessity(graph)` from a freshly generated graph
(all labels `True`), nodes visited in the stored order `order`. -/
def calcViab (g : AG) (order : List Nat) : Lab := calcLab (viabG g) (viabConst g) (g.length + 1) order top
def calcNec (g : AG) (order : List Nat) : Lab := calcLab (necG g) (necConst g) (g.length + 1) order top

end MalVerif.AGraph
