import MalVerif.Model.Apriori
/-! Concrete attack-graph payload for the analysis (`C08`) and its
instantiation of the generic propagation. -/
namespace MalVerif.AGraph
open MalVerif.Apriori

inductive NType | or | and | defense | exist | notExist
  deriving DecidableEq, Repr, Inhabited

/-- what `apriori.py` reads of a node.  `defOne`/`defZero` are the two float
comparisons the code makes (`== 1.0`, `== 0.0`, computed by the harness on
the real float).  Of the `ttc` dict the code reads its truthiness and the value under the key `name`
(which only a single distribution function has; a composite TTC `{'type': 'addition', 'lhs': .., 'rhs': ..}`
and a number `{'type': 'number', 'value': ..}` have none). -/
structure ANode where
  type : NType
  children : List Nat
  parents : List Nat
  defOne : Bool := false
  defZero : Bool := true
  exist : Bool := false
  /-- `bool(node.ttc)`: the TTC is a non-empty dict (neither `None` nor `{}`) -/
  ttcSet : Bool := false
  /-- `node.ttc['name']` if the dict has that key -/
  ttcName : Option String := none
  deriving Repr, Inhabited

/-- `node.ttc` is one of the two pseudo-distributions: `'name' in node.ttc and node.ttc['name'] in ['Enabled', 'Disabled']` -/
def ANode.pseudo (n : ANode) : Bool :=
  match n.ttcName with
  | some nm => nm == "Enabled" || nm == "Disabled"
  | none => false

/-- `_has_ttc_distribution(node)` (since 68ab4f5): any non-empty TTC other than Enabled / Disabled -/
def ANode.hasDist (n : ANode) : Bool := n.ttcSet && !n.pseudo

/-- the test before 68ab4f5: `bool(node.ttc) and 'name' in node.ttc and node.ttc['name'] not in [..]` — a TTC
without a `name` key (composite, number) did not count.  Only used to document the repaired defect
(`Props/C08.lean`: `pre_fix_distribution_test_misses_composite`). -/
def ANode.hasDistPreFix (n : ANode) : Bool :=
  n.ttcSet && (match n.ttcName with | some nm => !(nm == "Enabled" || nm == "Disabled") | none => false)

abbrev AG := List ANode

def typeOf (g : AG) (i : Nat) : Option NType := (g[i]?).map (·.type)

def viabKind : Option NType → Kind
  | some .or => .anyK | some .and => .allK | _ => .constK
def necKind : Option NType → Kind
  | some .or => .allK | some .and => .anyK | _ => .constK

def viabG (g : AG) : G where
  kind i := viabKind (typeOf g i)
  parents i := ((g[i]?).map (·.parents)).getD []
  children i := ((g[i]?).map (·.children)).getD []
  gate _ := false

def necG (g : AG) : G where
  kind i := necKind (typeOf g i)
  parents i := ((g[i]?).map (·.parents)).getD []
  children i := ((g[i]?).map (·.children)).getD []
  gate i := ((g[i]?).map (·.hasDist)).getD false

/-- `evaluate_viability` on a status node -/
def viabConst (g : AG) (i : Nat) : Bool :=
  match g[i]? with
  | some n => (match n.type with
      | .defense => !n.defOne | .exist => n.exist | .notExist => !n.exist | _ => true)
  | none => true
/-- `evaluate_necessity` on a status node -/
def necConst (g : AG) (i : Nat) : Bool :=
  match g[i]? with
  | some n => (match n.type with
      | .defense => !n.defZero | .exist => !n.exist | .notExist => n.exist | _ => true)
  | none => true

/-- `calculate_viability_and_necessity(graph)` on a graph whose nodes carry the labels `v0` (left by an earlier
run, loaded from a file, set by the caller, ...), nodes visited in the stored order `order`: the reset loop,
then the evaluation / propagation loop. -/
def calcViabFrom (g : AG) (order : List Nat) (v0 : Lab) : Lab :=
  calcAll (viabG g) (viabConst g) (g.length + 1) order v0
def calcNecFrom (g : AG) (order : List Nat) (v0 : Lab) : Lab :=
  calcAll (necG g) (necConst g) (g.length + 1) order v0

/-- the same from a freshly generated graph (all labels `True`) -/
def calcViab (g : AG) (order : List Nat) : Lab := calcViabFrom g order top
def calcNec (g : AG) (order : List Nat) : Lab := calcNecFrom g order top

/-- labels given as a list in storage order (absent positions: the default `True`) -/
def labOfList (l : List Bool) : Lab := ⟨fun i => (l[i]?).getD true⟩

end MalVerif.AGraph
