import MalVerif.Model.AGS
/-! Model of `maltoolbox/attackgraph/query.py` and the two defense predicates
of `node.py` (C12). -/
namespace MalVerif.AGS
open MalVerif.AGraph

/-- `is_node_traversable_by_attacker(node, attacker)` -/
def trav (s : St) (a n : Nat) : Bool :=
  let o := s.nobj n
  if !o.viable then false else
  match o.type with
  | .or => true
  | .and => o.parents.all (fun p => !((s.nobj p).necessary) || (s.nobj p).compBy.contains a)
  | _ => false

/-- the common loop of `get_attack_surface` / `update_attack_surface_add_nodes` -/
def extend (s : St) (a : Nat) (cur : List Nat) (steps : List Nat) : List Nat :=
  steps.foldl (fun acc r =>
    (s.nobj r).children.foldl (fun acc c => if trav s a c && !acc.contains c then acc ++ [c] else acc) acc) cur

/-- `get_attack_surface(attacker)` -/
def surface (s : St) (a : Nat) : List Nat := extend s a [] (s.aobj a).reached
/-- `update_attack_surface_add_nodes(attacker, current, nodes)` -/
def updateSurface (s : St) (a : Nat) (cur nodes : List Nat) : List Nat := extend s a cur nodes

/-- `AttackGraphNode.is_available_defense` / `is_enabled_defense` -/
def isAvailableDefense (o : NodeObj) : Bool := o.type = .defense && !o.suppress && !o.defOne
def isEnabledDefense (o : NodeObj) : Bool := o.type = .defense && !o.suppress && o.defOne
/-- `get_defense_surface(graph)`, `get_enabled_defenses(graph)` -/
def defenseSurface (s : St) : List Nat := s.nodes.filter (fun r => isAvailableDefense (s.nobj r))
def enabledDefenses (s : St) : List Nat := s.nodes.filter (fun r => isEnabledDefense (s.nobj r))

end MalVerif.AGS
