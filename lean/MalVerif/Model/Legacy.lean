import MalVerif.Model.Serial
import MalVerif.Model.LangGraph
/-!
# Legacy loaders — C18
* `maltoolbox/translators/updater.py` (`load_model_from_version_0_0_39`): the 0.0.39 file layout
  (`metaconcept` instead of `type`; associations as `{metaconcept, association: {field: ids}}`);
* `maltoolbox/translators/securicad.py` (`load_model_from_scad_archive`): a securiCAD `.sCAD` archive,
  here as the abstract document the XML of its `.eom` member contains (`objects` with nested evidence
  attributes, binary `associations` with source/target object and property).
The XML / zip layer (ElementTree, zipfile, the harness's rendering) is assumed, and exercised by the
correspondence.
-/
namespace MalVerif.Legacy
open MalVerif.MS MalVerif.Ser

/-! ### 0.0.39 -/
inductive OldAssetEntry
  | full (name : String) (metaconcept : String) (defenses : List (String × String))
  | shorthand (metaconcept : String)
  deriving Repr, DecidableEq, Inhabited

structure OldAssoc where
  metaconcept : String
  lf : String
  left : List Key
  rf : String
  right : List Key
  deriving Repr, DecidableEq, Inhabited

structure OldDoc where
  assets : List (Key × OldAssetEntry) := []
  associations : List OldAssoc := []
  attackers : List (Key × AttackerEntry) := []
  deriving Repr, Inhabited

/-- `_process_model`: the asset loop -/
def loadOldAsset (L : Lang) (defsOk : Key → Bool) (s : St) (e : Key × OldAssetEntry) : Except Err St :=
  match e.1.toInt? with
  | none => .error .valueError
  | some id =>
    match e.2 with
    | .full nm mc defs => addAsset L s mc (some nm) defs (defsOk e.1) "{}" (some id) true
    | .shorthand mc => addAsset L s mc (some (mc ++ ":" ++ e.1.text)) [] true "{}" (some id) true

/-- `_process_model`: the association loop -/
def loadOldAssoc (L : Lang) (s : St) (e : OldAssoc) : Except Err St :=
  match resolveIds s e.left, resolveIds s e.right with
  | some l, some r =>
    match (assocClasses L).find? (·.cls = e.metaconcept) with
    | none => .error .lookupError
    | some c => if c.lf = e.lf ∧ c.rf = e.rf then addAssociation L s e.metaconcept l r else .error .validation
  | _, _ => .error .validation

def loadOld (L : Lang) (defsOk : Key → Bool) (d : OldDoc) : Except Err St := do
  let s1 ← d.assets.foldlM (loadOldAsset L defsOk) ({} : St)
  let s2 ← d.associations.foldlM (loadOldAssoc L) s1
  d.attackers.foldlM loadAttacker s2

/-- the inverse translation: a native document in the old layout (extras cannot be expressed) -/
def emitOld (d : ModelDoc) : OldDoc where
  assets := d.assets.map (fun e => (e.1, match e.2 with
    | .full n t ds _ => .full n t ds
    | .shorthand t => .shorthand t))
  associations := d.associations.map (fun a => { metaconcept := a.cls, lf := a.lf, left := a.left, rf := a.rf, right := a.right })
  attackers := d.attackers

/-! ### securiCAD -/
structure ScadObject where
  id : Int
  name : String
  metaConcept : String
  defenses : List (String × String) := []     -- (capitalised defense name, value) from evidenceAttributes
  deriving Repr, DecidableEq, Inhabited

structure ScadAssoc where
  sourceObject : Int
  targetObject : Int
  sourceProperty : String
  targetProperty : String
  deriving Repr, DecidableEq, Inhabited

structure ScadDoc where
  objects : List ScadObject := []
  associations : List ScadAssoc := []
  deriving Repr, Inhabited

/-- `name[0].lower() + name[1:]` -/
def decap (s : String) : String :=
  match s.toList with
  | [] => s
  | c :: cs => String.ofList (c.toLower :: cs)
/-- `name[0].upper() + name[1:]` (used by the inverse translation) -/
def cap (s : String) : String :=
  match s.toList with
  | [] => s
  | c :: cs => String.ofList (c.toUpper :: cs)

/-- text before the first `.` (`target_prop.split('.')[0]`) -/
def beforeDot (s : String) : String := String.ofList (s.toList.takeWhile (· ≠ '.'))

def loadScadObject (L : Lang) (defsOk : Int → Bool) (s : St) (o : ScadObject) : Except Err St :=
  if o.metaConcept = "Attacker" then .ok (addAttacker s none (some o.id))
  else addAsset L s o.metaConcept (some o.name) (o.defenses.map (fun d => (decap d.1, d.2))) (defsOk o.id) "{}" (some o.id) true

def loadScadAssoc (L : Lang) (nodes : List AssocDecl) (s : St) (a : ScadAssoc) : Except Err St :=
  -- the format lists fields and objects crosswise: the source object carries the target property
  let leftId := a.targetObject
  let rightId := a.sourceObject
  let att : Option (Int × Int × String) :=
    if a.sourceProperty = "firstSteps" then some (rightId, leftId, a.targetProperty)
    else if a.targetProperty = "firstSteps" then some (leftId, rightId, a.sourceProperty)
    else none
  match att with
  | some (attId, tgtId, prop) =>
    match getAttackerById s attId, getAssetById s tgtId with
    | some t, some x => .ok (addEntryPoint s t x (beforeDot prop))
    | _, _ => .error .lookupError
  | none =>
    match getAssetById s leftId, getAssetById s rightId with
    | some la, some ra =>
      let lf := a.sourceProperty
      let rf := a.targetProperty
      match LG.lookupAssoc L nodes lf rf (s.aobj la).type (s.aobj ra).type with
      | .ok (some d) =>
        -- the class generated for that declaration
        let dup := (L.assocs.filter (·.name = d.name)).length > 1
        let cls := if dup then d.name ++ "_" ++ d.leftAsset ++ "_" ++ d.rightAsset else d.name
        if d.leftField = lf then addAssociation L s cls [la] [ra] else addAssociation L s cls [ra] [la]
      | _ => .error .lookupError
    | _, _ => .error .lookupError

def loadScad (L : Lang) (nodes : List AssocDecl) (defsOk : Int → Bool) (d : ScadDoc) : Except Err St := do
  let s1 ← d.objects.foldlM (loadScadObject L defsOk) ({} : St)
  d.associations.foldlM (loadScadAssoc L nodes) s1

/-- the inverse translation of a model state: assets and attackers as objects, every link pairwise,
every entry point as a `firstSteps` association -/
def emitScad (L : Lang) (s : St) : ScadDoc where
  objects :=
    s.assets.map (fun a => let o := s.aobj a
      { id := o.id, name := o.name, metaConcept := o.type, defenses := (nonDefault L o).map (fun d => (cap d.1, d.2)) }) ++
    s.attackers.map (fun t => { id := (s.tobj t).id, name := (s.tobj t).name, metaConcept := "Attacker" })
  associations :=
    s.associations.flatMap (fun l => let o := s.lobj l
      o.left.flatMap (fun x => o.right.map (fun y =>
        { sourceObject := (s.aobj y).id, targetObject := (s.aobj x).id, sourceProperty := o.lf, targetProperty := o.rf }))) ++
    s.attackers.flatMap (fun t => (s.tobj t).entry.flatMap (fun ep => ep.2.map (fun st =>
        { sourceObject := (s.tobj t).id, targetObject := (s.aobj ep.1).id, sourceProperty := "firstSteps",
          targetProperty := st ++ ".attacker" })))

end MalVerif.Legacy
