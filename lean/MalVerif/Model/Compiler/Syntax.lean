import MalVerif.Model.Lang
import MalVerif.Model.Compiler.Token
/-!
# The language specification the compiler produces (`malVisitor`)
The shape of the `langspec` dictionary; numbers are kept as their lexemes
(the visitor applies `float(...)`, the harness compares after `float`).
-/
namespace MalVerif.Mal
open MalVerif (Expr)

inductive TTC
  | func (name : String) (args : List String)       -- {'type': 'function', 'name', 'arguments': [float…]}
  | num (v : String)                                -- {'type': 'number', 'value': float}
  | bin (op : String) (l r : TTC)                   -- addition | subtraction | multiplication | division | exponentiation
  deriving Repr, DecidableEq, Inhabited

abbrev Meta := List (String × String)              -- dict: later duplicates win, first position kept

structure CStep where
  name : String
  metaD : Meta := []
  type : String
  tags : List String := []
  risk : Option (Bool × Bool × Bool) := none         -- (C, I, A)
  ttc : Option TTC := none
  requires : Option (List Expr) := none               -- overrides is always True
  reaches : Option (Bool × List Expr) := none         -- (overrides, expressions)
  deriving Repr, DecidableEq, Inhabited

structure CAsset where
  name : String
  metaD : Meta := []
  category : String
  isAbstract : Bool
  superAsset : Option String
  variables : List (String × Expr) := []
  steps : List CStep := []
  deriving Repr, DecidableEq, Inhabited

/-- a multiplicity bound after `_post_process_multitudes`: a number, or "no limit" (`None`) -/
structure CAssoc where
  name : String
  metaD : Meta := []
  leftAsset : String
  leftField : String
  leftMin : Nat
  leftMax : Option Nat
  rightAsset : String
  rightField : String
  rightMin : Nat
  rightMax : Option Nat
  deriving Repr, DecidableEq, Inhabited

structure CSpec where
  defines : List (String × String) := []
  categories : List (String × Meta) := []
  assets : List CAsset := []
  associations : List CAssoc := []
  deriving Repr, DecidableEq, Inhabited

/-- Python `d[k] = v` on an insertion-ordered dict -/
def metaPut (d : Meta) (k v : String) : Meta :=
  if d.any (·.1 = k) then d.map (fun e => if e.1 = k then (k, v) else e) else d ++ [(k, v)]

/-- `s.strip('"')` -/
def stripQuotes (raw : String) : String :=
  String.ofList ((raw.toList.dropWhile (· = '"')).reverse.dropWhile (· = '"')).reverse

/-- first-occurrence de-duplication (`if item not in unique: unique.append(item)`) -/
def dedup {α} [DecidableEq α] (l : List α) : List α :=
  l.foldl (fun acc x => if acc.contains x then acc else acc ++ [x]) []

end MalVerif.Mal
