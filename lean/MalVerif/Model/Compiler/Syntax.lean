import MalVerif.Model.Lang
import MalVerif.Model.Compiler.Token
/-!
# The language specification the compiler produces (`malVisitor`)
The shape of the `langspec` dictionary; numbers are kept as their lexemes
(the visitor applies `float(...)`, the harness compares after `float`).
-/
namespace MalVerif.Mal
open MalVerif (Expr)

inductive TTC
  | func (name : String) (args : List String)       -- {'type': 'function', 'name', 'arguments': [float…]}
  | num (v : String)                                -- {'type': 'number', 'value': float}
  | bin (op : String) (l r : TTC)                   -- addition | subtraction | multiplication | division | exponentiation
  deriving Repr, DecidableEq, Inhabited

abbrev Meta := List (String × String)              -- dict: later duplicates win, first position kept

structure CStep where
  name : String
  metaD : Meta := []
  type : String
  tags : List String := []
  risk : Option (Bool × Bool × Bool) := none         -- (C, I, A)
  ttc : Option TTC := none
  requires : Option (List Expr) := none               -- overrides is always True
  reaches : Option (Bool × List Expr) := none         -- (overrides, expressions)
  deriving Repr, DecidableEq, Inhabited

structure CAsset where
  name : String
  metaD : Meta := []
  category : String
  isAbstract : Bool
  superAsset : Option String
  variables : List (String × Expr) := []
  steps : List CStep := []
  deriving Repr, DecidableEq, Inhabited

/-- a multiplicity bound after `_post_process_multitudes`: a number, or "no limit" (`None`) -/
structure CAssoc where
  name : String
  metaD : Meta := []
  leftAsset : String
  leftField : String
  leftMin : Nat
  leftMax : Option Nat
  rightAsset : String
  rightField : String
  rightMin : Nat
  rightMax : Option Nat
  deriving Repr, DecidableEq, Inhabited

structure CSpec where
  defines : List (String × String) := []
  categories : List (String × Meta) := []
  assets : List CAsset := []
  associations : List CAssoc := []
  deriving Repr, DecidableEq, Inhabited

/-- Python `d[k] = v` on an insertion-ordered dict -/
def metaPut (d : Meta) (k v : String) : Meta :=
  if d.any (·.1 = k) then d.map (fun e => if e.1 = k then (k, v) else e) else d ++ [(k, v)]

/-- `s.strip('"')` -/
def stripQuotes (raw : String) : String :=
  String.ofList ((raw.toList.dropWhile (· = '"')).reverse.dropWhile (· = '"')).reverse

/-- first-occurrence de-duplication with structural equality.  NOT what `visitMal` does (it compares with Python's
`==`, see `dedupBy` / `assetEqv` below); kept as the special case `dedupBy (· == ·)` (`dedup_eq_dedupBy`). -/
def dedup {α} [DecidableEq α] (l : List α) : List α :=
  l.foldl (fun acc x => if acc.contains x then acc else acc ++ [x]) []

/-! ### Python's `==` on the values `visitMal` de-duplicates

`visitMal` ends with `if item not in unique: unique.append(item)` over the categories, assets and associations.
`in` compares with `==`, and `==` on dictionaries ignores the ORDER of the keys.  The only dictionaries whose key
order depends on the source text are the `meta` dictionaries (`user info: … developer info: …` in any order), so two
declarations that differ only in the order of their meta entries are *one* declaration for the compiler.  Numbers are
`float`s: `1`, `1.0` and `1.00` are equal.  The relations below say exactly that; everything else is compared
structurally. -/

/-- the canonical text of a decimal literal (`digits`, `digits.digits`, `.digits`): no leading zeros in front of the
point, no trailing zeros behind it, always a point.  Two literals have the same canonical text iff they denote the
same rational number; Python compares the `float`s, which coincides except beyond the precision of a double. -/
def canonNum (s : String) : String :=
  let cs := s.toList
  let ip := (cs.takeWhile (· != '.')).dropWhile (· == '0')
  let fp := (((cs.dropWhile (· != '.')).drop 1).reverse.dropWhile (· == '0')).reverse
  String.ofList (ip ++ '.' :: fp)

/-- `float(a) == float(b)` -/
def numEq (a b : String) : Bool := canonNum a == canonNum b

/-- `==` on two `meta` dictionaries: the same number of entries and every entry of the left one is an entry of the
right one — key order is irrelevant -/
def metaEqv (a b : Meta) : Bool := a.length == b.length && a.all (fun e => b.lookup e.1 == some e.2)

/-- element-wise comparison of two lists (`==` on Python lists) -/
def listEqv {α} (r : α → α → Bool) : List α → List α → Bool
  | [], [] => true
  | a :: as, b :: bs => r a b && listEqv r as bs
  | _, _ => false

def optEqv {α} (r : α → α → Bool) : Option α → Option α → Bool
  | none, none => true
  | some a, some b => r a b
  | _, _ => false

def ttcEqv : TTC → TTC → Bool
  | .func n a, .func m b => n == m && listEqv numEq a b
  | .num a, .num b => numEq a b
  | .bin o l r, .bin p l' r' => o == p && ttcEqv l l' && ttcEqv r r'
  | _, _ => false

def stepEqv (a b : CStep) : Bool :=
  a.name == b.name && metaEqv a.metaD b.metaD && a.type == b.type && a.tags == b.tags && a.risk == b.risk &&
  optEqv ttcEqv a.ttc b.ttc && a.requires == b.requires && a.reaches == b.reaches

def assetEqv (a b : CAsset) : Bool :=
  a.name == b.name && metaEqv a.metaD b.metaD && a.category == b.category && a.isAbstract == b.isAbstract &&
  a.superAsset == b.superAsset && a.variables == b.variables && listEqv stepEqv a.steps b.steps

def assocEqv (a b : CAssoc) : Bool :=
  a.name == b.name && metaEqv a.metaD b.metaD && a.leftAsset == b.leftAsset && a.leftField == b.leftField &&
  a.leftMin == b.leftMin && a.leftMax == b.leftMax && a.rightAsset == b.rightAsset && a.rightField == b.rightField &&
  a.rightMin == b.rightMin && a.rightMax == b.rightMax

def catEqv (a b : String × Meta) : Bool := a.1 == b.1 && metaEqv a.2 b.2

/-- first-occurrence de-duplication as `visitMal` does it: `if item not in unique: unique.append(item)`, where
`item in unique` is `any(item == u for u in unique)` with the equality `r` -/
def dedupBy {α} (r : α → α → Bool) (l : List α) : List α :=
  l.foldl (fun acc x => if acc.any (r x) then acc else acc ++ [x]) []

end MalVerif.Mal
