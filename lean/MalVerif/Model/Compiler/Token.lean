/-!
# MAL tokens and lexer (`mal.g4` token rules; generated `mal_lexer.py`)

ANTLR lexing: at every position the rule matching the *longest* text wins;
among rules matching the same text the one listed first in the grammar.
`ONE: '1'` can never be produced (`INT` is listed first).
-/
namespace MalVerif.Mal

inductive Tok
  | kwAbstract | kwAsset | kwAssociations | kwExtends | kwInclude | kwCategory | kwInfo | kwLet
  | str (raw : String)          -- the lexeme including its quotes
  | int (s : String)
  | float (s : String)
  | exists_ | c | i | a         -- the one-letter tokens `E`, `C`, `I`, `A`
  | id (s : String)
  | lparen | rparen | lcurly | rcurly | hash | colon | larrow | rarrow | lsquare | rsquare | star
  | assign | minus | intersect | union | range | dot | and_ | or_ | notExists | at | requires | inherits
  | leadsto | comma | plus | divide | power
  deriving DecidableEq, Repr, Inhabited

def isIdChar (ch : Char) : Bool := ch.isAlphanum || ch = '_'
def isDigit (ch : Char) : Bool := ch.isDigit

def wordTok (w : String) : Tok :=
  match w with
  | "abstract" => .kwAbstract | "asset" => .kwAsset | "associations" => .kwAssociations
  | "extends" => .kwExtends | "include" => .kwInclude | "category" => .kwCategory
  | "info" => .kwInfo | "let" => .kwLet
  | "E" => .exists_ | "C" => .c | "I" => .i | "A" => .a
  | _ => if w.toList.all isDigit then .int w else .id w

/-- split off the longest prefix of characters satisfying `p` -/
def spanChars (p : Char → Bool) : List Char → List Char × List Char
  | [] => ([], [])
  | ch :: cs => if p ch then let r := spanChars p cs; (ch :: r.1, r.2) else ([], ch :: cs)

/-- skip to the end of a `/* … */` comment; `none` if unterminated -/
def skipBlock : List Char → Option (List Char)
  | [] => none
  | '*' :: '/' :: cs => some cs
  | _ :: cs => skipBlock cs

/-- the body of a string literal up to and including the closing quote -/
def spanString : List Char → Option (List Char × List Char)
  | [] => none
  | '"' :: cs => some (['"'], cs)
  | ch :: cs => (spanString cs).map (fun r => (ch :: r.1, r.2))

def lexAux : Nat → List Char → Option (List Tok)
  | 0, _ => none
  | _, [] => some []
  | f+1, ch :: cs =>
    if ch = ' ' || ch = '\t' || ch = '\r' || ch = '\n' then lexAux f cs else
    if ch = '"' then
      match spanString cs with
      | none => none
      | some (body, rest) => (lexAux f rest).map (Tok.str (String.ofList ('"' :: body)) :: ·)
    else if isIdChar ch then
      -- a word; a run of digits may continue as FLOAT `digits . digits`
      let (w, rest) := spanChars isIdChar (ch :: cs)
      if w.all isDigit then
        match rest with
        | '.' :: d :: rest' =>
          if isDigit d then
            let (frac, rest'') := spanChars isDigit (d :: rest')
            (lexAux f rest'').map (Tok.float (String.ofList (w ++ '.' :: frac)) :: ·)
          else (lexAux f rest).map (Tok.int (String.ofList w) :: ·)
        | _ => (lexAux f rest).map (Tok.int (String.ofList w) :: ·)
      else (lexAux f rest).map (wordTok (String.ofList w) :: ·)
    else
      let one (t : Tok) := (lexAux f cs).map (t :: ·)
      match ch, cs with
      | '.', d :: rest =>
        if isDigit d then
          let (frac, rest') := spanChars isDigit (d :: rest)
          (lexAux f rest').map (Tok.float (String.ofList ('.' :: frac)) :: ·)
        else if d = '.' then (lexAux f rest).map (Tok.range :: ·)
        else one .dot
      | '.', [] => one .dot
      | '<', '-' :: '-' :: rest => (lexAux f rest).map (Tok.larrow :: ·)
      | '<', '-' :: rest => (lexAux f rest).map (Tok.requires :: ·)
      | '-', '-' :: '>' :: rest => (lexAux f rest).map (Tok.rarrow :: ·)
      | '-', '>' :: rest => (lexAux f rest).map (Tok.leadsto :: ·)
      | '-', _ => one .minus
      | '+', '>' :: rest => (lexAux f rest).map (Tok.inherits :: ·)
      | '+', _ => one .plus
      | '/', '/' :: rest => lexAux f (spanChars (fun x => x ≠ '\n' && x ≠ '\r') rest).2
      | '/', '*' :: rest => (match skipBlock rest with | some r => lexAux f r | none => one .divide)
      | '/', '\\' :: rest => (lexAux f rest).map (Tok.intersect :: ·)
      | '/', _ => one .divide
      | '\\', '/' :: rest => (lexAux f rest).map (Tok.union :: ·)
      | '!', 'E' :: rest => (lexAux f rest).map (Tok.notExists :: ·)
      | '(', _ => one .lparen | ')', _ => one .rparen | '{', _ => one .lcurly | '}', _ => one .rcurly
      | '#', _ => one .hash | ':', _ => one .colon | '[', _ => one .lsquare | ']', _ => one .rsquare
      | '*', _ => one .star | '=', _ => one .assign | '&', _ => one .and_ | '|', _ => one .or_
      | '@', _ => one .at | ',', _ => one .comma | '^', _ => one .power
      | _, _ => none

/-! ### the tokens in front of the first lexing error

ANTLR's token stream asks the lexer for tokens on demand (`BufferedTokenStream`): a character sequence that does
not lex is only *reported* when the parser fetches a token at or beyond it.  `lexPrefixAux` is `lexAux` returning
the tokens produced so far where `lexAux` fails. -/
def lexPrefixAux : Nat → List Char → List Tok
  | 0, _ => []
  | _, [] => []
  | f+1, ch :: cs =>
    if ch = ' ' || ch = '\t' || ch = '\r' || ch = '\n' then lexPrefixAux f cs else
    if ch = '"' then
      match spanString cs with
      | none => []
      | some (body, rest) => Tok.str (String.ofList ('"' :: body)) :: lexPrefixAux f rest
    else if isIdChar ch then
      -- a word; a run of digits may continue as FLOAT `digits . digits`
      let (w, rest) := spanChars isIdChar (ch :: cs)
      if w.all isDigit then
        match rest with
        | '.' :: d :: rest' =>
          if isDigit d then
            let (frac, rest'') := spanChars isDigit (d :: rest')
            Tok.float (String.ofList (w ++ '.' :: frac)) :: lexPrefixAux f rest''
          else Tok.int (String.ofList w) :: lexPrefixAux f rest
        | _ => Tok.int (String.ofList w) :: lexPrefixAux f rest
      else wordTok (String.ofList w) :: lexPrefixAux f rest
    else
      let one (t : Tok) := t :: lexPrefixAux f cs
      match ch, cs with
      | '.', d :: rest =>
        if isDigit d then
          let (frac, rest') := spanChars isDigit (d :: rest)
          Tok.float (String.ofList ('.' :: frac)) :: lexPrefixAux f rest'
        else if d = '.' then Tok.range :: lexPrefixAux f rest
        else one .dot
      | '.', [] => one .dot
      | '<', '-' :: '-' :: rest => Tok.larrow :: lexPrefixAux f rest
      | '<', '-' :: rest => Tok.requires :: lexPrefixAux f rest
      | '-', '-' :: '>' :: rest => Tok.rarrow :: lexPrefixAux f rest
      | '-', '>' :: rest => Tok.leadsto :: lexPrefixAux f rest
      | '-', _ => one .minus
      | '+', '>' :: rest => Tok.inherits :: lexPrefixAux f rest
      | '+', _ => one .plus
      | '/', '/' :: rest => lexPrefixAux f (spanChars (fun x => x ≠ '\n' && x ≠ '\r') rest).2
      | '/', '*' :: rest => (match skipBlock rest with | some r => lexPrefixAux f r | none => one .divide)
      | '/', '\\' :: rest => Tok.intersect :: lexPrefixAux f rest
      | '/', _ => one .divide
      | '\\', '/' :: rest => Tok.union :: lexPrefixAux f rest
      | '!', 'E' :: rest => Tok.notExists :: lexPrefixAux f rest
      | '(', _ => one .lparen | ')', _ => one .rparen | '{', _ => one .lcurly | '}', _ => one .rcurly
      | '#', _ => one .hash | ':', _ => one .colon | '[', _ => one .lsquare | ']', _ => one .rsquare
      | '*', _ => one .star | '=', _ => one .assign | '&', _ => one .and_ | '|', _ => one .or_
      | '@', _ => one .at | ',', _ => one .comma | '^', _ => one .power
      | _, _ => []


def lexPrefix (src : String) : List Tok := lexPrefixAux (src.length + 1) src.toList

def lex (src : String) : Option (List Tok) := lexAux (src.length + 1) src.toList

end MalVerif.Mal
