import MalVerif.Model.Compiler.Printer
import MalVerif.Py.PreludeVisitor
/-!
# Parse-tree builder for `mal.g4`

The same recursive descent as `Model/Compiler/Parser.lean` (same functions, same fuel discipline, same decisions),
but instead of the visitor's values it returns the **parse tree ANTLR builds**: `PT.rule name children` per rule
invocation (rule names and child order as in `mal.g4`), `PT.tok type text index` per consumed token (`type` the
symbolic token name, `index` the position in the token stream).  The translated visitor
(`Py/GenVisitor/Visitor.lean`) runs on these trees.

Hand-written, hence checked against the real ANTLR parser by the correspondence (`harness/props/c04.py`, driver op
`tree`): same tree for every generated specification and coreLang.
-/
namespace MalVerif.Mal
open MalVerif.Py.Visitor (PT)

/-- the symbolic name of a token's type (`malParser.symbolicNames`) -/
def tokType : Tok → String
  | .str _ => "STRING" | .int _ => "INT" | .float _ => "FLOAT" | .id _ => "ID"
  | .kwAbstract => "ABSTRACT" | .kwAsset => "ASSET" | .kwAssociations => "ASSOCIATIONS" | .kwExtends => "EXTENDS"
  | .kwInclude => "INCLUDE" | .kwCategory => "CATEGORY" | .kwInfo => "INFO" | .kwLet => "LET"
  | .exists_ => "EXISTS" | .c => "C" | .i => "I" | .a => "A"
  | .lparen => "LPAREN" | .rparen => "RPAREN" | .lcurly => "LCURLY" | .rcurly => "RCURLY" | .hash => "HASH"
  | .colon => "COLON" | .larrow => "LARROW" | .rarrow => "RARROW" | .lsquare => "LSQUARE" | .rsquare => "RSQUARE"
  | .star => "STAR" | .assign => "ASSIGN" | .minus => "MINUS" | .intersect => "INTERSECT" | .union => "UNION"
  | .range => "RANGE" | .dot => "DOT" | .and_ => "AND" | .or_ => "OR" | .notExists => "NOTEXISTS" | .at => "AT"
  | .requires => "REQUIRES" | .inherits => "INHERITS" | .leadsto => "LEADSTO" | .comma => "COMMA" | .plus => "PLUS"
  | .divide => "DIVIDE" | .power => "POWER"

/-- a token with its position in the token stream -/
abbrev ITok := Tok × Nat

/-- the terminal node of a token -/
def leaf (t : ITok) : PT := .tok (tokType t.1) (tokText t.1) t.2

abbrev TP (α : Type) := Option (α × List ITok)

/-- `type*`: `LSQUARE ID RSQUARE` -/
def treeTypes : Nat → List ITok → List PT × List ITok
  | 0, ts => ([], ts)
  | f+1, ts =>
    match ts with
    | (.lsquare, i) :: (.id t, j) :: (.rsquare, k) :: rest =>
      let r := treeTypes f rest
      (.rule "type" [leaf (.lsquare, i), leaf (.id t, j), leaf (.rsquare, k)] :: r.1, r.2)
    | _ => ([], ts)

/-- `STAR? type*` -/
def treeSuffix (f : Nat) (ts : List ITok) : List PT × List ITok :=
  match ts with
  | (.star, i) :: rest => let r := treeTypes f rest; (leaf (.star, i) :: r.1, r.2)
  | _ => treeTypes f ts

mutual
/-- `part: (LPAREN expr RPAREN | varsubst LPAREN RPAREN | ID) STAR? type*` -/
def treePart : Nat → List ITok → TP PT
  | 0, _ => none
  | f+1, ts =>
    match ts with
    | (.lparen, i) :: rest =>
      match treeExpr f rest with
      | some (e, (.rparen, j) :: rest') =>
        let s := treeSuffix f rest'
        some (.rule "part" (leaf (.lparen, i) :: e :: leaf (.rparen, j) :: s.1), s.2)
      | _ => none
    | (.id n, i) :: (.lparen, j) :: (.rparen, k) :: rest =>
      let s := treeSuffix f rest
      some (.rule "part" (.rule "varsubst" [leaf (.id n, i)] :: leaf (.lparen, j) :: leaf (.rparen, k) :: s.1), s.2)
    | (.id n, i) :: rest =>
      let s := treeSuffix f rest
      some (.rule "part" (leaf (.id n, i) :: s.1), s.2)
    | _ => none
/-- `(DOT part)*`: the children that follow the first part -/
def treePartsLoop : Nat → List ITok → TP (List PT)
  | 0, _ => none
  | f+1, ts =>
    match ts with
    | (.dot, i) :: rest =>
      match treePart f rest with
      | some (p, rest') =>
        match treePartsLoop f rest' with
        | some (cs, rest'') => some (leaf (.dot, i) :: p :: cs, rest'')
        | none => none
      | none => none
    | _ => some ([], ts)
/-- `parts: part (DOT part)*` -/
def treeParts : Nat → List ITok → TP PT
  | 0, _ => none
  | f+1, ts =>
    match treePart f ts with
    | some (p, rest) =>
      match treePartsLoop f rest with
      | some (cs, rest') => some (.rule "parts" (p :: cs), rest')
      | none => none
    | none => none
/-- `(setop parts)*` -/
def treeExprLoop : Nat → List ITok → TP (List PT)
  | 0, _ => none
  | f+1, ts =>
    match ts with
    | (.union, i) :: rest =>
      match treeParts f rest with
      | some (p, rest') =>
        match treeExprLoop f rest' with
        | some (cs, rest'') => some (.rule "setop" [leaf (.union, i)] :: p :: cs, rest'')
        | none => none
      | none => none
    | (.intersect, i) :: rest =>
      match treeParts f rest with
      | some (p, rest') =>
        match treeExprLoop f rest' with
        | some (cs, rest'') => some (.rule "setop" [leaf (.intersect, i)] :: p :: cs, rest'')
        | none => none
      | none => none
    | (.minus, i) :: rest =>
      match treeParts f rest with
      | some (p, rest') =>
        match treeExprLoop f rest' with
        | some (cs, rest'') => some (.rule "setop" [leaf (.minus, i)] :: p :: cs, rest'')
        | none => none
      | none => none
    | _ => some ([], ts)
/-- `expr: parts (setop parts)*` -/
def treeExpr : Nat → List ITok → TP PT
  | 0, _ => none
  | f+1, ts =>
    match treeParts f ts with
    | some (p, rest) =>
      match treeExprLoop f rest with
      | some (cs, rest') => some (.rule "expr" (p :: cs), rest')
      | none => none
    | none => none
end

/-- `expr (COMMA expr)*`: the children -/
def treeExprList : Nat → List ITok → TP (List PT)
  | 0, _ => none
  | f+1, ts =>
    match treeExpr f ts with
    | some (e, (.comma, i) :: rest) => (treeExprList f rest).map (fun r => (e :: leaf (.comma, i) :: r.1, r.2))
    | some (e, rest) => some ([e], rest)
    | none => none

/-! ### TTC expressions -/

def isNumTok : Tok → Bool
  | .int _ => true
  | .float _ => true
  | _ => false

/-- `number: INT | FLOAT` -/
def numberNode (t : ITok) : PT := .rule "number" [leaf t]

/-- `(number (COMMA number)*)? RPAREN`: the children up to and including the closing parenthesis -/
def treeArgs : Nat → List ITok → TP (List PT)
  | 0, _ => none
  | f+1, ts =>
    match ts with
    | t :: (.comma, i) :: rest =>
      if isNumTok t.1 then (treeArgs f rest).map (fun r => (numberNode t :: leaf (.comma, i) :: r.1, r.2)) else none
    | t :: (.rparen, i) :: rest => if isNumTok t.1 then some ([numberNode t, leaf (.rparen, i)], rest) else none
    | _ => none

mutual
/-- `ttcatom: ttcdist | LPAREN ttcexpr RPAREN | number`; `ttcdist: ID (LPAREN (number (COMMA number)*)? RPAREN)?` -/
def treeTtcAtom : Nat → List ITok → TP PT
  | 0, _ => none
  | f+1, ts =>
    match ts with
    | (.id n, i) :: (.lparen, j) :: (.rparen, k) :: rest =>
      some (.rule "ttcatom" [.rule "ttcdist" [leaf (.id n, i), leaf (.lparen, j), leaf (.rparen, k)]], rest)
    | (.id n, i) :: (.lparen, j) :: rest =>
      (treeArgs f rest).map (fun r => (.rule "ttcatom" [.rule "ttcdist" (leaf (.id n, i) :: leaf (.lparen, j) :: r.1)], r.2))
    | (.id n, i) :: rest => some (.rule "ttcatom" [.rule "ttcdist" [leaf (.id n, i)]], rest)
    | (.lparen, i) :: rest =>
      match treeTtcExpr f rest with
      | some (e, (.rparen, j) :: rest') => some (.rule "ttcatom" [leaf (.lparen, i), e, leaf (.rparen, j)], rest')
      | _ => none
    | (.int s, i) :: rest => some (.rule "ttcatom" [numberNode (.int s, i)], rest)
    | (.float s, i) :: rest => some (.rule "ttcatom" [numberNode (.float s, i)], rest)
    | _ => none
/-- `ttcfact: ttcatom (POWER ttcatom)?` -/
def treeTtcFact : Nat → List ITok → TP PT
  | 0, _ => none
  | f+1, ts =>
    match treeTtcAtom f ts with
    | some (a, (.power, i) :: rest) =>
      (treeTtcAtom f rest).map (fun r => (.rule "ttcfact" [a, leaf (.power, i), r.1], r.2))
    | some (a, rest) => some (.rule "ttcfact" [a], rest)
    | none => none
def treeTtcTermLoop : Nat → List ITok → TP (List PT)
  | 0, _ => none
  | f+1, ts =>
    match ts with
    | (.star, i) :: rest =>
      match treeTtcFact f rest with
      | some (e, rest') =>
        match treeTtcTermLoop f rest' with
        | some (cs, rest'') => some (leaf (.star, i) :: e :: cs, rest'')
        | none => none
      | none => none
    | (.divide, i) :: rest =>
      match treeTtcFact f rest with
      | some (e, rest') =>
        match treeTtcTermLoop f rest' with
        | some (cs, rest'') => some (leaf (.divide, i) :: e :: cs, rest'')
        | none => none
      | none => none
    | _ => some ([], ts)
/-- `ttcterm: ttcfact ((STAR | DIVIDE) ttcfact)*` -/
def treeTtcTerm : Nat → List ITok → TP PT
  | 0, _ => none
  | f+1, ts =>
    match treeTtcFact f ts with
    | some (e, rest) =>
      match treeTtcTermLoop f rest with
      | some (cs, rest') => some (.rule "ttcterm" (e :: cs), rest')
      | none => none
    | none => none
def treeTtcExprLoop : Nat → List ITok → TP (List PT)
  | 0, _ => none
  | f+1, ts =>
    match ts with
    | (.plus, i) :: rest =>
      match treeTtcTerm f rest with
      | some (e, rest') =>
        match treeTtcExprLoop f rest' with
        | some (cs, rest'') => some (leaf (.plus, i) :: e :: cs, rest'')
        | none => none
      | none => none
    | (.minus, i) :: rest =>
      match treeTtcTerm f rest with
      | some (e, rest') =>
        match treeTtcExprLoop f rest' with
        | some (cs, rest'') => some (leaf (.minus, i) :: e :: cs, rest'')
        | none => none
      | none => none
    | _ => some ([], ts)
/-- `ttcexpr: ttcterm ((PLUS | MINUS) ttcterm)*` -/
def treeTtcExpr : Nat → List ITok → TP PT
  | 0, _ => none
  | f+1, ts =>
    match treeTtcTerm f ts with
    | some (e, rest) =>
      match treeTtcExprLoop f rest with
      | some (cs, rest') => some (.rule "ttcexpr" (e :: cs), rest')
      | none => none
    | none => none
end

/-! ### steps, assets, categories, associations -/

/-- `meta*`: `ID INFO COLON STRING` -/
def treeMetas : Nat → List ITok → List PT × List ITok
  | 0, ts => ([], ts)
  | f+1, ts =>
    match ts with
    | (.id k, i) :: (.kwInfo, j) :: (.colon, l) :: (.str v, m) :: rest =>
      let r := treeMetas f rest
      (.rule "meta" [leaf (.id k, i), leaf (.kwInfo, j), leaf (.colon, l), leaf (.str v, m)] :: r.1, r.2)
    | _ => ([], ts)

/-- `tag*`: `AT ID` -/
def treeTags : Nat → List ITok → List PT × List ITok
  | 0, ts => ([], ts)
  | f+1, ts =>
    match ts with
    | (.at, i) :: (.id t, j) :: rest =>
      let r := treeTags f rest
      (.rule "tag" [leaf (.at, i), leaf (.id t, j)] :: r.1, r.2)
    | _ => ([], ts)

def isCiaTok : Tok → Bool
  | .c => true | .i => true | .a => true
  | _ => false

/-- `cia (COMMA cia)* RCURLY`: the children after the opening brace -/
def treeCias : Nat → List ITok → TP (List PT)
  | 0, _ => none
  | f+1, ts =>
    match ts with
    | t :: (.comma, i) :: rest =>
      if isCiaTok t.1 then (treeCias f rest).map (fun r => (.rule "cia" [leaf t] :: leaf (.comma, i) :: r.1, r.2)) else none
    | t :: (.rcurly, i) :: rest => if isCiaTok t.1 then some ([.rule "cia" [leaf t], leaf (.rcurly, i)], rest) else none
    | _ => none

/-- `step: steptype ID tag* cias? ttc? meta* precondition? reaches?` -/
def treeStep (f : Nat) (ts : List ITok) : TP PT :=
  match ts with
  | t :: (.id name, i) :: rest =>
    match stepType t.1 with
    | none => none
    | some _ =>
      let (tags, r1) := treeTags f rest
      let cias : Option (List PT × List ITok) :=
        match r1 with
        | (.lcurly, j) :: r => (treeCias f r).map (fun x => ([PT.rule "cias" (leaf (.lcurly, j) :: x.1)], x.2))
        | _ => some ([], r1)
      match cias with
      | none => none
      | some (risk, r2) =>
        let ttc : Option (List PT × List ITok) :=
          match r2 with
          | (.lsquare, j) :: r =>
            match treeTtcExpr f r with
            | some (e, (.rsquare, k) :: r') => some ([PT.rule "ttc" [leaf (.lsquare, j), e, leaf (.rsquare, k)]], r')
            | _ => none
          | _ => some ([], r2)
        match ttc with
        | none => none
        | some (tt, r3) =>
          let (md, r4) := treeMetas f r3
          let pre : Option (List PT × List ITok) :=
            match r4 with
            | (.requires, j) :: r => (treeExprList f r).map (fun x => ([PT.rule "precondition" (leaf (.requires, j) :: x.1)], x.2))
            | _ => some ([], r4)
          match pre with
          | none => none
          | some (req, r5) =>
            let rch : Option (List PT × List ITok) :=
              match r5 with
              | (.leadsto, j) :: r => (treeExprList f r).map (fun x => ([PT.rule "reaches" (leaf (.leadsto, j) :: x.1)], x.2))
              | (.inherits, j) :: r => (treeExprList f r).map (fun x => ([PT.rule "reaches" (leaf (.inherits, j) :: x.1)], x.2))
              | _ => some ([], r5)
            match rch with
            | none => none
            | some (reaches, r6) =>
              some (.rule "step" (.rule "steptype" [leaf t] :: leaf (.id name, i) ::
                      (tags ++ risk ++ tt ++ md ++ req ++ reaches)), r6)
  | _ => none

/-- `(step | variable)* RCURLY`: the children up to and including the closing brace -/
def treeAssetBody : Nat → List ITok → TP (List PT)
  | 0, _ => none
  | f+1, ts =>
    match ts with
    | (.rcurly, i) :: rest => some ([leaf (.rcurly, i)], rest)
    | (.kwLet, i) :: (.id v, j) :: (.assign, k) :: rest =>
      match treeExpr f rest with
      | some (e, rest') =>
        (treeAssetBody f rest').map (fun r =>
          (.rule "variable" [leaf (.kwLet, i), leaf (.id v, j), leaf (.assign, k), e] :: r.1, r.2))
      | none => none
    | _ =>
      match treeStep f ts with
      | some (s, rest') => (treeAssetBody f rest').map (fun r => (s :: r.1, r.2))
      | none => none

/-- `asset: ABSTRACT? ASSET ID (EXTENDS ID)? meta* LCURLY (step|variable)* RCURLY` -/
def treeAsset (f : Nat) (ts : List ITok) : TP PT :=
  let hdr : Option (List PT × List ITok) :=
    match ts with
    | (.kwAbstract, i) :: (.kwAsset, j) :: (.id n, k) :: rest =>
      some ([leaf (.kwAbstract, i), leaf (.kwAsset, j), leaf (.id n, k)], rest)
    | (.kwAsset, j) :: (.id n, k) :: rest => some ([leaf (.kwAsset, j), leaf (.id n, k)], rest)
    | _ => none
  match hdr with
  | none => none
  | some (h, r1) =>
    let sup : List PT × List ITok :=
      match r1 with
      | (.kwExtends, i) :: (.id s, j) :: r => ([leaf (.kwExtends, i), leaf (.id s, j)], r)
      | _ => ([], r1)
    let (md, r3) := treeMetas f sup.2
    match r3 with
    | (.lcurly, i) :: r4 =>
      (treeAssetBody f r4).map (fun x => (.rule "asset" (h ++ sup.1 ++ md ++ leaf (.lcurly, i) :: x.1), x.2))
    | _ => none

/-- `asset* RCURLY`: the children up to and including the closing brace -/
def treeAssets : Nat → List ITok → TP (List PT)
  | 0, _ => none
  | f+1, ts =>
    match ts with
    | (.rcurly, i) :: rest => some ([leaf (.rcurly, i)], rest)
    | _ =>
      match treeAsset f ts with
      | some (a, rest) => (treeAssets f rest).map (fun r => (a :: r.1, r.2))
      | none => none

/-- `multatom: INT | STAR` (an INT token carries a digit string) -/
def isAtomTok (t : Tok) : Bool := (atomTok t).isSome

/-- `mult: multatom (RANGE multatom)?` -/
def treeMult (ts : List ITok) : TP PT :=
  match ts with
  | x :: (.range, i) :: y :: rest =>
    if isAtomTok x.1 && isAtomTok y.1 then
      some (.rule "mult" [.rule "multatom" [leaf x], leaf (.range, i), .rule "multatom" [leaf y]], rest)
    else none
  | x :: rest => if isAtomTok x.1 then some (.rule "mult" [.rule "multatom" [leaf x]], rest) else none
  | [] => none

/-- `association: ID field mult LARROW linkname RARROW mult field ID meta*` -/
def treeAssociation (f : Nat) (ts : List ITok) : TP PT :=
  match ts with
  | (.id la, i1) :: (.lsquare, i2) :: (.id lf, i3) :: (.rsquare, i4) :: r1 =>
    match treeMult r1 with
    | some (lm, (.larrow, i5) :: (.id name, i6) :: (.rarrow, i7) :: r2) =>
      match treeMult r2 with
      | some (rm, (.lsquare, i8) :: (.id rf, i9) :: (.rsquare, i10) :: (.id ra, i11) :: r3) =>
        let (md, r4) := treeMetas f r3
        some (.rule "association" ([leaf (.id la, i1),
                .rule "field" [leaf (.lsquare, i2), leaf (.id lf, i3), leaf (.rsquare, i4)], lm, leaf (.larrow, i5),
                .rule "linkname" [leaf (.id name, i6)], leaf (.rarrow, i7), rm,
                .rule "field" [leaf (.lsquare, i8), leaf (.id rf, i9), leaf (.rsquare, i10)], leaf (.id ra, i11)] ++ md), r4)
      | _ => none
    | _ => none
  | _ => none

def treeAssociationsBody : Nat → List ITok → TP (List PT)
  | 0, _ => none
  | f+1, ts =>
    match ts with
    | (.rcurly, i) :: rest => some ([leaf (.rcurly, i)], rest)
    | _ =>
      match treeAssociation f ts with
      | some (a, rest) => (treeAssociationsBody f rest).map (fun r => (a :: r.1, r.2))
      | none => none

/-- `declaration: include | define | category | associations` -/
def treeDecl (f : Nat) (ts : List ITok) : TP PT :=
  match ts with
  | (.kwInclude, i) :: (.str p, j) :: rest =>
    some (.rule "declaration" [.rule "include" [leaf (.kwInclude, i), leaf (.str p, j)]], rest)
  | (.hash, i) :: (.id k, j) :: (.colon, l) :: (.str v, m) :: rest =>
    some (.rule "declaration" [.rule "define" [leaf (.hash, i), leaf (.id k, j), leaf (.colon, l), leaf (.str v, m)]], rest)
  | (.kwCategory, i) :: (.id n, j) :: rest =>
    let (md, r1) := treeMetas f rest
    match r1 with
    | (.lcurly, k) :: r2 =>
      (treeAssets f r2).map (fun x =>
        (.rule "declaration" [.rule "category" (leaf (.kwCategory, i) :: leaf (.id n, j) :: (md ++ leaf (.lcurly, k) :: x.1))], x.2))
    | _ => none
  | (.kwAssociations, i) :: (.lcurly, j) :: rest =>
    (treeAssociationsBody f rest).map (fun x =>
      (.rule "declaration" [.rule "associations" (leaf (.kwAssociations, i) :: leaf (.lcurly, j) :: x.1)], x.2))
  | _ => none

/-- `(declaration)+`, stopping at the first token that cannot start a declaration; returns the declarations and the
tokens that are left (cf. `parseDeclsRest`) -/
def treeDeclsRest : Nat → List ITok → TP (List PT)
  | 0, _ => none
  | f+1, ts =>
    match ts with
    | [] => some ([], [])
    | t :: _ =>
      if startsDecl t.1 then
        match treeDecl f ts with
        | some (d, rest) => (treeDeclsRest f rest).map (fun r => (d :: r.1, r.2))
        | none => none
      else some ([], ts)

/-- positions of the tokens in the stream -/
def indexed (ts : List Tok) : List ITok := ts.zipIdx

/-- `mal: (declaration)+ | EOF` on a token list, with the tokens that are left (cf. `parseMalRest`); the tree of
the empty file has the EOF token as its only child -/
def treeMalRest (ts : List Tok) : Option (PT × List ITok) :=
  match ts with
  | [] => some (.rule "mal" [.tok "EOF" "<EOF>" 0], [])
  | t :: _ =>
    if startsDecl t then (treeDeclsRest (2 * ts.length + 8) (indexed ts)).map (fun r => (.rule "mal" r.1, r.2)) else none

/-- the token stream as the parser object holds it (`getTokenStream().tokens`): all tokens, then EOF -/
def streamOf (ts : List Tok) : List PT := (indexed ts).map leaf ++ [.tok "EOF" "<EOF>" ts.length]

mutual
/-- the tree as an s-expression: `(rule child …)` and `TYPE:text@index` -/
def sexpr : PT → String
  | .tok t x i => t ++ ":" ++ x ++ "@" ++ toString i
  | .rule n cs => "(" ++ n ++ sexprL cs ++ ")"
def sexprL : List PT → String
  | [] => ""
  | c :: cs => " " ++ sexpr c ++ sexprL cs
end

end MalVerif.Mal
