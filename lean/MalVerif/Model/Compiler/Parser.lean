import MalVerif.Model.Compiler.Syntax
/-!
# Recursive-descent model of `mal.g4` + `malVisitor`

One function per grammar rule; every function takes fuel (each call passes
`fuel - 1` down) and returns the value the visitor builds together with the
remaining tokens, or `none` where the grammar is not met.  The real parser
is ANTLR's generated `mal_parser.py`; that both accept the same token
sequences and build the same specification is checked by the correspondence.
-/
namespace MalVerif.Mal
open MalVerif (Expr)

abbrev P (α : Type) := Option (α × List Tok)

/-- tokens that cannot occur inside a reaches / requires clause: where the clause ends -/
def endsClause : Tok → Bool
  | .and_ | .or_ | .hash | .exists_ | .notExists | .kwLet | .rcurly => true
  | _ => false

/-- `_resolve_part_ID_type`: scanning right from a name, is there a DOT before the next COMMA or the end of
the clause?  Then the name is a field, otherwise it is the attack step the expression leads to. -/
def dotAhead : List Tok → Bool
  | [] => false
  | t :: ts =>
    match t with
    | .dot => true
    | .comma => false
    | _ => if endsClause t then false else dotAhead ts

/-- `type*` suffixes of a part: `[T]` -/
def parseTypes : Nat → Expr → List Tok → Expr × List Tok
  | 0, e, ts => (e, ts)
  | f+1, e, ts =>
    match ts with
    | .lsquare :: .id t :: .rsquare :: rest => parseTypes f (.sub t e) rest
    | _ => (e, ts)

/-- `STAR? type*` -/
def parseSuffix (f : Nat) (e : Expr) (ts : List Tok) : Expr × List Tok :=
  match ts with
  | .star :: rest => parseTypes f (.trans e) rest
  | _ => parseTypes f e ts

mutual
/-- `part: (LPAREN expr RPAREN | varsubst LPAREN RPAREN | ID) STAR? type*`; `reach` = inside a reaches clause -/
def parsePart : Nat → Bool → List Tok → P Expr
  | 0, _, _ => none
  | f+1, reach, ts =>
    match ts with
    | .lparen :: rest =>
      match parseExpr f reach rest with
      | some (e, .rparen :: rest') => some (parseSuffix f e rest')
      | _ => none
    | .id n :: .lparen :: .rparen :: rest => some (parseSuffix f (.var n) rest)
    | .id n :: rest =>
      some (parseSuffix f (if reach && !dotAhead rest then .step n else .field n) rest)
    | _ => none
/-- `(DOT part)*` with the left operand accumulated: left-nested `collect` -/
def parsePartsLoop : Nat → Bool → Expr → List Tok → P Expr
  | 0, _, _, _ => none
  | f+1, reach, acc, ts =>
    match ts with
    | .dot :: rest =>
      match parsePart f reach rest with
      | some (e, rest') => parsePartsLoop f reach (.collect acc e) rest'
      | none => none
    | _ => some (acc, ts)
/-- `parts: part (DOT part)*` -/
def parseParts : Nat → Bool → List Tok → P Expr
  | 0, _, _ => none
  | f+1, reach, ts =>
    match parsePart f reach ts with
    | some (e, rest) => parsePartsLoop f reach e rest
    | none => none
/-- `(setop parts)*`: left-nested, all three operators on one precedence level -/
def parseExprLoop : Nat → Bool → Expr → List Tok → P Expr
  | 0, _, _, _ => none
  | f+1, reach, acc, ts =>
    match ts with
    | .union :: rest =>
      match parseParts f reach rest with
      | some (e, rest') => parseExprLoop f reach (.union acc e) rest'
      | none => none
    | .intersect :: rest =>
      match parseParts f reach rest with
      | some (e, rest') => parseExprLoop f reach (.inter acc e) rest'
      | none => none
    | .minus :: rest =>
      match parseParts f reach rest with
      | some (e, rest') => parseExprLoop f reach (.diff acc e) rest'
      | none => none
    | _ => some (acc, ts)
/-- `expr: parts (setop parts)*` -/
def parseExpr : Nat → Bool → List Tok → P Expr
  | 0, _, _ => none
  | f+1, reach, ts =>
    match parseParts f reach ts with
    | some (e, rest) => parseExprLoop f reach e rest
    | none => none
end

/-- `expr (COMMA expr)*` -/
def parseExprList : Nat → Bool → List Tok → P (List Expr)
  | 0, _, _ => none
  | f+1, reach, ts =>
    match parseExpr f reach ts with
    | some (e, .comma :: rest) => (parseExprList f reach rest).map (fun r => (e :: r.1, r.2))
    | some (e, rest) => some ([e], rest)
    | none => none

/-! ### TTC expressions -/

def numTok : Tok → Option String
  | .int s => some s
  | .float s => some s
  | _ => none

/-- `(number (COMMA number)*)?` up to the closing parenthesis -/
def parseArgs : Nat → List Tok → P (List String)
  | 0, _ => none
  | f+1, ts =>
    match ts with
    | t :: .comma :: rest => (numTok t).bind (fun n => (parseArgs f rest).map (fun r => (n :: r.1, r.2)))
    | t :: .rparen :: rest => (numTok t).map (fun n => ([n], rest))
    | _ => none

mutual
/-- `ttcatom: ttcdist | LPAREN ttcexpr RPAREN | number` -/
def parseTtcAtom : Nat → List Tok → P TTC
  | 0, _ => none
  | f+1, ts =>
    match ts with
    | .id n :: .lparen :: .rparen :: rest => some (.func n [], rest)
    | .id n :: .lparen :: rest => (parseArgs f rest).map (fun r => (.func n r.1, r.2))
    | .id n :: rest => some (.func n [], rest)
    | .lparen :: rest =>
      match parseTtcExpr f rest with
      | some (e, .rparen :: rest') => some (e, rest')
      | _ => none
    | .int s :: rest => some (.num s, rest)
    | .float s :: rest => some (.num s, rest)
    | _ => none
/-- `ttcfact: ttcatom (POWER ttcatom)?` -/
def parseTtcFact : Nat → List Tok → P TTC
  | 0, _ => none
  | f+1, ts =>
    match parseTtcAtom f ts with
    | some (a, .power :: rest) => (parseTtcAtom f rest).map (fun r => (.bin "exponentiation" a r.1, r.2))
    | r => r
def parseTtcTermLoop : Nat → TTC → List Tok → P TTC
  | 0, _, _ => none
  | f+1, acc, ts =>
    match ts with
    | .star :: rest =>
      match parseTtcFact f rest with
      | some (e, rest') => parseTtcTermLoop f (.bin "multiplication" acc e) rest'
      | none => none
    | .divide :: rest =>
      match parseTtcFact f rest with
      | some (e, rest') => parseTtcTermLoop f (.bin "division" acc e) rest'
      | none => none
    | _ => some (acc, ts)
/-- `ttcterm: ttcfact ((STAR | DIVIDE) ttcfact)*` -/
def parseTtcTerm : Nat → List Tok → P TTC
  | 0, _ => none
  | f+1, ts =>
    match parseTtcFact f ts with
    | some (e, rest) => parseTtcTermLoop f e rest
    | none => none
def parseTtcExprLoop : Nat → TTC → List Tok → P TTC
  | 0, _, _ => none
  | f+1, acc, ts =>
    match ts with
    | .plus :: rest =>
      match parseTtcTerm f rest with
      | some (e, rest') => parseTtcExprLoop f (.bin "addition" acc e) rest'
      | none => none
    | .minus :: rest =>
      match parseTtcTerm f rest with
      | some (e, rest') => parseTtcExprLoop f (.bin "subtraction" acc e) rest'
      | none => none
    | _ => some (acc, ts)
/-- `ttcexpr: ttcterm ((PLUS | MINUS) ttcterm)*` -/
def parseTtcExpr : Nat → List Tok → P TTC
  | 0, _ => none
  | f+1, ts =>
    match parseTtcTerm f ts with
    | some (e, rest) => parseTtcExprLoop f e rest
    | none => none
end

/-! ### steps, assets, categories, associations -/

/-- `meta*`: `ID INFO COLON STRING` -/
def parseMetas : Nat → Meta → List Tok → Meta × List Tok
  | 0, m, ts => (m, ts)
  | f+1, m, ts =>
    match ts with
    | .id k :: .kwInfo :: .colon :: .str v :: rest => parseMetas f (metaPut m k (stripQuotes v)) rest
    | _ => (m, ts)

/-- `tag*`: `AT ID` -/
def parseTags : Nat → List String → List Tok → List String × List Tok
  | 0, acc, ts => (acc, ts)
  | f+1, acc, ts =>
    match ts with
    | .at :: .id t :: rest => parseTags f (acc ++ [t]) rest
    | _ => (acc, ts)

def ciaTok : Tok → Option (Bool × Bool × Bool)
  | .c => some (true, false, false)
  | .i => some (false, true, false)
  | .a => some (false, false, true)
  | _ => none
def riskOr (x y : Bool × Bool × Bool) : Bool × Bool × Bool := (x.1 || y.1, x.2.1 || y.2.1, x.2.2 || y.2.2)

/-- `cia (COMMA cia)* RCURLY` -/
def parseCias : Nat → (Bool × Bool × Bool) → List Tok → P (Bool × Bool × Bool)
  | 0, _, _ => none
  | f+1, acc, ts =>
    match ts with
    | t :: .comma :: rest => (ciaTok t).bind (fun r => parseCias f (riskOr acc r) rest)
    | t :: .rcurly :: rest => (ciaTok t).map (fun r => (riskOr acc r, rest))
    | _ => none

def stepType : Tok → Option String
  | .and_ => some "and" | .or_ => some "or" | .hash => some "defense"
  | .exists_ => some "exist" | .notExists => some "notExist"
  | _ => none

/-- `step: steptype ID tag* cias? ttc? meta* precondition? reaches?` -/
def parseStep (f : Nat) (ts : List Tok) : P CStep :=
  match ts with
  | t :: .id name :: rest =>
    match stepType t with
    | none => none
    | some ty =>
      let (tags, r1) := parseTags f [] rest
      -- cias?
      let cias : Option (Option (Bool × Bool × Bool) × List Tok) :=
        match r1 with
        | .lcurly :: r => (parseCias f (false, false, false) r).map (fun x => (some x.1, x.2))
        | _ => some (none, r1)
      match cias with
      | none => none
      | some (risk, r2) =>
        -- ttc?
        let ttc : Option (Option TTC × List Tok) :=
          match r2 with
          | .lsquare :: r =>
            match parseTtcExpr f r with
            | some (e, .rsquare :: r') => some (some e, r')
            | _ => none
          | _ => some (none, r2)
        match ttc with
        | none => none
        | some (tt, r3) =>
          let (md, r4) := parseMetas f [] r3
          -- precondition?
          let pre : Option (Option (List Expr) × List Tok) :=
            match r4 with
            | .requires :: r => (parseExprList f false r).map (fun x => (some x.1, x.2))
            | _ => some (none, r4)
          match pre with
          | none => none
          | some (req, r5) =>
            -- reaches?
            let rch : Option (Option (Bool × List Expr) × List Tok) :=
              match r5 with
              | .leadsto :: r => (parseExprList f true r).map (fun x => (some (true, x.1), x.2))
              | .inherits :: r => (parseExprList f true r).map (fun x => (some (false, x.1), x.2))
              | _ => some (none, r5)
            match rch with
            | none => none
            | some (reaches, r6) =>
              some ({ name := name, metaD := md, type := ty, tags := tags, risk := risk, ttc := tt,
                      requires := req, reaches := reaches }, r6)
  | _ => none

/-- `(step | variable)* RCURLY` -/
def parseAssetBody : Nat → List (String × Expr) → List CStep → List Tok → P (List (String × Expr) × List CStep)
  | 0, _, _, _ => none
  | f+1, vs, ss, ts =>
    match ts with
    | .rcurly :: rest => some ((vs, ss), rest)
    | .kwLet :: .id v :: .assign :: rest =>
      match parseExpr f false rest with
      | some (e, rest') => parseAssetBody f (vs ++ [(v, e)]) ss rest'
      | none => none
    | _ =>
      match parseStep f ts with
      | some (s, rest') => parseAssetBody f vs (ss ++ [s]) rest'
      | none => none

/-- `asset: ABSTRACT? ASSET ID (EXTENDS ID)? meta* LCURLY (step|variable)* RCURLY` -/
def parseAsset (f : Nat) (category : String) (ts : List Tok) : P CAsset :=
  let hdr : Option (Bool × String × List Tok) :=
    match ts with
    | .kwAbstract :: .kwAsset :: .id n :: rest => some (true, n, rest)
    | .kwAsset :: .id n :: rest => some (false, n, rest)
    | _ => none
  match hdr with
  | none => none
  | some (abs, name, r1) =>
    let sup : Option String × List Tok :=
      match r1 with
      | .kwExtends :: .id s :: r => (some s, r)
      | _ => (none, r1)
    let (md, r3) := parseMetas f [] sup.2
    match r3 with
    | .lcurly :: r4 =>
      (parseAssetBody f [] [] r4).map (fun x =>
        ({ name := name, metaD := md, category := category, isAbstract := abs, superAsset := sup.1,
           variables := x.1.1, steps := x.1.2 }, x.2))
    | _ => none

/-- `asset* RCURLY` -/
def parseAssets : Nat → String → List CAsset → List Tok → P (List CAsset)
  | 0, _, _, _ => none
  | f+1, cat, acc, ts =>
    match ts with
    | .rcurly :: rest => some (acc, rest)
    | _ =>
      match parseAsset f cat ts with
      | some (a, rest) => parseAssets f cat (acc ++ [a]) rest
      | none => none

/-- `mult: multatom (RANGE multatom)?` after `_post_process_multitudes` -/
def atomTok : Tok → Option (Option Nat)          -- `some none` = `*`
  | .int s => s.toNat?.map some
  | .star => some none
  | _ => none
def parseMult (ts : List Tok) : P (Nat × Option Nat) :=
  match ts with
  | x :: .range :: y :: rest =>
    match atomTok x, atomTok y with
    | some lo, some hi => some ((lo.getD 0, hi), rest)
    | _, _ => none
  | x :: rest => (atomTok x).map (fun lo => ((lo.getD 0, lo), rest))     -- upper = lower when not given; `*` = (0, no limit)
  | [] => none

/-- `association: ID field mult LARROW linkname RARROW mult field ID meta*` -/
def parseAssociation (f : Nat) (ts : List Tok) : P CAssoc :=
  match ts with
  | .id la :: .lsquare :: .id lf :: .rsquare :: r1 =>
    match parseMult r1 with
    | some (lm, .larrow :: .id name :: .rarrow :: r2) =>
      match parseMult r2 with
      | some (rm, .lsquare :: .id rf :: .rsquare :: .id ra :: r3) =>
        let (md, r4) := parseMetas f [] r3
        some ({ name := name, metaD := md, leftAsset := la, leftField := lf, leftMin := lm.1, leftMax := lm.2,
                rightAsset := ra, rightField := rf, rightMin := rm.1, rightMax := rm.2 }, r4)
      | _ => none
    | _ => none
  | _ => none

def parseAssociationsBody : Nat → List CAssoc → List Tok → P (List CAssoc)
  | 0, _, _ => none
  | f+1, acc, ts =>
    match ts with
    | .rcurly :: rest => some (acc, rest)
    | _ =>
      match parseAssociation f ts with
      | some (a, rest) => parseAssociationsBody f (acc ++ [a]) rest
      | none => none

inductive Decl
  | incl (path : String)
  | define (k v : String)
  | category (name : String) (metaD : Meta) (assets : List CAsset)
  | associations (l : List CAssoc)
  deriving Repr, Inhabited

/-- `declaration: include | define | category | associations` -/
def parseDecl (f : Nat) (ts : List Tok) : P Decl :=
  match ts with
  | .kwInclude :: .str p :: rest => some (.incl (stripQuotes p), rest)
  | .hash :: .id k :: .colon :: .str v :: rest => some (.define k (stripQuotes v), rest)
  | .kwCategory :: .id n :: rest =>
    let (md, r1) := parseMetas f [] rest
    match r1 with
    | .lcurly :: r2 => (parseAssets f n [] r2).map (fun x => (.category n md x.1, x.2))
    | _ => none
  | .kwAssociations :: .lcurly :: rest => (parseAssociationsBody f [] rest).map (fun x => (.associations x.1, x.2))
  | _ => none

def startsDecl : Tok → Bool
  | .kwInclude | .hash | .kwCategory | .kwAssociations => true
  | _ => false

/-- `(declaration)+` as the generated ANTLR parser runs it — stops (without error, as the grammar has no EOF
there) at the first token that cannot start a declaration -/
def parseDecls : Nat → List Decl → List Tok → Option (List Decl)
  | 0, _, _ => none
  | f+1, acc, ts =>
    match ts with
    | [] => some acc
    | t :: _ =>
      if startsDecl t then
        match parseDecl f ts with
        | some (d, rest) => parseDecls f (acc ++ [d]) rest
        | none => none
      else some acc

/-- `mal: (declaration)+ | EOF` **as written in `mal.g4`** (no `EOF` after the declarations): what `parser.mal()`
accepts — a *prefix* of the token list.  Until commit e0054c2 this was all `MalCompiler.compile` asked for; it is
kept because it still describes the generated parser (and documents the repaired defect, `Props/C17.lean`). -/
def parseMalPrefix (ts : List Tok) : Option (List Decl) :=
  match ts with
  | [] => some []
  | t :: _ => if startsDecl t then parseDecls (2 * ts.length + 8) [] ts else none

/-- `parseDecls` returning also the tokens it did not consume -/
def parseDeclsRest : Nat → List Decl → List Tok → Option (List Decl × List Tok)
  | 0, _, _ => none
  | f+1, acc, ts =>
    match ts with
    | [] => some (acc, [])
    | t :: _ =>
      if startsDecl t then
        match parseDecl f ts with
        | some (d, rest) => parseDeclsRest f (acc ++ [d]) rest
        | none => none
      else some (acc, ts)

/-- `parser.mal()`: the declarations of the prefix the start rule consumes, and the tokens it leaves in the stream -/
def parseMalRest (ts : List Tok) : Option (List Decl × List Tok) :=
  match ts with
  | [] => some ([], [])
  | t :: _ => if startsDecl t then parseDeclsRest (2 * ts.length + 8) [] ts else none

/-- **The compiler's verdict on a token list** (`MalCompiler.compile` since e0054c2): `parser.mal()` must succeed
*and* the next token must be `EOF` (`stream.LA(1) == Token.EOF`, otherwise `MalCompilerError: extraneous input`).
The whole token list is a sequence of declarations, or it is rejected. -/
def parseMal (ts : List Tok) : Option (List Decl) :=
  match parseMalRest ts with
  | some (ds, []) => some ds
  | _ => none

/-- **The compiler's verdict on a source text**: the text must lex completely and its tokens must be accepted by
`parseMal`.

ANTLR's token stream fetches tokens on demand, so for a text with a lexical error the real front end goes one of
three ways (`frontEnd` below spells them out): the parser fails on the tokens in front of the error; or it stops in
front of the error at a token that cannot start a declaration — `extraneous input` since e0054c2; or it consumes
every token in front of the error and fetches the erroneous text as look-ahead — the lexer's listener raises.
All three are errors, hence the simple definition (`frontEnd_accepts_iff` in `Proofs/ParseDecl.lean`). -/
def parseSource (src : String) : Option (List Decl) := (lex src).bind parseMal

/-- what the front end did before e0054c2 (no `EOF` check; the lexing error is only reported if it is fetched):
kept to state the repaired defect (`Props/C17.lean`, `prefix_variant_*`) -/
def parseSourcePrefix (src : String) : Option (List Decl) :=
  match lex src with
  | some ts => parseMalPrefix ts
  | none =>
    match parseMalRest (lexPrefix src) with
    | some (ds, _ :: _) => some ds
    | _ => none

/-- how `MalCompiler.compile` ends on one file, with the control flow of the on-demand token stream -/
inductive FrontEnd
  | spec (ds : List Decl)      -- `parser.mal()` succeeded and the next token is `EOF`
  | syntaxError                -- the parser's listener raised
  | extraneousInput            -- `parser.mal()` succeeded, `stream.LA(1) != Token.EOF`
  | lexError                   -- the lexer's listener raised when the look-ahead token was fetched
  deriving Repr, Inhabited

def frontEnd (src : String) : FrontEnd :=
  match lex src with
  | some ts =>
    match parseMalRest ts with
    | none => .syntaxError
    | some (ds, []) => .spec ds
    | some (_, _ :: _) => .extraneousInput
  | none =>
    -- the parser sees the tokens in front of the first lexing error
    match parseMalRest (lexPrefix src) with
    | none => .syntaxError
    | some (_, _ :: _) => .extraneousInput
    | some (_, []) => .lexError

/-! ### `visitMal`: assembling the specification, includes, de-duplication -/

def mergeSpec (s inc : CSpec) : CSpec :=
  { defines := inc.defines.foldl (fun d e => metaPut d e.1 e.2) s.defines
    categories := s.categories ++ inc.categories
    assets := s.assets ++ inc.assets
    associations := s.associations ++ inc.associations }

/-- compile a file given the contents of all files (relative to the root directory); fuel bounds include depth -/
def compileFile (files : String → Option String) : Nat → String → Option CSpec
  | 0, _ => none
  | f+1, name =>
    match files name with
    | none => none
    | some src =>
      match parseSource src with
      | none => none
      | some decls =>
        let r : Option CSpec := decls.foldlM (fun (s : CSpec) d =>
          match d with
          | .incl p => (compileFile files f p).map (mergeSpec s)
          | .define k v => some { s with defines := metaPut s.defines k v }
          | .category n md as => some { s with categories := s.categories ++ [(n, md)], assets := s.assets ++ as }
          | .associations l => some { s with associations := s.associations ++ l }) ({} : CSpec)
        -- de-duplication with Python's `==` (order of meta entries irrelevant, numbers as floats): `Syntax.lean`
        r.map (fun s => { s with categories := dedupBy catEqv s.categories, assets := dedupBy assetEqv s.assets,
                                 associations := dedupBy assocEqv s.associations })

end MalVerif.Mal
