import MalVerif.Model.Compiler.Parser
/-!
# Printing a specification as a token sequence (`harness/malsrc.py`: `ex`, `ttc`, `mult`, `step_line`, `blocks`)

Minimal parentheses: a binary node is parenthesised where its precedence is lower than the context level, or
equal and it is the right operand (all operators are left-associative).  Levels of step expressions: set
operators 1, `.` 2, operand of `*` / `[T]` 3.  Levels of TTC expressions: `+ -` 1, `* /` 2, `^` 3, operand of
`^` 4 (`ttcfact: ttcatom (POWER ttcatom)?`: both operands are atoms).
-/
namespace MalVerif.Mal
open MalVerif (Expr)

def parenT (b : Bool) (ts : List Tok) : List Tok := if b then .lparen :: (ts ++ [.rparen]) else ts

/-- `*` and `[T]` apply to a *part*: an operand that itself carries a suffix is parenthesised under `*` -/
def isSuffixed : Expr → Bool
  | .trans _ => true
  | .sub _ _ => true
  | _ => false

/-- `prExpr ctx right e`: `ctx` the precedence level of the context, `right` = `e` is a right operand -/
def prExpr : Nat → Bool → Expr → List Tok
  | _, _, .step n => [.id n]
  | _, _, .field n => [.id n]
  | _, _, .var v => [.id v, .lparen, .rparen]
  | ctx, right, .collect l r =>
    parenT (decide (2 < ctx) || (ctx == 2 && right)) (prExpr 2 false l ++ .dot :: prExpr 2 true r)
  | ctx, right, .union l r =>
    parenT (decide (1 < ctx) || (ctx == 1 && right)) (prExpr 1 false l ++ .union :: prExpr 1 true r)
  | ctx, right, .inter l r =>
    parenT (decide (1 < ctx) || (ctx == 1 && right)) (prExpr 1 false l ++ .intersect :: prExpr 1 true r)
  | ctx, right, .diff l r =>
    parenT (decide (1 < ctx) || (ctx == 1 && right)) (prExpr 1 false l ++ .minus :: prExpr 1 true r)
  | _, _, .trans e => parenT (isSuffixed e) (prExpr 3 false e) ++ [.star]
  | _, _, .sub t e => prExpr 3 false e ++ [.lsquare, .id t, .rsquare]

/-- `e1 , e2 , …` -/
def prExprList : List Expr → List Tok
  | [] => []
  | [e] => prExpr 0 false e
  | e :: es => prExpr 0 false e ++ .comma :: prExprList es

/-! ### TTC -/

/-- operator token and precedence of a binary TTC node -/
def ttcOp (op : String) : Tok × Nat :=
  if op = "addition" then (.plus, 1)
  else if op = "subtraction" then (.minus, 1)
  else if op = "multiplication" then (.star, 2)
  else if op = "division" then (.divide, 2)
  else (.power, 3)

/-- `n1 , n2 , … )` -/
def prArgs : List String → List Tok
  | [] => [.rparen]
  | [a] => [.float a, .rparen]
  | a :: as => .float a :: .comma :: prArgs as

def prTtc : Nat → Bool → TTC → List Tok
  | _, _, .func n [] => [.id n]
  | _, _, .func n (a :: as) => .id n :: .lparen :: prArgs (a :: as)
  | _, _, .num v => [.float v]
  | ctx, right, .bin op l r =>
    let p := (ttcOp op).2
    if p = 3 then
      parenT (decide (3 < ctx) || (ctx == 3 && right)) (prTtc 4 false l ++ .power :: prTtc 4 false r)
    else
      parenT (decide (p < ctx) || (ctx == p && right)) (prTtc p false l ++ (ttcOp op).1 :: prTtc p true r)

/-! ### multiplicities, metas, steps, assets, associations -/

def natTok (n : Nat) : Tok := .int (toString n)

/-- `mult`: `n` for `n..n`, `*` for `0..*`, otherwise `lo..hi` -/
def prMult (lo : Nat) (hi : Option Nat) : List Tok :=
  match hi with
  | none => if lo = 0 then [.star] else [natTok lo, .range, .star]
  | some h => if lo = h then [natTok lo] else [natTok lo, .range, natTok h]

def quote (s : String) : String := "\"" ++ s ++ "\""

def prMetas : Meta → List Tok
  | [] => []
  | (k, v) :: m => .id k :: .kwInfo :: .colon :: .str (quote v) :: prMetas m

def prTags : List String → List Tok
  | [] => []
  | t :: ts => .at :: .id t :: prTags ts

def stepTok (ty : String) : Tok :=
  if ty = "and" then .and_ else if ty = "or" then .or_ else if ty = "defense" then .hash
  else if ty = "exist" then .exists_ else .notExists

/-- `C , I , A }` restricted to the components that are set -/
def prCias (r : Bool × Bool × Bool) : List Tok :=
  match r with
  | (true, true, true) => [.c, .comma, .i, .comma, .a, .rcurly]
  | (true, true, false) => [.c, .comma, .i, .rcurly]
  | (true, false, true) => [.c, .comma, .a, .rcurly]
  | (true, false, false) => [.c, .rcurly]
  | (false, true, true) => [.i, .comma, .a, .rcurly]
  | (false, true, false) => [.i, .rcurly]
  | (false, false, true) => [.a, .rcurly]
  | (false, false, false) => [.rcurly]

/-- the optional groups of a step after its tags -/
def prRisk (r : Option (Bool × Bool × Bool)) : List Tok :=
  match r with | some r => .lcurly :: prCias r | none => []
def prTtcOpt (t : Option TTC) : List Tok :=
  match t with | some t => .lsquare :: (prTtc 0 false t ++ [.rsquare]) | none => []
def prRequires (r : Option (List Expr)) : List Tok :=
  match r with | some l => .requires :: prExprList l | none => []
def prReaches (r : Option (Bool × List Expr)) : List Tok :=
  match r with
  | some (true, l) => .leadsto :: prExprList l
  | some (false, l) => .inherits :: prExprList l
  | none => []

/-- `steptype ID tag* cias? ttc? meta* precondition? reaches?` -/
def prStep (s : CStep) : List Tok :=
  stepTok s.type :: .id s.name ::
    (prTags s.tags ++ (prRisk s.risk ++ (prTtcOpt s.ttc ++ (prMetas s.metaD ++
      (prRequires s.requires ++ prReaches s.reaches)))))

def prVars : List (String × Expr) → List Tok
  | [] => []
  | (v, e) :: vs => .kwLet :: .id v :: .assign :: (prExpr 0 false e ++ prVars vs)

def prSteps : List CStep → List Tok
  | [] => []
  | s :: ss => prStep s ++ prSteps ss

def prAsset (a : CAsset) : List Tok :=
  (if a.isAbstract then [.kwAbstract] else []) ++ .kwAsset :: .id a.name ::
    ((match a.superAsset with | some s => [.kwExtends, .id s] | none => [])
     ++ prMetas a.metaD ++ .lcurly :: (prVars a.variables ++ prSteps a.steps ++ [.rcurly]))

def prAssets : List CAsset → List Tok
  | [] => []
  | a :: as => prAsset a ++ prAssets as

def prAssoc (a : CAssoc) : List Tok :=
  .id a.leftAsset :: .lsquare :: .id a.leftField :: .rsquare ::
    (prMult a.leftMin a.leftMax ++ .larrow :: .id a.name :: .rarrow ::
      (prMult a.rightMin a.rightMax ++ .lsquare :: .id a.rightField :: .rsquare :: .id a.rightAsset :: prMetas a.metaD))

def prAssocs : List CAssoc → List Tok
  | [] => []
  | a :: as => prAssoc a ++ prAssocs as

def prDefines : List (String × String) → List Tok
  | [] => []
  | (k, v) :: ds => .hash :: .id k :: .colon :: .str (quote v) :: prDefines ds

/-- one `category` block per category, with the assets of that category in the order of the specification -/
def prCategories (assets : List CAsset) : List (String × Meta) → List Tok
  | [] => []
  | (n, m) :: cs =>
    .kwCategory :: .id n :: (prMetas m ++ .lcurly :: (prAssets (assets.filter (·.category = n)) ++ .rcurly ::
      prCategories assets cs))

/-- defines, categories with their assets, one `associations` block (if there are associations) -/
def prSpec (s : CSpec) : List Tok :=
  prDefines s.defines ++ prCategories s.assets s.categories ++
    (if s.associations = [] then [] else .kwAssociations :: .lcurly :: (prAssocs s.associations ++ [.rcurly]))

/-! ### text -/

def tokText : Tok → String
  | .kwAbstract => "abstract" | .kwAsset => "asset" | .kwAssociations => "associations" | .kwExtends => "extends"
  | .kwInclude => "include" | .kwCategory => "category" | .kwInfo => "info" | .kwLet => "let"
  | .str raw => raw | .int s => s | .float s => s
  | .exists_ => "E" | .c => "C" | .i => "I" | .a => "A"
  | .id s => s
  | .lparen => "(" | .rparen => ")" | .lcurly => "{" | .rcurly => "}" | .hash => "#" | .colon => ":"
  | .larrow => "<--" | .rarrow => "-->" | .lsquare => "[" | .rsquare => "]" | .star => "*"
  | .assign => "=" | .minus => "-" | .intersect => "/\\" | .union => "\\/" | .range => ".." | .dot => "."
  | .and_ => "&" | .or_ => "|" | .notExists => "!E" | .at => "@" | .requires => "<-" | .inherits => "+>"
  | .leadsto => "->" | .comma => "," | .plus => "+" | .divide => "/" | .power => "^"

/-- tokens separated by single blanks -/
def render : List Tok → String
  | [] => ""
  | [t] => tokText t
  | t :: ts => tokText t ++ " " ++ render ts

end MalVerif.Mal
