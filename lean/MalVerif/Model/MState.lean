import MalVerif.Model.Inherit
/-!
# The instance model as a state machine (`maltoolbox/model.py`) — C05, C06, C07

Python objects (pjs asset / association objects, `AttackerAttachment`s) are
references into three stores.  `x in list` / `list.remove(x)` on these
objects is reference membership / `List.erase` (distinct objects of one
model differ in id; pjs `==` on different objects is `False`).  The two
bookkeeping sets `asset_ids` / `asset_names` are duplicate-free lists.
The guards that python_jsonschema_objects applies when an object is built
(`okDefense`, `okMember`, `okCount`) are explicit functions: this is the
assumed behaviour of that library, exercised by the correspondence check.
-/
namespace MalVerif.MS

structure AssetObj where
  id : Int := 0
  name : String := ""
  type : String := ""
  defenses : List (String × String) := []     -- explicitly set values (canonical float text)
  extras : String := "{}"
  assocs : List Nat := []                      -- `asset.associations` (with multiplicity)
  deriving Repr, Inhabited

structure AssocObj where
  cls : String := ""
  lf : String := ""
  rf : String := ""
  left : List Nat := []
  right : List Nat := []
  extras : String := "{}"
  deriving Repr, Inhabited

structure AttObj where
  id : Int := 0
  name : String := ""
  entry : List (Nat × List String) := []       -- `entry_points`: (asset, attack step names)
  deriving Repr, Inhabited

structure St where
  aobj : Nat → AssetObj := fun _ => {}
  afresh : Nat := 0
  lobj : Nat → AssocObj := fun _ => {}
  lfresh : Nat := 0
  tobj : Nat → AttObj := fun _ => {}
  tfresh : Nat := 0
  assets : List Nat := []
  associations : List Nat := []
  attackers : List Nat := []
  assetIds : List Int := []
  assetNames : List String := []
  typeToAssoc : List (String × List Nat) := []
  nextId : Int := 0

inductive Err | valueError | lookupError | duplicateAssociation | modelAssociation | validation
  deriving Repr, DecidableEq

def updA (s : St) (r : Nat) (f : AssetObj → AssetObj) : St :=
  { s with aobj := fun x => if x = r then f (s.aobj x) else s.aobj x }
def updL (s : St) (r : Nat) (f : AssocObj → AssocObj) : St :=
  { s with lobj := fun x => if x = r then f (s.lobj x) else s.lobj x }
def updT (s : St) (r : Nat) (f : AttObj → AttObj) : St :=
  { s with tobj := fun x => if x = r then f (s.tobj x) else s.tobj x }

def setAdd {α} [DecidableEq α] (l : List α) (x : α) : List α := if l.contains x then l else l ++ [x]

/-! ### the language-dependent part: generated classes and their guards -/

/-- an association class of `LanguageClassesFactory` -/
structure AssocClass where
  cls : String
  lf : String
  ltype : String
  lmax : Option Nat
  rf : String
  rtype : String
  rmax : Option Nat
  deriving Repr, DecidableEq, Inhabited

/-- `_generate_associations`: plain name, or `name_Left_Right` when the name occurs more than once -/
def assocClasses (L : Lang) : List AssocClass :=
  L.assocs.map fun a =>
    let dup := (L.assocs.filter (·.name = a.name)).length > 1
    { cls := if dup then a.name ++ "_" ++ a.leftAsset ++ "_" ++ a.rightAsset else a.name,
      lf := a.leftField, ltype := a.leftAsset, lmax := a.leftMax,
      rf := a.rightField, rtype := a.rightAsset, rmax := a.rightMax }

/-- the defenses of an asset class with their default (`_generate_assets`) -/
def defensesOf (L : Lang) (t : String) : List (String × String) :=
  ((L.foldSteps t).filter (fun e => e.2.type = "defense")).map
    (fun e => (e.1, if e.2.ttcName = some "Enabled" then "1.0" else "0.0"))

/-- pjs guard on a field assignment: members are of the declared type or a subtype, at most `max` of them
(`maxItems` is emitted for every declared maximum, 0 included: fix 6ddb0c4) -/
def okMember (L : Lang) (declared : String) (t : String) : Bool := L.isSub t declared
def okCount (max : Option Nat) (n : Nat) : Bool :=
  match max with
  | none => true
  | some k => n ≤ k

/-! ### operations -/

/-- the name an asset ends up with: suffix `:<id>` until it is not taken -/
def freshName (taken : List String) (sfx : String) : Nat → String → String
  | 0, n => n
  | k+1, n => if taken.contains n then freshName taken sfx k (n ++ sfx) else n

/-- `Model.add_asset(asset, asset_id, allow_duplicate_names)`; `defsOk` is the result of the pjs
range check on the defense values given to the constructor (evaluated by the harness on the real floats) -/
def addAsset (L : Lang) (s : St) (type : String) (name : Option String) (defs : List (String × String))
    (defsOk : Bool) (extras : String) (assetId : Option Int) (allowDup : Bool) : Except Err St :=
  if (L.findAsset type).isNone then .error .lookupError else
  if !defsOk || !(defs.all (fun d => (defensesOf L type).any (·.1 = d.1))) then .error .validation else
  let newId := assetId.getD s.nextId
  if s.assetIds.contains newId then .error .valueError else
  if (match name with | some n => s.assetNames.contains n && !allowDup | none => false) then .error .valueError else
  let sfx := ":" ++ toString newId
  let nm := match name with
    | none => freshName s.assetNames sfx (s.assetNames.length + 1) (type ++ sfx)
    | some n => if s.assetNames.contains n then freshName s.assetNames sfx (s.assetNames.length + 1) (n ++ sfx) else n
  let r := s.afresh
  .ok { s with
    aobj := fun x => if x = r then { id := newId, name := nm, type := type, defenses := defs, extras := extras } else s.aobj x
    afresh := r + 1
    assetIds := setAdd s.assetIds newId
    nextId := max (newId + 1) s.nextId
    assetNames := setAdd s.assetNames nm
    assets := s.assets ++ [r] }

def ttaAdd (d : List (String × List Nat)) (k : String) (l : Nat) : List (String × List Nat) :=
  if d.any (·.1 = k) then d.map (fun e => if e.1 = k then (k, e.2 ++ [l]) else e) else d ++ [(k, [l])]
def ttaDel (d : List (String × List Nat)) (k : String) (l : Nat) : List (String × List Nat) :=
  (d.map (fun e => if e.1 = k then (k, e.2.erase l) else e)).filter (fun e => !(e.1 = k && e.2.isEmpty))
def ttaGet (d : List (String × List Nat)) (k : String) : List Nat :=
  ((d.find? (·.1 = k)).map (·.2)).getD []

/-- `association_exists_between_assets(type, left, right)` -/
def assocExists (s : St) (cls : String) (a b : Nat) : Bool :=
  (ttaGet s.typeToAssoc cls).any fun l =>
    ((s.lobj l).left.map (fun x => (s.aobj x).id)).contains (s.aobj a).id &&
    ((s.lobj l).right.map (fun x => (s.aobj x).id)).contains (s.aobj b).id

/-- constructing an association object (pjs guards) and `Model.add_association` (`_validate_association`) -/
def addAssociation (L : Lang) (s : St) (cls : String) (left right : List Nat) : Except Err St :=
  match (assocClasses L).find? (·.cls = cls) with
  | none => .error .lookupError
  | some c =>
    -- pjs: type and maxItems guards when the two fields are assigned
    if !(left.all (fun a => okMember L c.ltype (s.aobj a).type) && okCount c.lmax left.length &&
         right.all (fun a => okMember L c.rtype (s.aobj a).type) && okCount c.rmax right.length) then .error .validation else
    -- every member must be part of the model; no two members of a field share a name
    if !(left.all s.assets.contains) then .error .modelAssociation else
    if !((left.map (fun a => (s.aobj a).name)).eraseDups.length == left.length) then .error .modelAssociation else
    if !(right.all s.assets.contains) then .error .modelAssociation else
    if !((right.map (fun a => (s.aobj a).name)).eraseDups.length == right.length) then .error .modelAssociation else
    if left.any (fun a => right.any (fun b => assocExists s cls a b)) then .error .duplicateAssociation else
    let l := s.lfresh
    let s0 : St := { s with lobj := fun x => if x = l then { cls := cls, lf := c.lf, rf := c.rf, left := left, right := right } else s.lobj x
                            lfresh := l + 1 }
    let s1 := (left ++ right).foldl (fun s a => updA s a (fun o => { o with assocs := o.assocs ++ [l] })) s0
    .ok { s1 with associations := s1.associations ++ [l], typeToAssoc := ttaAdd s1.typeToAssoc cls l }

/-- `Model.remove_association` -/
def removeAssociation (s : St) (l : Nat) : Except Err St :=
  if !s.associations.contains l then .error .lookupError else
  let o := s.lobj l
  let s1 := o.left.foldl (fun s a => updA s a (fun x => { x with assocs := x.assocs.erase l })) s
  let s2 := o.right.foldl (fun s a => updA s a (fun x => { x with assocs := x.assocs.erase l })) s1
  .ok { s2 with associations := s2.associations.erase l, typeToAssoc := ttaDel s2.typeToAssoc o.cls l }

/-- `Model.remove_asset_from_association` -/
def removeAssetFromAssociation (s : St) (a l : Nat) : Except Err St :=
  if !s.assets.contains a then .error .lookupError else
  if !s.associations.contains l then .error .lookupError else
  let o := s.lobj l
  if (o.left.contains a && o.left.length == 1) || (o.right.contains a && o.right.length == 1) then removeAssociation s l else
  if !(o.left.contains a || o.right.contains a) then .error .lookupError else
  let s1 := updL s l (fun o => { o with left := o.left.erase a, right := o.right.erase a })
  let o1 := s1.lobj l
  if !o1.left.contains a && !o1.right.contains a then
    .ok (updA s1 a (fun x => { x with assocs := x.assocs.filter (· ≠ l) }))
  else .ok s1

/-- `Model.remove_asset` -/
def removeAsset (s : St) (a : Nat) : Except Err St :=
  if !s.assets.contains a then .error .lookupError else do
  let s1 ← (s.aobj a).assocs.foldlM (fun s l =>
      if (s.aobj a).assocs.contains l then removeAssetFromAssociation s a l else pure s) s
  let s2 := s1.attackers.foldl (fun s t =>
      updT s t (fun o => { o with entry := match o.entry.find? (·.1 = a) with
                                           | some ep => o.entry.erase ep | none => o.entry })) s1
  pure { s2 with assets := s2.assets.erase a
                 assetIds := s2.assetIds.erase (s2.aobj a).id
                 assetNames := s2.assetNames.erase (s2.aobj a).name }

/-- `Model.add_attacker` -/
def addAttacker (s : St) (name : Option String) (attId : Option Int) : St :=
  let newId := attId.getD s.nextId
  let t := s.tfresh
  let nm := match name with | some n => if n.isEmpty then "Attacker:" ++ toString newId else n
                            | none => "Attacker:" ++ toString newId
  { s with tobj := fun x => if x = t then { id := newId, name := nm } else s.tobj x
           tfresh := t + 1, nextId := max (newId + 1) s.nextId, attackers := s.attackers ++ [t] }

/-- `Model.remove_attacker` -/
def removeAttacker (s : St) (t : Nat) : Except Err St :=
  if !s.attackers.contains t then .error .valueError else .ok { s with attackers := s.attackers.erase t }

/-- `AttackerAttachment.add_entry_point` -/
def addEntryPoint (s : St) (t a : Nat) (step : String) : St :=
  updT s t fun o =>
    match o.entry.find? (·.1 = a) with
    | some _ => { o with entry := o.entry.map (fun ep => if ep.1 = a ∧ !ep.2.contains step then (a, ep.2 ++ [step]) else ep) }
    | none => { o with entry := o.entry ++ [(a, [step])] }

/-- `AttackerAttachment.remove_entry_point` -/
def removeEntryPoint (s : St) (t a : Nat) (step : String) : St :=
  updT s t fun o =>
    match o.entry.find? (·.1 = a) with
    | some _ =>
      let e1 := o.entry.map (fun ep => if ep.1 = a then (a, ep.2.erase step) else ep)
      { o with entry := e1.filter (fun ep => !(ep.1 = a && ep.2.isEmpty)) }
    | none => o

/-! ### queries -/
def getAssetById (s : St) (i : Int) : Option Nat := s.assets.find? (fun a => (s.aobj a).id = i)
def getAssetByName (s : St) (n : String) : Option Nat := s.assets.find? (fun a => (s.aobj a).name = n)
def getAttackerById (s : St) (i : Int) : Option Nat := s.attackers.find? (fun t => (s.tobj t).id = i)

/-- `get_associated_assets_by_field_name` -/
def neighbours (s : St) (a : Nat) (f : String) : List Nat :=
  (s.aobj a).assocs.flatMap fun l =>
    let o := s.lobj l
    (if o.left.contains a && o.rf = f then o.right else []) ++
    (if o.right.contains a && o.lf = f then o.left else [])

end MalVerif.MS
