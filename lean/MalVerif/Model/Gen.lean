import MalVerif.Model.Eval
/-!
# Attack-graph generation (`AttackGraph._generate_graph`)
-/
namespace MalVerif

/-- what the first loop stores in a node -/
structure GNode where
  id : Nat
  asset : Int                  -- id of the asset
  assetName : String
  step : String
  type : String
  ttc : String
  ttcName : Option String
  tags : List String
  mitre : Option String
  defense : Option String      -- defense status (canonical float text) for defenses
  exist : Option Bool          -- existence status for exist / notExist
  reaches : List Expr
  deriving Repr, Inhabited

def GNode.fullName (n : GNode) : String := n.assetName ++ ":" ++ n.step

/-- default value of a defense: 1 when declared `[Enabled]`, 0 otherwise
(`LanguageClassesFactory._generate_assets`) -/
def defaultDefense (d : StepDecl) : String := if d.ttcName = some "Enabled" then "1.0" else "0.0"

/-- the (asset, step) pairs in the order of the first loop: model order, then
the order of the inheritance fold -/
def nodeSpecs (L : Lang) (m : Inst) : List (IAsset × String × StepDecl) :=
  m.assets.flatMap (fun a => (L.foldSteps a.type).map (fun e => (a, e.1, e.2)))

/-- the existence status of an exist / notExist step: does the first
requirement reach at least one asset? -/
def existStatus (L : Lang) (m : Inst) (a : IAsset) (d : StepDecl) : ER (Option Bool) :=
  if d.type = "exist" || d.type = "notExist" then
    match d.requires with
    | some (e :: _) => (eval L m e [a.id]).map (fun r => some (!r.1.isEmpty))
    | _ => .error .lookup
  else pure none

def mkNode (L : Lang) (m : Inst) (i : Nat) (a : IAsset) (sn : String) (d : StepDecl) : ER GNode := do
  let exist ← existStatus L m a d
  pure { id := i, asset := a.id, assetName := a.name, step := sn, type := d.type,
         ttc := d.ttc, ttcName := d.ttcName, tags := d.tags, mitre := d.mitre,
         defense := if d.type = "defense" then
            some (((a.defenses.find? (·.1 = sn)).map (·.2)).getD (defaultDefense d)) else none,
         exist := exist,
         reaches := match d.reaches with | some r => r.exprs | none => [] }

/-- first loop: one node per pair, ids = positions -/
def genNodesFrom (L : Lang) (m : Inst) : Nat → List (IAsset × String × StepDecl) → ER (List GNode)
  | _, [] => pure []
  | i, (a, sn, d) :: rest => do
    let n ← mkNode L m i a sn d
    let ns ← genNodesFrom L m (i + 1) rest
    pure (n :: ns)

def genNodes (L : Lang) (m : Inst) : ER (List GNode) := genNodesFrom L m 0 (nodeSpecs L m)

/-- `_full_name_to_node` after the first loop: later nodes overwrite earlier ones -/
def nameIndex (ns : List GNode) (k : String) : Option GNode :=
  (ns.reverse.find? (fun n => n.fullName = k))

/-- second loop: for every node, every reaches expression, every target asset: one edge -/
def genEdges (L : Lang) (m : Inst) (ns : List GNode) : ER (List (Nat × Nat)) :=
  ns.foldlM (fun acc n =>
    n.reaches.foldlM (fun acc e => do
      let r ← eval L m e [n.asset]
      r.1.foldlM (fun acc y =>
        match m.find y with
        | none => .error .noTarget
        | some ya =>
          match nameIndex ns (ya.name ++ ":" ++ r.2.getD "None") with
          | none => .error .noTarget
          | some t => pure (acc ++ [(n.id, t.id)])) acc) acc) []

def genGraph (L : Lang) (m : Inst) : ER (List GNode × List (Nat × Nat)) := do
  let ns ← genNodes L m
  let es ← genEdges L m ns
  pure (ns, es)

end MalVerif
