/-!
# Language specifications and instance models (data)

`Lang` mirrors the langspec dictionary of the toolbox (the JSON inside a
`.mar`, or what the compiler returns); `Inst` the part of a `Model` that
attack-graph generation reads.  Opaque payloads (TTC expression, meta) are
carried as canonical text produced by the harness.
-/
namespace MalVerif

inductive Expr where
  | step (name : String)              -- {'type': 'attackStep'}
  | field (name : String)
  | var (name : String)               -- {'type': 'variable'}
  | collect (l r : Expr)
  | union (l r : Expr)
  | inter (l r : Expr)
  | diff (l r : Expr)
  | trans (e : Expr)                  -- {'type': 'transitive', 'stepExpression': e}
  | sub (t : String) (e : Expr)       -- {'type': 'subType', 'subType': t, 'stepExpression': e}
  deriving Repr, DecidableEq, Inhabited

structure Reaches where
  overrides : Bool
  exprs : List Expr
  deriving Repr, DecidableEq, Inhabited

structure StepDecl where
  name : String
  type : String                       -- 'or' | 'and' | 'defense' | 'exist' | 'notExist'
  tags : List String := []
  ttc : String := "null"              -- canonical JSON text of the TTC expression
  ttcName : Option String := none     -- ttc['name'] when the TTC is a single distribution
  metaTxt : String := "{}"
  mitre : Option String := none       -- meta['mitre']
  risk : String := "null"
  requires : Option (List Expr) := none
  reaches : Option Reaches := none
  deriving Repr, DecidableEq, Inhabited

structure AssetDecl where
  name : String
  superAsset : Option String := none
  isAbstract : Bool := false
  variables : List (String × Expr) := []
  steps : List StepDecl := []
  metaTxt : String := "{}"
  category : String := ""
  deriving Repr, Inhabited

structure AssocDecl where
  name : String
  leftAsset : String
  leftField : String
  leftMin : Nat := 0
  leftMax : Option Nat := none
  rightAsset : String
  rightField : String
  rightMin : Nat := 0
  rightMax : Option Nat := none
  metaTxt : String := "{}"
  deriving Repr, DecidableEq, Inhabited

structure Lang where
  assets : List AssetDecl := []
  assocs : List AssocDecl := []
  deriving Repr, Inhabited

def Lang.findAsset (L : Lang) (n : String) : Option AssetDecl := L.assets.find? (·.name = n)

/-- an asset of an instance model, as generation sees it -/
structure IAsset where
  id : Int
  name : String
  type : String
  defenses : List (String × String) := []   -- defense name ↦ canonical text of the float value
  deriving Repr, DecidableEq, Inhabited

/-- an association object: class, the two field names, the members of each -/
structure ILink where
  cls : String
  lf : String
  rf : String
  left : List Int
  right : List Int
  deriving Repr, DecidableEq, Inhabited

structure Inst where
  assets : List IAsset := []
  links : List ILink := []
  deriving Repr, Inhabited

def Inst.find (m : Inst) (i : Int) : Option IAsset := m.assets.find? (·.id = i)
def Inst.typeOf (m : Inst) (i : Int) : Option String := (m.find i).map (·.type)

end MalVerif
