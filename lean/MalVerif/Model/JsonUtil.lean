import Lean.Data.Json
/-! Small helpers for the line protocol (driver side only; nothing here is
mentioned by a theorem). -/
namespace MalVerif
open Lean

abbrev R := Except String

def jget (j : Json) (k : String) : R Json := j.getObjVal? k
def jgetD (j : Json) (k : String) (d : Json) : Json := (j.getObjVal? k).toOption.getD d
def jstr (j : Json) : R String := j.getStr?
def jnat (j : Json) : R Nat := j.getNat?
def jint (j : Json) : R Int := j.getInt?
def jbool (j : Json) : R Bool := j.getBool?
def jarr (j : Json) : R (List Json) := do let a ← j.getArr?; pure a.toList
def jlist {α} (f : Json → R α) (j : Json) : R (List α) := do (← jarr j).mapM f
def jfield {α} (f : Json → R α) (j : Json) (k : String) : R α := do f (← jget j k)
def jopt {α} (f : Json → R α) (j : Json) : R (Option α) :=
  match j with
  | .null => pure none
  | _ => some <$> f j
def jfieldOpt {α} (f : Json → R α) (j : Json) (k : String) : R (Option α) :=
  match j.getObjVal? k with
  | .ok v => jopt f v
  | .error _ => pure none
/-- ordered key/value pairs of an object (insertion order is not kept by
`Lean.Json`; objects whose order matters are sent as arrays of pairs). -/
def jpairs (j : Json) : R (List (String × Json)) :=
  match j with
  | .obj o => pure (o.toList)
  | _ => throw "object expected"

def jsonOfList {α} (f : α → Json) (l : List α) : Json := Json.arr (l.map f).toArray
def jB (b : Bool) : Json := Json.bool b
def jS (s : String) : Json := Json.str s
def jN (n : Nat) : Json := Json.num (JsonNumber.fromNat n)
def jI (n : Int) : Json := Json.num (JsonNumber.fromInt n)
def jO (kvs : List (String × Json)) : Json := Json.mkObj kvs

end MalVerif
