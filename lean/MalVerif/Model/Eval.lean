import MalVerif.Model.Inherit
/-!
# Step-expression evaluation over an instance model
(`_process_step_expression` of `attackgraph.py`, `Model.get_associated_assets_by_field_name`)

Assets are identified by their `id` (unique inside a model).  Results are
lists with the order and the duplicates the Python produces.
-/
namespace MalVerif

inductive EvalErr
  | recursion          -- variable expansion / closure did not terminate within the fuel
  | noVariable         -- LanguageGraphException: variable not found
  | mixedVariable      -- sources disagree on a variable's definition (never for well-typed languages;
                       -- the real code would silently use the first source's definition)
  | lookup             -- LookupError: unknown asset type in a subtype filter
  | noTarget           -- AttackGraphStepExpressionError: target node missing
  deriving Repr, DecidableEq, Inhabited

abbrev ER := Except EvalErr

/-- `get_associated_assets_by_field_name(asset, field)`: over the associations
the asset takes part in, the members of the opposite field when that field
has the requested name (both directions for an asset on both sides). -/
def Inst.neighbours (m : Inst) (x : Int) (f : String) : List Int :=
  m.links.flatMap fun l =>
    (if l.left.contains x && l.rf = f then l.right else []) ++
    (if l.right.contains x && l.lf = f then l.left else [])

/-- append the elements of `cs` not yet in `acc` (sequentially); returns the
new accumulator and the appended elements -/
def addNew : List Int → List Int → List Int → List Int × List Int
  | acc, new, [] => (acc, new)
  | acc, new, a :: cs => if acc.contains a then addNew acc new cs else addNew (acc ++ [a]) (new ++ [a]) cs

/-- the `while current:` loop of the transitive case -/
def closure (f : List Int → ER (List Int)) : Nat → List Int → List Int → ER (List Int)
  | 0, _, _ => .error .recursion
  | fuel+1, frontier, acc =>
    if frontier.isEmpty then .ok acc else
    match f frontier with
    | .error e => .error e
    | .ok nxt =>
      let r := addNew acc [] nxt
      closure f fuel r.2 r.1

/-- one layer of the evaluator; `self` evaluates a variable's definition -/
def evalE (L : Lang) (m : Inst) (self : Expr → List Int → ER (List Int × Option String)) :
    Expr → List Int → ER (List Int × Option String)
  | .step n, xs => .ok (xs, some n)
  | .field f, xs => .ok (xs.flatMap (fun x => m.neighbours x f), none)
  | .var v, xs =>
    match xs with
    | [] => .ok ([], none)
    | x :: rest =>
      match (m.typeOf x).bind (fun t => L.lookupVar t v) with
      | none => .error .noVariable
      | some d =>
        if rest.all (fun y => (m.typeOf y).bind (fun t => L.lookupVar t v) = some d) then self d xs
        else .error .mixedVariable
  | .collect l r, xs => do
    let a ← evalE L m self l xs
    evalE L m self r a.1
  | .union l r, xs => do
    let a ← evalE L m self l xs
    let b ← evalE L m self r xs
    pure ((addNew a.1 [] b.1).1, none)
  | .inter l r, xs => do
    let a ← evalE L m self l xs
    let b ← evalE L m self r xs
    pure (b.1.filter (fun y => a.1.contains y), none)
  | .diff l r, xs => do
    let a ← evalE L m self l xs
    let b ← evalE L m self r xs
    pure (a.1.filter (fun y => !b.1.contains y), none)
  | .trans e, xs => do
    let r ← closure (fun zs => (evalE L m self e zs).map (·.1)) (m.assets.length + 2) xs []
    pure (r, none)
  | .sub t e, xs => do
    -- the inner expression is evaluated once per current target (on all targets)
    let rs ← xs.mapM (fun _ => evalE L m self e xs)
    let all := rs.flatMap (·.1)
    if all.all (fun y => ((m.typeOf y).bind L.findAsset).isSome) && ((L.findAsset t).isSome || all.isEmpty) then
      pure (all.filter (fun y => match m.typeOf y with | some ty => L.isSub ty t | none => false), none)
    else .error .lookup

/-- the evaluator with `f` nested variable expansions allowed -/
def evalF (L : Lang) (m : Inst) : Nat → Expr → List Int → ER (List Int × Option String)
  | 0 => fun _ _ => .error .recursion
  | f+1 => evalE L m (evalF L m f)

/-- fuel used by the driver: one more than the number of variable declarations -/
def Lang.varFuel (L : Lang) : Nat := (L.assets.map (·.variables.length)).sum + 1

def eval (L : Lang) (m : Inst) (e : Expr) (xs : List Int) : ER (List Int × Option String) :=
  evalF L m L.varFuel e xs

end MalVerif
