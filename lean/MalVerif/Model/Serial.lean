import MalVerif.Model.MState
/-!
# Saving and loading an instance model (`Model._to_dict`, `Model._from_dict`) — C07

The file content is modelled as a *typed document* (`ModelDoc`): the shape
that `_to_dict` writes and `_from_dict` reads; sub-documents the code does
not look into (extras) are canonical JSON text.  Dictionary keys are `Key`s:
integers as written by `_to_dict`, or strings as they come back from a JSON
file (`jsonRT`); YAML keeps integer keys (`yamlRT = id`).  That the real
json / PyYAML layers behave like `jsonRT` / `yamlRT` is an assumption that
the correspondence check exercises through real files.
-/
namespace MalVerif.Ser
open MalVerif.MS

inductive Key | i (n : Int) | s (t : String)
  deriving Repr, DecidableEq, Inhabited

/-- `int(key)`: Python's conversion of a dictionary key (decimal text with optional sign) -/
def Key.toInt? : Key → Option Int
  | .i n => some n
  | .s t => t.toInt?
/-- `f"{key}"` -/
def Key.text : Key → String
  | .i n => toString n
  | .s t => t

inductive AssetEntry
  | full (name : String) (type : String) (defenses : List (String × String)) (extras : Option String)
  | shorthand (type : String)                -- `"7": "Application"`
  deriving Repr, DecidableEq, Inhabited

structure AssocEntry where
  cls : String
  lf : String
  left : List Key
  rf : String
  right : List Key
  extras : Option String := none
  deriving Repr, DecidableEq, Inhabited

structure AttackerEntry where
  name : String
  entry : List (Key × List String)
  deriving Repr, DecidableEq, Inhabited

structure ModelDoc where
  assets : List (Key × AssetEntry) := []
  associations : List AssocEntry := []
  attackers : List (Key × AttackerEntry) := []
  deriving Repr, DecidableEq, Inhabited

/-- Python `d[k] = v` on an insertion-ordered dict -/
def dictPut {β} (d : List (Key × β)) (k : Key) (v : β) : List (Key × β) :=
  if d.any (·.1 = k) then d.map (fun e => if e.1 = k then (k, v) else e) else d ++ [(k, v)]

/-- `get_asset_defenses(asset)`: explicitly set values that differ from the class default -/
def nonDefault (L : Lang) (o : AssetObj) : List (String × String) :=
  let dflt := defensesOf L o.type
  o.defenses.filter (fun d => !(dflt.any (fun e => e.1 = d.1 && e.2 = d.2)))

/-- `Model._to_dict()` -/
def toDoc (L : Lang) (s : St) : ModelDoc where
  assets := s.assets.foldl (fun d a =>
    let o := s.aobj a
    dictPut d (.i o.id) (.full o.name o.type (nonDefault L o) (if o.extras = "{}" then none else some o.extras))) []
  associations := s.associations.map (fun l =>
    let o := s.lobj l
    { cls := o.cls, lf := o.lf, left := o.left.map (fun a => .i (s.aobj a).id),
      rf := o.rf, right := o.right.map (fun a => .i (s.aobj a).id),
      extras := if o.extras = "{}" then none else some o.extras })
  attackers := s.attackers.foldl (fun d t =>
    let o := s.tobj t
    dictPut d (.i o.id) { name := o.name, entry := o.entry.foldl (fun e ep => dictPut e (.i (s.aobj ep.1).id) ep.2) [] }) []

/-- what a JSON file gives back: every dictionary key is a string (list elements keep their type) -/
def jsonRT (d : ModelDoc) : ModelDoc where
  assets := d.assets.map (fun e => (.s e.1.text, e.2))
  associations := d.associations
  attackers := d.attackers.map (fun e => (.s e.1.text, { e.2 with entry := e.2.entry.map (fun p => (.s p.1.text, p.2)) }))
def yamlRT (d : ModelDoc) : ModelDoc := d

/-- `Model._from_dict(doc, lang_classes_factory)`; `defsOk` = the pjs range check on the defense values
of the entry (the harness evaluates it on the real floats) -/
def loadAsset (L : Lang) (defsOk : Key → Bool) (s : St) (e : Key × AssetEntry) : Except Err St :=
  match e.1.toInt? with
  | none => .error .valueError
  | some id =>
    match e.2 with
    | .full nm ty defs ex => addAsset L s ty (some nm) defs (defsOk e.1) (ex.getD "{}") (some id) true
    | .shorthand ty => addAsset L s ty (some (ty ++ ":" ++ e.1.text)) [] true "{}" (some id) true

def resolveIds (s : St) (ks : List Key) : Option (List Nat) :=
  ks.mapM (fun k => k.toInt?.bind (getAssetById s))

def loadAssoc (L : Lang) (s : St) (e : AssocEntry) : Except Err St :=
  match resolveIds s e.left, resolveIds s e.right with
  | some l, some r =>
    match (assocClasses L).find? (·.cls = e.cls) with
    | none => .error .lookupError
    | some c =>
      if c.lf = e.lf ∧ c.rf = e.rf then
        match addAssociation L s e.cls l r with
        | .error er => .error er
        | .ok s' => .ok (match e.extras with
            | some ex => updL s' s.lfresh (fun o => { o with extras := ex })
            | none => s')
      else .error .validation
  | _, _ => .error .validation

/-! ### which key of an association entry is its type

`association_to_dict` writes `{<type>: {...fields...}, 'extras': {...}}` (the `extras` key only when there are
extras).  A JSON file keeps that order; PyYAML writes mappings sorted by key, so for a type name that sorts after
`"extras"` the type is *not* the first key.  `_from_dict` takes the key that is not `extras`. -/

/-- the keys of one association entry in the order `_to_dict` inserts them -/
def assocKeys (e : AssocEntry) : List String := e.cls :: (if e.extras.isSome then ["extras"] else [])
/-- `_from_dict`: `[key for key in assoc_entry.keys() if key != 'extras'][0]` -/
def typeKey (ks : List String) : Option String := (ks.filter (fun k => k != "extras")).head?
/-- the code before the repair ff5c204: `list(assoc_entry.keys())[0]` -/
def typeKeyFirst (ks : List String) : Option String := ks.head?

/-- loading one association entry whose keys come back from the file layer in the order `order` gives -/
def loadAssocKeyed (L : Lang) (order : List String → List String) (s : St) (e : AssocEntry) : Except Err St :=
  match typeKey (order (assocKeys e)) with
  | some c => loadAssoc L s { e with cls := c }
  | none => .error .lookupError

def loadAttacker (s : St) (e : Key × AttackerEntry) : Except Err St :=
  match e.1.toInt? with
  | none => .error .valueError
  | some id =>
    match e.2.entry.mapM (fun p => (p.1.toInt?.bind (getAssetById s)).map (fun a => (a, p.2))) with
    | none => .error .lookupError      -- an entry point of an asset that is not in the file
    | some eps =>
      let s1 := addAttacker s (some e.2.name) (some id)
      .ok (updT s1 s.tfresh (fun o => { o with entry := eps }))

def fromDoc (L : Lang) (defsOk : Key → Bool) (d : ModelDoc) : Except Err St := do
  let s1 ← d.assets.foldlM (loadAsset L defsOk) ({} : St)
  let s2 ← d.associations.foldlM (loadAssoc L) s1
  d.attackers.foldlM loadAttacker s2

end MalVerif.Ser
