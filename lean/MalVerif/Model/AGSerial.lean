import MalVerif.Model.AGS
import MalVerif.Model.Serial
/-!
# Saving / loading an attack graph (`AttackGraph._to_dict`, `_from_dict`) — C10
and deep copy (`__deepcopy__` of `AttackGraph`, `AttackGraphNode`, `Attacker`) — C14

The file is a typed document (`AGDoc`); dictionary keys that are ids are
`Ser.Key`s (integers as written, strings after a JSON round trip).
-/
namespace MalVerif.AGS
open MalVerif.Ser (Key)
open MalVerif.AGraph

structure NodeEntry where
  id : Int
  type : NType
  name : String
  ttc : String
  children : List Key          -- keys of the `children` dict (child ids; duplicates collapse)
  parents : List Key
  compBy : List String         -- written, never read back
  asset : Option String
  defense : Option String
  exist : Option Bool
  viable : Bool
  necessary : Bool
  mitre : Option String
  tags : List String
  extras : String
  deriving Repr, Inhabited

structure AttEntry where
  id : Int
  name : String
  entry : List Key
  reached : List Key
  deriving Repr, Inhabited

structure AGDoc where
  steps : List (String × NodeEntry) := []      -- keyed by full name
  attackers : List (String × AttEntry) := []   -- keyed by attacker name (suffixed when taken)
  deriving Repr, Inhabited

def sdictPut {β} (d : List (String × β)) (k : String) (v : β) : List (String × β) :=
  if d.any (·.1 = k) then d.map (fun e => if e.1 = k then (k, v) else e) else d ++ [(k, v)]

/-- keys of `{x.id: … for x in refs}`: first occurrence order, no duplicates -/
def idKeys (ids : List Int) : List Key := (ids.eraseDups).map Key.i

/-- the key an attacker is written under: its name, suffixed with `:<id>` while taken -/
def attKey (taken : List String) (sfx : String) : Nat → String → String
  | 0, n => n
  | k+1, n => if taken.contains n then attKey taken sfx k (n ++ sfx) else n

/-- `AttackGraph._to_dict()` -/
def toDoc (s : St) : AGDoc where
  steps := s.nodes.foldl (fun d r =>
    let o := s.nobj r
    sdictPut d (fullName o)
      { id := o.id, type := o.type, name := o.name, ttc := o.ttc,
        children := idKeys (o.children.map (fun c => (s.nobj c).id)),
        parents := idKeys (o.parents.map (fun c => (s.nobj c).id)),
        compBy := o.compBy.map (fun a => (s.aobj a).name),
        asset := o.asset, defense := o.defense, exist := o.exist, viable := o.viable, necessary := o.necessary,
        mitre := o.mitre, tags := o.tags, extras := o.extras }) []
  attackers := s.attackers.foldl (fun d a =>
    let o := s.aobj a
    let k := attKey (d.map (·.1)) (":" ++ toString o.id) (d.length + 1) o.name
    d ++ [(k, { id := o.id, name := o.name,
                entry := idKeys (o.entry.map (fun n => (s.nobj n).id)),
                reached := idKeys (o.reached.map (fun n => (s.nobj n).id)) })]) []

/-- a JSON file turns the id keys of the inner dictionaries into strings -/
def jsonRT (d : AGDoc) : AGDoc where
  steps := d.steps.map (fun e => (e.1, { e.2 with children := e.2.children.map (fun k => .s k.text),
                                                   parents := e.2.parents.map (fun k => .s k.text) }))
  attackers := d.attackers.map (fun e => (e.1, { e.2 with entry := e.2.entry.map (fun k => .s k.text),
                                                          reached := e.2.reached.map (fun k => .s k.text) }))
/-- insertion sort (stable) -/
def insertBy {α} (le : α → α → Bool) (x : α) : List α → List α
  | [] => [x]
  | y :: ys => if le x y then x :: y :: ys else y :: insertBy le x ys
def isort {α} (le : α → α → Bool) (l : List α) : List α := l.foldr (insertBy le) []

def keyLe (a b : Key) : Bool :=
  match a, b with
  | .i x, .i y => x ≤ y
  | .s x, .s y => x ≤ y
  | .i _, .s _ => true
  | .s _, .i _ => false

/-- PyYAML writes every mapping with its keys sorted (`sort_keys=True` is the default of `yaml.dump`):
steps by full name, attackers by key, inner id dictionaries by id -/
def yamlRT (d : AGDoc) : AGDoc where
  steps := (isort (fun a b => a.1 ≤ b.1) d.steps).map (fun e =>
    (e.1, { e.2 with children := isort keyLe e.2.children, parents := isort keyLe e.2.parents }))
  attackers := (isort (fun a b => a.1 ≤ b.1) d.attackers).map (fun e =>
    (e.1, { e.2 with entry := isort keyLe e.2.entry, reached := isort keyLe e.2.reached }))

/-- `AttackGraph._from_dict(doc, model)`; `assetKnown` = the model (if supplied) has an asset of that name;
`withModel = false` ⇒ nodes are loaded without asset -/
def fromDoc (withModel : Bool) (assetKnown : String → Bool) (d : AGDoc) : Except Err St := do
  -- create the nodes
  let s1 ← d.steps.foldlM (fun s e =>
    let n := e.2
    if withModel && (match n.asset with | some a => !assetKnown a | none => false) then .error .lookupError else
    addNode s { name := n.name, type := n.type, ttc := n.ttc,
                asset := if withModel then n.asset else none,
                defense := n.defense, exist := n.exist, viable := n.viable, necessary := n.necessary,
                mitre := n.mitre, tags := n.tags, extras := n.extras,
                defOne := n.defense = some "1.0", suppress := n.tags.contains "suppress" } (some n.id)) ({} : St)
  -- re-establish the links
  let s2 ← d.steps.foldlM (fun s e => do
    let n := e.2
    match getNodeById s n.id with
    | none => .error .lookupError
    | some r =>
      let s' ← n.children.foldlM (fun s k =>
        match k.toInt?.bind (getNodeById s) with
        | none => .error .lookupError
        | some c => .ok (updN s r (fun o => { o with children := o.children ++ [c] }))) s
      n.parents.foldlM (fun s k =>
        match k.toInt?.bind (getNodeById s) with
        | none => .error .lookupError
        | some p => .ok (updN s r (fun o => { o with parents := o.parents ++ [p] }))) s') s1
  -- the attackers
  d.attackers.foldlM (fun s e =>
    let a := e.2
    match a.entry.mapM (·.toInt?), a.reached.mapM (·.toInt?) with
    | some en, some re => addAttacker s a.name (some a.id) en re
    | _, _ => .error .valueError) s2

/-! ### deep copy -/

/-- `copy.deepcopy(graph)`: the i-th node is copied to the fresh reference `nfresh + i`, the j-th attacker to
`afresh + j`; every reference inside the copy is redirected.  The result is the copy; the original graph is the
argument, to be read through the returned (larger) stores. -/
def deepcopy (s : St) : St :=
  let nmap (r : Nat) : Nat := match s.nodes.idxOf? r with | some i => s.nfresh + i | none => r
  let amap (a : Nat) : Nat := match s.attackers.idxOf? a with | some j => s.afresh + j | none => a
  let nobj' (x : Nat) : NodeObj :=
    if s.nfresh ≤ x ∧ x < s.nfresh + s.nodes.length then
      let o := s.nobj (s.nodes.getD (x - s.nfresh) 0)
      { o with children := o.children.map nmap, parents := o.parents.map nmap, compBy := o.compBy.map amap }
    else s.nobj x
  let aobj' (x : Nat) : AttObj :=
    if s.afresh ≤ x ∧ x < s.afresh + s.attackers.length then
      let o := s.aobj (s.attackers.getD (x - s.afresh) 0)
      { o with entry := o.entry.map nmap, reached := o.reached.map nmap }
    else s.aobj x
  { nobj := nobj', nfresh := s.nfresh + s.nodes.length
    aobj := aobj', afresh := s.afresh + s.attackers.length
    nodes := s.nodes.map nmap, attackers := s.attackers.map amap
    idIdx := s.idIdx.map (fun e => (e.1, nmap e.2))
    nameIdx := s.nameIdx.map (fun e => (e.1, nmap e.2))
    attIdx := s.attIdx.map (fun e => (e.1, amap e.2))
    nextNode := s.nextNode, nextAtt := s.nextAtt }

/-- the original graph read through the stores of a later state `t` (after the copy was made and changed) -/
def viewIn (s t : St) : St :=
  { t with nodes := s.nodes, attackers := s.attackers, idIdx := s.idIdx, nameIdx := s.nameIdx, attIdx := s.attIdx,
           nextNode := s.nextNode, nextAtt := s.nextAtt }

end MalVerif.AGS
