import MalVerif.Model.Lang
/-!
# Step inheritance (`LanguageGraph._get_attacks_for_asset_type`), variable and
subtype lookups

The Python recursion follows `superAsset`; a cyclic `extends` would not
terminate there.  Here the walk takes fuel (`L.assets.length + 1` is enough
for every acyclic language and is what the driver passes).
-/
namespace MalVerif

/-- the chain `[T, super T, super (super T), …]` -/
def Lang.chain (L : Lang) : Nat → String → List AssetDecl
  | 0, _ => []
  | f+1, t => match L.findAsset t with
    | none => []
    | some a => a :: (match a.superAsset with | some s => L.chain f s | none => [])

/-- `is_subasset_of`: reflexive-transitive `extends` -/
def Lang.isSub (L : Lang) (t u : String) : Bool :=
  (L.chain (L.assets.length + 1) t).any (·.name = u)

/-- dict update keeping the insertion position -/
def dictSet (d : List (String × StepDecl)) (k : String) (v : StepDecl) : List (String × StepDecl) :=
  if d.any (·.1 = k) then d.map (fun e => if e.1 = k then (k, v) else e) else d ++ [(k, v)]
def dictGet (d : List (String × StepDecl)) (k : String) : Option StepDecl :=
  (d.find? (·.1 = k)).map (·.2)

/-- one `for step in asset['attackSteps']` iteration -/
def mergeStep (acc : List (String × StepDecl)) (s : StepDecl) : List (String × StepDecl) :=
  match dictGet acc s.name with
  | none => dictSet acc s.name s                       -- first definition: deepcopy(step)
  | some inh =>
    match s.reaches with
    | none => acc                                       -- no reaches clause: inherited one untouched
    | some r =>
      if r.overrides then dictSet acc s.name s          -- '->': replaces the inherited definition
      else                                              -- '+>': keeps it, appends the expressions
        let base := match inh.reaches with | some ir => ir.exprs | none => []
        dictSet acc s.name { inh with reaches := some { overrides := (match inh.reaches with
                                                          | some ir => ir.overrides | none => false),
                                                        exprs := base ++ r.exprs } }

/-- `_get_attacks_for_asset_type(T)`: ancestors folded from the root down -/
def Lang.foldSteps (L : Lang) (t : String) : List (String × StepDecl) :=
  (L.chain (L.assets.length + 1) t).reverse.foldl (fun acc a => a.steps.foldl mergeStep acc) []

/-- `_get_variable_for_asset_type_by_name`: first definition on the type or an ancestor -/
def Lang.lookupVar (L : Lang) (t : String) (v : String) : Option Expr :=
  (L.chain (L.assets.length + 1) t).findSome? (fun a => (a.variables.find? (·.1 = v)).map (·.2))

end MalVerif
