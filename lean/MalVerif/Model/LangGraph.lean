import MalVerif.Model.Inherit
/-!
# The language graph (`LanguageGraph._generate_graph`, `process_step_expression`,
`get_association_by_fields_and_assets`) — C15
-/
namespace MalVerif.LG

inductive Err
  | superAssetNotFound      -- LanguageGraphSuperAssetNotFoundError
  | association             -- LanguageGraphAssociationError (an end of an association is not an asset)
  | stepExpression          -- LanguageGraphStepExpressionError (no target asset / no target step)
  | language                -- LanguageGraphException (unknown variable / subtype)
  | lookup                  -- LookupError
  deriving Repr, DecidableEq, Inhabited

/-- ancestors of `t`, `t` first (`get_all_superassets`) -/
def supers (L : Lang) (t : String) : List String := (L.chain (L.assets.length + 1) t).map (·.name)

/-- `_get_associations_for_asset_type(t)`: the ancestors' declarations first (root down), then the type's own -/
def declaredFor (L : Lang) (t : String) : List AssocDecl :=
  (supers L t).reverse.flatMap (fun u => L.assocs.filter (fun a => a.leftAsset = u || a.rightAsset = u))

/-- the association nodes, in creation order: assets in specification order, for each the declarations of
`declaredFor`; a declaration whose (name, left asset, right asset) already has a node is skipped -/
def assocNodes (L : Lang) : Except Err (List AssocDecl) :=
  L.assets.foldlM (fun acc a =>
    (declaredFor L a.name).foldlM (fun acc d =>
      if (L.findAsset d.leftAsset).isNone || (L.findAsset d.rightAsset).isNone then .error .association
      else if acc.any (fun x => x.name = d.name && x.leftAsset = d.leftAsset && x.rightAsset = d.rightAsset) then .ok acc
      else .ok (acc ++ [d])) acc) []

/-- every super asset that is named exists -/
def supersOk (L : Lang) : Bool :=
  L.assets.all (fun a => match a.superAsset with | some s => (L.findAsset s).isSome | none => true)

/-- `asset.associations`: the nodes in which the asset or an ancestor takes part, in creation order -/
def assocsOf (L : Lang) (nodes : List AssocDecl) (t : String) : List AssocDecl :=
  nodes.filter (fun a => L.isSub t a.leftAsset || L.isSub t a.rightAsset)

/-- `get_association_by_fields_and_assets(first_field, second_field, first_asset, second_asset)` -/
def lookupAssoc (L : Lang) (nodes : List AssocDecl) (f1 f2 t1 t2 : String) : Except Err (Option AssocDecl) :=
  if (L.findAsset t1).isNone || (L.findAsset t2).isNone then .error .lookup else
  .ok (nodes.find? (fun a =>
    (a.leftField = f1 && a.rightField = f2 && L.isSub t1 a.leftAsset && L.isSub t2 a.rightAsset) ||
    (a.leftField = f2 && a.rightField = f1 && L.isSub t2 a.leftAsset && L.isSub t1 a.rightAsset)))

/-- the field case of `process_step_expression`: first association of the target in which the field name
matches and the target is on the opposite side (the right-field test overrides the left one) -/
def fieldTarget (L : Lang) (nodes : List AssocDecl) (t f : String) : Option String :=
  (assocsOf L nodes t).findSome? (fun a =>
    let viaLeft := if a.leftField = f && L.isSub t a.rightAsset then some a.leftAsset else none
    if a.rightField = f && L.isSub t a.leftAsset then some a.rightAsset else viaLeft)

/-- closest common super asset (the type of a union) -/
def lca (L : Lang) (t u : String) : Option String :=
  (supers L t).find? (fun x => (supers L u).contains x)

/-- one layer of `process_step_expression`: static target type and attack-step name; `self` expands variables.
`none` = `(None, None, None)` (logged error), `.error` = raised -/
def typeE (L : Lang) (nodes : List AssocDecl) (self : Expr → String → Except Err (Option (String × Option String))) :
    Expr → String → Except Err (Option (String × Option String))
  | .step n, t => .ok (some (t, some n))
  | .field f, t => .ok ((fieldTarget L nodes t f).map (fun u => (u, none)))
  | .var v, t =>
    match L.lookupVar t v with
    | none => .error .language
    | some d => self d t
  | .collect l r, t => do
    match ← typeE L nodes self l t with
    | none => .error .stepExpression          -- the real code fails on `None.associations`; reported as ill-formed
    | some (u, _) => typeE L nodes self r u
  | .union l r, t => do
    match ← typeE L nodes self l t, ← typeE L nodes self r t with
    | some (a, _), some (b, _) => .ok ((lca L a b).map (fun c => (c, none)))
    | _, _ => .error .stepExpression
  | .inter l r, t => do
    match ← typeE L nodes self l t, ← typeE L nodes self r t with
    | some (a, _), some (b, _) => .ok (if (lca L a b).isSome then some (a, none) else none)
    | _, _ => .error .stepExpression
  | .diff l r, t => do
    match ← typeE L nodes self l t, ← typeE L nodes self r t with
    | some (a, _), some (b, _) => .ok (if (lca L a b).isSome then some (a, none) else none)
    | _, _ => .error .stepExpression
  | .trans e, t => typeE L nodes self e t
  | .sub s e, t => do
    match ← typeE L nodes self e t with
    | none => .error .stepExpression
    | some (u, st) =>
      if (L.findAsset s).isNone then .error .language
      else .ok (if L.isSub s u then some (s, st) else none)

def typeF (L : Lang) (nodes : List AssocDecl) : Nat → Expr → String → Except Err (Option (String × Option String))
  | 0 => fun _ _ => .error .language
  | f+1 => typeE L nodes (typeF L nodes f)

/-- a step-to-step link of the language graph -/
structure Link where
  srcAsset : String
  srcStep : String
  dstAsset : String
  dstStep : String
  deriving Repr, DecidableEq, Inhabited

/-- the last phase of `_generate_graph`: one link per reaches expression of every (asset, step) -/
def links (L : Lang) (nodes : List AssocDecl) (fuel : Nat) : Except Err (List Link) :=
  L.assets.foldlM (fun acc a =>
    (L.foldSteps a.name).foldlM (fun acc st =>
      (match st.2.reaches with | some r => r.exprs | none => []).foldlM (fun acc e => do
        match ← typeF L nodes fuel e a.name with
        | some (u, some n) =>
          if (L.foldSteps u).any (·.1 = n) then .ok (acc ++ [({ srcAsset := a.name, srcStep := st.1, dstAsset := u, dstStep := n } : Link)])
          else .error .stepExpression
        | _ => .error .stepExpression) acc) acc) []

structure Graph where
  assocs : List AssocDecl
  links : List Link
  deriving Repr, Inhabited

def generate (L : Lang) : Except Err Graph := do
  if !supersOk L then .error .superAssetNotFound
  if !(L.assocs.all (fun d => (L.findAsset d.leftAsset).isSome && (L.findAsset d.rightAsset).isSome)) then .error .association
  let nodes ← assocNodes L
  let ls ← links L nodes ((L.assets.map (·.variables.length)).sum + 2)
  pure { assocs := nodes, links := ls }

end MalVerif.LG
