import MalVerif.Model.Compiler.Parser
/-!
# `mal.g4` as derivation relations, with the value `malVisitor` builds

One relation per grammar rule.  `D… pre rest v`: the token sequence `pre` is derived by the rule and the visitor
builds `v` from it; `rest` is the right context (the tokens after `pre`), which only the classification of names
inside a reaches clause looks at (`_resolve_part_ID_type`: attack step iff no DOT before the next COMMA / clause
end).  Repetitions (`x*`) are lists; the visitor's accumulations (`dict[k] = v`, `|=` of risk flags) are folds over
them.
-/
namespace MalVerif.Mal
open MalVerif (Expr)

/-! ### step expressions -/

/-- `type*`, applied to the expression so far -/
inductive DTypes : List Tok → Expr → Expr → Prop
  | nil : DTypes [] e e
  | cons : DTypes pre (.sub t e) e' → DTypes (.lsquare :: .id t :: .rsquare :: pre) e e'

/-- `STAR? type*` -/
inductive DSuffix : List Tok → Expr → Expr → Prop
  | star : DTypes pre (.trans e) e' → DSuffix (.star :: pre) e e'
  | plain : DTypes pre e e' → DSuffix pre e e'

/-- a name inside a reaches clause is the attack step iff no DOT follows in the clause -/
def classify (reach : Bool) (follow : List Tok) (n : String) : Expr :=
  if reach && !dotAhead follow then .step n else .field n

/-- `setop: UNION | INTERSECT | MINUS` -/
inductive DSetOp : Tok → (Expr → Expr → Expr) → Prop
  | union : DSetOp .union .union
  | inter : DSetOp .intersect .inter
  | diff : DSetOp .minus .diff

mutual
/-- `part: (LPAREN expr RPAREN | varsubst LPAREN RPAREN | ID) STAR? type*` -/
inductive DPart (reach : Bool) : List Tok → List Tok → Expr → Prop
  | paren : DExpr reach pre (.rparen :: (suf ++ rest)) e0 → DSuffix suf e0 e →
      DPart reach (.lparen :: (pre ++ .rparen :: suf)) rest e
  | var : DSuffix suf (.var n) e → DPart reach (.id n :: .lparen :: .rparen :: suf) rest e
  | name : DSuffix suf (classify reach (suf ++ rest) n) e → DPart reach (.id n :: suf) rest e
/-- `parts: part (DOT part)*`, left-nested -/
inductive DParts (reach : Bool) : List Tok → List Tok → Expr → Prop
  | one : DPart reach pre rest e → DParts reach pre rest e
  | dot : DParts reach pre1 (.dot :: (pre2 ++ rest)) l → DPart reach pre2 rest r →
      DParts reach (pre1 ++ .dot :: pre2) rest (.collect l r)
/-- `expr: parts (setop parts)*`, left-nested, one precedence level -/
inductive DExpr (reach : Bool) : List Tok → List Tok → Expr → Prop
  | one : DParts reach pre rest e → DExpr reach pre rest e
  | op : DExpr reach pre1 (t :: (pre2 ++ rest)) l → DSetOp t o → DParts reach pre2 rest r →
      DExpr reach (pre1 ++ t :: pre2) rest (o l r)
end

/-- `expr (COMMA expr)*` -/
inductive DExprList (reach : Bool) : List Tok → List Tok → List Expr → Prop
  | one : DExpr reach pre rest e → DExprList reach pre rest [e]
  | cons : DExpr reach pre1 (.comma :: (pre2 ++ rest)) e → DExprList reach pre2 rest es →
      DExprList reach (pre1 ++ .comma :: pre2) rest (e :: es)

/-! ### TTC expressions -/

/-- `number (COMMA number)* RPAREN` -/
inductive DArgs : List Tok → List String → Prop
  | last : numTok t = some n → DArgs [t, .rparen] [n]
  | cons : numTok t = some n → DArgs pre ns → DArgs (t :: .comma :: pre) (n :: ns)

inductive DMulOp : Tok → String → Prop
  | mul : DMulOp .star "multiplication"
  | div : DMulOp .divide "division"
inductive DAddOp : Tok → String → Prop
  | add : DAddOp .plus "addition"
  | sub : DAddOp .minus "subtraction"

mutual
/-- `ttcatom: ttcdist | LPAREN ttcexpr RPAREN | number`; `ttcdist: ID (LPAREN (number (COMMA number)*)? RPAREN)?` -/
inductive DTtcAtom : List Tok → TTC → Prop
  | dist0 : DTtcAtom [.id n] (.func n [])
  | distEmpty : DTtcAtom [.id n, .lparen, .rparen] (.func n [])
  | dist : DArgs pre ns → DTtcAtom (.id n :: .lparen :: pre) (.func n ns)
  | paren : DTtcExpr pre t → DTtcAtom (.lparen :: (pre ++ [.rparen])) t
  | num : numTok tk = some v → DTtcAtom [tk] (.num v)
/-- `ttcfact: ttcatom (POWER ttcatom)?` -/
inductive DTtcFact : List Tok → TTC → Prop
  | atom : DTtcAtom pre t → DTtcFact pre t
  | pow : DTtcAtom pre1 a → DTtcAtom pre2 b → DTtcFact (pre1 ++ .power :: pre2) (.bin "exponentiation" a b)
/-- `ttcterm: ttcfact ((STAR | DIVIDE) ttcfact)*` -/
inductive DTtcTerm : List Tok → TTC → Prop
  | one : DTtcFact pre t → DTtcTerm pre t
  | op : DTtcTerm pre1 l → DMulOp tk o → DTtcFact pre2 r → DTtcTerm (pre1 ++ tk :: pre2) (.bin o l r)
/-- `ttcexpr: ttcterm ((PLUS | MINUS) ttcterm)*` -/
inductive DTtcExpr : List Tok → TTC → Prop
  | one : DTtcTerm pre t → DTtcExpr pre t
  | op : DTtcExpr pre1 l → DAddOp tk o → DTtcTerm pre2 r → DTtcExpr (pre1 ++ tk :: pre2) (.bin o l r)
end

/-! ### metas, tags, risk -/

/-- `meta*`: the `(key, string)` pairs in order -/
inductive DMetas : List Tok → List (String × String) → Prop
  | nil : DMetas [] []
  | cons : DMetas pre kvs → DMetas (.id k :: .kwInfo :: .colon :: .str v :: pre) ((k, v) :: kvs)

/-- the dictionary the visitor builds: `meta[k] = v.strip('"')` in order -/
def metaOf (m0 : Meta) (kvs : List (String × String)) : Meta :=
  kvs.foldl (fun d kv => metaPut d kv.1 (stripQuotes kv.2)) m0

/-- `tag*` -/
inductive DTags : List Tok → List String → Prop
  | nil : DTags [] []
  | cons : DTags pre ts → DTags (.at :: .id t :: pre) (t :: ts)

/-- `cia (COMMA cia)* RCURLY` -/
inductive DCias : List Tok → List (Bool × Bool × Bool) → Prop
  | last : ciaTok t = some r → DCias [t, .rcurly] [r]
  | cons : ciaTok t = some r → DCias pre rs → DCias (t :: .comma :: pre) (r :: rs)

/-- `cias?` -/
inductive DRisk : List Tok → Option (Bool × Bool × Bool) → Prop
  | none : DRisk [] none
  | some : DCias pre rs → DRisk (.lcurly :: pre) (some (rs.foldl riskOr (false, false, false)))

/-- `ttc?` -/
inductive DTtcOpt : List Tok → Option TTC → Prop
  | none : DTtcOpt [] none
  | some : DTtcExpr pre t → DTtcOpt (.lsquare :: (pre ++ [.rsquare])) (some t)

/-- `precondition?` -/
inductive DReq : List Tok → List Tok → Option (List Expr) → Prop
  | none : DReq [] rest none
  | some : DExprList false pre rest l → DReq (.requires :: pre) rest (some l)

/-- `reaches?` -/
inductive DRch : List Tok → List Tok → Option (Bool × List Expr) → Prop
  | none : DRch [] rest none
  | leadsto : DExprList true pre rest l → DRch (.leadsto :: pre) rest (some (true, l))
  | inherits : DExprList true pre rest l → DRch (.inherits :: pre) rest (some (false, l))

/-! ### steps, assets, categories -/

/-- `step: steptype ID tag* cias? ttc? meta* precondition? reaches?` -/
inductive DStep : List Tok → List Tok → CStep → Prop
  | mk : stepType t = some ty → DTags pTags tags → DRisk pRisk risk → DTtcOpt pTtc tt → DMetas pMeta kvs →
      DReq pReq (pRch ++ rest) req → DRch pRch rest rch →
      DStep (t :: .id name :: (pTags ++ (pRisk ++ (pTtc ++ (pMeta ++ (pReq ++ pRch)))))) rest
        { name := name, metaD := metaOf [] kvs, type := ty, tags := tags, risk := risk, ttc := tt,
          requires := req, reaches := rch }

/-- `(step | variable)* RCURLY`; `variable: LET ID ASSIGN expr` -/
inductive DAssetBody : List Tok → List Tok → List (String × Expr) → List CStep → Prop
  | done : DAssetBody [.rcurly] rest [] []
  | var : DExpr false pe (pm ++ rest) e → DAssetBody pm rest vs ss →
      DAssetBody (.kwLet :: .id v :: .assign :: (pe ++ pm)) rest ((v, e) :: vs) ss
  | step : DStep ps (pm ++ rest) s → DAssetBody pm rest vs ss → DAssetBody (ps ++ pm) rest vs (s :: ss)

/-- `asset: ABSTRACT? ASSET ID (EXTENDS ID)? meta* LCURLY (step|variable)* RCURLY` -/
inductive DAsset (cat : String) : List Tok → List Tok → CAsset → Prop
  | mk : (pAbs = [.kwAbstract] ∧ abs = true ∨ pAbs = [] ∧ abs = false) →
      (pSup = [.kwExtends, .id sn] ∧ sup = some sn ∨ pSup = [] ∧ sup = none) →
      DMetas pMeta kvs → DAssetBody pBody rest vs ss →
      DAsset cat (pAbs ++ .kwAsset :: .id name :: (pSup ++ (pMeta ++ .lcurly :: pBody))) rest
        { name := name, metaD := metaOf [] kvs, category := cat, isAbstract := abs, superAsset := sup,
          variables := vs, steps := ss }

/-- `asset* RCURLY` -/
inductive DAssets (cat : String) : List Tok → List Tok → List CAsset → Prop
  | done : DAssets cat [.rcurly] rest []
  | cons : DAsset cat pa (pm ++ rest) a → DAssets cat pm rest as → DAssets cat (pa ++ pm) rest (a :: as)

/-! ### associations -/

/-- `mult: multatom (RANGE multatom)?` with `_post_process_multitudes` -/
inductive DMult : List Tok → Nat × Option Nat → Prop
  | one : atomTok x = some lo → DMult [x] (lo.getD 0, lo)
  | range : atomTok x = some lo → atomTok y = some hi → DMult [x, .range, y] (lo.getD 0, hi)

/-- `association: ID field mult LARROW linkname RARROW mult field ID meta*` -/
inductive DAssoc : List Tok → CAssoc → Prop
  | mk : DMult pl lm → DMult pr rm → DMetas pMeta kvs →
      DAssoc (.id la :: .lsquare :: .id lf :: .rsquare :: (pl ++ .larrow :: .id name :: .rarrow ::
                (pr ++ .lsquare :: .id rf :: .rsquare :: .id ra :: pMeta)))
        { name := name, metaD := metaOf [] kvs, leftAsset := la, leftField := lf, leftMin := lm.1, leftMax := lm.2,
          rightAsset := ra, rightField := rf, rightMin := rm.1, rightMax := rm.2 }

/-- `association* RCURLY` -/
inductive DAssocs : List Tok → List CAssoc → Prop
  | done : DAssocs [.rcurly] []
  | cons : DAssoc pa a → DAssocs pm as → DAssocs (pa ++ pm) (a :: as)

/-! ### declarations, file -/

/-- `declaration: include | define | category | associations` -/
inductive DDecl : List Tok → List Tok → Decl → Prop
  | incl : DDecl [.kwInclude, .str p] rest (.incl (stripQuotes p))
  | define : DDecl [.hash, .id k, .colon, .str v] rest (.define k (stripQuotes v))
  | category : DMetas pMeta kvs → DAssets n pAssets rest as →
      DDecl (.kwCategory :: .id n :: (pMeta ++ .lcurly :: pAssets)) rest (.category n (metaOf [] kvs) as)
  | associations : DAssocs pa as → DDecl (.kwAssociations :: .lcurly :: pa) rest (.associations as)

/-- `declaration*` -/
inductive DDecls : List Tok → List Tok → List Decl → Prop
  | nil : DDecls [] rest []
  | cons : DDecl p1 (p2 ++ rest) d → DDecls p2 rest ds → DDecls (p1 ++ p2) rest (d :: ds)

end MalVerif.Mal
