import MalVerif.Model.Gen
/-!
# Specification for C01: set-lifted denotational semantics of step expressions

`ASet` is a set of asset ids.  `DenE`/`DenF` say which assets a step
expression reaches from a *set* of source assets (the Python evaluator works
on sets of targets, not asset by asset).  `TC` is the transitive closure
(one or more steps); `EdgeSpec` says which edges an attack graph must have.
-/
namespace MalVerif

/-- `y` is reachable from `x` through the field `f` of some association object
(either direction; an asset may sit on both sides, and may be linked to itself) -/
def Linked (m : Inst) (x : Int) (f : String) (y : Int) : Prop :=
  ∃ l ∈ m.links, (x ∈ l.left ∧ l.rf = f ∧ y ∈ l.right) ∨ (x ∈ l.right ∧ l.lf = f ∧ y ∈ l.left)

/-- `iter F n a = F (F (… a))`, `n` times -/
def iter {α} (F : α → α) : Nat → α → α
  | 0, a => a
  | n+1, a => iter F n (F a)

abbrev ASet := Int → Prop

/-- transitive closure: one or more `R`-steps -/
inductive TC {α} (R : α → α → Prop) : α → α → Prop where
  | one {x y} : R x y → TC R x y
  | snoc {x z y} : TC R x z → R z y → TC R x y

/-- One layer of the semantics; `self d` is the meaning of the definition `d` of a variable.

Variables: the sources are grouped by the definition the variable has on
their type (`lookupVar`, the first definition on the type or an ancestor);
each definition is evaluated, set-lifted, on its group.  (The evaluator
refuses source sets with more than one group: `mixedVariable`.) -/
def DenE (L : Lang) (m : Inst) (self : Expr → ASet → ASet) : Expr → ASet → ASet
  | .step _, S => S
  | .field f, S => fun y => ∃ x, S x ∧ Linked m x f y
  | .var v, S => fun y => ∃ d, (∃ x, S x ∧ (m.typeOf x).bind (fun t => L.lookupVar t v) = some d) ∧
      self d (fun x => S x ∧ (m.typeOf x).bind (fun t => L.lookupVar t v) = some d) y
  | .collect l r, S => DenE L m self r (DenE L m self l S)
  | .union l r, S => fun y => DenE L m self l S y ∨ DenE L m self r S y
  | .inter l r, S => fun y => DenE L m self l S y ∧ DenE L m self r S y
  | .diff l r, S => fun y => DenE L m self l S y ∧ ¬ DenE L m self r S y
  | .sub t e, S => fun y => DenE L m self e S y ∧ ∃ ty, m.typeOf y = some ty ∧ L.isSub ty t = true
  -- closure+: a start asset belongs to the result only if it is reachable again
  | .trans e, S => fun y => ∃ n, iter (DenE L m self e) (n+1) S y

/-- the semantics with at most `f` nested variable expansions -/
def DenF (L : Lang) (m : Inst) : Nat → Expr → ASet → ASet
  | 0 => fun _ _ _ => False
  | f+1 => DenE L m (DenF L m f)

/-- the set transformer is determined by its values on singletons -/
def Pointwise (F : ASet → ASet) : Prop := ∀ S y, F S y ↔ ∃ x, S x ∧ F (· = x) y

/-- every operand of a transitive step met while evaluating `e` (also inside
the definitions of the variables that some asset of the model can expand) is pointwise -/
def TransOKE (L : Lang) (m : Inst) (self : Expr → ASet → ASet) (selfOK : Expr → Prop) : Expr → Prop
  | .step _ => True
  | .field _ => True
  | .var v => ∀ x d, (m.typeOf x).bind (fun t => L.lookupVar t v) = some d → selfOK d
  | .collect l r => TransOKE L m self selfOK l ∧ TransOKE L m self selfOK r
  | .union l r => TransOKE L m self selfOK l ∧ TransOKE L m self selfOK r
  | .inter l r => TransOKE L m self selfOK l ∧ TransOKE L m self selfOK r
  | .diff l r => TransOKE L m self selfOK l ∧ TransOKE L m self selfOK r
  | .sub _ e => TransOKE L m self selfOK e
  | .trans e => TransOKE L m self selfOK e ∧ Pointwise (DenE L m self e)

def TransOK (L : Lang) (m : Inst) : Nat → Expr → Prop
  | 0 => fun _ => True
  | f+1 => TransOKE L m (DenF L m f) (TransOK L m f)

/-- the syntactic class under which `*` is always applied by the MAL compiler:
steps, fields, collects, unions, subtype filters, transitive steps, and
variables all of whose definitions (on any asset type) are of that class again;
no intersection, no difference -/
def SyntacticE (L : Lang) (selfOK : Expr → Prop) : Expr → Prop
  | .step _ => True
  | .field _ => True
  | .var v => ∀ t d, L.lookupVar t v = some d → selfOK d
  | .collect l r => SyntacticE L selfOK l ∧ SyntacticE L selfOK r
  | .union l r => SyntacticE L selfOK l ∧ SyntacticE L selfOK r
  | .inter _ _ => False
  | .diff _ _ => False
  | .sub _ e => SyntacticE L selfOK e
  | .trans e => SyntacticE L selfOK e

def Syntactic (L : Lang) : Nat → Expr → Prop
  | 0 => fun _ => True
  | f+1 => SyntacticE L (Syntactic L f)

/-- every operand of `*` (also inside variable definitions) is of the class `Syntactic` -/
def StarOKE (L : Lang) (selfSyn selfStar : Expr → Prop) : Expr → Prop
  | .step _ => True
  | .field _ => True
  | .var v => ∀ t d, L.lookupVar t v = some d → selfStar d
  | .collect l r => StarOKE L selfSyn selfStar l ∧ StarOKE L selfSyn selfStar r
  | .union l r => StarOKE L selfSyn selfStar l ∧ StarOKE L selfSyn selfStar r
  | .inter l r => StarOKE L selfSyn selfStar l ∧ StarOKE L selfSyn selfStar r
  | .diff l r => StarOKE L selfSyn selfStar l ∧ StarOKE L selfSyn selfStar r
  | .sub _ e => StarOKE L selfSyn selfStar e
  | .trans e => StarOKE L selfSyn selfStar e ∧ SyntacticE L selfSyn e

def StarOK (L : Lang) : Nat → Expr → Prop
  | 0 => fun _ => True
  | f+1 => StarOKE L (Syntactic L f) (StarOK L f)

/-- the attack step an expression names (second component of the evaluator's result) -/
def lastStep : Expr → Option String
  | .step n => some n
  | .collect _ r => lastStep r
  | _ => none

/-- does the expression end in a variable call?  (Never for a `reaches`
expression the compiler produces: those end in an attack step.) -/
def tailVar : Expr → Bool
  | .var _ => true
  | .collect _ r => tailVar r
  | _ => false

/-- the variables occurring in an expression -/
def Expr.vars : Expr → List String
  | .step _ => []
  | .field _ => []
  | .var v => [v]
  | .collect l r => l.vars ++ r.vars
  | .union l r => l.vars ++ r.vars
  | .inter l r => l.vars ++ r.vars
  | .diff l r => l.vars ++ r.vars
  | .sub _ e => e.vars
  | .trans e => e.vars

/-- the ids of the assets of the model -/
def Inst.ids (m : Inst) : List Int := m.assets.map (·.id)

/-- every member of an association object is an asset of the model -/
def LinksClosed (m : Inst) : Prop := ∀ l ∈ m.links, ∀ i ∈ l.left ++ l.right, i ∈ m.assets.map (·.id)

/-- **Edge specification.**  Node `a` (step `s` of asset `X`) has the child `b`
iff one of the `reaches` expressions of `s`, evaluated from `{X}` with the set
semantics, reaches an asset `Y`, names the step `t`, and `b` is the node
registered under the full name `Y:t`. -/
def EdgeSpec (L : Lang) (m : Inst) (ns : List GNode) (a b : Nat) : Prop :=
  ∃ n ∈ ns, n.id = a ∧ ∃ e ∈ n.reaches, ∃ y ya t,
    DenF L m L.varFuel e (· = n.asset) y ∧ m.find y = some ya ∧
    nameIndex ns (ya.name ++ ":" ++ (lastStep e).getD "None") = some t ∧ t.id = b

/-- the two adjacency views the Python fills in the same statement
(`node.children.append(target); target.parents.append(node)`) -/
def childrenOf (es : List (Nat × Nat)) (a : Nat) : List Nat := (es.filter (·.1 = a)).map (·.2)
def parentsOf (es : List (Nat × Nat)) (b : Nat) : List Nat := (es.filter (·.2 = b)).map (·.1)

end MalVerif
