import MalVerif.Model.MState
/-!
# Coherence invariant of the instance-model state machine (C05) and validity
against the language (C06)

`Inv s` is the conjunction of four independent parts:

* `AssetsOK` — live asset references are duplicate free and below the fresh
               counter; ids and names of live assets are pairwise distinct; the two
               reservation sets `asset_ids` / `asset_names` hold exactly the live
               ids / names (nothing stale, nothing missing, no duplicates);
               `next_id` is above every live id;
* `LinksOK`  — live associations are duplicate free and fresh, their members are
               live assets, no asset twice in a field, and the back-reference
               lists `asset.associations` mirror membership *with multiplicity*;
* `TtaOK`    — `_type_to_association` is the grouping of the live associations by
               class (no empty group, keys distinct, no association twice);
* `AttOK`    — attackers are duplicate free and fresh, entry points of live
               attackers refer to live assets, at most one tuple per asset.

`Valid L s` (C06): every live asset / association is one the language `L` allows.
-/
namespace MalVerif.MS

structure AssetsOK (s : St) : Prop where
  nodup : s.assets.Nodup
  fresh : ∀ a ∈ s.assets, a < s.afresh
  ids_inj : ∀ a ∈ s.assets, ∀ b ∈ s.assets, (s.aobj a).id = (s.aobj b).id → a = b
  names_inj : ∀ a ∈ s.assets, ∀ b ∈ s.assets, (s.aobj a).name = (s.aobj b).name → a = b
  ids_exact : ∀ i, i ∈ s.assetIds ↔ ∃ a ∈ s.assets, (s.aobj a).id = i
  ids_nodup : s.assetIds.Nodup
  names_exact : ∀ n, n ∈ s.assetNames ↔ ∃ a ∈ s.assets, (s.aobj a).name = n
  names_nodup : s.assetNames.Nodup
  id_lt_next : ∀ a ∈ s.assets, (s.aobj a).id < s.nextId

structure LinksOK (s : St) : Prop where
  nodup : s.associations.Nodup
  fresh : ∀ l ∈ s.associations, l < s.lfresh
  left_live : ∀ l ∈ s.associations, ∀ a ∈ (s.lobj l).left, a ∈ s.assets
  right_live : ∀ l ∈ s.associations, ∀ a ∈ (s.lobj l).right, a ∈ s.assets
  left_nodup : ∀ l ∈ s.associations, (s.lobj l).left.Nodup
  right_nodup : ∀ l ∈ s.associations, (s.lobj l).right.Nodup
  mirror : ∀ a ∈ s.assets, ∀ l, (s.aobj a).assocs.count l =
    if l ∈ s.associations then (s.lobj l).left.count a + (s.lobj l).right.count a else 0

structure TtaOK (s : St) : Prop where
  iff : ∀ c l, l ∈ ttaGet s.typeToAssoc c ↔ (l ∈ s.associations ∧ (s.lobj l).cls = c)
  groups_nodup : ∀ c, (ttaGet s.typeToAssoc c).Nodup
  nonempty : ∀ e ∈ s.typeToAssoc, e.2 ≠ []
  keys : (s.typeToAssoc.map (·.1)).Nodup

structure AttOK (s : St) : Prop where
  nodup : s.attackers.Nodup
  fresh : ∀ t ∈ s.attackers, t < s.tfresh
  entry_live : ∀ t ∈ s.attackers, ∀ ep ∈ (s.tobj t).entry, ep.1 ∈ s.assets
  entry_nodup : ∀ t ∈ s.attackers, ((s.tobj t).entry.map (·.1)).Nodup

/-- the coherence invariant -/
structure Inv (s : St) : Prop where
  assets : AssetsOK s
  links : LinksOK s
  tta : TtaOK s
  att : AttOK s

/-! ### histories -/

/-- the operations of the state machine (handles are references) -/
inductive Op
  | addAsset (type : String) (name : Option String) (defs : List (String × String)) (defsOk : Bool)
      (extras : String) (id : Option Int) (allowDup : Bool)
  | addAssociation (cls : String) (left right : List Nat)
  | removeAssociation (l : Nat)
  | removeAssetFromAssociation (a l : Nat)
  | removeAsset (a : Nat)
  | addAttacker (name : Option String) (id : Option Int)
  | removeAttacker (t : Nat)
  | addEntryPoint (t a : Nat) (step : String)
  | removeEntryPoint (t a : Nat) (step : String)

def okOr (s : St) : Except Err St → St
  | .ok s' => s'
  | .error _ => s

/-- the call an operation stands for.  `AttackerAttachment.add_entry_point` / `remove_entry_point` do not see
the model: they are only applied to an attacker and an asset of the model (otherwise nothing happens). -/
def runOp (L : Lang) (s : St) : Op → Except Err St
  | .addAsset ty nm defs ok ex id dup => addAsset L s ty nm defs ok ex id dup
  | .addAssociation cls left right => addAssociation L s cls left right
  | .removeAssociation l => removeAssociation s l
  | .removeAssetFromAssociation a l => removeAssetFromAssociation s a l
  | .removeAsset a => removeAsset s a
  | .addAttacker nm id => .ok (addAttacker s nm id)
  | .removeAttacker t => removeAttacker s t
  | .addEntryPoint t a step => .ok (if t ∈ s.attackers ∧ a ∈ s.assets then addEntryPoint s t a step else s)
  | .removeEntryPoint t a step => .ok (if t ∈ s.attackers ∧ a ∈ s.assets then removeEntryPoint s t a step else s)

/-- one step of a history: an operation that raises leaves the state as it was -/
def applyOp (L : Lang) (s : St) (op : Op) : St := okOr s (runOp L s op)

/-! ### validity against the language (C06) -/

/-- a live asset is of a type of the language and only sets defenses that type has -/
structure ValidAsset (L : Lang) (s : St) (a : Nat) : Prop where
  known : (L.findAsset (s.aobj a).type).isSome = true
  defenses : ∀ d ∈ (s.aobj a).defenses, ∃ v, (d.1, v) ∈ defensesOf L (s.aobj a).type

/-- a live association is an instance of the association class `c` -/
structure InstanceOf (L : Lang) (s : St) (l : Nat) (c : AssocClass) : Prop where
  cls : (s.lobj l).cls = c.cls
  lf : (s.lobj l).lf = c.lf
  rf : (s.lobj l).rf = c.rf
  left_type : ∀ a ∈ (s.lobj l).left, L.isSub (s.aobj a).type c.ltype = true
  right_type : ∀ a ∈ (s.lobj l).right, L.isSub (s.aobj a).type c.rtype = true
  left_count : okCount c.lmax (s.lobj l).left.length = true
  right_count : okCount c.rmax (s.lobj l).right.length = true

/-- the two associations link a common (left asset id, right asset id) pair -/
def SharePair (s : St) (l l' : Nat) : Prop :=
  ∃ a ∈ (s.lobj l).left, ∃ b ∈ (s.lobj l).right, ∃ a' ∈ (s.lobj l').left, ∃ b' ∈ (s.lobj l').right,
    (s.aobj a).id = (s.aobj a').id ∧ (s.aobj b).id = (s.aobj b').id

structure Valid (L : Lang) (s : St) : Prop where
  assets : ∀ a ∈ s.assets, ValidAsset L s a
  links : ∀ l ∈ s.associations, ∃ c ∈ assocClasses L, InstanceOf L s l c
  left_nodup : ∀ l ∈ s.associations, (s.lobj l).left.Nodup
  right_nodup : ∀ l ∈ s.associations, (s.lobj l).right.Nodup
  no_dup_link : ∀ l ∈ s.associations, ∀ l' ∈ s.associations, l ≠ l' → (s.lobj l).cls = (s.lobj l').cls →
    ¬ SharePair s l l'

/-! ### a small language and history for the non-vacuity examples -/
namespace Demo

/-- `Base` has an Enabled defense `hardened` and a step; `Host extends Base` adds a defense that is off by default;
two associations share the name `Link` -/
def lang : Lang :=
  { assets := [
      { name := "Base", steps := [{ name := "hardened", type := "defense", ttcName := some "Enabled" },
                                  { name := "access", type := "or" }] },
      { name := "Host", superAsset := some "Base", steps := [{ name := "patched", type := "defense" }] },
      { name := "Net" }],
    assocs := [
      { name := "Link", leftAsset := "Host", leftField := "hosts", rightAsset := "Net", rightField := "nets",
        rightMax := some 1 },
      { name := "Link", leftAsset := "Host", leftField := "peers", rightAsset := "Host", rightField := "peerOf" },
      { name := "Uses", leftAsset := "Base", leftField := "users", rightAsset := "Net", rightField := "used" }] }

/-- three assets (an explicit id 5, a generated id, an explicit id 0 with a colliding name), a link with two
hosts, a self-link, an attacker with an entry point; then the first host is removed and its id and name are used again -/
def ops : List Op := [
  .addAsset "Host" (some "h") [("patched", "1.0")] true "{}" (some 5) true,
  .addAsset "Net" none [] true "{}" none true,
  .addAsset "Host" (some "h") [] true "{}" (some 0) true,
  .addAssociation "Link_Host_Net" [0, 2] [1],
  .addAssociation "Link_Host_Host" [0] [0],
  .addAttacker none none,
  .addEntryPoint 0 0 "access",
  .removeAsset 0,
  .addAsset "Host" (some "h") [] true "{}" (some 5) false]

/-- operations that are rejected: unknown type, bad defense value, id in use, duplicate name not allowed, a `Net` on
the `Host` side, two nets where at most one is allowed, the same host twice, an existing link, a removed asset,
removing twice -/
def badOps : List Op := [
  .addAsset "Router" none [] true "{}" none true,
  .addAsset "Host" none [("patched", "2.0")] false "{}" none true,
  .addAsset "Host" none [] true "{}" (some 0) true,
  .addAsset "Host" (some "h") [] true "{}" none false,
  .addAssociation "Link_Host_Net" [1] [1],
  .addAssociation "Link_Host_Net" [3] [1, 1],
  .addAssociation "Link_Host_Host" [3, 3] [2],
  .addAssociation "Link_Host_Net" [2] [1],
  .addAssociation "Link_Host_Host" [0] [2],
  .removeAsset 0,
  .removeAssociation 1]

end Demo

end MalVerif.MS
