import MalVerif.Model.AGS
/-!
# Structural invariant of the attack-graph state machine (C09, C11, C13)

`Consistent s` is the conjunction of four independent parts:

* `NodesOK`   — node list without duplicates, refs fresh, child/parent edges stay
                inside the graph and mirror each other *with multiplicity*;
* `IdxOK`     — the id index is exact (nothing stale, nothing missing), the
                name index is sound (nothing stale), ids are below the counter;
* `AttIdxOK`  — the same for attackers and the attacker index;
* `CompOK`    — attacker ↔ node references stay inside the graph, and
                `reached` / `compromised_by` mirror each other without duplicates (C11).

Exactness of the *name* index (`NamesExact`) is a separate invariant because
`add_node` silently overwrites the entry of an existing full name; it is kept
by every operation provided `add_node` is only called with unused full names.
-/
namespace MalVerif.AGS
open MalVerif.AGraph

structure NodesOK (s : St) : Prop where
  nodup : s.nodes.Nodup
  fresh : ∀ r ∈ s.nodes, r < s.nfresh
  children_mem : ∀ p ∈ s.nodes, ∀ c ∈ (s.nobj p).children, c ∈ s.nodes
  parents_mem : ∀ c ∈ s.nodes, ∀ p ∈ (s.nobj c).parents, p ∈ s.nodes
  mirror : ∀ p ∈ s.nodes, ∀ c ∈ s.nodes, (s.nobj p).children.count c = (s.nobj c).parents.count p

structure IdxOK (s : St) : Prop where
  id_exact : ∀ k r, dget s.idIdx k = some r ↔ (r ∈ s.nodes ∧ (s.nobj r).id = k)
  id_lt_next : ∀ r ∈ s.nodes, (s.nobj r).id < s.nextNode
  name_sound : ∀ k r, dget s.nameIdx k = some r → (r ∈ s.nodes ∧ fullName (s.nobj r) = k)

structure AttIdxOK (s : St) : Prop where
  nodup : s.attackers.Nodup
  fresh : ∀ a ∈ s.attackers, a < s.afresh
  id_exact : ∀ k a, dget s.attIdx k = some a ↔ (a ∈ s.attackers ∧ (s.aobj a).id = k)
  id_lt_next : ∀ a ∈ s.attackers, (s.aobj a).id < s.nextAtt

structure CompOK (s : St) : Prop where
  reached_mem : ∀ a ∈ s.attackers, ∀ n ∈ (s.aobj a).reached, n ∈ s.nodes
  entry_mem : ∀ a ∈ s.attackers, ∀ n ∈ (s.aobj a).entry, n ∈ s.nodes
  compBy_mem : ∀ n ∈ s.nodes, ∀ a ∈ (s.nobj n).compBy, a ∈ s.attackers
  reached_nodup : ∀ a ∈ s.attackers, (s.aobj a).reached.Nodup
  compBy_nodup : ∀ n ∈ s.nodes, (s.nobj n).compBy.Nodup
  mirror : ∀ a ∈ s.attackers, ∀ n ∈ s.nodes, (n ∈ (s.aobj a).reached ↔ a ∈ (s.nobj n).compBy)

/-- the structural invariant -/
structure Consistent (s : St) : Prop where
  nodes : NodesOK s
  idx : IdxOK s
  attIdx : AttIdxOK s
  comp : CompOK s

/-- full names of the nodes of the graph are pairwise distinct -/
def NamesDistinct (s : St) : Prop :=
  ∀ r ∈ s.nodes, ∀ r' ∈ s.nodes, fullName (s.nobj r) = fullName (s.nobj r') → r = r'

/-- the name index is exact (implies `NamesDistinct`) -/
def NamesExact (s : St) : Prop :=
  ∀ k r, dget s.nameIdx k = some r ↔ (r ∈ s.nodes ∧ fullName (s.nobj r) = k)

/-- the edge-adding step of graph generation: `p.children.append(c); c.parents.append(p)` -/
def link (s : St) (p c : Nat) : St :=
  updN (updN s p (fun o => { o with children := o.children ++ [c] })) c
    (fun o => { o with parents := o.parents ++ [p] })

/-- a freshly constructed node object has no edges and is not compromised -/
def NodeObj.detached (o : NodeObj) : NodeObj := { o with children := [], parents := [], compBy := [] }

/-- the operations of the state machine -/
inductive Op
  | addNode (o : NodeObj) (id : Option Int)
  | link (p c : Nat)
  | removeNode (r : Nat)
  | addAttacker (name : String) (id : Option Int) (entry reached : List Int)
  | removeAttacker (a : Nat)
  | compromise (a n : Nat)
  | undo (a n : Nat)
  | attach (atts : List (String × List String))
  | setLabels (lab : List (Nat × Bool × Bool))
  | prune
  /-- `add_node` / `add_attacker` called with an object that exists already -/
  | addNodeObj (r : Nat) (id : Option Int)
  | addAttackerObj (a : Nat) (id : Option Int) (entry reached : List Int)

def okOr (s : St) : Except Err St → St
  | .ok s' => s'
  | .error _ => s

/-- one step; an operation that raises, or whose handles are not objects of the
graph, leaves the state unchanged -/
def applyOp (s : St) : Op → St
  | .addNode o id => okOr s (addNode s o.detached id)
  | .link p c => if p ∈ s.nodes ∧ c ∈ s.nodes then link s p c else s
  | .removeNode r => if r ∈ s.nodes then removeNode s r else s
  | .addAttacker nm id e r => okOr s (addAttacker s nm id e r)
  | .removeAttacker a => if a ∈ s.attackers then removeAttacker s a else s
  | .compromise a n => if a ∈ s.attackers ∧ n ∈ s.nodes then compromise s a n else s
  | .undo a n => if a ∈ s.attackers ∧ n ∈ s.nodes then undo s a n else s
  | .attach atts => okOr s (attach s atts)
  | .setLabels lab => setLabels s lab
  | .prune => prune s
  | .addNodeObj r id => if r ∈ s.nodes then okOr s (addNodeObj s r id) else s
  | .addAttackerObj a id e r => if a ∈ s.attackers then okOr s (addAttackerObj s a id e r) else s

/-- side condition on an operation for `NamesExact`: `add_node` with an unused full name -/
def Op.nameFresh (s : St) : Op → Prop
  | .addNode o id => dget s.nameIdx (fullName { o.detached with id := id.getD s.nextNode }) = none
  | _ => True

/-- all `add_node` calls of the history use a full name that is unused at that time -/
def namesFresh : St → List Op → Prop
  | _, [] => True
  | s, op :: ops => op.nameFresh s ∧ namesFresh (applyOp s op) ops

instance (s : St) (op : Op) : Decidable (op.nameFresh s) := by
  cases op <;> unfold Op.nameFresh <;> infer_instance

instance namesFreshDecidable : (s : St) → (ops : List Op) → Decidable (namesFresh s ops)
  | _, [] => isTrue trivial
  | s, op :: ops =>
    have := namesFreshDecidable (applyOp s op) ops
    inferInstanceAs (Decidable (op.nameFresh s ∧ namesFresh (applyOp s op) ops))

end MalVerif.AGS
