import MalVerif.Proofs.EvalSem
/-!
# Helper lemmas for C01: the step name of an expression that ends in a variable call

`lastStep e` is the step name the evaluator returns when `tailVar e = false`.  When `e` ends in a
call `v()`, the evaluator returns whatever the evaluation of the *definition* of `v` returns — the
definition `v` has on the type of the first of the assets reaching the call (all of them have the same
definition, otherwise the evaluator fails with `mixedVariable`) — and `none` when no asset reaches it.

* operational: `tailVarName`, `dropTail`, `evalE_tailVar`, `evalF_tailVar`;
* set semantics: `NameE` / `StepName` (a relation: sources → step name), `evalF_name`
  (the returned name is the only one in the relation), `stepName_of_not_tailVar`
  (it is `lastStep e` for expressions that do not end in a variable call);
* `EdgeSpecG`, the edge specification with `StepName` in the place of `lastStep`.
-/
namespace MalVerif

/-- the variable an expression ends in -/
def tailVarName : Expr → Option String
  | .var v => some v
  | .collect _ r => tailVarName r
  | _ => none

/-- the expression without the variable call it ends in (`none`: the expression is just that call) -/
def dropTail : Expr → Option Expr
  | .collect l r => (match dropTail r with | none => some l | some p => some (.collect l p))
  | _ => none

theorem tailVarName_isSome (e : Expr) : (tailVarName e).isSome = tailVar e := by
  induction e with
  | collect l r _ ihr => simpa [tailVarName, tailVar] using ihr
  | _ => rfl

/-! ### operational characterisation -/

/-- **One layer.**  `e` ends in a call of `v`; `src` is the list of assets reaching that call (the
sources themselves, or what the evaluator returns for `dropTail e`).  For no asset the result is
`([], none)`; otherwise all assets of `src` have the same definition `d` of `v` and the result —
targets and step name — is the result of evaluating `d` from `src`. -/
theorem evalE_tailVar (L : Lang) (m : Inst) (self : Expr → List Int → ER (List Int × Option String)) :
    ∀ e xs r, tailVar e = true → evalE L m self e xs = .ok r →
      ∃ v src, tailVarName e = some v ∧
        (match dropTail e with
          | none => src = xs
          | some p => ∃ a, evalE L m self p xs = .ok a ∧ a.1 = src) ∧
        (src = [] → r = ([], none)) ∧
        (∀ x rest, src = x :: rest → ∃ d, (m.typeOf x).bind (fun t => L.lookupVar t v) = some d ∧
          (∀ y ∈ src, (m.typeOf y).bind (fun t => L.lookupVar t v) = some d) ∧ self d src = .ok r) := by
  intro e
  induction e with
  | var v =>
    intro xs r _ h
    refine ⟨v, xs, rfl, rfl, ?_, ?_⟩
    · intro hxs; subst hxs; simp only [evalE] at h; cases h; rfl
    · intro x rest hxs
      subst hxs
      simp only [evalE] at h
      split at h
      · cases h
      · rename_i d hd
        split at h
        · rename_i hall
          refine ⟨d, hd, ?_, h⟩
          intro y hy
          rcases List.mem_cons.1 hy with e | hy
          · rw [e]; exact hd
          · simpa using (List.all_eq_true.1 hall) y hy
        · cases h
  | collect l r' _ ihr =>
    intro xs r ht h
    simp only [tailVar] at ht
    simp only [evalE] at h
    obtain ⟨a, ha, h⟩ := (bind_ok_iff _ _ _).1 h
    obtain ⟨v, src, hv, hsrc, h0, h1⟩ := ihr a.1 r ht h
    refine ⟨v, src, hv, ?_, h0, h1⟩
    simp only [dropTail]
    cases hd : dropTail r' with
    | none => rw [hd] at hsrc; exact ⟨a, ha, hsrc.symm⟩
    | some p =>
      rw [hd] at hsrc
      obtain ⟨a', ha', e'⟩ := hsrc
      refine ⟨a', ?_, e'⟩
      simp only [evalE]
      exact (bind_ok_iff _ _ _).2 ⟨a, ha, ha'⟩
  | step n => intro xs r ht; simp [tailVar] at ht
  | field f => intro xs r ht; simp [tailVar] at ht
  | union l r' _ _ => intro xs r ht; simp [tailVar] at ht
  | inter l r' _ _ => intro xs r ht; simp [tailVar] at ht
  | diff l r' _ _ => intro xs r ht; simp [tailVar] at ht
  | sub t e _ => intro xs r ht; simp [tailVar] at ht
  | trans e _ => intro xs r ht; simp [tailVar] at ht

theorem evalF_tailVar (L : Lang) (m : Inst) (f : Nat) (e : Expr) (xs : List Int)
    (r : List Int × Option String) (ht : tailVar e = true) (h : evalF L m (f+1) e xs = .ok r) :
    ∃ v src, tailVarName e = some v ∧
      (match dropTail e with
        | none => src = xs
        | some p => ∃ a, evalF L m (f+1) p xs = .ok a ∧ a.1 = src) ∧
      (src = [] → r = ([], none)) ∧
      (∀ x rest, src = x :: rest → ∃ d, (m.typeOf x).bind (fun t => L.lookupVar t v) = some d ∧
        (∀ y ∈ src, (m.typeOf y).bind (fun t => L.lookupVar t v) = some d) ∧
        evalF L m f d src = .ok r) :=
  evalE_tailVar L m (evalF L m f) e xs r ht h

/-! ### the step name under the set semantics -/

/-- One layer of the *step name* an expression has from a set of sources `S` (a relation: when the
sources disagree on the definition of a variable, each definition contributes).

* an attack step names itself;
* a variable call from no source names nothing; from sources, it names what a definition `d` of the
  variable on one of them names, from the sources having that definition (as in `DenE`);
* `l.r` names what `r` names from the assets `l` reaches;
* everything else names nothing. -/
def NameE (L : Lang) (m : Inst) (self : Expr → ASet → ASet)
    (selfName : Expr → ASet → Option String → Prop) : Expr → ASet → Option String → Prop
  | .step n, _, o => o = some n
  | .var v, S, o => ((∀ x, ¬ S x) ∧ o = none) ∨
      ∃ d, (∃ x, S x ∧ (m.typeOf x).bind (fun t => L.lookupVar t v) = some d) ∧
        selfName d (fun x => S x ∧ (m.typeOf x).bind (fun t => L.lookupVar t v) = some d) o
  | .collect l r, S, o => NameE L m self selfName r (DenE L m self l S) o
  | _, _, o => o = none

/-- the step name with at most `f` nested variable expansions (companion of `DenF`) -/
def StepName (L : Lang) (m : Inst) : Nat → Expr → ASet → Option String → Prop
  | 0 => fun _ _ _ => False
  | f+1 => NameE L m (DenF L m f) (StepName L m f)

/-- for an expression that does not end in a variable call the name is `lastStep e`, whatever the sources -/
theorem nameE_of_not_tailVar (L : Lang) (m : Inst) (self : Expr → ASet → ASet)
    (selfName : Expr → ASet → Option String → Prop) :
    ∀ e, tailVar e = false → ∀ S o, NameE L m self selfName e S o ↔ o = lastStep e := by
  intro e
  induction e with
  | var v => intro ht; simp [tailVar] at ht
  | collect l r _ ihr =>
    intro ht S o
    simp only [tailVar] at ht
    simp only [NameE, lastStep]
    exact ihr ht _ o
  | step n => intro _ S o; simp only [NameE, lastStep]
  | field f => intro _ S o; simp only [NameE, lastStep]
  | union l r _ _ => intro _ S o; simp only [NameE, lastStep]
  | inter l r _ _ => intro _ S o; simp only [NameE, lastStep]
  | diff l r _ _ => intro _ S o; simp only [NameE, lastStep]
  | sub t e _ => intro _ S o; simp only [NameE, lastStep]
  | trans e _ => intro _ S o; simp only [NameE, lastStep]

theorem stepName_of_not_tailVar (L : Lang) (m : Inst) (f : Nat) (e : Expr) (ht : tailVar e = false)
    (S : ASet) (o : Option String) : StepName L m (f+1) e S o ↔ o = lastStep e :=
  nameE_of_not_tailVar L m _ _ e ht S o

/-- one layer: when the evaluation succeeds, the returned name is the one and only name of the
expression from the set of sources -/
theorem evalE_name (L : Lang) (m : Inst) (self : Expr → List Int → ER (List Int × Option String))
    (selfD : Expr → ASet → ASet) (selfName : Expr → ASet → Option String → Prop) (selfOK : Expr → Prop)
    (hself : ∀ d, selfOK d → ∀ xs r, self d xs = .ok r → ∀ y, y ∈ r.1 ↔ selfD d (· ∈ xs) y)
    (hname : ∀ d, selfOK d → ∀ xs r, self d xs = .ok r → ∀ o, selfName d (· ∈ xs) o ↔ o = r.2) :
    ∀ e, TransOKE L m selfD selfOK e → ∀ xs r, evalE L m self e xs = .ok r →
      ∀ o, NameE L m selfD selfName e (· ∈ xs) o ↔ o = r.2 := by
  intro e
  induction e with
  | step n => intro _ xs r h o; simp only [evalE] at h; cases h; simp only [NameE]
  | field f => intro _ xs r h o; simp only [evalE] at h; cases h; simp only [NameE]
  | var v =>
    intro hok xs r h o
    simp only [TransOKE] at hok
    cases xs with
    | nil =>
      simp only [evalE] at h; cases h
      simp only [NameE, List.not_mem_nil, not_false_eq_true, implies_true, true_and, false_and,
        exists_false, or_false]
    | cons x rest =>
      simp only [evalE] at h
      split at h
      · cases h
      · rename_i d hd
        split at h
        · rename_i hall
          have hall' : ∀ z ∈ x :: rest, (m.typeOf z).bind (fun t => L.lookupVar t v) = some d := by
            intro z hz
            rcases List.mem_cons.1 hz with e | hz
            · rw [e]; exact hd
            · simpa using (List.all_eq_true.1 hall) z hz
          have hset : (fun z => z ∈ x :: rest ∧ (m.typeOf z).bind (fun t => L.lookupVar t v) = some d)
              = (· ∈ x :: rest) := aset_ext fun z => ⟨fun h => h.1, fun h => ⟨h, hall' z h⟩⟩
          rw [← hname d (hok x d hd) _ _ h o]
          simp only [NameE]
          constructor
          · rintro (⟨hno, _⟩ | ⟨d', ⟨x', hx', hd'⟩, ho⟩)
            · exact absurd List.mem_cons_self (hno x)
            · have e : d' = d := by have := hall' x' hx'; rw [hd'] at this; cases this; rfl
              subst e
              rw [hset] at ho; exact ho
          · intro ho
            exact Or.inr ⟨d, ⟨x, List.mem_cons_self, hd⟩, by rw [hset]; exact ho⟩
        · cases h
  | collect l r' _ ihr =>
    intro hok xs r h o
    simp only [TransOKE] at hok
    simp only [evalE] at h
    obtain ⟨a, ha, h⟩ := (bind_ok_iff _ _ _).1 h
    simp only [NameE]
    have hset : DenE L m selfD l (· ∈ xs) = (· ∈ a.1) :=
      aset_ext fun y => (evalE_mem L m self selfD selfOK hself l hok.1 xs a ha y).symm
    rw [hset]
    exact ihr hok.2 _ _ h o
  | union l r' _ _ =>
    intro _ xs r h o
    simp only [evalE] at h
    obtain ⟨a, _, h⟩ := (bind_ok_iff _ _ _).1 h
    obtain ⟨b, _, h⟩ := (bind_ok_iff _ _ _).1 h
    cases h; simp only [NameE]
  | inter l r' _ _ =>
    intro _ xs r h o
    simp only [evalE] at h
    obtain ⟨a, _, h⟩ := (bind_ok_iff _ _ _).1 h
    obtain ⟨b, _, h⟩ := (bind_ok_iff _ _ _).1 h
    cases h; simp only [NameE]
  | diff l r' _ _ =>
    intro _ xs r h o
    simp only [evalE] at h
    obtain ⟨a, _, h⟩ := (bind_ok_iff _ _ _).1 h
    obtain ⟨b, _, h⟩ := (bind_ok_iff _ _ _).1 h
    cases h; simp only [NameE]
  | sub t e _ =>
    intro _ xs r h o
    simp only [evalE] at h
    obtain ⟨rs, _, h⟩ := (bind_ok_iff _ _ _).1 h
    split at h
    · cases h; simp only [NameE]
    · cases h
  | trans e _ =>
    intro _ xs r h o
    simp only [evalE] at h
    obtain ⟨res, _, h⟩ := (bind_ok_iff _ _ _).1 h
    cases h; simp only [NameE]

theorem evalF_name (L : Lang) (m : Inst) : ∀ f e, TransOK L m f e → ∀ xs r, evalF L m f e xs = .ok r →
    ∀ o, StepName L m f e (· ∈ xs) o ↔ o = r.2 := by
  intro f
  induction f with
  | zero => intro e _ xs r h; simp [evalF] at h
  | succ f ih =>
    intro e hok xs r h
    exact evalE_name L m (evalF L m f) (DenF L m f) (StepName L m f) (TransOK L m f)
      (evalF_mem L m f) ih e hok xs r h

/-! ### the edge specification without the restriction on the last component -/

/-- `EdgeSpec` with the step name of the set semantics (`StepName`) in the place of `lastStep`:
also for `reaches` expressions ending in a variable call -/
def EdgeSpecG (L : Lang) (m : Inst) (ns : List GNode) (a b : Nat) : Prop :=
  ∃ n ∈ ns, n.id = a ∧ ∃ e ∈ n.reaches, ∃ y ya t o,
    DenF L m L.varFuel e (· = n.asset) y ∧ StepName L m L.varFuel e (· = n.asset) o ∧
    m.find y = some ya ∧ nameIndex ns (ya.name ++ ":" ++ o.getD "None") = some t ∧ t.id = b

theorem varFuel_eq_succ (L : Lang) : L.varFuel = (L.varFuel - 1) + 1 := by
  unfold Lang.varFuel; omega

/-- the two specifications coincide when no `reaches` expression ends in a variable call -/
theorem edgeSpecG_iff_EdgeSpec (L : Lang) (m : Inst) (ns : List GNode)
    (htail : ∀ n ∈ ns, ∀ e ∈ n.reaches, tailVar e = false) (a b : Nat) :
    EdgeSpecG L m ns a b ↔ EdgeSpec L m ns a b := by
  unfold EdgeSpecG EdgeSpec
  constructor
  · rintro ⟨n, hn, ha, e, he, y, ya, t, o, hy, ho, hya, ht, hb⟩
    rw [varFuel_eq_succ L, stepName_of_not_tailVar L m _ e (htail n hn e he)] at ho
    subst ho
    exact ⟨n, hn, ha, e, he, y, ya, t, hy, hya, ht, hb⟩
  · rintro ⟨n, hn, ha, e, he, y, ya, t, hy, hya, ht, hb⟩
    refine ⟨n, hn, ha, e, he, y, ya, t, lastStep e, hy, ?_, hya, ht, hb⟩
    rw [varFuel_eq_succ L, stepName_of_not_tailVar L m _ e (htail n hn e he)]

end MalVerif
