import MalVerif.Proofs.ParseSound
/-!
# Completeness of the parser model: every derivable prefix is parsed

The converse of `ParseSound.lean`, under the follow condition of each rule (nothing that could continue the
construct comes next) and with fuel twice the number of tokens.  Induction on the number of tokens of the
derivation; within one size the rules are handled from the innermost outwards.
-/
namespace MalVerif.Mal
open MalVerif (Expr)

/-! ### completeness for step expressions: every derivable prefix is parsed -/

theorem dpart_ne {reach : Bool} {pre rest : List Tok} {e : Expr} (h : DPart reach pre rest e) : pre ≠ [] := by
  cases h <;> simp
theorem dparts_ne {reach : Bool} {pre rest : List Tok} {e : Expr} (h : DParts reach pre rest e) : pre ≠ [] := by
  cases h with
  | one h => exact dpart_ne h
  | dot _ _ => simp
theorem dexpr_ne {reach : Bool} {pre rest : List Tok} {e : Expr} (h : DExpr reach pre rest e) : pre ≠ [] := by
  cases h with
  | one h => exact dparts_ne h
  | op _ _ _ => simp

theorem length_pos_of_ne {l : List Tok} (h : l ≠ []) : 1 ≤ l.length := by
  cases l with
  | nil => exact absurd rfl h
  | cons x l => simp

theorem parseTypes_complete {pre : List Tok} {e e' : Expr} (h : DTypes pre e e') (rest : List Tok)
    (hr : headP contPart rest = false) (f : Nat) (hf : pre.length ≤ 3 * f) :
    parseTypes f e (pre ++ rest) = (e', rest) := by
  induction h generalizing f with
  | nil => exact parseTypes_typeToks f _ [] rest (by simp) hr
  | cons h ih =>
    simp only [List.length_cons] at hf
    obtain ⟨f, rfl⟩ : ∃ g, f = g + 1 := ⟨f - 1, by omega⟩
    simp only [List.cons_append]
    unfold parseTypes
    exact ih f (by omega)

theorem dtypes_head {pre : List Tok} {e e' : Expr} (h : DTypes pre e e') : pre = [] ∨ ∃ r, pre = .lsquare :: r := by
  cases h with
  | nil => exact .inl rfl
  | cons _ => exact .inr ⟨_, rfl⟩

theorem parseSuffix_complete {pre : List Tok} {e e' : Expr} (h : DSuffix pre e e') (rest : List Tok)
    (hr : headP contPart rest = false) (f : Nat) (hf : pre.length ≤ 3 * f) :
    parseSuffix f e (pre ++ rest) = (e', rest) := by
  cases h with
  | star h =>
    simp only [List.length_cons] at hf
    simp only [List.cons_append]
    unfold parseSuffix
    exact parseTypes_complete h rest hr f (by omega)
  | plain h =>
    unfold parseSuffix
    split
    · rename_i r heq
      rcases dtypes_head h with rfl | ⟨r', rfl⟩
      · simp only [List.nil_append] at heq; subst heq; simp [headP, contPart] at hr
      · simp at heq
    · exact parseTypes_complete h rest hr f hf

theorem dsuffix_head {pre : List Tok} {e e' : Expr} (h : DSuffix pre e e') (rest : List Tok)
    (hr : headP contPart rest = false) : headP (· == .lparen) (pre ++ rest) = false := by
  cases h with
  | star _ => rfl
  | plain h =>
    rcases dtypes_head h with rfl | ⟨r', rfl⟩
    · exact headP_lparen_of_contPart rest hr
    · rfl

/-- the three statements, for derivations of at most `n` tokens -/
theorem expr_complete (reach : Bool) (n : Nat) :
    (∀ pre rest e, pre.length ≤ n → DPart reach pre rest e → headP contPart rest = false →
      ∀ f, 2 * pre.length ≤ f + 1 → parsePart f reach (pre ++ rest) = some (e, rest)) ∧
    (∀ pre rest e, pre.length ≤ n → DParts reach pre rest e → headP contPart rest = false →
      ∃ k, 1 ≤ k ∧ k ≤ pre.length ∧
        ∀ f, 2 * pre.length ≤ f → parseParts f reach (pre ++ rest) = parsePartsLoop (f - k) reach e rest) ∧
    (∀ pre rest e, pre.length ≤ n → DExpr reach pre rest e → headP contParts rest = false →
      ∃ k, 1 ≤ k ∧ k ≤ pre.length ∧
        ∀ f, 2 * pre.length + 1 ≤ f → parseExpr f reach (pre ++ rest) = parseExprLoop (f - k) reach e rest) := by
  induction n with
  | zero =>
    refine ⟨?_, ?_, ?_⟩
    · intro pre rest e hn h; have := length_pos_of_ne (dpart_ne h); omega
    · intro pre rest e hn h; have := length_pos_of_ne (dparts_ne h); omega
    · intro pre rest e hn h; have := length_pos_of_ne (dexpr_ne h); omega
  | succ n ih =>
    obtain ⟨ihP, ihPs, ihE⟩ := ih
    -- parts first
    have hP : ∀ pre rest e, pre.length ≤ n + 1 → DPart reach pre rest e → headP contPart rest = false →
        ∀ f, 2 * pre.length ≤ f + 1 → parsePart f reach (pre ++ rest) = some (e, rest) := by
      intro pre rest e hn h hr f hf
      cases h with
      | @paren p0 suf _ e0 _ hE hS =>
        simp only [List.length_cons, List.length_append] at hn hf
        obtain ⟨f, rfl⟩ : ∃ g, f = g + 1 := ⟨f - 1, by omega⟩
        obtain ⟨k, hk1, hk2, hk⟩ := ihE p0 _ e0 (by omega) hE rfl
        simp only [List.cons_append, List.append_assoc]
        rw [parsePart_succ, parseAtom_lparen, hk f (by omega), parseExprLoop_done _ _ _ _ (by omega) rfl]
        simp only [Option.map_some]
        rw [parseSuffix_complete hS rest hr f (by omega)]
      | @var suf n' _ _ hS =>
        simp only [List.length_cons] at hn hf
        obtain ⟨f, rfl⟩ : ∃ g, f = g + 1 := ⟨f - 1, by omega⟩
        simp only [List.cons_append]
        rw [parsePart_succ]
        have : parseAtom f reach (.id n' :: .lparen :: .rparen :: (suf ++ rest)) = some (.var n', suf ++ rest) := rfl
        rw [this]
        simp only [Option.map_some]
        rw [parseSuffix_complete hS rest hr f (by omega)]
      | @name suf _ n' _ hS =>
        simp only [List.length_cons] at hn hf
        obtain ⟨f, rfl⟩ : ∃ g, f = g + 1 := ⟨f - 1, by omega⟩
        simp only [List.cons_append]
        rw [parsePart_succ, parseAtom_id _ _ _ _ (dsuffix_head hS rest hr)]
        simp only [Option.map_some]
        rw [show (if (reach && !dotAhead (suf ++ rest)) = true then Expr.step n' else Expr.field n') =
          classify reach (suf ++ rest) n' from rfl, parseSuffix_complete hS rest hr f (by omega)]
    have hPs : ∀ pre rest e, pre.length ≤ n + 1 → DParts reach pre rest e → headP contPart rest = false →
        ∃ k, 1 ≤ k ∧ k ≤ pre.length ∧
          ∀ f, 2 * pre.length ≤ f → parseParts f reach (pre ++ rest) = parsePartsLoop (f - k) reach e rest := by
      intro pre rest e hn h hr
      cases h with
      | one h =>
        have h1 := length_pos_of_ne (dpart_ne h)
        refine ⟨1, by omega, h1, ?_⟩
        intro f hf
        obtain ⟨f, rfl⟩ : ∃ g, f = g + 1 := ⟨f - 1, by omega⟩
        rw [parseParts_succ, hP pre rest e hn h hr f (by omega)]
        simp
      | @dot p1 p2 _ l r h1 h2 =>
        simp only [List.length_append, List.length_cons] at hn
        obtain ⟨k, hk1, hk2, hk⟩ := ihPs p1 _ l (by omega) h1 rfl
        have hp2 := length_pos_of_ne (dpart_ne h2)
        refine ⟨k + 1, by omega, by simp only [List.length_append, List.length_cons]; omega, ?_⟩
        intro f hf
        simp only [List.length_append, List.length_cons] at hf
        simp only [List.append_assoc, List.cons_append]
        rw [hk f (by omega)]
        obtain ⟨j, hj⟩ : ∃ j, f - k = j + 1 := ⟨f - k - 1, by omega⟩
        rw [hj, parsePartsLoop_dot, ihP p2 rest r (by omega) h2 hr j (by omega)]
        simp only [Option.bind_some]
        congr 1; omega
    refine ⟨hP, hPs, ?_⟩
    intro pre rest e hn h hr
    cases h with
    | one h =>
      have h1 := length_pos_of_ne (dparts_ne h)
      obtain ⟨k, hk1, hk2, hk⟩ := hPs pre rest e hn h (headP_contPart_of_contParts rest hr)
      refine ⟨1, by omega, h1, ?_⟩
      intro f hf
      obtain ⟨f, rfl⟩ : ∃ g, f = g + 1 := ⟨f - 1, by omega⟩
      rw [parseExpr_succ, hk f (by omega), parsePartsLoop_done _ _ _ _ (by omega) hr]
      simp
    | @op p1 t p2 _ l o r h1 hop h2 =>
      simp only [List.length_append, List.length_cons] at hn
      have hop' : setOp t = some o := by cases hop <;> rfl
      obtain ⟨k, hk1, hk2, hk⟩ := ihE p1 _ l (by omega) h1 (setOp_tok_skip hop' _).2
      obtain ⟨k2, hk21, hk22, hk2'⟩ := ihPs p2 rest r (by omega) h2 (headP_contPart_of_contParts rest hr)
      refine ⟨k + 1, by omega, by simp only [List.length_append, List.length_cons]; omega, ?_⟩
      intro f hf
      simp only [List.length_append, List.length_cons] at hf
      simp only [List.append_assoc, List.cons_append]
      rw [hk f (by omega)]
      obtain ⟨j, hj⟩ : ∃ j, f - k = j + 1 := ⟨f - k - 1, by omega⟩
      rw [hj, parseExprLoop_op _ _ _ _ _ _ hop', hk2' j (by omega), parsePartsLoop_done _ _ _ _ (by omega) hr]
      simp only [Option.bind_some]
      congr 1; omega

/-- completeness: a derivable prefix followed by nothing that could continue the expression is parsed, with fuel
twice its length -/
theorem parseExpr_complete (reach : Bool) (pre rest : List Tok) (e : Expr) (h : DExpr reach pre rest e)
    (hr : headP contExpr rest = false) (f : Nat) (hf : 2 * pre.length + 1 ≤ f) :
    parseExpr f reach (pre ++ rest) = some (e, rest) := by
  obtain ⟨k, hk1, hk2, hk⟩ := (expr_complete reach pre.length).2.2 pre rest e (Nat.le_refl _) h
    (headP_contParts_of_contExpr rest hr)
  rw [hk f hf, parseExprLoop_done _ _ _ _ (by omega) hr]


/-! ### lists of expressions -/

theorem dexprlist_ne {reach : Bool} {pre rest : List Tok} {l : List Expr} (h : DExprList reach pre rest l) : pre ≠ [] := by
  cases h with
  | one h => exact dexpr_ne h
  | cons _ _ => simp

theorem parseExprList_complete (reach : Bool) (pre rest : List Tok) (l : List Expr) (h : DExprList reach pre rest l)
    (hr : headP contList rest = false) (f : Nat) (hf : 2 * pre.length + 2 ≤ f) :
    parseExprList f reach (pre ++ rest) = some (l, rest) := by
  induction h generalizing f with
  | one h =>
    obtain ⟨f, rfl⟩ : ∃ g, f = g + 1 := ⟨f - 1, by omega⟩
    rw [parseExprList_last (parseExpr_complete reach _ _ _ h (headP_contExpr_of_contList _ hr) f (by omega))]
    intro r hr'; subst hr'; simp [headP, contList] at hr
  | @cons p1 p2 _ e es h1 h2 ih =>
    simp only [List.length_append, List.length_cons] at hf
    obtain ⟨f, rfl⟩ : ∃ g, f = g + 1 := ⟨f - 1, by omega⟩
    simp only [List.append_assoc, List.cons_append]
    have hp1 := length_pos_of_ne (dexpr_ne h1)
    rw [parseExprList_comma (parseExpr_complete reach _ _ _ h1 rfl f (by omega)), ih hr f (by omega)]
    rfl

/-! ### TTC -/

theorem dargs_shape {pre : List Tok} {ns : List String} (h : DArgs pre ns) :
    ∃ t r n, pre = t :: r ∧ numTok t = some n ∧ 2 ≤ pre.length := by
  cases h with
  | last hn => exact ⟨_, _, _, rfl, hn, by simp⟩
  | cons hn _ => exact ⟨_, _, _, rfl, hn, by simp⟩

theorem parseArgs_complete {pre : List Tok} {ns : List String} (h : DArgs pre ns) (rest : List Tok) (f : Nat)
    (hf : pre.length ≤ 2 * f) : parseArgs f (pre ++ rest) = some (ns, rest) := by
  induction h generalizing f with
  | last hn =>
    simp only [List.length_cons, List.length_nil] at hf
    obtain ⟨f, rfl⟩ : ∃ g, f = g + 1 := ⟨f - 1, by omega⟩
    simp [parseArgs, hn]
  | cons hn h ih =>
    simp only [List.length_cons] at hf
    obtain ⟨f, rfl⟩ : ∃ g, f = g + 1 := ⟨f - 1, by omega⟩
    simp only [List.cons_append]
    simp only [parseArgs, hn, Option.bind_some, ih f (by omega), Option.map_some]

theorem dttcAtom_ne {pre : List Tok} {t : TTC} (h : DTtcAtom pre t) : pre ≠ [] := by cases h <;> simp
theorem dttcFact_ne {pre : List Tok} {t : TTC} (h : DTtcFact pre t) : pre ≠ [] := by
  cases h with
  | atom h => exact dttcAtom_ne h
  | pow _ _ => simp
theorem dttcTerm_ne {pre : List Tok} {t : TTC} (h : DTtcTerm pre t) : pre ≠ [] := by
  cases h with
  | one h => exact dttcFact_ne h
  | op _ _ _ => simp
theorem dttcExpr_ne {pre : List Tok} {t : TTC} (h : DTtcExpr pre t) : pre ≠ [] := by
  cases h with
  | one h => exact dttcTerm_ne h
  | op _ _ _ => simp

theorem ttcAtomStep_id_bare (pe : List Tok → P TTC) (pa : List Tok → P (List String)) (n : String) (rest : List Tok)
    (hr : headP contTAtom rest = false) : ttcAtomStep pe pa (.id n :: rest) = some (.func n [], rest) := by
  unfold ttcAtomStep
  split
  · rename_i h; simp only [List.cons.injEq] at h; rw [h.2] at hr; simp [headP, contTAtom] at hr
  · rename_i h; simp only [List.cons.injEq] at h; rw [h.2] at hr; simp [headP, contTAtom] at hr
  · rename_i h; simp only [List.cons.injEq, Tok.id.injEq] at h; obtain ⟨rfl, rfl⟩ := h; rfl
  · rename_i h; simp at h
  · rename_i h; simp at h
  · rename_i h; simp at h
  · rename_i h1 h2 h3 h4 h5 h6; exact (h3 _ _ rfl).elim

theorem ttcAtomStep_id_args (pe : List Tok → P TTC) (pa : List Tok → P (List String)) (n : String) (ts : List Tok)
    (h : ∀ r, ts ≠ .rparen :: r) :
    ttcAtomStep pe pa (.id n :: .lparen :: ts) = (pa ts).map (fun r => (.func n r.1, r.2)) := by
  unfold ttcAtomStep
  split
  · rename_i h'; simp only [List.cons.injEq] at h'; exact absurd h'.2.2 (h _)
  · rename_i h'; simp only [List.cons.injEq, Tok.id.injEq] at h'; obtain ⟨rfl, _, rfl⟩ := h'; rfl
  · rename_i h1 h2 h'; simp only [List.cons.injEq, Tok.id.injEq] at h'; exact absurd h'.2.symm (h2 _)
  · rename_i h'; simp at h'
  · rename_i h'; simp at h'
  · rename_i h'; simp at h'
  · rename_i h1 h2 h3 h4 h5 h6; exact (h3 _ _ rfl).elim

theorem ttc_complete (n : Nat) :
    (∀ pre t, pre.length ≤ n → DTtcAtom pre t → ∀ rest, headP contTAtom rest = false →
      ∀ f, 2 * pre.length ≤ f + 1 → parseTtcAtom f (pre ++ rest) = some (t, rest)) ∧
    (∀ pre t, pre.length ≤ n → DTtcFact pre t → ∀ rest, headP contTFact rest = false →
      ∀ f, 2 * pre.length ≤ f → parseTtcFact f (pre ++ rest) = some (t, rest)) ∧
    (∀ pre t, pre.length ≤ n → DTtcTerm pre t → ∀ rest, headP contTFact rest = false →
      ∃ k, 1 ≤ k ∧ k ≤ pre.length ∧
        ∀ f, 2 * pre.length + 1 ≤ f → parseTtcTerm f (pre ++ rest) = parseTtcTermLoop (f - k) t rest) ∧
    (∀ pre t, pre.length ≤ n → DTtcExpr pre t → ∀ rest, headP contTTerm rest = false →
      ∃ k, 1 ≤ k ∧ k ≤ pre.length ∧
        ∀ f, 2 * pre.length + 2 ≤ f → parseTtcExpr f (pre ++ rest) = parseTtcExprLoop (f - k) t rest) := by
  induction n with
  | zero =>
    refine ⟨?_, ?_, ?_, ?_⟩
    · intro pre t hn h; have := length_pos_of_ne (dttcAtom_ne h); omega
    · intro pre t hn h; have := length_pos_of_ne (dttcFact_ne h); omega
    · intro pre t hn h; have := length_pos_of_ne (dttcTerm_ne h); omega
    · intro pre t hn h; have := length_pos_of_ne (dttcExpr_ne h); omega
  | succ n ih =>
    obtain ⟨ihA, ihF, ihT, ihE⟩ := ih
    have hA : ∀ pre t, pre.length ≤ n + 1 → DTtcAtom pre t → ∀ rest, headP contTAtom rest = false →
        ∀ f, 2 * pre.length ≤ f + 1 → parseTtcAtom f (pre ++ rest) = some (t, rest) := by
      intro pre t hn h rest hr f hf
      cases h with
      | dist0 =>
        simp only [List.length_cons, List.length_nil] at hf
        obtain ⟨f, rfl⟩ : ∃ g, f = g + 1 := ⟨f - 1, by omega⟩
        simp only [List.cons_append, List.nil_append]
        rw [parseTtcAtom_succ, ttcAtomStep_id_bare _ _ _ _ hr]
      | distEmpty =>
        simp only [List.length_cons, List.length_nil] at hf
        obtain ⟨f, rfl⟩ : ∃ g, f = g + 1 := ⟨f - 1, by omega⟩
        rw [parseTtcAtom_succ]; rfl
      | @dist pa ns nm hargs =>
        simp only [List.length_cons] at hf
        obtain ⟨f, rfl⟩ : ∃ g, f = g + 1 := ⟨f - 1, by omega⟩
        obtain ⟨t0, r0, n0, hp, hn0, hl⟩ := dargs_shape hargs
        simp only [List.cons_append]
        rw [parseTtcAtom_succ, ttcAtomStep_id_args, parseArgs_complete hargs rest f (by omega)]
        · rfl
        · intro r hr'; rw [hp] at hr'; simp only [List.cons_append, List.cons.injEq] at hr'
          rw [hr'.1] at hn0; simp [numTok] at hn0
      | @paren p0 _ hE =>
        simp only [List.length_cons, List.length_append, List.length_nil] at hn hf
        obtain ⟨f, rfl⟩ : ∃ g, f = g + 1 := ⟨f - 1, by omega⟩
        obtain ⟨k, hk1, hk2, hk⟩ := ihE p0 t (by omega) hE (.rparen :: rest) rfl
        simp only [List.cons_append, List.append_assoc, List.nil_append]
        rw [parseTtcAtom_succ, ttcAtomStep_lparen, hk f (by omega), parseTtcExprLoop_done _ _ _ (by omega) rfl]
      | @num tk v hv =>
        simp only [List.length_cons, List.length_nil] at hf
        obtain ⟨f, rfl⟩ : ∃ g, f = g + 1 := ⟨f - 1, by omega⟩
        simp only [List.cons_append, List.nil_append]
        rw [parseTtcAtom_succ]
        cases tk <;> simp [numTok] at hv <;> subst hv <;> rfl
    have hF : ∀ pre t, pre.length ≤ n + 1 → DTtcFact pre t → ∀ rest, headP contTFact rest = false →
        ∀ f, 2 * pre.length ≤ f → parseTtcFact f (pre ++ rest) = some (t, rest) := by
      intro pre t hn h rest hr f hf
      cases h with
      | atom h =>
        have h1 := length_pos_of_ne (dttcAtom_ne h)
        obtain ⟨f, rfl⟩ : ∃ g, f = g + 1 := ⟨f - 1, by omega⟩
        rw [parseTtcFact_succ, hA pre t hn h rest (headP_tAtom_of_tFact rest hr) f (by omega)]
        simp only [Option.bind_some]
        apply factTail_stop
        intro r hr'; subst hr'; simp [headP, contTFact] at hr
      | @pow p1 a p2 b h1 h2 =>
        simp only [List.length_append, List.length_cons] at hn hf
        obtain ⟨f, rfl⟩ : ∃ g, f = g + 1 := ⟨f - 1, by omega⟩
        simp only [List.append_assoc, List.cons_append]
        rw [parseTtcFact_succ, ihA p1 a (by omega) h1 _ rfl f (by omega)]
        simp only [Option.bind_some]
        rw [factTail_power, ihA p2 b (by omega) h2 rest (headP_tAtom_of_tFact rest hr) f (by omega)]
        rfl
    have hT : ∀ pre t, pre.length ≤ n + 1 → DTtcTerm pre t → ∀ rest, headP contTFact rest = false →
        ∃ k, 1 ≤ k ∧ k ≤ pre.length ∧
          ∀ f, 2 * pre.length + 1 ≤ f → parseTtcTerm f (pre ++ rest) = parseTtcTermLoop (f - k) t rest := by
      intro pre t hn h rest hr
      cases h with
      | one h =>
        have h1 := length_pos_of_ne (dttcFact_ne h)
        refine ⟨1, by omega, h1, ?_⟩
        intro f hf
        obtain ⟨f, rfl⟩ : ∃ g, f = g + 1 := ⟨f - 1, by omega⟩
        rw [parseTtcTerm_succ, hF pre t hn h rest hr f (by omega)]
        simp
      | @op p1 l tk o p2 r h1 hop h2 =>
        simp only [List.length_append, List.length_cons] at hn
        have hop' : mulOp tk = some o := by cases hop <;> rfl
        obtain ⟨k, hk1, hk2, hk⟩ := ihT p1 l (by omega) h1 (tk :: (p2 ++ rest)) (mulOp_tok_follow hop' _)
        have hp2 := length_pos_of_ne (dttcFact_ne h2)
        refine ⟨k + 1, by omega, by simp only [List.length_append, List.length_cons]; omega, ?_⟩
        intro f hf
        simp only [List.length_append, List.length_cons] at hf
        simp only [List.append_assoc, List.cons_append]
        rw [hk f (by omega)]
        obtain ⟨j, hj⟩ : ∃ j, f - k = j + 1 := ⟨f - k - 1, by omega⟩
        rw [hj, parseTtcTermLoop_op _ _ _ _ _ hop', ihF p2 r (by omega) h2 rest hr j (by omega)]
        simp only [Option.bind_some]
        congr 1; omega
    refine ⟨hA, hF, hT, ?_⟩
    intro pre t hn h rest hr
    cases h with
    | one h =>
      have h1 := length_pos_of_ne (dttcTerm_ne h)
      obtain ⟨k, hk1, hk2, hk⟩ := hT pre t hn h rest (headP_tFact_of_tTerm rest hr)
      refine ⟨1, by omega, h1, ?_⟩
      intro f hf
      obtain ⟨f, rfl⟩ : ∃ g, f = g + 1 := ⟨f - 1, by omega⟩
      rw [parseTtcExpr_succ, hk f (by omega), parseTtcTermLoop_done _ _ _ (by omega) hr]
      simp
    | @op p1 l tk o p2 r h1 hop h2 =>
      simp only [List.length_append, List.length_cons] at hn
      have hop' : addOp tk = some o := by cases hop <;> rfl
      obtain ⟨k, hk1, hk2, hk⟩ := ihE p1 l (by omega) h1 (tk :: (p2 ++ rest)) (addOp_tok_follow hop' _)
      obtain ⟨k2, hk21, hk22, hk2'⟩ := ihT p2 r (by omega) h2 rest (headP_tFact_of_tTerm rest hr)
      refine ⟨k + 1, by omega, by simp only [List.length_append, List.length_cons]; omega, ?_⟩
      intro f hf
      simp only [List.length_append, List.length_cons] at hf
      simp only [List.append_assoc, List.cons_append]
      rw [hk f (by omega)]
      obtain ⟨j, hj⟩ : ∃ j, f - k = j + 1 := ⟨f - k - 1, by omega⟩
      rw [hj, parseTtcExprLoop_op _ _ _ _ _ hop', hk2' j (by omega), parseTtcTermLoop_done _ _ _ (by omega) hr]
      simp only [Option.bind_some]
      congr 1; omega

theorem parseTtcExpr_complete (pre : List Tok) (t : TTC) (h : DTtcExpr pre t) (rest : List Tok)
    (hr : headP contTExpr rest = false) (f : Nat) (hf : 2 * pre.length + 2 ≤ f) :
    parseTtcExpr f (pre ++ rest) = some (t, rest) := by
  obtain ⟨k, hk1, hk2, hk⟩ := (ttc_complete pre.length).2.2.2 pre t (Nat.le_refl _) h rest
    (headP_tTerm_of_tExpr rest hr)
  rw [hk f hf, parseTtcExprLoop_done _ _ _ (by omega) hr]


/-! ### metas, tags, risk -/

theorem dmetas_length {pre : List Tok} {kvs : List (String × String)} (h : DMetas pre kvs) :
    pre.length = 4 * kvs.length := by
  induction h with
  | nil => rfl
  | cons _ ih => simp only [List.length_cons, ih]; omega

theorem parseMetas_complete {pre : List Tok} {kvs : List (String × String)} (h : DMetas pre kvs) (rest : List Tok)
    (hr : metaStart rest = false) (f : Nat) (hf : kvs.length ≤ f) (m0 : Meta) :
    parseMetas f m0 (pre ++ rest) = (metaOf m0 kvs, rest) := by
  induction h generalizing f m0 with
  | nil => exact parseMetas_stop f m0 rest hr
  | cons h ih =>
    simp only [List.length_cons] at hf
    obtain ⟨f, rfl⟩ : ∃ g, f = g + 1 := ⟨f - 1, by omega⟩
    simp only [List.cons_append]
    unfold parseMetas
    simp only
    rw [ih f (by omega), metaOf_cons]

theorem dtags_length {pre : List Tok} {ts : List String} (h : DTags pre ts) : pre.length = 2 * ts.length := by
  induction h with
  | nil => rfl
  | cons _ ih => simp only [List.length_cons, ih]; omega

theorem parseTags_complete {pre : List Tok} {ts : List String} (h : DTags pre ts) (rest : List Tok)
    (hr : headP (· == .at) rest = false) (f : Nat) (hf : ts.length ≤ f) (acc : List String) :
    parseTags f acc (pre ++ rest) = (acc ++ ts, rest) := by
  induction h generalizing f acc with
  | nil => simpa [prTags] using parseTags_prTags [] f acc rest (by simp) hr
  | cons h ih =>
    simp only [List.length_cons] at hf
    obtain ⟨f, rfl⟩ : ∃ g, f = g + 1 := ⟨f - 1, by omega⟩
    simp only [List.cons_append]
    unfold parseTags
    simp only
    rw [ih f (by omega)]
    simp

theorem parseCias_complete {pre : List Tok} {rs : List (Bool × Bool × Bool)} (h : DCias pre rs) (rest : List Tok)
    (f : Nat) (hf : pre.length ≤ 2 * f) (acc : Bool × Bool × Bool) :
    parseCias f acc (pre ++ rest) = some (rs.foldl riskOr acc, rest) := by
  induction h generalizing f acc with
  | last hc =>
    simp only [List.length_cons, List.length_nil] at hf
    obtain ⟨f, rfl⟩ : ∃ g, f = g + 1 := ⟨f - 1, by omega⟩
    simp [parseCias, hc]
  | cons hc h ih =>
    simp only [List.length_cons] at hf
    obtain ⟨f, rfl⟩ : ∃ g, f = g + 1 := ⟨f - 1, by omega⟩
    simp only [List.cons_append]
    simp only [parseCias, hc, Option.bind_some, ih f (by omega), List.foldl_cons]

/-! ### steps -/

theorem ciasStage_complete {pre : List Tok} {risk : Option (Bool × Bool × Bool)} (h : DRisk pre risk) (X : List Tok)
    (hX : headP (· == .lcurly) X = false) (f : Nat) (hf : pre.length ≤ 2 * f + 1) :
    ciasStage f (pre ++ X) = some (risk, X) := by
  cases h with
  | none =>
    simp only [List.nil_append]
    unfold ciasStage
    split
    · simp [headP] at hX
    · rfl
  | some h =>
    simp only [List.length_cons] at hf
    simp only [List.cons_append]
    unfold ciasStage
    simp only
    rw [parseCias_complete h X f (by omega)]; rfl

theorem ttcStage_complete {pre : List Tok} {tt : Option TTC} (h : DTtcOpt pre tt) (X : List Tok)
    (hX : headP (· == .lsquare) X = false) (f : Nat) (hf : 2 * pre.length ≤ f + 2) :
    ttcStage f (pre ++ X) = some (tt, X) := by
  cases h with
  | none =>
    simp only [List.nil_append]
    unfold ttcStage
    split
    · simp [headP] at hX
    · rfl
  | some h =>
    simp only [List.length_cons, List.length_append, List.length_nil] at hf
    simp only [List.cons_append, List.append_assoc]
    unfold ttcStage
    simp only
    rw [parseTtcExpr_complete _ _ h _ rfl f (by omega)]
    rfl

theorem preStage_complete {pre rest : List Tok} {req : Option (List Expr)} (h : DReq pre rest req)
    (hX : headP contList rest = false) (hX' : headP (· == .requires) rest = false) (f : Nat)
    (hf : 2 * pre.length + 2 ≤ f) : preStage f (pre ++ rest) = some (req, rest) := by
  cases h with
  | none =>
    simp only [List.nil_append]
    unfold preStage
    split
    · simp [headP] at hX'
    · rfl
  | some h =>
    simp only [List.length_cons] at hf
    simp only [List.cons_append]
    unfold preStage
    simp only
    rw [parseExprList_complete false _ _ _ h hX f (by omega)]
    rfl

theorem rchStage_complete {pre rest : List Tok} {rch : Option (Bool × List Expr)} (h : DRch pre rest rch)
    (hX : clauseEnd rest = true) (f : Nat) (hf : 2 * pre.length + 2 ≤ f) :
    rchStage f (pre ++ rest) = some (rch, rest) := by
  cases h with
  | none =>
    simp only [List.nil_append]
    unfold rchStage
    split
    · simp [clauseEnd, endsClause] at hX
    · simp [clauseEnd, endsClause] at hX
    · rfl
  | leadsto h =>
    simp only [List.length_cons] at hf
    simp only [List.cons_append]
    unfold rchStage
    simp only
    rw [parseExprList_complete true _ _ _ h (clauseEnd_contList rest hX) f (by omega)]
    rfl
  | inherits h =>
    simp only [List.length_cons] at hf
    simp only [List.cons_append]
    unfold rchStage
    simp only
    rw [parseExprList_complete true _ _ _ h (clauseEnd_contList rest hX) f (by omega)]
    rfl

theorem dheads5 {pre rest : List Tok} {rch : Option (Bool × List Expr)} (h : DRch pre rest rch)
    (hr : clauseEnd rest = true) : heads H5 (pre ++ rest) := by
  apply heads_append _ (heads_clauseEnd hr)
  · intro t ht; cases t <;> simp_all [H5, endsClause]
  · intro t r' ht; cases h <;> simp at ht <;> rw [← ht.1] <;> rfl

theorem dheads4 {pre rest : List Tok} {req : Option (List Expr)} (h : DReq pre rest req) {X : List Tok}
    (hX : heads H5 X) : heads H4 (pre ++ X) := by
  apply heads_append _ hX
  · intro t ht; cases t <;> simp_all [H4, H5]
  · intro t r' ht; cases h <;> simp at ht; rw [← ht.1]; rfl

theorem dheads3 {pre : List Tok} {kvs : List (String × String)} (h : DMetas pre kvs) {X : List Tok}
    (hX : heads H4 X) : heads H3 (pre ++ X) := by
  apply heads_append _ hX
  · intro t ht; cases t <;> simp_all [H3, H4]
  · intro t r' ht; cases h <;> simp at ht; rw [← ht.1]; rfl

theorem dheads2 {pre : List Tok} {tt : Option TTC} (h : DTtcOpt pre tt) {X : List Tok}
    (hX : heads H3 X) : heads H2 (pre ++ X) := by
  apply heads_append _ hX
  · intro t ht; cases t <;> simp_all [H2, H3]
  · intro t r' ht; cases h <;> simp at ht; rw [← ht.1]; rfl

theorem dheads1 {pre : List Tok} {risk : Option (Bool × Bool × Bool)} (h : DRisk pre risk) {X : List Tok}
    (hX : heads H2 X) : heads H1 (pre ++ X) := by
  apply heads_append _ hX
  · intro t ht; cases t <;> simp_all [H1, H2]
  · intro t r' ht; cases h <;> simp at ht; rw [← ht.1]; rfl

theorem dcias_length {pre : List Tok} {rs : List (Bool × Bool × Bool)} (h : DCias pre rs) : 2 ≤ pre.length := by
  cases h <;> simp

theorem parseStep_complete {pre rest : List Tok} {s : CStep} (h : DStep pre rest s) (hr : clauseEnd rest = true)
    (f : Nat) (hf : 2 * pre.length + 2 ≤ f) : parseStep f (pre ++ rest) = some (s, rest) := by
  cases h with
  | @mk t ty pTags tags pRisk risk pTtc tt pMeta kvs pReq pRch _ req rch name hty hTags hRisk hTtc hMeta hReq hRch =>
    simp only [List.length_cons, List.length_append] at hf
    have hlt := dtags_length hTags
    have hlm := dmetas_length hMeta
    have g5 := dheads5 hRch hr
    have g4 := dheads4 hReq g5
    have g3 := dheads3 hMeta g4
    have g2 := dheads2 hTtc g3
    have g1 := dheads1 hRisk g2
    simp only [List.cons_append, List.append_assoc]
    rw [parseStep_eq, hty]
    simp only [Option.bind_some]
    rw [parseTags_complete hTags _
      (headP_of_heads g1 (by intro t ht; cases t <;> simp_all [H1, H2, H3, H4, H5, endsClause])) f (by omega) []]
    simp only [List.nil_append]
    rw [ciasStage_complete hRisk _
      (headP_of_heads g2 (by intro t ht; cases t <;> simp_all [H2, H3, H4, H5, endsClause])) f (by omega)]
    simp only [Option.bind_some]
    rw [ttcStage_complete hTtc _
      (headP_of_heads g3 (by intro t ht; cases t <;> simp_all [H3, H4, H5, endsClause])) f (by omega)]
    simp only [Option.bind_some]
    rw [parseMetas_complete hMeta _
      (metaStart_of_headP _ (headP_of_heads g4 (by intro t ht; cases t <;> simp_all [H4, H5, endsClause, isIdTok])))
      f (by omega) []]
    simp only
    rw [preStage_complete hReq
      (headP_of_heads g5 (by intro t ht; cases t <;> simp_all [H5, endsClause, contList, contExpr, contParts, contPart]))
      (headP_of_heads g5 (by intro t ht; cases t <;> simp_all [H5, endsClause])) f (by omega)]
    simp only [Option.bind_some]
    rw [rchStage_complete hRch hr f (by omega)]
    rfl


/-! ### assets -/

theorem stepType_endsClause {t : Tok} {ty : String} (h : stepType t = some ty) : endsClause t = true := by
  cases t <;> simp [stepType] at h <;> rfl

theorem dstep_head {pre rest : List Tok} {s : CStep} (h : DStep pre rest s) :
    ∃ t ty r, pre = t :: r ∧ stepType t = some ty := by
  cases h with
  | mk hty _ _ _ _ _ _ => exact ⟨_, _, _, rfl, hty⟩

theorem dassetBody_clauseEnd {pre rest : List Tok} {vs : List (String × Expr)} {ss : List CStep}
    (h : DAssetBody pre rest vs ss) (X : List Tok) : clauseEnd (pre ++ X) = true := by
  cases h with
  | done => rfl
  | var _ _ => rfl
  | step hs _ =>
    obtain ⟨t, ty, r, rfl, hty⟩ := dstep_head hs
    exact stepType_endsClause hty

theorem dassetBody_ne {pre rest : List Tok} {vs : List (String × Expr)} {ss : List CStep}
    (h : DAssetBody pre rest vs ss) : 1 ≤ pre.length := by
  cases h with
  | done => simp
  | var _ _ => simp
  | step hs _ => have := length_pos_of_ne (DStep_ne_nil hs); simp; omega

theorem parseAssetBody_complete {pre rest : List Tok} {vs : List (String × Expr)} {ss : List CStep}
    (h : DAssetBody pre rest vs ss) (f : Nat) (hf : 2 * pre.length + 1 ≤ f) (vs0 : List (String × Expr))
    (ss0 : List CStep) : parseAssetBody f vs0 ss0 (pre ++ rest) = some ((vs0 ++ vs, ss0 ++ ss), rest) := by
  induction h generalizing f vs0 ss0 with
  | done =>
    obtain ⟨f, rfl⟩ : ∃ g, f = g + 1 := ⟨f - 1, by omega⟩
    simp only [List.cons_append, List.nil_append, List.append_nil]
    exact parseAssetBody_rcurly _ _ _ _
  | @var pe pm _ e vs' ss' v he hb ih =>
    simp only [List.length_cons, List.length_append] at hf
    obtain ⟨f, rfl⟩ : ∃ g, f = g + 1 := ⟨f - 1, by omega⟩
    simp only [List.cons_append, List.append_assoc]
    rw [parseAssetBody_let, parseExpr_complete false _ _ _ he
      (clauseEnd_contExpr _ (dassetBody_clauseEnd hb _)) f (by omega)]
    simp only [Option.bind_some]
    rw [ih f (by omega)]
    simp
  | @step ps pm _ s vs' ss' hs hb ih =>
    simp only [List.length_append] at hf
    have h1 := length_pos_of_ne (DStep_ne_nil hs)
    have h2 := dassetBody_ne hb
    obtain ⟨f, rfl⟩ : ∃ g, f = g + 1 := ⟨f - 1, by omega⟩
    obtain ⟨t, ty, r, hps, hty⟩ := dstep_head hs
    simp only [List.append_assoc]
    rw [parseAssetBody_step]
    · rw [parseStep_complete hs (dassetBody_clauseEnd hb _) f (by omega)]
      simp only [Option.bind_some]
      rw [ih f (by omega)]
      simp
    · intro r' h'; rw [hps] at h'; simp only [List.cons_append, List.cons.injEq] at h'
      rw [h'.1] at hty; simp [stepType] at hty
    · intro v r' h'; rw [hps] at h'; simp only [List.cons_append, List.cons.injEq] at h'
      rw [h'.1] at hty; simp [stepType] at hty

theorem parseAsset_complete {cat : String} {pre rest : List Tok} {a : CAsset} (h : DAsset cat pre rest a) (f : Nat)
    (hf : 2 * pre.length + 1 ≤ f) : parseAsset f cat (pre ++ rest) = some (a, rest) := by
  cases h with
  | @mk pAbs abs pSup sup sn pMeta kvs pBody _ vs ss name hAbs hSup hMeta hBody =>
    simp only [List.length_append, List.length_cons] at hf
    have hlm := dmetas_length hMeta
    simp only [List.append_assoc, List.cons_append]
    rw [parseAsset_eq]
    have hh : assetHdr (pAbs ++ .kwAsset :: .id name :: (pSup ++ (pMeta ++ .lcurly :: (pBody ++ rest)))) =
        some (abs, name, pSup ++ (pMeta ++ .lcurly :: (pBody ++ rest))) := by
      rcases hAbs with ⟨rfl, rfl⟩ | ⟨rfl, rfl⟩ <;> rfl
    rw [hh]
    simp only [Option.bind_some]
    have hs : assetSup (pSup ++ (pMeta ++ .lcurly :: (pBody ++ rest))) = (sup, pMeta ++ .lcurly :: (pBody ++ rest)) := by
      rcases hSup with ⟨rfl, rfl⟩ | ⟨rfl, rfl⟩
      · rfl
      · simp only [List.nil_append]
        unfold assetSup
        split
        · rename_i heq
          cases hMeta <;> simp at heq
        · rfl
    rw [hs]
    simp only
    rw [parseMetas_complete hMeta _ rfl f (by omega) []]
    unfold assetBodyStage
    simp only
    rw [parseAssetBody_complete hBody f (by omega) [] []]
    rfl

theorem dasset_head {cat : String} {pre rest : List Tok} {a : CAsset} (h : DAsset cat pre rest a) (X : List Tok) :
    ∀ r, pre ++ X ≠ .rcurly :: r := by
  intro r hr
  cases h with
  | mk hAbs _ _ _ => rcases hAbs with ⟨rfl, _⟩ | ⟨rfl, _⟩ <;> simp at hr

theorem dassets_ne {cat : String} {pre rest : List Tok} {as : List CAsset} (h : DAssets cat pre rest as) :
    1 ≤ pre.length := by
  cases h with
  | done => simp
  | cons ha _ => have := length_pos_of_ne (DAsset_ne_nil ha); simp; omega

theorem parseAssets_complete {cat : String} {pre rest : List Tok} {as : List CAsset} (h : DAssets cat pre rest as)
    (f : Nat) (hf : 2 * pre.length + 1 ≤ f) (acc : List CAsset) :
    parseAssets f cat acc (pre ++ rest) = some (acc ++ as, rest) := by
  induction h generalizing f acc with
  | done =>
    obtain ⟨f, rfl⟩ : ∃ g, f = g + 1 := ⟨f - 1, by omega⟩
    simp only [List.cons_append, List.nil_append, List.append_nil]
    exact parseAssets_rcurly _ _ _ _
  | @cons pa pm _ a as' ha hm ih =>
    simp only [List.length_append] at hf
    have h1 := length_pos_of_ne (DAsset_ne_nil ha)
    have h2 := dassets_ne hm
    obtain ⟨f, rfl⟩ : ∃ g, f = g + 1 := ⟨f - 1, by omega⟩
    simp only [List.append_assoc]
    rw [parseAssets_asset _ _ _ _ (dasset_head ha _), parseAsset_complete ha f (by omega)]
    simp only [Option.bind_some]
    rw [ih f (by omega)]
    simp

/-! ### associations -/

theorem parseMult_complete {pre : List Tok} {m : Nat × Option Nat} (h : DMult pre m) (rest : List Tok)
    (hr : headP (· == .range) rest = false) : parseMult (pre ++ rest) = some (m, rest) := by
  cases h with
  | one hx =>
    simp only [List.cons_append, List.nil_append]
    rw [parseMult_single _ _ hr, hx]; rfl
  | range hx hy => exact parseMult_range _ _ _ _ _ hx hy

theorem parseAssociation_complete {pre : List Tok} {a : CAssoc} (h : DAssoc pre a) (rest : List Tok)
    (hr : metaStart rest = false) (f : Nat) (hf : pre.length ≤ 4 * f + 13) :
    parseAssociation f (pre ++ rest) = some (a, rest) := by
  cases h with
  | @mk pl lm pr rm pMeta kvs la lf name rf ra hl hrr hMeta =>
    have hlm := dmetas_length hMeta
    have e1 : ∀ {p m}, DMult p m → 1 ≤ p.length := by intro p m hm; cases hm <;> simp
    have := e1 hl; have := e1 hrr
    simp only [List.length_cons, List.length_append] at hf
    simp only [List.cons_append, List.append_assoc]
    rw [parseAssociation_eq]
    unfold assocMid
    rw [parseMult_complete hl _ rfl]
    simp only
    unfold assocTail
    rw [parseMult_complete hrr _ rfl]
    simp only
    rw [parseMetas_complete hMeta rest hr f (by omega) []]

theorem dassocs_metaStart {pre : List Tok} {as : List CAssoc} (h : DAssocs pre as) (X : List Tok) :
    metaStart (pre ++ X) = false := by
  cases h with
  | done => rfl
  | cons ha _ => cases ha; rfl

theorem dassoc_length {pre : List Tok} {a : CAssoc} (h : DAssoc pre a) : 13 ≤ pre.length := by
  cases h with
  | mk hl hr hm =>
    have e1 : ∀ {p m}, DMult p m → 1 ≤ p.length := by intro p m hm; cases hm <;> simp
    have := e1 hl; have := e1 hr
    simp only [List.length_cons, List.length_append]; omega

theorem parseAssociationsBody_complete {pre : List Tok} {as : List CAssoc} (h : DAssocs pre as) (rest : List Tok)
    (f : Nat) (hf : pre.length ≤ f) (acc : List CAssoc) :
    parseAssociationsBody f acc (pre ++ rest) = some (acc ++ as, rest) := by
  induction h generalizing f acc with
  | done =>
    simp only [List.length_cons, List.length_nil] at hf
    obtain ⟨f, rfl⟩ : ∃ g, f = g + 1 := ⟨f - 1, by omega⟩
    simp only [List.cons_append, List.nil_append, List.append_nil]
    exact parseAssociationsBody_rcurly _ _ _
  | @cons pa a pm as' ha hm ih =>
    simp only [List.length_append] at hf
    have h13 := dassoc_length ha
    obtain ⟨f, rfl⟩ : ∃ g, f = g + 1 := ⟨f - 1, by omega⟩
    simp only [List.append_assoc]
    rw [parseAssociationsBody_assoc, parseAssociation_complete ha _ (dassocs_metaStart hm rest) f (by omega)]
    · simp only [Option.bind_some]
      rw [ih f (by omega)]
      simp
    · intro r hr; cases ha; simp at hr

/-! ### declarations -/

theorem parseDecl_complete {pre rest : List Tok} {d : Decl} (h : DDecl pre rest d) (f : Nat)
    (hf : 2 * pre.length + 1 ≤ f) : parseDecl f (pre ++ rest) = some (d, rest) := by
  cases h with
  | incl => exact parseDecl_include f _ rest
  | define => exact parseDecl_define f _ _ rest
  | @category pMeta kvs n pAssets _ as hMeta hAssets =>
    have hlm := dmetas_length hMeta
    simp only [List.length_cons, List.length_append] at hf
    simp only [List.cons_append, List.append_assoc]
    rw [parseDecl_category, parseMetas_complete hMeta _ rfl f (by omega) []]
    unfold catStage
    simp only
    rw [parseAssets_complete hAssets f (by omega) []]
    rfl
  | @associations pa as _ hA =>
    simp only [List.length_cons] at hf
    simp only [List.cons_append]
    rw [parseDecl_associations, parseAssociationsBody_complete hA rest f (by omega) []]
    rfl

theorem ddecl_head {pre rest : List Tok} {d : Decl} (h : DDecl pre rest d) :
    ∃ t r, pre = t :: r ∧ startsDecl t = true := by
  cases h <;> exact ⟨_, _, rfl, rfl⟩

theorem parseDecls_complete {pre rest : List Tok} {ds : List Decl} (h : DDecls pre rest ds) (hr : StopsAt rest)
    (f : Nat) (hf : 2 * pre.length + 2 ≤ f) (acc : List Decl) :
    parseDecls f acc (pre ++ rest) = some (acc ++ ds) := by
  induction h generalizing f acc with
  | nil =>
    obtain ⟨f, rfl⟩ : ∃ g, f = g + 1 := ⟨f - 1, by omega⟩
    simp only [List.nil_append, List.append_nil]
    rcases hr with rfl | ⟨t, r, rfl, hs⟩
    · exact parseDecls_nil _ _
    · exact parseDecls_stop _ _ _ _ hs
  | @cons p1 p2 _ d ds' hd hds ih =>
    simp only [List.length_append] at hf
    obtain ⟨t, r, hp1, hs⟩ := ddecl_head hd
    have h1 : 1 ≤ p1.length := by rw [hp1]; simp
    obtain ⟨f, rfl⟩ : ∃ g, f = g + 1 := ⟨f - 1, by omega⟩
    have hcomp := parseDecl_complete hd f (by omega)
    simp only [List.append_assoc]
    rw [hp1] at hcomp ⊢
    simp only [List.cons_append] at hcomp ⊢
    rw [parseDecls_cons _ _ _ _ hs, hcomp]
    simp only [Option.bind_some]
    rw [ih hr f (by omega)]
    simp

/-- completeness of the start rule as written (prefix parser) -/
theorem parseMalPrefix_complete {pre rest : List Tok} {ds : List Decl} (h : DDecls pre rest ds) (hr : StopsAt rest)
    (hne : pre ≠ [] ∨ rest = []) : parseMalPrefix (pre ++ rest) = some ds := by
  cases h with
  | nil =>
    rcases hne with h | rfl
    · exact absurd rfl h
    · rfl
  | @cons p1 p2 _ d ds' hd hds =>
    obtain ⟨t, r, hp1, hs⟩ := ddecl_head hd
    have hcomp := parseDecls_complete (.cons hd hds) hr (2 * (p1 ++ p2 ++ rest).length + 8)
      (by simp only [List.length_append]; omega) []
    rw [hp1] at hcomp ⊢
    simp only [List.cons_append, List.nil_append] at hcomp ⊢
    unfold parseMalPrefix
    simp only [hs, if_true]
    exact hcomp

theorem parseDeclsRest_complete {pre rest : List Tok} {ds : List Decl} (h : DDecls pre rest ds) (hr : StopsAt rest)
    (f : Nat) (hf : 2 * pre.length + 2 ≤ f) (acc : List Decl) :
    parseDeclsRest f acc (pre ++ rest) = some (acc ++ ds, rest) := by
  induction h generalizing f acc with
  | nil =>
    obtain ⟨f, rfl⟩ : ∃ g, f = g + 1 := ⟨f - 1, by omega⟩
    simp only [List.nil_append, List.append_nil]
    rcases hr with rfl | ⟨t, r, rfl, hs⟩
    · exact parseDeclsRest_nil _ _
    · exact parseDeclsRest_stop _ _ _ _ hs
  | @cons p1 p2 _ d ds' hd hds ih =>
    simp only [List.length_append] at hf
    obtain ⟨t, r, hp1, hs⟩ := ddecl_head hd
    have h1 : 1 ≤ p1.length := by rw [hp1]; simp
    obtain ⟨f, rfl⟩ : ∃ g, f = g + 1 := ⟨f - 1, by omega⟩
    have hcomp := parseDecl_complete hd f (by omega)
    simp only [List.append_assoc]
    rw [hp1] at hcomp ⊢
    simp only [List.cons_append] at hcomp ⊢
    rw [parseDeclsRest_cons _ _ _ _ hs, hcomp]
    simp only [Option.bind_some]
    rw [ih hr f (by omega)]
    simp

/-- completeness of `parser.mal()`: a derivable prefix that ends where no declaration can start is consumed, and
exactly the tokens after it are left in the stream -/
theorem parseMalRest_complete {pre rest : List Tok} {ds : List Decl} (h : DDecls pre rest ds) (hr : StopsAt rest)
    (hne : pre ≠ [] ∨ rest = []) : parseMalRest (pre ++ rest) = some (ds, rest) := by
  cases h with
  | nil =>
    rcases hne with h | rfl
    · exact absurd rfl h
    · rfl
  | @cons p1 p2 _ d ds' hd hds =>
    obtain ⟨t, r, hp1, hs⟩ := ddecl_head hd
    have hcomp := parseDeclsRest_complete (.cons hd hds) hr (2 * (p1 ++ p2 ++ rest).length + 8)
      (by simp only [List.length_append]; omega) []
    rw [hp1] at hcomp ⊢
    simp only [List.cons_append, List.nil_append] at hcomp ⊢
    unfold parseMalRest
    simp only [hs, if_true]
    exact hcomp

/-- completeness of the compiler's verdict: a token list derivable as a whole by `declaration*` is accepted -/
theorem parseMal_complete {ts : List Tok} {ds : List Decl} (h : DDecls ts [] ds) : parseMal ts = some ds := by
  have := parseMalRest_complete h (.inl rfl) (.inr rfl)
  rw [List.append_nil] at this
  exact (parseMal_eq_some_iff ts ds).mpr this

end MalVerif.Mal
