import MalVerif.Model.Legacy
import MalVerif.Proofs.SerialLemmas
import MalVerif.Props.C07
/-!
# Lemmas about the legacy loaders (C18)

* the 0.0.39 loader and the native loader agree entry by entry on documents without extras
  (`loadOldAsset_emit`, `loadOldAssoc_emit`, `loadOld_emitOld`);
* `decap (cap x) = x` exactly when the first character is not an upper-case ASCII letter (`decap_cap_iff`);
  `beforeDot (st ++ ".attacker") = st` for a step name without `.` (`beforeDot_attacker`);
* the three phases of `loadScad` over `emitScad L s`: objects (`loadScadObjects_emit`), pairwise links
  (`loadScadLinks_emit`), entry points (`loadScadEntries_emit`), and their composition `loadScad_emit`.
-/
namespace MalVerif.Legacy
open MalVerif.MS MalVerif.Ser

/-! ## generic fold lemmas -/

theorem foldlM_congr_mem {α β : Type} (f g : β → α → Except Err β) (l : List α)
    (h : ∀ x ∈ l, ∀ s, f s x = g s x) (s : β) : l.foldlM f s = l.foldlM g s := by
  induction l generalizing s with
  | nil => rfl
  | cons x l ih =>
    rw [List.foldlM_cons, List.foldlM_cons, h x List.mem_cons_self s]
    cases g s x with
    | error e => rfl
    | ok s' => exact ih (fun y hy => h y (List.mem_cons_of_mem _ hy)) s'

theorem foldlM_map' {α β γ : Type} (f : β → γ → Except Err β) (g : α → γ) (l : List α) (s : β) :
    (l.map g).foldlM f s = l.foldlM (fun s x => f s (g x)) s := by
  induction l generalizing s with
  | nil => rfl
  | cons x l ih =>
    rw [List.map_cons, List.foldlM_cons, List.foldlM_cons]
    cases f s (g x) with
    | error e => rfl
    | ok s' => exact ih s'

/-! ## the 0.0.39 layout -/

/-- an asset entry without an `extras` member -/
def entryNoExtras : AssetEntry → Bool
  | .full _ _ _ ex => ex.isNone
  | .shorthand _ => true

/-- the entries of the document carry no extras (the old layout has no place for them) -/
def NoExtras (d : ModelDoc) : Prop :=
  (∀ e ∈ d.assets, entryNoExtras e.2 = true) ∧ (∀ a ∈ d.associations, a.extras = none)

instance (d : ModelDoc) : Decidable (NoExtras d) := inferInstanceAs (Decidable (_ ∧ _))

/-- the model state carries no extras -/
def StNoExtras (s : St) : Prop :=
  (∀ a ∈ s.assets, (s.aobj a).extras = "{}") ∧ (∀ l ∈ s.associations, (s.lobj l).extras = "{}")

def oldEntry (e : Key × AssetEntry) : Key × OldAssetEntry :=
  (e.1, match e.2 with
    | .full n t ds _ => .full n t ds
    | .shorthand t => .shorthand t)
def oldAssoc (a : AssocEntry) : OldAssoc :=
  { metaconcept := a.cls, lf := a.lf, left := a.left, rf := a.rf, right := a.right }

theorem emitOld_eq (d : ModelDoc) :
    emitOld d = { assets := d.assets.map oldEntry, associations := d.associations.map oldAssoc, attackers := d.attackers } := rfl

theorem loadOldAsset_emit (L : Lang) (defsOk : Key → Bool) (s : St) (e : Key × AssetEntry)
    (h : entryNoExtras e.2 = true) :
    loadOldAsset L defsOk s (oldEntry e) = loadAsset L defsOk s e := by
  obtain ⟨k, v⟩ := e
  unfold loadOldAsset loadAsset oldEntry
  dsimp only
  cases k.toInt? with
  | none => rfl
  | some id =>
    cases v with
    | shorthand t => rfl
    | full n t ds ex =>
      cases ex with
      | none => rfl
      | some x => cases h

theorem loadOldAssoc_emit (L : Lang) (s : St) (e : AssocEntry) (h : e.extras = none) :
    loadOldAssoc L s (oldAssoc e) = loadAssoc L s e := by
  unfold loadOldAssoc loadAssoc oldAssoc
  dsimp only
  cases resolveIds s e.left with
  | none => rfl
  | some l =>
    cases resolveIds s e.right with
    | none => rfl
    | some r =>
      dsimp only
      cases (assocClasses L).find? (·.cls = e.cls) with
      | none => rfl
      | some c =>
        dsimp only
        by_cases hc : c.lf = e.lf ∧ c.rf = e.rf
        · rw [if_pos hc, if_pos hc, h]
          cases addAssociation L s e.cls l r <;> rfl
        · rw [if_neg hc, if_neg hc]

theorem loadOld_emitOld (L : Lang) (defsOk : Key → Bool) (d : ModelDoc) (h : NoExtras d) :
    loadOld L defsOk (emitOld d) = fromDoc L defsOk d := by
  unfold loadOld fromDoc
  rw [emitOld_eq]
  dsimp only
  rw [foldlM_map', foldlM_congr_mem _ (loadAsset L defsOk) d.assets
    (fun e he s => loadOldAsset_emit L defsOk s e (h.1 e he))]
  cases d.assets.foldlM (loadAsset L defsOk) ({} : St) with
  | error e => rfl
  | ok s1 =>
    show ((d.associations.map oldAssoc).foldlM (loadOldAssoc L) s1 >>= _) = (d.associations.foldlM (loadAssoc L) s1 >>= _)
    rw [foldlM_map', foldlM_congr_mem _ (loadAssoc L) d.associations
      (fun e he s => loadOldAssoc_emit L s e (h.2 e he))]

/-! ## strings: `cap` / `decap`, `beforeDot` -/

theorem toUpper_toLower (c : Char) (h : c.isUpper = false) : c.toUpper.toLower = c := by
  have hv : ¬ (c.val ≥ 'A'.val ∧ c.val ≤ 'Z'.val) := by simpa [Char.isUpper] using h
  by_cases hl : 'a'.val ≤ c.val ∧ c.val ≤ 'z'.val
  · have h1 : c.toUpper.val = c.val + ('A'.val - 'a'.val) := by
      unfold Char.toUpper; rw [dif_pos hl]
    have hn1 : 97 ≤ c.val.toNat := by have := UInt32.le_iff_toNat_le.1 hl.1; simpa using this
    have hn2 : c.val.toNat ≤ 122 := by have := UInt32.le_iff_toNat_le.1 hl.2; simpa using this
    have h2 : c.toUpper.val.toNat = c.val.toNat - 32 := by
      rw [h1, UInt32.toNat_add]
      have : ('A'.val - 'a'.val).toNat = 4294967264 := by decide
      rw [this]; omega
    have hu : c.toUpper.val ≥ 'A'.val ∧ c.toUpper.val ≤ 'Z'.val := by
      constructor
      · apply UInt32.le_iff_toNat_le.2; rw [h2]; show 65 ≤ _; omega
      · apply UInt32.le_iff_toNat_le.2; rw [h2]; show _ ≤ 90; omega
    apply Char.ext
    have h3 : c.toUpper.toLower.val = c.toUpper.val + ('a'.val - 'A'.val) := by
      unfold Char.toLower; rw [dif_pos hu]
    rw [h3]
    apply UInt32.toNat_inj.1
    rw [UInt32.toNat_add, h2]
    have : ('a'.val - 'A'.val).toNat = 32 := by decide
    rw [this]; omega
  · have h1 : c.toUpper = c := by unfold Char.toUpper; rw [dif_neg hl]
    rw [h1]; unfold Char.toLower; rw [dif_neg hv]

theorem toUpper_toLower_ne (c : Char) (h : c.isUpper = true) : c.toUpper.toLower ≠ c := by
  have hv : (c.val ≥ 'A'.val ∧ c.val ≤ 'Z'.val) := by simpa [Char.isUpper] using h
  have hn1 : 65 ≤ c.val.toNat := by have := UInt32.le_iff_toNat_le.1 hv.1; simpa using this
  have hn2 : c.val.toNat ≤ 90 := by have := UInt32.le_iff_toNat_le.1 hv.2; simpa using this
  have hl : ¬ ('a'.val ≤ c.val ∧ c.val ≤ 'z'.val) := by
    intro hl
    have : 97 ≤ c.val.toNat := by have := UInt32.le_iff_toNat_le.1 hl.1; simpa using this
    omega
  have h1 : c.toUpper = c := by unfold Char.toUpper; rw [dif_neg hl]
  rw [h1]
  intro e
  have h3 : c.toLower.val = c.val + ('a'.val - 'A'.val) := by
    unfold Char.toLower; rw [dif_pos hv]
  have : c.toLower.val.toNat = c.val.toNat := congrArg (fun x : Char => x.val.toNat) e
  rw [h3, UInt32.toNat_add] at this
  have h4 : ('a'.val - 'A'.val).toNat = 32 := by decide
  rw [h4] at this; omega

/-- `decap` undoes `cap` exactly on the names whose first character is not an upper-case ASCII letter
(in particular on every name that starts with a lower-case letter, a digit or `_`) -/
theorem decap_cap_iff (x : String) : decap (cap x) = x ↔ ∀ c cs, x.toList = c :: cs → c.isUpper = false := by
  cases hx : x.toList with
  | nil =>
    have h1 : cap x = x := by unfold cap; rw [hx]
    have h2 : decap x = x := by unfold decap; rw [hx]
    rw [h1, h2]
    exact ⟨fun _ c cs h => (by cases h), fun _ => rfl⟩
  | cons c cs =>
    have h1 : cap x = String.ofList (c.toUpper :: cs) := by unfold cap; rw [hx]
    have h2 : decap (cap x) = String.ofList (c.toUpper.toLower :: cs) := by
      unfold decap; rw [h1, String.toList_ofList]
    rw [h2]
    constructor
    · intro h c' cs' e
      injection e with e1 e2
      subst e1
      cases hu : c.isUpper with
      | false => rfl
      | true =>
        exfalso
        have := congrArg String.toList h
        rw [String.toList_ofList, hx] at this
        injection this with h3 _
        exact toUpper_toLower_ne c hu h3
    · intro h
      rw [toUpper_toLower c (h c cs rfl), ← hx, String.ofList_toList]

/-- the name starts with a lower-case ASCII letter -/
def StartsLower (x : String) : Prop := ∃ c cs, x.toList = c :: cs ∧ c.isLower = true

theorem isUpper_false_of_isLower (c : Char) (h : c.isLower = true) : c.isUpper = false := by
  have hl : (c.val ≥ 'a'.val) ∧ (c.val ≤ 'z'.val) := by simpa [Char.isLower] using h
  have : 97 ≤ c.val.toNat := by have := UInt32.le_iff_toNat_le.1 hl.1; simpa using this
  cases hu : c.isUpper with
  | false => rfl
  | true =>
    have hv : (c.val ≥ 'A'.val ∧ c.val ≤ 'Z'.val) := by simpa [Char.isUpper] using hu
    have : c.val.toNat ≤ 90 := by have := UInt32.le_iff_toNat_le.1 hv.2; simpa using this
    omega

theorem decap_cap_of_startsLower (x : String) (h : StartsLower x) : decap (cap x) = x := by
  obtain ⟨c, cs, hx, hc⟩ := h
  rw [decap_cap_iff]
  intro c' cs' e
  rw [hx] at e
  injection e with e1 _
  subst e1
  exact isUpper_false_of_isLower c hc

theorem takeWhile_append_stop {α : Type} (p : α → Bool) (xs : List α) (y : α) (ys : List α)
    (hx : ∀ x ∈ xs, p x = true) (hy : p y = false) : (xs ++ y :: ys).takeWhile p = xs := by
  induction xs with
  | nil => show (y :: ys).takeWhile p = []; rw [List.takeWhile_cons, hy]; rfl
  | cons x xs ih =>
    rw [List.cons_append, List.takeWhile_cons, hx x List.mem_cons_self]
    show x :: _ = _
    rw [ih (fun z hz => hx z (List.mem_cons_of_mem _ hz))]

theorem toList_dot_attacker : (".attacker" : String).toList = '.' :: ['a', 't', 't', 'a', 'c', 'k', 'e', 'r'] := by decide

/-- `(st + ".attacker").split('.')[0] = st` for a step name without a dot -/
theorem beforeDot_attacker (st : String) (h : '.' ∉ st.toList) : beforeDot (st ++ ".attacker") = st := by
  unfold beforeDot
  rw [String.toList_append, toList_dot_attacker, takeWhile_append_stop, String.ofList_toList]
  · intro c hc
    simp only [ne_eq, decide_not, Bool.not_eq_eq_eq_not, Bool.not_true, decide_eq_false_iff_not]
    intro e; exact h (e ▸ hc)
  · simp

/-! ## securiCAD: the objects -/

def scadAssetObj (L : Lang) (o : AssetObj) : ScadObject :=
  { id := o.id, name := o.name, metaConcept := o.type, defenses := (nonDefault L o).map (fun d => (cap d.1, d.2)) }
def scadAttObj (o : AttObj) : ScadObject := { id := o.id, name := o.name, metaConcept := "Attacker" }

/-- the asset object the securiCAD loader builds for the asset object `o`: the non-default values, no extras -/
def scadObj (L : Lang) (o : AssetObj) : AssetObj := { id := o.id, name := o.name, type := o.type, defenses := nonDefault L o }
/-- the native entry that describes the same asset -/
def scadEntry (L : Lang) (o : AssetObj) : Key × AssetEntry := (.i o.id, .full o.name o.type (nonDefault L o) none)
/-- the attacker object the loader builds: the name cannot be expressed -/
def scadAtt (o : AttObj) : AttObj := { id := o.id, name := "Attacker:" ++ toString o.id }

theorem emitScad_objects (L : Lang) (s : St) :
    (emitScad L s).objects = s.assets.map (fun a => scadAssetObj L (s.aobj a)) ++ s.attackers.map (fun t => scadAttObj (s.tobj t)) := rfl

/-- what the objects of the archive need beyond coherence and validity: `Attacker` is not an asset type in use, the
range check of the defense values passes, and the names of the explicitly set non-default defenses survive
capitalisation (`decap_cap_iff`: their first character is not an upper-case ASCII letter) -/
structure ScadAssetsOk (L : Lang) (defsOk : Int → Bool) (s : St) : Prop where
  not_attacker : ∀ a ∈ s.assets, (s.aobj a).type ≠ "Attacker"
  defs_ok : ∀ a ∈ s.assets, defsOk (s.aobj a).id = true
  def_names : ∀ a ∈ s.assets, ∀ d ∈ nonDefault L (s.aobj a), decap (cap d.1) = d.1

theorem objOf_scadEntry (L : Lang) (o : AssetObj) : objOf (scadEntry L o) = scadObj L o := rfl

theorem loadScadObject_asset (L : Lang) (defsOk : Int → Bool) (s1 : St) (o : AssetObj) (hna : o.type ≠ "Attacker")
    (hdn : ∀ d ∈ nonDefault L o, decap (cap d.1) = d.1) :
    loadScadObject L defsOk s1 (scadAssetObj L o) =
      loadAsset L (fun k => defsOk (k.toInt?.getD 0)) s1 (scadEntry L o) := by
  unfold loadScadObject scadAssetObj
  dsimp only
  rw [if_neg hna]
  have : ((nonDefault L o).map (fun d => (cap d.1, d.2))).map (fun d => (decap d.1, d.2)) = nonDefault L o := by
    rw [List.map_map]
    conv => rhs; rw [← List.map_id (nonDefault L o)]
    apply List.map_congr_left
    intro d hd
    show (decap (cap d.1), d.2) = d
    rw [hdn d hd]
  rw [this]
  rfl

theorem loadScadAttackers (L : Lang) (defsOk : Int → Bool) (os : List ScadObject)
    (hos : ∀ o ∈ os, o.metaConcept = "Attacker") (s : St) (h : Inv s) :
    ∃ s', os.foldlM (loadScadObject L defsOk) s = .ok s' ∧ Inv s' ∧ s'.assets = s.assets ∧ s'.aobj = s.aobj ∧
      s'.associations = s.associations ∧ s'.lobj = s.lobj ∧
      s'.attackers.map s'.tobj =
        s.attackers.map s.tobj ++ os.map (fun o => ({ id := o.id, name := "Attacker:" ++ toString o.id } : AttObj)) := by
  induction os generalizing s with
  | nil => exact ⟨s, rfl, h, rfl, rfl, rfl, rfl, by simp⟩
  | cons o os ih =>
    rw [List.foldlM_cons]
    have h1 : loadScadObject L defsOk s o = .ok (addAttacker s none (some o.id)) := by
      unfold loadScadObject; rw [if_pos (hos o List.mem_cons_self)]
    rw [h1]
    obtain ⟨s', e1, e2, e3, e4, e5, e6, e7⟩ := ih (fun x hx => hos x (List.mem_cons_of_mem _ hx))
      (addAttacker s none (some o.id)) (addAttacker_inv' s none (some o.id) h)
    refine ⟨s', e1, e2, e3, e4, e5, e6, ?_⟩
    have hatt : (addAttacker s none (some o.id)).attackers.map (addAttacker s none (some o.id)).tobj =
        s.attackers.map s.tobj ++ [({ id := o.id, name := "Attacker:" ++ toString o.id } : AttObj)] := by
      show (s.attackers ++ [s.tfresh]).map (fun x => if x = s.tfresh then _ else s.tobj x) = _
      rw [List.map_append]
      congr 1
      · apply List.map_congr_left
        intro t ht
        rw [if_neg (fun (e : t = s.tfresh) => h.att.fresh_not_mem (e ▸ ht))]
      · simp
    rw [e7, hatt, List.map_cons, List.append_assoc]
    rfl

/-- loading the objects of the archive written for `s` -/
theorem loadScadObjects_emit (L : Lang) (defsOk : Int → Bool) (s : St) (h : Inv s) (hv : Valid L s)
    (ha : ScadAssetsOk L defsOk s) :
    ∃ s1, (emitScad L s).objects.foldlM (loadScadObject L defsOk) ({} : St) = .ok s1 ∧ Inv s1 ∧
      s1.assets.map s1.aobj = s.assets.map (fun a => scadObj L (s.aobj a)) ∧
      s1.attackers.map s1.tobj = s.attackers.map (fun t => scadAtt (s.tobj t)) ∧ s1.associations = [] := by
  obtain ⟨s1, h1, hi1, hobjs, hl1, ht1, _, htobj⟩ := loadAssets_ok L (fun k => defsOk (k.toInt?.getD 0))
    (s.assets.map (fun a => scadEntry L (s.aobj a))) {} init_inv'
    (by intro e he; obtain ⟨a, _, rfl⟩ := List.mem_map.1 he; rfl)
    (by intro e he; obtain ⟨a, ham, rfl⟩ := List.mem_map.1 he; exact ha.defs_ok a ham)
    (by intro e he; obtain ⟨a, ham, rfl⟩ := List.mem_map.1 he; exact (hv.assets a ham).known)
    (by
      intro e he; obtain ⟨a, ham, rfl⟩ := List.mem_map.1 he
      intro d hdm
      exact (hv.assets a ham).defenses d (List.mem_filter.1 hdm).1)
    (by rw [List.map_map]; exact asset_ids_nodup h)
    (fun _ _ hm => absurd hm List.not_mem_nil)
    (by rw [List.map_map]; exact asset_names_nodup h)
    (fun _ _ hm => absurd hm List.not_mem_nil)
  obtain ⟨s2, h2, hi2, e3, e4, e5, _, e7⟩ := loadScadAttackers L defsOk (s.attackers.map (fun t => scadAttObj (s.tobj t)))
    (by intro o ho; obtain ⟨t, _, rfl⟩ := List.mem_map.1 ho; rfl) s1 hi1
  refine ⟨s2, ?_, hi2, ?_, ?_, ?_⟩
  · rw [emitScad_objects, List.foldlM_append, foldlM_map',
      foldlM_congr_mem _ (fun s1 a => loadAsset L (fun k => defsOk (k.toInt?.getD 0)) s1 (scadEntry L (s.aobj a))) s.assets
        (fun a ham s1 => loadScadObject_asset L defsOk s1 (s.aobj a) (ha.not_attacker a ham) (ha.def_names a ham)),
      ← foldlM_map' (loadAsset L (fun k => defsOk (k.toInt?.getD 0))) (fun a => scadEntry L (s.aobj a)), h1]
    exact h2
  · rw [e3, e4, hobjs, List.map_map]; rfl
  · rw [e7, ht1, List.map_map]; rfl
  · rw [e5, hl1]

/-! ## securiCAD: the links, pair by pair -/

/-- one (left member, right member) pair of a link, by asset ids -/
structure Pair where
  cls : String
  lf : String
  rf : String
  i : Int
  j : Int
  deriving DecidableEq, Repr

/-- the binary association that links the pair -/
def Pair.view (p : Pair) : AssocView := ⟨p.cls, p.lf, [p.i], p.rf, [p.j], "{}"⟩
def Pair.scad (p : Pair) : ScadAssoc :=
  { sourceObject := p.j, targetObject := p.i, sourceProperty := p.lf, targetProperty := p.rf }
def Pair.entry (p : Pair) : AssocEntry := { cls := p.cls, lf := p.lf, left := [.i p.i], rf := p.rf, right := [.i p.j] }
def Pair.key (p : Pair) : String × Int × Int := (p.cls, p.i, p.j)

def pairsOfLink (s : St) (l : Nat) : List Pair :=
  (s.lobj l).left.flatMap fun x => (s.lobj l).right.map fun y =>
    ⟨(s.lobj l).cls, (s.lobj l).lf, (s.lobj l).rf, (s.aobj x).id, (s.aobj y).id⟩
/-- the pairwise expansion of the links of the model, in model order -/
def pairsOf (s : St) : List Pair := s.associations.flatMap (pairsOfLink s)

theorem mem_pairsOf (s : St) (p : Pair) : p ∈ pairsOf s ↔
    ∃ l ∈ s.associations, ∃ x ∈ (s.lobj l).left, ∃ y ∈ (s.lobj l).right,
      p = ⟨(s.lobj l).cls, (s.lobj l).lf, (s.lobj l).rf, (s.aobj x).id, (s.aobj y).id⟩ := by
  unfold pairsOf pairsOfLink
  simp only [List.mem_flatMap, List.mem_map]
  constructor
  · rintro ⟨l, hl, x, hx, y, hy, e⟩; exact ⟨l, hl, x, hx, y, hy, e.symm⟩
  · rintro ⟨l, hl, x, hx, y, hy, e⟩; exact ⟨l, hl, x, hx, y, hy, e.symm⟩

/-- the lookup in the language graph by the two field names and the types of the two members returns a
declaration of which the link is an instance, in the orientation of the link (the analogue of `LinksResolve`) -/
def PairsResolve (L : Lang) (nodes : List AssocDecl) (s : St) : Prop :=
  ∀ l ∈ s.associations, ∀ x ∈ (s.lobj l).left, ∀ y ∈ (s.lobj l).right,
    ∃ d, LG.lookupAssoc L nodes (s.lobj l).lf (s.lobj l).rf (s.aobj x).type (s.aobj y).type = .ok (some d) ∧
      d.leftField = (s.lobj l).lf ∧
      (assocClasses L).find? (·.cls = className L d) = some (classOf L d) ∧ InstanceOf L s l (classOf L d)

/-- no field of a link is called `firstSteps` (the name by which the formats mark an entry point) -/
def NoFirstSteps (s : St) : Prop :=
  ∀ l ∈ s.associations, (s.lobj l).lf ≠ "firstSteps" ∧ (s.lobj l).rf ≠ "firstSteps"

instance (s : St) : Decidable (NoFirstSteps s) := inferInstanceAs (Decidable (∀ l ∈ s.associations, _))

/-- every asset of `s` is found in `s1`, with its id and type -/
def SameIdType (s s1 : St) : Prop :=
  ∀ a ∈ s.assets, ∃ a1 ∈ s1.assets, (s1.aobj a1).id = (s.aobj a).id ∧ (s1.aobj a1).type = (s.aobj a).type

theorem SameIdType.of_aframe {s s1 s2 : St} (h : SameIdType s s1) (hf : AFrame s1 s2) : SameIdType s s2 := by
  intro a ha
  obtain ⟨a1, h1, h2, h3⟩ := h a ha
  exact ⟨a1, by rw [hf.assets]; exact h1, by rw [hf.id]; exact h2, by rw [hf.type]; exact h3⟩

theorem resolveIds_single {s : St} {i : Int} {a : Nat} (h : getAssetById s i = some a) :
    resolveIds s [.i i] = some [a] := by
  unfold resolveIds
  rw [mapM_option_eq_some]
  show [(some i).bind (getAssetById s)] = [some a]
  rw [← h]; rfl

theorem loadScadAssoc_pair (L : Lang) (nodes : List AssocDecl) (s2 : St) (p : Pair) (la ra : Nat) (d : AssocDecl)
    (c : AssocClass) (hlf : p.lf ≠ "firstSteps") (hrf : p.rf ≠ "firstSteps")
    (hla : getAssetById s2 p.i = some la) (hra : getAssetById s2 p.j = some ra)
    (hd : LG.lookupAssoc L nodes p.lf p.rf (s2.aobj la).type (s2.aobj ra).type = .ok (some d))
    (hdl : d.leftField = p.lf) (hcls : className L d = p.cls)
    (hfound : (assocClasses L).find? (·.cls = p.cls) = some c) (hclf : c.lf = p.lf) (hcrf : c.rf = p.rf) :
    loadScadAssoc L nodes s2 p.scad = loadAssoc L s2 p.entry := by
  have hR : loadAssoc L s2 p.entry = addAssociation L s2 p.cls [la] [ra] := by
    rw [loadAssoc_eq L s2 p.entry [la] [ra] c (resolveIds_single hla) (resolveIds_single hra) hfound hclf hcrf]
    show (match addAssociation L s2 p.cls [la] [ra] with
      | .error er => (Except.error er : Except Err St) | .ok s' => Except.ok (withExtras s' s2.lfresh none)) = _
    cases addAssociation L s2 p.cls [la] [ra] <;> rfl
  rw [hR]
  unfold loadScadAssoc Pair.scad
  dsimp only
  rw [if_neg hlf, if_neg hrf]
  dsimp only
  rw [hla, hra]
  dsimp only
  rw [hd]
  dsimp only
  rw [if_pos hdl, ← hcls]
  rfl

/-- the link fold of `loadScad` over the pairs `suf`, started in a state that shows the pairs `pre` -/
theorem loadScadLinks (L : Lang) (nodes : List AssocDecl) (s s1 : St) (h : Inv s)
    (hr : PairsResolve L nodes s) (hfs : NoFirstSteps s) (hsame : SameIdType s s1)
    (hnd : ((pairsOf s).map Pair.key).Nodup) :
    ∀ (suf pre : List Pair) (s2 : St), pairsOf s = pre ++ suf → Inv s2 → AFrame s1 s2 →
      s2.associations.map (assocView s2) = pre.map Pair.view → s2.attackers = s1.attackers → s2.tobj = s1.tobj →
      ∃ s3, (suf.map Pair.scad).foldlM (loadScadAssoc L nodes) s2 = .ok s3 ∧ Inv s3 ∧ AFrame s1 s3 ∧
        s3.associations.map (assocView s3) = (pairsOf s).map Pair.view ∧ s3.attackers = s1.attackers ∧
        s3.tobj = s1.tobj := by
  intro suf
  induction suf with
  | nil =>
    intro pre s2 hsplit hi2 hf2 hlv hatt htobj
    rw [List.append_nil] at hsplit
    exact ⟨s2, rfl, hi2, hf2, by rw [hlv, hsplit], hatt, htobj⟩
  | cons p suf ih =>
    intro pre s2 hsplit hi2 hf2 hlv hatt htobj
    have hp : p ∈ pairsOf s := by rw [hsplit]; exact List.mem_append_right _ List.mem_cons_self
    obtain ⟨l, hl, x, hx, y, hy, rfl⟩ := (mem_pairsOf s p).1 hp
    obtain ⟨d, hd, hdl, hfound, hinst⟩ := hr l hl x hx y hy
    have hs2 := hsame.of_aframe hf2
    obtain ⟨x2, hx2, ex1, ex2⟩ := hs2 x (h.links.left_live l hl x hx)
    obtain ⟨y2, hy2, ey1, ey2⟩ := hs2 y (h.links.right_live l hl y hy)
    have hgx := (C05.getAssetById_iff s2 hi2 _ x2).2 ⟨hx2, ex1⟩
    have hgy := (C05.getAssetById_iff s2 hi2 _ y2).2 ⟨hy2, ey1⟩
    have hcls : className L d = (s.lobj l).cls := hinst.cls.symm
    have hload : AssocLoadable L s2 (Pair.entry ⟨(s.lobj l).cls, (s.lobj l).lf, (s.lobj l).rf, (s.aobj x).id, (s.aobj y).id⟩)
        (classOf L d) [(s.aobj x).id] [(s.aobj y).id] := by
      constructor
      · rfl
      · rfl
      · show (assocClasses L).find? (·.cls = (s.lobj l).cls) = _
        rw [← hcls]; exact hfound
      · exact hinst.lf.symm
      · exact hinst.rf.symm
      · intro i hi
        rw [List.mem_singleton] at hi; subst hi
        exact ⟨x2, hx2, ex1, by rw [ex2]; exact hinst.left_type x hx⟩
      · intro i hi
        rw [List.mem_singleton] at hi; subst hi
        exact ⟨y2, hy2, ey1, by rw [ey2]; exact hinst.right_type y hy⟩
      · exact okCount_mono _ (List.length_pos_of_mem hx) hinst.left_count
      · exact okCount_mono _ (List.length_pos_of_mem hy) hinst.right_count
      · exact nodup_single _
      · exact nodup_single _
      · intro l' hl' hc' i hi j hj ⟨hil, hjr⟩
        rw [List.mem_singleton] at hi hj
        subst hi; subst hj
        have : assocView s2 l' ∈ pre.map Pair.view := hlv ▸ List.mem_map.2 ⟨l', hl', rfl⟩
        obtain ⟨p', hp', e0⟩ := List.mem_map.1 this
        unfold assocView Pair.view at e0
        simp only [AssocView.mk.injEq] at e0
        obtain ⟨ec, _, eleft, _, eright, _⟩ := e0
        rw [← eleft, List.mem_singleton] at hil
        rw [← eright, List.mem_singleton] at hjr
        have hk : p'.key = Pair.key ⟨(s.lobj l).cls, (s.lobj l).lf, (s.lobj l).rf, (s.aobj x).id, (s.aobj y).id⟩ := by
          unfold Pair.key
          rw [ec, hc', hil, hjr]
          rfl
        rw [hsplit, List.map_append, List.map_cons, List.nodup_append] at hnd
        exact hnd.2.2 _ (List.mem_map.2 ⟨p', hp', rfl⟩) _ List.mem_cons_self hk
    obtain ⟨s', hs', hi', hf', hlv', hatt', htobj'⟩ := loadAssoc_ok_of L s2 _ (classOf L d) _ _ hi2 hload
    rw [List.map_cons, List.foldlM_cons,
      loadScadAssoc_pair L nodes s2 _ x2 y2 d (classOf L d) (hfs l hl).1 (hfs l hl).2 hgx hgy
        (by rw [ex2, ey2]; exact hd) hdl hcls (by rw [← hcls]; exact hfound) hinst.lf.symm hinst.rf.symm, hs']
    exact ih (pre ++ [_]) s' (by rw [hsplit, List.append_assoc]; rfl) hi' (hf2.trans hf')
      (by rw [hlv', hlv, List.map_append, List.map_cons, List.map_nil]; rfl)
      (hatt'.trans hatt) (htobj'.trans htobj)

/-- coherence and validity: no (class, left id, right id) pair is listed twice -/
theorem pairKeys_nodup {L : Lang} {s : St} (h : Inv s) (hv : Valid L s) : ((pairsOf s).map Pair.key).Nodup := by
  unfold pairsOf pairsOfLink
  simp only [List.map_flatMap, List.map_map]
  unfold List.Nodup
  rw [List.pairwise_flatMap]
  constructor
  · intro l hl
    rw [List.pairwise_flatMap]
    constructor
    · intro x hx
      exact nodup_map_of_inj _ _ (h.links.right_nodup l hl) (by
        intro a ha b hb e
        simp only [Function.comp, Pair.key, Prod.mk.injEq] at e
        exact h.assets.ids_inj a (h.links.right_live l hl a ha) b (h.links.right_live l hl b hb) e.2.2)
    · apply List.Pairwise.imp_of_mem _ (h.links.left_nodup l hl)
      intro a b ha hb hne k1 hk1 k2 hk2 e
      obtain ⟨y1, _, rfl⟩ := List.mem_map.1 hk1
      obtain ⟨y2, _, rfl⟩ := List.mem_map.1 hk2
      simp only [Function.comp, Pair.key, Prod.mk.injEq] at e
      exact hne (h.assets.ids_inj a (h.links.left_live l hl a ha) b (h.links.left_live l hl b hb) e.2.1)
  · apply List.Pairwise.imp_of_mem _ h.links.nodup
    intro l1 l2 hl1 hl2 hne k1 hk1 k2 hk2 e
    obtain ⟨x1, hx1, hk1⟩ := List.mem_flatMap.1 hk1
    obtain ⟨y1, hy1, rfl⟩ := List.mem_map.1 hk1
    obtain ⟨x2, hx2, hk2⟩ := List.mem_flatMap.1 hk2
    obtain ⟨y2, hy2, rfl⟩ := List.mem_map.1 hk2
    simp only [Function.comp, Pair.key, Prod.mk.injEq] at e
    exact hv.no_dup_link l1 hl1 l2 hl2 hne e.1 ⟨x1, hx1, y1, hy1, x2, hx2, y2, hy2, e.2.1, e.2.2⟩

/-! ## securiCAD: the entry points -/

/-- the attacker with id `tid` has the step `st` of the asset with id `aid` as an entry point -/
def EntryRel (s : St) (tid aid : Int) (st : String) : Prop :=
  ∃ t ∈ s.attackers, (s.tobj t).id = tid ∧ ∃ ep ∈ (s.tobj t).entry, (s.aobj ep.1).id = aid ∧ st ∈ ep.2

/-- the (attacker id, asset id, step) triples of the model, in model order -/
def entryTriples (s : St) : List (Int × Int × String) :=
  s.attackers.flatMap fun t => (s.tobj t).entry.flatMap fun ep => ep.2.map fun st => ((s.tobj t).id, (s.aobj ep.1).id, st)

def tripleScad (x : Int × Int × String) : ScadAssoc :=
  { sourceObject := x.1, targetObject := x.2.1, sourceProperty := "firstSteps", targetProperty := x.2.2 ++ ".attacker" }

theorem mem_entryTriples (s : St) (tid aid : Int) (st : String) :
    (tid, aid, st) ∈ entryTriples s ↔ EntryRel s tid aid st := by
  unfold entryTriples EntryRel
  simp only [List.mem_flatMap, List.mem_map, Prod.mk.injEq]
  constructor
  · rintro ⟨t, ht, ep, hep, st', hst, e1, e2, e3⟩
    exact ⟨t, ht, e1, ep, hep, e2, e3 ▸ hst⟩
  · rintro ⟨t, ht, e1, ep, hep, e2, hst⟩
    exact ⟨t, ht, ep, hep, st, hst, e1, e2, rfl⟩

theorem emitScad_associations (L : Lang) (s : St) :
    (emitScad L s).associations = (pairsOf s).map Pair.scad ++ (entryTriples s).map tripleScad := by
  unfold emitScad pairsOf pairsOfLink entryTriples
  simp only [List.map_flatMap, List.map_map]
  rfl

/-- the entry points after `add_entry_point`: one more (asset, step) pair -/
theorem entry_addEntryPoint (e : List (Nat × List String)) (x : Nat) (step : String) (a : Nat) (st : String) :
    (∃ ep ∈ ((match e.find? (·.1 = x) with
        | some _ => e.map (fun ep => if ep.1 = x ∧ !ep.2.contains step then (x, ep.2 ++ [step]) else ep)
        | none => e ++ [(x, [step])]) : List (Nat × List String)), ep.1 = a ∧ st ∈ ep.2) ↔
    (∃ ep ∈ e, ep.1 = a ∧ st ∈ ep.2) ∨ (a = x ∧ st = step) := by
  cases hf : e.find? (·.1 = x) with
  | none =>
    dsimp only
    constructor
    · rintro ⟨ep, hep, h1, h2⟩
      rcases List.mem_append.1 hep with hep | hep
      · exact Or.inl ⟨ep, hep, h1, h2⟩
      · rw [List.mem_singleton] at hep; subst hep
        exact Or.inr ⟨h1.symm, by simpa using h2⟩
    · rintro (⟨ep, hep, h1, h2⟩ | ⟨rfl, rfl⟩)
      · exact ⟨ep, List.mem_append_left _ hep, h1, h2⟩
      · exact ⟨(a, [st]), List.mem_append_right _ List.mem_cons_self, rfl, List.mem_cons_self⟩
  | some ep0 =>
    dsimp only
    have hep0 : ep0 ∈ e := List.mem_of_find?_eq_some hf
    have hx0 : ep0.1 = x := by simpa using List.find?_some hf
    constructor
    · rintro ⟨ep, hep, h1, h2⟩
      obtain ⟨ep', hep', rfl⟩ := List.mem_map.1 hep
      by_cases hc : ep'.1 = x ∧ (!ep'.2.contains step) = true
      · rw [if_pos hc] at h1 h2
        rcases List.mem_append.1 h2 with h2 | h2
        · exact Or.inl ⟨ep', hep', hc.1.trans h1, h2⟩
        · exact Or.inr ⟨h1.symm, by simpa using h2⟩
      · rw [if_neg hc] at h1 h2
        exact Or.inl ⟨ep', hep', h1, h2⟩
    · rintro (⟨ep, hep, h1, h2⟩ | ⟨rfl, rfl⟩)
      · by_cases hc : ep.1 = x ∧ (!ep.2.contains step) = true
        · exact ⟨_, List.mem_map.2 ⟨ep, hep, rfl⟩, by rw [if_pos hc]; exact hc.1.symm.trans h1,
            by rw [if_pos hc]; exact List.mem_append_left _ h2⟩
        · exact ⟨_, List.mem_map.2 ⟨ep, hep, rfl⟩, by rw [if_neg hc]; exact h1, by rw [if_neg hc]; exact h2⟩
      · by_cases hc : ep0.1 = a ∧ (!ep0.2.contains st) = true
        · exact ⟨_, List.mem_map.2 ⟨ep0, hep0, rfl⟩, by rw [if_pos hc],
            by rw [if_pos hc]; exact List.mem_append_right _ List.mem_cons_self⟩
        · refine ⟨_, List.mem_map.2 ⟨ep0, hep0, rfl⟩, by rw [if_neg hc]; exact hx0, ?_⟩
          rw [if_neg hc]
          have : ep0.2.contains st = true := by
            cases hb : ep0.2.contains st with
            | true => rfl
            | false => exact absurd ⟨hx0, by rw [hb]; rfl⟩ hc
          exact List.contains_iff_mem.1 this

theorem addEntryPoint_tobj (s : St) (t x : Nat) (step : String) (u : Nat) :
    (addEntryPoint s t x step).tobj u = if u = t then
      { s.tobj u with entry := match (s.tobj u).entry.find? (·.1 = x) with
          | some _ => (s.tobj u).entry.map (fun ep => if ep.1 = x ∧ !ep.2.contains step then (x, ep.2 ++ [step]) else ep)
          | none => (s.tobj u).entry ++ [(x, [step])] }
      else s.tobj u := by
  unfold addEntryPoint updT
  dsimp only
  by_cases h : u = t
  · rw [if_pos h, if_pos h]
    cases (s.tobj u).entry.find? (·.1 = x) <;> rfl
  · rw [if_neg h, if_neg h]

theorem addEntryPoint_aframe (s : St) (t x : Nat) (step : String) : AFrame s (addEntryPoint s t x step) :=
  ⟨rfl, fun _ => rfl, fun _ => rfl, fun _ => rfl, fun _ => rfl, fun _ => rfl⟩

theorem addEntryPoint_id (s : St) (t x : Nat) (step : String) (u : Nat) :
    ((addEntryPoint s t x step).tobj u).id = (s.tobj u).id ∧ ((addEntryPoint s t x step).tobj u).name = (s.tobj u).name := by
  rw [addEntryPoint_tobj]
  by_cases h : u = t
  · rw [if_pos h]; exact ⟨rfl, rfl⟩
  · rw [if_neg h]; exact ⟨rfl, rfl⟩

theorem entryRel_addEntryPoint (s : St) (t x : Nat) (step : String) (ht : t ∈ s.attackers) (tid aid : Int) (st : String) :
    EntryRel (addEntryPoint s t x step) tid aid st ↔
      EntryRel s tid aid st ∨ (tid = (s.tobj t).id ∧ aid = (s.aobj x).id ∧ st = step) := by
  unfold EntryRel
  show (∃ u ∈ s.attackers, ((addEntryPoint s t x step).tobj u).id = tid ∧
      ∃ ep ∈ ((addEntryPoint s t x step).tobj u).entry, (s.aobj ep.1).id = aid ∧ st ∈ ep.2) ↔ _
  have key : ∀ u, (∃ ep ∈ ((addEntryPoint s t x step).tobj u).entry, (s.aobj ep.1).id = aid ∧ st ∈ ep.2) ↔
      ((∃ ep ∈ (s.tobj u).entry, (s.aobj ep.1).id = aid ∧ st ∈ ep.2) ∨ (u = t ∧ aid = (s.aobj x).id ∧ st = step)) ∨
      False := by
    intro u
    rw [or_false, addEntryPoint_tobj]
    by_cases hu : u = t
    · rw [if_pos hu]
      dsimp only
      constructor
      · rintro ⟨ep, hep, h1, h2⟩
        rcases (entry_addEntryPoint _ x step ep.1 st).1 ⟨ep, hep, rfl, h2⟩ with ⟨ep', hep', e1, e2⟩ | ⟨e1, e2⟩
        · exact Or.inl ⟨ep', hep', by rw [e1]; exact h1, e2⟩
        · exact Or.inr ⟨hu, by rw [← h1, e1], e2⟩
      · rintro (⟨ep, hep, h1, h2⟩ | ⟨_, h1, h2⟩)
        · obtain ⟨ep', hep', e1, e2⟩ := (entry_addEntryPoint _ x step ep.1 st).2 (Or.inl ⟨ep, hep, rfl, h2⟩)
          exact ⟨ep', hep', by rw [e1]; exact h1, e2⟩
        · obtain ⟨ep', hep', e1, e2⟩ := (entry_addEntryPoint (s.tobj u).entry x step x st).2 (Or.inr ⟨rfl, h2⟩)
          exact ⟨ep', hep', by rw [e1]; exact h1.symm, e2⟩
    · rw [if_neg hu]
      constructor
      · intro h; exact Or.inl h
      · rintro (h | ⟨h, _⟩)
        · exact h
        · exact absurd h hu
  constructor
  · rintro ⟨u, hu, hid, hep⟩
    rw [(addEntryPoint_id s t x step u).1] at hid
    rcases (key u).1 hep with (h | ⟨rfl, h1, h2⟩) | h
    · exact Or.inl ⟨u, hu, hid, h⟩
    · exact Or.inr ⟨hid.symm, h1, h2⟩
    · exact h.elim
  · rintro (⟨u, hu, hid, hep⟩ | ⟨rfl, rfl, rfl⟩)
    · exact ⟨u, hu, by rw [(addEntryPoint_id s t x step u).1]; exact hid, (key u).2 (Or.inl (Or.inl hep))⟩
    · exact ⟨t, ht, (addEntryPoint_id s t x _ t).1, (key t).2 (Or.inl (Or.inr ⟨rfl, rfl, rfl⟩))⟩

theorem getAttackerById_some {s : St} {i : Int} {t : Nat} (h : getAttackerById s i = some t) :
    t ∈ s.attackers ∧ (s.tobj t).id = i := by
  unfold getAttackerById at h
  exact ⟨List.mem_of_find?_eq_some h, by simpa using List.find?_some h⟩

theorem getAttackerById_exists {s : St} {i : Int} (h : ∃ t ∈ s.attackers, (s.tobj t).id = i) :
    ∃ t, getAttackerById s i = some t := by
  cases hg : getAttackerById s i with
  | some t => exact ⟨t, rfl⟩
  | none =>
    obtain ⟨t, ht, e⟩ := h
    exact absurd e ((C05.getAttackerById_none_iff s i).1 hg t ht)

theorem loadScadAssoc_triple (L : Lang) (nodes : List AssocDecl) (s : St) (x : Int × Int × String) (t a : Nat)
    (ht : getAttackerById s x.1 = some t) (ha : getAssetById s x.2.1 = some a) (hdot : '.' ∉ x.2.2.toList) :
    loadScadAssoc L nodes s (tripleScad x) = .ok (addEntryPoint s t a x.2.2) := by
  unfold loadScadAssoc tripleScad
  dsimp only
  rw [if_pos rfl]
  dsimp only
  rw [ht, ha]
  dsimp only
  rw [beforeDot_attacker _ hdot]

/-- the entry-point fold of `loadScad` -/
theorem loadScadEntries (L : Lang) (nodes : List AssocDecl) (ts : List (Int × Int × String)) (s2 : St) (h2 : Inv s2)
    (hts : ∀ x ∈ ts, (∃ t ∈ s2.attackers, (s2.tobj t).id = x.1) ∧ (∃ a ∈ s2.assets, (s2.aobj a).id = x.2.1) ∧
      '.' ∉ x.2.2.toList) :
    ∃ s3, (ts.map tripleScad).foldlM (loadScadAssoc L nodes) s2 = .ok s3 ∧ Inv s3 ∧ AFrame s2 s3 ∧
      s3.associations = s2.associations ∧ s3.lobj = s2.lobj ∧ s3.attackers = s2.attackers ∧
      (∀ u, (s3.tobj u).id = (s2.tobj u).id ∧ (s3.tobj u).name = (s2.tobj u).name) ∧
      ∀ tid aid st, EntryRel s3 tid aid st ↔ (EntryRel s2 tid aid st ∨ (tid, aid, st) ∈ ts) := by
  induction ts generalizing s2 with
  | nil =>
    exact ⟨s2, rfl, h2, AFrame.refl s2, rfl, rfl, rfl, fun _ => ⟨rfl, rfl⟩, fun _ _ _ => by simp⟩
  | cons x ts ih =>
    obtain ⟨hxt, hxa, hxd⟩ := hts x List.mem_cons_self
    obtain ⟨t, hgt⟩ := getAttackerById_exists hxt
    obtain ⟨a, hga⟩ := getAssetById_exists hxa
    obtain ⟨htm, htid⟩ := getAttackerById_some hgt
    obtain ⟨ham, haid⟩ := getAssetById_some hga
    rw [List.map_cons, List.foldlM_cons, loadScadAssoc_triple L nodes s2 x t a hgt hga hxd]
    have hi' := addEntryPoint_inv' s2 t a x.2.2 h2 ham
    obtain ⟨s3, e1, e2, e3, e4, e5, e6, e7, e8⟩ := ih (addEntryPoint s2 t a x.2.2) hi' (by
      intro y hy
      obtain ⟨⟨u, hu, hud⟩, hya, hyd⟩ := hts y (List.mem_cons_of_mem _ hy)
      exact ⟨⟨u, hu, by rw [(addEntryPoint_id s2 t a _ u).1]; exact hud⟩, hya, hyd⟩)
    refine ⟨s3, e1, e2, (addEntryPoint_aframe s2 t a _).trans e3, e4, e5, e6, ?_, ?_⟩
    · intro u
      exact ⟨(e7 u).1.trans (addEntryPoint_id s2 t a _ u).1, (e7 u).2.trans (addEntryPoint_id s2 t a _ u).2⟩
    · intro tid aid st
      rw [e8, entryRel_addEntryPoint s2 t a x.2.2 htm, List.mem_cons, htid, haid]
      constructor
      · rintro ((h | ⟨rfl, rfl, rfl⟩) | h)
        · exact Or.inl h
        · exact Or.inr (Or.inl rfl)
        · exact Or.inr (Or.inr h)
      · rintro (h | h | h)
        · exact Or.inl (Or.inl h)
        · exact Or.inl (Or.inr ⟨by rw [← h], by rw [← h], by rw [← h]⟩)
        · exact Or.inr h

/-! ## securiCAD: the whole archive -/

/-- no attack-step name of an entry point contains a dot -/
def StepsNoDot (s : St) : Prop := ∀ t ∈ s.attackers, ∀ ep ∈ (s.tobj t).entry, ∀ st ∈ ep.2, '.' ∉ st.toList

instance (s : St) : Decidable (StepsNoDot s) := inferInstanceAs (Decidable (∀ t ∈ s.attackers, _))

theorem effDefenses_scadObj (L : Lang) (o : AssetObj) (hk : (o.defenses.map (·.1)).Nodup) :
    effDefenses L (scadObj L o) = effDefenses L o := effDefenses_normObj L o hk

theorem objView_scadObj (L : Lang) (o : AssetObj) (hk : (o.defenses.map (·.1)).Nodup) :
    objView L (scadObj L o) = { objView L o with extras := "{}" } := by
  unfold objView
  rw [effDefenses_scadObj L o hk]
  rfl

/-- loading the archive written for `s`: it loads, to a coherent model with the assets of `s` (non-default
defense values, no extras), the pairwise expansion of its links, attackers named `Attacker:<id>` and the same
entry points -/
theorem loadScad_emit (L : Lang) (nodes : List AssocDecl) (defsOk : Int → Bool) (s : St) (h : Inv s) (hv : Valid L s)
    (ha : ScadAssetsOk L defsOk s) (hr : PairsResolve L nodes s) (hfs : NoFirstSteps s) (hdot : StepsNoDot s) :
    ∃ s', loadScad L nodes defsOk (emitScad L s) = .ok s' ∧ Inv s' ∧
      s'.assets.map (assetFileView L s') = s.assets.map (fun a => objFileView L (scadObj L (s.aobj a))) ∧
      s'.assets.map (assetView L s') = s.assets.map (fun a => objView L (scadObj L (s.aobj a))) ∧
      s'.associations.map (assocView s') = (pairsOf s).map Pair.view ∧
      s'.attackers.map (fun t => ((s'.tobj t).id, (s'.tobj t).name)) =
        s.attackers.map (fun t => ((s.tobj t).id, "Attacker:" ++ toString (s.tobj t).id)) ∧
      ∀ tid aid st, EntryRel s' tid aid st ↔ EntryRel s tid aid st := by
  obtain ⟨s1, h1, hi1, hobjs, hatts, hl1⟩ := loadScadObjects_emit L defsOk s h hv ha
  have hsame : SameIdType s s1 := by
    intro a ham
    have : scadObj L (s.aobj a) ∈ s1.assets.map s1.aobj := hobjs ▸ List.mem_map.2 ⟨a, ham, rfl⟩
    obtain ⟨a1, ha1, e⟩ := List.mem_map.1 this
    exact ⟨a1, ha1, by rw [e]; rfl, by rw [e]; rfl⟩
  obtain ⟨s2, h2, hi2, hf2, hlv2, hatt2, htobj2⟩ := loadScadLinks L nodes s s1 h hr hfs hsame (pairKeys_nodup h hv)
    (pairsOf s) [] s1 rfl hi1 (AFrame.refl s1) (by rw [hl1]; rfl) rfl rfl
  have hatt_mem : ∀ t2 ∈ s2.attackers, ∃ t ∈ s.attackers, s2.tobj t2 = scadAtt (s.tobj t) := by
    intro t2 ht2
    rw [hatt2] at ht2
    have : s1.tobj t2 ∈ s.attackers.map (fun t => scadAtt (s.tobj t)) := hatts ▸ List.mem_map.2 ⟨t2, ht2, rfl⟩
    obtain ⟨t, ht, e⟩ := List.mem_map.1 this
    exact ⟨t, ht, by rw [htobj2, e]⟩
  have hs2 := hsame.of_aframe hf2
  obtain ⟨s3, h3, hi3, hf3, hl3, hlo3, hatt3, hid3, hrel3⟩ := loadScadEntries L nodes (entryTriples s) s2 hi2 (by
    intro x hx
    obtain ⟨tid, aid, st⟩ := x
    obtain ⟨t, ht, e1, ep, hep, e2, hst⟩ := (mem_entryTriples s tid aid st).1 hx
    refine ⟨?_, ?_, hdot t ht ep hep st hst⟩
    · have : scadAtt (s.tobj t) ∈ s1.attackers.map s1.tobj := hatts ▸ List.mem_map.2 ⟨t, ht, rfl⟩
      obtain ⟨t1, ht1, e⟩ := List.mem_map.1 this
      exact ⟨t1, by rw [hatt2]; exact ht1, by rw [htobj2, e]; exact e1⟩
    · obtain ⟨a2, ha2, e, _⟩ := hs2 ep.1 (h.att.entry_live t ht ep hep)
      exact ⟨a2, ha2, e.trans e2⟩)
  refine ⟨s3, ?_, hi3, ?_, ?_, ?_, ?_, ?_⟩
  · unfold loadScad
    rw [h1, emitScad_associations]
    show List.foldlM _ s1 _ = _
    rw [List.foldlM_append, h2]
    exact h3
  · rw [(hf2.trans hf3).assetFileViews L]
    have : s1.assets.map (assetFileView L s1) = (s1.assets.map s1.aobj).map (objFileView L) := by
      rw [List.map_map]; rfl
    rw [this, hobjs, List.map_map]; rfl
  · rw [(hf2.trans hf3).assetViews L]
    have : s1.assets.map (assetView L s1) = (s1.assets.map s1.aobj).map (objView L) := by
      rw [List.map_map]; rfl
    rw [this, hobjs, List.map_map]; rfl
  · rw [← hlv2, hl3]
    apply List.map_congr_left
    intro l _
    exact AFrame.assocView hf3 l (by rw [hlo3])
  · rw [hatt3, hatt2]
    have e1 : s1.attackers.map (fun t => ((s3.tobj t).id, (s3.tobj t).name)) =
        (s1.attackers.map s1.tobj).map (fun o => (o.id, o.name)) := by
      rw [List.map_map]
      apply List.map_congr_left
      intro t _
      show ((s3.tobj t).id, (s3.tobj t).name) = ((s1.tobj t).id, (s1.tobj t).name)
      rw [(hid3 t).1, (hid3 t).2, htobj2]
    rw [e1, hatts, List.map_map]; rfl
  · intro tid aid st
    rw [hrel3, mem_entryTriples]
    constructor
    · rintro (⟨t2, ht2, _, ep, hep, _⟩ | h)
      · obtain ⟨t, _, e⟩ := hatt_mem t2 ht2
        rw [e] at hep; exact absurd hep List.not_mem_nil
      · exact h
    · exact Or.inr

/-! ## when the lookup resolves: field names identify the declaration -/

/-- the association nodes of the language graph are the declarations of the language, and an (unordered) pair of
field names belongs to at most one of them -/
structure FieldsIdentify (L : Lang) (nodes : List AssocDecl) : Prop where
  decl_node : ∀ a ∈ L.assocs, a ∈ nodes
  fields : ∀ d ∈ nodes, ∀ d' ∈ nodes,
    ((d.leftField = d'.leftField ∧ d.rightField = d'.rightField) ∨
     (d.leftField = d'.rightField ∧ d.rightField = d'.leftField)) → d = d'

theorem lookupAssoc_known (L : Lang) (nodes : List AssocDecl) (f1 f2 t1 t2 : String)
    (h1 : (L.findAsset t1).isSome = true) (h2 : (L.findAsset t2).isSome = true) :
    LG.lookupAssoc L nodes f1 f2 t1 t2 = .ok (nodes.find? (fun a =>
      (a.leftField = f1 && a.rightField = f2 && L.isSub t1 a.leftAsset && L.isSub t2 a.rightAsset) ||
      (a.leftField = f2 && a.rightField = f1 && L.isSub t2 a.leftAsset && L.isSub t1 a.rightAsset))) := by
  unfold LG.lookupAssoc
  rw [if_neg]
  rw [Option.isSome_iff_ne_none] at h1 h2
  simp [h1, h2]

theorem pairsResolve_of_fields {L : Lang} {nodes : List AssocDecl} {s : St} (hd : ClassNamesDistinct L)
    (hf : FieldsIdentify L nodes) (hv : Valid L s) (h : Inv s) : PairsResolve L nodes s := by
  intro l hl x hx y hy
  obtain ⟨c, hc, hi⟩ := hv.links l hl
  obtain ⟨a, ha, rfl⟩ := (C06.mem_assocClasses L c).1 hc
  have han := hf.decl_node a ha
  rw [lookupAssoc_known L nodes _ _ _ _ (hv.assets x (h.links.left_live l hl x hx)).known
    (hv.assets y (h.links.right_live l hl y hy)).known]
  have hpa : (fun (d : AssocDecl) =>
      (d.leftField = (s.lobj l).lf && d.rightField = (s.lobj l).rf && L.isSub (s.aobj x).type d.leftAsset &&
        L.isSub (s.aobj y).type d.rightAsset) ||
      (d.leftField = (s.lobj l).rf && d.rightField = (s.lobj l).lf && L.isSub (s.aobj y).type d.leftAsset &&
        L.isSub (s.aobj x).type d.rightAsset)) a = true := by
    have e1 : a.leftField = (s.lobj l).lf := hi.lf.symm
    have e2 : a.rightField = (s.lobj l).rf := hi.rf.symm
    have e3 : L.isSub (s.aobj x).type a.leftAsset = true := hi.left_type x hx
    have e4 : L.isSub (s.aobj y).type a.rightAsset = true := hi.right_type y hy
    simp [e1, e2, e3, e4]
  cases hfd : nodes.find? _ with
  | none => exact absurd hpa (by simpa using List.find?_eq_none.1 hfd a han)
  | some d =>
    have hdn : d ∈ nodes := List.mem_of_find?_eq_some hfd
    have hpd := List.find?_some hfd
    have hda : d = a := by
      apply hf.fields d hdn a han
      simp only [Bool.or_eq_true, Bool.and_eq_true, decide_eq_true_eq] at hpd
      rcases hpd with hpd | hpd
      · exact Or.inl ⟨hpd.1.1.1.trans hi.lf, hpd.1.1.2.trans hi.rf⟩
      · exact Or.inr ⟨hpd.1.1.1.trans hi.rf, hpd.1.1.2.trans hi.lf⟩
    subst hda
    refine ⟨d, rfl, hi.lf.symm, ?_, hi⟩
    rw [find?_unique]
    · exact ⟨hc, by simp [classOf]⟩
    · intro u hu v hv' pu pv
      simp only [decide_eq_true_eq] at pu pv
      exact inj_of_nodup_map (fun c : AssocClass => c.cls) (assocClasses L) hd u hu v hv' (pu.trans pv.symm)

/-! ## a small language and model for the non-vacuity examples -/
namespace Sample

def lang : Lang :=
  { assets := [
      { name := "Host", steps := [{ name := "patched", type := "defense" }, { name := "access", type := "or" },
                                  { name := "connect", type := "or" }] },
      { name := "Net", steps := [{ name := "reach", type := "or" }] }],
    assocs := [
      { name := "NetCon", leftAsset := "Host", leftField := "hosts", rightAsset := "Net", rightField := "nets" },
      { name := "Peer", leftAsset := "Host", leftField := "peers", rightAsset := "Host", rightField := "peerOf" }] }

/-- ids 5, -3, 0; `h` sets the non-default `patched = 1`; a link with two left members; a self-link; an attacker with
two steps on one asset and one step on another -/
def ops : List Op := [
  .addAsset "Host" (some "h") [("patched", "1.0")] true "{}" (some 5) true,
  .addAsset "Net" none [] true "{}" (some (-3)) true,
  .addAsset "Host" (some "g") [] true "{}" (some 0) true,
  .addAssociation "NetCon" [0, 2] [1],
  .addAssociation "Peer" [0] [0],
  .addAttacker (some "eve") (some 9),
  .addEntryPoint 0 0 "access",
  .addEntryPoint 0 0 "connect",
  .addEntryPoint 0 2 "access"]

def st : St := ops.foldl (applyOp lang) {}

/-- a native document with extras on an asset and on an association -/
def extrasDoc : ModelDoc :=
  { assets := [(.i 1, .full "h" "Host" [] (some "{\"x\": 1}")), (.i 2, .shorthand "Net")],
    associations := [{ cls := "NetCon", lf := "hosts", left := [.i 1], rf := "nets", right := [.i 2], extras := some "{\"y\": 2}" }] }

/-- the same without extras -/
def plainDoc : ModelDoc :=
  { assets := [(.i 1, .full "h" "Host" [] none), (.i 2, .shorthand "Net")],
    associations := [{ cls := "NetCon", lf := "hosts", left := [.i 1], rf := "nets", right := [.i 2] }],
    attackers := [(.i 3, { name := "eve", entry := [(.i 1, ["access", "connect"])] })] }

end Sample

end MalVerif.Legacy
