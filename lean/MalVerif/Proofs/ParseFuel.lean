import MalVerif.Proofs.ParseSound
/-!
# Fuel

`parseTypes`, `parseMetas`, `parseTags` return what they have when the fuel runs out, so a parsing function that
uses them is **not** monotone in the fuel in general (`parseExpr 3` of `a [ T ]` stops before `[`, `parseExpr 4`
takes it).  With fuel at least three times the number of tokens (+ a constant) one more unit changes nothing.
The TTC parsers, `parseArgs` and `parseCias` fail when the fuel runs out and are monotone unconditionally
(`ttc_mono`, `parseArgs_mono` in `ParseTtc.lean`).
-/
namespace MalVerif.Mal
open MalVerif (Expr)
/-! ### fuel: with enough of it, one more changes nothing -/

theorem parseTypes_cons (f : Nat) (e : Expr) (t : String) (rest : List Tok) :
    parseTypes (f+1) e (.lsquare :: .id t :: .rsquare :: rest) = parseTypes f (.sub t e) rest := by
  simp only [parseTypes]

theorem parseTypes_stop (f : Nat) (e : Expr) (ts : List Tok)
    (h : ∀ t r, ts ≠ .lsquare :: .id t :: .rsquare :: r) : parseTypes (f+1) e ts = (e, ts) := by
  unfold parseTypes
  split
  · exact absurd rfl (h _ _)
  · rfl

theorem parseTypes_stable (f : Nat) (e : Expr) (ts : List Tok) (h : ts.length ≤ 3 * f) :
    parseTypes (f+1) e ts = parseTypes f e ts := by
  induction f generalizing e ts with
  | zero =>
    have : ts = [] := by cases ts <;> simp_all
    subst this; rfl
  | succ f ih =>
    by_cases hc : ∃ t rest, ts = .lsquare :: .id t :: .rsquare :: rest
    · obtain ⟨t, rest, rfl⟩ := hc
      simp only [List.length_cons] at h
      rw [parseTypes_cons, parseTypes_cons]
      exact ih _ _ (by omega)
    · rw [parseTypes_stop _ _ _ (fun t r hr => hc ⟨t, r, hr⟩), parseTypes_stop _ _ _ (fun t r hr => hc ⟨t, r, hr⟩)]

theorem parseSuffix_stable (f : Nat) (e : Expr) (ts : List Tok) (h : ts.length ≤ 3 * f) :
    parseSuffix (f+1) e ts = parseSuffix f e ts := by
  unfold parseSuffix
  split
  · rename_i rest; simp only [List.length_cons] at h; exact parseTypes_stable f _ _ (by omega)
  · exact parseTypes_stable f _ _ h

theorem parseAtom_congr {f g : Nat} {reach : Bool} {ts : List Tok}
    (h : ∀ r, ts = .lparen :: r → parseExpr f reach r = parseExpr g reach r) :
    parseAtom f reach ts = parseAtom g reach ts := by
  unfold parseAtom
  split
  · rw [h _ rfl]
  · rfl
  · rfl
  · rfl

theorem expr_stable (f : Nat) :
    (∀ reach ts, 3 * ts.length + 1 ≤ f → parsePart (f+1) reach ts = parsePart f reach ts) ∧
    (∀ reach acc ts, 3 * ts.length + 1 ≤ f → parsePartsLoop (f+1) reach acc ts = parsePartsLoop f reach acc ts) ∧
    (∀ reach ts, 3 * ts.length + 2 ≤ f → parseParts (f+1) reach ts = parseParts f reach ts) ∧
    (∀ reach acc ts, 3 * ts.length + 1 ≤ f → parseExprLoop (f+1) reach acc ts = parseExprLoop f reach acc ts) ∧
    (∀ reach ts, 3 * ts.length + 3 ≤ f → parseExpr (f+1) reach ts = parseExpr f reach ts) := by
  induction f with
  | zero =>
    refine ⟨?_, ?_, ?_, ?_, ?_⟩ <;> intros <;> omega
  | succ f ih =>
    obtain ⟨hP, hPL, hPs, hEL, hE⟩ := ih
    refine ⟨?_, ?_, ?_, ?_, ?_⟩
    · intro reach ts hf
      rw [parsePart_succ, parsePart_succ]
      have hA : parseAtom (f+1) reach ts = parseAtom f reach ts := by
        apply parseAtom_congr
        intro r hr; subst hr
        simp only [List.length_cons] at hf
        exact hE reach r (by omega)
      rw [hA]
      cases ha : parseAtom f reach ts with
      | none => rfl
      | some x =>
        simp only [Option.map_some, Option.some.injEq]
        have hc := (parseAtom_cut ((expr_cut f).2.2.2.2 reach) (e := x.1) (rest := x.2) ha).length_lt
        exact parseSuffix_stable f _ _ (by omega)
    · intro reach acc ts hf
      by_cases hd : ∃ r, ts = .dot :: r
      · obtain ⟨r, rfl⟩ := hd
        simp only [List.length_cons] at hf
        rw [parsePartsLoop_dot, parsePartsLoop_dot, hP reach r (by omega)]
        cases hp : parsePart f reach r with
        | none => rfl
        | some x =>
          simp only [Option.bind_some]
          have hc := ((expr_cut f).1 _ _ x.1 x.2 hp).length_lt
          exact hPL _ _ _ (by omega)
      · rw [parsePartsLoop_stop _ _ _ _ (fun r hr => hd ⟨r, hr⟩), parsePartsLoop_stop _ _ _ _ (fun r hr => hd ⟨r, hr⟩)]
    · intro reach ts hf
      rw [parseParts_succ, parseParts_succ, hP reach ts (by omega)]
      cases hp : parsePart f reach ts with
      | none => rfl
      | some x =>
        simp only [Option.bind_some]
        have hc := ((expr_cut f).1 _ _ x.1 x.2 hp).length_lt
        exact hPL _ _ _ (by omega)
    · intro reach acc ts hf
      by_cases hd : ∃ t r op, ts = t :: r ∧ setOp t = some op
      · obtain ⟨t, r, op, rfl, hop⟩ := hd
        simp only [List.length_cons] at hf
        rw [parseExprLoop_op _ _ _ _ _ _ hop, parseExprLoop_op _ _ _ _ _ _ hop, hPs reach r (by omega)]
        cases hp : parseParts f reach r with
        | none => rfl
        | some x =>
          simp only [Option.bind_some]
          have hc := ((expr_cut f).2.2.1 _ _ x.1 x.2 hp).length_lt
          exact hEL _ _ _ (by omega)
      · have hstop : ∀ t r, ts = t :: r → setOp t = none := by
          intro t r hr
          cases hs : setOp t with
          | none => rfl
          | some op => exact absurd ⟨t, r, op, hr, hs⟩ hd
        rw [parseExprLoop_stop _ _ _ _ hstop, parseExprLoop_stop _ _ _ _ hstop]
    · intro reach ts hf
      rw [parseExpr_succ, parseExpr_succ, hPs reach ts (by omega)]
      cases hp : parseParts f reach ts with
      | none => rfl
      | some x =>
        simp only [Option.bind_some]
        have hc := ((expr_cut f).2.2.1 _ _ x.1 x.2 hp).length_lt
        exact hEL _ _ _ (by omega)

/-- with fuel at least three times the input (+3) the result of `parseExpr` no longer depends on the fuel -/
theorem parseExpr_fuel_irrelevant (f g : Nat) (reach : Bool) (ts : List Tok) (hf : 3 * ts.length + 3 ≤ f) (hg : f ≤ g) :
    parseExpr g reach ts = parseExpr f reach ts := by
  induction g with
  | zero => have : f = 0 := by omega
            subst this; rfl
  | succ g ih =>
    by_cases h : f = g + 1
    · subst h; rfl
    · rw [(expr_stable g).2.2.2.2 reach ts (by omega)]
      exact ih (by omega)

example : parseExpr 3 false [.id "a", .lsquare, .id "T", .rsquare] = some (.field "a", [.lsquare, .id "T", .rsquare]) := by
  decide
example : parseExpr 4 false [.id "a", .lsquare, .id "T", .rsquare] = some (.sub "T" (.field "a"), []) := by decide


theorem parseExprList_stable (f : Nat) (reach : Bool) (ts : List Tok) (hf : 3 * ts.length + 4 ≤ f) :
    parseExprList (f+1) reach ts = parseExprList f reach ts := by
  induction f generalizing ts with
  | zero => omega
  | succ f ih =>
    have hE := (expr_stable f).2.2.2.2 reach ts (by omega)
    cases he : parseExpr f reach ts with
    | none => rw [parseExprList_none he, parseExprList_none (hE ▸ he)]
    | some x =>
      obtain ⟨e, r1⟩ := x
      have he' : parseExpr (f+1) reach ts = some (e, r1) := hE ▸ he
      by_cases hc : ∃ r, r1 = .comma :: r
      · obtain ⟨r, rfl⟩ := hc
        have hlt := ((expr_cut f).2.2.2.2 _ _ _ _ he).length_lt
        simp only [List.length_cons] at hlt
        rw [parseExprList_comma he, parseExprList_comma he', ih r (by omega)]
      · rw [parseExprList_last he (fun r hr => hc ⟨r, hr⟩), parseExprList_last he' (fun r hr => hc ⟨r, hr⟩)]

theorem parseMetas_stable (f : Nat) (m : Meta) (ts : List Tok) (h : ts.length ≤ 4 * f) :
    parseMetas (f+1) m ts = parseMetas f m ts := by
  induction f generalizing m ts with
  | zero =>
    have : ts = [] := by cases ts <;> simp_all
    subst this; rfl
  | succ f ih =>
    by_cases hc : ∃ k v rest, ts = .id k :: .kwInfo :: .colon :: .str v :: rest
    · obtain ⟨k, v, rest, rfl⟩ := hc
      simp only [List.length_cons] at h
      have e1 : ∀ g, parseMetas (g+1) m (.id k :: .kwInfo :: .colon :: .str v :: rest) =
          parseMetas g (metaPut m k (stripQuotes v)) rest := by intro g; simp only [parseMetas]
      rw [e1, e1]
      exact ih _ _ (by omega)
    · have e2 : ∀ g, parseMetas (g+1) m ts = (m, ts) := by
        intro g
        unfold parseMetas
        split
        · exact absurd ⟨_, _, _, rfl⟩ hc
        · rfl
      rw [e2, e2]

theorem parseTags_stable (f : Nat) (acc : List String) (ts : List Tok) (h : ts.length ≤ 2 * f) :
    parseTags (f+1) acc ts = parseTags f acc ts := by
  induction f generalizing acc ts with
  | zero =>
    have : ts = [] := by cases ts <;> simp_all
    subst this; rfl
  | succ f ih =>
    by_cases hc : ∃ t rest, ts = .at :: .id t :: rest
    · obtain ⟨t, rest, rfl⟩ := hc
      simp only [List.length_cons] at h
      have e1 : ∀ g, parseTags (g+1) acc (.at :: .id t :: rest) = parseTags g (acc ++ [t]) rest := by
        intro g; simp only [parseTags]
      rw [e1, e1]
      exact ih _ _ (by omega)
    · have e2 : ∀ g, parseTags (g+1) acc ts = (acc, ts) := by
        intro g
        unfold parseTags
        split
        · exact absurd ⟨_, _, rfl⟩ hc
        · rfl
      rw [e2, e2]

theorem parseCias_mono (f : Nat) (acc : Bool × Bool × Bool) (ts : List Tok) (r : (Bool × Bool × Bool) × List Tok)
    (h : parseCias f acc ts = some r) : parseCias (f+1) acc ts = some r := by
  induction f generalizing acc ts with
  | zero => simp [parseCias] at h
  | succ f ih =>
    unfold parseCias at h ⊢
    split at h
    · rename_i t rest
      cases hc : ciaTok t with
      | none => simp [hc] at h
      | some c =>
        simp only [hc, Option.bind_some] at h ⊢
        exact ih _ _ h
    · exact h
    · exact absurd h (by simp)

/-! ### steps -/

theorem ciasStage_mono (f : Nat) (r1 : List Tok) (c : Option (Bool × Bool × Bool) × List Tok)
    (h : ciasStage f r1 = some c) : ciasStage (f+1) r1 = some c := by
  unfold ciasStage at h ⊢
  split at h
  · rename_i r
    cases hp : parseCias f (false, false, false) r with
    | none => simp [hp] at h
    | some x => simp only [parseCias_mono _ _ _ _ hp]; rw [hp] at h; exact h
  · rename_i hne
    exact h

theorem ttcStage_mono (f : Nat) (r2 : List Tok) (c : Option TTC × List Tok)
    (h : ttcStage f r2 = some c) : ttcStage (f+1) r2 = some c := by
  unfold ttcStage at h ⊢
  split at h
  · split at h
    · rename_i e r' hp
      simp only [(ttc_mono f).2.2.2.2.2 _ _ hp]; exact h
    · exact absurd h (by simp)
  · exact h

theorem preStage_stable (f : Nat) (r4 : List Tok) (hf : 3 * r4.length + 4 ≤ f) :
    preStage (f+1) r4 = preStage f r4 := by
  unfold preStage
  split
  · rename_i r; simp only [List.length_cons] at hf; rw [parseExprList_stable f false r (by omega)]
  · rfl

theorem rchStage_stable (f : Nat) (r5 : List Tok) (hf : 3 * r5.length + 4 ≤ f) :
    rchStage (f+1) r5 = rchStage f r5 := by
  unfold rchStage
  split
  · rename_i r; simp only [List.length_cons] at hf; rw [parseExprList_stable f true r (by omega)]
  · rename_i r; simp only [List.length_cons] at hf; rw [parseExprList_stable f true r (by omega)]
  · rfl

theorem length_le_of_eq_append {ts pre rest : List Tok} (h : ts = pre ++ rest) : rest.length ≤ ts.length := by
  subst h; simp

theorem parseStep_mono_partial (f : Nat) (ts : List Tok) (r : CStep × List Tok) (hf : 3 * ts.length + 4 ≤ f)
    (h : parseStep f ts = some r) : parseStep (f+1) ts = some r := by
  obtain ⟨t, name, rest0, rfl⟩ := parseStep_shape h
  simp only [List.length_cons] at hf
  rw [parseStep_eq] at h ⊢
  cases hty : stepType t with
  | none => simp [hty] at h
  | some ty =>
    simp only [hty, Option.bind_some] at h ⊢
    rw [parseTags_stable f [] rest0 (by omega)]
    have hl1 := (parseTags_cut f [] rest0).length_le
    cases hc : ciasStage f (parseTags f [] rest0).2 with
    | none => simp [hc] at h
    | some c =>
      obtain ⟨risk, r2⟩ := c
      simp only [hc, Option.bind_some, ciasStage_mono _ _ _ hc] at h ⊢
      obtain ⟨p2, hp2, _⟩ := ciasStage_sound _ _ _ _ hc
      have hl2 := length_le_of_eq_append hp2
      cases htt : ttcStage f r2 with
      | none => simp [htt] at h
      | some x =>
        obtain ⟨tt, r3⟩ := x
        simp only [htt, Option.bind_some, ttcStage_mono _ _ _ htt] at h ⊢
        obtain ⟨p3, hp3, _⟩ := ttcStage_sound _ _ _ _ htt
        have hl3 := length_le_of_eq_append hp3
        rw [parseMetas_stable f [] r3 (by omega)]
        have hl4 := (parseMetas_cut f [] r3).length_le
        rw [preStage_stable f _ (by omega)]
        cases hpre : preStage f (parseMetas f [] r3).2 with
        | none => simp [hpre] at h
        | some y =>
          obtain ⟨req, r5⟩ := y
          simp only [hpre, Option.bind_some] at h ⊢
          obtain ⟨p5, hp5, _⟩ := preStage_sound _ _ _ _ hpre
          have hl5 := length_le_of_eq_append hp5
          rw [rchStage_stable f _ (by omega)]
          exact h



/-! ### assets, associations, declarations -/

theorem parseAssetBody_mono_partial (f : Nat) (vs : List (String × Expr)) (ss : List CStep) (ts : List Tok)
    (r : (List (String × Expr) × List CStep) × List Tok) (hf : 3 * ts.length + 5 ≤ f)
    (h : parseAssetBody f vs ss ts = some r) : parseAssetBody (f+1) vs ss ts = some r := by
  induction f generalizing vs ss ts with
  | zero => omega
  | succ f ih =>
    by_cases h1 : ∃ r', ts = .rcurly :: r'
    · obtain ⟨r', rfl⟩ := h1
      rw [parseAssetBody_rcurly] at h ⊢; exact h
    · by_cases h2 : ∃ v r', ts = .kwLet :: .id v :: .assign :: r'
      · obtain ⟨v, r', rfl⟩ := h2
        simp only [List.length_cons] at hf
        rw [parseAssetBody_let] at h ⊢
        rw [(expr_stable f).2.2.2.2 false r' (by omega)]
        cases he : parseExpr f false r' with
        | none => simp [he] at h
        | some x =>
          simp only [he, Option.bind_some] at h ⊢
          have hlt := ((expr_cut f).2.2.2.2 _ _ x.1 x.2 he).length_lt
          exact ih _ _ _ (by omega) h
      · rw [parseAssetBody_step _ _ _ _ (fun r hr => h1 ⟨r, hr⟩) (fun v r hr => h2 ⟨v, r, hr⟩)] at h ⊢
        cases hs : parseStep f ts with
        | none => simp [hs] at h
        | some x =>
          simp only [hs, Option.bind_some, parseStep_mono_partial f ts x (by omega) hs] at h ⊢
          have hlt := (parseStep_cut f ts x.1 x.2 hs).length_lt
          exact ih _ _ _ (by omega) h

theorem parseAsset_mono_partial (f : Nat) (cat : String) (ts : List Tok) (r : CAsset × List Tok)
    (hf : 3 * ts.length + 4 ≤ f) (h : parseAsset f cat ts = some r) : parseAsset (f+1) cat ts = some r := by
  rw [parseAsset_eq] at h ⊢
  cases hh : assetHdr ts with
  | none => simp [hh] at h
  | some x =>
    obtain ⟨abs, name, r1⟩ := x
    simp only [hh, Option.bind_some] at h ⊢
    obtain ⟨pAbs, hts, _⟩ := assetHdr_sound hh
    obtain ⟨pSup, hs1, _⟩ := assetSup_sound r1
    have hl1 : r1.length + 2 ≤ ts.length := by subst hts; simp
    have hl2 := length_le_of_eq_append hs1
    rw [parseMetas_stable f [] _ (by omega)]
    have hl3 := (parseMetas_cut f [] (assetSup r1).2).length_le
    unfold assetBodyStage at h ⊢
    split at h
    · rename_i r4 hr3
      simp only [hr3, List.length_cons] at hl3
      cases hb : parseAssetBody f [] [] r4 with
      | none => simp [hb] at h
      | some y =>
        simp only [parseAssetBody_mono_partial f [] [] r4 y (by omega) hb]
        rw [hb] at h; exact h
    · exact absurd h (by simp)

theorem parseAssets_mono_partial (f : Nat) (cat : String) (acc : List CAsset) (ts : List Tok)
    (r : List CAsset × List Tok) (hf : 3 * ts.length + 5 ≤ f)
    (h : parseAssets f cat acc ts = some r) : parseAssets (f+1) cat acc ts = some r := by
  induction f generalizing acc ts with
  | zero => omega
  | succ f ih =>
    by_cases h1 : ∃ r', ts = .rcurly :: r'
    · obtain ⟨r', rfl⟩ := h1
      rw [parseAssets_rcurly] at h ⊢; exact h
    · rw [parseAssets_asset _ _ _ _ (fun r hr => h1 ⟨r, hr⟩)] at h ⊢
      cases ha : parseAsset f cat ts with
      | none => simp [ha] at h
      | some x =>
        simp only [ha, Option.bind_some, parseAsset_mono_partial f cat ts x (by omega) ha] at h ⊢
        have hlt := (parseAsset_cut f cat ts x.1 x.2 ha).length_lt
        exact ih _ _ (by omega) h

theorem parseAssociation_mono_partial (f : Nat) (ts : List Tok) (r : CAssoc × List Tok)
    (hf : ts.length ≤ 4 * f + 13)
    (h : parseAssociation f ts = some r) : parseAssociation (f+1) ts = some r := by
  obtain ⟨la, lf, r1, rfl⟩ := parseAssociation_shape h
  simp only [List.length_cons] at hf
  rw [parseAssociation_eq] at h ⊢
  unfold assocMid at h ⊢
  split at h
  · rename_i lm name r2 hm1
    have hl1 := (parseMult_cut _ _ _ hm1).length_lt
    simp only [List.length_cons] at hl1
    unfold assocTail at h ⊢
    split at h
    · rename_i rm rf ra r3 hm2
      have hl2 := (parseMult_cut _ _ _ hm2).length_lt
      simp only [List.length_cons] at hl2
      rw [parseMetas_stable f [] r3 (by omega)]
      exact h
    · exact absurd h (by simp)
  · exact absurd h (by simp)

theorem parseAssociationsBody_mono_partial (f : Nat) (acc : List CAssoc) (ts : List Tok)
    (r : List CAssoc × List Tok) (hf : ts.length ≤ 4 * f)
    (h : parseAssociationsBody f acc ts = some r) : parseAssociationsBody (f+1) acc ts = some r := by
  induction f generalizing acc ts with
  | zero => rw [parseAssociationsBody_zero] at h; exact absurd h (by simp)
  | succ f ih =>
    by_cases h1 : ∃ r', ts = .rcurly :: r'
    · obtain ⟨r', rfl⟩ := h1
      rw [parseAssociationsBody_rcurly] at h ⊢; exact h
    · rw [parseAssociationsBody_assoc _ _ _ (fun r hr => h1 ⟨r, hr⟩)] at h ⊢
      cases ha : parseAssociation f ts with
      | none => simp [ha] at h
      | some x =>
        obtain ⟨a, r2⟩ := x
        obtain ⟨pre, hp, hd⟩ := parseAssociation_sound f ts a r2 ha
        have hpre : 13 ≤ pre.length := by
          cases hd with
          | mk hl hr hm =>
            have e1 : ∀ {p m}, DMult p m → 1 ≤ p.length := by intro p m hm; cases hm <;> simp
            have := e1 hl; have := e1 hr
            simp only [List.length_cons, List.length_append]; omega
        have hlen : r2.length + 13 ≤ ts.length := by rw [hp]; simp; omega
        simp only [ha, Option.bind_some, parseAssociation_mono_partial f ts (a, r2) (by omega) ha] at h ⊢
        exact ih _ _ (by omega) h

theorem parseDecl_mono_partial (f : Nat) (ts : List Tok) (r : Decl × List Tok) (hf : 3 * ts.length + 5 ≤ f)
    (h : parseDecl f ts = some r) : parseDecl (f+1) ts = some r := by
  unfold parseDecl at h ⊢
  split at h
  · exact h
  · exact h
  · rename_i n r0
    simp only [List.length_cons] at hf
    simp only at h ⊢
    rw [parseMetas_stable f [] r0 (by omega)]
    have hl := (parseMetas_cut f [] r0).length_le
    split at h
    · rename_i r2 hr1
      rw [hr1] at hl; simp only [List.length_cons] at hl
      cases hp : parseAssets f n [] r2 with
      | none => simp [hp] at h
      | some x =>
        rw [parseAssets_mono_partial f n [] r2 x (by omega) hp]
        rw [hp] at h; exact h
    · exact absurd h (by simp)
  · rename_i r0
    simp only [List.length_cons] at hf
    cases hp : parseAssociationsBody f [] r0 with
    | none => simp [hp] at h
    | some x =>
      rw [parseAssociationsBody_mono_partial f [] r0 x (by omega) hp]
      rw [hp] at h; exact h
  · exact absurd h (by simp)

theorem parseDecls_mono_partial (f : Nat) (acc : List Decl) (ts : List Tok) (ds : List Decl)
    (hf : 3 * ts.length + 6 ≤ f) (h : parseDecls f acc ts = some ds) : parseDecls (f+1) acc ts = some ds := by
  induction f generalizing acc ts with
  | zero => omega
  | succ f ih =>
    cases ts with
    | nil => rw [parseDecls_nil] at h ⊢; exact h
    | cons t r =>
      cases hs : startsDecl t with
      | false => rw [parseDecls_stop _ _ _ _ hs] at h ⊢; exact h
      | true =>
        rw [parseDecls_cons _ _ _ _ hs] at h ⊢
        cases hd : parseDecl f (t :: r) with
        | none => simp [hd] at h
        | some x =>
          simp only [hd, Option.bind_some, parseDecl_mono_partial f _ x (by omega) hd] at h ⊢
          have hlt := (parseDecl_cut f _ x.1 x.2 hd).length_lt
          exact ih _ _ (by omega) h


end MalVerif.Mal
