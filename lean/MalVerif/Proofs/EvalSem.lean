import MalVerif.Spec.Den
import Batteries.Data.List.Perm
/-!
# Helper lemmas for C01: the evaluator computes the set semantics
-/
namespace MalVerif

/-! ### neighbours -/

theorem mem_neighbours (m : Inst) (x : Int) (f : String) (y : Int) :
    y ∈ m.neighbours x f ↔ Linked m x f y := by
  unfold Inst.neighbours Linked
  simp only [List.mem_flatMap, List.mem_append]
  constructor
  · rintro ⟨l, hl, h⟩
    refine ⟨l, hl, ?_⟩
    rcases h with h | h
    · left
      split at h
      · rename_i hc
        simp only [Bool.and_eq_true, List.contains_iff_mem, decide_eq_true_eq] at hc
        exact ⟨hc.1, hc.2, h⟩
      · cases h
    · right
      split at h
      · rename_i hc
        simp only [Bool.and_eq_true, List.contains_iff_mem, decide_eq_true_eq] at hc
        exact ⟨hc.1, hc.2, h⟩
      · cases h
  · rintro ⟨l, hl, h⟩
    refine ⟨l, hl, ?_⟩
    rcases h with ⟨h1, h2, h3⟩ | ⟨h1, h2, h3⟩
    · left
      have : (l.left.contains x && decide (l.rf = f)) = true := by
        simp only [Bool.and_eq_true, List.contains_iff_mem, decide_eq_true_eq]; exact ⟨h1, h2⟩
      rw [if_pos this]; exact h3
    · right
      have : (l.right.contains x && decide (l.lf = f)) = true := by
        simp only [Bool.and_eq_true, List.contains_iff_mem, decide_eq_true_eq]; exact ⟨h1, h2⟩
      rw [if_pos this]; exact h3

/-! ### `addNew` -/

theorem addNew_spec (acc new cs : List Int) (hn : acc.Nodup) :
    let r := addNew acc new cs
    r.1.Nodup ∧ (∃ ext, r.1 = acc ++ ext ∧ r.2 = new ++ ext ∧ (∀ a ∈ ext, a ∈ cs ∧ a ∉ acc)) ∧
    (∀ a ∈ cs, a ∈ r.1) := by
  induction cs generalizing acc new with
  | nil => simp [addNew]; exact hn
  | cons c cs ih =>
    simp only [addNew]
    by_cases hc : acc.contains c = true
    · simp only [hc, if_true]
      obtain ⟨h1, ⟨ext, e1, e2, e3⟩, h4⟩ := ih acc new hn
      refine ⟨h1, ⟨ext, e1, e2, fun a ha => ⟨List.mem_cons_of_mem _ (e3 a ha).1, (e3 a ha).2⟩⟩, ?_⟩
      intro a ha
      rcases List.mem_cons.1 ha with h | h
      · subst h; rw [e1]; exact List.mem_append_left _ (by simpa using hc)
      · exact h4 a h
    · have hcf : acc.contains c = false := by simpa using hc
      simp only [hcf, Bool.false_eq_true, if_false]
      have hc' : c ∉ acc := by simpa using hc
      have hn' : (acc ++ [c]).Nodup := by
        rw [List.nodup_append]; refine ⟨hn, by simp, ?_⟩
        intro a ha b hb; simp at hb; subst hb; intro h; subst h; exact hc' ha
      obtain ⟨h1, ⟨ext, e1, e2, e3⟩, h4⟩ := ih (acc ++ [c]) (new ++ [c]) hn'
      refine ⟨h1, ⟨c :: ext, by simp [e1], by simp [e2], ?_⟩, ?_⟩
      · intro a ha
        rcases List.mem_cons.1 ha with h | h
        · subst h; exact ⟨by simp, hc'⟩
        · have := e3 a h
          exact ⟨List.mem_cons_of_mem _ this.1, fun hh => this.2 (List.mem_append_left _ hh)⟩
      · intro a ha
        rcases List.mem_cons.1 ha with h | h
        · subst h; rw [e1]; simp
        · exact h4 a h

theorem mem_addNew_fst (acc cs : List Int) (y : Int) :
    y ∈ (addNew acc [] cs).1 ↔ y ∈ acc ∨ y ∈ cs := by
  suffices h : ∀ new, y ∈ (addNew acc new cs).1 ↔ y ∈ acc ∨ y ∈ cs from h []
  induction cs generalizing acc with
  | nil => intro new; simp [addNew]
  | cons c cs ih =>
    intro new
    simp only [addNew]
    split
    · rename_i hc
      have : c ∈ acc := by simpa using hc
      rw [ih]; simp only [List.mem_cons]
      constructor
      · rintro (h | h); exact Or.inl h; exact Or.inr (Or.inr h)
      · rintro (h | h | h); exact Or.inl h; exact Or.inl (h ▸ this); exact Or.inr h
    · rw [ih]; simp only [List.mem_append, List.mem_cons, List.not_mem_nil, or_false]
      constructor
      · rintro ((h | h) | h); exact Or.inl h; exact Or.inr (Or.inl h); exact Or.inr (Or.inr h)
      · rintro (h | h | h); exact Or.inl (Or.inl h); exact Or.inl (Or.inr h); exact Or.inr h

/-! ### the frontier loop -/

theorem TC.cons {α} {R : α → α → Prop} {x z y : α} (h1 : R x z) (h2 : TC R z y) : TC R x y := by
  induction h2 with
  | one h => exact TC.snoc (TC.one h1) h
  | snoc _ h ih => exact TC.snoc ih h

def Reach (R : Int → Int → Prop) (xs : List Int) (y : Int) : Prop := ∃ x ∈ xs, TC R x y

/-- invariant of the loop (partial correctness part) -/
structure CInv (R : Int → Int → Prop) (xs frontier acc : List Int) : Prop where
  sound : ∀ a ∈ acc, Reach R xs a
  front : ∀ z ∈ frontier, z ∈ xs ∨ Reach R xs z
  compl : ∀ y, Reach R xs y → y ∈ acc ∨ ∃ z ∈ frontier, TC R z y
  closed : ∀ a ∈ acc, a ∉ frontier → ∀ b, R a b → b ∈ acc

/-- one round of the loop preserves the invariant -/
theorem CInv.step {R : Int → Int → Prop} {xs frontier acc nxt : List Int}
    (hI : CInv R xs frontier acc) (hnd : acc.Nodup)
    (hf : ∀ y, y ∈ nxt ↔ ∃ z ∈ frontier, R z y) :
    CInv R xs (addNew acc [] nxt).2 (addNew acc [] nxt).1 := by
  obtain ⟨_, ⟨ext, e1, e2, e3⟩, hall⟩ := addNew_spec acc [] nxt hnd
  simp only [List.nil_append] at e2
  have hstep : ∀ z ∈ frontier, ∀ b, R z b → b ∈ (addNew acc [] nxt).1 :=
    fun z hz b hb => hall b ((hf _).2 ⟨z, hz, hb⟩)
  have hclosed' : ∀ a ∈ acc, ∀ b, R a b → b ∈ (addNew acc [] nxt).1 := by
    intro a ha b hb
    by_cases hfa : a ∈ frontier
    · exact hstep a hfa b hb
    · rw [e1]; exact List.mem_append_left _ (hI.closed a ha hfa b hb)
  have hsound_ext : ∀ a ∈ ext, Reach R xs a := by
    intro a ha
    obtain ⟨z, hz, hzr⟩ := (hf _).1 (e3 a ha).1
    rcases hI.front z hz with h | ⟨x, hx, hxz⟩
    · exact ⟨z, h, TC.one hzr⟩
    · exact ⟨x, hx, TC.snoc hxz hzr⟩
  refine ⟨?_, ?_, ?_, ?_⟩
  · intro a ha; rw [e1] at ha
    rcases List.mem_append.1 ha with h | h
    · exact hI.sound a h
    · exact hsound_ext a h
  · intro z hz; rw [e2] at hz; exact Or.inr (hsound_ext z hz)
  · intro y hy
    have key : ∀ a b, TC R a b → (a ∈ frontier ∨ a ∈ acc) →
        b ∈ (addNew acc [] nxt).1 ∨ ∃ z' ∈ (addNew acc [] nxt).2, TC R z' b := by
      intro a b hab
      induction hab with
      | one h =>
        intro ha; left
        rcases ha with ha | ha; exact hstep _ ha _ h; exact hclosed' _ ha _ h
      | snoc _ h ih2 =>
        intro ha
        rcases ih2 ha with hu' | ⟨z', hz', hz'u⟩
        · rw [e1] at hu'
          rcases List.mem_append.1 hu' with h0 | h0
          · exact Or.inl (hclosed' _ h0 _ h)
          · exact Or.inr ⟨_, by rw [e2]; exact h0, TC.one h⟩
        · exact Or.inr ⟨z', hz', TC.snoc hz'u h⟩
    rcases hI.compl y hy with h | ⟨z, hz, hzy⟩
    · left; rw [e1]; exact List.mem_append_left _ h
    · exact key z y hzy (Or.inl hz)
  · intro a ha hna b hb
    rw [e1] at ha
    rcases List.mem_append.1 ha with h | h
    · exact hclosed' a h b hb
    · exact absurd (by rw [e2]; exact h) hna

/-- partial correctness: whenever the loop returns a list, it is the set of
assets reachable from the sources in one or more steps -/
theorem closure_sound (R : Int → Int → Prop) (g : List Int → ER (List Int))
    (hg : ∀ zs ws, g zs = .ok ws → ∀ y, y ∈ ws ↔ ∃ z ∈ zs, R z y) (xs : List Int) :
    ∀ fuel frontier acc res, CInv R xs frontier acc → acc.Nodup →
      closure g fuel frontier acc = .ok res → ∀ y, y ∈ res ↔ Reach R xs y := by
  intro fuel
  induction fuel with
  | zero => intro frontier acc res _ _ h; simp [closure] at h
  | succ fuel ih =>
    intro frontier acc res hI hnd h
    rw [closure] at h
    split at h
    · rename_i hemp
      have hfe : frontier = [] := by simpa using hemp
      cases h
      intro y
      constructor
      · exact hI.sound y
      · intro hy
        rcases hI.compl y hy with h | ⟨z, hz, _⟩
        · exact h
        · rw [hfe] at hz; cases hz
    · cases hgf : g frontier with
      | error e => rw [hgf] at h; cases h
      | ok nxt =>
        rw [hgf] at h
        simp only at h
        exact ih _ _ res (hI.step hnd (hg _ _ hgf)) (addNew_spec acc [] nxt hnd).1 h

theorem CInv.init (R : Int → Int → Prop) (xs : List Int) : CInv R xs xs [] :=
  ⟨by simp, fun _ hz => Or.inl hz, fun _ hy => Or.inr hy, by simp⟩

/-- termination: with `univ.length + 2` rounds available the loop never runs
out of fuel; an error can only come from `g` (applied to a list inside the universe) -/
theorem closure_error (g : List Int → ER (List Int)) (univ : List Int) (Pf : List Int → Prop)
    (hP : ∀ zs, (∀ z ∈ zs, z ∈ univ) → Pf zs)
    (hu : ∀ zs ws, Pf zs → g zs = .ok ws → ∀ y ∈ ws, y ∈ univ) (err : EvalErr) :
    ∀ fuel frontier acc, acc.Nodup → (∀ a ∈ acc, a ∈ univ) → Pf frontier →
      ((frontier = [] ∧ 1 ≤ fuel) ∨ univ.length + 2 ≤ fuel + acc.length) →
      closure g fuel frontier acc = .error err → ∃ zs, Pf zs ∧ g zs = .error err := by
  intro fuel
  induction fuel with
  | zero =>
    intro frontier acc hnd hsub _ hfuel _
    have := (List.subperm_of_subset hnd hsub).length_le
    omega
  | succ fuel ih =>
    intro frontier acc hnd hsub hfr hfuel h
    rw [closure] at h
    split at h
    · cases h
    · rename_i hemp
      have hfe : frontier ≠ [] := by simpa using hemp
      cases hgf : g frontier with
      | error e =>
        rw [hgf] at h
        simp only at h
        cases h
        exact ⟨frontier, hfr, hgf⟩
      | ok nxt =>
        rw [hgf] at h
        simp only at h
        obtain ⟨hnd', ⟨ext, e1, e2, e3⟩, _⟩ := addNew_spec acc [] nxt hnd
        simp only [List.nil_append] at e2
        have hext : ∀ a ∈ ext, a ∈ univ := fun a ha => hu _ _ hfr hgf a (e3 a ha).1
        have hsub' : ∀ a ∈ (addNew acc [] nxt).1, a ∈ univ := by
          intro a ha; rw [e1] at ha
          rcases List.mem_append.1 ha with h | h
          · exact hsub a h
          · exact hext a h
        refine ih _ _ hnd' hsub' (hP _ (by rw [e2]; exact hext)) ?_ h
        have hlen := (List.subperm_of_subset hnd hsub).length_le
        rcases hfuel with ⟨h0, _⟩ | hfuel
        · exact absurd h0 hfe
        · by_cases hx : ext = []
          · left; rw [e2]; exact ⟨hx, by omega⟩
          · right; rw [e1, List.length_append]
            have : 0 < ext.length := List.length_pos_iff.2 hx
            omega

/-- results of the loop stay inside the universe -/
theorem closure_sub (g : List Int → ER (List Int)) (univ : List Int)
    (hu : ∀ zs ws, (∀ z ∈ zs, z ∈ univ) → g zs = .ok ws → ∀ y ∈ ws, y ∈ univ) :
    ∀ fuel frontier acc res, acc.Nodup → (∀ a ∈ acc, a ∈ univ) → (∀ z ∈ frontier, z ∈ univ) →
      closure g fuel frontier acc = .ok res → ∀ y ∈ res, y ∈ univ := by
  intro fuel
  induction fuel with
  | zero => intro frontier acc res _ _ _ h; simp [closure] at h
  | succ fuel ih =>
    intro frontier acc res hnd hsub hfr h
    rw [closure] at h
    split at h
    · cases h; exact hsub
    · cases hgf : g frontier with
      | error e => rw [hgf] at h; cases h
      | ok nxt =>
        rw [hgf] at h
        simp only at h
        obtain ⟨hnd', ⟨ext, e1, e2, e3⟩, _⟩ := addNew_spec acc [] nxt hnd
        simp only [List.nil_append] at e2
        have hext : ∀ a ∈ ext, a ∈ univ := fun a ha => hu _ _ hfr hgf a (e3 a ha).1
        refine ih _ _ res hnd' ?_ (by rw [e2]; exact hext) h
        intro a ha; rw [e1] at ha
        rcases List.mem_append.1 ha with h | h
        · exact hsub a h
        · exact hext a h

/-! ### generalities on the semantics -/

theorem aset_ext {S T : ASet} (h : ∀ x, S x ↔ T x) : S = T := funext fun x => propext (h x)

theorem DenE_congr (L : Lang) (m : Inst) (self : Expr → ASet → ASet) (e : Expr) {S T : ASet}
    (h : ∀ x, S x ↔ T x) (y : Int) : DenE L m self e S y ↔ DenE L m self e T y := by
  rw [aset_ext h]

theorem iter_succ {α} (F : α → α) (n : Nat) (a : α) : iter F (n+1) a = F (iter F n a) := by
  induction n generalizing a with
  | zero => rfl
  | succ n ih => rw [iter, ih]; rfl

theorem iter_empty (F : ASet → ASet) (hF : ∀ S, (∀ x, ¬ S x) → ∀ y, ¬ F S y) :
    ∀ n S, (∀ x, ¬ S x) → ∀ y, ¬ iter F n S y := by
  intro n
  induction n with
  | zero => intro S hS y; exact hS y
  | succ n ih => intro S hS y; rw [iter]; exact ih _ (hF S hS) y

/-- nothing is reached from no source -/
theorem DenE_empty (L : Lang) (m : Inst) (self : Expr → ASet → ASet) (e : Expr) :
    ∀ S : ASet, (∀ x, ¬ S x) → ∀ y, ¬ DenE L m self e S y := by
  induction e with
  | step n => intro S hS y; simpa [DenE] using hS y
  | field f => intro S hS y; rintro ⟨x, hx, _⟩; exact hS x hx
  | var v => intro S hS y; rintro ⟨d, ⟨x, hx, _⟩, _⟩; exact hS x hx
  | collect l r ihl ihr => intro S hS y; rw [DenE]; exact ihr _ (ihl S hS) y
  | union l r ihl ihr => intro S hS y; rw [DenE]; rintro (h | h); exact ihl S hS y h; exact ihr S hS y h
  | inter l r ihl _ => intro S hS y; rw [DenE]; rintro ⟨h, _⟩; exact ihl S hS y h
  | diff l r ihl _ => intro S hS y; rw [DenE]; rintro ⟨h, _⟩; exact ihl S hS y h
  | sub t e ih => intro S hS y; rw [DenE]; rintro ⟨h, _⟩; exact ih S hS y h
  | trans e ih => intro S hS y; rw [DenE]; rintro ⟨n, h⟩; exact iter_empty _ ih (n+1) S hS y h

/-- for a pointwise transformer, iterating one or more times is the
transitive closure of its singleton relation -/
theorem iter_TC (F : ASet → ASet) (hF : Pointwise F) (S : ASet) (y : Int) :
    (∃ n, iter F (n+1) S y) ↔ ∃ x, S x ∧ TC (fun a b => F (· = a) b) x y := by
  constructor
  · rintro ⟨n, h⟩
    induction n generalizing S with
    | zero =>
      obtain ⟨x, hx, hxy⟩ := (hF S y).1 h
      exact ⟨x, hx, TC.one hxy⟩
    | succ n ih =>
      rw [iter] at h
      obtain ⟨z, hz, hzy⟩ := ih (F S) h
      obtain ⟨x, hx, hxz⟩ := (hF S z).1 hz
      exact ⟨x, hx, TC.cons hxz hzy⟩
  · rintro ⟨x, hx, h⟩
    induction h with
    | one h => exact ⟨0, (hF S _).2 ⟨x, hx, h⟩⟩
    | snoc _ h ih =>
      obtain ⟨n, hn⟩ := ih
      exact ⟨n+1, by rw [iter_succ]; exact (hF _ _).2 ⟨_, hn, h⟩⟩

/-! ### `Except` plumbing -/

theorem bind_ok_iff {α β} (x : ER α) (f : α → ER β) (b : β) :
    (x >>= f) = .ok b ↔ ∃ a, x = .ok a ∧ f a = .ok b := by
  cases x with
  | error e => simp [bind, Except.bind]
  | ok a => simp [bind, Except.bind]

theorem bind_error_iff {α β} (x : ER α) (f : α → ER β) (err : EvalErr) :
    (x >>= f) = .error err ↔ x = .error err ∨ ∃ a, x = .ok a ∧ f a = .error err := by
  cases x with
  | error e => simp [bind, Except.bind]
  | ok a => simp [bind, Except.bind]

theorem map_ok_iff {α β} (x : ER α) (f : α → β) (b : β) :
    x.map f = .ok b ↔ ∃ a, x = .ok a ∧ f a = b := by
  cases x with
  | error e => simp [Except.map]
  | ok a => simp [Except.map]

theorem map_error_iff {α β} (x : ER α) (f : α → β) (err : EvalErr) :
    x.map f = .error err ↔ x = .error err := by
  cases x with
  | error e => simp [Except.map]
  | ok a => simp [Except.map]

/-- evaluating the same computation once per element of `xs` -/
theorem mapM_const_ok {α β} (c : ER β) (xs : List α) (rs : List β)
    (h : xs.mapM (fun _ => c) = .ok rs) :
    (xs = [] ∧ rs = []) ∨ (xs ≠ [] ∧ ∃ r, c = .ok r ∧ ∀ q, q ∈ rs ↔ q = r) := by
  induction xs generalizing rs with
  | nil => left; simp only [List.mapM_nil] at h; cases h; exact ⟨rfl, rfl⟩
  | cons x xs ih =>
    right
    refine ⟨by simp, ?_⟩
    rw [List.mapM_cons] at h
    obtain ⟨r, hr, h⟩ := (bind_ok_iff _ _ _).1 h
    obtain ⟨rs', hrs', h⟩ := (bind_ok_iff _ _ _).1 h
    cases h
    refine ⟨r, hr, ?_⟩
    intro q
    rcases ih rs' hrs' with ⟨_, e⟩ | ⟨_, r', hr', hq⟩
    · simp [e]
    · rw [hr] at hr'; cases hr'
      simp only [List.mem_cons, hq, or_self]

theorem mapM_const_error {α β} (c : ER β) (xs : List α) (err : EvalErr)
    (h : xs.mapM (fun _ => c) = .error err) : c = .error err := by
  induction xs with
  | nil => simp only [List.mapM_nil] at h; cases h
  | cons x xs ih =>
    rw [List.mapM_cons] at h
    rcases (bind_error_iff _ _ _).1 h with h | ⟨r, _, h⟩
    · exact h
    · rcases (bind_error_iff _ _ _).1 h with h | ⟨rs, _, h⟩
      · exact ih h
      · cases h

/-! ### the evaluator computes the semantics -/

/-- one layer: if `self` computes `selfD` (on the definitions that are `selfOK`), then `evalE` computes `DenE` -/
theorem evalE_mem (L : Lang) (m : Inst) (self : Expr → List Int → ER (List Int × Option String))
    (selfD : Expr → ASet → ASet) (selfOK : Expr → Prop)
    (hself : ∀ d, selfOK d → ∀ xs r, self d xs = .ok r → ∀ y, y ∈ r.1 ↔ selfD d (· ∈ xs) y) :
    ∀ e, TransOKE L m selfD selfOK e → ∀ xs r, evalE L m self e xs = .ok r →
      ∀ y, y ∈ r.1 ↔ DenE L m selfD e (· ∈ xs) y := by
  intro e
  induction e with
  | step n =>
    intro _ xs r h y
    simp only [evalE] at h; cases h
    simp only [DenE]
  | field f =>
    intro _ xs r h y
    simp only [evalE] at h; cases h
    simp only [DenE, List.mem_flatMap, mem_neighbours]
  | var v =>
    intro hok xs r h y
    simp only [TransOKE] at hok
    cases xs with
    | nil =>
      simp only [evalE] at h; cases h
      simp only [DenE, List.not_mem_nil, false_and, exists_false]
    | cons x rest =>
      simp only [evalE] at h
      split at h
      · cases h
      · rename_i d hd
        split at h
        · rename_i hall
          have hall' : ∀ z ∈ x :: rest, (m.typeOf z).bind (fun t => L.lookupVar t v) = some d := by
            intro z hz
            rcases List.mem_cons.1 hz with e | hz
            · rw [e]; exact hd
            · simpa using (List.all_eq_true.1 hall) z hz
          rw [hself d (hok x d hd) _ _ h y]
          simp only [DenE]
          constructor
          · intro hy
            refine ⟨d, ⟨x, List.mem_cons_self, hd⟩, ?_⟩
            have : (fun z => z ∈ x :: rest ∧ (m.typeOf z).bind (fun t => L.lookupVar t v) = some d)
                = (· ∈ x :: rest) := aset_ext fun z => ⟨fun h => h.1, fun h => ⟨h, hall' z h⟩⟩
            rw [this]; exact hy
          · rintro ⟨d', ⟨x', hx', hd'⟩, hy⟩
            have e : d' = d := by have := hall' x' hx'; rw [hd'] at this; cases this; rfl
            subst e
            have : (fun z => z ∈ x :: rest ∧ (m.typeOf z).bind (fun t => L.lookupVar t v) = some d')
                = (· ∈ x :: rest) := aset_ext fun z => ⟨fun h => h.1, fun h => ⟨h, hall' z h⟩⟩
            rw [this] at hy; exact hy
        · cases h
  | collect l r' ihl ihr =>
    intro hok xs r h y
    simp only [TransOKE] at hok
    simp only [evalE] at h
    obtain ⟨a, ha, h⟩ := (bind_ok_iff _ _ _).1 h
    rw [ihr hok.2 _ _ h y]
    simp only [DenE]
    exact DenE_congr L m selfD r' (fun x => ihl hok.1 _ _ ha x) y
  | union l r' ihl ihr =>
    intro hok xs r h y
    simp only [TransOKE] at hok
    simp only [evalE] at h
    obtain ⟨a, ha, h⟩ := (bind_ok_iff _ _ _).1 h
    obtain ⟨b, hb, h⟩ := (bind_ok_iff _ _ _).1 h
    cases h
    simp only [DenE, mem_addNew_fst, ihl hok.1 _ _ ha, ihr hok.2 _ _ hb]
  | inter l r' ihl ihr =>
    intro hok xs r h y
    simp only [TransOKE] at hok
    simp only [evalE] at h
    obtain ⟨a, ha, h⟩ := (bind_ok_iff _ _ _).1 h
    obtain ⟨b, hb, h⟩ := (bind_ok_iff _ _ _).1 h
    cases h
    simp only [DenE, List.mem_filter, List.contains_iff_mem, ihl hok.1 _ _ ha, ihr hok.2 _ _ hb]
    exact And.comm
  | diff l r' ihl ihr =>
    intro hok xs r h y
    simp only [TransOKE] at hok
    simp only [evalE] at h
    obtain ⟨a, ha, h⟩ := (bind_ok_iff _ _ _).1 h
    obtain ⟨b, hb, h⟩ := (bind_ok_iff _ _ _).1 h
    cases h
    simp only [DenE, List.mem_filter, Bool.not_eq_true', ihl hok.1 _ _ ha]
    rw [← ihr hok.2 _ _ hb y]
    simp
  | sub t e ih =>
    intro hok xs r h y
    simp only [TransOKE] at hok
    simp only [evalE] at h
    obtain ⟨rs, hrs, h⟩ := (bind_ok_iff _ _ _).1 h
    split at h
    · cases h
      simp only [DenE, List.mem_filter, List.mem_flatMap]
      have hty : ∀ P Q : Prop, (P ↔ Q) → ((P ∧ (match m.typeOf y with | some ty => L.isSub ty t | none => false) = true) ↔
          (Q ∧ ∃ ty, m.typeOf y = some ty ∧ L.isSub ty t = true)) := by
        intro P Q hPQ
        cases m.typeOf y <;> simp [hPQ]
      apply hty
      rcases mapM_const_ok _ _ _ hrs with ⟨e1, e2⟩ | ⟨_, r0, hr0, hq⟩
      · subst e1 e2
        have := DenE_empty L m selfD e (· ∈ ([] : List Int)) (by simp) y
        constructor
        · rintro ⟨q, hq, _⟩; cases hq
        · intro h; exact absurd h this
      · rw [← ih hok _ _ hr0 y]
        constructor
        · rintro ⟨q, hq', hy⟩; rw [(hq q).1 hq'] at hy; exact hy
        · rintro hy; exact ⟨r0, (hq r0).2 rfl, hy⟩
    · cases h
  | trans e ih =>
    intro hok xs r h y
    simp only [TransOKE] at hok
    simp only [evalE] at h
    obtain ⟨res, hres, h⟩ := (bind_ok_iff _ _ _).1 h
    cases h
    simp only [DenE]
    rw [iter_TC _ hok.2]
    have := closure_sound (fun a b => DenE L m selfD e (· = a) b) _ (by
      intro zs ws hg y
      obtain ⟨r', hr', e'⟩ := (map_ok_iff _ _ _).1 hg
      subst e'
      rw [ih hok.1 _ _ hr' y, hok.2 (· ∈ zs) y]) xs _ _ _ res (CInv.init _ xs) List.nodup_nil hres y
    rw [this]; rfl


theorem bind_some_typeOf {m : Inst} {L : Lang} {x : Int} {v : String} {d : Expr}
    (h : (m.typeOf x).bind (fun t => L.lookupVar t v) = some d) : ∃ t, L.lookupVar t v = some d := by
  cases ht : m.typeOf x with
  | none => rw [ht] at h; cases h
  | some t => rw [ht] at h; exact ⟨t, h⟩

theorem pointwiseE (L : Lang) (m : Inst) (selfD : Expr → ASet → ASet) (selfOK : Expr → Prop)
    (hself : ∀ d, selfOK d → Pointwise (selfD d)) :
    ∀ e, SyntacticE L selfOK e → Pointwise (DenE L m selfD e) := by
  intro e
  induction e with
  | step n =>
    intro _ S y
    simp only [DenE]
    exact ⟨fun h => ⟨y, h, rfl⟩, fun ⟨x, hx, e⟩ => e ▸ hx⟩
  | field f =>
    intro _ S y
    simp only [DenE]
    constructor
    · rintro ⟨x, hx, h⟩; exact ⟨x, hx, x, rfl, h⟩
    · rintro ⟨x, hx, x', e, h⟩; subst e; exact ⟨x', hx, h⟩
  | var v =>
    intro hs S y
    simp only [SyntacticE] at hs
    simp only [DenE]
    constructor
    · rintro ⟨d, ⟨x, hx, hd⟩, h⟩
      obtain ⟨t, ht⟩ := bind_some_typeOf hd
      obtain ⟨x', ⟨hx', hd'⟩, h'⟩ := (hself d (hs t d ht) _ y).1 h
      refine ⟨x', hx', d, ⟨x', rfl, hd'⟩, ?_⟩
      have : (fun z => z = x' ∧ (m.typeOf z).bind (fun t => L.lookupVar t v) = some d) = (· = x') :=
        aset_ext fun z => ⟨fun h => h.1, fun h => ⟨h, h ▸ hd'⟩⟩
      rw [this]; exact h'
    · rintro ⟨x, hx, d, ⟨x', e, hd⟩, h⟩
      subst e
      obtain ⟨t, ht⟩ := bind_some_typeOf hd
      refine ⟨d, ⟨x', hx, hd⟩, ?_⟩
      have : (fun z => z = x' ∧ (m.typeOf z).bind (fun t => L.lookupVar t v) = some d) = (· = x') :=
        aset_ext fun z => ⟨fun h => h.1, fun h => ⟨h, h ▸ hd⟩⟩
      rw [this] at h
      exact (hself d (hs t d ht) _ y).2 ⟨x', ⟨hx, hd⟩, h⟩
  | collect l r ihl ihr =>
    intro hs S y
    simp only [SyntacticE] at hs
    simp only [DenE]
    rw [ihr hs.2]
    constructor
    · rintro ⟨z, hz, hzy⟩
      obtain ⟨x, hx, hxz⟩ := (ihl hs.1 S z).1 hz
      exact ⟨x, hx, (ihr hs.2 _ y).2 ⟨z, hxz, hzy⟩⟩
    · rintro ⟨x, hx, h⟩
      obtain ⟨z, hxz, hzy⟩ := (ihr hs.2 _ y).1 h
      exact ⟨z, (ihl hs.1 S z).2 ⟨x, hx, hxz⟩, hzy⟩
  | union l r ihl ihr =>
    intro hs S y
    simp only [SyntacticE] at hs
    simp only [DenE]
    rw [ihl hs.1 S y, ihr hs.2 S y]
    constructor
    · rintro (⟨x, hx, h⟩ | ⟨x, hx, h⟩)
      · exact ⟨x, hx, Or.inl h⟩
      · exact ⟨x, hx, Or.inr h⟩
    · rintro ⟨x, hx, h | h⟩
      · exact Or.inl ⟨x, hx, h⟩
      · exact Or.inr ⟨x, hx, h⟩
  | inter l r _ _ => intro hs; simp only [SyntacticE] at hs
  | diff l r _ _ => intro hs; simp only [SyntacticE] at hs
  | sub t e ih =>
    intro hs S y
    simp only [SyntacticE] at hs
    simp only [DenE]
    rw [ih hs S y]
    constructor
    · rintro ⟨⟨x, hx, h⟩, h2⟩; exact ⟨x, hx, h, h2⟩
    · rintro ⟨x, hx, h, h2⟩; exact ⟨⟨x, hx, h⟩, h2⟩
  | trans e ih =>
    intro hs S y
    simp only [SyntacticE] at hs
    simp only [DenE]
    rw [iter_TC _ (ih hs)]
    constructor
    · rintro ⟨x, hx, h⟩
      exact ⟨x, hx, (iter_TC _ (ih hs) _ y).2 ⟨x, rfl, h⟩⟩
    · rintro ⟨x, hx, h⟩
      obtain ⟨x', e, h'⟩ := (iter_TC _ (ih hs) _ y).1 h
      subst e
      exact ⟨x', hx, h'⟩

theorem pointwise_DenF (L : Lang) (m : Inst) : ∀ f e, Syntactic L f e → Pointwise (DenF L m f e) := by
  intro f
  induction f with
  | zero => intro e _ S y; simp [DenF]
  | succ f ih => intro e hs; exact pointwiseE L m (DenF L m f) (Syntactic L f) (ih) e hs

theorem transOKE_of_starOKE (L : Lang) (m : Inst) (selfD : Expr → ASet → ASet)
    (selfSyn selfStar selfOK : Expr → Prop)
    (hsyn : ∀ d, selfSyn d → Pointwise (selfD d)) (hstar : ∀ d, selfStar d → selfOK d) :
    ∀ e, StarOKE L selfSyn selfStar e → TransOKE L m selfD selfOK e := by
  intro e
  induction e with
  | step n => intro _; trivial
  | field f => intro _; trivial
  | var v =>
    intro h x d hd
    obtain ⟨t, ht⟩ := bind_some_typeOf hd
    exact hstar d (h t d ht)
  | collect l r ihl ihr => intro h; exact ⟨ihl h.1, ihr h.2⟩
  | union l r ihl ihr => intro h; exact ⟨ihl h.1, ihr h.2⟩
  | inter l r ihl ihr => intro h; exact ⟨ihl h.1, ihr h.2⟩
  | diff l r ihl ihr => intro h; exact ⟨ihl h.1, ihr h.2⟩
  | sub t e ih => intro h; exact ih h
  | trans e ih => intro h; exact ⟨ih h.1, pointwiseE L m selfD selfSyn hsyn e h.2⟩

theorem transOK_of_starOK_aux (L : Lang) (m : Inst) : ∀ f e, StarOK L f e → TransOK L m f e := by
  intro f
  induction f with
  | zero => intro e _; trivial
  | succ f ih =>
    intro e h
    exact transOKE_of_starOKE L m (DenF L m f) (Syntactic L f) (StarOK L f) (TransOK L m f)
      (pointwise_DenF L m f) ih e h

theorem evalF_mem (L : Lang) (m : Inst) : ∀ f e, TransOK L m f e → ∀ xs r, evalF L m f e xs = .ok r →
    ∀ y, y ∈ r.1 ↔ DenF L m f e (· ∈ xs) y := by
  intro f
  induction f with
  | zero => intro e _ xs r h; simp [evalF] at h
  | succ f ih =>
    intro e hok xs r h
    exact evalE_mem L m (evalF L m f) (DenF L m f) (TransOK L m f) ih e hok xs r h

/-! ### results stay inside the model; termination -/

theorem linked_in_ids {m : Inst} (hm : LinksClosed m) {x : Int} {f : String} {y : Int}
    (h : Linked m x f y) : y ∈ m.ids := by
  obtain ⟨l, hl, h | h⟩ := h
  · exact hm l hl y (List.mem_append_right _ h.2.2)
  · exact hm l hl y (List.mem_append_left _ h.2.2)

theorem evalE_sub (L : Lang) (m : Inst) (hm : LinksClosed m)
    (self : Expr → List Int → ER (List Int × Option String))
    (hself : ∀ d xs r, (∀ x ∈ xs, x ∈ m.ids) → self d xs = .ok r → ∀ y ∈ r.1, y ∈ m.ids) :
    ∀ e xs r, (∀ x ∈ xs, x ∈ m.ids) → evalE L m self e xs = .ok r → ∀ y ∈ r.1, y ∈ m.ids := by
  intro e
  induction e with
  | step n => intro xs r hxs h; simp only [evalE] at h; cases h; exact hxs
  | field f =>
    intro xs r hxs h y hy
    simp only [evalE] at h; cases h
    obtain ⟨x, _, hy⟩ := List.mem_flatMap.1 hy
    exact linked_in_ids hm ((mem_neighbours m x f y).1 hy)
  | var v =>
    intro xs r hxs h
    cases xs with
    | nil => simp only [evalE] at h; cases h; simp
    | cons x rest =>
      simp only [evalE] at h
      split at h
      · cases h
      · split at h
        · exact hself _ _ _ hxs h
        · cases h
  | collect l r' ihl ihr =>
    intro xs r hxs h
    simp only [evalE] at h
    obtain ⟨a, ha, h⟩ := (bind_ok_iff _ _ _).1 h
    exact ihr _ _ (ihl _ _ hxs ha) h
  | union l r' ihl ihr =>
    intro xs r hxs h y hy
    simp only [evalE] at h
    obtain ⟨a, ha, h⟩ := (bind_ok_iff _ _ _).1 h
    obtain ⟨b, hb, h⟩ := (bind_ok_iff _ _ _).1 h
    cases h
    rcases (mem_addNew_fst _ _ _).1 hy with hy | hy
    · exact ihl _ _ hxs ha y hy
    · exact ihr _ _ hxs hb y hy
  | inter l r' ihl ihr =>
    intro xs r hxs h y hy
    simp only [evalE] at h
    obtain ⟨a, ha, h⟩ := (bind_ok_iff _ _ _).1 h
    obtain ⟨b, hb, h⟩ := (bind_ok_iff _ _ _).1 h
    cases h
    exact ihr _ _ hxs hb y (List.mem_filter.1 hy).1
  | diff l r' ihl ihr =>
    intro xs r hxs h y hy
    simp only [evalE] at h
    obtain ⟨a, ha, h⟩ := (bind_ok_iff _ _ _).1 h
    obtain ⟨b, hb, h⟩ := (bind_ok_iff _ _ _).1 h
    cases h
    exact ihl _ _ hxs ha y (List.mem_filter.1 hy).1
  | sub t e ih =>
    intro xs r hxs h y hy
    simp only [evalE] at h
    obtain ⟨rs, hrs, h⟩ := (bind_ok_iff _ _ _).1 h
    split at h
    · cases h
      obtain ⟨q, hq, hy⟩ := List.mem_flatMap.1 (List.mem_filter.1 hy).1
      rcases mapM_const_ok _ _ _ hrs with ⟨_, e2⟩ | ⟨_, r0, hr0, hq'⟩
      · subst e2; cases hq
      · rw [(hq' q).1 hq] at hy
        exact ih _ _ hxs hr0 y hy
    · cases h
  | trans e ih =>
    intro xs r hxs h
    simp only [evalE] at h
    obtain ⟨res, hres, h⟩ := (bind_ok_iff _ _ _).1 h
    cases h
    refine closure_sub _ m.ids ?_ _ _ _ res List.nodup_nil (by simp) hxs hres
    intro zs ws hzs hg
    obtain ⟨r', hr', e'⟩ := (map_ok_iff _ _ _).1 hg
    subst e'
    exact ih _ _ hzs hr'

theorem evalF_sub (L : Lang) (m : Inst) (hm : LinksClosed m) :
    ∀ f e xs r, (∀ x ∈ xs, x ∈ m.ids) → evalF L m f e xs = .ok r → ∀ y ∈ r.1, y ∈ m.ids := by
  intro f
  induction f with
  | zero => intro e xs r _ h; simp [evalF] at h
  | succ f ih => intro e; exact evalE_sub L m hm (evalF L m f) (fun d => ih d) e

theorem evalE_norec (L : Lang) (m : Inst) (hm : LinksClosed m)
    (self : Expr → List Int → ER (List Int × Option String)) (selfOK : Expr → Prop)
    (hself : ∀ d xs r, (∀ x ∈ xs, x ∈ m.ids) → self d xs = .ok r → ∀ y ∈ r.1, y ∈ m.ids)
    (hrec : ∀ d, selfOK d → ∀ xs, (∀ x ∈ xs, x ∈ m.ids) → self d xs ≠ .error .recursion) :
    ∀ e, (∀ v ∈ e.vars, ∀ t d, L.lookupVar t v = some d → selfOK d) →
      ∀ xs, (∀ x ∈ xs, x ∈ m.ids) → evalE L m self e xs ≠ .error .recursion := by
  intro e
  induction e with
  | step n => intro _ xs _ h; simp only [evalE] at h; cases h
  | field f => intro _ xs _ h; simp only [evalE] at h; cases h
  | var v =>
    intro hv xs hxs h
    cases xs with
    | nil => simp only [evalE] at h; cases h
    | cons x rest =>
      simp only [evalE] at h
      split at h
      · cases h
      · rename_i d hd
        split at h
        · obtain ⟨t, ht⟩ := bind_some_typeOf hd
          exact hrec d (hv v (by simp [Expr.vars]) t d ht) _ hxs h
        · cases h
  | collect l r' ihl ihr =>
    intro hv xs hxs h
    simp only [Expr.vars, List.mem_append] at hv
    simp only [evalE] at h
    rcases (bind_error_iff _ _ _).1 h with h | ⟨a, ha, h⟩
    · exact ihl (fun v hv' => hv v (Or.inl hv')) xs hxs h
    · exact ihr (fun v hv' => hv v (Or.inr hv')) _ (evalE_sub L m hm self hself _ _ _ hxs ha) h
  | union l r' ihl ihr =>
    intro hv xs hxs h
    simp only [Expr.vars, List.mem_append] at hv
    simp only [evalE] at h
    rcases (bind_error_iff _ _ _).1 h with h | ⟨a, ha, h⟩
    · exact ihl (fun v hv' => hv v (Or.inl hv')) xs hxs h
    · rcases (bind_error_iff _ _ _).1 h with h | ⟨b, hb, h⟩
      · exact ihr (fun v hv' => hv v (Or.inr hv')) xs hxs h
      · cases h
  | inter l r' ihl ihr =>
    intro hv xs hxs h
    simp only [Expr.vars, List.mem_append] at hv
    simp only [evalE] at h
    rcases (bind_error_iff _ _ _).1 h with h | ⟨a, ha, h⟩
    · exact ihl (fun v hv' => hv v (Or.inl hv')) xs hxs h
    · rcases (bind_error_iff _ _ _).1 h with h | ⟨b, hb, h⟩
      · exact ihr (fun v hv' => hv v (Or.inr hv')) xs hxs h
      · cases h
  | diff l r' ihl ihr =>
    intro hv xs hxs h
    simp only [Expr.vars, List.mem_append] at hv
    simp only [evalE] at h
    rcases (bind_error_iff _ _ _).1 h with h | ⟨a, ha, h⟩
    · exact ihl (fun v hv' => hv v (Or.inl hv')) xs hxs h
    · rcases (bind_error_iff _ _ _).1 h with h | ⟨b, hb, h⟩
      · exact ihr (fun v hv' => hv v (Or.inr hv')) xs hxs h
      · cases h
  | sub t e ih =>
    intro hv xs hxs h
    simp only [Expr.vars] at hv
    simp only [evalE] at h
    rcases (bind_error_iff _ _ _).1 h with h | ⟨rs, _, h⟩
    · exact ih hv xs hxs (mapM_const_error _ _ _ h)
    · split at h <;> cases h
  | trans e ih =>
    intro hv xs hxs h
    simp only [Expr.vars] at hv
    simp only [evalE] at h
    rcases (bind_error_iff _ _ _).1 h with h | ⟨res, _, h⟩
    · obtain ⟨zs, hzs, hg⟩ := closure_error _ m.ids (fun zs => ∀ z ∈ zs, z ∈ m.ids) (fun _ h => h) (by
        intro zs ws hzs hg
        obtain ⟨r', hr', e'⟩ := (map_ok_iff _ _ _).1 hg
        subst e'
        exact evalE_sub L m hm self hself _ _ _ hzs hr') .recursion _ xs [] List.nodup_nil (by simp) hxs
        (Or.inr (by simp [Inst.ids])) h
      exact ih hv zs hzs ((map_error_iff _ _ _).1 hg)
    · cases h

theorem evalF_norec (L : Lang) (m : Inst) (hm : LinksClosed m) (rank : Expr → Nat)
    (hr : ∀ e, ∀ v ∈ e.vars, ∀ t d, L.lookupVar t v = some d → rank d < rank e) :
    ∀ f e, rank e < f → ∀ xs, (∀ x ∈ xs, x ∈ m.ids) → evalF L m f e xs ≠ .error .recursion := by
  intro f
  induction f with
  | zero => intro e h; omega
  | succ f ih =>
    intro e he
    refine evalE_norec L m hm (evalF L m f) (fun d => rank d < f) (fun d => evalF_sub L m hm f d)
      (fun d hd => ih d hd) e ?_
    intro v hv t d hd
    have := hr e v hv t d hd
    omega

/-! ### the step name -/

theorem evalE_snd (L : Lang) (m : Inst) (self : Expr → List Int → ER (List Int × Option String)) :
    ∀ e xs r, evalE L m self e xs = .ok r → tailVar e = false → r.2 = lastStep e := by
  intro e
  induction e with
  | step n => intro xs r h _; simp only [evalE] at h; cases h; rfl
  | field f => intro xs r h _; simp only [evalE] at h; cases h; rfl
  | var v => intro xs r _ ht; simp [tailVar] at ht
  | collect l r' _ ihr =>
    intro xs r h ht
    simp only [evalE] at h
    obtain ⟨a, _, h⟩ := (bind_ok_iff _ _ _).1 h
    exact ihr _ _ h ht
  | union l r' _ _ =>
    intro xs r h _
    simp only [evalE] at h
    obtain ⟨a, _, h⟩ := (bind_ok_iff _ _ _).1 h
    obtain ⟨b, _, h⟩ := (bind_ok_iff _ _ _).1 h
    cases h; rfl
  | inter l r' _ _ =>
    intro xs r h _
    simp only [evalE] at h
    obtain ⟨a, _, h⟩ := (bind_ok_iff _ _ _).1 h
    obtain ⟨b, _, h⟩ := (bind_ok_iff _ _ _).1 h
    cases h; rfl
  | diff l r' _ _ =>
    intro xs r h _
    simp only [evalE] at h
    obtain ⟨a, _, h⟩ := (bind_ok_iff _ _ _).1 h
    obtain ⟨b, _, h⟩ := (bind_ok_iff _ _ _).1 h
    cases h; rfl
  | sub t e _ =>
    intro xs r h _
    simp only [evalE] at h
    obtain ⟨rs, _, h⟩ := (bind_ok_iff _ _ _).1 h
    split at h
    · cases h; rfl
    · cases h
  | trans e _ =>
    intro xs r h _
    simp only [evalE] at h
    obtain ⟨res, _, h⟩ := (bind_ok_iff _ _ _).1 h
    cases h; rfl

theorem evalF_snd (L : Lang) (m : Inst) (f : Nat) (e : Expr) (xs : List Int) (r : List Int × Option String)
    (h : evalF L m f e xs = .ok r) (ht : tailVar e = false) : r.2 = lastStep e := by
  cases f with
  | zero => simp [evalF] at h
  | succ f => exact evalE_snd L m _ e xs r h ht

/-! ### monadic folds that only append -/

theorem foldlM_mem {α β} (step : List β → α → ER (List β)) (Q : α → β → Prop) :
    ∀ xs : List α, (∀ x ∈ xs, ∀ acc acc', step acc x = .ok acc' → ∀ b, b ∈ acc' ↔ b ∈ acc ∨ Q x b) →
    ∀ acc res, xs.foldlM step acc = .ok res → ∀ b, b ∈ res ↔ b ∈ acc ∨ ∃ x ∈ xs, Q x b := by
  intro xs
  induction xs with
  | nil => intro _ acc res h b; simp only [List.foldlM_nil] at h; cases h; simp
  | cons x xs ih =>
    intro hstep acc res h b
    rw [List.foldlM_cons] at h
    obtain ⟨acc1, h1, h⟩ := (bind_ok_iff _ _ _).1 h
    rw [ih (fun x' hx' => hstep x' (List.mem_cons_of_mem _ hx')) acc1 res h b,
      hstep x List.mem_cons_self acc acc1 h1 b]
    simp only [List.mem_cons, exists_eq_or_imp, or_assoc]

theorem foldlM_ok {α β} (step : List β → α → ER (List β)) :
    ∀ (xs : List α) acc res, xs.foldlM step acc = .ok res → ∀ x ∈ xs, ∃ a a', step a x = .ok a' := by
  intro xs
  induction xs with
  | nil => intro _ _ _ x hx; cases hx
  | cons x xs ih =>
    intro acc res h x' hx'
    rw [List.foldlM_cons] at h
    obtain ⟨acc1, h1, h⟩ := (bind_ok_iff _ _ _).1 h
    rcases List.mem_cons.1 hx' with e | hx'
    · subst e; exact ⟨acc, acc1, h1⟩
    · exact ih acc1 res h x' hx'

/-! ### the second loop of the generator -/

/-- the edge the innermost loop adds for the target asset `y` -/
def EdgeFor (m : Inst) (ns : List GNode) (n : GNode) (r : List Int × Option String) (y : Int)
    (b : Nat × Nat) : Prop :=
  ∃ ya, m.find y = some ya ∧ ∃ t, nameIndex ns (ya.name ++ ":" ++ r.2.getD "None") = some t ∧
    b = (n.id, t.id)

theorem genEdges_mem (L : Lang) (m : Inst) (ns : List GNode) (es : List (Nat × Nat))
    (h : genEdges L m ns = .ok es) (b : Nat × Nat) :
    b ∈ es ↔ ∃ n ∈ ns, ∃ e ∈ n.reaches, ∃ r, eval L m e [n.asset] = .ok r ∧ ∃ y ∈ r.1,
      EdgeFor m ns n r y b := by
  unfold genEdges at h
  have := foldlM_mem _ (fun n b => ∃ e ∈ n.reaches, ∃ r, eval L m e [n.asset] = .ok r ∧ ∃ y ∈ r.1,
      EdgeFor m ns n r y b) ns ?_ [] es h b
  · simpa using this
  intro n _ acc acc' hn b
  refine foldlM_mem _ (fun e b => ∃ r, eval L m e [n.asset] = .ok r ∧ ∃ y ∈ r.1, EdgeFor m ns n r y b)
    n.reaches ?_ acc acc' hn b
  intro e _ acc acc' he b
  obtain ⟨r, hr, he⟩ := (bind_ok_iff _ _ _).1 he
  have := foldlM_mem _ (fun y b => EdgeFor m ns n r y b) r.1 ?_ acc acc' he b
  · rw [this]
    constructor
    · rintro (h | h); exact Or.inl h; exact Or.inr ⟨r, hr, h⟩
    · rintro (h | ⟨r', hr', h⟩); exact Or.inl h
      rw [hr] at hr'; cases hr'; exact Or.inr h
  intro y _ acc acc' hy b
  unfold EdgeFor
  split at hy
  · cases hy
  · rename_i ya hya
    split at hy
    · cases hy
    · rename_i t ht
      cases hy
      simp only [List.mem_append, List.mem_singleton]
      constructor
      · rintro (h | h); exact Or.inl h; exact Or.inr ⟨ya, hya, t, ht, h⟩
      · rintro (h | ⟨ya', hya', t', ht', h⟩); exact Or.inl h
        rw [hya] at hya'; cases hya'; rw [ht] at ht'; cases ht'; exact Or.inr h

theorem genEdges_eval_ok (L : Lang) (m : Inst) (ns : List GNode) (es : List (Nat × Nat))
    (h : genEdges L m ns = .ok es) : ∀ n ∈ ns, ∀ e ∈ n.reaches, ∃ r, eval L m e [n.asset] = .ok r := by
  intro n hn e he
  unfold genEdges at h
  obtain ⟨a, a', h1⟩ := foldlM_ok _ ns [] es h n hn
  obtain ⟨a2, a2', h2⟩ := foldlM_ok _ n.reaches a a' h1 e he
  obtain ⟨r, hr, _⟩ := (bind_ok_iff _ _ _).1 h2
  exact ⟨r, hr⟩

/-! ### node ids are positions -/

theorem mkNode_id (L : Lang) (m : Inst) (i : Nat) (a : IAsset) (sn : String) (d : StepDecl) (n : GNode)
    (h : mkNode L m i a sn d = .ok n) : n.id = i := by
  unfold mkNode at h
  obtain ⟨ex, _, h⟩ := (bind_ok_iff _ _ _).1 h
  cases h; rfl

theorem genNodesFrom_ids (L : Lang) (m : Inst) :
    ∀ specs i ns, genNodesFrom L m i specs = .ok ns → ∀ k (hk : k < ns.length), ns[k].id = i + k := by
  intro specs
  induction specs with
  | nil => intro i ns h k hk; simp only [genNodesFrom] at h; cases h; cases hk
  | cons s specs ih =>
    intro i ns h k hk
    obtain ⟨a, sn, d⟩ := s
    simp only [genNodesFrom] at h
    obtain ⟨n, hn, h⟩ := (bind_ok_iff _ _ _).1 h
    obtain ⟨ns', hns', h⟩ := (bind_ok_iff _ _ _).1 h
    cases h
    cases k with
    | zero => simpa using mkNode_id L m i a sn d n hn
    | succ k =>
      have := ih (i+1) ns' hns' k (by simpa using hk)
      simp only [List.getElem_cons_succ]
      omega

theorem genNodes_id_inj (L : Lang) (m : Inst) (ns : List GNode) (h : genNodes L m = .ok ns)
    (n n' : GNode) (hn : n ∈ ns) (hn' : n' ∈ ns) (e : n.id = n'.id) : n = n' := by
  obtain ⟨k, hk, rfl⟩ := List.getElem_of_mem hn
  obtain ⟨k', hk', rfl⟩ := List.getElem_of_mem hn'
  have h1 := genNodesFrom_ids L m _ 0 ns h k hk
  have h2 := genNodesFrom_ids L m _ 0 ns h k' hk'
  have : k = k' := by omega
  subst this; rfl

theorem nameIndex_some (ns : List GNode) (k : String) (t : GNode) (h : nameIndex ns k = some t) :
    t ∈ ns ∧ t.fullName = k := by
  unfold nameIndex at h
  have h1 := List.mem_of_find?_eq_some h
  have h2 := List.find?_some h
  exact ⟨List.mem_reverse.1 h1, by simpa using h2⟩

/-! ### where variable definitions come from -/

theorem chain_mem (L : Lang) : ∀ f t a, a ∈ L.chain f t → a ∈ L.assets := by
  intro f
  induction f with
  | zero => intro t a h; simp [Lang.chain] at h
  | succ f ih =>
    intro t a h
    simp only [Lang.chain] at h
    split at h
    · cases h
    · rename_i a0 h0
      rcases List.mem_cons.1 h with e | h
      · subst e; exact List.mem_of_find?_eq_some h0
      · split at h
        · exact ih _ a h
        · cases h

theorem lookupVar_mem (L : Lang) (t v : String) (d : Expr) (h : L.lookupVar t v = some d) :
    ∃ a ∈ L.assets, (v, d) ∈ a.variables := by
  unfold Lang.lookupVar at h
  obtain ⟨a, ha, h⟩ := List.exists_of_findSome?_eq_some h
  refine ⟨a, chain_mem L _ _ a ha, ?_⟩
  cases hf : a.variables.find? (·.1 = v) with
  | none => rw [hf] at h; cases h
  | some p =>
    rw [hf] at h
    have h1 := List.mem_of_find?_eq_some hf
    have h2 := List.find?_some hf
    obtain ⟨p1, p2⟩ := p
    simp only [Option.map_some, Option.some.injEq] at h
    simp only [decide_eq_true_eq] at h2
    subst h h2; exact h1

/-! ### demo data for the non-vacuity examples of C01 -/

instance instDecEqER {α} [DecidableEq α] : DecidableEq (ER α) := fun a b =>
  match a, b with
  | .ok x, .ok y => if h : x = y then isTrue (by rw [h]) else isFalse (by intro e; cases e; exact h rfl)
  | .error x, .error y => if h : x = y then isTrue (by rw [h]) else isFalse (by intro e; cases e; exact h rfl)
  | .ok _, .error _ => isFalse (by intro e; cases e)
  | .error _, .ok _ => isFalse (by intro e; cases e)

instance (m : Inst) (x : Int) (f : String) (y : Int) : Decidable (Linked m x f y) := by
  unfold Linked; infer_instance

instance (m : Inst) : Decidable (LinksClosed m) := by
  unfold LinksClosed; infer_instance

namespace Demo

/-- `(((next)* \/ v()) - (next /\ prev))[A].compromise` — every operator once -/
def c01E : Expr :=
  .collect (.sub "A" (.diff (.union (.trans (.field "next")) (.var "v"))
      (.inter (.field "next") (.field "prev")))) (.step "compromise")

/-- `A` with a variable `v = next` and the steps `access -> c01E`, `compromise`; `B extends A` -/
def c01L : Lang :=
  { assets := [{ name := "A", variables := [("v", .field "next")],
                 steps := [{ name := "access", type := "or",
                             reaches := some { overrides := true, exprs := [c01E] } },
                           { name := "compromise", type := "and" }] },
               { name := "B", superAsset := some "A" }] }

/-- three assets on a cycle `1 → 2 → 3 → 1` (fields `next` / `prev`), asset 3 also linked to itself -/
def c01M : Inst :=
  { assets := [{ id := 1, name := "a1", type := "A" }, { id := 2, name := "a2", type := "A" },
               { id := 3, name := "b3", type := "B" }],
    links := [{ cls := "Seq", lf := "prev", rf := "next", left := [1], right := [2] },
              { cls := "Seq", lf := "prev", rf := "next", left := [2], right := [3] },
              { cls := "Seq", lf := "prev", rf := "next", left := [3], right := [1, 3] }] }

/-- `(next)*[B].compromise` -/
def c01E2 : Expr := .collect (.sub "B" (.trans (.field "next"))) (.step "compromise")

/-- number of variables: a rank for `c01L` -/
def c01Rank (e : Expr) : Nat := e.vars.length

/-- model for the counterexample: `next`: 1 → 1, 2; 2 → 3; 3 → 4.  `alt`: 1 → 1, 2, 4; 2 → 3 -/
def cexM : Inst :=
  { assets := [{ id := 1, name := "a1", type := "A" }, { id := 2, name := "a2", type := "A" },
               { id := 3, name := "a3", type := "A" }, { id := 4, name := "a4", type := "A" }],
    links := [{ cls := "N", lf := "prev", rf := "next", left := [1], right := [1, 2] },
              { cls := "N", lf := "prev", rf := "next", left := [2], right := [3] },
              { cls := "N", lf := "prev", rf := "next", left := [3], right := [4] },
              { cls := "M", lf := "tla", rf := "alt", left := [1], right := [1, 2, 4] },
              { cls := "M", lf := "tla", rf := "alt", left := [2], right := [3] }] }

/-- `(next /\ alt)*` -/
def cexE : Expr := .trans (.inter (.field "next") (.field "alt"))

/-- every definition of a variable in `c01L` is `next` -/
theorem c01L_defs (t v : String) (d : Expr) (h : c01L.lookupVar t v = some d) : d = .field "next" := by
  obtain ⟨a, ha, hv⟩ := lookupVar_mem c01L t v d h
  simp only [c01L, List.mem_cons, List.not_mem_nil, or_false] at ha
  rcases ha with rfl | rfl
  · simp at hv; exact hv.2
  · simp at hv


/-- the hypothesis of `eval_mem_iff` holds for the demo expression (fuel of `eval`: 2) -/
theorem c01E_transOK : TransOK c01L c01M c01L.varFuel c01E := by
  apply transOK_of_starOK_aux
  show StarOK c01L 2 c01E
  simp only [StarOK, StarOKE, SyntacticE, c01E, and_true, true_and]
  intro t d h
  rw [c01L_defs t "v" d h]
  trivial

/-- the hypotheses of `eval_terminates` are satisfiable: `c01Rank` is a rank for `c01L` -/
theorem c01Rank_ok : ∀ e, ∀ v ∈ e.vars, ∀ t d, c01L.lookupVar t v = some d → c01Rank d < c01Rank e := by
  intro e v hv t d h
  rw [c01L_defs t v d h]
  exact List.length_pos_of_mem hv

end Demo
end MalVerif
