import MalVerif.Proofs.AGSInv
import MalVerif.Model.AGSerial
/-!
# Helper lemmas for deep copies of an attack graph (C14)

* specification vocabulary: the observation `obsG` of a graph state (references replaced by ids), the
  footprints, `Op.local` / `opsLocal` (the handles an operation is called with are objects of the graph);
* `remap`: the renaming "i-th element of `l` ↦ `base + i`" used by `deepcopy`, injective on `l`;
* `deepcopy` characterised (`deepcopy_nobj_nmap`, `deepcopy_aobj_amap`, `deepcopy_nobj_old`), the copy is
  `Consistent` (`deepcopy_consistent`) and has the same observation (`obsG_deepcopy`);
* `Hosts g t`: the stores of `t` contain the objects of graph `g` unchanged; then `viewIn g t` is consistent
  and observed like `g`;
* `Local t t'`: a step only writes objects of its own graph or freshly allocated ones; every operation is
  local (`applyOp_local`), hence every history (`foldl_applyOp_local`).
-/
namespace MalVerif.AGS
open MalVerif.AGraph

/-! ## specification vocabulary -/

/-- what can be seen of a node: all its data, references replaced by the ids of their targets -/
structure NodeObs where
  id : Int
  fullName : String
  children : List Int
  parents : List Int
  compBy : List Int
  viable : Bool
  necessary : Bool
  name : String
  type : NType
  ttc : String
  defense : Option String
  exist : Option Bool
  mitre : Option String
  tags : List String
  extras : String
  asset : Option String
  defOne : Bool
  suppress : Bool
  deriving DecidableEq, Repr

structure AttObs where
  id : Int
  name : String
  entry : List Int
  reached : List Int
  deriving DecidableEq, Repr

def nodeObs (s : St) (r : Nat) : NodeObs :=
  let o := s.nobj r
  { id := o.id, fullName := fullName o
    children := o.children.map (fun c => (s.nobj c).id)
    parents := o.parents.map (fun c => (s.nobj c).id)
    compBy := o.compBy.map (fun a => (s.aobj a).id)
    viable := o.viable, necessary := o.necessary, name := o.name, type := o.type, ttc := o.ttc
    defense := o.defense, exist := o.exist, mitre := o.mitre, tags := o.tags, extras := o.extras
    asset := o.asset, defOne := o.defOne, suppress := o.suppress }

def attObs (s : St) (a : Nat) : AttObs :=
  let o := s.aobj a
  { id := o.id, name := o.name
    entry := o.entry.map (fun n => (s.nobj n).id)
    reached := o.reached.map (fun n => (s.nobj n).id) }

/-- an index (a Python `dict`, modelled as an association list) as the list of its keys, in order, each with
what the lookup of that key returns (observed through `tgt`).  A Python `dict` has one entry per key; for an
association list without duplicate keys this is the plain list of `(key, tgt value)` (`idxObs_eq_raw`). -/
def idxObs {κ β : Type} [DecidableEq κ] (d : List (κ × Nat)) (tgt : Nat → β) : List (κ × Option β) :=
  d.map (fun e => (e.1, (dget d e.1).map tgt))

structure GraphObs where
  nodes : List NodeObs
  attackers : List AttObs
  idIdx : List (Int × Option Int)
  nameIdx : List (String × Option Int)
  attIdx : List (Int × Option Int)
  nextNode : Int
  nextAtt : Int
  deriving DecidableEq, Repr

/-- the observation of a graph state: everything but the references themselves -/
def obsG (s : St) : GraphObs where
  nodes := s.nodes.map (nodeObs s)
  attackers := s.attackers.map (attObs s)
  idIdx := idxObs s.idIdx (fun r => (s.nobj r).id)
  nameIdx := idxObs s.nameIdx (fun r => (s.nobj r).id)
  attIdx := idxObs s.attIdx (fun a => (s.aobj a).id)
  nextNode := s.nextNode
  nextAtt := s.nextAtt

/-- the objects a graph owns -/
def footprintN (s : St) : List Nat := s.nodes
def footprintA (s : St) : List Nat := s.attackers

/-- the handles an operation is called with are objects of the graph.  All operations but `setLabels`
check this themselves (`applyOp`); the analysis that `setLabels` models writes the labels of the nodes of the
graph it is run on. -/
def Op.local (t : St) : Op → Prop
  | .setLabels lab => ∀ x ∈ lab, x.1 ∈ t.nodes
  | _ => True

def opsLocal : St → List Op → Prop
  | _, [] => True
  | t, op :: ops => op.local t ∧ opsLocal (applyOp t op) ops

instance (t : St) (op : Op) : Decidable (op.local t) := by
  cases op <;> unfold Op.local <;> infer_instance

instance opsLocalDecidable : (t : St) → (ops : List Op) → Decidable (opsLocal t ops)
  | _, [] => isTrue trivial
  | t, op :: ops =>
    have := opsLocalDecidable (applyOp t op) ops
    inferInstanceAs (Decidable (op.local t ∧ opsLocal (applyOp t op) ops))

/-! ## generic list lemmas -/

theorem mem_map_of_injOn {f : Nat → Nat} {l : List Nat} {a : Nat} (h : ∀ x ∈ l, f x = f a → x = a) :
    f a ∈ l.map f ↔ a ∈ l := by
  rw [List.mem_map]
  constructor
  · rintro ⟨x, hx, e⟩; exact h x hx e ▸ hx
  · intro ha; exact ⟨a, ha, rfl⟩

theorem count_map_of_injOn {f : Nat → Nat} {l : List Nat} {a : Nat} (h : ∀ x ∈ l, f x = f a → x = a) :
    (l.map f).count (f a) = l.count a := by
  induction l with
  | nil => rfl
  | cons x l ih =>
    rw [List.map_cons, List.count_cons, List.count_cons, ih (fun y hy => h y (List.mem_cons_of_mem _ hy))]
    by_cases hx : x = a
    · subst hx; simp
    · have : f x ≠ f a := fun e => hx (h x List.mem_cons_self e)
      simp [hx, this]

theorem nodup_map_of_injOn {f : Nat → Nat} {l : List Nat} (h : ∀ x ∈ l, ∀ y ∈ l, f x = f y → x = y)
    (hn : l.Nodup) : (l.map f).Nodup := by
  induction l with
  | nil => exact List.nodup_nil
  | cons x l ih =>
    rw [List.nodup_cons] at hn
    rw [List.map_cons, List.nodup_cons]
    refine ⟨?_, ih (fun a ha b hb => h a (List.mem_cons_of_mem _ ha) b (List.mem_cons_of_mem _ hb)) hn.2⟩
    intro hm
    rw [List.mem_map] at hm
    obtain ⟨y, hy, e⟩ := hm
    have := h y (List.mem_cons_of_mem _ hy) x List.mem_cons_self e
    exact hn.1 (this ▸ hy)

theorem dget_map_val {κ : Type} [DecidableEq κ] (f : Nat → Nat) (d : List (κ × Nat)) (k : κ) :
    dget (d.map (fun e => (e.1, f e.2))) k = (dget d k).map f := by
  induction d with
  | nil => rfl
  | cons e d ih =>
    rw [List.map_cons, dget_cons, dget_cons, ih]
    by_cases h : e.1 = k <;> simp [h]

theorem idxObs_eq_raw {κ β : Type} [DecidableEq κ] (d : List (κ × Nat)) (tgt : Nat → β)
    (hk : (d.map (·.1)).Nodup) : idxObs d tgt = d.map (fun e => (e.1, some (tgt e.2))) := by
  unfold idxObs
  induction d with
  | nil => rfl
  | cons e d ih =>
    rw [List.map_cons, List.nodup_cons] at hk
    rw [List.map_cons, List.map_cons, dget_cons, if_pos rfl]
    congr 1
    rw [← ih hk.2]
    apply List.map_congr_left
    intro x hx
    have : e.1 ≠ x.1 := fun e' => hk.1 (e' ▸ List.mem_map_of_mem hx)
    rw [dget_cons, if_neg this]

/-! ## `remap` -/

/-- the i-th element of `l` goes to `base + i`; everything else stays -/
def remap (l : List Nat) (base : Nat) (r : Nat) : Nat :=
  match l.idxOf? r with | some i => base + i | none => r

theorem idxOf?_of_mem {l : List Nat} {r : Nat} (h : r ∈ l) :
    ∃ i, l.idxOf? r = some i ∧ i < l.length ∧ l.getD i 0 = r := by
  induction l with
  | nil => cases h
  | cons x l ih =>
    rw [List.idxOf?_cons]
    by_cases hx : x = r
    · exact ⟨0, by simp [hx], by simp, by simp [hx]⟩
    · have hr : r ∈ l := by
        rcases List.mem_cons.1 h with e | e
        · exact absurd e.symm hx
        · exact e
      obtain ⟨i, h1, h2, h3⟩ := ih hr
      refine ⟨i + 1, by simp [hx, h1], by simp [h2], ?_⟩
      simpa using h3

theorem remap_of_mem {l : List Nat} (base : Nat) {r : Nat} (h : r ∈ l) :
    ∃ i, remap l base r = base + i ∧ i < l.length ∧ l.getD i 0 = r := by
  obtain ⟨i, h1, h2, h3⟩ := idxOf?_of_mem h
  exact ⟨i, by unfold remap; rw [h1], h2, h3⟩

theorem remap_of_not_mem {l : List Nat} (base : Nat) {r : Nat} (h : r ∉ l) : remap l base r = r := by
  unfold remap
  rw [List.idxOf?_eq_none_iff.2 h]

theorem remap_inj {l : List Nat} (base : Nat) {r r' : Nat} (h : r ∈ l) (h' : r' ∈ l)
    (e : remap l base r = remap l base r') : r = r' := by
  obtain ⟨i, h1, _, h3⟩ := remap_of_mem base h
  obtain ⟨j, h1', _, h3'⟩ := remap_of_mem base h'
  rw [h1, h1'] at e
  have : i = j := by omega
  rw [← h3, ← h3', this]

theorem remap_ge {l : List Nat} (base : Nat) {r : Nat} (h : r ∈ l) : base ≤ remap l base r := by
  obtain ⟨i, h1, _, _⟩ := remap_of_mem base h
  omega
theorem remap_lt {l : List Nat} (base : Nat) {r : Nat} (h : r ∈ l) : remap l base r < base + l.length := by
  obtain ⟨i, h1, h2, _⟩ := remap_of_mem base h
  omega

/-- injectivity in the shape the list lemmas above want -/
theorem remap_injOn {l l' : List Nat} (base : Nat) (hsub : ∀ x ∈ l', x ∈ l) {a : Nat} (ha : a ∈ l) :
    ∀ x ∈ l', remap l base x = remap l base a → x = a :=
  fun x hx e => remap_inj base (hsub x hx) ha e

/-! ## `deepcopy` -/

def nmap (s : St) : Nat → Nat := remap s.nodes s.nfresh
def amap (s : St) : Nat → Nat := remap s.attackers s.afresh
/-- the copy of a node object -/
def copyN (s : St) (o : NodeObj) : NodeObj :=
  { o with children := o.children.map (nmap s), parents := o.parents.map (nmap s), compBy := o.compBy.map (amap s) }
/-- the copy of an attacker object -/
def copyA (s : St) (o : AttObj) : AttObj :=
  { o with entry := o.entry.map (nmap s), reached := o.reached.map (nmap s) }

section deepcopy
variable (s : St)

theorem deepcopy_nobj (x : Nat) : (deepcopy s).nobj x =
    if s.nfresh ≤ x ∧ x < s.nfresh + s.nodes.length then copyN s (s.nobj (s.nodes.getD (x - s.nfresh) 0))
    else s.nobj x := rfl
theorem deepcopy_aobj (x : Nat) : (deepcopy s).aobj x =
    if s.afresh ≤ x ∧ x < s.afresh + s.attackers.length then copyA s (s.aobj (s.attackers.getD (x - s.afresh) 0))
    else s.aobj x := rfl
theorem deepcopy_nodes : (deepcopy s).nodes = s.nodes.map (nmap s) := rfl
theorem deepcopy_attackers : (deepcopy s).attackers = s.attackers.map (amap s) := rfl
theorem deepcopy_nfresh : (deepcopy s).nfresh = s.nfresh + s.nodes.length := rfl
theorem deepcopy_afresh : (deepcopy s).afresh = s.afresh + s.attackers.length := rfl
theorem deepcopy_idIdx : (deepcopy s).idIdx = s.idIdx.map (fun e => (e.1, nmap s e.2)) := rfl
theorem deepcopy_nameIdx : (deepcopy s).nameIdx = s.nameIdx.map (fun e => (e.1, nmap s e.2)) := rfl
theorem deepcopy_attIdx : (deepcopy s).attIdx = s.attIdx.map (fun e => (e.1, amap s e.2)) := rfl
theorem deepcopy_nextNode : (deepcopy s).nextNode = s.nextNode := rfl
theorem deepcopy_nextAtt : (deepcopy s).nextAtt = s.nextAtt := rfl

theorem deepcopy_nobj_old {x : Nat} (h : x < s.nfresh) : (deepcopy s).nobj x = s.nobj x := by
  rw [deepcopy_nobj, if_neg (by omega)]
theorem deepcopy_aobj_old {x : Nat} (h : x < s.afresh) : (deepcopy s).aobj x = s.aobj x := by
  rw [deepcopy_aobj, if_neg (by omega)]

theorem deepcopy_nobj_nmap {r : Nat} (hr : r ∈ s.nodes) : (deepcopy s).nobj (nmap s r) = copyN s (s.nobj r) := by
  obtain ⟨i, h1, h2, h3⟩ := remap_of_mem s.nfresh hr
  unfold nmap
  rw [deepcopy_nobj, h1, if_pos (by omega)]
  have : s.nfresh + i - s.nfresh = i := by omega
  rw [this, h3]
theorem deepcopy_aobj_amap {a : Nat} (ha : a ∈ s.attackers) : (deepcopy s).aobj (amap s a) = copyA s (s.aobj a) := by
  obtain ⟨i, h1, h2, h3⟩ := remap_of_mem s.afresh ha
  unfold amap
  rw [deepcopy_aobj, h1, if_pos (by omega)]
  have : s.afresh + i - s.afresh = i := by omega
  rw [this, h3]

theorem mem_deepcopy_nodes (x : Nat) : x ∈ (deepcopy s).nodes ↔ ∃ r ∈ s.nodes, nmap s r = x := by
  rw [deepcopy_nodes, List.mem_map]
theorem mem_deepcopy_attackers (x : Nat) : x ∈ (deepcopy s).attackers ↔ ∃ a ∈ s.attackers, amap s a = x := by
  rw [deepcopy_attackers, List.mem_map]

theorem nmap_ge {r : Nat} (h : r ∈ s.nodes) : s.nfresh ≤ nmap s r := remap_ge _ h
theorem nmap_lt {r : Nat} (h : r ∈ s.nodes) : nmap s r < s.nfresh + s.nodes.length := remap_lt _ h
theorem amap_ge {r : Nat} (h : r ∈ s.attackers) : s.afresh ≤ amap s r := remap_ge _ h
theorem amap_lt {r : Nat} (h : r ∈ s.attackers) : amap s r < s.afresh + s.attackers.length := remap_lt _ h

theorem nmap_injOn {l : List Nat} (hsub : ∀ x ∈ l, x ∈ s.nodes) {a : Nat} (ha : a ∈ s.nodes) :
    ∀ x ∈ l, nmap s x = nmap s a → x = a := remap_injOn _ hsub ha
theorem amap_injOn {l : List Nat} (hsub : ∀ x ∈ l, x ∈ s.attackers) {a : Nat} (ha : a ∈ s.attackers) :
    ∀ x ∈ l, amap s x = amap s a → x = a := remap_injOn _ hsub ha

theorem fullName_copyN (o : NodeObj) : fullName (copyN s o) = fullName o := rfl

/-- the ids behind a renamed list of node references of the graph -/
theorem map_id_nmap (l : List Nat) (hl : ∀ x ∈ l, x ∈ s.nodes) :
    (l.map (nmap s)).map (fun c => ((deepcopy s).nobj c).id) = l.map (fun c => (s.nobj c).id) := by
  rw [List.map_map]
  apply List.map_congr_left
  intro x hx
  show ((deepcopy s).nobj (nmap s x)).id = _
  rw [deepcopy_nobj_nmap s (hl x hx)]; rfl
theorem map_id_amap (l : List Nat) (hl : ∀ x ∈ l, x ∈ s.attackers) :
    (l.map (amap s)).map (fun c => ((deepcopy s).aobj c).id) = l.map (fun c => (s.aobj c).id) := by
  rw [List.map_map]
  apply List.map_congr_left
  intro x hx
  show ((deepcopy s).aobj (amap s x)).id = _
  rw [deepcopy_aobj_amap s (hl x hx)]; rfl

/-- the copy is observed like the original -/
theorem obsG_deepcopy (h : Consistent s) : obsG (deepcopy s) = obsG s := by
  have hN : (deepcopy s).nodes.map (nodeObs (deepcopy s)) = s.nodes.map (nodeObs s) := by
    rw [deepcopy_nodes, List.map_map]
    apply List.map_congr_left
    intro r hr
    show nodeObs (deepcopy s) (nmap s r) = nodeObs s r
    unfold nodeObs
    rw [deepcopy_nobj_nmap s hr]
    show ({ children := ((s.nobj r).children.map (nmap s)).map _, parents := ((s.nobj r).parents.map (nmap s)).map _,
            compBy := ((s.nobj r).compBy.map (amap s)).map _, .. } : NodeObs) = _
    rw [map_id_nmap s _ (h.nodes.children_mem r hr), map_id_nmap s _ (h.nodes.parents_mem r hr),
        map_id_amap s _ (h.comp.compBy_mem r hr)]
    rfl
  have hA : (deepcopy s).attackers.map (attObs (deepcopy s)) = s.attackers.map (attObs s) := by
    rw [deepcopy_attackers, List.map_map]
    apply List.map_congr_left
    intro a ha
    show attObs (deepcopy s) (amap s a) = attObs s a
    unfold attObs
    rw [deepcopy_aobj_amap s ha]
    show ({ entry := ((s.aobj a).entry.map (nmap s)).map _, reached := ((s.aobj a).reached.map (nmap s)).map _, .. }
            : AttObs) = _
    rw [map_id_nmap s _ (h.comp.entry_mem a ha), map_id_nmap s _ (h.comp.reached_mem a ha)]
    rfl
  have hI : idxObs (deepcopy s).idIdx (fun r => ((deepcopy s).nobj r).id) = idxObs s.idIdx (fun r => (s.nobj r).id) := by
    unfold idxObs
    rw [deepcopy_idIdx, List.map_map]
    apply List.map_congr_left
    intro e _
    show (e.1, (dget (s.idIdx.map _) e.1).map _) = _
    rw [dget_map_val, Option.map_map]
    cases hd : dget s.idIdx e.1 with
    | none => rfl
    | some r =>
      have := ((h.idx.id_exact _ r).1 hd).1
      show (e.1, some ((deepcopy s).nobj (nmap s r)).id) = _
      rw [deepcopy_nobj_nmap s this]; rfl
  have hM : idxObs (deepcopy s).nameIdx (fun r => ((deepcopy s).nobj r).id) =
      idxObs s.nameIdx (fun r => (s.nobj r).id) := by
    unfold idxObs
    rw [deepcopy_nameIdx, List.map_map]
    apply List.map_congr_left
    intro e _
    show (e.1, (dget (s.nameIdx.map _) e.1).map _) = _
    rw [dget_map_val, Option.map_map]
    cases hd : dget s.nameIdx e.1 with
    | none => rfl
    | some r =>
      have := (h.idx.name_sound _ r hd).1
      show (e.1, some ((deepcopy s).nobj (nmap s r)).id) = _
      rw [deepcopy_nobj_nmap s this]; rfl
  have hT : idxObs (deepcopy s).attIdx (fun r => ((deepcopy s).aobj r).id) = idxObs s.attIdx (fun r => (s.aobj r).id) := by
    unfold idxObs
    rw [deepcopy_attIdx, List.map_map]
    apply List.map_congr_left
    intro e _
    show (e.1, (dget (s.attIdx.map _) e.1).map _) = _
    rw [dget_map_val, Option.map_map]
    cases hd : dget s.attIdx e.1 with
    | none => rfl
    | some r =>
      have := ((h.attIdx.id_exact _ r).1 hd).1
      show (e.1, some ((deepcopy s).aobj (amap s r)).id) = _
      rw [deepcopy_aobj_amap s this]; rfl
  unfold obsG
  rw [hN, hA, hI, hM, hT]
  rfl

end deepcopy

/-! ## the copy is consistent -/
section copyOK
variable (s : St)

theorem deepcopy_nodesOK (h : Consistent s) : NodesOK (deepcopy s) := by
  have hs := h.nodes
  constructor
  · rw [deepcopy_nodes]
    exact nodup_map_of_injOn (fun x hx y hy e => remap_inj _ hx hy e) hs.nodup
  · intro x hx
    obtain ⟨r, hr, rfl⟩ := (mem_deepcopy_nodes s x).1 hx
    exact nmap_lt s hr
  · intro x hx c hc
    obtain ⟨p, hp, rfl⟩ := (mem_deepcopy_nodes s x).1 hx
    rw [deepcopy_nobj_nmap s hp] at hc
    obtain ⟨y, hy, rfl⟩ := List.mem_map.1 hc
    exact (mem_deepcopy_nodes s _).2 ⟨y, hs.children_mem p hp y hy, rfl⟩
  · intro x hx c hc
    obtain ⟨p, hp, rfl⟩ := (mem_deepcopy_nodes s x).1 hx
    rw [deepcopy_nobj_nmap s hp] at hc
    obtain ⟨y, hy, rfl⟩ := List.mem_map.1 hc
    exact (mem_deepcopy_nodes s _).2 ⟨y, hs.parents_mem p hp y hy, rfl⟩
  · intro x hx y hy
    obtain ⟨p, hp, rfl⟩ := (mem_deepcopy_nodes s x).1 hx
    obtain ⟨c, hc, rfl⟩ := (mem_deepcopy_nodes s y).1 hy
    rw [deepcopy_nobj_nmap s hp, deepcopy_nobj_nmap s hc]
    show ((s.nobj p).children.map (nmap s)).count (nmap s c) = ((s.nobj c).parents.map (nmap s)).count (nmap s p)
    rw [count_map_of_injOn (nmap_injOn s (hs.children_mem p hp) hc),
        count_map_of_injOn (nmap_injOn s (hs.parents_mem c hc) hp)]
    exact hs.mirror p hp c hc

theorem deepcopy_idxOK (h : Consistent s) : IdxOK (deepcopy s) := by
  constructor
  · intro k x
    rw [deepcopy_idIdx, dget_map_val]
    constructor
    · intro hd
      cases hd' : dget s.idIdx k with
      | none => rw [hd'] at hd; cases hd
      | some r =>
        rw [hd'] at hd
        have e : nmap s r = x := Option.some.inj hd
        obtain ⟨hr, hid⟩ := (h.idx.id_exact k r).1 hd'
        refine ⟨(mem_deepcopy_nodes s x).2 ⟨r, hr, e⟩, ?_⟩
        rw [← e, deepcopy_nobj_nmap s hr]; exact hid
    · rintro ⟨hx, hid⟩
      obtain ⟨r, hr, rfl⟩ := (mem_deepcopy_nodes s x).1 hx
      rw [deepcopy_nobj_nmap s hr] at hid
      rw [(h.idx.id_exact k r).2 ⟨hr, hid⟩]; rfl
  · intro x hx
    obtain ⟨r, hr, rfl⟩ := (mem_deepcopy_nodes s x).1 hx
    rw [deepcopy_nobj_nmap s hr]
    exact h.idx.id_lt_next r hr
  · intro k x
    rw [deepcopy_nameIdx, dget_map_val]
    intro hd
    cases hd' : dget s.nameIdx k with
    | none => rw [hd'] at hd; cases hd
    | some r =>
      rw [hd'] at hd
      have e : nmap s r = x := Option.some.inj hd
      obtain ⟨hr, hfn⟩ := h.idx.name_sound k r hd'
      refine ⟨(mem_deepcopy_nodes s x).2 ⟨r, hr, e⟩, ?_⟩
      rw [← e, deepcopy_nobj_nmap s hr, fullName_copyN]; exact hfn

theorem deepcopy_namesExact (h : Consistent s) (hx : NamesExact s) : NamesExact (deepcopy s) := by
  intro k x
  rw [deepcopy_nameIdx, dget_map_val]
  constructor
  · intro hd
    exact (deepcopy_idxOK s h).name_sound k x (by rw [deepcopy_nameIdx, dget_map_val]; exact hd)
  · rintro ⟨hm, hfn⟩
    obtain ⟨r, hr, rfl⟩ := (mem_deepcopy_nodes s x).1 hm
    rw [deepcopy_nobj_nmap s hr, fullName_copyN] at hfn
    rw [(hx k r).2 ⟨hr, hfn⟩]; rfl

theorem deepcopy_attIdxOK (h : Consistent s) : AttIdxOK (deepcopy s) := by
  have hs := h.attIdx
  constructor
  · rw [deepcopy_attackers]
    exact nodup_map_of_injOn (fun x hx y hy e => remap_inj _ hx hy e) hs.nodup
  · intro x hx
    obtain ⟨r, hr, rfl⟩ := (mem_deepcopy_attackers s x).1 hx
    exact amap_lt s hr
  · intro k x
    rw [deepcopy_attIdx, dget_map_val]
    constructor
    · intro hd
      cases hd' : dget s.attIdx k with
      | none => rw [hd'] at hd; cases hd
      | some r =>
        rw [hd'] at hd
        have e : amap s r = x := Option.some.inj hd
        obtain ⟨hr, hid⟩ := (hs.id_exact k r).1 hd'
        refine ⟨(mem_deepcopy_attackers s x).2 ⟨r, hr, e⟩, ?_⟩
        rw [← e, deepcopy_aobj_amap s hr]; exact hid
    · rintro ⟨hx, hid⟩
      obtain ⟨r, hr, rfl⟩ := (mem_deepcopy_attackers s x).1 hx
      rw [deepcopy_aobj_amap s hr] at hid
      rw [(hs.id_exact k r).2 ⟨hr, hid⟩]; rfl
  · intro x hx
    obtain ⟨r, hr, rfl⟩ := (mem_deepcopy_attackers s x).1 hx
    rw [deepcopy_aobj_amap s hr]
    exact hs.id_lt_next r hr

theorem deepcopy_compOK (h : Consistent s) : CompOK (deepcopy s) := by
  have hc := h.comp
  constructor
  · intro x hx n hn
    obtain ⟨a, ha, rfl⟩ := (mem_deepcopy_attackers s x).1 hx
    rw [deepcopy_aobj_amap s ha] at hn
    obtain ⟨y, hy, rfl⟩ := List.mem_map.1 hn
    exact (mem_deepcopy_nodes s _).2 ⟨y, hc.reached_mem a ha y hy, rfl⟩
  · intro x hx n hn
    obtain ⟨a, ha, rfl⟩ := (mem_deepcopy_attackers s x).1 hx
    rw [deepcopy_aobj_amap s ha] at hn
    obtain ⟨y, hy, rfl⟩ := List.mem_map.1 hn
    exact (mem_deepcopy_nodes s _).2 ⟨y, hc.entry_mem a ha y hy, rfl⟩
  · intro x hx a ha
    obtain ⟨n, hn, rfl⟩ := (mem_deepcopy_nodes s x).1 hx
    rw [deepcopy_nobj_nmap s hn] at ha
    obtain ⟨y, hy, rfl⟩ := List.mem_map.1 ha
    exact (mem_deepcopy_attackers s _).2 ⟨y, hc.compBy_mem n hn y hy, rfl⟩
  · intro x hx
    obtain ⟨a, ha, rfl⟩ := (mem_deepcopy_attackers s x).1 hx
    rw [deepcopy_aobj_amap s ha]
    exact nodup_map_of_injOn
      (fun u hu v hv e => remap_inj _ (hc.reached_mem a ha u hu) (hc.reached_mem a ha v hv) e) (hc.reached_nodup a ha)
  · intro x hx
    obtain ⟨n, hn, rfl⟩ := (mem_deepcopy_nodes s x).1 hx
    rw [deepcopy_nobj_nmap s hn]
    exact nodup_map_of_injOn
      (fun u hu v hv e => remap_inj _ (hc.compBy_mem n hn u hu) (hc.compBy_mem n hn v hv) e) (hc.compBy_nodup n hn)
  · intro x hx y hy
    obtain ⟨a, ha, rfl⟩ := (mem_deepcopy_attackers s x).1 hx
    obtain ⟨n, hn, rfl⟩ := (mem_deepcopy_nodes s y).1 hy
    rw [deepcopy_aobj_amap s ha, deepcopy_nobj_nmap s hn]
    show nmap s n ∈ (s.aobj a).reached.map (nmap s) ↔ amap s a ∈ (s.nobj n).compBy.map (amap s)
    rw [mem_map_of_injOn (nmap_injOn s (hc.reached_mem a ha) hn),
        mem_map_of_injOn (amap_injOn s (hc.compBy_mem n hn) ha)]
    exact hc.mirror a ha n hn

theorem deepcopy_consistent (h : Consistent s) : Consistent (deepcopy s) :=
  ⟨deepcopy_nodesOK s h, deepcopy_idxOK s h, deepcopy_attIdxOK s h, deepcopy_compOK s h⟩

end copyOK

/-! ## a graph hosted in the stores of a later state -/

/-- the stores of `t` contain the objects of the graph `g` unchanged (and `t` has allocated at least as much) -/
structure Hosts (g t : St) : Prop where
  nfresh : g.nfresh ≤ t.nfresh
  afresh : g.afresh ≤ t.afresh
  nobj : ∀ r ∈ g.nodes, t.nobj r = g.nobj r
  aobj : ∀ a ∈ g.attackers, t.aobj a = g.aobj a

section hosts
variable {g t : St}

theorem viewIn_nobj : (viewIn g t).nobj = t.nobj := rfl
theorem viewIn_aobj : (viewIn g t).aobj = t.aobj := rfl
theorem viewIn_nodes : (viewIn g t).nodes = g.nodes := rfl
theorem viewIn_attackers : (viewIn g t).attackers = g.attackers := rfl
theorem viewIn_self (s : St) : viewIn s s = s := rfl

theorem Hosts.consistent (hh : Hosts g t) (h : Consistent g) : Consistent (viewIn g t) := by
  have hN := hh.nobj
  have hA := hh.aobj
  refine ⟨⟨h.nodes.nodup, ?_, ?_, ?_, ?_⟩, ⟨?_, ?_, ?_⟩, ⟨h.attIdx.nodup, ?_, ?_, ?_⟩, ⟨?_, ?_, ?_, ?_, ?_, ?_⟩⟩
  · intro r hr; exact Nat.lt_of_lt_of_le (h.nodes.fresh r hr) hh.nfresh
  · intro p hp c hc
    rw [viewIn_nobj, hN p hp] at hc; exact h.nodes.children_mem p hp c hc
  · intro p hp c hc
    rw [viewIn_nobj, hN p hp] at hc; exact h.nodes.parents_mem p hp c hc
  · intro p hp c hc
    rw [viewIn_nobj, hN p hp, hN c hc]; exact h.nodes.mirror p hp c hc
  · intro k r
    show dget g.idIdx k = some r ↔ (r ∈ g.nodes ∧ (t.nobj r).id = k)
    rw [h.idx.id_exact]
    constructor
    · rintro ⟨a, b⟩; exact ⟨a, by rw [hN r a]; exact b⟩
    · rintro ⟨a, b⟩; exact ⟨a, by rw [hN r a] at b; exact b⟩
  · intro r hr
    show (t.nobj r).id < g.nextNode
    rw [hN r hr]; exact h.idx.id_lt_next r hr
  · intro k r hk
    have := h.idx.name_sound k r hk
    exact ⟨this.1, by rw [viewIn_nobj, hN r this.1]; exact this.2⟩
  · intro a ha; exact Nat.lt_of_lt_of_le (h.attIdx.fresh a ha) hh.afresh
  · intro k r
    show dget g.attIdx k = some r ↔ (r ∈ g.attackers ∧ (t.aobj r).id = k)
    rw [h.attIdx.id_exact]
    constructor
    · rintro ⟨a, b⟩; exact ⟨a, by rw [hA r a]; exact b⟩
    · rintro ⟨a, b⟩; exact ⟨a, by rw [hA r a] at b; exact b⟩
  · intro r hr
    show (t.aobj r).id < g.nextAtt
    rw [hA r hr]; exact h.attIdx.id_lt_next r hr
  · intro a ha n hn
    rw [viewIn_aobj, hA a ha] at hn; exact h.comp.reached_mem a ha n hn
  · intro a ha n hn
    rw [viewIn_aobj, hA a ha] at hn; exact h.comp.entry_mem a ha n hn
  · intro n hn a ha
    rw [viewIn_nobj, hN n hn] at ha; exact h.comp.compBy_mem n hn a ha
  · intro a ha
    rw [viewIn_aobj, hA a ha]; exact h.comp.reached_nodup a ha
  · intro n hn
    rw [viewIn_nobj, hN n hn]; exact h.comp.compBy_nodup n hn
  · intro a ha n hn
    rw [viewIn_aobj, viewIn_nobj, hA a ha, hN n hn]; exact h.comp.mirror a ha n hn

theorem Hosts.namesExact (hh : Hosts g t) (hx : NamesExact g) : NamesExact (viewIn g t) := by
  intro k r
  show dget g.nameIdx k = some r ↔ (r ∈ g.nodes ∧ fullName (t.nobj r) = k)
  rw [hx k r]
  constructor
  · rintro ⟨a, b⟩; exact ⟨a, by rw [hh.nobj r a]; exact b⟩
  · rintro ⟨a, b⟩; exact ⟨a, by rw [hh.nobj r a] at b; exact b⟩

theorem Hosts.nodeObs (hh : Hosts g t) (h : Consistent g) {r : Nat} (hr : r ∈ g.nodes) :
    nodeObs (viewIn g t) r = nodeObs g r := by
  unfold AGS.nodeObs
  rw [viewIn_nobj, viewIn_aobj, hh.nobj r hr]
  have e1 : (g.nobj r).children.map (fun c => (t.nobj c).id) = (g.nobj r).children.map (fun c => (g.nobj c).id) :=
    List.map_congr_left (fun c hc => by rw [hh.nobj c (h.nodes.children_mem r hr c hc)])
  have e2 : (g.nobj r).parents.map (fun c => (t.nobj c).id) = (g.nobj r).parents.map (fun c => (g.nobj c).id) :=
    List.map_congr_left (fun c hc => by rw [hh.nobj c (h.nodes.parents_mem r hr c hc)])
  have e3 : (g.nobj r).compBy.map (fun a => (t.aobj a).id) = (g.nobj r).compBy.map (fun a => (g.aobj a).id) :=
    List.map_congr_left (fun c hc => by rw [hh.aobj c (h.comp.compBy_mem r hr c hc)])
  simp only [e1, e2, e3]

theorem Hosts.attObs (hh : Hosts g t) (h : Consistent g) {a : Nat} (ha : a ∈ g.attackers) :
    attObs (viewIn g t) a = attObs g a := by
  unfold AGS.attObs
  rw [viewIn_nobj, viewIn_aobj, hh.aobj a ha]
  have e1 : (g.aobj a).entry.map (fun c => (t.nobj c).id) = (g.aobj a).entry.map (fun c => (g.nobj c).id) :=
    List.map_congr_left (fun c hc => by rw [hh.nobj c (h.comp.entry_mem a ha c hc)])
  have e2 : (g.aobj a).reached.map (fun c => (t.nobj c).id) = (g.aobj a).reached.map (fun c => (g.nobj c).id) :=
    List.map_congr_left (fun c hc => by rw [hh.nobj c (h.comp.reached_mem a ha c hc)])
  simp only [e1, e2]

theorem idxObs_congr {κ β : Type} [DecidableEq κ] (d : List (κ × Nat)) (f f' : Nat → β)
    (hf : ∀ k r, dget d k = some r → f r = f' r) : idxObs d f = idxObs d f' := by
  unfold idxObs
  apply List.map_congr_left
  intro e _
  cases hd : dget d e.1 with
  | none => rfl
  | some r => simp [hf _ _ hd]

/-- a hosted graph is observed like the graph itself -/
theorem Hosts.obsG (hh : Hosts g t) (h : Consistent g) : obsG (viewIn g t) = obsG g := by
  unfold AGS.obsG
  have e1 : (viewIn g t).nodes.map (AGS.nodeObs (viewIn g t)) = g.nodes.map (AGS.nodeObs g) :=
    List.map_congr_left (fun r hr => hh.nodeObs h hr)
  have e2 : (viewIn g t).attackers.map (AGS.attObs (viewIn g t)) = g.attackers.map (AGS.attObs g) :=
    List.map_congr_left (fun r hr => hh.attObs h hr)
  have e3 : idxObs (viewIn g t).idIdx (fun r => ((viewIn g t).nobj r).id) = idxObs g.idIdx (fun r => (g.nobj r).id) :=
    idxObs_congr g.idIdx _ _ (fun k r hd => by
      show (t.nobj r).id = _; rw [hh.nobj r ((h.idx.id_exact k r).1 hd).1])
  have e4 : idxObs (viewIn g t).nameIdx (fun r => ((viewIn g t).nobj r).id) = idxObs g.nameIdx (fun r => (g.nobj r).id) :=
    idxObs_congr g.nameIdx _ _ (fun k r hd => by
      show (t.nobj r).id = _; rw [hh.nobj r (h.idx.name_sound k r hd).1])
  have e5 : idxObs (viewIn g t).attIdx (fun r => ((viewIn g t).aobj r).id) = idxObs g.attIdx (fun r => (g.aobj r).id) :=
    idxObs_congr g.attIdx _ _ (fun k r hd => by
      show (t.aobj r).id = _; rw [hh.aobj r ((h.attIdx.id_exact k r).1 hd).1])
  rw [e1, e2, e3, e4, e5]
  rfl

end hosts

/-- making a copy does not write the objects of the original -/
theorem hosts_deepcopy (s : St) (h : Consistent s) : Hosts s (deepcopy s) :=
  ⟨Nat.le_add_right _ _, Nat.le_add_right _ _,
   fun r hr => deepcopy_nobj_old s (h.nodes.fresh r hr), fun a ha => deepcopy_aobj_old s (h.attIdx.fresh a ha)⟩

/-! ## locality of the operations -/

/-- a step from `t` to `t'` only writes objects of the graph of `t` or objects it allocates, and the graph
of `t'` consists of such objects -/
structure Local (t t' : St) : Prop where
  nfresh : t.nfresh ≤ t'.nfresh
  afresh : t.afresh ≤ t'.afresh
  nodes : ∀ x ∈ t'.nodes, x ∈ t.nodes ∨ t.nfresh ≤ x
  attackers : ∀ a ∈ t'.attackers, a ∈ t.attackers ∨ t.afresh ≤ a
  nobj : ∀ x, x ∉ t.nodes → x < t.nfresh → t'.nobj x = t.nobj x
  aobj : ∀ a, a ∉ t.attackers → a < t.afresh → t'.aobj a = t.aobj a

theorem Local.refl (t : St) : Local t t :=
  ⟨Nat.le_refl _, Nat.le_refl _, fun _ h => Or.inl h, fun _ h => Or.inl h, fun _ _ _ => rfl, fun _ _ _ => rfl⟩

theorem Local.trans {t t' t'' : St} (h : Local t t') (h' : Local t' t'') : Local t t'' := by
  refine ⟨Nat.le_trans h.nfresh h'.nfresh, Nat.le_trans h.afresh h'.afresh, ?_, ?_, ?_, ?_⟩
  · intro x hx
    rcases h'.nodes x hx with h1 | h1
    · exact h.nodes x h1
    · exact Or.inr (Nat.le_trans h.nfresh h1)
  · intro x hx
    rcases h'.attackers x hx with h1 | h1
    · exact h.attackers x h1
    · exact Or.inr (Nat.le_trans h.afresh h1)
  · intro x hx hlt
    have h1 : x ∉ t'.nodes := fun hm => by
      rcases h.nodes x hm with h2 | h2
      · exact hx h2
      · omega
    rw [h'.nobj x h1 (Nat.lt_of_lt_of_le hlt h.nfresh), h.nobj x hx hlt]
  · intro x hx hlt
    have h1 : x ∉ t'.attackers := fun hm => by
      rcases h.attackers x hm with h2 | h2
      · exact hx h2
      · omega
    rw [h'.aobj x h1 (Nat.lt_of_lt_of_le hlt h.afresh), h.aobj x hx hlt]

theorem Local.of_frame {t t' : St} (hf : Frame t t') (hn : ∀ x, x ∉ t.nodes → t'.nobj x = t.nobj x)
    (ha : ∀ a, a ∉ t.attackers → t'.aobj a = t.aobj a) : Local t t' :=
  ⟨Nat.le_of_eq hf.nfresh.symm, Nat.le_of_eq hf.afresh.symm, fun _ hx => Or.inl (hf.nodes ▸ hx),
   fun _ hx => Or.inl (hf.attackers ▸ hx), fun x hx _ => hn x hx, fun x hx _ => ha x hx⟩

/-- afterwards some objects are dropped from the graph -/
theorem Local.shrink {t t' t'' : St} (h : Local t t') (hn : t''.nobj = t'.nobj) (ha : t''.aobj = t'.aobj)
    (hnf : t''.nfresh = t'.nfresh) (haf : t''.afresh = t'.afresh) (hnodes : ∀ x ∈ t''.nodes, x ∈ t'.nodes)
    (hatt : ∀ x ∈ t''.attackers, x ∈ t'.attackers) : Local t t'' :=
  ⟨hnf ▸ h.nfresh, haf ▸ h.afresh, fun x hx => h.nodes x (hnodes x hx), fun x hx => h.attackers x (hatt x hx),
   fun x hx hlt => by rw [hn]; exact h.nobj x hx hlt, fun x hx hlt => by rw [ha]; exact h.aobj x hx hlt⟩

theorem Local.updN {t : St} {r : Nat} (f : NodeObj → NodeObj) (hr : r ∈ t.nodes) : Local t (updN t r f) :=
  Local.of_frame (Frame.updN t r f) (fun _ hx => updN_nobj_ne t r f (fun e => hx (e ▸ hr))) (fun _ _ => rfl)
theorem Local.updA {t : St} {a : Nat} (f : AttObj → AttObj) (ha : a ∈ t.attackers) : Local t (updA t a f) :=
  Local.of_frame (Frame.updA t a f) (fun _ _ => rfl) (fun _ hx => updA_aobj_ne t a f (fun e => hx (e ▸ ha)))

theorem Local.foldl {ι : Type} (P : St → Prop) (f : St → ι → St) (l : List ι) (t : St)
    (hP : ∀ t x, x ∈ l → P t → P (f t x)) (hL : ∀ t x, x ∈ l → P t → Local t (f t x)) (h0 : P t) :
    Local t (l.foldl f t) := by
  induction l generalizing t with
  | nil => exact Local.refl t
  | cons x l ih =>
    rw [List.foldl_cons]
    exact (hL t x List.mem_cons_self h0).trans
      (ih _ (fun t y hy => hP t y (List.mem_cons_of_mem _ hy)) (fun t y hy => hL t y (List.mem_cons_of_mem _ hy))
        (hP t x List.mem_cons_self h0))

theorem compromise_local {t : St} {a n : Nat} (ha : a ∈ t.attackers) (hn : n ∈ t.nodes) :
    Local t (compromise t a n) := by
  rcases compromise_cases t a n with e | e <;> rw [e]
  · exact Local.refl t
  · exact (Local.updN _ hn).trans (Local.updA _ ha)
theorem undo_local {t : St} {a n : Nat} (ha : a ∈ t.attackers) (hn : n ∈ t.nodes) : Local t (undo t a n) := by
  rcases undo_cases t a n with e | e <;> rw [e]
  · exact Local.refl t
  · exact (Local.updN _ hn).trans (Local.updA _ ha)
theorem link_local {t : St} {p c : Nat} (hp : p ∈ t.nodes) (hc : c ∈ t.nodes) : Local t (link t p c) :=
  (Local.updN _ hp).trans (Local.updN _ hc)

theorem setLabels_local (lab : List (Nat × Bool × Bool)) (t : St) (h : ∀ x ∈ lab, x.1 ∈ t.nodes) :
    Local t (setLabels t lab) := by
  unfold setLabels
  refine Local.foldl (fun t' => t'.nodes = t.nodes) _ lab t (fun _ _ _ ht => ht) ?_ rfl
  intro t' x hx ht
  obtain ⟨r, v, n⟩ := x
  exact Local.updN _ (ht ▸ h _ hx)

theorem addNodeSt_local (t : St) (o : NodeObj) (k : Int) : Local t (addNodeSt t o k) := by
  refine ⟨Nat.le_succ _, Nat.le_refl _, ?_, fun _ h => Or.inl h, ?_, fun _ _ _ => rfl⟩
  · intro x hx
    rcases (addNodeSt_mem t o k x).1 hx with h | h
    · exact Or.inl h
    · exact Or.inr (Nat.le_of_eq h.symm)
  · intro x _ hlt
    show (if x = t.nfresh then _ else _) = _
    rw [if_neg (Nat.ne_of_lt hlt)]

theorem removeNode_local (s : St) (r : Nat) (h : Consistent s) (hr : r ∈ s.nodes) : Local s (removeNode s r) := by
  have hs := removeNode_spec s r h hr
  refine ⟨Nat.le_of_eq hs.nfresh.symm, Nat.le_of_eq hs.afresh.symm, ?_, ?_, ?_, ?_⟩
  · intro x hx; rw [hs.nodes] at hx; exact Or.inl (List.mem_of_mem_erase hx)
  · intro x hx; rw [hs.attackers] at hx; exact Or.inl hx
  · intro x hx _
    have hne : x ≠ r := fun e => hx (e ▸ hr)
    have c1 : (s.nobj r).children.count x = 0 :=
      List.count_eq_zero.2 (fun hm => hx (h.nodes.children_mem r hr x hm))
    have c2 : ((rn1 s r).nobj r).parents.count x = 0 := by
      apply List.count_eq_zero.2
      rw [rn1_nobj_of_mem s r h.nodes hr hr]
      intro hm
      exact hx (h.nodes.parents_mem r hr x (List.mem_filter.1 hm).1)
    have e1 : (rn1 s r).nobj x = s.nobj x := by rw [rn1_nobj, c1]; rfl
    have e2 : (rn2 s r).nobj x = (rn1 s r).nobj x := by rw [rn2_nobj, c2]; rfl
    show (rn4 s r).nobj x = _
    rw [rn4_nobj, rn3_nobj_ne s r hne, e2, e1]
  · intro a ha _
    have hcb : ((rn2 s r).nobj r).compBy = (s.nobj r).compBy := rn2_compBy s r r
    have hna : a ∉ (s.nobj r).compBy := fun hm => ha (h.comp.compBy_mem r hr a hm)
    have e3 : (rn3 s r).aobj a = s.aobj a := by
      unfold rn3
      rw [foldl_undo_node_aobj r _ _ (by rw [hcb]; exact h.comp.compBy_nodup r hr) (fun b hb => hb), hcb,
          if_neg hna, rn2_aobj]
    show (rn4 s r).aobj a = _
    unfold rn4
    rw [foldl_updA, (rn3_frame s r).attackers]
    show iter _ (s.attackers.count a) ((rn3 s r).aobj a) = _
    rw [List.count_eq_zero.2 ha, e3]; rfl

theorem undo_aobj_ne (s : St) (a n b : Nat) (h : b ≠ a) : (undo s a n).aobj b = s.aobj b := by
  rcases undo_cases s a n with e | e <;> rw [e]
  unfold undoStep; rw [updA_aobj, if_neg h]; rfl

theorem removeAttacker_local (s : St) (a : Nat) (h : Consistent s) (ha : a ∈ s.attackers) :
    Local s (removeAttacker s a) := by
  have h1 : Local s (ra1 s a) := by
    unfold ra1
    refine Local.foldl (fun t => t.nodes = s.nodes ∧ t.attackers = s.attackers) _ _ s ?_ ?_ ⟨rfl, rfl⟩
    · intro t n _ ht
      have hf := undo_frame t a n
      exact ⟨hf.nodes.trans ht.1, hf.attackers.trans ht.2⟩
    · intro t n hn ht
      exact undo_local (ht.2 ▸ ha) (ht.1 ▸ h.comp.reached_mem a ha n hn)
  rw [removeAttacker_eq]
  exact h1.shrink rfl rfl rfl rfl (fun _ hx => hx) (fun _ hx => List.mem_of_mem_erase hx)

theorem aaInit_local (s : St) (nm : String) (k : Int) : Local s (aaInit s nm k) := by
  refine ⟨Nat.le_refl _, Nat.le_succ _, fun _ h => Or.inl h, ?_, fun _ _ _ => rfl, ?_⟩
  · intro x hx
    rcases (aaInit_mem s nm k x).1 hx with h | h
    · exact Or.inl h
    · exact Or.inr (Nat.le_of_eq h.symm)
  · intro x _ hlt
    show (if x = s.afresh then _ else _) = _
    rw [if_neg (Nat.ne_of_lt hlt)]

theorem aaReach_local (a : Nat) (t : St) (i : Int) (h : Consistent t) (ha : a ∈ t.attackers) :
    Local t (aaReach a t i) := by
  unfold aaReach; split
  · next n hn => exact compromise_local ha ((h.idx.id_exact i n).1 hn).1
  · exact Local.refl t
theorem aaEntry_local (a : Nat) (t : St) (i : Int) (ha : a ∈ t.attackers) : Local t (aaEntry a t i) := by
  unfold aaEntry; split
  · exact Local.updA _ ha
  · exact Local.refl t
theorem atReach_local (a : Nat) (t : St) (fn : String) (h : Consistent t) (ha : a ∈ t.attackers) :
    Local t (atReach a t fn) := by
  unfold atReach; split
  · next n hn => exact compromise_local ha (h.idx.name_sound fn n hn).1
  · exact Local.refl t

theorem addAttacker_local {s s' : St} {nm : String} {id : Option Int} {e r : List Int} (h : Consistent s)
    (hok : addAttacker s nm id e r = .ok s') : Local s s' := by
  obtain ⟨hk, rfl⟩ := addAttacker_ok hok
  have h0 := aaInit_consistent s nm _ h hk
  have ha0 : s.afresh ∈ (aaInit s nm (id.getD s.nextAtt)).attackers := (aaInit_mem s nm _ _).2 (Or.inr rfl)
  have hP1 : ∀ (t : St) (i : Int), i ∈ r → (Consistent t ∧ s.afresh ∈ t.attackers) →
      (Consistent (aaReach s.afresh t i) ∧ s.afresh ∈ (aaReach s.afresh t i).attackers) :=
    fun t i _ ht => ⟨aaReach_consistent _ t i ht.1 ht.2, by rw [(aaReach_frame _ t i).attackers]; exact ht.2⟩
  have hP2 : ∀ (t : St) (i : Int), i ∈ e → (Consistent t ∧ s.afresh ∈ t.attackers) →
      (Consistent (aaEntry s.afresh t i) ∧ s.afresh ∈ (aaEntry s.afresh t i).attackers) :=
    fun t i _ ht => ⟨aaEntry_consistent _ t i ht.1 ht.2, by rw [(aaEntry_frame _ t i).attackers]; exact ht.2⟩
  have h1 := foldl_inv (fun t => Consistent t ∧ s.afresh ∈ t.attackers) _ r _ hP1 ⟨h0, ha0⟩
  exact (aaInit_local s nm _).trans
    ((Local.foldl (fun t => Consistent t ∧ s.afresh ∈ t.attackers) _ r _ hP1
        (fun t i _ ht => aaReach_local _ t i ht.1 ht.2) ⟨h0, ha0⟩).trans
      (Local.foldl (fun t => Consistent t ∧ s.afresh ∈ t.attackers) _ e _ hP2
        (fun t i _ ht => aaEntry_local _ t i ht.2) h1))

theorem attachSt_local (s : St) (x : String × List String) (h : Consistent s)
    (hk : dget s.attIdx s.nextAtt = none) : Local s (attachSt s x) := by
  have h0 := aaInit_consistent s x.1 _ h hk
  have ha0 : s.afresh ∈ (aaInit s x.1 s.nextAtt).attackers := (aaInit_mem s x.1 _ _).2 (Or.inr rfl)
  have hP : ∀ (t : St) (fn : String), fn ∈ x.2 → (Consistent t ∧ s.afresh ∈ t.attackers) →
      (Consistent (atReach s.afresh t fn) ∧ s.afresh ∈ (atReach s.afresh t fn).attackers) :=
    fun t i _ ht => ⟨atReach_consistent _ t i ht.1 ht.2, by rw [(atReach_frame _ t i).attackers]; exact ht.2⟩
  have h1 := foldl_inv (fun t => Consistent t ∧ s.afresh ∈ t.attackers) _ x.2 _ hP ⟨h0, ha0⟩
  unfold attachSt
  exact (aaInit_local s x.1 _).trans
    ((Local.foldl (fun t => Consistent t ∧ s.afresh ∈ t.attackers) _ x.2 _ hP
        (fun t i _ ht => atReach_local _ t i ht.1 ht.2) ⟨h0, ha0⟩).trans (Local.updA _ h1.2))

theorem attach_local (atts : List (String × List String)) (s s' : St) (h : Consistent s)
    (hok : attach s atts = .ok s') : Local s s' := by
  induction atts generalizing s with
  | nil => rw [attach_nil] at hok; injection hok with hok; exact hok ▸ Local.refl s
  | cons x atts ih =>
    obtain ⟨hk, h2⟩ := attach_cons_ok hok
    exact (attachSt_local s x h hk).trans (ih _ (attachSt_consistent s x h hk) h2)

theorem foldl_pruneStep_local (l : List Nat) (s : St) (h : Consistent s) (hnd : l.Nodup) (hl : ∀ r ∈ l, r ∈ s.nodes) :
    Local s (l.foldl pruneStep s) := by
  induction l generalizing s with
  | nil => exact Local.refl s
  | cons r l ih =>
    rw [List.nodup_cons] at hnd
    have hr : r ∈ s.nodes := hl r List.mem_cons_self
    rw [List.foldl_cons]
    by_cases hp : prunable (s.nobj r) = true
    · have e : pruneStep s r = removeNode s r := by unfold pruneStep; rw [if_pos hp]
      have hspec := removeNode_spec s r h hr
      rw [e]
      refine (removeNode_local s r h hr).trans (ih _ (removeNode_consistent' s r h hr) hnd.2 ?_)
      intro x hx
      rw [hspec.nodes]
      exact (List.mem_erase_of_ne (fun (e' : x = r) => hnd.1 (e' ▸ hx))).2 (hl x (List.mem_cons_of_mem _ hx))
    · have e : pruneStep s r = s := by unfold pruneStep; rw [if_neg hp]
      rw [e]
      exact ih s h hnd.2 (fun x hx => hl x (List.mem_cons_of_mem _ hx))

theorem prune_local (s : St) (h : Consistent s) : Local s (prune s) :=
  foldl_pruneStep_local s.nodes s h h.nodes.nodup (fun _ hr => hr)

/-- every operation is local -/
theorem applyOp_local (t : St) (op : Op) (h : Consistent t) (hl : op.local t) : Local t (applyOp t op) := by
  cases op with
  | addNode o id =>
    show Local t (okOr t (addNode t o.detached id))
    cases hr : addNode t o.detached id with
    | error e => exact Local.refl t
    | ok s' =>
      obtain ⟨_, rfl⟩ := addNode_ok hr
      exact addNodeSt_local t _ _
  | link p c =>
    show Local t (if p ∈ t.nodes ∧ c ∈ t.nodes then link t p c else t)
    split
    · next hpc => exact link_local hpc.1 hpc.2
    · exact Local.refl t
  | removeNode r =>
    show Local t (if r ∈ t.nodes then removeNode t r else t)
    split
    · next hr => exact removeNode_local t r h hr
    · exact Local.refl t
  | addAttacker nm id e r =>
    show Local t (okOr t (addAttacker t nm id e r))
    cases hr : addAttacker t nm id e r with
    | error e => exact Local.refl t
    | ok s' => exact addAttacker_local h hr
  | removeAttacker a =>
    show Local t (if a ∈ t.attackers then removeAttacker t a else t)
    split
    · next ha => exact removeAttacker_local t a h ha
    · exact Local.refl t
  | compromise a n =>
    show Local t (if a ∈ t.attackers ∧ n ∈ t.nodes then compromise t a n else t)
    split
    · next han => exact compromise_local han.1 han.2
    · exact Local.refl t
  | undo a n =>
    show Local t (if a ∈ t.attackers ∧ n ∈ t.nodes then undo t a n else t)
    split
    · next han => exact undo_local han.1 han.2
    · exact Local.refl t
  | attach atts =>
    show Local t (okOr t (attach t atts))
    cases hr : attach t atts with
    | error e => exact Local.refl t
    | ok s' => exact attach_local atts t s' h hr
  | setLabels lab => exact setLabels_local lab t hl
  | prune => exact prune_local t h
  | addNodeObj r id => rw [applyOp_addNodeObj t r id h]; exact Local.refl t
  | addAttackerObj a id e r => rw [applyOp_addAttackerObj t a id e r h]; exact Local.refl t

/-- … hence every history -/
theorem foldl_applyOp_local (ops : List Op) (t : St) (h : Consistent t) (hl : opsLocal t ops) :
    Local t (ops.foldl applyOp t) := by
  induction ops generalizing t with
  | nil => exact Local.refl t
  | cons op ops ih =>
    exact (applyOp_local t op h hl.1).trans (ih _ (applyOp_consistent t op h) hl.2)

/-! ## two graphs in one pair of stores -/

/-- the objects of graph `g` are allocated in `t` but are not objects of the graph of `t` -/
structure Apart (g t : St) : Prop where
  nodes : ∀ r ∈ g.nodes, r ∉ t.nodes ∧ r < t.nfresh
  attackers : ∀ a ∈ g.attackers, a ∉ t.attackers ∧ a < t.afresh

theorem Local.apart {g t t' : St} (hl : Local t t') (ha : Apart g t) : Apart g t' := by
  constructor
  · intro r hr
    obtain ⟨h1, h2⟩ := ha.nodes r hr
    refine ⟨fun hm => ?_, Nat.lt_of_lt_of_le h2 hl.nfresh⟩
    rcases hl.nodes r hm with h3 | h3
    · exact h1 h3
    · omega
  · intro r hr
    obtain ⟨h1, h2⟩ := ha.attackers r hr
    refine ⟨fun hm => ?_, Nat.lt_of_lt_of_le h2 hl.afresh⟩
    rcases hl.attackers r hm with h3 | h3
    · exact h1 h3
    · omega

theorem Local.hosts {g t t' : St} (hl : Local t t') (ha : Apart g t) (hh : Hosts g t) : Hosts g t' :=
  ⟨Nat.le_trans hh.nfresh hl.nfresh, Nat.le_trans hh.afresh hl.afresh,
   fun r hr => by rw [hl.nobj r (ha.nodes r hr).1 (ha.nodes r hr).2, hh.nobj r hr],
   fun r hr => by rw [hl.aobj r (ha.attackers r hr).1 (ha.attackers r hr).2, hh.aobj r hr]⟩

/-- the original is apart from the copy … -/
theorem apart_orig_copy (s : St) (h : Consistent s) : Apart s (deepcopy s) := by
  constructor
  · intro r hr
    have hlt := h.nodes.fresh r hr
    refine ⟨fun hm => ?_, by rw [deepcopy_nfresh]; omega⟩
    obtain ⟨r', hr', e⟩ := (mem_deepcopy_nodes s r).1 hm
    have := nmap_ge s hr'
    omega
  · intro r hr
    have hlt := h.attIdx.fresh r hr
    refine ⟨fun hm => ?_, by rw [deepcopy_afresh]; omega⟩
    obtain ⟨r', hr', e⟩ := (mem_deepcopy_attackers s r).1 hm
    have := amap_ge s hr'
    omega

/-- … and the copy from the original (in the stores after copying) -/
theorem apart_copy_orig (s : St) (h : Consistent s) : Apart (deepcopy s) (viewIn s (deepcopy s)) := by
  constructor
  · intro x hx
    obtain ⟨r, hr, rfl⟩ := (mem_deepcopy_nodes s x).1 hx
    have h1 := nmap_ge s hr
    have h2 := nmap_lt s hr
    refine ⟨fun hm => ?_, h2⟩
    have := h.nodes.fresh _ hm
    omega
  · intro x hx
    obtain ⟨r, hr, rfl⟩ := (mem_deepcopy_attackers s x).1 hx
    have h1 := amap_ge s hr
    have h2 := amap_lt s hr
    refine ⟨fun hm => ?_, h2⟩
    have := h.attIdx.fresh _ hm
    omega

theorem hosts_copy_view (s : St) : Hosts (deepcopy s) (viewIn s (deepcopy s)) :=
  ⟨Nat.le_refl _, Nat.le_refl _, fun _ _ => rfl, fun _ _ => rfl⟩

/-! ## interleaved histories of two graphs -/

/-- two graphs in the same (current) stores, sharing no object -/
structure Paired (a b : St) : Prop where
  ca : Consistent a
  cb : Consistent b
  nobj : a.nobj = b.nobj
  aobj : a.aobj = b.aobj
  nfresh : a.nfresh = b.nfresh
  afresh : a.afresh = b.afresh
  disjN : ∀ r ∈ a.nodes, r ∉ b.nodes
  disjA : ∀ r ∈ a.attackers, r ∉ b.attackers

theorem Paired.symm {a b : St} (h : Paired a b) : Paired b a :=
  ⟨h.cb, h.ca, h.nobj.symm, h.aobj.symm, h.nfresh.symm, h.afresh.symm,
   fun r hr hm => h.disjN r hm hr, fun r hr hm => h.disjA r hm hr⟩

theorem Paired.apart {a b : St} (h : Paired a b) : Apart b a :=
  ⟨fun r hr => ⟨fun hm => h.disjN r hm hr, h.nfresh ▸ h.cb.nodes.fresh r hr⟩,
   fun r hr => ⟨fun hm => h.disjA r hm hr, h.afresh ▸ h.cb.attIdx.fresh r hr⟩⟩

theorem Paired.hosts {a b : St} (h : Paired a b) : Hosts b a :=
  ⟨Nat.le_of_eq h.nfresh.symm, Nat.le_of_eq h.afresh.symm, fun _ _ => by rw [h.nobj], fun _ _ => by rw [h.aobj]⟩

/-- one operation on the first graph of a pair; the second is re-read through the new stores -/
theorem Paired.step {a b : St} (h : Paired a b) (op : Op) (hl : op.local a) :
    Paired (applyOp a op) (viewIn b (applyOp a op)) ∧ obsG (viewIn b (applyOp a op)) = obsG b := by
  have hloc := applyOp_local a op h.ca hl
  have hh := hloc.hosts h.apart h.hosts
  have hap := hloc.apart h.apart
  exact ⟨⟨applyOp_consistent a op h.ca, hh.consistent h.cb, rfl, rfl, rfl, rfl,
    fun r hr hm => (hap.nodes r hm).1 hr, fun r hr hm => (hap.attackers r hm).1 hr⟩, hh.obsG h.cb⟩

/-- a step of an interleaved history: `(true, op)` is `op` on the first graph, `(false, op)` on the second -/
def stepBoth (p : St × St) (x : Bool × Op) : St × St :=
  if x.1 then (applyOp p.1 x.2, viewIn p.2 (applyOp p.1 x.2))
  else (viewIn p.1 (applyOp p.2 x.2), applyOp p.2 x.2)

def bothLocal : St × St → List (Bool × Op) → Prop
  | _, [] => True
  | p, x :: xs => x.2.local (if x.1 then p.1 else p.2) ∧ bothLocal (stepBoth p x) xs

theorem Paired.stepBoth {p : St × St} (h : Paired p.1 p.2) (x : Bool × Op)
    (hl : x.2.local (if x.1 then p.1 else p.2)) :
    Paired (stepBoth p x).1 (stepBoth p x).2 ∧
      (if x.1 then obsG (stepBoth p x).2 = obsG p.2 else obsG (stepBoth p x).1 = obsG p.1) := by
  unfold AGS.stepBoth
  cases hx : x.1 with
  | true =>
    rw [hx] at hl
    simpa using h.step x.2 hl
  | false =>
    rw [hx] at hl
    have := h.symm.step x.2 hl
    exact ⟨by simpa using this.1.symm, by simpa using this.2⟩

theorem Paired.run {p : St × St} (h : Paired p.1 p.2) (xs : List (Bool × Op)) (hl : bothLocal p xs) :
    Paired (xs.foldl AGS.stepBoth p).1 (xs.foldl AGS.stepBoth p).2 := by
  induction xs generalizing p with
  | nil => exact h
  | cons x xs ih => exact ih (h.stepBoth x hl.1).1 hl.2

/-- right after copying, original and copy are paired -/
theorem paired_deepcopy (s : St) (h : Consistent s) : Paired (viewIn s (deepcopy s)) (deepcopy s) :=
  ⟨(hosts_deepcopy s h).consistent h, deepcopy_consistent s h, rfl, rfl, rfl, rfl,
   fun r hr => ((apart_orig_copy s h).nodes r hr).1, fun r hr => ((apart_orig_copy s h).attackers r hr).1⟩

/-! ## the serialized content of the copy -/

/-- the entry `_to_dict` writes for a node -/
def nodeEntry (s : St) (r : Nat) : NodeEntry :=
  let o := s.nobj r
  { id := o.id, type := o.type, name := o.name, ttc := o.ttc,
    children := idKeys (o.children.map (fun c => (s.nobj c).id)),
    parents := idKeys (o.parents.map (fun c => (s.nobj c).id)),
    compBy := o.compBy.map (fun a => (s.aobj a).name),
    asset := o.asset, defense := o.defense, exist := o.exist, viable := o.viable, necessary := o.necessary,
    mitre := o.mitre, tags := o.tags, extras := o.extras }
/-- the entry `_to_dict` writes for an attacker -/
def attEntry (s : St) (a : Nat) : AttEntry :=
  let o := s.aobj a
  { id := o.id, name := o.name,
    entry := idKeys (o.entry.map (fun n => (s.nobj n).id)),
    reached := idKeys (o.reached.map (fun n => (s.nobj n).id)) }

theorem toDoc_steps (s : St) :
    (toDoc s).steps = s.nodes.foldl (fun d r => sdictPut d (fullName (s.nobj r)) (nodeEntry s r)) [] := rfl
theorem toDoc_attackers (s : St) :
    (toDoc s).attackers = s.attackers.foldl (fun d a =>
      d ++ [(attKey (d.map (·.1)) (":" ++ toString (s.aobj a).id) (d.length + 1) (s.aobj a).name, attEntry s a)]) [] := rfl

theorem AGDoc.ext_fields (a b : AGDoc) (h1 : a.steps = b.steps) (h2 : a.attackers = b.attackers) : a = b := by
  cases a; cases b; cases h1; cases h2; rfl

theorem foldl_congr_mem {α β : Type} (f g : β → α → β) (l : List α) (b : β) (h : ∀ b, ∀ x ∈ l, f b x = g b x) :
    l.foldl f b = l.foldl g b := by
  induction l generalizing b with
  | nil => rfl
  | cons x l ih =>
    rw [List.foldl_cons, List.foldl_cons, h b x List.mem_cons_self]
    exact ih _ (fun b y hy => h b y (List.mem_cons_of_mem _ hy))

theorem nodeEntry_deepcopy (s : St) (h : Consistent s) {r : Nat} (hr : r ∈ s.nodes) :
    nodeEntry (deepcopy s) (nmap s r) = nodeEntry s r := by
  unfold nodeEntry
  rw [deepcopy_nobj_nmap s hr]
  have e3 : ((s.nobj r).compBy.map (amap s)).map (fun a => ((deepcopy s).aobj a).name) =
      (s.nobj r).compBy.map (fun a => (s.aobj a).name) := by
    rw [List.map_map]
    apply List.map_congr_left
    intro a ha
    show ((deepcopy s).aobj (amap s a)).name = _
    rw [deepcopy_aobj_amap s (h.comp.compBy_mem r hr a ha)]; rfl
  show ({ children := idKeys (((s.nobj r).children.map (nmap s)).map _),
          parents := idKeys (((s.nobj r).parents.map (nmap s)).map _),
          compBy := ((s.nobj r).compBy.map (amap s)).map _, .. } : NodeEntry) = _
  rw [map_id_nmap s _ (h.nodes.children_mem r hr), map_id_nmap s _ (h.nodes.parents_mem r hr), e3]
  rfl

theorem attEntry_deepcopy (s : St) (h : Consistent s) {a : Nat} (ha : a ∈ s.attackers) :
    attEntry (deepcopy s) (amap s a) = attEntry s a := by
  unfold attEntry
  rw [deepcopy_aobj_amap s ha]
  show ({ entry := idKeys (((s.aobj a).entry.map (nmap s)).map _),
          reached := idKeys (((s.aobj a).reached.map (nmap s)).map _), .. } : AttEntry) = _
  rw [map_id_nmap s _ (h.comp.entry_mem a ha), map_id_nmap s _ (h.comp.reached_mem a ha)]
  rfl

/-- the copy is written to the same file as the original -/
theorem toDoc_deepcopy (s : St) (h : Consistent s) : toDoc (deepcopy s) = toDoc s := by
  have e1 : (toDoc (deepcopy s)).steps = (toDoc s).steps := by
    rw [toDoc_steps, toDoc_steps, deepcopy_nodes, List.foldl_map]
    apply foldl_congr_mem
    intro d r hr
    show sdictPut d (fullName ((deepcopy s).nobj (nmap s r))) (nodeEntry (deepcopy s) (nmap s r)) = _
    rw [nodeEntry_deepcopy s h hr, deepcopy_nobj_nmap s hr, fullName_copyN]
  have e2 : (toDoc (deepcopy s)).attackers = (toDoc s).attackers := by
    rw [toDoc_attackers, toDoc_attackers, deepcopy_attackers, List.foldl_map]
    apply foldl_congr_mem
    intro d a ha
    show d ++ [(attKey _ (":" ++ toString ((deepcopy s).aobj (amap s a)).id) _ ((deepcopy s).aobj (amap s a)).name,
      attEntry (deepcopy s) (amap s a))] = _
    rw [attEntry_deepcopy s h ha, deepcopy_aobj_amap s ha]
    rfl
  exact AGDoc.ext_fields _ _ e1 e2

/-! ## a small graph for the `example`s of `Props/C14.lean` -/
namespace Demo
/-- three nodes with the cycle 0 ⇄ 1, a self-loop on 2, an edge 0 → 2; an attacker with id 0 -/
def c14Ops : List Op :=
  [.addNode { name := "a", asset := some "h" } none, .addNode { name := "b", asset := some "h", tags := ["t"] } none,
   .addNode { name := "c", asset := some "h", type := .and, extras := "{\"k\": 1}" } none,
   .link 0 1, .link 1 0, .link 2 2, .link 0 2, .addAttacker "eve" (some 0) [0] [0, 1],
   .setLabels [(2, false, true)]]
def c14G : St := c14Ops.foldl applyOp {}
/-- operations on the copy of `c14G` (its nodes are the objects 3, 4, 5, its attacker is the object 1) -/
def c14CopyOps : List Op :=
  [.removeNode 4, .compromise 1 5, .addNode { name := "d", asset := some "h" } none, .link 6 3,
   .setLabels [(3, false, false)], .prune, .removeAttacker 1]
/-- operations on `c14G` itself after it was copied -/
def c14OrigOps : List Op :=
  [.removeNode 1, .compromise 0 2, .addNode { name := "d", asset := some "h" } none, .link 6 0,
   .attach [("mallory", ["h:c"])], .setLabels [(0, false, false)], .prune]
end Demo

end MalVerif.AGS
