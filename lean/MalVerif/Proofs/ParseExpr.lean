import MalVerif.Proofs.ParseLemmas
/-!
# Step expressions: parsing the printed form gives the expression back

`cls reach d e`: the names of `e` are classified as the compiler classifies them when `e` is followed by a token
sequence `rest` with `dotAhead rest = d` (`reach` = inside a reaches clause): a name is the attack step iff no DOT
follows before the next COMMA / end of the clause.

The induction over the tree proves, per node, four statements (`AtomOK`, `PartOK`, `PartsOK`, `ExprOK`); the two
loop statements are *exact in the fuel* (`parseParts f (print e ++ rest) = parsePartsLoop (f - nparts e) e rest`),
which lets the induction pass through left-nested chains without fuel monotonicity.
-/
namespace MalVerif.Mal
open MalVerif (Expr)

/-! ### shapes -/

def isSetE : Expr → Bool
  | .union _ _ => true | .inter _ _ => true | .diff _ _ => true | _ => false
def isCollectE : Expr → Bool
  | .collect _ _ => true | _ => false
def isLeafE : Expr → Bool
  | .step _ => true | .field _ => true | .var _ => true | _ => false

/-- does the printed expression contain a DOT -/
def hasDot : Expr → Bool
  | .collect _ _ => true
  | .union l r => hasDot l || hasDot r
  | .inter l r => hasDot l || hasDot r
  | .diff l r => hasDot l || hasDot r
  | .trans e => hasDot e
  | .sub _ e => hasDot e
  | _ => false

/-- the classification of names the compiler arrives at when a DOT follows the expression (`d`) or not -/
def cls (reach : Bool) : Bool → Expr → Bool
  | d, .step _ => reach && !d
  | d, .field _ => !(reach && !d)
  | _, .var _ => true
  | d, .collect l r => cls reach true l && cls reach d r
  | d, .union l r => cls reach (hasDot r || d) l && cls reach d r
  | d, .inter l r => cls reach (hasDot r || d) l && cls reach d r
  | d, .diff l r => cls reach (hasDot r || d) l && cls reach d r
  | d, .trans e => cls reach d e
  | d, .sub _ e => cls reach d e

/-- number of parts of the top-level chain -/
def nparts : Expr → Nat
  | .collect l _ => nparts l + 1
  | _ => 1
/-- number of operands of the top-level set expression -/
def nops : Expr → Nat
  | .union l _ => nops l + 1
  | .inter l _ => nops l + 1
  | .diff l _ => nops l + 1
  | _ => 1

abbrev pr0 (e : Expr) : List Tok := prExpr 0 false e
abbrev prP (e : Expr) : List Tok := prExpr 2 false e
abbrev pr3 (e : Expr) : List Tok := prExpr 3 false e

/-- the operand of `*`: a name, a variable call, or parenthesised -/
def prAtom (e : Expr) : List Tok := if isLeafE e then pr0 e else .lparen :: (pr0 e ++ [.rparen])

def typeToks : List String → List Tok
  | [] => []
  | t :: ts => .lsquare :: .id t :: .rsquare :: typeToks ts
def applyTypes : List String → Expr → Expr
  | [], e => e
  | t :: ts, e => applyTypes ts (.sub t e)

/-! ### the printer at its levels -/

theorem prExpr_1f (e : Expr) : prExpr 1 false e = pr0 e := by cases e <;> simp [pr0, prExpr]
theorem prExpr_1t (e : Expr) : prExpr 1 true e = prP e := by cases e <;> simp [prP, prExpr]
theorem prExpr_2t (e : Expr) : prExpr 2 true e = pr3 e := by cases e <;> simp [pr3, prExpr]

theorem pr0_collect (l r : Expr) : pr0 (.collect l r) = prP l ++ .dot :: pr3 r := by
  simp [pr0, prExpr, parenT, prExpr_2t]
theorem prP_collect (l r : Expr) : prP (.collect l r) = prP l ++ .dot :: pr3 r := by
  simp [prP, prExpr, parenT, prExpr_2t]

theorem prP_of_not_collect (e : Expr) (h : isCollectE e = false) : prP e = pr3 e := by
  cases e <;> simp_all [prP, pr3, prExpr, isCollectE]
theorem pr0_of_not_set (e : Expr) (h : isSetE e = false) : pr0 e = prP e := by
  cases e <;> simp_all [prP, pr0, prExpr, isSetE]

theorem pr3_of_plain (e : Expr) (h : isSuffixed e = false) : pr3 e = prAtom e := by
  cases e <;> simp_all [pr3, pr0, prAtom, prExpr, isSuffixed, isLeafE, parenT]
theorem pr3_trans (e : Expr) : pr3 (.trans e) = prAtom e ++ [.star] := by
  cases e <;> simp [pr3, pr0, prAtom, prExpr, isSuffixed, isLeafE, parenT]
theorem pr3_sub (t : String) (e : Expr) : pr3 (.sub t e) = pr3 e ++ [.lsquare, .id t, .rsquare] := by
  simp [pr3, prExpr]

/-- the three set operators: token, constructor, and how the printer treats the node -/
structure IsSetOp (t : Tok) (op : Expr → Expr → Expr) : Prop where
  tok : setOp t = some op
  pr0 : ∀ l r, pr0 (op l r) = pr0 l ++ t :: prP r
  isSet : ∀ l r, isSetE (op l r) = true
  nops : ∀ l r, nops (op l r) = nops l + 1
  cls : ∀ reach d l r, cls reach d (op l r) = (cls reach (hasDot r || d) l && cls reach d r)

theorem isSetOp_union : IsSetOp .union .union :=
  ⟨rfl, by intro l r; simp [pr0, prExpr, parenT, prExpr_1f, prExpr_1t], fun _ _ => rfl, fun _ _ => rfl,
   fun _ _ _ _ => rfl⟩
theorem isSetOp_inter : IsSetOp .intersect .inter :=
  ⟨rfl, by intro l r; simp [pr0, prExpr, parenT, prExpr_1f, prExpr_1t], fun _ _ => rfl, fun _ _ => rfl,
   fun _ _ _ _ => rfl⟩
theorem isSetOp_diff : IsSetOp .minus .diff :=
  ⟨rfl, by intro l r; simp [pr0, prExpr, parenT, prExpr_1f, prExpr_1t], fun _ _ => rfl, fun _ _ => rfl,
   fun _ _ _ _ => rfl⟩

theorem prExpr_ne_nil (c : Nat) (r : Bool) (e : Expr) : 1 ≤ (prExpr c r e).length := by
  cases e <;> simp [prExpr, parenT] <;> split <;> simp <;> omega

/-! ### `dotAhead` over printed expressions -/

theorem dotAhead_dot (ts : List Tok) : dotAhead (.dot :: ts) = true := by simp [dotAhead]
theorem dotAhead_skip (t : Tok) (ts : List Tok) (h1 : t ≠ .dot) (h2 : t ≠ .comma) (h3 : endsClause t = false) :
    dotAhead (t :: ts) = dotAhead ts := by
  cases t <;> simp_all [dotAhead, endsClause]

theorem dotAhead_prExpr (c : Nat) (r : Bool) (e : Expr) (rest : List Tok) :
    dotAhead (prExpr c r e ++ rest) = (hasDot e || dotAhead rest) := by
  induction e generalizing c r rest with
  | step n => simp [prExpr, dotAhead, endsClause, hasDot]
  | field n => simp [prExpr, dotAhead, endsClause, hasDot]
  | var n => simp [prExpr, dotAhead, endsClause, hasDot]
  | collect l r' ihl ihr =>
    simp only [prExpr, parenT, hasDot]
    split <;> simp [dotAhead, endsClause, ihl]
  | union l r' ihl ihr =>
    simp only [prExpr, parenT, hasDot]
    split <;> simp [dotAhead, endsClause, ihl, ihr, Bool.or_assoc]
  | inter l r' ihl ihr =>
    simp only [prExpr, parenT, hasDot]
    split <;> simp [dotAhead, endsClause, ihl, ihr, Bool.or_assoc]
  | diff l r' ihl ihr =>
    simp only [prExpr, parenT, hasDot]
    split <;> simp [dotAhead, endsClause, ihl, ihr, Bool.or_assoc]
  | trans e ih =>
    simp only [prExpr, parenT, hasDot]
    split <;> simp [dotAhead, endsClause, ih]
  | sub t e ih =>
    simp [prExpr, hasDot, dotAhead, endsClause, ih]

theorem dotAhead_typeToks (tys : List String) (rest : List Tok) : dotAhead (typeToks tys ++ rest) = dotAhead rest := by
  induction tys with
  | nil => rfl
  | cons t tys ih => simp [typeToks, dotAhead, endsClause, ih]

/-! ### what may follow -/

def headP (p : Tok → Bool) : List Tok → Bool
  | [] => false
  | t :: _ => p t

/-- tokens that would continue a part: `*`, `[`, and `(` (after a name: a variable call) -/
def contPart : Tok → Bool
  | .star => true | .lsquare => true | .lparen => true | _ => false
/-- … a chain of parts -/
def contParts : Tok → Bool
  | .dot => true | t => contPart t
/-- … an expression -/
def contExpr : Tok → Bool
  | .union => true | .intersect => true | .minus => true | t => contParts t

theorem headP_append_cons (p : Tok → Bool) (a : List Tok) (t : Tok) (b : List Tok) :
    headP p (a ++ t :: b) = headP p (a ++ [t]) := by
  cases a <;> simp [headP]

/-! ### suffixes -/

theorem parseTypes_typeToks (f : Nat) (e : Expr) (tys : List String) (rest : List Tok) (hf : tys.length ≤ f)
    (hr : headP contPart rest = false) : parseTypes f e (typeToks tys ++ rest) = (applyTypes tys e, rest) := by
  induction tys generalizing f e with
  | nil =>
    cases f with
    | zero => rfl
    | succ f =>
      unfold parseTypes
      split
      · simp [typeToks] at *
        rename_i h; subst h; simp [headP, contPart] at hr
      · rfl
  | cons t tys ih =>
    cases f with
    | zero => simp at hf
    | succ f =>
      unfold parseTypes
      simp only [typeToks, List.cons_append]
      exact ih f _ (by simpa using hf)

theorem parseSuffix_typeToks (f : Nat) (e : Expr) (tys : List String) (rest : List Tok) (hf : tys.length ≤ f)
    (hr : headP contPart rest = false) : parseSuffix f e (typeToks tys ++ rest) = (applyTypes tys e, rest) := by
  unfold parseSuffix
  split
  · rename_i r h
    cases tys with
    | nil => simp [typeToks] at h; subst h; simp [headP, contPart] at hr
    | cons t tys => simp [typeToks] at h
  · exact parseTypes_typeToks f e tys rest hf hr

theorem parseSuffix_star (f : Nat) (e : Expr) (tys : List String) (rest : List Tok) (hf : tys.length ≤ f)
    (hr : headP contPart rest = false) :
    parseSuffix f e (.star :: (typeToks tys ++ rest)) = (applyTypes tys (.trans e), rest) := by
  unfold parseSuffix
  exact parseTypes_typeToks f _ tys rest hf hr

theorem typeToks_length (tys : List String) : (typeToks tys).length = 3 * tys.length := by
  induction tys with
  | nil => rfl
  | cons t tys ih => simp [typeToks, ih]; omega

/-! ### the four statements -/

def AtomOK (e : Expr) : Prop :=
  ∀ f reach rest, cls reach (dotAhead rest) e = true → headP (· == .lparen) rest = false →
    2 * (prAtom e).length ≤ f + 3 → parseAtom f reach (prAtom e ++ rest) = some (e, rest)

def PartOK (e : Expr) : Prop :=
  ∀ f reach tys rest, cls reach (dotAhead rest) e = true → headP contPart rest = false →
    2 * ((pr3 e).length + (typeToks tys).length) ≤ f + 1 →
    parsePart f reach (pr3 e ++ (typeToks tys ++ rest)) = some (applyTypes tys e, rest)

def PartsOK (e : Expr) : Prop :=
  ∀ f reach rest, cls reach (dotAhead rest) e = true → headP contPart rest = false →
    2 * (prP e).length ≤ f →
    parseParts f reach (prP e ++ rest) = parsePartsLoop (f - nparts e) reach e rest

def ExprOK (e : Expr) : Prop :=
  ∀ f reach rest, cls reach (dotAhead rest) e = true → headP contParts rest = false →
    2 * (pr0 e).length + 1 ≤ f →
    parseExpr f reach (pr0 e ++ rest) = parseExprLoop (f - nops e) reach e rest

theorem nparts_pos (e : Expr) : 1 ≤ nparts e := by cases e <;> simp [nparts]
theorem nops_pos (e : Expr) : 1 ≤ nops e := by cases e <;> simp [nops]

theorem nparts_le (e : Expr) : nparts e ≤ (prP e).length := by
  induction e with
  | collect l r ihl _ => rw [prP_collect]; simp [nparts]; omega
  | _ => exact prExpr_ne_nil _ _ _

theorem nops_le (e : Expr) : nops e ≤ (pr0 e).length := by
  induction e with
  | union l r ihl _ => rw [isSetOp_union.pr0]; simp [nops]; omega
  | inter l r ihl _ => rw [isSetOp_inter.pr0]; simp [nops]; omega
  | diff l r ihl _ => rw [isSetOp_diff.pr0]; simp [nops]; omega
  | _ => exact prExpr_ne_nil _ _ _

/-! ### node lemmas -/

theorem parseAtom_id (f : Nat) (reach : Bool) (n : String) (rest : List Tok)
    (hl : headP (· == .lparen) rest = false) :
    parseAtom f reach (.id n :: rest) = some (if reach && !dotAhead rest then .step n else .field n, rest) := by
  unfold parseAtom
  split
  · rename_i h; simp at h
  · rename_i h; simp at h; obtain ⟨_, rfl⟩ := h; simp [headP] at hl
  · rename_i h; simp at h; obtain ⟨rfl, rfl⟩ := h; rfl
  · rename_i h; exact absurd rfl (h _ _)

theorem atomOK_step (n : String) : AtomOK (.step n) := by
  intro f reach rest hc hl _
  simp only [prAtom, isLeafE, pr0, prExpr, if_true, List.cons_append, List.nil_append]
  rw [parseAtom_id _ _ _ _ hl]
  simp only [cls] at hc
  simp [hc]

theorem atomOK_field (n : String) : AtomOK (.field n) := by
  intro f reach rest hc hl _
  simp only [prAtom, isLeafE, pr0, prExpr, if_true, List.cons_append, List.nil_append]
  rw [parseAtom_id _ _ _ _ hl]
  cases reach <;> cases h : dotAhead rest <;> simp_all [cls]

theorem atomOK_var (n : String) : AtomOK (.var n) := by
  intro f reach rest hc hl _
  simp only [prAtom, isLeafE, pr0, prExpr, if_true, List.cons_append, List.nil_append]
  rfl

theorem parseExprLoop_done (f : Nat) (reach : Bool) (e : Expr) (rest : List Tok) (hf : 1 ≤ f)
    (hr : headP contExpr rest = false) : parseExprLoop f reach e rest = some (e, rest) := by
  obtain ⟨f, rfl⟩ : ∃ g, f = g + 1 := ⟨f - 1, by omega⟩
  apply parseExprLoop_stop
  intro t r h; subst h
  cases t <;> simp_all [headP, contExpr, setOp]

theorem parsePartsLoop_done (f : Nat) (reach : Bool) (e : Expr) (rest : List Tok) (hf : 1 ≤ f)
    (hr : headP contParts rest = false) : parsePartsLoop f reach e rest = some (e, rest) := by
  obtain ⟨f, rfl⟩ : ∃ g, f = g + 1 := ⟨f - 1, by omega⟩
  apply parsePartsLoop_stop
  intro r h; subst h
  simp [headP, contParts] at hr

theorem parseAtom_lparen (f : Nat) (reach : Bool) (ts : List Tok) :
    parseAtom f reach (.lparen :: ts) =
      (match parseExpr f reach ts with
       | some (e, .rparen :: rest') => some (e, rest')
       | _ => none) := rfl

theorem atomOK_of_exprOK (e : Expr) (hE : ExprOK e) (hl : isLeafE e = false) : AtomOK e := by
  intro f reach rest hc _ hf
  have hlen : (prAtom e).length = (pr0 e).length + 2 := by simp [prAtom, hl]
  simp only [prAtom, hl, Bool.false_eq_true, if_false, List.cons_append, List.append_assoc, List.nil_append]
  rw [parseAtom_lparen]
  have hn := nops_le e
  have hc' : cls reach (dotAhead (.rparen :: rest)) e = true := by
    rw [dotAhead_skip _ _ (by simp) (by simp) rfl]; exact hc
  rw [hE f reach (.rparen :: rest) hc' rfl (by omega),
    parseExprLoop_done _ _ _ _ (by have := nops_pos e; omega) rfl]


theorem prAtom_ne_nil (e : Expr) : 1 ≤ (prAtom e).length := by
  unfold prAtom; split
  · exact prExpr_ne_nil _ _ _
  · simp

theorem headP_lparen_of_contPart (rest : List Tok) (h : headP contPart rest = false) :
    headP (· == .lparen) rest = false := by
  cases rest with
  | nil => rfl
  | cons t r => cases t <;> simp_all [headP, contPart]

theorem headP_contPart_of_contParts (rest : List Tok) (h : headP contParts rest = false) :
    headP contPart rest = false := by
  cases rest with
  | nil => rfl
  | cons t r => cases t <;> simp_all [headP, contPart, contParts]

theorem headP_contParts_of_contExpr (rest : List Tok) (h : headP contExpr rest = false) :
    headP contParts rest = false := by
  cases rest with
  | nil => rfl
  | cons t r => cases t <;> simp_all [headP, contExpr, contParts]

theorem headP_lparen_typeToks (tys : List String) (rest : List Tok) (h : headP contPart rest = false) :
    headP (· == .lparen) (typeToks tys ++ rest) = false := by
  cases tys with
  | nil => exact headP_lparen_of_contPart rest h
  | cons t tys => simp [typeToks, headP]

theorem partOK_of_atomOK (e : Expr) (hA : AtomOK e) (hs : isSuffixed e = false) : PartOK e := by
  intro f reach tys rest hc hr hf
  rw [pr3_of_plain e hs] at hf ⊢
  have h1 := prAtom_ne_nil e
  have h2 := typeToks_length tys
  obtain ⟨f, rfl⟩ : ∃ g, f = g + 1 := ⟨f - 1, by omega⟩
  rw [parsePart_succ, hA f reach (typeToks tys ++ rest) (by rw [dotAhead_typeToks]; exact hc)
    (headP_lparen_typeToks tys rest hr) (by omega)]
  simp only [Option.map_some]
  rw [parseSuffix_typeToks _ _ _ _ (by omega) hr]

theorem partOK_trans (c : Expr) (hA : AtomOK c) : PartOK (.trans c) := by
  intro f reach tys rest hc hr hf
  rw [pr3_trans] at hf ⊢
  have h1 := prAtom_ne_nil c
  have h2 := typeToks_length tys
  simp only [List.length_append, List.length_cons, List.length_nil] at hf
  obtain ⟨f, rfl⟩ : ∃ g, f = g + 1 := ⟨f - 1, by omega⟩
  simp only [List.append_assoc, List.cons_append, List.nil_append]
  rw [parsePart_succ, hA f reach (.star :: (typeToks tys ++ rest))
    (by rw [dotAhead_skip _ _ (by simp) (by simp) rfl, dotAhead_typeToks]; exact hc) rfl (by omega)]
  simp only [Option.map_some]
  rw [parseSuffix_star _ _ _ _ (by omega) hr]

theorem partOK_sub (t : String) (e : Expr) (hP : PartOK e) : PartOK (.sub t e) := by
  intro f reach tys rest hc hr hf
  rw [pr3_sub] at hf ⊢
  have := hP f reach (t :: tys) rest hc hr (by simp [typeToks] at hf ⊢; omega)
  simpa [typeToks, applyTypes] using this

theorem nparts_of_not_collect (e : Expr) (h : isCollectE e = false) : nparts e = 1 := by
  cases e <;> simp_all [nparts, isCollectE]
theorem nops_of_not_set (e : Expr) (h : isSetE e = false) : nops e = 1 := by
  cases e <;> simp_all [nops, isSetE]

theorem partsOK_of_partOK (e : Expr) (hP : PartOK e) (hc : isCollectE e = false) : PartsOK e := by
  intro f reach rest hcl hr hf
  rw [prP_of_not_collect e hc] at hf ⊢
  have h1 : 1 ≤ (pr3 e).length := prExpr_ne_nil 3 false e
  obtain ⟨f, rfl⟩ : ∃ g, f = g + 1 := ⟨f - 1, by omega⟩
  have := hP f reach [] rest hcl hr (by simp [typeToks]; omega)
  simp only [typeToks, List.nil_append, applyTypes] at this
  rw [parseParts_succ, this, nparts_of_not_collect e hc]
  simp

theorem partsOK_collect (l r : Expr) (hL : PartsOK l) (hR : PartOK r) : PartsOK (.collect l r) := by
  intro f reach rest hc hr hf
  rw [prP_collect] at hf ⊢
  simp only [cls, Bool.and_eq_true] at hc
  simp only [List.length_append, List.length_cons] at hf
  have h1 := nparts_le l
  have h2 : 1 ≤ (pr3 r).length := prExpr_ne_nil 3 false r
  simp only [List.append_assoc, List.cons_append]
  rw [hL f reach (.dot :: (pr3 r ++ rest)) (by rw [dotAhead_dot]; exact hc.1) rfl (by omega)]
  obtain ⟨k, hk⟩ : ∃ k, f - nparts l = k + 1 := ⟨f - nparts l - 1, by omega⟩
  have := hR k reach [] rest hc.2 hr (by simp [typeToks]; omega)
  simp only [typeToks, List.nil_append, applyTypes] at this
  rw [hk, parsePartsLoop_dot, this]
  simp only [Option.bind_some, nparts]
  congr 1; omega

theorem exprOK_of_partsOK (e : Expr) (hPs : PartsOK e) (hs : isSetE e = false) : ExprOK e := by
  intro f reach rest hc hr hf
  rw [pr0_of_not_set e hs] at hf ⊢
  have h1 := nparts_le e
  have h2 := nparts_pos e
  obtain ⟨f, rfl⟩ : ∃ g, f = g + 1 := ⟨f - 1, by omega⟩
  rw [parseExpr_succ, hPs f reach rest hc (headP_contPart_of_contParts rest hr) (by omega),
    parsePartsLoop_done _ _ _ _ (by omega) hr, nops_of_not_set e hs]
  simp

theorem setOp_tok_skip {t : Tok} {op : Expr → Expr → Expr} (h : setOp t = some op) (ts : List Tok) :
    dotAhead (t :: ts) = dotAhead ts ∧ headP contParts (t :: ts) = false := by
  cases t <;> simp [setOp] at h <;> simp [dotAhead, endsClause, headP, contParts, contPart]

theorem exprOK_setop {t : Tok} {op : Expr → Expr → Expr} (h : IsSetOp t op) (l r : Expr)
    (hL : ExprOK l) (hR : PartsOK r) : ExprOK (op l r) := by
  intro f reach rest hc hr hf
  rw [h.pr0] at hf ⊢
  rw [h.cls] at hc
  simp only [Bool.and_eq_true] at hc
  simp only [List.length_append, List.length_cons] at hf
  have h1 := nops_le l
  have h2 := nparts_le r
  have h3 := nparts_pos r
  simp only [List.append_assoc, List.cons_append]
  rw [hL f reach (t :: (prP r ++ rest))
    (by rw [(setOp_tok_skip h.tok _).1, dotAhead_prExpr]; exact hc.1) (setOp_tok_skip h.tok _).2 (by omega)]
  obtain ⟨k, hk⟩ : ∃ k, f - nops l = k + 1 := ⟨f - nops l - 1, by omega⟩
  rw [hk, parseExprLoop_op _ _ _ _ _ _ h.tok,
    hR k reach rest hc.2 (headP_contPart_of_contParts rest hr) (by omega),
    parsePartsLoop_done _ _ _ _ (by omega) hr]
  simp only [Option.bind_some, h.nops]
  congr 1; omega

/-! ### the induction -/

theorem expr_all (e : Expr) : AtomOK e ∧ PartOK e ∧ PartsOK e ∧ ExprOK e := by
  induction e with
  | step n =>
    have A := atomOK_step n
    have P := partOK_of_atomOK _ A rfl
    have Ps := partsOK_of_partOK _ P rfl
    exact ⟨A, P, Ps, exprOK_of_partsOK _ Ps rfl⟩
  | field n =>
    have A := atomOK_field n
    have P := partOK_of_atomOK _ A rfl
    have Ps := partsOK_of_partOK _ P rfl
    exact ⟨A, P, Ps, exprOK_of_partsOK _ Ps rfl⟩
  | var n =>
    have A := atomOK_var n
    have P := partOK_of_atomOK _ A rfl
    have Ps := partsOK_of_partOK _ P rfl
    exact ⟨A, P, Ps, exprOK_of_partsOK _ Ps rfl⟩
  | collect l r ihl ihr =>
    have Ps := partsOK_collect l r ihl.2.2.1 ihr.2.1
    have E := exprOK_of_partsOK _ Ps rfl
    have A := atomOK_of_exprOK _ E rfl
    exact ⟨A, partOK_of_atomOK _ A rfl, Ps, E⟩
  | union l r ihl ihr =>
    have E := exprOK_setop isSetOp_union l r ihl.2.2.2 ihr.2.2.1
    have A := atomOK_of_exprOK _ E rfl
    have P := partOK_of_atomOK _ A rfl
    exact ⟨A, P, partsOK_of_partOK _ P rfl, E⟩
  | inter l r ihl ihr =>
    have E := exprOK_setop isSetOp_inter l r ihl.2.2.2 ihr.2.2.1
    have A := atomOK_of_exprOK _ E rfl
    have P := partOK_of_atomOK _ A rfl
    exact ⟨A, P, partsOK_of_partOK _ P rfl, E⟩
  | diff l r ihl ihr =>
    have E := exprOK_setop isSetOp_diff l r ihl.2.2.2 ihr.2.2.1
    have A := atomOK_of_exprOK _ E rfl
    have P := partOK_of_atomOK _ A rfl
    exact ⟨A, P, partsOK_of_partOK _ P rfl, E⟩
  | trans c ih =>
    have P := partOK_trans c ih.1
    have Ps := partsOK_of_partOK _ P rfl
    have E := exprOK_of_partsOK _ Ps rfl
    exact ⟨atomOK_of_exprOK _ E rfl, P, Ps, E⟩
  | sub t c ih =>
    have P := partOK_sub t c ih.2.1
    have Ps := partsOK_of_partOK _ P rfl
    have E := exprOK_of_partsOK _ Ps rfl
    exact ⟨atomOK_of_exprOK _ E rfl, P, Ps, E⟩

/-- the round trip for one expression: classification as the compiler makes it, nothing that would continue the
expression follows, and fuel twice the number of tokens -/
theorem parseExpr_prExpr (e : Expr) (f : Nat) (reach : Bool) (rest : List Tok)
    (hc : cls reach (dotAhead rest) e = true) (hr : headP contExpr rest = false)
    (hf : 2 * (pr0 e).length + 1 ≤ f) : parseExpr f reach (pr0 e ++ rest) = some (e, rest) := by
  have h1 := nops_le e
  rw [(expr_all e).2.2.2 f reach rest hc (headP_contParts_of_contExpr rest hr) hf,
    parseExprLoop_done _ _ _ _ (by omega) hr]

/-! ### re-classification: what the compiler makes of *any* printed expression -/

/-- rename the name leaves of `e` the way the compiler classifies them -/
def relabel (reach : Bool) : Bool → Expr → Expr
  | d, .step n => if reach && !d then .step n else .field n
  | d, .field n => if reach && !d then .step n else .field n
  | _, .var n => .var n
  | d, .collect l r => .collect (relabel reach true l) (relabel reach d r)
  | d, .union l r => .union (relabel reach (hasDot r || d) l) (relabel reach d r)
  | d, .inter l r => .inter (relabel reach (hasDot r || d) l) (relabel reach d r)
  | d, .diff l r => .diff (relabel reach (hasDot r || d) l) (relabel reach d r)
  | d, .trans e => .trans (relabel reach d e)
  | d, .sub t e => .sub t (relabel reach d e)

theorem hasDot_relabel (reach d : Bool) (e : Expr) : hasDot (relabel reach d e) = hasDot e := by
  induction e generalizing d with
  | step n => simp only [relabel]; split <;> rfl
  | field n => simp only [relabel]; split <;> rfl
  | var n => rfl
  | collect l r _ _ => rfl
  | union l r ihl ihr => simp [relabel, hasDot, ihl, ihr]
  | inter l r ihl ihr => simp [relabel, hasDot, ihl, ihr]
  | diff l r ihl ihr => simp [relabel, hasDot, ihl, ihr]
  | trans e ih => simp [relabel, hasDot, ih]
  | sub t e ih => simp [relabel, hasDot, ih]

theorem isSuffixed_relabel (reach d : Bool) (e : Expr) : isSuffixed (relabel reach d e) = isSuffixed e := by
  cases e <;> simp only [relabel] <;> (try split) <;> rfl

theorem prExpr_relabel (reach d : Bool) (c : Nat) (r : Bool) (e : Expr) :
    prExpr c r (relabel reach d e) = prExpr c r e := by
  induction e generalizing d c r with
  | step n => simp only [relabel]; split <;> rfl
  | field n => simp only [relabel]; split <;> rfl
  | var n => rfl
  | collect l r ihl ihr => simp [relabel, prExpr, ihl, ihr]
  | union l r ihl ihr => simp [relabel, prExpr, ihl, ihr]
  | inter l r ihl ihr => simp [relabel, prExpr, ihl, ihr]
  | diff l r ihl ihr => simp [relabel, prExpr, ihl, ihr]
  | trans e ih => simp [relabel, prExpr, ih, isSuffixed_relabel]
  | sub t e ih => simp [relabel, prExpr, ih]

theorem cls_relabel (reach d : Bool) (e : Expr) : cls reach d (relabel reach d e) = true := by
  induction e generalizing d with
  | step n => cases reach <;> cases d <;> simp [relabel, cls]
  | field n => cases reach <;> cases d <;> simp [relabel, cls]
  | var n => rfl
  | collect l r ihl ihr => simp [relabel, cls, ihl, ihr]
  | union l r ihl ihr => simp [relabel, cls, ihl, ihr, hasDot_relabel]
  | inter l r ihl ihr => simp [relabel, cls, ihl, ihr, hasDot_relabel]
  | diff l r ihl ihr => simp [relabel, cls, ihl, ihr, hasDot_relabel]
  | trans e ih => simp [relabel, cls, ih]
  | sub t e ih => simp [relabel, cls, ih]

theorem relabel_of_cls (reach d : Bool) (e : Expr) (h : cls reach d e = true) : relabel reach d e = e := by
  induction e generalizing d with
  | step n => simp_all [relabel, cls]
  | field n => cases reach <;> cases d <;> simp_all [relabel, cls]
  | var n => rfl
  | collect l r ihl ihr =>
    simp only [cls, Bool.and_eq_true] at h; simp only [relabel, ihl _ h.1, ihr _ h.2]
  | union l r ihl ihr =>
    simp only [cls, Bool.and_eq_true] at h; simp only [relabel, ihl _ h.1, ihr _ h.2]
  | inter l r ihl ihr =>
    simp only [cls, Bool.and_eq_true] at h; simp only [relabel, ihl _ h.1, ihr _ h.2]
  | diff l r ihl ihr =>
    simp only [cls, Bool.and_eq_true] at h; simp only [relabel, ihl _ h.1, ihr _ h.2]
  | trans e ih => simp only [cls] at h; simp only [relabel, ih _ h]
  | sub t e ih => simp only [cls] at h; simp only [relabel, ih _ h]

theorem cls_iff_relabel (reach d : Bool) (e : Expr) : cls reach d e = true ↔ relabel reach d e = e :=
  ⟨relabel_of_cls reach d e, fun h => by rw [← h]; exact cls_relabel reach d e⟩

/-- compiling the printed form of *any* expression gives the expression with its names re-classified -/
theorem parseExpr_prExpr_any (e : Expr) (f : Nat) (reach : Bool) (rest : List Tok)
    (hr : headP contExpr rest = false) (hf : 2 * (pr0 e).length + 1 ≤ f) :
    parseExpr f reach (pr0 e ++ rest) = some (relabel reach (dotAhead rest) e, rest) := by
  have := parseExpr_prExpr (relabel reach (dotAhead rest) e) f reach rest (cls_relabel _ _ _) hr
    (by simp only [pr0, prExpr_relabel]; exact hf)
  simpa only [pr0, prExpr_relabel] using this

/-! ### navigation expressions, reaches expressions -/

/-- no attack-step leaf -/
def noStep : Expr → Bool
  | .step _ => false
  | .field _ => true
  | .var _ => true
  | .collect l r => noStep l && noStep r
  | .union l r => noStep l && noStep r
  | .inter l r => noStep l && noStep r
  | .diff l r => noStep l && noStep r
  | .trans e => noStep e
  | .sub _ e => noStep e

theorem cls_false_of_noStep (d : Bool) (e : Expr) (h : noStep e = true) : cls false d e = true := by
  induction e generalizing d with
  | step n => simp [noStep] at h
  | field n => rfl
  | var n => rfl
  | collect l r ihl ihr =>
    simp only [noStep, Bool.and_eq_true] at h; simp only [cls, ihl _ h.1, ihr _ h.2, Bool.and_self]
  | union l r ihl ihr =>
    simp only [noStep, Bool.and_eq_true] at h; simp only [cls, ihl _ h.1, ihr _ h.2, Bool.and_self]
  | inter l r ihl ihr =>
    simp only [noStep, Bool.and_eq_true] at h; simp only [cls, ihl _ h.1, ihr _ h.2, Bool.and_self]
  | diff l r ihl ihr =>
    simp only [noStep, Bool.and_eq_true] at h; simp only [cls, ihl _ h.1, ihr _ h.2, Bool.and_self]
  | trans e ih => simp only [noStep] at h; simp only [cls, ih _ h]
  | sub t e ih => simp only [noStep] at h; simp only [cls, ih _ h]

theorem cls_dot_of_noStep (e : Expr) (h : noStep e = true) : cls true true e = true := by
  induction e <;> simp_all [cls, noStep]

theorem noStep_of_cls_false (d : Bool) (e : Expr) (h : cls false d e = true) : noStep e = true := by
  induction e generalizing d with
  | step n => simp [cls] at h
  | field n => rfl
  | var n => rfl
  | collect l r ihl ihr =>
    simp only [cls, Bool.and_eq_true] at h; simp only [noStep, ihl _ h.1, ihr _ h.2, Bool.and_self]
  | union l r ihl ihr =>
    simp only [cls, Bool.and_eq_true] at h; simp only [noStep, ihl _ h.1, ihr _ h.2, Bool.and_self]
  | inter l r ihl ihr =>
    simp only [cls, Bool.and_eq_true] at h; simp only [noStep, ihl _ h.1, ihr _ h.2, Bool.and_self]
  | diff l r ihl ihr =>
    simp only [cls, Bool.and_eq_true] at h; simp only [noStep, ihl _ h.1, ihr _ h.2, Bool.and_self]
  | trans e ih => simp only [cls] at h; simp only [noStep, ih _ h]
  | sub t e ih => simp only [cls] at h; simp only [noStep, ih _ h]

/-- navigation expressions (`let`, requires): no attack step -/
def WFExprNav (e : Expr) : Prop := noStep e = true

/-- what the printer of the harness emits in a reaches clause: an attack step, or a navigation followed by one -/
inductive WFExprReach : Expr → Prop
  | step (n : String) : WFExprReach (.step n)
  | nav (nav : Expr) (n : String) : WFExprNav nav → WFExprReach (.collect nav (.step n))

theorem cls_of_wfExprReach {e : Expr} (h : WFExprReach e) : cls true false e = true := by
  cases h with
  | step n => rfl
  | nav nav n hn =>
    have h1 := cls_dot_of_noStep nav hn
    simp [cls, h1]

theorem noStep_relabel_dot (e : Expr) : noStep (relabel true true e) = true := by
  induction e <;> simp_all [relabel, noStep]

/-! ### lists -/

/-- classification along a comma-separated list: every expression but the last is followed by a COMMA -/
def clsList (reach : Bool) (dLast : Bool) : List Expr → Bool
  | [] => true
  | [e] => cls reach dLast e
  | e :: es => cls reach false e && clsList reach dLast es

/-- tokens that would continue an expression list -/
def contList : Tok → Bool
  | .comma => true | t => contExpr t

theorem headP_contExpr_of_contList (rest : List Tok) (h : headP contList rest = false) :
    headP contExpr rest = false := by
  cases rest with
  | nil => rfl
  | cons t r => cases t <;> simp_all [headP, contExpr, contList]

theorem parseExprList_zero (reach : Bool) (ts : List Tok) : parseExprList 0 reach ts = none := by
  simp only [parseExprList]

theorem parseExprList_comma {f : Nat} {reach : Bool} {ts : List Tok} {e : Expr} {rest : List Tok}
    (h : parseExpr f reach ts = some (e, .comma :: rest)) :
    parseExprList (f+1) reach ts = (parseExprList f reach rest).map (fun r => (e :: r.1, r.2)) := by
  simp only [parseExprList, h]

theorem parseExprList_last {f : Nat} {reach : Bool} {ts : List Tok} {e : Expr} {rest : List Tok}
    (h : parseExpr f reach ts = some (e, rest)) (hr : ∀ r, rest ≠ .comma :: r) :
    parseExprList (f+1) reach ts = some ([e], rest) := by
  simp only [parseExprList, h]

theorem parseExprList_none {f : Nat} {reach : Bool} {ts : List Tok}
    (h : parseExpr f reach ts = none) : parseExprList (f+1) reach ts = none := by
  simp only [parseExprList, h]

theorem parseExprList_prExprList (es : List Expr) (hne : es ≠ []) (f : Nat) (reach : Bool) (rest : List Tok)
    (hc : clsList reach (dotAhead rest) es = true) (hr : headP contList rest = false)
    (hf : 2 * (prExprList es).length + 2 ≤ f) :
    parseExprList f reach (prExprList es ++ rest) = some (es, rest) := by
  induction es generalizing f with
  | nil => exact absurd rfl hne
  | cons e es ih =>
    have hlen : (pr0 e).length = (prExpr 0 false e).length := rfl
    obtain ⟨f, rfl⟩ : ∃ g, f = g + 1 := ⟨f - 1, by omega⟩
    cases es with
    | nil =>
      simp only [prExprList, clsList] at hc hf ⊢
      rw [parseExprList_last (parseExpr_prExpr e f reach rest hc (headP_contExpr_of_contList rest hr) (by omega))]
      intro r h; subst h; simp [headP, contList] at hr
    | cons e' es =>
      simp only [prExprList, clsList, Bool.and_eq_true, List.length_append, List.length_cons] at hc hf
      simp only [prExprList, List.append_assoc, List.cons_append]
      rw [parseExprList_comma (parseExpr_prExpr e f reach _ (by simpa [dotAhead] using hc.1) rfl (by omega)),
        ih (by simp) f hc.2 (by omega)]
      rfl

end MalVerif.Mal
