import MalVerif.Model.LangGraph
import MalVerif.Proofs.InheritHLemmas
import MalVerif.Proofs.EvalSem
import MalVerif.Proofs.GenLemmas
/-!
# Helper lemmas for C15 (the language graph)

* generic `Except` / `foldlM` plumbing (any error type),
* `RTC`, `Extends`, the ancestor walk `Lang.chain` and `Lang.isSub`,
* `declaredFor`, `assocNodes`, `assocsOf`, `lookupAssoc`, `fieldTarget`, `lca`,
* the link list of `links` / `generate`,
* static typing (`typeE`/`typeF`) against evaluation (`evalE`/`evalF`).
-/
namespace MalVerif.LG
open MalVerif

/-! ## `Except` plumbing for an arbitrary error type -/

theorem ebind_ok_iff {ε α β} (x : Except ε α) (f : α → Except ε β) (b : β) :
    (x >>= f) = .ok b ↔ ∃ a, x = .ok a ∧ f a = .ok b := by
  cases x with
  | error e => simp [bind, Except.bind]
  | ok a => simp [bind, Except.bind]

theorem ebind_error_iff {ε α β} (x : Except ε α) (f : α → Except ε β) (err : ε) :
    (x >>= f) = .error err ↔ x = .error err ∨ ∃ a, x = .ok a ∧ f a = .error err := by
  cases x with
  | error e => simp [bind, Except.bind]
  | ok a => simp [bind, Except.bind]

/-- an invariant of a monadic fold -/
theorem efoldlM_inv {ε α β} (step : β → α → Except ε β) (P : β → Prop) :
    ∀ xs : List α, (∀ x ∈ xs, ∀ acc acc', P acc → step acc x = .ok acc' → P acc') →
    ∀ acc res, P acc → xs.foldlM step acc = .ok res → P res := by
  intro xs
  induction xs with
  | nil => intro _ acc res hp h; simp only [List.foldlM_nil] at h; cases h; exact hp
  | cons x xs ih =>
    intro hstep acc res hp h
    rw [List.foldlM_cons] at h
    obtain ⟨acc1, h1, h⟩ := (ebind_ok_iff _ _ _).1 h
    exact ih (fun x' hx' => hstep x' (List.mem_cons_of_mem _ hx')) acc1 res
      (hstep x List.mem_cons_self acc acc1 hp h1) h

/-- membership in the result of a fold that only appends, under an invariant of the accumulator -/
theorem efoldlM_mem_inv {ε α β} (step : List β → α → Except ε (List β)) (P : List β → Prop)
    (Q : α → β → Prop) :
    ∀ xs : List α,
      (∀ x ∈ xs, ∀ acc acc', P acc → step acc x = .ok acc' →
        P acc' ∧ ∀ b, b ∈ acc' ↔ b ∈ acc ∨ Q x b) →
      ∀ acc res, P acc → xs.foldlM step acc = .ok res →
        P res ∧ ∀ b, b ∈ res ↔ b ∈ acc ∨ ∃ x ∈ xs, Q x b := by
  intro xs
  induction xs with
  | nil => intro _ acc res hp h; simp only [List.foldlM_nil] at h; cases h; simp [hp]
  | cons x xs ih =>
    intro hstep acc res hp h
    rw [List.foldlM_cons] at h
    obtain ⟨acc1, h1, h⟩ := (ebind_ok_iff _ _ _).1 h
    obtain ⟨hp1, hm1⟩ := hstep x List.mem_cons_self acc acc1 hp h1
    obtain ⟨hp2, hm2⟩ := ih (fun x' hx' => hstep x' (List.mem_cons_of_mem _ hx')) acc1 res hp1 h
    refine ⟨hp2, fun b => ?_⟩
    rw [hm2 b, hm1 b]
    simp only [List.mem_cons, exists_eq_or_imp, or_assoc]

theorem efoldlM_mem {ε α β} (step : List β → α → Except ε (List β)) (Q : α → β → Prop)
    (xs : List α)
    (hstep : ∀ x ∈ xs, ∀ acc acc', step acc x = .ok acc' → ∀ b, b ∈ acc' ↔ b ∈ acc ∨ Q x b)
    (acc res : List β) (h : xs.foldlM step acc = .ok res) :
    ∀ b, b ∈ res ↔ b ∈ acc ∨ ∃ x ∈ xs, Q x b :=
  (efoldlM_mem_inv step (fun _ => True) Q xs
    (fun x hx acc acc' _ hs => ⟨trivial, hstep x hx acc acc' hs⟩) acc res trivial h).2

/-- every step of a successful fold succeeded -/
theorem efoldlM_ok {ε α β} (step : β → α → Except ε β) :
    ∀ (xs : List α) acc res, xs.foldlM step acc = .ok res → ∀ x ∈ xs, ∃ a a', step a x = .ok a' := by
  intro xs
  induction xs with
  | nil => intro _ _ _ x hx; cases hx
  | cons x xs ih =>
    intro acc res h x' hx'
    rw [List.foldlM_cons] at h
    obtain ⟨acc1, h1, h⟩ := (ebind_ok_iff _ _ _).1 h
    rcases List.mem_cons.1 hx' with e | hx'
    · subst e; exact ⟨acc, acc1, h1⟩
    · exact ih acc1 res h x' hx'

/-- a step that fails for every accumulator makes the fold fail -/
theorem efoldlM_error_of_step {ε α β} (step : β → α → Except ε β) (xs : List α) (x : α) (hx : x ∈ xs)
    (hbad : ∀ acc, ∃ err, step acc x = .error err) (acc : β) : ∃ err, xs.foldlM step acc = .error err := by
  cases h : xs.foldlM step acc with
  | error err => exact ⟨err, rfl⟩
  | ok res =>
    obtain ⟨a, a', h'⟩ := efoldlM_ok step xs acc res h x hx
    obtain ⟨err, he⟩ := hbad a
    rw [he] at h'; cases h'

/-! ## reflexive-transitive closure, `extends` -/

/-- reflexive-transitive closure -/
inductive RTC {α} (R : α → α → Prop) : α → α → Prop where
  | refl {x} : RTC R x x
  | head {x y z} : R x y → RTC R y z → RTC R x z

theorem RTC.trans {α} {R : α → α → Prop} {x y z : α} (h1 : RTC R x y) (h2 : RTC R y z) : RTC R x z := by
  induction h1 with
  | refl => exact h2
  | head h _ ih => exact .head h (ih h2)

theorem RTC.single {α} {R : α → α → Prop} {x y : α} (h : R x y) : RTC R x y := .head h .refl

theorem RTC.tail {α} {R : α → α → Prop} {x y z : α} (h1 : RTC R x y) (h2 : R y z) : RTC R x z :=
  h1.trans (.single h2)

/-- `t extends u` in the specification -/
def Extends (L : Lang) (t u : String) : Prop := ∃ a, L.findAsset t = some a ∧ a.superAsset = some u

/-- the ancestor walk from every type ends before the fuel `|assets| + 1` runs out (no `extends` cycle) -/
def Acyclic (L : Lang) : Prop := ∀ t, L.chainOK (L.assets.length + 1) t = true

theorem findAsset_name {L : Lang} {t : String} {a : AssetDecl} (h : L.findAsset t = some a) : a.name = t := by
  have := List.find?_some h
  simpa using this

theorem findAsset_mem {L : Lang} {t : String} {a : AssetDecl} (h : L.findAsset t = some a) : a ∈ L.assets :=
  List.mem_of_find?_eq_some h

theorem findAsset_isSome_of_mem {L : Lang} {a : AssetDecl} (h : a ∈ L.assets) :
    (L.findAsset a.name).isSome = true := by
  unfold Lang.findAsset
  rw [List.find?_isSome]
  exact ⟨a, h, by simp⟩

theorem rtc_declared {L : Lang} {t u : String} (h : RTC (Extends L) t u) (hu : (L.findAsset u).isSome = true) :
    (L.findAsset t).isSome = true := by
  cases h with
  | refl => exact hu
  | head h _ => obtain ⟨a, ha, _⟩ := h; rw [ha]; rfl

/-- the walk with fuel `k`, when not cut by the fuel, visits exactly the declared ancestors -/
theorem chain_any_iff (L : Lang) (u : String) : ∀ (k : Nat) (t : String), L.chainOK k t = true →
    ((L.chain k t).any (·.name = u) = true ↔
      (L.findAsset t).isSome = true ∧ (L.findAsset u).isSome = true ∧ RTC (Extends L) t u) := by
  intro k
  induction k with
  | zero => intro t h; simp [Lang.chainOK] at h
  | succ k ih =>
    intro t hok
    simp only [Lang.chain, Lang.chainOK] at hok ⊢
    cases hfa : L.findAsset t with
    | none =>
      simp only [List.any_nil, Option.isSome_none]
      constructor
      · intro h; cases h
      · intro h; cases h.1
    | some a =>
      have hname := findAsset_name hfa
      simp only [hfa] at hok
      simp only [List.any_cons, Bool.or_eq_true, decide_eq_true_eq, Option.isSome_some, true_and]
      constructor
      · rintro (h | h)
        · rw [hname] at h; subst h
          exact ⟨by rw [hfa]; rfl, .refl⟩
        · cases hsa : a.superAsset with
          | none => rw [hsa] at h; simp at h
          | some s =>
            rw [hsa] at h hok
            simp only at h hok
            obtain ⟨_, hu, hr⟩ := (ih s hok).1 h
            exact ⟨hu, .head ⟨a, hfa, hsa⟩ hr⟩
      · rintro ⟨hu, hr⟩
        cases hr with
        | refl => left; exact hname
        | head h hr =>
          obtain ⟨a', ha', hsa⟩ := h
          rw [hfa] at ha'; cases ha'
          right
          rw [hsa] at hok ⊢
          simp only at hok ⊢
          exact (ih _ hok).2 ⟨rtc_declared hr hu, hu, hr⟩

/-- `is_subasset_of` is the reflexive-transitive closure of `extends` between declared assets -/
theorem isSub_iff (L : Lang) (t u : String) (hok : L.chainOK (L.assets.length + 1) t = true) :
    L.isSub t u = true ↔
      (L.findAsset t).isSome = true ∧ (L.findAsset u).isSome = true ∧ RTC (Extends L) t u :=
  chain_any_iff L u _ t hok

theorem isSub_iff_mem_supers (L : Lang) (t u : String) : L.isSub t u = true ↔ u ∈ supers L t := by
  unfold Lang.isSub supers
  simp only [List.any_eq_true, decide_eq_true_eq, List.mem_map]

theorem isSub_declared_left {L : Lang} {t u : String} (h : L.isSub t u = true) :
    (L.findAsset t).isSome = true := by
  unfold Lang.isSub at h
  rw [Lang.chain] at h
  cases hfa : L.findAsset t with
  | none => rw [hfa] at h; simp at h
  | some a => rfl

theorem isSub_refl (L : Lang) (t : String) (h : (L.findAsset t).isSome = true) : L.isSub t t = true := by
  unfold Lang.isSub
  rw [Lang.chain]
  cases hfa : L.findAsset t with
  | none => rw [hfa] at h; cases h
  | some a => simp [findAsset_name hfa]

theorem isSub_self_iff (L : Lang) (t : String) : L.isSub t t = true ↔ (L.findAsset t).isSome = true :=
  ⟨isSub_declared_left, isSub_refl L t⟩

/-- the walk from a super asset is not cut either -/
theorem chainOK_extends {L : Lang} {N : Nat} {t s : String} (hok : L.chainOK N t = true)
    (h : Extends L t s) : L.chainOK N s = true := by
  obtain ⟨a, ha, hsa⟩ := h
  cases N with
  | zero => simp [Lang.chainOK] at hok
  | succ k =>
    simp only [Lang.chainOK, ha, hsa] at hok
    exact (chain_fuel L k s hok (k+1) (Nat.le_succ k)).2

theorem chainOK_rtc {L : Lang} {N : Nat} {t u : String} (hok : L.chainOK N t = true)
    (h : RTC (Extends L) t u) : L.chainOK N u = true := by
  induction h with
  | refl => exact hok
  | head h _ ih => exact ih (chainOK_extends hok h)

theorem isSub_trans (L : Lang) (t u v : String) (hok : L.chainOK (L.assets.length + 1) t = true)
    (h1 : L.isSub t u = true) (h2 : L.isSub u v = true) : L.isSub t v = true := by
  obtain ⟨ht, _, r1⟩ := (isSub_iff L t u hok).1 h1
  obtain ⟨_, hv, r2⟩ := (isSub_iff L u v (chainOK_rtc hok r1)).1 h2
  exact (isSub_iff L t v hok).2 ⟨ht, hv, r1.trans r2⟩

theorem supersOk_iff (L : Lang) :
    supersOk L = true ↔ ∀ a ∈ L.assets, ∀ s, a.superAsset = some s → (L.findAsset s).isSome = true := by
  unfold supersOk
  rw [List.all_eq_true]
  constructor
  · intro h a ha s hs
    have := h a ha
    rw [hs] at this; exact this
  · intro h a ha
    cases hs : a.superAsset with
    | none => rfl
    | some s => exact h a ha s hs

/-- with every named super asset declared, ancestors of declared assets are declared -/
theorem rtc_declared_right {L : Lang} (hs : supersOk L = true) {t u : String} (h : RTC (Extends L) t u)
    (ht : (L.findAsset t).isSome = true) : (L.findAsset u).isSome = true := by
  induction h with
  | refl => exact ht
  | head h _ ih =>
    obtain ⟨a, ha, hsa⟩ := h
    exact ih ((supersOk_iff L).1 hs a (findAsset_mem ha) _ hsa)

/-! ## association nodes -/

/-- the (name, left asset, right asset) signatures of the declarations are pairwise distinct -/
def SigDistinct (L : Lang) : Prop :=
  ∀ d ∈ L.assocs, ∀ d' ∈ L.assocs, d.name = d'.name → d.leftAsset = d'.leftAsset →
    d.rightAsset = d'.rightAsset → d = d'

theorem mem_declaredFor (L : Lang) (t : String) (d : AssocDecl) :
    d ∈ declaredFor L t ↔ d ∈ L.assocs ∧ (L.isSub t d.leftAsset = true ∨ L.isSub t d.rightAsset = true) := by
  unfold declaredFor
  simp only [List.mem_flatMap, List.mem_reverse, List.mem_filter, Bool.or_eq_true, decide_eq_true_eq,
    isSub_iff_mem_supers]
  constructor
  · rintro ⟨u, hu, hd, h | h⟩
    · exact ⟨hd, Or.inl (h ▸ hu)⟩
    · exact ⟨hd, Or.inr (h ▸ hu)⟩
  · rintro ⟨hd, h | h⟩
    · exact ⟨_, h, hd, Or.inl rfl⟩
    · exact ⟨_, h, hd, Or.inr rfl⟩

/-- the inner step of `assocNodes` -/
def nodeStep (L : Lang) (acc : List AssocDecl) (d : AssocDecl) : Except Err (List AssocDecl) :=
  if (L.findAsset d.leftAsset).isNone || (L.findAsset d.rightAsset).isNone then .error .association
  else if acc.any (fun x => x.name = d.name && x.leftAsset = d.leftAsset && x.rightAsset = d.rightAsset) then .ok acc
  else .ok (acc ++ [d])

theorem assocNodes_eq (L : Lang) :
    assocNodes L = L.assets.foldlM (fun acc a => (declaredFor L a.name).foldlM (nodeStep L) acc) [] := rfl

theorem nodeStep_ok {L : Lang} {acc acc' : List AssocDecl} {d : AssocDecl} (h : nodeStep L acc d = .ok acc') :
    (L.findAsset d.leftAsset).isSome = true ∧ (L.findAsset d.rightAsset).isSome = true ∧
    ((∃ x ∈ acc, x.name = d.name ∧ x.leftAsset = d.leftAsset ∧ x.rightAsset = d.rightAsset) ∧ acc' = acc ∨
     (¬ ∃ x ∈ acc, x.name = d.name ∧ x.leftAsset = d.leftAsset ∧ x.rightAsset = d.rightAsset) ∧ acc' = acc ++ [d]) := by
  unfold nodeStep at h
  split at h
  · cases h
  · rename_i hdecl
    simp only [Bool.or_eq_true, Option.isNone_iff_eq_none, not_or] at hdecl
    refine ⟨Option.isSome_iff_ne_none.2 hdecl.1, Option.isSome_iff_ne_none.2 hdecl.2, ?_⟩
    split at h
    · rename_i hany
      cases h
      left
      simp only [List.any_eq_true, Bool.and_eq_true, decide_eq_true_eq] at hany
      obtain ⟨x, hx, ⟨h1, h2⟩, h3⟩ := hany
      exact ⟨⟨x, hx, h1, h2, h3⟩, rfl⟩
    · rename_i hany
      cases h
      right
      refine ⟨?_, rfl⟩
      rintro ⟨x, hx, h1, h2, h3⟩
      apply hany
      simp only [List.any_eq_true, Bool.and_eq_true, decide_eq_true_eq]
      exact ⟨x, hx, ⟨h1, h2⟩, h3⟩

/-- without any hypothesis on signatures: every node is a declaration of some declared asset or of
one of its ancestors -/
theorem assocNodes_sound (L : Lang) (nodes : List AssocDecl) (h : assocNodes L = .ok nodes) :
    ∀ d ∈ nodes, ∃ a ∈ L.assets, d ∈ declaredFor L a.name := by
  rw [assocNodes_eq] at h
  refine efoldlM_inv (fun acc (a : AssetDecl) => (declaredFor L a.name).foldlM (nodeStep L) acc)
    (fun acc => ∀ d ∈ acc, ∃ a ∈ L.assets, d ∈ declaredFor L a.name) L.assets ?_ [] nodes (by simp) h
  intro a ha acc acc' hp hs
  refine efoldlM_inv (nodeStep L)
    (fun acc => ∀ d ∈ acc, ∃ a ∈ L.assets, d ∈ declaredFor L a.name) (declaredFor L a.name) ?_ acc acc' hp hs
  intro d hd acc acc' hp hs
  obtain ⟨_, _, ⟨_, rfl⟩ | ⟨_, rfl⟩⟩ := nodeStep_ok hs
  · exact hp
  · intro b hb
    rcases List.mem_append.1 hb with hb | hb
    · exact hp b hb
    · rw [List.mem_singleton.1 hb]; exact ⟨a, ha, hd⟩

/-- when the nodes can be built, every declaration that mentions a declared asset or one of its
ancestors has two declared ends -/
theorem assocNodes_ends (L : Lang) (nodes : List AssocDecl) (h : assocNodes L = .ok nodes) :
    ∀ a ∈ L.assets, ∀ d ∈ declaredFor L a.name,
      (L.findAsset d.leftAsset).isSome = true ∧ (L.findAsset d.rightAsset).isSome = true := by
  intro a ha d hd
  rw [assocNodes_eq] at h
  obtain ⟨acc, acc', h1⟩ := efoldlM_ok _ L.assets [] nodes h a ha
  obtain ⟨acc2, acc2', h2⟩ := efoldlM_ok _ (declaredFor L a.name) acc acc' h1 d hd
  obtain ⟨k1, k2, _⟩ := nodeStep_ok h2
  exact ⟨k1, k2⟩

/-- with pairwise distinct signatures the nodes are exactly the declarations that mention a
declared asset or one of its ancestors -/
theorem mem_assocNodes (L : Lang) (nodes : List AssocDecl) (h : assocNodes L = .ok nodes)
    (hsig : SigDistinct L) (d : AssocDecl) :
    d ∈ nodes ↔ ∃ a ∈ L.assets, d ∈ declaredFor L a.name := by
  rw [assocNodes_eq] at h
  have key := efoldlM_mem_inv (fun acc (a : AssetDecl) => (declaredFor L a.name).foldlM (nodeStep L) acc)
    (fun acc => ∀ x ∈ acc, x ∈ L.assocs) (fun a b => b ∈ declaredFor L a.name)
    L.assets ?_ [] nodes (by simp) h
  · simpa using key.2 d
  intro a _ acc acc' hp hs
  have inner := efoldlM_mem_inv (nodeStep L) (fun acc => ∀ x ∈ acc, x ∈ L.assocs) (fun d b => b = d)
    (declaredFor L a.name) ?_ acc acc' hp hs
  · refine ⟨inner.1, fun b => ?_⟩
    rw [inner.2 b]
    constructor
    · rintro (h | ⟨d', hd', rfl⟩); exact Or.inl h; exact Or.inr hd'
    · rintro (h | h); exact Or.inl h; exact Or.inr ⟨b, h, rfl⟩
  intro d hd acc acc' hp hs
  have hdL := ((mem_declaredFor L _ _).1 hd).1
  obtain ⟨_, _, ⟨⟨x, hx, e1, e2, e3⟩, rfl⟩ | ⟨_, rfl⟩⟩ := nodeStep_ok hs
  · refine ⟨hp, fun b => ⟨Or.inl, ?_⟩⟩
    rintro (h | rfl)
    · exact h
    · rw [← hsig x (hp x hx) b hdL e1 e2 e3]; exact hx
  · refine ⟨?_, fun b => by simp⟩
    intro b hb
    rcases List.mem_append.1 hb with hb | hb
    · exact hp b hb
    · rw [List.mem_singleton.1 hb]; exact hdL

theorem mem_assocsOf (L : Lang) (nodes : List AssocDecl) (t : String) (d : AssocDecl) :
    d ∈ assocsOf L nodes t ↔ d ∈ nodes ∧ (L.isSub t d.leftAsset = true ∨ L.isSub t d.rightAsset = true) := by
  simp [assocsOf, List.mem_filter]

/-- an asset lists exactly the declarations in which it or an ancestor takes part -/
theorem mem_assocsOf_iff (L : Lang) (nodes : List AssocDecl) (h : assocNodes L = .ok nodes)
    (hsig : SigDistinct L) (t : String) (d : AssocDecl) :
    d ∈ assocsOf L nodes t ↔
      d ∈ L.assocs ∧ (L.isSub t d.leftAsset = true ∨ L.isSub t d.rightAsset = true) := by
  rw [mem_assocsOf, mem_assocNodes L nodes h hsig]
  constructor
  · rintro ⟨⟨a, _, hd⟩, hs⟩
    exact ⟨((mem_declaredFor L _ _).1 hd).1, hs⟩
  · rintro ⟨hd, hs⟩
    refine ⟨?_, hs⟩
    have ht : (L.findAsset t).isSome = true := by
      rcases hs with hs | hs <;> exact isSub_declared_left hs
    cases hfa : L.findAsset t with
    | none => rw [hfa] at ht; cases ht
    | some a =>
      refine ⟨a, findAsset_mem hfa, ?_⟩
      rw [findAsset_name hfa]
      exact (mem_declaredFor L _ _).2 ⟨hd, hs⟩

/-- without the hypothesis on signatures one inclusion remains -/
theorem mem_assocsOf_sound (L : Lang) (nodes : List AssocDecl) (h : assocNodes L = .ok nodes)
    (t : String) (d : AssocDecl) (hd : d ∈ assocsOf L nodes t) :
    d ∈ L.assocs ∧ (L.isSub t d.leftAsset = true ∨ L.isSub t d.rightAsset = true) := by
  obtain ⟨hn, hs⟩ := (mem_assocsOf L nodes t d).1 hd
  obtain ⟨a, _, hda⟩ := assocNodes_sound L nodes h d hn
  exact ⟨((mem_declaredFor L _ _).1 hda).1, hs⟩

/-- the ends of every node are declared assets -/
theorem nodes_ends_declared (L : Lang) (nodes : List AssocDecl) (h : assocNodes L = .ok nodes) :
    ∀ d ∈ nodes, (L.findAsset d.leftAsset).isSome = true ∧ (L.findAsset d.rightAsset).isSome = true := by
  intro d hd
  obtain ⟨a, ha, hda⟩ := assocNodes_sound L nodes h d hd
  exact assocNodes_ends L nodes h a ha d hda

/-! ## association lookup, field targets, closest common super asset -/

/-- the node `a` answers the query `(f1, f2, t1, t2)` in the orientation left = first -/
def MatchLR (L : Lang) (a : AssocDecl) (f1 f2 t1 t2 : String) : Prop :=
  a.leftField = f1 ∧ a.rightField = f2 ∧ L.isSub t1 a.leftAsset = true ∧ L.isSub t2 a.rightAsset = true

/-- the node answers the query in one of the two orientations -/
def Matches (L : Lang) (a : AssocDecl) (f1 f2 t1 t2 : String) : Prop :=
  MatchLR L a f1 f2 t1 t2 ∨ MatchLR L a f2 f1 t2 t1

theorem lookupPred_iff (L : Lang) (a : AssocDecl) (f1 f2 t1 t2 : String) :
    ((a.leftField = f1 && a.rightField = f2 && L.isSub t1 a.leftAsset && L.isSub t2 a.rightAsset) ||
     (a.leftField = f2 && a.rightField = f1 && L.isSub t2 a.leftAsset && L.isSub t1 a.rightAsset)) = true ↔
    Matches L a f1 f2 t1 t2 := by
  simp only [Matches, MatchLR, Bool.or_eq_true, Bool.and_eq_true, decide_eq_true_eq, and_assoc]

theorem lookupAssoc_ok {L : Lang} {nodes : List AssocDecl} {f1 f2 t1 t2 : String} {r : Option AssocDecl}
    (h : lookupAssoc L nodes f1 f2 t1 t2 = .ok r) :
    (L.findAsset t1).isSome = true ∧ (L.findAsset t2).isSome = true ∧
    r = nodes.find? (fun a =>
      (a.leftField = f1 && a.rightField = f2 && L.isSub t1 a.leftAsset && L.isSub t2 a.rightAsset) ||
      (a.leftField = f2 && a.rightField = f1 && L.isSub t2 a.leftAsset && L.isSub t1 a.rightAsset)) := by
  unfold lookupAssoc at h
  split at h
  · cases h
  · rename_i hd
    simp only [Bool.or_eq_true, Option.isNone_iff_eq_none, not_or] at hd
    cases h
    exact ⟨Option.isSome_iff_ne_none.2 hd.1, Option.isSome_iff_ne_none.2 hd.2, rfl⟩

theorem lookupAssoc_comm (L : Lang) (nodes : List AssocDecl) (f1 f2 t1 t2 : String) :
    lookupAssoc L nodes f2 f1 t2 t1 = lookupAssoc L nodes f1 f2 t1 t2 := by
  unfold lookupAssoc
  rw [Bool.or_comm]
  congr 3
  funext a
  rw [Bool.or_comm]

/-- the field `f` seen from the asset type `S` leads to the asset type `U` through the declaration `d` -/
def Provides (d : AssocDecl) (f S U : String) : Prop :=
  (d.rightField = f ∧ d.leftAsset = S ∧ d.rightAsset = U) ∨
  (d.leftField = f ∧ d.rightAsset = S ∧ d.leftAsset = U)

theorem fieldTarget_some {L : Lang} {nodes : List AssocDecl} {t f U : String}
    (h : fieldTarget L nodes t f = some U) :
    ∃ a ∈ nodes, ∃ S, Provides a f S U ∧ L.isSub t S = true := by
  unfold fieldTarget at h
  obtain ⟨a, ha, h⟩ := List.exists_of_findSome?_eq_some h
  refine ⟨a, ((mem_assocsOf L nodes t a).1 ha).1, ?_⟩
  simp only at h
  split at h
  · rename_i hc
    simp only [Bool.and_eq_true, decide_eq_true_eq] at hc
    cases h
    exact ⟨a.leftAsset, Or.inl ⟨hc.1, rfl, rfl⟩, hc.2⟩
  · split at h
    · rename_i hc
      simp only [Bool.and_eq_true, decide_eq_true_eq] at hc
      cases h
      exact ⟨a.rightAsset, Or.inr ⟨hc.1, rfl, rfl⟩, hc.2⟩
    · cases h

theorem fieldTarget_none_iff (L : Lang) (nodes : List AssocDecl) (t f : String) :
    fieldTarget L nodes t f = none ↔ ∀ a ∈ nodes, ∀ S U, Provides a f S U → L.isSub t S = false := by
  unfold fieldTarget
  rw [List.findSome?_eq_none_iff]
  constructor
  · intro h a ha S U hp
    cases hs : L.isSub t S with
    | false => rfl
    | true =>
      exfalso
      have hmem : a ∈ assocsOf L nodes t := by
        rw [mem_assocsOf]
        refine ⟨ha, ?_⟩
        rcases hp with ⟨_, e, _⟩ | ⟨_, e, _⟩
        · left; rw [e]; exact hs
        · right; rw [e]; exact hs
      have := h a hmem
      simp only at this
      rcases hp with ⟨e1, e2, _⟩ | ⟨e1, e2, _⟩
      · rw [if_pos (by simp [e1, e2, hs])] at this; cases this
      · split at this
        · cases this
        · rw [if_pos (by simp [e1, e2, hs])] at this; cases this
  · intro h a ha
    have han := ((mem_assocsOf L nodes t a).1 ha).1
    simp only
    have h1 := h a han a.leftAsset a.rightAsset
    have h2 := h a han a.rightAsset a.leftAsset
    split
    · rename_i hc
      simp only [Bool.and_eq_true, decide_eq_true_eq] at hc
      have := h1 (Or.inl ⟨hc.1, rfl, rfl⟩)
      rw [hc.2] at this; cases this
    · split
      · rename_i hc
        simp only [Bool.and_eq_true, decide_eq_true_eq] at hc
        have := h2 (Or.inr ⟨hc.1, rfl, rfl⟩)
        rw [hc.2] at this; cases this
      · rfl

/-- the closest common super asset is a super asset of both -/
theorem lca_some {L : Lang} {a b c : String} (h : lca L a b = some c) :
    L.isSub a c = true ∧ L.isSub b c = true := by
  unfold lca at h
  have h1 := List.mem_of_find?_eq_some h
  have h2 := List.find?_some h
  simp only [List.contains_iff_mem] at h2
  exact ⟨(isSub_iff_mem_supers L a c).2 h1, (isSub_iff_mem_supers L b c).2 h2⟩

/-! ## the link list -/

/-- the reaches expressions of a step -/
def reachExprs (d : StepDecl) : List Expr := match d.reaches with | some r => r.exprs | none => []

/-- the fuel `generate` passes to the static typing -/
def genFuel (L : Lang) : Nat := (L.assets.map (·.variables.length)).sum + 2

/-- the innermost step of `links` -/
def linkStep (L : Lang) (nodes : List AssocDecl) (fuel : Nat) (an sn : String) (acc : List Link) (e : Expr) :
    Except Err (List Link) := do
  match ← typeF L nodes fuel e an with
  | some (u, some n) =>
    if (L.foldSteps u).any (·.1 = n) then .ok (acc ++ [({ srcAsset := an, srcStep := sn, dstAsset := u, dstStep := n } : Link)])
    else .error .stepExpression
  | _ => .error .stepExpression

theorem links_eq (L : Lang) (nodes : List AssocDecl) (fuel : Nat) :
    links L nodes fuel = L.assets.foldlM (fun acc a =>
      (L.foldSteps a.name).foldlM (fun acc st =>
        (reachExprs st.2).foldlM (linkStep L nodes fuel a.name st.1) acc) acc) [] := rfl

theorem linkStep_ok {L : Lang} {nodes : List AssocDecl} {fuel : Nat} {an sn : String} {acc acc' : List Link}
    {e : Expr} (h : linkStep L nodes fuel an sn acc e = .ok acc') :
    ∃ u n, typeF L nodes fuel e an = .ok (some (u, some n)) ∧ (L.foldSteps u).any (·.1 = n) = true ∧
      acc' = acc ++ [({ srcAsset := an, srcStep := sn, dstAsset := u, dstStep := n } : Link)] := by
  unfold linkStep at h
  obtain ⟨x, hx, h⟩ := (ebind_ok_iff _ _ _).1 h
  split at h
  · rename_i u n
    split at h
    · rename_i hany
      cases h
      exact ⟨u, n, hx, hany, rfl⟩
    · cases h
  · cases h

/-- the link the expression `e` of step `sn` of asset `an` gives rise to -/
def LinkOf (L : Lang) (nodes : List AssocDecl) (fuel : Nat) (an sn : String) (e : Expr) (l : Link) : Prop :=
  ∃ u n, typeF L nodes fuel e an = .ok (some (u, some n)) ∧ (L.foldSteps u).any (·.1 = n) = true ∧
    l = { srcAsset := an, srcStep := sn, dstAsset := u, dstStep := n }

theorem mem_links (L : Lang) (nodes : List AssocDecl) (fuel : Nat) (ls : List Link)
    (h : links L nodes fuel = .ok ls) (l : Link) :
    l ∈ ls ↔ ∃ a ∈ L.assets, ∃ st ∈ L.foldSteps a.name, ∃ e ∈ reachExprs st.2,
      LinkOf L nodes fuel a.name st.1 e l := by
  rw [links_eq] at h
  have := efoldlM_mem _ (fun (a : AssetDecl) l => ∃ st ∈ L.foldSteps a.name, ∃ e ∈ reachExprs st.2,
      LinkOf L nodes fuel a.name st.1 e l) L.assets ?_ [] ls h l
  · simpa using this
  intro a _ acc acc' ha l
  refine efoldlM_mem _ (fun (st : String × StepDecl) l => ∃ e ∈ reachExprs st.2,
      LinkOf L nodes fuel a.name st.1 e l) (L.foldSteps a.name) ?_ acc acc' ha l
  intro st _ acc acc' hst l
  refine efoldlM_mem _ (fun e l => LinkOf L nodes fuel a.name st.1 e l) (reachExprs st.2) ?_ acc acc' hst l
  intro e _ acc acc' he l
  obtain ⟨u, n, h1, h2, rfl⟩ := linkStep_ok he
  simp only [List.mem_append, List.mem_singleton, LinkOf]
  constructor
  · rintro (h | h); exact Or.inl h; exact Or.inr ⟨u, n, h1, h2, h⟩
  · rintro (h | ⟨u', n', h1', _, h⟩); exact Or.inl h
    rw [h1] at h1'; cases h1'; exact Or.inr h

/-- when the link list can be built, every reaches expression of every step is typed with a target
asset and a step that the target asset has -/
theorem links_ok (L : Lang) (nodes : List AssocDecl) (fuel : Nat) (ls : List Link)
    (h : links L nodes fuel = .ok ls) :
    ∀ a ∈ L.assets, ∀ st ∈ L.foldSteps a.name, ∀ e ∈ reachExprs st.2,
      ∃ l ∈ ls, LinkOf L nodes fuel a.name st.1 e l := by
  intro a ha st hst e he
  have hl := h
  rw [links_eq] at h
  obtain ⟨a1, a1', h1⟩ := efoldlM_ok _ L.assets [] ls h a ha
  obtain ⟨a2, a2', h2⟩ := efoldlM_ok _ (L.foldSteps a.name) a1 a1' h1 st hst
  obtain ⟨a3, a3', h3⟩ := efoldlM_ok _ (reachExprs st.2) a2 a2' h2 e he
  obtain ⟨u, n, k1, k2, _⟩ := linkStep_ok h3
  have hlo : LinkOf L nodes fuel a.name st.1 e { srcAsset := a.name, srcStep := st.1, dstAsset := u, dstStep := n } :=
    ⟨u, n, k1, k2, rfl⟩
  exact ⟨_, (mem_links L nodes fuel ls hl _).2 ⟨a, ha, st, hst, e, he, hlo⟩, hlo⟩

/-- an expression that is not typed with a target asset and one of its steps makes `links` fail -/
theorem links_error (L : Lang) (nodes : List AssocDecl) (fuel : Nat)
    (a : AssetDecl) (ha : a ∈ L.assets) (st : String × StepDecl) (hst : st ∈ L.foldSteps a.name)
    (e : Expr) (he : e ∈ reachExprs st.2)
    (hbad : ∀ u n, typeF L nodes fuel e a.name = .ok (some (u, some n)) → (L.foldSteps u).any (·.1 = n) = false) :
    ∃ err, links L nodes fuel = .error err := by
  cases h : links L nodes fuel with
  | error err => exact ⟨err, rfl⟩
  | ok ls =>
    obtain ⟨l, _, u, n, h1, h2, _⟩ := links_ok L nodes fuel ls h a ha st hst e he
    rw [hbad u n h1] at h2; cases h2

/-! ## the two adjacency views of the link list -/

/-- the children of step `s` of asset type `a` (the Python appends to `children` and to `parents` in
the same loop iteration; the model keeps the one link list) -/
def childrenOfStep (g : Graph) (a s : String) : List (String × String) :=
  (g.links.filter (fun l => l.srcAsset = a && l.srcStep = s)).map (fun l => (l.dstAsset, l.dstStep))

def parentsOfStep (g : Graph) (b t : String) : List (String × String) :=
  (g.links.filter (fun l => l.dstAsset = b && l.dstStep = t)).map (fun l => (l.srcAsset, l.srcStep))

theorem mem_childrenOfStep (g : Graph) (a s b t : String) :
    (b, t) ∈ childrenOfStep g a s ↔ ({ srcAsset := a, srcStep := s, dstAsset := b, dstStep := t } : Link) ∈ g.links := by
  simp only [childrenOfStep, List.mem_map, List.mem_filter, Bool.and_eq_true, decide_eq_true_eq, Prod.mk.injEq]
  constructor
  · rintro ⟨l, ⟨hl, rfl, rfl⟩, rfl, rfl⟩; exact hl
  · intro h; exact ⟨_, ⟨h, rfl, rfl⟩, rfl, rfl⟩

/-! ## `generate` -/

theorem generate_eq (L : Lang) : generate L =
    if supersOk L = false then .error .superAssetNotFound
    else if (L.assocs.all (fun d => (L.findAsset d.leftAsset).isSome && (L.findAsset d.rightAsset).isSome)) = false
      then .error .association
    else (assocNodes L >>= fun nodes => links L nodes (genFuel L) >>= fun ls =>
      pure { assocs := nodes, links := ls }) := by
  unfold generate genFuel
  cases supersOk L <;> cases (L.assocs.all fun d => (L.findAsset d.leftAsset).isSome && (L.findAsset d.rightAsset).isSome) <;> rfl

theorem generate_ok {L : Lang} {g : Graph} (h : generate L = .ok g) :
    supersOk L = true ∧
    (∀ d ∈ L.assocs, (L.findAsset d.leftAsset).isSome = true ∧ (L.findAsset d.rightAsset).isSome = true) ∧
    assocNodes L = .ok g.assocs ∧ links L g.assocs (genFuel L) = .ok g.links := by
  rw [generate_eq] at h
  split at h
  · cases h
  · rename_i h1
    split at h
    · cases h
    · rename_i h2
      obtain ⟨nodes, hn, h⟩ := (ebind_ok_iff _ _ _).1 h
      obtain ⟨ls, hl, h⟩ := (ebind_ok_iff _ _ _).1 h
      cases h
      refine ⟨by simpa using h1, ?_, hn, hl⟩
      simp only [Bool.not_eq_false, List.all_eq_true, Bool.and_eq_true] at h2
      exact h2

/-! ## static typing against evaluation -/

/-- the asset `x` of the model has a type that is `T` or extends it -/
def Typed (L : Lang) (m : Inst) (T : String) (x : Int) : Prop :=
  ∃ tx, m.typeOf x = some tx ∧ L.isSub tx T = true

/-- the instance model conforms to the language: asset ids are unique, asset types are declared, and
every association object instantiates an association node — same field names, the members of the
left field of a type that is the node's left asset or extends it, the right members likewise -/
structure ValidFor (L : Lang) (m : Inst) (nodes : List AssocDecl) : Prop where
  ids_nodup : (m.assets.map (·.id)).Nodup
  types_declared : ∀ a ∈ m.assets, (L.findAsset a.type).isSome = true
  links_typed : ∀ l ∈ m.links, ∃ d ∈ nodes, d.leftField = l.lf ∧ d.rightField = l.rf ∧
    (∀ i ∈ l.left, Typed L m d.leftAsset i) ∧ (∀ i ∈ l.right, Typed L m d.rightAsset i)

/-- field names are unique along every hierarchy: whatever associations provide the field `f` to
ancestors-or-self of one asset type `t`, they lead to the same asset type -/
def FieldsUnique (L : Lang) (nodes : List AssocDecl) : Prop :=
  ∀ d1 ∈ nodes, ∀ d2 ∈ nodes, ∀ f S1 U1 S2 U2 t, Provides d1 f S1 U1 → Provides d2 f S2 U2 →
    L.isSub t S1 = true → L.isSub t S2 = true → U1 = U2

/-- no asset redefines a variable of an ancestor: a sub asset sees the definition its ancestors see -/
def NoShadow (L : Lang) : Prop :=
  ∀ t T v d, L.isSub t T = true → L.lookupVar T v = some d → L.lookupVar t v = some d

/-- side condition on transitive steps, one layer: wherever `e*` is typed from the asset type `T` and
`e` leads from `T` to `U`, `e` is also typed from `U` and leads from `U` to `U` or a sub asset of it
(the MAL type checker demands this; the toolbox does not check it).  `selfOK` is the condition on the
definition of a variable. -/
def StarTypedE (L : Lang) (nodes : List AssocDecl)
    (self : Expr → String → Except Err (Option (String × Option String)))
    (selfOK : Expr → String → Prop) : Expr → String → Prop
  | .step _, _ => True
  | .field _, _ => True
  | .var v, T => ∀ d, L.lookupVar T v = some d → selfOK d T
  | .collect l r, T => StarTypedE L nodes self selfOK l T ∧
      ∀ u st, typeE L nodes self l T = .ok (some (u, st)) → StarTypedE L nodes self selfOK r u
  | .union l r, T => StarTypedE L nodes self selfOK l T ∧ StarTypedE L nodes self selfOK r T
  | .inter l r, T => StarTypedE L nodes self selfOK l T ∧ StarTypedE L nodes self selfOK r T
  | .diff l r, T => StarTypedE L nodes self selfOK l T ∧ StarTypedE L nodes self selfOK r T
  | .sub _ e, T => StarTypedE L nodes self selfOK e T
  | .trans e, T => StarTypedE L nodes self selfOK e T ∧
      ∀ U st, typeE L nodes self e T = .ok (some (U, st)) →
        StarTypedE L nodes self selfOK e U ∧
        ∃ U' st', typeE L nodes self e U = .ok (some (U', st')) ∧ L.isSub U' U = true

def StarTyped (L : Lang) (nodes : List AssocDecl) : Nat → Expr → String → Prop
  | 0 => fun _ _ => True
  | k+1 => StarTypedE L nodes (typeF L nodes k) (StarTyped L nodes k)

theorem Typed.mono {L : Lang} {m : Inst} (hac : Acyclic L) {T T' : String} {x : Int}
    (h : Typed L m T x) (hs : L.isSub T T' = true) : Typed L m T' x := by
  obtain ⟨tx, h1, h2⟩ := h
  exact ⟨tx, h1, isSub_trans L tx T T' (hac tx) h2 hs⟩

theorem addNew_snd_sub (acc new cs : List Int) : ∀ a ∈ (addNew acc new cs).2, a ∈ new ∨ a ∈ cs := by
  induction cs generalizing acc new with
  | nil => intro a ha; simp only [addNew] at ha; exact Or.inl ha
  | cons c cs ih =>
    intro a ha
    simp only [addNew] at ha
    split at ha
    · rcases ih _ _ a ha with h | h
      · exact Or.inl h
      · exact Or.inr (List.mem_cons_of_mem _ h)
    · rcases ih _ _ a ha with h | h
      · rcases List.mem_append.1 h with h | h
        · exact Or.inl h
        · rw [List.mem_singleton.1 h]; exact Or.inr List.mem_cons_self
      · exact Or.inr (List.mem_cons_of_mem _ h)

/-- a property preserved by the operand is preserved by the frontier loop -/
theorem closure_pred (g : List Int → ER (List Int)) (P : Int → Prop)
    (hg : ∀ zs ws, (∀ z ∈ zs, P z) → g zs = .ok ws → ∀ y ∈ ws, P y) :
    ∀ fuel frontier acc res, (∀ a ∈ acc, P a) → (∀ z ∈ frontier, P z) →
      closure g fuel frontier acc = .ok res → ∀ y ∈ res, P y := by
  intro fuel
  induction fuel with
  | zero => intro frontier acc res _ _ h; simp [closure] at h
  | succ fuel ih =>
    intro frontier acc res hacc hfr h
    rw [closure] at h
    split at h
    · cases h; exact hacc
    · cases hgf : g frontier with
      | error e => rw [hgf] at h; cases h
      | ok nxt =>
        rw [hgf] at h
        simp only at h
        have hnxt := hg _ _ hfr hgf
        refine ih _ _ res ?_ ?_ h
        · intro a ha
          rcases (mem_addNew_fst _ _ _).1 ha with h | h
          · exact hacc a h
          · exact hnxt a h
        · intro a ha
          rcases addNew_snd_sub _ _ _ a ha with h | h
          · cases h
          · exact hnxt a h

/-- one layer of type soundness -/
theorem typeE_sound (L : Lang) (m : Inst) (nodes : List AssocDecl) (hac : Acyclic L)
    (hfu : FieldsUnique L nodes) (hns : NoShadow L)
    (hv : ∀ l ∈ m.links, ∃ d ∈ nodes, d.leftField = l.lf ∧ d.rightField = l.rf ∧
      (∀ i ∈ l.left, Typed L m d.leftAsset i) ∧ (∀ i ∈ l.right, Typed L m d.rightAsset i))
    (selfT : Expr → String → Except Err (Option (String × Option String)))
    (selfE : Expr → List Int → ER (List Int × Option String))
    (selfOK : Expr → String → Prop)
    (hself : ∀ d T U st xs r, selfOK d T → selfT d T = .ok (some (U, st)) → selfE d xs = .ok r →
      (∀ x ∈ xs, Typed L m T x) → ∀ y ∈ r.1, Typed L m U y) :
    ∀ e T U st xs r, StarTypedE L nodes selfT selfOK e T →
      typeE L nodes selfT e T = .ok (some (U, st)) → evalE L m selfE e xs = .ok r →
      (∀ x ∈ xs, Typed L m T x) → ∀ y ∈ r.1, Typed L m U y := by
  intro e
  induction e with
  | step n =>
    intro T U st xs r _ ht he hxs
    simp only [typeE] at ht; simp only [evalE] at he
    cases ht; cases he; exact hxs
  | field f =>
    intro T U st xs r _ ht he hxs y hy
    simp only [typeE] at ht; simp only [evalE] at he
    cases he
    have hft : fieldTarget L nodes T f = some U := by
      cases hf : fieldTarget L nodes T f with
      | none => rw [hf] at ht; cases ht
      | some u => rw [hf] at ht; cases ht; rfl
    obtain ⟨a, ha, S, hpa, hTS⟩ := fieldTarget_some hft
    obtain ⟨x, hx, hy⟩ := List.mem_flatMap.1 hy
    obtain ⟨tx, htx, hsx⟩ := hxs x hx
    have hxS : L.isSub tx S = true := isSub_trans L tx T S (hac tx) hsx hTS
    obtain ⟨l, hl, hc | hc⟩ := (mem_neighbours m x f y).1 hy
    · obtain ⟨d, hd, hlf, hrf, hleft, hright⟩ := hv l hl
      obtain ⟨tx', htx', hsx'⟩ := hleft x hc.1
      rw [htx] at htx'; cases htx'
      have : d.rightAsset = U :=
        hfu d hd a ha f d.leftAsset d.rightAsset S U tx (Or.inl ⟨hrf.trans hc.2.1, rfl, rfl⟩) hpa hsx' hxS
      rw [← this]; exact hright y hc.2.2
    · obtain ⟨d, hd, hlf, hrf, hleft, hright⟩ := hv l hl
      obtain ⟨tx', htx', hsx'⟩ := hright x hc.1
      rw [htx] at htx'; cases htx'
      have : d.leftAsset = U :=
        hfu d hd a ha f d.rightAsset d.leftAsset S U tx (Or.inr ⟨hlf.trans hc.2.1, rfl, rfl⟩) hpa hsx' hxS
      rw [← this]; exact hleft y hc.2.2
  | var v =>
    intro T U st xs r hwt ht he hxs
    simp only [typeE] at ht
    cases hd : L.lookupVar T v with
    | none => rw [hd] at ht; cases ht
    | some d =>
      rw [hd] at ht
      simp only at ht
      cases xs with
      | nil => simp only [evalE] at he; cases he; simp
      | cons x rest =>
        simp only [evalE] at he
        obtain ⟨tx, htx, hsx⟩ := hxs x List.mem_cons_self
        have hlv : (m.typeOf x).bind (fun t => L.lookupVar t v) = some d := by
          rw [htx]; exact hns tx T v d hsx hd
        rw [hlv] at he
        simp only at he
        split at he
        · exact hself d T U st _ r (hwt d hd) ht he hxs
        · cases he
  | collect l r' ihl ihr =>
    intro T U st xs r hwt ht he hxs
    simp only [typeE] at ht; simp only [evalE] at he
    obtain ⟨a, ha, he⟩ := (bind_ok_iff _ _ _).1 he
    obtain ⟨ta, hta, ht⟩ := (ebind_ok_iff _ _ _).1 ht
    cases ta with
    | none => cases ht
    | some p =>
      obtain ⟨u, stl⟩ := p
      simp only at ht
      exact ihr u U st a.1 r (hwt.2 u stl hta) ht he (ihl T u stl xs a hwt.1 hta ha hxs)
  | union l r' ihl ihr =>
    intro T U st xs r hwt ht he hxs y hy
    simp only [typeE] at ht; simp only [evalE] at he
    obtain ⟨a, ha, he⟩ := (bind_ok_iff _ _ _).1 he
    obtain ⟨b, hb, he⟩ := (bind_ok_iff _ _ _).1 he
    cases he
    obtain ⟨ta, hta, ht⟩ := (ebind_ok_iff _ _ _).1 ht
    obtain ⟨tb, htb, ht⟩ := (ebind_ok_iff _ _ _).1 ht
    cases ta with
    | none => cases ht
    | some pa =>
      cases tb with
      | none => cases ht
      | some pb =>
        obtain ⟨ua, sa⟩ := pa
        obtain ⟨ub, sb⟩ := pb
        simp only at ht
        cases hl : lca L ua ub with
        | none => rw [hl] at ht; cases ht
        | some c =>
          rw [hl] at ht; cases ht
          obtain ⟨h1, h2⟩ := lca_some hl
          rcases (mem_addNew_fst _ _ _).1 hy with hy | hy
          · exact (ihl T ua sa xs a hwt.1 hta ha hxs y hy).mono hac h1
          · exact (ihr T ub sb xs b hwt.2 htb hb hxs y hy).mono hac h2
  | inter l r' ihl ihr =>
    intro T U st xs r hwt ht he hxs y hy
    simp only [typeE] at ht; simp only [evalE] at he
    obtain ⟨a, ha, he⟩ := (bind_ok_iff _ _ _).1 he
    obtain ⟨b, hb, he⟩ := (bind_ok_iff _ _ _).1 he
    cases he
    obtain ⟨ta, hta, ht⟩ := (ebind_ok_iff _ _ _).1 ht
    obtain ⟨tb, htb, ht⟩ := (ebind_ok_iff _ _ _).1 ht
    cases ta with
    | none => cases ht
    | some pa =>
      cases tb with
      | none => cases ht
      | some pb =>
        obtain ⟨ua, sa⟩ := pa
        obtain ⟨ub, sb⟩ := pb
        simp only at ht
        split at ht
        · cases ht
          have hya : y ∈ a.1 := by simpa using (List.mem_filter.1 hy).2
          exact ihl T U sa xs a hwt.1 hta ha hxs y hya
        · cases ht
  | diff l r' ihl ihr =>
    intro T U st xs r hwt ht he hxs y hy
    simp only [typeE] at ht; simp only [evalE] at he
    obtain ⟨a, ha, he⟩ := (bind_ok_iff _ _ _).1 he
    obtain ⟨b, hb, he⟩ := (bind_ok_iff _ _ _).1 he
    cases he
    obtain ⟨ta, hta, ht⟩ := (ebind_ok_iff _ _ _).1 ht
    obtain ⟨tb, htb, ht⟩ := (ebind_ok_iff _ _ _).1 ht
    cases ta with
    | none => cases ht
    | some pa =>
      cases tb with
      | none => cases ht
      | some pb =>
        obtain ⟨ua, sa⟩ := pa
        obtain ⟨ub, sb⟩ := pb
        simp only at ht
        split at ht
        · cases ht
          exact ihl T U sa xs a hwt.1 hta ha hxs y (List.mem_filter.1 hy).1
        · cases ht
  | trans e ih =>
    intro T U st xs r hwt ht he hxs
    simp only [typeE] at ht; simp only [evalE] at he
    obtain ⟨res, hres, he⟩ := (bind_ok_iff _ _ _).1 he
    cases he
    obtain ⟨hwtU, U', st', htU, hUU⟩ := hwt.2 U st ht
    rw [closure] at hres
    split at hres
    · cases hres; simp
    · cases hgf : (evalE L m selfE e xs).map (·.1) with
      | error err => rw [hgf] at hres; cases hres
      | ok nxt =>
        rw [hgf] at hres
        simp only at hres
        obtain ⟨r0, hr0, e0⟩ := (map_ok_iff _ _ _).1 hgf
        subst e0
        have hnxt := ih T U st xs r0 hwt.1 ht hr0 hxs
        refine closure_pred _ (Typed L m U) ?_ _ _ _ res ?_ ?_ hres
        · intro zs ws hzs hg
          obtain ⟨r1, hr1, e1⟩ := (map_ok_iff _ _ _).1 hg
          subst e1
          intro y hy
          exact (ih U U' st' zs r1 hwtU htU hr1 hzs y hy).mono hac hUU
        · intro a ha
          rcases (mem_addNew_fst _ _ _).1 ha with h | h
          · cases h
          · exact hnxt a h
        · intro a ha
          rcases addNew_snd_sub _ _ _ a ha with h | h
          · cases h
          · exact hnxt a h
  | sub s e ih =>
    intro T U st xs r hwt ht he hxs y hy
    simp only [typeE] at ht; simp only [evalE] at he
    obtain ⟨rs, hrs, he⟩ := (bind_ok_iff _ _ _).1 he
    obtain ⟨te, hte, ht⟩ := (ebind_ok_iff _ _ _).1 ht
    have hU : U = s := by
      split at ht
      · cases ht
      · split at ht
        · cases ht
        · split at ht
          · cases ht; rfl
          · cases ht
    subst hU
    split at he
    · cases he
      have hp := (List.mem_filter.1 hy).2
      cases hty : m.typeOf y with
      | none => rw [hty] at hp; cases hp
      | some ty => rw [hty] at hp; exact ⟨ty, hty, hp⟩
    · cases he

/-- type soundness for the fuelled typing and evaluation (the two amounts of fuel are independent) -/
theorem typeF_sound (L : Lang) (m : Inst) (nodes : List AssocDecl) (hac : Acyclic L)
    (hfu : FieldsUnique L nodes) (hns : NoShadow L)
    (hv : ∀ l ∈ m.links, ∃ d ∈ nodes, d.leftField = l.lf ∧ d.rightField = l.rf ∧
      (∀ i ∈ l.left, Typed L m d.leftAsset i) ∧ (∀ i ∈ l.right, Typed L m d.rightAsset i)) :
    ∀ k k' e T U st xs r, StarTyped L nodes k e T →
      typeF L nodes k e T = .ok (some (U, st)) → evalF L m k' e xs = .ok r →
      (∀ x ∈ xs, Typed L m T x) → ∀ y ∈ r.1, Typed L m U y := by
  intro k
  induction k with
  | zero => intro k' e T U st xs r _ ht; simp [typeF] at ht
  | succ k ih =>
    intro k'
    cases k' with
    | zero => intro e T U st xs r _ _ he; simp [evalF] at he
    | succ k' =>
      intro e T U st xs r hwt ht he hxs
      exact typeE_sound L m nodes hac hfu hns hv (typeF L nodes k) (evalF L m k') (StarTyped L nodes k)
        (fun d T U st xs r hok h1 h2 h3 => ih k' d T U st xs r hok h1 h2 h3) e T U st xs r hwt ht he hxs

/-! ## the transitive-free fragment satisfies the side condition -/

/-- no transitive step, also not inside the definitions of the variables used -/
def StarFreeE (L : Lang) (selfOK : Expr → Prop) : Expr → Prop
  | .step _ => True
  | .field _ => True
  | .var v => ∀ t d, L.lookupVar t v = some d → selfOK d
  | .collect l r => StarFreeE L selfOK l ∧ StarFreeE L selfOK r
  | .union l r => StarFreeE L selfOK l ∧ StarFreeE L selfOK r
  | .inter l r => StarFreeE L selfOK l ∧ StarFreeE L selfOK r
  | .diff l r => StarFreeE L selfOK l ∧ StarFreeE L selfOK r
  | .sub _ e => StarFreeE L selfOK e
  | .trans _ => False

def StarFree (L : Lang) : Nat → Expr → Prop
  | 0 => fun _ => True
  | k+1 => StarFreeE L (StarFree L k)

theorem starTypedE_of_starFreeE (L : Lang) (nodes : List AssocDecl)
    (self : Expr → String → Except Err (Option (String × Option String)))
    (selfOK : Expr → String → Prop) (selfFree : Expr → Prop)
    (hself : ∀ d T, selfFree d → selfOK d T) :
    ∀ e T, StarFreeE L selfFree e → StarTypedE L nodes self selfOK e T := by
  intro e
  induction e with
  | step n => intro T _; trivial
  | field f => intro T _; trivial
  | var v => intro T h d hd; exact hself d T (h T d hd)
  | collect l r ihl ihr => intro T h; exact ⟨ihl T h.1, fun u _ _ => ihr u h.2⟩
  | union l r ihl ihr => intro T h; exact ⟨ihl T h.1, ihr T h.2⟩
  | inter l r ihl ihr => intro T h; exact ⟨ihl T h.1, ihr T h.2⟩
  | diff l r ihl ihr => intro T h; exact ⟨ihl T h.1, ihr T h.2⟩
  | sub s e ih => intro T h; exact ih T h
  | trans e _ => intro T h; cases h

theorem starTyped_of_starFree (L : Lang) (nodes : List AssocDecl) :
    ∀ k e T, StarFree L k e → StarTyped L nodes k e T := by
  intro k
  induction k with
  | zero => intro e T _; trivial
  | succ k ih =>
    intro e T h
    exact starTypedE_of_starFreeE L nodes (typeF L nodes k) (StarTyped L nodes k) (StarFree L k)
      (fun d T hd => ih d T hd) e T h

/-! ## step names -/

theorem tailVar_of_lastStep : ∀ (e : Expr) (n : String), lastStep e = some n → tailVar e = false := by
  intro e
  induction e with
  | step _ => intro _ _; rfl
  | collect l r _ ihr => intro n h; exact ihr n h
  | field _ => intro n h; cases h
  | var _ => intro n h; cases h
  | union _ _ _ _ => intro n h; cases h
  | inter _ _ _ _ => intro n h; cases h
  | diff _ _ _ _ => intro n h; cases h
  | trans _ _ => intro n h; cases h
  | sub _ _ _ => intro n h; cases h

/-- an expression that ends in an attack step is typed with that step -/
theorem typeE_lastStep (L : Lang) (nodes : List AssocDecl)
    (self : Expr → String → Except Err (Option (String × Option String))) :
    ∀ (e : Expr) (n T U : String) (st : Option String), lastStep e = some n →
      typeE L nodes self e T = .ok (some (U, st)) → st = some n := by
  intro e
  induction e with
  | step s => intro n T U st h ht; simp only [typeE] at ht; cases ht; exact h
  | collect l r _ ihr =>
    intro n T U st h ht
    simp only [typeE] at ht
    obtain ⟨ta, _, ht⟩ := (ebind_ok_iff _ _ _).1 ht
    cases ta with
    | none => cases ht
    | some p => exact ihr n p.1 U st h ht
  | field _ => intro n _ _ _ h; cases h
  | var _ => intro n _ _ _ h; cases h
  | union _ _ _ _ => intro n _ _ _ h; cases h
  | inter _ _ _ _ => intro n _ _ _ h; cases h
  | diff _ _ _ _ => intro n _ _ _ h; cases h
  | trans _ _ => intro n _ _ _ h; cases h
  | sub _ _ _ => intro n _ _ _ h; cases h

theorem typeF_lastStep (L : Lang) (nodes : List AssocDecl) (k : Nat) (e : Expr) (n T U : String)
    (st : Option String) (h : lastStep e = some n) (ht : typeF L nodes k e T = .ok (some (U, st))) :
    st = some n := by
  cases k with
  | zero => simp [typeF] at ht
  | succ k => exact typeE_lastStep L nodes _ e n T U st h ht

/-! ## nodes of the attack graph, assets of the model -/

theorem find_of_mem_nodup {m : Inst} (h : (m.assets.map (·.id)).Nodup) {a : IAsset} (ha : a ∈ m.assets) :
    m.find a.id = some a := by
  unfold Inst.find
  generalize m.assets = l at h ha
  induction l with
  | nil => cases ha
  | cons b l ih =>
    simp only [List.map_cons, List.nodup_cons] at h
    by_cases hb : b.id = a.id
    · rcases List.mem_cons.1 ha with e | e
      · subst e; simp
      · exfalso; apply h.1; rw [hb]; exact List.mem_map.2 ⟨a, e, rfl⟩
    · rcases List.mem_cons.1 ha with e | e
      · subst e; exact absurd rfl hb
      · rw [List.find?_cons_of_neg (by simpa using hb)]; exact ih h.2 e

theorem find_mem {m : Inst} {i : Int} {a : IAsset} (h : m.find i = some a) : a ∈ m.assets ∧ a.id = i := by
  unfold Inst.find at h
  exact ⟨List.mem_of_find?_eq_some h, by simpa using List.find?_some h⟩

/-- where a node of the generated attack graph comes from -/
theorem genNodes_node (L : Lang) (m : Inst) (ns : List GNode) (h : genNodes L m = .ok ns)
    (n : GNode) (hn : n ∈ ns) :
    ∃ a ∈ m.assets, ∃ e ∈ L.foldSteps a.type, n.asset = a.id ∧ n.assetName = a.name ∧ n.step = e.1 ∧
      n.reaches = reachExprs e.2 := by
  unfold genNodes at h
  obtain ⟨hlen, hj⟩ := genNodesFrom_spec L m _ 0 ns h
  obtain ⟨j, hjn, rfl⟩ := List.getElem_of_mem hn
  have hjs : j < (nodeSpecs L m).length := by omega
  have hmk := hj j hjs hjn
  obtain ⟨a, ha, e, he, hp⟩ := mem_nodeSpecs.1 (List.getElem_mem hjs)
  rw [hp] at hmk
  obtain ⟨_, hnode⟩ := mkNode_ok hmk
  refine ⟨a, ha, e, he, ?_⟩
  rw [hnode]
  exact ⟨rfl, rfl, rfl, rfl⟩

/-! ## decidable sufficient checks (for concrete languages) -/

theorem acyclic_of_check (L : Lang)
    (h : (L.assets.all fun a => L.chainOK (L.assets.length + 1) a.name) = true) : Acyclic L := by
  intro t
  cases hfa : L.findAsset t with
  | none => simp [Lang.chainOK, hfa]
  | some a =>
    have := List.all_eq_true.1 h a (findAsset_mem hfa)
    rw [findAsset_name hfa] at this
    exact this

/-- the two ways a declaration provides a field: (field, seen from, leads to) -/
def sides (d : AssocDecl) : List (String × String × String) :=
  [(d.rightField, d.leftAsset, d.rightAsset), (d.leftField, d.rightAsset, d.leftAsset)]

theorem provides_iff_sides (d : AssocDecl) (f S U : String) : Provides d f S U ↔ (f, S, U) ∈ sides d := by
  simp only [Provides, sides, List.mem_cons, Prod.mk.injEq, List.not_mem_nil, or_false]
  constructor
  · rintro (⟨h1, h2, h3⟩ | ⟨h1, h2, h3⟩)
    · exact Or.inl ⟨h1.symm, h2.symm, h3.symm⟩
    · exact Or.inr ⟨h1.symm, h2.symm, h3.symm⟩
  · rintro (⟨h1, h2, h3⟩ | ⟨h1, h2, h3⟩)
    · exact Or.inl ⟨h1.symm, h2.symm, h3.symm⟩
    · exact Or.inr ⟨h1.symm, h2.symm, h3.symm⟩

def fieldsUniqueCheck (L : Lang) (nodes : List AssocDecl) : Bool :=
  nodes.all fun d1 => nodes.all fun d2 => (sides d1).all fun p1 => (sides d2).all fun p2 =>
    p1.1 != p2.1 || p1.2.2 == p2.2.2 ||
      L.assets.all (fun a => !(L.isSub a.name p1.2.1 && L.isSub a.name p2.2.1))

theorem fieldsUnique_of_check (L : Lang) (nodes : List AssocDecl) (h : fieldsUniqueCheck L nodes = true) :
    FieldsUnique L nodes := by
  intro d1 hd1 d2 hd2 f S1 U1 S2 U2 t hp1 hp2 hs1 hs2
  unfold fieldsUniqueCheck at h
  have h' := List.all_eq_true.1 (List.all_eq_true.1 (List.all_eq_true.1 (List.all_eq_true.1 h d1 hd1) d2 hd2)
    (f, S1, U1) ((provides_iff_sides _ _ _ _).1 hp1)) (f, S2, U2) ((provides_iff_sides _ _ _ _).1 hp2)
  simp only [bne_self_eq_false, Bool.false_or, Bool.or_eq_true, beq_iff_eq] at h'
  rcases h' with h' | h'
  · exact h'
  · exfalso
    have ht := isSub_declared_left hs1
    cases hfa : L.findAsset t with
    | none => rw [hfa] at ht; cases ht
    | some a =>
      have := List.all_eq_true.1 h' a (findAsset_mem hfa)
      rw [findAsset_name hfa, hs1, hs2] at this
      cases this

theorem noShadow_of_no_variables (L : Lang) (h : (L.assets.all fun a => a.variables.isEmpty) = true) :
    NoShadow L := by
  intro t T v d _ hd
  obtain ⟨a, ha, hv⟩ := lookupVar_mem L T v d hd
  have := List.all_eq_true.1 h a ha
  rw [List.isEmpty_iff] at this
  rw [this] at hv; cases hv

theorem starFree_of_no_variables (L : Lang) (h : (L.assets.all fun a => a.variables.isEmpty) = true)
    (selfOK : Expr → Prop) (v : String) : StarFreeE L selfOK (.var v) := by
  intro t d hd
  obtain ⟨a, ha, hv⟩ := lookupVar_mem L t v d hd
  have := List.all_eq_true.1 h a ha
  rw [List.isEmpty_iff] at this
  rw [this] at hv; cases hv

instance (L : Lang) (m : Inst) (T : String) (x : Int) : Decidable (Typed L m T x) :=
  decidable_of_iff ((match m.typeOf x with | some tx => L.isSub tx T | none => false) = true) (by
    unfold Typed
    cases m.typeOf x with
    | none => simp
    | some tx => simp)

scoped instance instDecEqExcept {ε α} [DecidableEq ε] [DecidableEq α] : DecidableEq (Except ε α) := fun a b =>
  match a, b with
  | .ok x, .ok y => if h : x = y then isTrue (by rw [h]) else isFalse (by intro e; cases e; exact h rfl)
  | .error x, .error y => if h : x = y then isTrue (by rw [h]) else isFalse (by intro e; cases e; exact h rfl)
  | .ok _, .error _ => isFalse (by intro e; cases e)
  | .error _, .ok _ => isFalse (by intro e; cases e)

/-- syntactic check: neither transitive steps nor variables -/
def noStarNoVar : Expr → Bool
  | .step _ => true
  | .field _ => true
  | .var _ => false
  | .collect l r => noStarNoVar l && noStarNoVar r
  | .union l r => noStarNoVar l && noStarNoVar r
  | .inter l r => noStarNoVar l && noStarNoVar r
  | .diff l r => noStarNoVar l && noStarNoVar r
  | .sub _ e => noStarNoVar e
  | .trans _ => false

theorem starFreeE_of_noStarNoVar (L : Lang) (selfOK : Expr → Prop) :
    ∀ e, noStarNoVar e = true → StarFreeE L selfOK e := by
  intro e
  induction e with
  | step _ => intro _; trivial
  | field _ => intro _; trivial
  | var _ => intro h; cases h
  | collect l r ihl ihr =>
    intro h; simp only [noStarNoVar, Bool.and_eq_true] at h; exact ⟨ihl h.1, ihr h.2⟩
  | union l r ihl ihr =>
    intro h; simp only [noStarNoVar, Bool.and_eq_true] at h; exact ⟨ihl h.1, ihr h.2⟩
  | inter l r ihl ihr =>
    intro h; simp only [noStarNoVar, Bool.and_eq_true] at h; exact ⟨ihl h.1, ihr h.2⟩
  | diff l r ihl ihr =>
    intro h; simp only [noStarNoVar, Bool.and_eq_true] at h; exact ⟨ihl h.1, ihr h.2⟩
  | sub _ e ih => intro h; exact ih h
  | trans _ _ => intro h; cases h

theorem starFree_of_noStarNoVar (L : Lang) (k : Nat) (e : Expr) (h : noStarNoVar e = true) :
    StarFree L k e := by
  cases k with
  | zero => trivial
  | succ k => exact starFreeE_of_noStarNoVar L _ e h

/-! ## demo data for the non-vacuity examples of C15 -/
namespace Demo

def baseAccess : StepDecl :=
  { name := "access", type := "or",
    reaches := some { overrides := true, exprs := [.collect (.field "hosts") (.step "compromise")] } }

def hostCompromise : StepDecl :=
  { name := "compromise", type := "or",
    reaches := some { overrides := true,
                      exprs := [.collect (.union (.field "leaves") (.field "others")) (.step "access"),
                                .collect (.sub "Leaf" (.field "apps")) (.step "read")] } }

/-- `Leaf extends Mid extends Base`, `Other extends Base`, `Host`; `Runs` is declared on the ancestor
`Base`; `Host.compromise` reaches the union of the sibling types `Leaf` and `Other` -/
def lgL : Lang :=
  { assets := [
      { name := "Base", steps := [baseAccess] },
      { name := "Mid", superAsset := some "Base" },
      { name := "Leaf", superAsset := some "Mid", steps := [{ name := "read", type := "or" }] },
      { name := "Other", superAsset := some "Base" },
      { name := "Host", steps := [hostCompromise] }],
    assocs := [
      { name := "Runs", leftAsset := "Host", leftField := "hosts", rightAsset := "Base", rightField := "apps" },
      { name := "HL", leftAsset := "Host", leftField := "hl", rightAsset := "Leaf", rightField := "leaves" },
      { name := "HO", leftAsset := "Host", leftField := "ho", rightAsset := "Other", rightField := "others" }] }

def runs : AssocDecl := { name := "Runs", leftAsset := "Host", leftField := "hosts", rightAsset := "Base", rightField := "apps" }
def hl : AssocDecl := { name := "HL", leftAsset := "Host", leftField := "hl", rightAsset := "Leaf", rightField := "leaves" }
def ho : AssocDecl := { name := "HO", leftAsset := "Host", leftField := "ho", rightAsset := "Other", rightField := "others" }

/-- one host (1), a `Leaf` (2) and an `Other` (3) -/
def lgM : Inst :=
  { assets := [{ id := 1, name := "h", type := "Host" }, { id := 2, name := "lf", type := "Leaf" },
               { id := 3, name := "ot", type := "Other" }],
    links := [{ cls := "Runs", lf := "hosts", rf := "apps", left := [1], right := [2, 3] },
              { cls := "HL", lf := "hl", rf := "leaves", left := [1], right := [2] },
              { cls := "HO", lf := "ho", rf := "others", left := [1], right := [3] }] }

/-- two declarations with the same name between the same asset types, different field names -/
def kfL : Lang :=
  { assets := [{ name := "Net" }, { name := "App" }],
    assocs := [
      { name := "Conn", leftAsset := "Net", leftField := "inNets", rightAsset := "App", rightField := "inApps" },
      { name := "Conn", leftAsset := "Net", leftField := "outNets", rightAsset := "App", rightField := "outApps" }] }

def starGo : StepDecl :=
  { name := "go", type := "or",
    reaches := some { overrides := true, exprs := [.collect (.trans (.field "next")) (.step "hit")] } }

/-- a transitive step whose operand does not lead back to the type it starts from:
`A --next--> B --next--> C`, and `A.go -> (next)*.hit` -/
def starL : Lang :=
  { assets := [
      { name := "A", steps := [starGo] },
      { name := "B", steps := [{ name := "hit", type := "or" }] },
      { name := "C", steps := [{ name := "hit", type := "or" }] }],
    assocs := [
      { name := "AB", leftAsset := "A", leftField := "prevA", rightAsset := "B", rightField := "next" },
      { name := "BC", leftAsset := "B", leftField := "prevB", rightAsset := "C", rightField := "next" }] }

def starM : Inst :=
  { assets := [{ id := 1, name := "a", type := "A" }, { id := 2, name := "b", type := "B" },
               { id := 3, name := "c", type := "C" }],
    links := [{ cls := "AB", lf := "prevA", rf := "next", left := [1], right := [2] },
              { cls := "BC", lf := "prevB", rf := "next", left := [2], right := [3] }] }

def dirAccess : StepDecl :=
  { name := "access", type := "or",
    reaches := some { overrides := true, exprs := [.collect (.trans (.field "subdirs")) (.step "access")] } }

/-- a well-typed transitive step: `Dir [parent] <-- Contains --> [subdirs] Dir`, `access -> (subdirs)*.access` -/
def dirL : Lang :=
  { assets := [{ name := "Dir", steps := [dirAccess] }],
    assocs := [{ name := "Contains", leftAsset := "Dir", leftField := "parent",
                 rightAsset := "Dir", rightField := "subdirs" }] }

def contains : AssocDecl :=
  { name := "Contains", leftAsset := "Dir", leftField := "parent", rightAsset := "Dir", rightField := "subdirs" }

/-- ill-formed variants of `dirL` -/
def badSuperL : Lang := { dirL with assets := [{ name := "Dir", superAsset := some "Nowhere", steps := [dirAccess] }] }
def badEndL : Lang := { dirL with assocs := [{ contains with rightAsset := "Nowhere" }] }
def badEndsL : Lang := { dirL with assocs := [{ contains with leftAsset := "NoL", rightAsset := "NoR" }] }
def badFieldL : Lang := { dirL with assocs := [{ contains with rightField := "children" }] }
def badStepL : Lang :=
  { dirL with assets := [{ name := "Dir", steps := [{ dirAccess with name := "enter" }] }] }

end Demo

end MalVerif.LG
